(* RenderProof.v — C01: a rendered line parses back to the instruction that was rendered. *)
Require Import DS.Base DS.Parser DS.ParserSpec DS.ParserFacts DS.Render.

(* ---- white space and trimming ----------------------------------------------------------------- *)
Lemma drop_ws_all w x : forallb is_ws w = true -> drop_ws (w ++ x) = drop_ws x.
Proof.
  induction w as [|c w IH]; intros H; cbn [app forallb] in *; [reflexivity|].
  apply andb_true_iff in H as [Hc Hw]. cbn [drop_ws]. rewrite Hc. auto.
Qed.

Lemma drop_ws_nonws c x : is_ws c = false -> drop_ws (c :: x) = c :: x.
Proof. intros H. cbn [drop_ws]. now rewrite H. Qed.

Lemma drop_ws_mid x c y : is_ws c = false -> drop_ws (x ++ c :: y) = drop_ws x ++ c :: y.
Proof.
  intros Hc. induction x as [|d x IH]; cbn [app drop_ws].
  - now rewrite Hc.
  - destruct (is_ws d); [exact IH|reflexivity].
Qed.

Lemma forallb_rev {A} (f : A -> bool) l : forallb f (rev l) = forallb f l.
Proof.
  induction l as [|a l IH]; [reflexivity|]. cbn [rev forallb]. rewrite forallb_app, IH. cbn. 
  rewrite andb_true_r. apply andb_comm.
Qed.

Lemma drop_ws_only w : forallb is_ws w = true -> drop_ws w = [].
Proof. intros H. rewrite <- (app_nil_r w). now rewrite drop_ws_all. Qed.

Lemma trim_end_mid a c b : is_ws c = false -> trim_end (a ++ c :: b) = a ++ c :: trim_end b.
Proof.
  intros Hc. unfold trim_end. rewrite rev_app_distr. cbn [rev]. rewrite <- app_assoc. cbn [app].
  rewrite drop_ws_mid by assumption. rewrite rev_app_distr. cbn [rev]. rewrite rev_involutive.
  now rewrite <- app_assoc.
Qed.

Lemma trim_end_ws w : forallb is_ws w = true -> trim_end w = [].
Proof. intros H. unfold trim_end. rewrite drop_ws_only; [reflexivity|now rewrite forallb_rev]. Qed.

Lemma ends_ws_app x y : y <> [] -> ends_ws (x ++ y) = ends_ws y.
Proof.
  intros Hy. unfold ends_ws. rewrite rev_app_distr.
  destruct (rev y) eqn:E; [|reflexivity].
  apply (f_equal (@rev _)) in E. rewrite rev_involutive in E. cbn in E. congruence.
Qed.

Lemma trim_end_keep x w :
  x <> [] -> ends_ws x = false -> forallb is_ws w = true -> trim_end (x ++ w) = x.
Proof.
  intros Hx He Hw. unfold trim_end. rewrite rev_app_distr.
  rewrite drop_ws_all by now rewrite forallb_rev.
  unfold ends_ws in He. destruct (rev x) as [|c r] eqn:E.
  - apply (f_equal (@rev _)) in E. rewrite rev_involutive in E. cbn in E. congruence.
  - rewrite drop_ws_nonws by assumption. rewrite <- E. apply rev_involutive.
Qed.

Lemma ws_line_ws w : ws_line w = true -> forallb is_ws w = true.
Proof.
  unfold ws_line. rewrite !forallb_forall. intros H x Hx. specialize (H x Hx).
  now apply andb_true_iff in H as [H _].
Qed.

Lemma spaces_ws n : forallb is_ws (spaces n) = true.
Proof. induction n; cbn; auto. Qed.

(* ---- one-step facts about the token scanner ---------------------------------------------------- *)
Lemma skip_spaces fl n l : skip fl (spaces n ++ l) = skip fl l.
Proof. induction n; cbn [spaces repeat app skip]; [reflexivity|]. cbn. exact IHn. Qed.

Lemma in_arg_raw fl c l acc uq :
  (c =? c_bs) = false -> uq && (c =? c_quote) = false ->
  negb uq && ((c =? c_sp) || (c =? c_hash) || (stop_on_equals fl && (c =? c_eq))) = false ->
  in_arg fl (c :: l) acc uq false false = in_arg fl l (c :: acc) uq false false.
Proof. intros H1 H2 H3. cbn [in_arg]. now rewrite H1, H2, H3. Qed.

Lemma in_arg_esc c x l acc uq :
  esc_of c = Some x ->
  in_arg fl_arg (c_bs :: x :: l) acc uq false false = in_arg fl_arg l (c :: acc) uq false false.
Proof.
  unfold esc_of. intros H.
  destruct (c =? c_bs) eqn:E1; [apply N.eqb_eq in E1; inversion H; subst; reflexivity|].
  destruct (c =? c_quote) eqn:E2; [apply N.eqb_eq in E2; inversion H; subst; reflexivity|].
  destruct (c =? c_lf) eqn:E3; [apply N.eqb_eq in E3; inversion H; subst; reflexivity|].
  destruct (c =? c_cr) eqn:E4; [apply N.eqb_eq in E4; inversion H; subst; reflexivity|].
  destruct (c =? c_tab) eqn:E5; [apply N.eqb_eq in E5; inversion H; subst; reflexivity|].
  discriminate.
Qed.

Lemma esc_none_not_special c : esc_of c = None -> (c =? c_bs) = false /\ (c =? c_quote) = false.
Proof.
  unfold esc_of. destruct (c =? c_bs); [discriminate|]. destruct (c =? c_quote); [discriminate|]. auto.
Qed.

(* what is left after an unquoted token: the terminator stays, except that '#' ends the line *)
Definition after (tl : str) : str :=
  match tl with [] => [] | c :: _ => if c =? c_hash then [] else tl end.
(* [tl] may follow an unquoted token: end of line, space or '#' *)
Definition sep_start (tl : str) : bool :=
  match tl with [] => true | c :: _ => (c =? c_sp) || (c =? c_hash) end.

(* ---- characterising lemmas for argument tokens ------------------------------------------------- *)
Lemma in_arg_q s : forall es rest acc, valid_q s es = true ->
  in_arg fl_arg (emit_str s es ++ c_quote :: rest) acc true false false
  = POk (rest, finish (rev s ++ acc) true).
Proof.
  induction s as [|c s IH]; intros es rest acc Hv.
  - reflexivity.
  - cbn [valid_q] in Hv. apply andb_true_iff in Hv as [Hc Hs].
    cbn [emit_str rev]. rewrite <- !app_assoc. cbn [app].
    unfold emit1, escaped in *. destruct (hd false es).
    + destruct (esc_of c) as [x|] eqn:Ee; cbn [app].
      * rewrite (in_arg_esc c x) by assumption. now apply IH.
      * destruct (esc_none_not_special c Ee) as [H1 H2].
        rewrite in_arg_raw; [now apply IH|assumption|now rewrite H2|reflexivity].
    + cbn [andb orb] in Hc. apply negb_true_iff in Hc. unfold special in Hc.
      apply orb_false_iff in Hc as [Hc _]. apply orb_false_iff in Hc as [Hc _].
      apply orb_false_iff in Hc as [H1 H2]. cbn [app].
      rewrite in_arg_raw; [now apply IH|assumption|now rewrite H2|reflexivity].
Qed.

