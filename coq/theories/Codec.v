(* Codec.v — C17: base64, UTF-8 and hexadecimal codecs as arithmetic on bytes (definitions only;
   proofs in CodecProof.v).  A byte is an [N] below 256; texts are code-point lists ([Base.str]).

   Rust / crate functions mirrored:
     base64::engine::general_purpose::STANDARD.encode / .decode   (third-party crate; alphabet
        A-Z a-z 0-9 + /, '=' padding written and REQUIRED, non-zero trailing bits rejected)
     String::into_bytes / str::from_utf8                           = utf8_encode / utf8_decode
     format!("{:#x}", u64) / u64::from_str_radix(s.trim_start_matches("0x"), 16)
     str::parse::<u64>, u64::to_string *)
Require Import DS.Base DS.Utf8 DS.Strings.

Definition byte_ok (b : N) : bool := b <? 256.

(* ------------------------------------------------------------------------------------------- *)
(* base64                                                                                        *)

Definition b64_table : list N :=
  [ 65; 66; 67; 68; 69; 70; 71; 72; 73; 74; 75; 76; 77; 78; 79; 80; 81; 82; 83; 84; 85; 86; 87; 88; 89; 90;
    97; 98; 99; 100; 101; 102; 103; 104; 105; 106; 107; 108; 109; 110; 111; 112; 113; 114; 115; 116; 117;
    118; 119; 120; 121; 122;
    48; 49; 50; 51; 52; 53; 54; 55; 56; 57; 43; 47 ].

Definition enc6 (i : N) : N := nth (N.to_nat i) b64_table 0.

Definition dec6 (c : N) : option N :=
  if (65 <=? c) && (c <=? 90) then Some (c - 65)
  else if (97 <=? c) && (c <=? 122) then Some (c - 71)
  else if (48 <=? c) && (c <=? 57) then Some (c + 4)
  else if c =? 43 then Some 62
  else if c =? 47 then Some 63
  else None.

Definition c_pad : N := 61.

Fixpoint b64_encode (bs : list N) : str :=
  match bs with
  | [] => []
  | [x] => [enc6 (x / 4); enc6 ((x mod 4) * 16); c_pad; c_pad]
  | [x; y] => [enc6 (x / 4); enc6 ((x mod 4) * 16 + y / 16); enc6 ((y mod 16) * 4); c_pad]
  | x :: y :: z :: r =>
      enc6 (x / 4) :: enc6 ((x mod 4) * 16 + y / 16) :: enc6 ((y mod 16) * 4 + z / 64) :: enc6 (z mod 64)
      :: b64_encode r
  end.

(* strict decoder: whole quads only; padding only in the last quad; unused low bits must be zero *)
Fixpoint b64_decode (s : str) : option (list N) :=
  match s with
  | [] => Some []
  | a :: b :: c :: d :: r =>
      match dec6 a, dec6 b with
      | Some i0, Some i1 =>
          let b0 := i0 * 4 + i1 / 16 in
          match r with
          | [] =>
              (* last quad *)
              if (c =? c_pad) && (d =? c_pad) then
                if i1 mod 16 =? 0 then Some [b0] else None
              else
                match dec6 c with
                | Some i2 =>
                    let b1 := (i1 mod 16) * 16 + i2 / 4 in
                    if d =? c_pad then
                      if i2 mod 4 =? 0 then Some [b0; b1] else None
                    else
                      match dec6 d with
                      | Some i3 => Some [b0; b1; (i2 mod 4) * 64 + i3]
                      | None => None
                      end
                | None => None
                end
          | _ :: _ =>
              match dec6 c, dec6 d, b64_decode r with
              | Some i2, Some i3, Some rest =>
                  Some (b0 :: ((i1 mod 16) * 16 + i2 / 4) :: ((i2 mod 4) * 64 + i3) :: rest)
              | _, _, _ => None
              end
          end
      | _, _ => None
      end
  | _ => None
  end.

(* ------------------------------------------------------------------------------------------- *)
(* UTF-8                                                                                         *)

Definition utf8_encode_char (c : N) : list N :=
  if c <? 128 then [c]
  else if c <? 2048 then [192 + c / 64; 128 + c mod 64]
  else if c <? 65536 then [224 + c / 4096; 128 + (c / 64) mod 64; 128 + c mod 64]
  else [240 + c / 262144; 128 + (c / 4096) mod 64; 128 + (c / 64) mod 64; 128 + c mod 64].

Definition utf8_encode (s : str) : list N := flat_map utf8_encode_char s.

Definition is_cont (b : N) : bool := (128 <=? b) && (b <? 192).

(* str::from_utf8: shortest form only, no surrogates, nothing above U+10FFFF *)
Fixpoint utf8_decode (bs : list N) : option str :=
  match bs with
  | [] => Some []
  | b0 :: r0 =>
      if b0 <? 128 then
        match utf8_decode r0 with Some s => Some (b0 :: s) | None => None end
      else if (194 <=? b0) && (b0 <? 224) then
        match r0 with
        | b1 :: r1 =>
            if is_cont b1 then
              match utf8_decode r1 with
              | Some s => Some (((b0 - 192) * 64 + (b1 - 128)) :: s)
              | None => None
              end
            else None
        | [] => None
        end
      else if (224 <=? b0) && (b0 <? 240) then
        match r0 with
        | b1 :: b2 :: r2 =>
            let c := (b0 - 224) * 4096 + (b1 - 128) * 64 + (b2 - 128) in
            if is_cont b1 && is_cont b2 && (2048 <=? c) && scalar c then
              match utf8_decode r2 with Some s => Some (c :: s) | None => None end
            else None
        | _ => None
        end
      else if (240 <=? b0) && (b0 <? 245) then
        match r0 with
        | b1 :: b2 :: b3 :: r3 =>
            let c := (b0 - 240) * 262144 + (b1 - 128) * 4096 + (b2 - 128) * 64 + (b3 - 128) in
            if is_cont b1 && is_cont b2 && is_cont b3 && (65536 <=? c) && (c <? 1114112) then
              match utf8_decode r3 with Some s => Some (c :: s) | None => None end
            else None
        | _ => None
        end
      else None
  end.

(* ------------------------------------------------------------------------------------------- *)
(* hexadecimal                                                                                   *)

Definition u64_max : Z := 18446744073709551615%Z.
Definition parse_u64 (s : str) : option N :=
  (* <u64 as FromStr>: optional '+', digits, no '-' *)
  match s with
  | [] => None
  | c :: r =>
      let ds := if c =? 43 then r else s in
      match ds with
      | [] => None
      | _ :: _ =>
          match digits_val ds with
          | Some n => if (Z.of_N n <=? u64_max)%Z then Some n else None
          | None => None
          end
      end
  end.

Definition hex_digit (d : N) : N := if d <? 10 then 48 + d else 87 + d.      (* lower case *)
Definition hex_val (c : N) : option N :=
  if (48 <=? c) && (c <=? 57) then Some (c - 48)
  else if (97 <=? c) && (c <=? 102) then Some (c - 87)
  else if (65 <=? c) && (c <=? 70) then Some (c - 55)
  else None.

Fixpoint hex_le (fuel : nat) (n : N) : list N :=
  match fuel with
  | O => []
  | S f => if n <? 16 then [n] else (n mod 16) :: hex_le f (n / 16)
  end.
Definition hex_digits (n : N) : str := rev (map hex_digit (hex_le (S (N.to_nat (N.size n))) n)).

(* format!("{:#x}", n) *)
Definition hex_encode (n : N) : str := 48 :: 120 :: hex_digits n.

Fixpoint hex_val_acc (s : str) (acc : N) : option N :=
  match s with
  | [] => Some acc
  | c :: s' => match hex_val c with Some d => hex_val_acc s' (16 * acc + d) | None => None end
  end.

(* str::trim_start_matches("0x"): every leading repetition of the prefix is removed *)
Fixpoint strip_0x (s : str) : str :=
  match s with
  | a :: t => match t with
              | b :: r => if (a =? 48) && (b =? 120) then strip_0x r else s
              | [] => s
              end
  | [] => s
  end.

(* u64::from_str_radix(_, 16): optional '+', at least one hex digit of either case, no overflow *)
Definition from_hex_u64 (s : str) : option N :=
  match s with
  | [] => None
  | c :: r =>
      let ds := if c =? 43 then r else s in
      match ds with
      | [] => None
      | _ :: _ =>
          match hex_val_acc ds 0 with
          | Some n => if (Z.of_N n <=? u64_max)%Z then Some n else None
          | None => None
          end
      end
  end.

Definition hex_decode (s : str) : option N := from_hex_u64 (strip_0x s).

(* the commands *)
Definition cmd_hex_encode (args : list str) : result :=
  match args with
  | [] => RErr 1
  | a :: _ => match parse_u64 a with Some n => RVal (hex_encode n) | None => RErr 2 end
  end.
Definition cmd_hex_decode (args : list str) : result :=
  match args with
  | [] => RErr 1
  | a :: _ => match hex_decode a with Some n => RVal (show_N n) | None => RErr 2 end
  end.
