(* CondSliceGenTie.v — `eval_condition_for_slice` and `eval_condition` of duckscript_sdk/src/utils/condition.rs:
   the hand-written index-faithful model CondIx.v (the model C06_ix_* reason about, proved equal to the suffix
   model Cond.v of C06_eval below 2^31 tokens) is EQUAL, for all inputs, to the mechanical translation of the
   CURRENT Rust source (coq/generated/GenCondSliceFn.v, rewritten on every run by lib/rs2v.py through
   lib/gen/condslice_gen.py):

     gen_eval_slice_body_eq   one loop iteration (everything between `for argument in arguments {` and `}` including
                              `index = index + 1`) = CondIx.body followed by CondIx.bump
     gen_eval_slice_loop_eq   the whole loop + the code after it = CondIx.loop
     gen_eval_slice_go_eq     the function body with the recursive call open = the body of CondIx.eval_ix
     gen_eval_slice_eq        with the recursion closed by fuel: = CondIx.eval_ix is_true_some, any profile, any fuel
     gen_eval_slice_ix / _ix_checked / gen_eval_slice_total / gen_eval_slice_sem
                              as the SDK runs it: = eval_slice_ix (release) / eval_slice_ix_checked (overflow checks);
                              hence the translation of the source never panics and computes the and-of-ors value
     gen_eval_condition_eq    the dispatch = CondIx.eval_condition_with is_true_some

   Every theorem about a generated definition is stated under its flag [gen_.._understood = true]; when the translator
   does not understand a function any more the generated file holds [false] and a stub and the theorem holds vacuously
   (the check reports the tie as inactive).  Proofs that unfold a generated definition must also compile against the
   stub: their first sentence closes the goal by [discriminate] in that case, every later sentence is prefixed with
   [all:] (a no-op without goals), no bullets, no generated variable names.

   Proof method: both sides are decision trees over the same atoms (string tests of the argument, tests of the
   counter, the overflow outcome, the slice outcome, the result of the recursive call, found_token, the two
   accumulators).  [cs_tree] case-splits on whatever atom either tree scrutinises next, using the SPECIFICATION of a
   test (so a positive string test substitutes the argument and contradictory branches disappear), and finishes every
   leaf by boolean case analysis.  The order of the `else if` arms, of the operands of `||` / `&&`, `x += 1` versus
   `x = x + 1`, merged or split `match` arms etc. therefore do not matter; any change of behaviour does. *)
Require Import DS.Base DS.Cond DS.CondIx DS.Rs2vCondLib DS.CondIxProof.
Require DS.CondSpec.
Require Import DSG.GenCondSliceFn.
Require Import Lia.

Local Arguments i32_result : simpl never.
Local Arguments slice : simpl never.
Local Arguments is_true_some : simpl never.

(* ---- the hand model depends on the recursive evaluator only pointwise ------------------------------------- *)
Lemma body_ext truth checked ev ev' : (forall l, ev l = ev' l) ->
  forall arguments a s, body truth checked ev arguments a s = body truth checked ev' arguments a s.
Proof.
  intros H arguments a s. unfold body.
  destruct (str_eqb a s_open); [reflexivity|].
  destruct (str_eqb a s_close); [|reflexivity].
  destruct (i32_result checked (counter s - 1)) as [c|]; [|reflexivity].
  destruct (c =? 0)%Z; [|reflexivity].
  destruct (slice arguments (start_block s) (index s)) as [sub|]; [|reflexivity].
  now rewrite H.
Qed.

Lemma loop_ext truth checked ev ev' : (forall l, ev l = ev' l) ->
  forall arguments rest s, loop truth checked ev arguments rest s = loop truth checked ev' arguments rest s.
Proof.
  intros H arguments rest; induction rest as [|a rest IH]; intros s; cbn [loop]; [reflexivity|].
  rewrite (body_ext truth checked ev ev' H). destruct (body truth checked ev' arguments a s); [apply IH|reflexivity].
Qed.

(* ---- decision-tree equality ---------------------------------------------------------------------------- *)
Ltac cs_inner x :=
  lazymatch x with
  | context [match ?y with _ => _ end] => cs_inner y
  | negb ?y => cs_inner y
  | andb ?y _ => cs_inner y
  | orb ?y _ => cs_inner y
  | _ => x
  end.
Ltac cs_destruct y :=
  lazymatch y with
  | str_eqb ?a ?b => destruct (str_eqb_spec a b); [first [subst a | subst b | idtac]|]
  | Z.eqb ?a ?b => destruct (Z.eqb_spec a b); [first [subst a | subst b | idtac]|]
  | Z.ltb ?a ?b => destruct (Z.ltb_spec0 a b)
  | Z.leb ?a ?b => destruct (Z.leb_spec0 a b)
  | Nat.eqb ?a ?b => destruct (Nat.eqb_spec a b); [first [subst a | subst b | idtac]|]
  | _ => tryif is_constructor y then fail "constructor" else destruct y eqn:?
  end.
Ltac cs_step :=
  match goal with
  | |- context [match ?x with _ => _ end] => let y := cs_inner x in cs_destruct y
  end.
Ltac cs_red := cbn [searching start_block counter index itotal ipartial ifound nth_error negb andb orb].
Ltac cs_kill := try discriminate; try congruence; try lia.
Ltac cs_leaf :=
  rewrite ?Nat.add_1_r, ?Nat.add_1_l;
  try reflexivity;
  repeat match goal with |- context [is_true_some ?a] => generalize (is_true_some a); intro end;
  repeat match goal with b : bool |- _ => destruct b end;
  try reflexivity; try congruence.
Ltac cs_tree := cs_red; repeat (cs_step; cs_red; cs_kill); cs_leaf.
Ltac cs_unfold :=
  unfold body, store, bump, ifinal, unwrap_or, o_is_none, o_is_some, l_is_empty, is_true, iinit,
         s_open, s_close, s_and, s_or in *.

(* ---- eval_condition_for_slice ------------------------------------------------------------------------------ *)
Lemma gen_eval_slice_body_eq : gen_eval_slice_understood = true ->
  forall checked ev arguments s argument,
    gen_eval_slice_body checked ev arguments s argument
    = match body is_true_some checked ev arguments argument s with
      | BNext s' => BNext (bump s')
      | BRet r => BRet r
      end.
Proof.
  unfold gen_eval_slice_understood; intros U; try discriminate U; clear U.
  all: intros checked ev arguments [sr sb c i t p f] argument.
  all: unfold gen_eval_slice_body; cs_unfold.
  all: cs_tree.
Qed.

Lemma gen_eval_slice_loop_eq : gen_eval_slice_understood = true ->
  forall checked ev arguments rest s,
    match for_each_b (gen_eval_slice_body checked ev arguments) rest s with
    | BNext s' => if searching s' then IErr 1 else IOk (ifinal s')
    | BRet r => r
    end = loop is_true_some checked ev arguments rest s.
Proof.
  intros U checked ev arguments rest; induction rest as [|a rest IH]; intros s; cbn [for_each_b loop]; [reflexivity|].
  rewrite (gen_eval_slice_body_eq U).
  destruct (body is_true_some checked ev arguments a s) as [s'|r]; [apply IH|reflexivity].
Qed.

Lemma gen_eval_slice_go_eq : gen_eval_slice_understood = true ->
  forall checked ev arguments,
    gen_eval_slice_go checked ev arguments
    = match arguments with
      | [] => IOk false
      | _ => loop is_true_some checked ev arguments arguments iinit
      end.
Proof.
  intros U checked ev arguments.
  pose proof (gen_eval_slice_loop_eq U checked ev arguments arguments iinit) as L. revert U L.
  unfold gen_eval_slice_understood; intros U; try discriminate U; clear U.
  all: intros L; unfold gen_eval_slice_go.
  all: destruct arguments as [|a0 rest]; [reflexivity|].
  all: rewrite <- L; clear L; cs_unfold; cbv iota.
  all: destruct (for_each_b _ _ _) as [[sr sb c i t p f]|r]; [|reflexivity].
  all: cs_tree.
Qed.

Theorem gen_eval_slice_eq : gen_eval_slice_understood = true ->
  forall checked fuel args, gen_eval_slice checked fuel args = eval_ix is_true_some checked fuel args.
Proof.
  intros U checked fuel; induction fuel as [|fuel IH]; intros args; [reflexivity|].
  cbn [gen_eval_slice eval_ix]. rewrite (gen_eval_slice_go_eq U).
  destruct args as [|a args]; [reflexivity|]. apply loop_ext. exact IH.
Qed.

(* as the SDK runs it *)
Theorem gen_eval_slice_ix : gen_eval_slice_understood = true ->
  forall args, gen_eval_slice false (S (length args)) args = eval_slice_ix args.
Proof. intros U args. unfold eval_slice_ix. now apply gen_eval_slice_eq. Qed.

Theorem gen_eval_slice_ix_checked : gen_eval_slice_understood = true ->
  forall args, gen_eval_slice true (S (length args)) args = eval_slice_ix_checked args.
Proof. intros U args. unfold eval_slice_ix_checked. now apply gen_eval_slice_eq. Qed.

(* consequences for the translation of the source itself: it never panics and never runs out of fuel (release
   profile, every token list); on a well-formed condition below 2^31 tokens it returns the and-of-ors value *)
Theorem gen_eval_slice_total : gen_eval_slice_understood = true ->
  forall ts, gen_eval_slice false (S (length ts)) ts <> IPanic /\ gen_eval_slice false (S (length ts)) ts <> IFuel.
Proof.
  intros U ts. rewrite (gen_eval_slice_ix U). split; [apply eval_slice_ix_total|apply eval_slice_ix_terminates].
Qed.

Theorem gen_eval_slice_sem : gen_eval_slice_understood = true ->
  forall c, DS.CondSpec.wf c -> (Z.of_nat (length (DS.CondSpec.toks c)) < 2147483648)%Z ->
    gen_eval_slice false (S (length (DS.CondSpec.toks c))) (DS.CondSpec.toks c) = IOk (DS.CondSpec.sem is_true_some c).
Proof. intros U c Hw Hb. rewrite (gen_eval_slice_ix U). now apply eval_slice_ix_sem. Qed.

(* ---- eval_condition ---------------------------------------------------------------------------------------- *)
Theorem gen_eval_condition_eq : gen_eval_condition_understood = true ->
  forall checked fuel exists_cmd run_stmt args,
    gen_eval_condition checked fuel exists_cmd run_stmt args
    = eval_condition_with is_true_some checked fuel exists_cmd run_stmt args.
Proof.
  unfold gen_eval_condition_understood; intros U; try discriminate U; clear U.
  all: intros checked fuel exists_cmd run_stmt args.
  all: unfold gen_eval_condition, eval_condition_with; cs_unfold.
  all: cs_tree.
Qed.

Theorem gen_eval_condition_ix : gen_eval_condition_understood = true ->
  forall exists_cmd run_stmt args,
    gen_eval_condition false (S (length args)) exists_cmd run_stmt args = eval_condition_ix exists_cmd run_stmt args.
Proof. intros U ex run args. unfold eval_condition_ix. now apply gen_eval_condition_eq. Qed.
