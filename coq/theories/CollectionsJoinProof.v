(* CollectionsJoinProof.v — array_join: the hand translation of its script (CollectionsJoin.v)
   computes what the specification says, for arguments in none of the classes of finding F7. *)
From stdpp Require Import gmap list.
From Coq Require Import NArith ZArith Lia.
Require Import DS.Collections DS.CollectionsScripts DS.CollectionsSpec DS.CollectionsProof DS.CollectionsJoin.
Require DS.Base DS.Utf8 DS.Strings DS.Expansion DS.EvalSer DS.CollectionsJoinStr.

Lemma with_trailing_cons sep x items :
  with_trailing sep (x :: items) = x ++ sep ++ with_trailing sep items.
Proof. unfold with_trailing. cbn [fmap list_fmap concat]. now rewrite <- app_assoc. Qed.
Lemma with_trailing_join sep items :
  items <> [] -> with_trailing sep items = join sep items ++ sep.
Proof.
  induction items as [|x [|y r] IH]; intros H; [congruence| |].
  - rewrite with_trailing_cons. cbn. now rewrite app_nil_r.
  - rewrite with_trailing_cons, IH by congruence. cbn [join]. now rewrite <- !app_assoc.
Qed.
Lemma with_trailing_nil_sep items : with_trailing [] items = join [] items.
Proof.
  induction items as [|x [|y r] IH]; [reflexivity| |].
  - rewrite with_trailing_cons. cbn. now rewrite !app_nil_r.
  - rewrite with_trailing_cons, IH. reflexivity.
Qed.

Lemma aj_loop_spec s a1 sep l :
  hs s !! a1 = Some (HList l) ->
  forall fuel it string, (it <= length l)%nat -> (length l - it < fuel)%nat ->
  aj_loop fuel a1 sep it string s = Done (string ++ with_trailing sep (elem_str <$> drop it l)).
Proof.
  intros Ha. induction fuel as [|f IH]; intros it string Hit Hf; [lia|].
  cbn [aj_loop]. unfold next_iteration. rewrite Ha.
  destruct (l !! it) as [x|] eqn:El; cbn [fmap option_fmap option_map].
  - apply lookup_lt_Some in El as Hlt. rewrite IH by lia. rewrite (drop_S l x it El).
    cbn [fmap list_fmap]. rewrite with_trailing_cons, <- !app_assoc. reflexivity.
  - apply lookup_ge_None in El. rewrite drop_ge by lia. cbn. now rewrite app_nil_r.
Qed.

Section JoinRefine.
Variable rnd : nat -> handle.
Variable ord : nat -> list str -> list str.

(* array_join on its domain: both arguments are in none of the F7 classes (ok_arg) and the text
   built by the loop is below 2^53 bytes (the range in which `calc` is exact) *)
Theorem rs_array_join e a1 a2 rest s :
  ok_arg a1 = true -> ok_arg a2 = true ->
  (forall l, look_list (hs s) a1 = Found l ->
     (Z.of_N (DS.Utf8.blen (with_trailing a2 (elem_str <$> l))) <= DS.Strings.two53)%Z) ->
  script_array_join e (a1 :: a2 :: rest) s = Some (Done (step_s rnd ord CArrayJoin (a1 :: a2 :: rest) s)).
Proof.
  intros H1 H2 Hsz. unfold script_array_join.
  rewrite (DS.CollectionsJoinStr.rebound_ok e t_is_array a1) by (try reflexivity; exact H1).
  rewrite (r_is_array rnd ord [a1] s). unfold step_s. cbv beta iota zeta delta [spec]. cbn [apply].
  unfold look_list in *. destruct (hs s !! a1) as [[l|m|x|t]|] eqn:Ea; cbn [ok_bool bool_str];
    try (replace (str_eqb s_false s_true) with false
           by (symmetry; apply bool_decide_eq_false_2; discriminate); reflexivity).
  rewrite str_eqb_refl.
  rewrite (DS.CollectionsJoinStr.rebound_ok e t_array_is_empty a1) by (try reflexivity; exact H1).
  rewrite (rs_array_is_empty rnd ord [a1] s). unfold step_s. cbv beta iota zeta delta [spec].
  unfold on, look_list. rewrite Ea. cbn [apply ok_bool].
  destruct l as [|x0 l0].
  - rewrite bool_decide_eq_true_2 by reflexivity. cbn [bool_str]. rewrite str_eqb_refl. reflexivity.
  - rewrite bool_decide_eq_false_2 by discriminate. cbn [bool_str].
    replace (str_eqb s_false s_true) with false by (symmetry; apply bool_decide_eq_false_2; discriminate).
    unfold aj_fuel. rewrite Ea.
    rewrite (aj_loop_spec s a1 a2 (x0 :: l0) Ea) by (cbn; lia). rewrite drop_0. cbn [app].
    rewrite (DS.CollectionsJoinStr.rebound_ok e t_is_empty a2) by (try reflexivity; exact H2).
    cbn [cmd_is_empty]. destruct (decide (a2 = [])) as [->|Hne].
    + rewrite bool_decide_eq_true_2 by reflexivity. now rewrite with_trailing_nil_sep.
    + rewrite bool_decide_eq_false_2 by exact Hne.
      assert (Hitems : elem_str <$> (x0 :: l0) <> []) by discriminate.
      specialize (Hsz (x0 :: l0) eq_refl).
      pose proof (with_trailing_join a2 _ Hitems) as E. rewrite E in Hsz |- *.
      match goal with |- context [aj_trim ?a ?b] =>
        replace (aj_trim a b) with (Some (join a2 (elem_str <$> x0 :: l0)))
          by (symmetry; exact (DS.CollectionsJoinStr.aj_trim_ok _ a2 Hne Hsz))
      end. reflexivity.
Qed.
End JoinRefine.

(* ---- outside the domain: finding F7 ------------------------------------------------------------- *)
Definition jh : str := [104%N].
Definition jst : mstate := MS (<[jh := HList [EStr [97%N]; EStr [98%N]]]> ∅) 1 None.
Definition jout (o : option (outcome (cres * mstate))) : option cres :=
  match o with Some (Done (c, _)) => Some c | _ => None end.
(* `array_join [a, b] #`: the separator is in class H (a # without a space: the rest of the rebuilt
   line is a comment), `is_empty` gets no argument, answers true, and the trailing separator stays;
   `array_join [a, b]` with the separator QUOTE SPACE x (class Q): the same.  The specification
   says a#b and a QUOTE SPACE x b. *)
Lemma array_join_F7_refuted :
  DS.EvalSer.cls_H [35%N] = true /\ ok_arg [35%N] = false /\
  jout (script_array_join DS.Expansion.env_empty [jh; [35%N]] jst) = Some (Cont (Some [97; 35; 98; 35]%N)) /\
  (step_s rnd0 ord0 CArrayJoin [jh; [35%N]] jst).1 = Cont (Some [97; 35; 98]%N) /\
  DS.EvalSer.cls_Q [34; 32; 120]%N = true /\
  jout (script_array_join DS.Expansion.env_empty [jh; [34; 32; 120]%N] jst)
    = Some (Cont (Some [97; 34; 32; 120; 98; 34; 32; 120]%N)).
Proof. vm_compute. repeat split; reflexivity. Qed.
(* inside the domain: multi-byte and empty items, multi-byte separator *)
Lemma array_join_example :
  let st := MS (<[jh := HList [EStr [233%N]; EStr []; ENum (-7); EStr [128512%N]]]> ∅) 1 None in
  ok_arg jh = true /\ ok_arg [8364%N; 32%N] = true /\
  jout (script_array_join DS.Expansion.env_empty [jh; [8364%N; 32%N]] st)
  = Some (Cont (Some [233; 8364; 32; 8364; 32; 45; 55; 8364; 32; 128512]%N)).
Proof. vm_compute. repeat split; reflexivity. Qed.
