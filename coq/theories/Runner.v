(* Runner.v — model of duckscript/src/runner.rs (definitions only; proofs are in RunnerProof.v).

   One Coq function per Rust function:
     create_runtime            -> [label_table]   (label -> instruction index, later lines overwrite)
     run_instructions          -> [step] (one iteration of the `loop`) and [run] (the loop, with fuel)
     run_instruction           -> [run_instruction]
     update_output             -> [update_output]
     run_on_error_instruction  -> [run_on_error]
   Commands are a Section variable: the runner is verified for *every* command behaviour.
   Argument binding (expansion::expand_by_wrapper) is abstracted to the identity: the instruction's
   arguments are the arguments the command sees.  That is exact for arguments without `$`, `%` and
   backslash (C02 is the property about binding); the generators stay inside that set.
   The halt flag is [halt] of the world (a command may raise it) or'ed with an external oracle
   [ext] indexed by the poll number (another thread). *)
From stdpp Require Import gmap.
Require Import DS.Base.
Local Open Scope nat_scope.

Definition vmap := gmap str str.

(* ---- text helpers ------------------------------------------------------------------------ *)
Fixpoint uint_str (u : Decimal.uint) : str :=
  match u with
  | Decimal.Nil => []
  | Decimal.D0 u => 48%N :: uint_str u | Decimal.D1 u => 49%N :: uint_str u
  | Decimal.D2 u => 50%N :: uint_str u | Decimal.D3 u => 51%N :: uint_str u
  | Decimal.D4 u => 52%N :: uint_str u | Decimal.D5 u => 53%N :: uint_str u
  | Decimal.D6 u => 54%N :: uint_str u | Decimal.D7 u => 55%N :: uint_str u
  | Decimal.D8 u => 56%N :: uint_str u | Decimal.D9 u => 57%N :: uint_str u
  end.
(* usize::to_string *)
Definition nat_str (n : nat) : str := uint_str (Nat.to_uint n).

(* str::parse::<i32>: optional sign, at least one ASCII digit, nothing else, value in range *)
Fixpoint digits (s : str) (acc : Z) : option Z :=
  match s with
  | [] => Some acc
  | c :: s' => if ((48 <=? c) && (c <=? 57))%N then digits s' (acc * 10 + Z.of_N (c - 48))%Z else None
  end.
Definition parse_i32 (s : str) : option Z :=
  match s with
  | [] => None
  | c :: r =>
    let neg := (c =? 45)%N in
    let ds := if ((c =? 45) || (c =? 43))%N then r else s in
    match ds with
    | [] => None
    | _ => match digits ds 0 with
           | Some v => let z := if neg then (- v)%Z else v in
                       if ((-2147483648 <=? z) && (z <=? 2147483647))%Z then Some z else None
           | None => None
           end
    end
  end.

Definition false_str : str := [102;97;108;115;101]%N.                      (* "false" *)
Definition on_error_name : str := [111;110;95;101;114;114;111;114]%N.       (* "on_error" *)

(* ---- instructions ------------------------------------------------------------------------ *)
Record meta := Meta { m_line : option nat; m_src : option str }.
Record sinstr := SI { s_label : option str; s_out : option str; s_cmd : option str; s_args : list str }.
Inductive itype := IEmpty | IPre | IScript (s : sinstr).
Record instr := Instr { i_meta : meta; i_type : itype }.
Notation program := (list instr) (only parsing).

Definition label_of (i : instr) : option str :=
  match i_type i with IScript s => s_label s | _ => None end.

(* create_runtime: `for instruction in &instructions { if label { insert(label, line) }; line += 1 }` *)
Fixpoint labels_from (p : program) (line : nat) (t : gmap str nat) : gmap str nat :=
  match p with
  | [] => t
  | i :: p' => labels_from p' (S line) (match label_of i with Some l => <[l := line]> t | None => t end)
  end.
Definition label_table (p : program) : gmap str nat := labels_from p 0 ∅.

(* ---- command results --------------------------------------------------------------------- *)
Inductive emsg := Msg (m : str) | NotFound (c : str).      (* NotFound c = "Command: c not found." *)
Inductive goto := GLabel (l : str) | GLine (n : nat).
Inductive result :=
| Continue (o : option str)
| GoTo (o : option str) (g : goto)
| Error (m : str)
| Crash (m : emsg)
| Exit (o : option str).

(* what a command sees besides the world: CommandInvocationContext.{arguments,output_variable,line} *)
Record inv := Inv { a_args : list str; a_out : option str; a_line : nat }.
Record call := Call { c_name : str; c_inv : inv }.
(* one executed top-level instruction: its index and the command invocations it caused
   (none for empty lines / unknown commands, two when the on_error command ran) *)
Record event := Event { e_pc : nat; e_calls : list call }.

Inductive reason := ReachedEnd | ExitCalled | Halted.
Inductive rerr :=
| RCrash (m : emsg)          (* Crash result, or unknown command *)
| RLabel (l : str)           (* "Label: l not found." *)
| RExitCode (z : Z)          (* "Exit with error code: z" *)
| RHandlerExit               (* on_error returned Exit: "Exiting Script." *)
| RHandlerCrash (m : emsg).  (* on_error returned Crash m *)

Section Runner.
Variable cstate : Type.                      (* Context.state and Context.commands: whatever commands keep *)
Record world := World { vars : vmap; cst : cstate; halt : bool }.
Variable exists_cmd : cstate -> str -> bool. (* Commands::exists / get_for_use(..).is_some() *)
Variable cmd : str -> inv -> world -> result * world.
Variable ext : nat -> bool.                  (* the flag as raised by the embedder, seen at poll k *)

Inductive final := FOk (r : reason) (w : world) | FErr (e : rerr) (m : meta).
Inductive outcome := Done (f : final) (t : list event) | OutOfFuel.

Record config := Config { pc : nat; wd : world; polls : nat; trace : list event }.

Definition set_vars (w : world) (v : vmap) : world := World v (cst w) (halt w).

(* update_output *)
Definition update_output (w : world) (ov : option str) (o : option str) : world :=
  match ov with
  | Some v => match o with
              | Some x => set_vars w (<[v := x]> (vars w))
              | None => set_vars w (delete v (vars w))
              end
  | None => w
  end.

(* run_instruction: (result, output variable, world afterwards, invocations) *)
Record ri_out := RI { ri_res : result; ri_ov : option str; ri_w : world; ri_calls : list call }.
Definition run_instruction (w : world) (i : instr) (line : nat) : ri_out :=
  match i_type i with
  | IEmpty => RI (Continue None) None w []
  | IPre => RI (Continue None) None w []
  | IScript s =>
    match s_cmd s with
    | Some c =>
      if exists_cmd (cst w) c then
        let a := Inv (s_args s) (s_out s) line in
        let rw := cmd c a w in
        RI (fst rw) (s_out s) (snd rw) [Call c a]
      else RI (Crash (NotFound c)) (s_out s) w []
    | None => RI (Continue None) (s_out s) w []
    end
  end.

(* run_on_error_instruction: the synthetic instruction carries an empty meta and runs at line 0 *)
Definition on_error_instr (msg : str) (m : meta) : instr :=
  Instr (Meta None None)
        (IScript (SI None None (Some on_error_name)
                     [msg; nat_str (default 0 (m_line m)); default [] (m_src m)])).
Record oe_out := OE { oe_err : option rerr; oe_w : world; oe_calls : list call }.
Definition run_on_error (w : world) (msg : str) (m : meta) : oe_out :=
  if exists_cmd (cst w) on_error_name then
    let o := run_instruction w (on_error_instr msg m) 0 in
    match ri_res o with
    | Exit out => OE (Some RHandlerExit) (update_output (ri_w o) (ri_ov o) out) (ri_calls o)
    | Crash e => OE (Some (RHandlerCrash e)) (ri_w o) (ri_calls o)
    | _ => OE None (ri_w o) (ri_calls o)
    end
  else OE None w [].

Definition flag_seen (c : config) : bool := halt (wd c) || ext (polls c).

(* exit status: only an output that parses as a non-zero i32 makes the run fail *)
Definition exit_code (o : option str) : option Z :=
  match o with
  | Some s => match parse_i32 s with
              | Some z => if (z =? 0)%Z then None else Some z
              | None => None
              end
  | None => None
  end.

Section Prog.
Variable prog : program.
Variable lt : gmap str nat.     (* Runtime.label_to_line *)

(* the body of one iteration of the loop of run_instructions after the halt poll: fetch with
   bounds test, run_instruction, the five result arms.  inl = next iteration, inr = run over *)
Definition exec (c : config) : config + final * list event :=
  match prog !! pc c with
  | None => inr (FOk ReachedEnd (wd c), trace c)
  | Some i =>
    let m := i_meta i in
    let o := run_instruction (wd c) i (pc c) in
    let tr calls := trace c ++ [Event (pc c) calls] in
    match ri_res o with
    | Exit out =>
      let w1 := update_output (ri_w o) (ri_ov o) out in
      match exit_code out with
      | Some z => inr (FErr (RExitCode z) m, tr (ri_calls o))
      | None => inr (FOk ExitCalled w1, tr (ri_calls o))
      end
    | Error e =>
      let w1 := update_output (ri_w o) (ri_ov o) (Some false_str) in
      let h := run_on_error w1 e m in
      match oe_err h with
      | Some err => inr (FErr err m, tr (ri_calls o ++ oe_calls h))
      | None => inl (Config (S (pc c)) (oe_w h) (S (polls c)) (tr (ri_calls o ++ oe_calls h)))
      end
    | Crash e => inr (FErr (RCrash e) m, tr (ri_calls o))
    | Continue out =>
      inl (Config (S (pc c)) (update_output (ri_w o) (ri_ov o) out) (S (polls c)) (tr (ri_calls o)))
    | GoTo out g =>
      let w1 := update_output (ri_w o) (ri_ov o) out in
      match g with
      | GLabel l =>
        match lt !! l with
        | Some n => inl (Config n w1 (S (polls c)) (tr (ri_calls o)))
        | None => inr (FErr (RLabel l) m, tr (ri_calls o))
        end
      | GLine n => inl (Config n w1 (S (polls c)) (tr (ri_calls o)))
      end
    end
  end.

(* one full iteration: the halt flag is polled first *)
Definition step (c : config) : config + final * list event :=
  if flag_seen c then inr (FOk Halted (wd c), trace c) else exec c.

Fixpoint loop (fuel : nat) (c : config) : outcome :=
  match fuel with
  | O => OutOfFuel
  | S f => match step c with
           | inl c' => loop f c'
           | inr (fin, t) => Done fin t
           end
  end.

(* n iterations of the machine that never looks at the flag (used to state C13):
   the configuration reached, if the run lasts that long *)
Fixpoint iter_nohalt (n : nat) (c : config) : option config :=
  match n with
  | O => Some c
  | S k => match exec c with inl c' => iter_nohalt k c' | inr _ => None end
  end.
(* ... and the un-halted run itself *)
Fixpoint loop_nohalt (fuel : nat) (c : config) : outcome :=
  match fuel with
  | O => OutOfFuel
  | S f => match exec c with
           | inl c' => loop_nohalt f c'
           | inr (fin, t) => Done fin t
           end
  end.
End Prog.

(* run (runner.rs `run`): create_runtime, then the loop from line 0 *)
Definition init (w : world) : config := Config 0 w 0 [].
Definition run (fuel : nat) (p : program) (w : world) : outcome :=
  loop p (label_table p) fuel (init w).

End Runner.

Arguments World {cstate}. Arguments vars {cstate}. Arguments cst {cstate}. Arguments halt {cstate}.
Arguments FOk {cstate}. Arguments FErr {cstate}. Arguments Done {cstate}. Arguments OutOfFuel {cstate}.
Arguments Config {cstate}. Arguments pc {cstate}. Arguments wd {cstate}. Arguments polls {cstate}.
Arguments trace {cstate}.
Arguments set_vars {cstate}. Arguments update_output {cstate}.
Arguments RI {cstate}. Arguments ri_res {cstate}. Arguments ri_ov {cstate}. Arguments ri_w {cstate}.
Arguments ri_calls {cstate}.
Arguments OE {cstate}. Arguments oe_err {cstate}. Arguments oe_w {cstate}. Arguments oe_calls {cstate}.
Arguments init {cstate}.
