(* SdkErrInst.v — the instance of SdkErr.v run by the C10 correspondence check (definitions only).
   User commands: hsnap v1 v2 ... logs the values of the named variables; hfail [msg] answers
   Error msg; every name in the [u_fail] table is a (library or script-implemented) command that
   fails with the tabulated message (the messages are read from the implementation by a
   calibration run, not written down here). *)
From stdpp Require Import gmap.
Require Import DS.Base DS.Cond DS.Runner DS.SdkErr.
Local Open Scope nat_scope.

Definition n_hsnap : str := [104;115;110;97;112]%N.
Definition n_hfail : str := [104;102;97;105;108]%N.
Definition msg_fail : str := [102;97;105;108]%N.

Record ustate := UState { u_fail : gmap str str; u_log : list (list (option str)) }.

Definition u_exists (u : ustate) (name : str) : bool :=
  str_eqb name n_hsnap || str_eqb name n_hfail ||
  match u_fail u !! name with Some _ => true | None => false end.

Definition u_cmd (name : str) (a : inv) (w : world (estate ustate)) : result * world (estate ustate) :=
  if str_eqb name n_hsnap then
    let st := cst w in
    let u := e_user st in
    (Continue None,
     set_cst w (EState (e_error st) (e_line st) (e_source st) (e_exit st)
                       (UState (u_fail u) (u_log u ++ [map (fun v => vars w !! v) (a_args a)]))))
  else if str_eqb name n_hfail then
    (Error (match a_args a with m :: _ => m | [] => msg_fail end), w)
  else
    match u_fail (e_user (cst w)) !! name with
    | Some m => (Error m, w)
    | None => (Crash (NotFound name), w)
    end.

Definition e_run (fuel : nat) (p : program) (fails : list (str * str)) : outcome (estate ustate) :=
  run (estate ustate) (sdk_exists ustate u_exists) (sdk_cmd ustate u_cmd) (fun _ => false) fuel p
      (World ∅ (EState None None None None (UState (list_to_map fails) [])) false).

(* the configuration after n instruction executions (used to read the snapshot log of a failed run) *)
Definition e_iter (n : nat) (p : program) (fails : list (str * str)) : option (config (estate ustate)) :=
  iter_nohalt (estate ustate) (sdk_exists ustate u_exists) (sdk_cmd ustate u_cmd) p (label_table p) n
      (init (World ∅ (EState None None None None (UState (list_to_map fails) [])) false)).

Definition e_log (w : world (estate ustate)) : list (list (option str)) := u_log (e_user (cst w)).
Definition e_var (w : world (estate ustate)) (v : str) : option str := vars w !! v.
