(* FlowifGenTie.v — the flow-control hand model (Flow.v: create_if_meta, if_meta_info, if_pop, if_push, step_if,
   step_elseif, step_else, the end-if arm of step; FlowFnC.v: cstep_if, cstep_elseif) equals the Gallina translation of
   duckscript_sdk/src/sdk/std/flowcontrol/ifelse/mod.rs (coq/generated/GenFlowifFn.v, regenerated from the source on
   every run by lib/gen/flowif_gen.py).

   The translation works on the typed view [gis X] of the runtime state (FlowifGenLib.v) and carries what the Rust
   carries and the hand model omits: the `line_context_name` field of every CallInfo and the `<line_context_name>::<line>`
   STRING keys of the meta-info cache and of the `end` table.  The hand model (Flow.v header) assumes line_context_name is
   one constant.  The ties are therefore stated on the image of the embedding [emb lcn] of model states into translation
   states, for EVERY constant lcn: all CallInfo entries carry lcn, the current line context name is lcn, the keys are
   `lcn::line`.  [emb lcn] is injective (emb_inj), so every tie is an equality between the two functions on all model
   states.

   Proof style: every lemma compiles against the real generated file AND against the all-stub file: it starts with
   `unfold <flag>; intros U; try discriminate U. all: clear U.` and every later sentence is prefixed with `all:`; no
   generated variable names are used. *)
Require Import DS.Base DS.Strings DS.StringsProof DS.Cond DS.FlowTables DS.FlowScan DS.Flow DS.FlowFn DS.FlowFnC DS.FlowifGenLib.
Require Import DSG.GenFlowNames DSG.GenFlowifFn.
Open Scope nat_scope.

(* ---- the embedding ------------------------------------------------------------------------------------------------ *)
(* flowcontrol/mod.rs::get_line_key for the constant line context name lcn *)
Definition line_key (lcn : str) (line : nat) : str := (lcn ++ [58%N; 58%N]) ++ usize_to_string line.

Definition emb_call (lcn : str) (e : ifcall) : gifcall :=
  mkGIC (ic_current e) (ic_passed e) (ic_idx e) (ic_meta e) lcn.
Definition emb_key {B : Type} (lcn : str) (p : nat * B) : str * B := (line_key lcn (fst p), snd p).
(* the three components of the flow state the if / else code reaches, blanked *)
Definition clr (f : flow) : flow := set_end [] (set_ifstk [] (set_ifmeta [] f)).
Definition emb_gen {X : Type} (x : X) (lcn : str) (f : flow) : gis X :=
  mkGIS x lcn (map (emb_key lcn) (f_ifmeta f)) (map (emb_call lcn) (f_ifstk f)) (map (emb_key lcn) (f_end f)).
(* states of the C04 machine (Flow.state) and of the C05 machines (FlowFn.fstate) *)
Definition emb (lcn : str) (s : state) : gis state := emb_gen (fst s, clr (snd s)) lcn (snd s).
Definition embC (lcn : str) (s : fstate) : gis fstate :=
  emb_gen (fst (fst s), clr (snd (fst s)), snd s) lcn (snd (fst s)).

Lemma usize_to_string_inj a b : usize_to_string a = usize_to_string b -> a = b.
Proof.
  unfold usize_to_string. intros H. apply (f_equal digits_val) in H.
  rewrite !digits_val_show_N in H. injection H as H. now apply Nat2N.inj.
Qed.
Lemma line_key_inj lcn a b : line_key lcn a = line_key lcn b -> a = b.
Proof. unfold line_key. intros H. apply app_inv_head in H. now apply usize_to_string_inj. Qed.
Lemma line_key_eqb lcn a b : str_eqb (line_key lcn a) (line_key lcn b) = Nat.eqb a b.
Proof.
  destruct (Nat.eqb_spec a b) as [->|Hne]; [apply str_eqb_refl|].
  apply str_eqb_neq. intros H. apply Hne. eapply line_key_inj, H.
Qed.

Lemma aget_emb {B : Type} lcn l (t : list (nat * B)) :
  aget str_eqb (line_key lcn l) (map (emb_key lcn) t) = aget Nat.eqb l t.
Proof.
  induction t as [|[k v] t IH]; [reflexivity|].
  cbn [map emb_key fst snd aget]. rewrite line_key_eqb, IH. reflexivity.
Qed.
Lemma aset_emb {B : Type} lcn l (v : B) (t : list (nat * B)) :
  aset str_eqb (line_key lcn l) v (map (emb_key lcn) t) = map (emb_key lcn) (aset Nat.eqb l v t).
Proof.
  induction t as [|[k v'] t IH]; [reflexivity|].
  cbn [map emb_key fst snd aset]. rewrite line_key_eqb.
  destruct (Nat.eqb l k); cbn [map emb_key fst snd]; [reflexivity|]. now rewrite IH.
Qed.

Lemma emb_call_inj lcn a b : emb_call lcn a = emb_call lcn b -> a = b.
Proof. destruct a, b. unfold emb_call. cbn. intros H. injection H as -> -> -> ->. reflexivity. Qed.
Lemma emb_key_inj {B : Type} lcn (a b : nat * B) : emb_key lcn a = emb_key lcn b -> a = b.
Proof.
  destruct a, b. unfold emb_key. cbn. intros H. injection H as H ->. apply line_key_inj in H. now subst.
Qed.
Lemma map_inj {A B : Type} (f : A -> B) : (forall a b, f a = f b -> a = b) -> forall l l', map f l = map f l' -> l = l'.
Proof.
  intros Hf l. induction l as [|a l IH]; intros [|b l'] H; try discriminate; [reflexivity|].
  cbn in H. injection H as H1 H2. f_equal; auto.
Qed.
Lemma flow_clr_eq f f' :
  clr f = clr f' -> f_ifmeta f = f_ifmeta f' -> f_ifstk f = f_ifstk f' -> f_end f = f_end f' -> f = f'.
Proof. destruct f, f'. unfold clr. cbn. intros H -> -> ->. injection H as -> -> -> ->. reflexivity. Qed.
(* the embedding loses nothing *)
Lemma emb_gen_inj {X : Type} (x x' : X) lcn f f' :
  emb_gen x lcn f = emb_gen x' lcn f' ->
  x = x' /\ f_ifmeta f = f_ifmeta f' /\ f_ifstk f = f_ifstk f' /\ f_end f = f_end f'.
Proof.
  unfold emb_gen. intros H. injection H as Hx Hm Hs He.
  apply (map_inj _ (emb_key_inj lcn)) in Hm. apply (map_inj _ (emb_call_inj lcn)) in Hs.
  apply (map_inj _ (emb_key_inj lcn)) in He. auto.
Qed.
Lemma emb_inj lcn s s' : emb lcn s = emb lcn s' -> s = s'.
Proof.
  destruct s as [w f], s' as [w' f']. unfold emb. cbn [fst snd]. intros H.
  apply emb_gen_inj in H. destruct H as (Hx & Hm & Hs & He).
  destruct f, f'. unfold clr, set_end, set_ifstk, set_ifmeta in Hx. cbn in *. congruence.
Qed.
Lemma embC_inj lcn s s' : embC lcn s = embC lcn s' -> s = s'.
Proof.
  destruct s as [[w f] g], s' as [[w' f'] g']. unfold embC. cbn [fst snd]. intros H.
  apply emb_gen_inj in H. destruct H as (Hx & Hm & Hs & He).
  destruct f, f'. unfold clr, set_end, set_ifstk, set_ifmeta in Hx. cbn in *. congruence.
Qed.

Lemma clr_end_set l n f : clr (end_set l n f) = clr f.
Proof. destruct f; reflexivity. Qed.
Lemma clr_set_ifmeta v f : clr (set_ifmeta v f) = clr f.
Proof. destruct f; reflexivity. Qed.
Lemma clr_set_ifstk v f : clr (set_ifstk v f) = clr f.
Proof. destruct f; reflexivity. Qed.
Lemma clr_if_push e f : clr (if_push e f) = clr f.
Proof. destruct f; reflexivity. Qed.

(* ---- get_line_key, end::set_command -------------------------------------------------------------------------------- *)
Lemma gen_get_line_key_eq : gen_get_line_key_understood = true ->
  forall (X : Type) (x : X) lcn line f, gen_get_line_key line (emb_gen x lcn f) = line_key lcn line.
Proof.
  unfold gen_get_line_key_understood; intros U; try discriminate U. all: clear U.
  all: intros X x lcn line f.
  all: reflexivity.
Qed.

Lemma gen_end_set_command_eq : gen_end_set_command_understood = true ->
  forall (X : Type) (x : X) lcn line name f,
    gen_end_set_command line name (emb_gen x lcn f) = emb_gen x lcn (end_set line name f).
Proof.
  unfold gen_end_set_command_understood; intros U; try discriminate U. all: clear U.
  all: intros X x lcn line name f.
  all: unfold gen_end_set_command.
  all: rewrite (gen_get_line_key_eq eq_refl).
  all: unfold emb_gen; cbn [gis_x gis_lcn gis_meta gis_stk gis_end].
  all: rewrite aset_emb.
  all: destruct f; reflexivity.
Qed.

(* ---- create_if_meta_info_for_line ------------------------------------------------------------------------------------ *)
(* for the package the commands are registered under (GenFlowNames.gen_flow_package, regenerated from the load
   functions), the five name lists the source builds are the tables of the hand model *)
Lemma gen_create_if_meta_info_for_line_eq : gen_create_if_meta_info_for_line_understood = true ->
  forall P line, gen_create_if_meta_info_for_line line (cmds P) gen_flow_package = create_if_meta P line.
Proof.
  unfold gen_create_if_meta_info_for_line_understood; intros U; try discriminate U. all: clear U.
  all: intros P line.
  all: unfold gen_create_if_meta_info_for_line, create_if_meta.
  all: rewrite ?Nat.add_1_r.
  all: match goal with |- context [find_commands ?T _ _] =>
         replace T with gen_if_tables by (vm_compute; reflexivity) end.
  all: destruct (find_commands gen_if_tables (cmds P) (S line)); reflexivity.
Qed.

(* ---- get_or_create_if_meta_info_for_line ----------------------------------------------------------------------------- *)
Lemma endif_name_eq : pckg_concat gen_flow_package [69%N;110%N;100%N;73%N;102%N] = gen_endif_name.
Proof. vm_compute. reflexivity. Qed.

Lemma emb_gen_fold {X : Type} (x : X) lcn f :
  mkGIS x lcn (map (emb_key lcn) (f_ifmeta f)) (map (emb_call lcn) (f_ifstk f)) (map (emb_key lcn) (f_end f))
  = emb_gen x lcn f.
Proof. reflexivity. Qed.
Lemma emb_gen_meta {X : Type} (x : X) lcn f k m :
  mkGIS x lcn ((line_key lcn k, m) :: map (emb_key lcn) (f_ifmeta f)) (map (emb_call lcn) (f_ifstk f))
        (map (emb_key lcn) (f_end f))
  = emb_gen x lcn (set_ifmeta ((k, m) :: f_ifmeta f) f).
Proof. destruct f; reflexivity. Qed.

Lemma gen_get_or_create_if_meta_info_for_line_eq : gen_get_or_create_if_meta_info_for_line_understood = true ->
  forall (X : Type) (x : X) lcn P line f,
    gen_get_or_create_if_meta_info_for_line line (cmds P) gen_flow_package (emb_gen x lcn f)
    = (fst (if_meta_info P line f), emb_gen x lcn (snd (if_meta_info P line f))).
Proof.
  unfold gen_get_or_create_if_meta_info_for_line_understood; intros U; try discriminate U. all: clear U.
  all: intros X x lcn P line f.
  all: unfold gen_get_or_create_if_meta_info_for_line, if_meta_info.
  all: rewrite ?(gen_get_line_key_eq eq_refl), ?(gen_create_if_meta_info_for_line_eq eq_refl), ?endif_name_eq.
  all: cbn [emb_gen gis_x gis_lcn gis_meta gis_stk gis_end].
  all: rewrite aget_emb.
  all: destruct (aget Nat.eqb line (f_ifmeta f)); [|destruct (create_if_meta P line)]; cbn [fst snd].
  all: rewrite ?(gen_get_line_key_eq eq_refl), ?endif_name_eq.
  all: rewrite ?emb_gen_meta, ?emb_gen_fold.
  all: rewrite ?(gen_end_set_command_eq eq_refl).
  all: reflexivity.
Qed.

(* ---- store_call_info / pop_call_info_for_line -------------------------------------------------------------------- *)
Lemma gen_store_call_info_eq : gen_store_call_info_understood = true ->
  forall (X : Type) (x : X) lcn e f,
    gen_store_call_info (emb_call lcn e) (emb_gen x lcn f) = emb_gen x lcn (if_push e f).
Proof.
  unfold gen_store_call_info_understood; intros U; try discriminate U. all: clear U.
  all: intros X x lcn e f.
  all: destruct f; reflexivity.
Qed.

Definition emb_pop {X : Type} (x : X) (lcn : str) (f : flow) (r : option ifcall * list ifcall) : option gifcall * gis X :=
  (option_map (emb_call lcn) (fst r), emb_gen x lcn (set_ifstk (snd r) f)).

Lemma emb_gen_stk {X : Type} (x : X) lcn f stk :
  mkGIS x lcn (map (emb_key lcn) (f_ifmeta f)) (map (emb_call lcn) stk) (map (emb_key lcn) (f_end f))
  = emb_gen x lcn (set_ifstk stk f).
Proof. destruct f; reflexivity. Qed.

(* the loop: any fuel above the height of the stack is enough *)
Lemma gen_pop_loop_eq : gen_pop_call_info_for_line_understood = true ->
  forall (X : Type) (x : X) lcn line f stk fuel, length stk < fuel ->
    loop_r (gen_pop_call_info_for_line_body line lcn) fuel (emb_gen x lcn (set_ifstk stk f))
    = Some (emb_pop x lcn f (if_pop line stk)).
Proof.
  unfold gen_pop_call_info_for_line_understood; intros U; try discriminate U. all: clear U.
  all: intros X x lcn line f stk.
  all: induction stk as [|e stk IH]; intros fuel Hf; (destruct fuel as [|fuel]; [inversion Hf|]).
  all: cbn [loop_r]; unfold gen_pop_call_info_for_line_body.
  all: rewrite <- emb_gen_stk; cbn [gis_x gis_lcn gis_meta gis_stk gis_end map if_pop].
  all: try reflexivity.
  all: cbn [emb_call gic_current gic_lcn]; rewrite ?str_eqb_refl, ?Bool.andb_true_r, ?Bool.andb_true_l.
  all: destruct (Nat.eqb (ic_current e) line); [reflexivity|].
  all: rewrite emb_gen_stk; apply IH; cbn [length] in Hf; apply Nat.succ_lt_mono, Hf.
Qed.

Lemma gen_pop_call_info_for_line_eq : gen_pop_call_info_for_line_understood = true ->
  forall (X : Type) (x : X) lcn line f,
    gen_pop_call_info_for_line line (emb_gen x lcn f) = Some (emb_pop x lcn f (if_pop line (f_ifstk f))).
Proof.
  intros U X x lcn line f.
  assert (E : emb_gen x lcn f = emb_gen x lcn (set_ifstk (f_ifstk f) f)) by (destruct f; reflexivity).
  revert U E. unfold gen_pop_call_info_for_line_understood; intros U; try discriminate U.
  all: intros E.
  all: unfold gen_pop_call_info_for_line.
  all: cbn [emb_gen gis_lcn gis_stk]; rewrite map_length.
  all: change (mkGIS x lcn (map (emb_key lcn) (f_ifmeta f)) (map (emb_call lcn) (f_ifstk f)) (map (emb_key lcn) (f_end f)))
       with (emb_gen x lcn f).
  all: rewrite E; apply (gen_pop_loop_eq U); apply Nat.lt_succ_diag_r.
Qed.

(* ---- IfCommand::run / ElseIfCommand::run / ElseCommand::run / EndIfCommand::run ---------------------------------- *)
Lemma clr_if_meta_info P line f : clr (snd (if_meta_info P line f)) = clr f.
Proof.
  unfold if_meta_info. destruct (aget Nat.eqb line (f_ifmeta f)); [|destruct (create_if_meta P line)]; cbn [snd];
    rewrite ?clr_end_set, ?clr_set_ifmeta; reflexivity.
Qed.
Lemma emb_call_fold lcn a b c d : mkGIC a b c d lcn = emb_call lcn (mkIC a b c d).
Proof. reflexivity. Qed.
Lemma emb_gen_lcn {X : Type} (x : X) lcn f : gis_lcn (emb_gen x lcn f) = lcn.
Proof. reflexivity. Qed.

(* condition::eval_condition as the C04 machine has it (Flow.eval_cond: only the world changes, never an error) *)
Definition evc_base (c : cond) (_ : list str) (st : gis state) : option bool * gis state :=
  (Some (fst (eval_cond c (fst (gis_x st)))),
   mkGIS (snd (eval_cond c (fst (gis_x st))), snd (gis_x st)) (gis_lcn st) (gis_meta st) (gis_stk st) (gis_end st)).

(* leaves: fold the record literals back into embeddings, use the ties of the callees *)
Ltac fi_leaf :=
  cbn [fst snd option_map gis_x gis_lcn gis_meta gis_stk gis_end emb_gen
       emb_call ic_current ic_passed ic_idx ic_meta gic_current gic_passed gic_idx gic_meta gic_lcn];
  rewrite ?Nat.add_1_r;
  rewrite ?emb_call_fold, ?emb_gen_fold;
  rewrite ?(gen_store_call_info_eq eq_refl);
  rewrite ?clr_if_push, ?clr_set_ifstk;
  try reflexivity.

Lemma gen_if_run_eq : gen_if_run_understood = true ->
  forall lcn P line c a args w f,
    gen_if_run (evc_base c) gen_flow_package (a :: args) line (cmds P) (emb lcn (w, f))
    = (fst (step_if P line c (w, f)), emb lcn (snd (step_if P line c (w, f)))).
Proof.
  unfold gen_if_run_understood; intros U; try discriminate U. all: clear U.
  all: intros lcn P line c a args w f.
  all: unfold gen_if_run, step_if, emb, evc_base; cbn [fst snd].
  all: rewrite (gen_get_or_create_if_meta_info_for_line_eq eq_refl).
  all: generalize (clr_if_meta_info P line f).
  all: destruct (if_meta_info P line f) as [[m|] f1]; cbn [fst snd]; intros <-; [|reflexivity].
  all: cbn [gis_x gis_lcn gis_meta gis_stk gis_end emb_gen fst snd].
  all: destruct (eval_cond c w) as [[|] w1]; destruct (im_else m) as [|l0 ls]; fi_leaf.
Qed.

Lemma gen_if_run_noargs : gen_if_run_understood = true ->
  forall (X : Type) ev pkg line instrs (st : gis X), gen_if_run ev pkg [] line instrs st = (RError 10%N, st).
Proof.
  unfold gen_if_run_understood; intros U; try discriminate U. all: clear U.
  all: reflexivity.
Qed.

Lemma gen_elseif_run_eq : gen_elseif_run_understood = true ->
  forall lcn line c a args w f,
    gen_elseif_run (evc_base c) (a :: args) line (emb lcn (w, f))
    = Some (fst (step_elseif line c (w, f)), emb lcn (snd (step_elseif line c (w, f)))).
Proof.
  unfold gen_elseif_run_understood; intros U; try discriminate U. all: clear U.
  all: intros lcn line c a args w f.
  all: unfold gen_elseif_run, step_elseif, emb, evc_base; cbn [fst snd].
  all: rewrite (gen_pop_call_info_for_line_eq eq_refl); unfold emb_pop.
  all: destruct (if_pop line (f_ifstk f)) as [[[cur [|] idx m]|] stk]; fi_leaf.
  all: destruct (eval_cond c w) as [[|] w1]; fi_leaf.
  all: destruct (S idx <? length (im_else m)); fi_leaf.
  all: try (destruct (nth_error (im_else m) (S idx)); fi_leaf).
  all: try (destruct (nth_error (im_else m) 0); fi_leaf).
Qed.

Lemma gen_elseif_run_noargs : gen_elseif_run_understood = true ->
  forall (X : Type) ev line (st : gis X), gen_elseif_run ev [] line st = Some (RError 10%N, st).
Proof.
  unfold gen_elseif_run_understood; intros U; try discriminate U. all: clear U.
  all: reflexivity.
Qed.

Lemma gen_else_run_eq : gen_else_run_understood = true ->
  forall lcn line w f,
    gen_else_run line (emb lcn (w, f))
    = Some (fst (step_else line (w, f)), emb lcn (snd (step_else line (w, f)))).
Proof.
  unfold gen_else_run_understood; intros U; try discriminate U. all: clear U.
  all: intros lcn line w f.
  all: unfold gen_else_run, step_else, emb; cbn [fst snd].
  all: rewrite (gen_pop_call_info_for_line_eq eq_refl); unfold emb_pop.
  all: destruct (if_pop line (f_ifstk f)) as [[[cur [|] idx m]|] stk]; fi_leaf.
Qed.

(* EndIfCommand::run is the end-if arm of Flow.step *)
Lemma gen_endif_run_eq : gen_endif_run_understood = true ->
  forall lcn P line c s, classify c = KEndIf ->
    gen_endif_run (emb lcn s)
    = (fst (step P line (mkI (Some c) ANone) s), emb lcn (snd (step P line (mkI (Some c) ANone) s))).
Proof.
  unfold gen_endif_run_understood; intros U; try discriminate U. all: clear U.
  all: intros lcn P line c s K.
  all: unfold step; cbn [i_cmd i_arg]; rewrite K.
  all: reflexivity.
Qed.

(* ---- the machines of C05 (FlowFnC.cstep_if / cstep_elseif: conditions that may call user functions) ---------------- *)
(* [evc] is a condition evaluator on translation states that does what the model's evaluator [ev c] does on model states
   (an evaluation may run nested instructions and change every part of the state; an error leaves the state alone) *)
Definition evc_sim (lcn : str) (ev : ev_t) (c : fcond) (evc : list str -> gis fstate -> option bool * gis fstate) : Prop :=
  forall args s, evc args (embC lcn s) = match ev c s with
                                          | Some (b, s') => (Some b, embC lcn s')
                                          | None => (None, embC lcn s)
                                          end.

Lemma cmds_down P : cmds (map down P) = fcmds P.
Proof. unfold cmds, fcmds. rewrite map_map. reflexivity. Qed.

Lemma embC_unfold lcn w f g : embC lcn (w, f, g) = emb_gen (w, clr f, g) lcn f.
Proof. reflexivity. Qed.

Ltac fi_leafC :=
  rewrite ?embC_unfold;
  cbn [fst snd option_map gis_x gis_lcn gis_meta gis_stk gis_end
       emb_call ic_current ic_passed ic_idx ic_meta gic_current gic_passed gic_idx gic_meta gic_lcn];
  rewrite ?emb_gen_lcn;
  rewrite ?Nat.add_1_r;
  rewrite ?emb_call_fold;
  rewrite ?(gen_store_call_info_eq eq_refl);
  rewrite ?clr_if_push, ?clr_set_ifstk;
  try reflexivity.

Lemma gen_if_run_c_eq : gen_if_run_understood = true ->
  forall lcn ev evc P line c a args s, evc_sim lcn ev c evc ->
    gen_if_run evc gen_flow_package (a :: args) line (fcmds P) (embC lcn s)
    = (fst (cstep_if ev P line c s), embC lcn (snd (cstep_if ev P line c s))).
Proof.
  unfold gen_if_run_understood; intros U; try discriminate U. all: clear U.
  all: intros lcn ev evc P line c a args [[w f] g] Hev.
  all: unfold gen_if_run, cstep_if; rewrite embC_unfold, <- cmds_down.
  all: rewrite (gen_get_or_create_if_meta_info_for_line_eq eq_refl).
  all: generalize (clr_if_meta_info (map down P) line f).
  all: destruct (if_meta_info (map down P) line f) as [[m|] f1]; cbn [fst snd]; intros <-; [|reflexivity].
  all: rewrite <- embC_unfold, Hev.
  all: destruct (ev c (w, f1, g)) as [[[|] [[w1 f2] g2]]|]; destruct (im_else m) as [|l0 ls]; fi_leafC.
Qed.

Lemma gen_elseif_run_c_eq : gen_elseif_run_understood = true ->
  forall lcn ev evc line c a args s, evc_sim lcn ev c evc ->
    gen_elseif_run evc (a :: args) line (embC lcn s)
    = Some (fst (cstep_elseif ev line c s), embC lcn (snd (cstep_elseif ev line c s))).
Proof.
  unfold gen_elseif_run_understood; intros U; try discriminate U. all: clear U.
  all: intros lcn ev evc line c a args [[w f] g] Hev.
  all: unfold gen_elseif_run, cstep_elseif; rewrite embC_unfold.
  all: rewrite (gen_pop_call_info_for_line_eq eq_refl); unfold emb_pop.
  all: destruct (if_pop line (f_ifstk f)) as [[[cur [|] idx m]|] stk]; cbn [fst snd option_map emb_call ic_passed gic_passed
         ic_current ic_idx ic_meta gic_meta gic_idx]; rewrite <- ?(clr_set_ifstk stk f), <- ?embC_unfold; try (rewrite ?Nat.add_1_r; reflexivity).
  all: rewrite Hev.
  all: destruct (ev c (w, set_ifstk stk f, g)) as [[[|] [[w1 f2] g2]]|]; fi_leafC.
  all: destruct (S idx <? length (im_else m)); fi_leafC.
  all: try (destruct (nth_error (im_else m) (S idx)); fi_leafC).
  all: try (destruct (nth_error (im_else m) 0); fi_leafC).
Qed.

(* `if` / `elseif` without arguments: the source's "Missing condition" error is the wrong-shape arm of Flow.step *)
Lemma gen_if_run_noargs_step : gen_if_run_understood = true ->
  forall lcn ev pkg P line c s, classify c = KIf ->
    gen_if_run ev pkg [] line (cmds P) (emb lcn s)
    = (fst (step P line (mkI (Some c) ANone) s), emb lcn (snd (step P line (mkI (Some c) ANone) s))).
Proof.
  intros U lcn ev pkg P line c s K. rewrite (gen_if_run_noargs U).
  unfold step; cbn [i_cmd i_arg]; rewrite K. reflexivity.
Qed.
Lemma gen_elseif_run_noargs_step : gen_elseif_run_understood = true ->
  forall lcn ev P line c s, classify c = KElseIf ->
    gen_elseif_run ev [] line (emb lcn s)
    = Some (fst (step P line (mkI (Some c) ANone) s), emb lcn (snd (step P line (mkI (Some c) ANone) s))).
Proof.
  intros U lcn ev P line c s K. rewrite (gen_elseif_run_noargs U).
  unfold step; cbn [i_cmd i_arg]; rewrite K. reflexivity.
Qed.
