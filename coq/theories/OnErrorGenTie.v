(* OnErrorGenTie.v — the hand-written model of the SDK's error commands (SdkErr.v: run_on_error_cmd,
   run_exit_on_error, run_set_error and the query / trigger arms of sdk_cmd — the model the C10 theorems are
   about) is EQUAL, for every ustate, invocation and world, to the mechanical translation of the CURRENT Rust
   source (coq/generated/GenOnErrorFn.v, rewritten on every run by lib/rs2v.py through lib/gen/onerror_gen.py):

     gen_run_on_error_cmd           = Some (run_on_error_cmd ..)       sdk/std/on_error/on_error/mod.rs            run
     gen_run_exit_on_error          = Some (run_exit_on_error ..)      sdk/std/on_error/exit_on_error/mod.rs       run
     gen_run_get_last_error         = Some (Continue (e_error ..), w)  sdk/std/on_error/get_last_error/mod.rs      run
     gen_run_get_last_error_line    = Some (Continue (e_line ..), w)   sdk/std/on_error/get_last_error_line/..     run
     gen_run_get_last_error_source  = Some (Continue (e_source ..), w) sdk/std/on_error/get_last_error_source/..   run
     gen_run_set_error              = Some (run_set_error ..)          sdk/std/on_error/set_error/mod.rs           run
     gen_run_trigger_error          = Some (Error (first argument or "Error"), w)            trigger_error/mod.rs  run
     gen_run_assert_error           = Some (Error (first argument or "Assert failed."), w)   test/assert_error     run
   (on_error::get_value is executed inside each translated caller, specialised to the caller's literal key.)

   [Some]: the translation has an explicit panic outcome [None] for every `context.arguments[i]`; the equalities
   say in particular that no access is ever out of bounds (each one sits behind its argument-count test).

   and, per command, the DISPATCH theorem: for every name in the alias table read from the command's `aliases()`,
   SdkErr.sdk_cmd under that name is the translated `run` — so the names sdk_cmd tests for are the names the source
   registers, and the arms behind them are what the source does.

   Each theorem is stated under its flag [gen_<fn>_understood = true]: when the translator does not understand the
   source any more the generated file carries [false] and a stub, and the theorem holds vacuously.

   The proofs do not mention generated variable names.  They destruct the invocation, the world and the error
   record, split the argument list into its first three elements and a rest, and then decide every test that
   occurs ([tree_case]); the leaves are closed by [reflexivity].  So rewrites that keep the meaning (a flipped
   test with swapped arms, `len() == 0` for `is_empty()`, `if let` for `match`, a helper inlined by hand, the
   writes in another order, a `match` on the argument count) leave them provable.  After the first sentence of a
   proof (which closes the goal when the generated file is the stub) every sentence is prefixed with [all:]. *)
From stdpp Require Import gmap.
Require Import DS.Base DS.Cond DS.Runner DS.SdkErr.
Require Import DSG.GenOnErrorFn.
Local Open Scope nat_scope.

(* decide one test of the goal: an `if`, a match on an option / list, a boolean under negb *)
Ltac tree_case :=
  match goal with
  | |- context [if ?b then _ else _] => destruct b eqn:?
  | |- context [match ?x with Some _ => _ | None => _ end] => destruct x eqn:?
  | |- context [match ?x with [] => _ | _ :: _ => _ end] => destruct x eqn:?
  end.

Ltac open_world a w :=
  let args := fresh "args" in
  destruct a as [args ? ?]; destruct w as [? [? ? ? ? ?] ?];
  destruct args as [|? [|? [|? ?]]].

Ltac simp_all :=
  cbn [a_args a_line a_out cst vars halt e_error e_line e_source e_exit e_user option_map
       nth_error length negb Nat.ltb Nat.leb Nat.eqb] in *.

Ltac run_cases :=
  unfold exit_on, set_cst; simp_all;
  repeat (tree_case; simp_all);
  try reflexivity; try discriminate; try congruence.

(* ---- on_error ------------------------------------------------------------------------------------ *)
Theorem gen_run_on_error_cmd_eq : gen_run_on_error_cmd_understood = true ->
  forall ustate a w, gen_run_on_error_cmd ustate a w = Some (run_on_error_cmd ustate a w).
Proof.
  unfold gen_run_on_error_cmd_understood; intros U; try discriminate U.
  all: clear U.
  all: intros ustate a w; unfold gen_run_on_error_cmd, run_on_error_cmd; open_world a w.
  all: run_cases.
Qed.

(* ---- exit_on_error ------------------------------------------------------------------------------- *)
Theorem gen_run_exit_on_error_eq : gen_run_exit_on_error_understood = true ->
  forall ustate a w, gen_run_exit_on_error ustate a w = Some (run_exit_on_error ustate a w).
Proof.
  unfold gen_run_exit_on_error_understood; intros U; try discriminate U.
  all: clear U.
  all: intros ustate a w; unfold gen_run_exit_on_error, run_exit_on_error; open_world a w.
  all: run_cases.
Qed.

(* ---- the three queries ---------------------------------------------------------------------------- *)
Theorem gen_run_get_last_error_eq : gen_run_get_last_error_understood = true ->
  forall ustate (a : inv) (w : world (estate ustate)),
    gen_run_get_last_error ustate a w = Some (Continue (e_error (cst w)), w).
Proof.
  unfold gen_run_get_last_error_understood; intros U; try discriminate U.
  all: clear U.
  all: intros ustate a w; unfold gen_run_get_last_error; open_world a w.
  all: run_cases.
Qed.

Theorem gen_run_get_last_error_line_eq : gen_run_get_last_error_line_understood = true ->
  forall ustate (a : inv) (w : world (estate ustate)),
    gen_run_get_last_error_line ustate a w = Some (Continue (e_line (cst w)), w).
Proof.
  unfold gen_run_get_last_error_line_understood; intros U; try discriminate U.
  all: clear U.
  all: intros ustate a w; unfold gen_run_get_last_error_line; open_world a w.
  all: run_cases.
Qed.

Theorem gen_run_get_last_error_source_eq : gen_run_get_last_error_source_understood = true ->
  forall ustate (a : inv) (w : world (estate ustate)),
    gen_run_get_last_error_source ustate a w = Some (Continue (e_source (cst w)), w).
Proof.
  unfold gen_run_get_last_error_source_understood; intros U; try discriminate U.
  all: clear U.
  all: intros ustate a w; unfold gen_run_get_last_error_source; open_world a w.
  all: run_cases.
Qed.

(* ---- set_error ------------------------------------------------------------------------------------ *)
Theorem gen_run_set_error_eq : gen_run_set_error_understood = true ->
  forall ustate a w, gen_run_set_error ustate a w = Some (run_set_error ustate a w).
Proof.
  unfold gen_run_set_error_understood; intros U; try discriminate U.
  all: clear U.
  all: intros ustate a w; unfold gen_run_set_error, run_set_error; open_world a w.
  all: run_cases.
Qed.

(* ---- trigger_error / assert_error ---------------------------------------------------------------- *)
Theorem gen_run_trigger_error_eq : gen_run_trigger_error_understood = true ->
  forall ustate (a : inv) (w : world (estate ustate)),
    gen_run_trigger_error ustate a w = Some (Error (match a_args a with m :: _ => m | [] => msg_error end), w).
Proof.
  unfold gen_run_trigger_error_understood; intros U; try discriminate U.
  all: clear U.
  all: intros ustate a w; unfold gen_run_trigger_error; open_world a w.
  all: run_cases.
Qed.

Theorem gen_run_assert_error_eq : gen_run_assert_error_understood = true ->
  forall ustate (a : inv) (w : world (estate ustate)),
    gen_run_assert_error ustate a w = Some (Error (match a_args a with m :: _ => m | [] => msg_assert_failed end), w).
Proof.
  unfold gen_run_assert_error_understood; intros U; try discriminate U.
  all: clear U.
  all: intros ustate a w; unfold gen_run_assert_error; open_world a w.
  all: run_cases.
Qed.

(* ---- dispatch: sdk_cmd under every alias the source registers IS the translated run ---------------- *)
(* [sdk_cmd name] for a literal name computes (string comparisons of closed literals) *)
Ltac alias_cases H :=
  cbn [In] in H;
  repeat match type of H with _ \/ _ => destruct H as [H|H] end;
  try contradiction; subst.

Theorem gen_on_error_dispatch : gen_run_on_error_cmd_understood = true ->
  forall ustate ucmd name a w, In name gen_on_error_aliases ->
    gen_run_on_error_cmd ustate a w = Some (sdk_cmd ustate ucmd name a w).
Proof.
  intros U. pose proof (gen_run_on_error_cmd_eq U) as E. revert U.
  unfold gen_run_on_error_cmd_understood; intros U; try discriminate U.
  all: clear U.
  all: intros ustate ucmd name a w H; rewrite E; unfold gen_on_error_aliases in H; alias_cases H.
  all: reflexivity.
Qed.

Theorem gen_exit_on_error_dispatch : gen_run_exit_on_error_understood = true ->
  forall ustate ucmd name a w, In name gen_exit_on_error_aliases ->
    gen_run_exit_on_error ustate a w = Some (sdk_cmd ustate ucmd name a w).
Proof.
  intros U. pose proof (gen_run_exit_on_error_eq U) as E. revert U.
  unfold gen_run_exit_on_error_understood; intros U; try discriminate U.
  all: clear U.
  all: intros ustate ucmd name a w H; rewrite E; unfold gen_exit_on_error_aliases in H; alias_cases H.
  all: reflexivity.
Qed.

Theorem gen_get_last_error_dispatch : gen_run_get_last_error_understood = true ->
  forall ustate ucmd name a w, In name gen_get_last_error_aliases ->
    gen_run_get_last_error ustate a w = Some (sdk_cmd ustate ucmd name a w).
Proof.
  intros U. pose proof (gen_run_get_last_error_eq U) as E. revert U.
  unfold gen_run_get_last_error_understood; intros U; try discriminate U.
  all: clear U.
  all: intros ustate ucmd name a w H; rewrite E; unfold gen_get_last_error_aliases in H; alias_cases H.
  all: reflexivity.
Qed.

Theorem gen_get_last_error_line_dispatch : gen_run_get_last_error_line_understood = true ->
  forall ustate ucmd name a w, In name gen_get_last_error_line_aliases ->
    gen_run_get_last_error_line ustate a w = Some (sdk_cmd ustate ucmd name a w).
Proof.
  intros U. pose proof (gen_run_get_last_error_line_eq U) as E. revert U.
  unfold gen_run_get_last_error_line_understood; intros U; try discriminate U.
  all: clear U.
  all: intros ustate ucmd name a w H; rewrite E; unfold gen_get_last_error_line_aliases in H; alias_cases H.
  all: reflexivity.
Qed.

Theorem gen_get_last_error_source_dispatch : gen_run_get_last_error_source_understood = true ->
  forall ustate ucmd name a w, In name gen_get_last_error_source_aliases ->
    gen_run_get_last_error_source ustate a w = Some (sdk_cmd ustate ucmd name a w).
Proof.
  intros U. pose proof (gen_run_get_last_error_source_eq U) as E. revert U.
  unfold gen_run_get_last_error_source_understood; intros U; try discriminate U.
  all: clear U.
  all: intros ustate ucmd name a w H; rewrite E; unfold gen_get_last_error_source_aliases in H; alias_cases H.
  all: reflexivity.
Qed.

Theorem gen_set_error_dispatch : gen_run_set_error_understood = true ->
  forall ustate ucmd name a w, In name gen_set_error_aliases ->
    gen_run_set_error ustate a w = Some (sdk_cmd ustate ucmd name a w).
Proof.
  intros U. pose proof (gen_run_set_error_eq U) as E. revert U.
  unfold gen_run_set_error_understood; intros U; try discriminate U.
  all: clear U.
  all: intros ustate ucmd name a w H; rewrite E; unfold gen_set_error_aliases in H; alias_cases H.
  all: reflexivity.
Qed.

Theorem gen_trigger_error_dispatch : gen_run_trigger_error_understood = true ->
  forall ustate ucmd name a w, In name gen_trigger_error_aliases ->
    gen_run_trigger_error ustate a w = Some (sdk_cmd ustate ucmd name a w).
Proof.
  intros U. pose proof (gen_run_trigger_error_eq U) as E. revert U.
  unfold gen_run_trigger_error_understood; intros U; try discriminate U.
  all: clear U.
  all: intros ustate ucmd name a w H; rewrite E; unfold gen_trigger_error_aliases in H; alias_cases H.
  all: reflexivity.
Qed.

Theorem gen_assert_error_dispatch : gen_run_assert_error_understood = true ->
  forall ustate ucmd name a w, In name gen_assert_error_aliases ->
    gen_run_assert_error ustate a w = Some (sdk_cmd ustate ucmd name a w).
Proof.
  intros U. pose proof (gen_run_assert_error_eq U) as E. revert U.
  unfold gen_run_assert_error_understood; intros U; try discriminate U.
  all: clear U.
  all: intros ustate ucmd name a w H; rewrite E; unfold gen_assert_error_aliases in H; alias_cases H.
  all: reflexivity.
Qed.

(* the names SdkErr.is_sdk answers for are exactly the aliases the translated commands register (as sets) *)
Definition gen_all_aliases : list str :=
  gen_on_error_aliases ++ gen_exit_on_error_aliases ++ gen_get_last_error_aliases ++
  gen_get_last_error_line_aliases ++ gen_get_last_error_source_aliases ++ gen_set_error_aliases ++
  gen_trigger_error_aliases ++ gen_assert_error_aliases.

Theorem gen_sdk_names : gen_run_on_error_cmd_understood = true -> gen_run_exit_on_error_understood = true ->
  gen_run_get_last_error_understood = true -> gen_run_get_last_error_line_understood = true ->
  gen_run_get_last_error_source_understood = true -> gen_run_set_error_understood = true ->
  gen_run_trigger_error_understood = true -> gen_run_assert_error_understood = true ->
  forall name, is_sdk name = str_in name gen_all_aliases.
Proof.
  unfold gen_run_on_error_cmd_understood, gen_run_exit_on_error_understood, gen_run_get_last_error_understood,
    gen_run_get_last_error_line_understood, gen_run_get_last_error_source_understood, gen_run_set_error_understood,
    gen_run_trigger_error_understood, gen_run_assert_error_understood.
  intros U1 U2 U3 U4 U5 U6 U7 U8;
    try discriminate U1; try discriminate U2; try discriminate U3; try discriminate U4;
    try discriminate U5; try discriminate U6; try discriminate U7; try discriminate U8.
  all: unfold is_sdk; apply same_elems_in; vm_compute; reflexivity.
Qed.
