(* FlowfnScopeLink.v — utils/scope.rs push / pop as FlowFn.v uses them (association lists: FlowfnGenLib.fl_scope_push /
   fl_scope_pop, the callees the translation of function/mod.rs is configured with) ARE Scope.v's m_push / m_pop (gmaps; tied
   to the Rust source of utils/scope.rs by the translation tie "var": props/SrcVar.v Src_var_scope_push / Src_var_scope_pop),
   read through [gm] = list_to_map (the first binding of a key is the visible one, as FlowFn's aget).  So the scope
   push / pop the function commands perform is tied to utils/scope.rs through two independent ties. *)
From stdpp Require Import gmap list.
Require Import DS.Registry DS.Scope DS.ScopeProof.
Require DS.Base DS.Flow DS.FlowfnGenLib.

Definition gm (l : list (name * value)) : vmap := list_to_map l.

Lemma gm_lookup (l : list (name * value)) (k : name) : gm l !! k = Flow.aget Base.str_eqb k l.
Proof.
  induction l as [|[k' v] l IH]; cbn [Flow.aget]; [apply lookup_empty|].
  unfold gm in *. cbn [list_to_map foldr]. cbn.
  destruct (Base.str_eqb_spec k k') as [->|Hne].
  - apply lookup_insert.
  - rewrite lookup_insert_ne by congruence. apply IH.
Qed.

Lemma gm_aset (l : list (name * value)) (k : name) (v : value) : gm (Flow.aset Base.str_eqb k v l) = <[k := v]> (gm l).
Proof.
  induction l as [|[k' v'] l IH]; cbn [Flow.aset]; [reflexivity|].
  destruct (Base.str_eqb_spec k k') as [->|Hne]; unfold gm in *; cbn [list_to_map foldr]; cbn.
  - symmetry. apply insert_insert.
  - rewrite IH. apply insert_commute. congruence.
Qed.

Definition copy_step_m (vs : vmap) (nv : vmap) (key : name) : vmap :=
  match vs !! key with Some v => <[key := v]> nv | None => nv end.

Lemma overlay_hom (vars : list (name * value)) (copy : list name) (base : list (name * value)) :
  gm (FlowfnGenLib.fl_overlay base copy vars) = foldl (copy_step_m (gm vars)) (gm base) copy.
Proof.
  unfold FlowfnGenLib.fl_overlay. revert base.
  induction copy as [|k copy IH]; intros base; cbn [fold_left foldl]; [reflexivity|].
  rewrite IH. f_equal. unfold FlowfnGenLib.fl_copy_step, copy_step_m. rewrite gm_lookup.
  unfold Base.str, Base.char, name, value in *.
  match goal with |- context [match ?x with _ => _ end] => destruct x end; [apply gm_aset | reflexivity].
Qed.

Lemma copy_step_union (vs : vmap) (copy : list name) (a b : vmap) :
  foldl (copy_step_m vs) (a ∪ b) copy = foldl (copy_step_m vs) a copy ∪ b.
Proof.
  revert a. induction copy as [|k copy IH]; intros a; cbn [foldl]; [reflexivity|].
  rewrite <- IH. f_equal. unfold copy_step_m. destruct (vs !! k); [|reflexivity].
  apply insert_union_l.
Qed.

Lemma overlay_gm (vars : list (name * value)) (copy : list name) (base : list (name * value)) :
  gm (FlowfnGenLib.fl_overlay base copy vars) = collect (gm vars) copy ∪ gm base.
Proof.
  rewrite overlay_hom. rewrite <- (left_id_L ∅ (∪) (gm base)) at 1. rewrite copy_step_union. reflexivity.
Qed.

(* scope::push *)
Theorem fl_scope_push_m_push (copy : list name) (vs : list (name * value)) (scopes : list (list (name * value))) :
  m_push (MS (gm vs) (map gm scopes)) copy =
  MS (gm (fst (FlowfnGenLib.fl_scope_push copy vs scopes))) (map gm (snd (FlowfnGenLib.fl_scope_push copy vs scopes))).
Proof.
  unfold m_push, FlowfnGenLib.fl_scope_push. cbn [vars stack fst snd map].
  rewrite insert_all_empty, overlay_gm. f_equal. symmetry. apply (right_id_L ∅ (∪)).
Qed.

(* scope::pop *)
Theorem fl_scope_pop_m_pop (copy : list name) (vs : list (name * value)) (scopes : list (list (name * value))) :
  m_pop (MS (gm vs) (map gm scopes)) copy =
  match FlowfnGenLib.fl_scope_pop copy vs scopes with
  | None => (OErr, MS (gm vs) (map gm scopes))
  | Some (v', sc') => (OVal lit_true, MS (gm v') (map gm sc'))
  end.
Proof.
  unfold m_pop, FlowfnGenLib.fl_scope_pop. destruct scopes as [|saved rest]; cbn [vars stack map]; [reflexivity|].
  rewrite insert_all_empty, insert_all_union, overlay_gm. reflexivity.
Qed.
