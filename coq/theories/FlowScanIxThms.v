(* FlowScanIxThms.v — transfer of the C04 scanner lemma to the index-faithful model of
   instruction_query::find_commands: on ANY instruction vector whose command names are a
   well-nested body followed by a closer of the scanner's kind, the code as written (indices,
   `instructions[line]`, i32 block_delta, recursion with fuel) returns exactly the positions of the
   construct's own elseif / else lines and of its own end line. *)
Require Import DS.Base DS.FlowTables DS.FlowTablesWf DS.FlowScan DS.Flow DS.FlowTree DS.FlowScanProof
  DS.FlowLemmas DS.FlowThms.
Require DS.Parser.
Require Import DS.FlowScanIx DS.FlowScanIxProof.
Open Scope nat_scope.

Theorem find_own_end_ix : tables_wf = true ->
  forall checked k (instructions : list DS.Parser.instr) pre b els c rest,
    map cmd_of instructions = pre ++ cmds (cb b) ++ cmds (ce els) ++ Some c :: rest ->
    (Z.of_nat (length instructions) < 2147483648)%Z ->
    wfb b -> wfe els -> In c (closers k) ->
    find_commands_ix checked (table_of k) instructions true (Some (length pre)) None
    = XOk (Some (mkPos (mids k els (length pre + length (cb b)))
                       (length pre + length (cb b) + length (ce els)))).
Proof.
  intros TW checked k instructions pre b els c rest Hm Hb Hwb Hwe Hc.
  rewrite find_commands_ix_scan by exact Hb. rewrite Hm.
  rewrite (find_own_end_gen TW k pre b els c rest Hwb Hwe Hc). reflexivity.
Qed.
