(* CodecMaploadProof.v — C17: proofs about the command model of map_load_properties (CodecMapload.v): it never panics and
   never runs out of fuel; on a map of strings it IS CodecProps.cmd_map_load_properties (the function C17_properties /
   C17_properties_prefix are about); the round trip map_to_properties ; map_load_properties through the two command models. *)
Require Import DS.Base DS.Utf8 DS.Strings DS.Codec DS.CodecProof DS.CodecProps DS.CodecPropsProof DS.Rs2vCodecLib DS.CodecCmds
  DS.CodecCmdsProof DS.CodecMapload.

Lemma fold_left_ext2 {A B : Type} (f g : A -> B -> A) l : (forall a x, f a x = g a x) -> forall s, fold_left f l s = fold_left g l s.
Proof. intros E. induction l as [|x l IH]; intros s; cbn; [reflexivity|]. rewrite E. apply IH. Qed.

(* the reader has no fuel: PFuel is only the third constructor of its result type *)
Lemma pp_read_lines_no_fuel ls : forall acc, pp_read_lines ls acc <> PFuel.
Proof.
  induction ls as [|[n line] r IH]; intros acc; cbn [pp_read_lines]; [discriminate|].
  destruct (pp_parse_line line) as [| c | k v]; [apply IH| |].
  - destruct (pp_unescape c); [apply IH|discriminate].
  - destruct (pp_unescape k); [|discriminate]. destruct (pp_unescape v); [apply IH|discriminate].
Qed.
Lemma pp_read_no_fuel chars : pp_read chars <> PFuel.
Proof. apply pp_read_lines_no_fuel. Qed.

Lemma ht_remove_absent k t : ht_get k t = None -> ht_remove k t = t.
Proof.
  induction t as [|[k' v'] r IH]; cbn; [reflexivity|]. destruct (str_eqb k' k); [discriminate|]. intros G. now rewrite IH.
Qed.

Lemma map_load_properties_at_defined p key text s : cdefined (fst (map_load_properties_at p key text s)).
Proof.
  unfold map_load_properties_at. pose proof (pp_read_no_fuel (pp_decode_text text)) as NF.
  destruct (pp_read (pp_decode_text text)); [|split; discriminate|congruence].
  destruct (ht_get key (handles s)) as [[]|]; split; discriminate.
Qed.

Lemma cmd_map_load_properties_run_defined args s : cdefined (fst (cmd_map_load_properties_run args s)).
Proof.
  destruct args as [|a0 [|a1 [|a2 [|a3 r]]]]; cbn [cmd_map_load_properties_run]; try (split; discriminate);
    try apply map_load_properties_at_defined.
  destruct (str_eqb a0 s_prefix_flag); apply map_load_properties_at_defined.
Qed.

(* a rejected text leaves the state as it is; a missing handle too *)
Lemma map_load_properties_at_rejected p key text s k l :
  pp_read (pp_decode_text text) = PErr k l -> map_load_properties_at p key text s = (CErr k l, s).
Proof. intros E. unfold map_load_properties_at. now rewrite E. Qed.
Lemma map_load_properties_at_missing p key text s data :
  pp_read (pp_decode_text text) = POk data -> ht_get key (handles s) = None ->
  map_load_properties_at p key text s = (CErr ce_notfound 0, s).
Proof. intros E G. unfold map_load_properties_at. rewrite E, G, (ht_remove_absent _ _ G). now destruct s. Qed.

(* ---- on a map of strings the command model IS CodecProps.cmd_map_load_properties ----------------------------------- *)
Lemma ht_insert_strmap k v m : ht_insert k (SString v) (strmap m) = strmap (map_insert k v m).
Proof.
  induction m as [|[k' v'] r IH]; [reflexivity|]. cbn [strmap map ht_insert map_insert fst snd].
  destruct (str_eqb k' k); [reflexivity|]. fold (strmap r). fold (strmap (map_insert k v r)). now rewrite IH.
Qed.

Lemma load_fold_strmap p data : forall old,
  fold_left (load_step p) data (strmap old)
  = strmap (fold_left (fun acc kv => map_insert (pp_prefix_key p (fst kv)) (snd kv) acc) data old).
Proof.
  induction data as [|kv r IH]; intros old; [reflexivity|]. cbn [fold_left]. unfold load_step at 2. rewrite ht_insert_strmap. apply IH.
Qed.

(* what the command answers, given what the function on string maps computes *)
Definition load_result (key : str) (s : cstate) (r : pres (list (str * str))) : cres * cstate :=
  match r with
  | POk new => (CVal s_true, CS (ht_insert key (SSub (strmap new)) (ht_remove key (handles s))) (cdraws s))
  | PErr k l => (CErr k l, s)
  | PFuel => (CFuel, s)
  end.

Lemma map_load_properties_at_strmap p key old text s :
  ht_get key (handles s) = Some (SSub (strmap old)) ->
  map_load_properties_at p key text s = load_result key s (cmd_map_load_properties p old text).
Proof.
  intros G. unfold map_load_properties_at, cmd_map_load_properties, pres_bind.
  destruct (pp_read (pp_decode_text text)); cbn [load_result]; try reflexivity.
  now rewrite G, load_fold_strmap.
Qed.

Lemma cmds_map_load_properties_link p key old text rest s :
  ht_get key (handles s) = Some (SSub (strmap old)) ->
  cmd_map_load_properties_run (s_prefix_flag :: p :: key :: text :: rest) s = load_result key s (cmd_map_load_properties p old text) /\
  cmd_map_load_properties_run [key; text] s = load_result key s (cmd_map_load_properties [] old text).
Proof.
  intros G. split.
  - cbn [cmd_map_load_properties_run]. rewrite str_eqb_refl. now apply map_load_properties_at_strmap.
  - cbn [cmd_map_load_properties_run]. now apply map_load_properties_at_strmap.
Qed.

(* ---- C17_properties THROUGH the two command models ------------------------------------------------------------------ *)
(* a map of strings behind handle [key], every pair in the exact domain [representable], distinct keys (any iteration order):
   map_to_properties answers a text, and map_load_properties of that text into an EMPTY map behind [key2] answers "true" and
   leaves exactly the same pairs behind [key2] (the other handles are untouched but for their position) *)
Lemma cmds_properties_roundtrip key key2 m s :
  ht_get key (handles s) = Some (SSub (strmap m)) -> ht_get key2 (handles s) = Some (SSub []) ->
  Forall (fun kv => representable kv = true) m -> NoDup (map fst m) ->
  exists text s1, cmd_map_to_properties_run [key] s = (CVal text, s) /\
                  cmd_map_load_properties_run [key2; text] s = (CVal s_true, s1) /\
                  ht_get key2 (handles s1) = Some (SSub (strmap m)) /\
                  forall k, k <> key2 -> ht_get k (handles s1) = ht_get k (handles s).
Proof.
  intros G G2 D N. pose proof (properties_roundtrip_plain m D N) as R. unfold pp_roundtrip, pres_bind in R.
  destruct (cmd_map_to_properties [] m) as [text| |] eqn:W; try discriminate R.
  destruct (cmds_map_to_properties_link [] key m [] s G N) as [_ L1]. rewrite W in L1. cbn [cres_of_pres] in L1.
  destruct (cmds_map_load_properties_link [] key2 [] text [] s G2) as [_ L2]. rewrite R in L2. cbn [load_result] in L2.
  eexists text, _. split; [exact L1|]. split; [exact L2|]. cbn [handles]. split; [apply ht_get_insert|].
  intros k NE. rewrite ht_get_insert_ne by exact NE. clear -NE. induction (handles s) as [|[k' v'] r IH]; [reflexivity|].
  cbn [ht_remove ht_get]. destruct (str_eqb k' key2) eqn:E.
  - apply str_eqb_eq in E. subst k'. destruct (str_eqb key2 k) eqn:E2; [apply str_eqb_eq in E2; congruence|reflexivity].
  - cbn [ht_get]. destruct (str_eqb k' k); [reflexivity|exact IH].
Qed.

(* an error answer other than "Invalid handle provided." leaves the handle table exactly as it was (the wrong-kind path removes
   the entry and puts it back: same content, possibly another position) *)
Lemma map_load_properties_at_rejected_any p key text s k l :
  fst (map_load_properties_at p key text s) = CErr k l -> (k = ce_kind -> False) ->
  handles (snd (map_load_properties_at p key text s)) = handles s.
Proof.
  unfold map_load_properties_at. destruct (pp_read (pp_decode_text text)); cbn [fst snd]; try reflexivity.
  destruct (ht_get key (handles s)) as [[]|] eqn:G; cbn [fst snd handles]; intros E NK; try discriminate E;
    try (exfalso; apply NK; congruence).
  now apply ht_remove_absent.
Qed.
Lemma cmd_map_load_properties_run_rejected args s k l :
  fst (cmd_map_load_properties_run args s) = CErr k l -> (k = ce_kind -> False) ->
  handles (snd (cmd_map_load_properties_run args s)) = handles s.
Proof.
  destruct args as [|a0 [|a1 [|a2 [|a3 r]]]]; cbn [cmd_map_load_properties_run fst snd]; try reflexivity;
    try apply map_load_properties_at_rejected_any.
  destruct (str_eqb a0 s_prefix_flag); apply map_load_properties_at_rejected_any.
Qed.

(* ---- the round trip with --prefix p on the writing and --prefix q on the reading side (C17_properties_prefix) -------- *)
Lemma ht_get_reinsert_other key2 v t k : k <> key2 -> ht_get k (ht_insert key2 v (ht_remove key2 t)) = ht_get k t.
Proof.
  intros NE. rewrite ht_get_insert_ne by exact NE. induction t as [|[k' v'] r IH]; [reflexivity|].
  cbn [ht_remove ht_get]. destruct (str_eqb k' key2) eqn:E.
  - apply str_eqb_eq in E. subst k'. destruct (str_eqb key2 k) eqn:E2; [apply str_eqb_eq in E2; congruence|reflexivity].
  - cbn [ht_get]. destruct (str_eqb k' k); [reflexivity|exact IH].
Qed.

Lemma cmds_properties_roundtrip_prefix p q key key2 m s :
  ht_get key (handles s) = Some (SSub (strmap m)) -> ht_get key2 (handles s) = Some (SSub []) ->
  Forall (fun kv => representable kv = true) (pp_prefix_map p m) -> NoDup (map fst m) ->
  exists text s1, cmd_map_to_properties_run [s_prefix_flag; p; key] s = (CVal text, s) /\
                  cmd_map_load_properties_run [s_prefix_flag; q; key2; text] s = (CVal s_true, s1) /\
                  ht_get key2 (handles s1) = Some (SSub (strmap (pp_prefix_map q (pp_prefix_map p m)))) /\
                  forall k, k <> key2 -> ht_get k (handles s1) = ht_get k (handles s).
Proof.
  intros G G2 D N. pose proof (properties_roundtrip p q m D N) as R. unfold pp_roundtrip, pres_bind in R.
  destruct (cmd_map_to_properties p m) as [text| |] eqn:W; try discriminate R.
  destruct (cmds_map_to_properties_link p key m [] s G N) as [L1 _]. rewrite W in L1. cbn [cres_of_pres] in L1.
  destruct (cmds_map_load_properties_link q key2 [] text [] s G2) as [L2 _]. rewrite R in L2. cbn [load_result] in L2.
  eexists text, _. split; [exact L1|]. split; [exact L2|]. cbn [handles]. split; [apply ht_get_insert|].
  intros k NE. now apply ht_get_reinsert_other.
Qed.
