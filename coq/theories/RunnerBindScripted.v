(* RunnerBindScripted.v — the binding runner over the scripted commands of RunnerScripted.v
   (definitions only): the executable model of the C03 "bound" correspondence stream. *)
From stdpp Require Import gmap.
Require Import DS.Base DS.Runner DS.RunnerScripted DS.RunnerBind.
Local Open Scope nat_scope.

Definition sb_run (fuel : nat) (halt_at : option nat) (p : program) (v : list (str * str))
                  (cmds : list (str * (list sres * bool))) : outcome sstate :=
  run_bound sstate s_exists s_cmd_run (ext_from halt_at) fuel p (World (list_to_map v) (mk_state cmds) false).

(* an example: line 1 `x = c0` (c0 answers "v w"), line 2 `c1 a${x}b \${x} %{x} ${nope}` (c1 fails
   with the message "${x}"), on_error continues *)
Definition xb_v : str := [118]%N. Definition xb_w : str := [119]%N. Definition xb_x : str := [120]%N.
Definition xb_c0 : str := [99; 48]%N. Definition xb_c1 : str := [99; 49]%N.
Definition xb_var : str := [36; 123; 120; 125]%N.                       (* ${x} *)
Definition xb_prog : program :=
  [ Instr (Meta (Some 1) None) (IScript (SI None (Some xb_x) (Some xb_c0) []));
    Instr (Meta (Some 2) None) (IScript (SI None None (Some xb_c1)
      [ [97]%N ++ xb_var ++ [98]%N;                 (* a${x}b *)
        [92]%N ++ xb_var;                           (* \${x}  *)
        [37; 123; 120; 125]%N;                      (* %{x}   *)
        [36; 123; 110; 111; 112; 101; 125]%N ])) ]. (* ${nope} *)
Definition xb_cmds : list (str * (list sres * bool)) :=
  [ (xb_c0, ([SRes (Continue (Some (xb_v ++ [32]%N ++ xb_w))) false], false));
    (xb_c1, ([SRes (Error xb_var) false], false));
    (on_error_name, ([SRes (Continue None) false], false)) ].
Definition xb_calls (o : outcome sstate) : list call :=
  match o with Done _ t => concat (map e_calls t) | OutOfFuel => [] end.
