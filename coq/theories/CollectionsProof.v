(* CollectionsProof.v — proofs about Collections.v (model M) and CollectionsSpec.v (spec S). *)
From stdpp Require Import gmap list.
From Coq Require Import NArith ZArith Lia DecimalN DecimalPos.
Require Import DS.Collections DS.CollectionsScripts DS.CollectionsSpec DS.CollectionsTables.

(* ---- the take-out / put-back helpers ------------------------------------------------------- *)
Lemma mutate_list_eq key st handler :
  mutate_list key st handler =
  match look_list st key with
  | Found l => match handler l with
               | Some (r, l') => Done (r, <[key := HList l']> st)
               | None => Panic
               end
  | WrongKind => Done (RErr EKind, st)
  | Missing => Done (RErr ENotFound, st)
  end.
Proof.
  unfold mutate_list, look_list.
  destruct (st !! key) as [[l|m|x|t]|] eqn:E; cbv zeta; try reflexivity;
    try (rewrite insert_delete by exact E; reflexivity).
  destruct (handler l) as [[r l']|]; [|reflexivity]. now rewrite insert_delete_insert.
Qed.
Lemma mutate_map_eq key st handler :
  mutate_map key st handler =
  match look_map st key with
  | Found m => match handler m with
               | Some (r, m') => Done (r, <[key := HMap m']> st)
               | None => Panic
               end
  | WrongKind => Done (RErr EKind, st)
  | Missing => Done (RErr ENotFound, st)
  end.
Proof.
  unfold mutate_map, look_map.
  destruct (st !! key) as [[l|m|x|t]|] eqn:E; cbv zeta; try reflexivity;
    try (rewrite insert_delete by exact E; reflexivity).
  destruct (handler m) as [[r m']|]; [|reflexivity]. now rewrite insert_delete_insert.
Qed.
Lemma mutate_set_eq key st handler :
  mutate_set key st handler =
  match look_set st key with
  | Found x => match handler x with
               | Some (r, x') => Done (r, <[key := HSet x']> st)
               | None => Panic
               end
  | WrongKind => Done (RErr EKind, st)
  | Missing => Done (RErr ENotFound, st)
  end.
Proof.
  unfold mutate_set, look_set.
  destruct (st !! key) as [[l|m|x|t]|] eqn:E; cbv zeta; try reflexivity;
    try (rewrite insert_delete by exact E; reflexivity).
  destruct (handler x) as [[r x']|]; [|reflexivity]. now rewrite insert_delete_insert.
Qed.

Lemma with_hs_id s : with_hs s (hs s) = s.
Proof. now destruct s. Qed.

Lemma look_list_found st h l : look_list st h = Found l -> st !! h = Some (HList l).
Proof. unfold look_list. destruct (st !! h) as [[]|]; congruence. Qed.
Lemma look_map_found st h m : look_map st h = Found m -> st !! h = Some (HMap m).
Proof. unfold look_map. destruct (st !! h) as [[]|]; congruence. Qed.
Lemma look_set_found st h x : look_set st h = Found x -> st !! h = Some (HSet x).
Proof. unfold look_set. destruct (st !! h) as [[]|]; congruence. Qed.

(* ---- loops vs closed forms ----------------------------------------------------------------- *)
Lemma push_fold (vs : list str) (l : list elem) :
  fold_left (fun a x => a ++ [EStr x]) vs l = l ++ (EStr <$> vs).
Proof.
  revert l; induction vs as [|v vs IH]; intros l; cbn [fold_left fmap list_fmap].
  - now rewrite app_nil_r.
  - rewrite IH, <- app_assoc. reflexivity.
Qed.
Lemma set_fold (vs : list str) (x : gset str) :
  fold_left (fun (a : gset str) v => {[v]} ∪ a) vs x = x ∪ list_to_set vs.
Proof.
  revert x; induction vs as [|v vs IH]; intros x; cbn [fold_left list_to_set].
  - apply leibniz_equiv. set_solver.
  - rewrite IH. apply leibniz_equiv. set_solver.
Qed.

(* ---- Vec operations ------------------------------------------------------------------------ *)
Lemma len_gt_lt l idx : len_gt l idx = true -> (N.to_nat idx < length l)%nat.
Proof. unfold len_gt. intros H. apply N.ltb_lt in H. lia. Qed.
Lemma len_gt_ge l idx : len_gt l idx = false -> (length l <= N.to_nat idx)%nat.
Proof. unfold len_gt. intros H. apply N.ltb_ge in H. lia. Qed.

Lemma nth_error_lookup {A} (l : list A) i : nth_error l i = l !! i.
Proof. revert i; induction l; intros [|i]; cbn; auto. Qed.

Lemma vec_pop_eq l : vec_pop l = (last l, take (pred (length l)) l).
Proof.
  unfold vec_pop. rewrite last_lookup. destruct (length l) eqn:E; cbn [pred].
  - destruct l; [reflexivity|discriminate].
  - now rewrite nth_error_lookup.
Qed.
Lemma vec_set_eq l i v : (i < length l)%nat -> vec_set l i v = Some (<[i := v]> l).
Proof.
  intros H. unfold vec_set. destruct (Nat.ltb_spec i (length l)); [|lia].
  now rewrite insert_take_drop.
Qed.
Lemma vec_remove_eq l i : (i < length l)%nat -> vec_remove l i = Some (delete i l).
Proof.
  intros H. unfold vec_remove. destruct (Nat.ltb_spec i (length l)); [|lia].
  now rewrite delete_take_drop.
Qed.
Lemma vec_index_eq l i : (i < length l)%nat -> exists e, vec_index l i = Some e /\ l !! i = Some e.
Proof.
  intros H. unfold vec_index. rewrite nth_error_lookup.
  destruct (lookup_lt_is_Some_2 l i H) as [e He]. eauto.
Qed.
Lemma lookupN_eq l idx : lookupN l idx = l !! N.to_nat idx.
Proof.
  unfold lookupN. destruct (len_gt l idx) eqn:E; [reflexivity|].
  symmetry. apply lookup_ge_None. now apply len_gt_ge.
Qed.

(* ---- printing a number and parsing it back ---------------------------------------------------- *)
Lemma dv_acc l : forall acc, digits_val (Npos acc) (uint_codes l) = Some (Npos (Pos.of_uint_acc l acc)).
Proof.
  induction l; intros acc; cbn [uint_codes digits_val Pos.of_uint_acc]; try reflexivity;
  match goal with |- context [if ?b then _ else _] => change b with true end; cbv iota;
  rewrite <- IHl; f_equal; lia.
Qed.
Lemma dv_0 l : digits_val 0 (uint_codes l) = Some (Pos.of_uint l).
Proof.
  induction l; cbn [uint_codes digits_val Pos.of_uint]; try reflexivity;
  match goal with |- context [if ?b then _ else _] => change b with true end; cbv iota;
  [exact IHl | ..]; rewrite <- dv_acc; reflexivity.
Qed.
Lemma digits_dec n : digits (dec_N n) = Some n.
Proof.
  unfold dec_N, digits. pose proof (dv_0 (N.to_uint n)) as H.
  change (Pos.of_uint (N.to_uint n)) with (N.of_uint (N.to_uint n)) in H.
  rewrite DecimalN.Unsigned.of_to in H.
  destruct (uint_codes (N.to_uint n)) eqn:E; [|exact H].
  destruct n; [discriminate E|]. cbn in H. discriminate.
Qed.
Lemma no_plus u : match uint_codes u with 43%N :: _ => False | _ => True end.
Proof. destruct u; exact I. Qed.
Lemma parse_usize_dec n : (n < 18446744073709551616)%N -> parse_usize (dec_N n) = Some n.
Proof.
  intros H. unfold parse_usize.
  assert (E : match dec_N n with 43%N :: r => r | _ => dec_N n end = dec_N n).
  { unfold dec_N. pose proof (no_plus (N.to_uint n)) as P. destruct (uint_codes (N.to_uint n)) as [|c r]; [reflexivity|].
    destruct (N.eq_dec c 43) as [->|Hc]; [contradiction|]. 
    destruct c as [|p]; [reflexivity|]. repeat (destruct p as [p|p|]; try reflexivity). congruence. }
  rewrite E, digits_dec. apply N.ltb_lt in H. now rewrite H.
Qed.

(* ---- recursive release: termination ---------------------------------------------------------- *)
Lemma size_delete_lt (st : store) key v : st !! key = Some v -> size st = S (size (delete key st)).
Proof.
  intros E. rewrite <- (insert_delete st key v E) at 1.
  rewrite map_size_insert, lookup_delete. reflexivity.
Qed.
Lemma sub_none (a b : store) h : a ⊆ b -> b !! h = None -> a !! h = None.
Proof.
  intros S E. destruct (a !! h) eqn:F; [|reflexivity].
  rewrite (lookup_weaken _ _ _ _ F S) in E. discriminate.
Qed.

Lemma map_sub_size (a b : store) : a ⊆ b -> (size a <= size b)%nat.
Proof. intros S. rewrite <- !(size_dom (D:=gset handle)). apply subseteq_size, subseteq_dom, S. Qed.

Definition rec_total (rec : store -> handle -> outcome (bool * store)) (n : nat) : Prop :=
  forall st key, (size st < n)%nat -> exists b st', rec st key = Done (b, st') /\ st' ⊆ st.

Lemma rel_fold_total rec n ks : rec_total rec n -> forall st, (size st < n)%nat ->
  exists st', rel_fold rec ks st = Done st' /\ st' ⊆ st.
Proof.
  intros HR. induction ks as [|k ks IH]; intros st Hs; cbn [rel_fold].
  - exists st. split; [reflexivity|done].
  - destruct (HR st k Hs) as (b & st1 & E1 & S1). rewrite E1.
    pose proof (map_sub_size _ _ S1) as Hsz.
    destruct (IH st1) as (st' & E' & S'); [lia|].
    exists st'. split; [exact E'|]. etrans; eassumption.
Qed.
Lemma rel_rec_total fuel : rec_total (rel_rec fuel) fuel.
Proof.
  induction fuel as [|f IH]; intros st key Hs; [lia|]. cbn [rel_rec].
  destruct (st !! key) as [v|] eqn:E.
  - pose proof (size_delete_lt st key v E) as Hd.
    destruct (rel_fold_total (rel_rec f) f (children v) IH (delete key st)) as (st' & E' & S'); [lia|].
    rewrite E'. exists true, st'. split; [reflexivity|].
    etrans; [exact S'|apply delete_subseteq].
  - exists false, st. split; [reflexivity|done].
Qed.
Lemma release_recursive_total st key :
  exists b st', release_recursive st key = Done (b, st') /\ st' ⊆ st.
Proof. apply rel_rec_total. lia. Qed.

(* ---- recursive release: removes exactly the reachable handles -------------------------------- *)
Lemma reach_mono (a b : store) k h : a ⊆ b -> reach a k h -> reach b k h.
Proof.
  intros S R. induction R as [k [v Hk]|k h v c R IH Hh Hc [w Hw]].
  - apply reach_refl. exists v. eapply lookup_weaken; eassumption.
  - eapply reach_step; [exact IH| |exact Hc|].
    + eapply lookup_weaken; eassumption.
    + exists w. eapply lookup_weaken; eassumption.
Qed.
Lemma reach_cons st k v c h :
  st !! k = Some v -> c ∈ children v -> reach st c h -> reach st k h.
Proof.
  intros Hk Hc R. induction R as [c Hs|c h w d R IH Hh Hd Hs].
  - eapply reach_step; [apply reach_refl; eauto|exact Hk|exact Hc|exact Hs].
  - eapply reach_step; [apply IH; assumption|exact Hh|exact Hd|exact Hs].
Qed.

Definition closed_under (st st' : store) : Prop :=
  forall h v, st !! h = Some v -> st' !! h = None -> forall c, c ∈ children v -> st' !! c = None.

Definition rec_good (rec : store -> handle -> outcome (bool * store)) : Prop :=
  forall st key b st', rec st key = Done (b, st') ->
    st' ⊆ st /\ st' !! key = None /\ b = bool_decide (is_Some (st !! key)) /\
    closed_under st st' /\
    (forall h, is_Some (st !! h) -> st' !! h = None -> reach st key h).

Lemma rel_fold_good rec ks : rec_good rec -> forall st st', rel_fold rec ks st = Done st' ->
  st' ⊆ st /\ (forall k, k ∈ ks -> st' !! k = None) /\ closed_under st st' /\
  (forall h, is_Some (st !! h) -> st' !! h = None -> exists k, k ∈ ks /\ reach st k h).
Proof.
  intros HG. induction ks as [|k ks IH]; intros st st' E; cbn [rel_fold] in E.
  - injection E as <-. split; [done|]. split; [intros k Hk; inversion Hk|]. split.
    + intros h v Hh Hn. congruence.
    + intros h [v Hv] Hn. congruence.
  - destruct (rec st k) as [[b st1]| |] eqn:E1; try discriminate.
    destruct (HG _ _ _ _ E1) as (S1 & N1 & _ & C1 & R1).
    destruct (IH _ _ E) as (S2 & N2 & C2 & R2).
    split; [etrans; eassumption|]. split; [|split].
    + intros k0 Hk0. apply elem_of_cons in Hk0 as [->|Hk0]; [|auto].
      eapply sub_none; eassumption.
    + intros h v Hh Hn c Hc. destruct (st1 !! h) as [v1|] eqn:F.
      * assert (v1 = v) as ->.
        { pose proof (lookup_weaken _ _ _ _ F S1) as G. congruence. }
        eapply C2; eassumption.
      * eapply sub_none; [exact S2|]. eapply C1; eassumption.
    + intros h Hs Hn. destruct (st1 !! h) as [v1|] eqn:F.
      * destruct (R2 h) as (k0 & Hk0 & Rk0); [eauto|exact Hn|].
        exists k0. split; [now apply elem_of_list_further|]. eapply reach_mono; eassumption.
      * exists k. split; [apply elem_of_list_here|]. apply R1; assumption.
Qed.

Lemma rel_rec_good fuel : rec_good (rel_rec fuel).
Proof.
  induction fuel as [|f IH]; intros st key b st' E; cbn [rel_rec] in E; [discriminate|].
  destruct (st !! key) as [v|] eqn:Ek.
  - destruct (rel_fold (rel_rec f) (children v) (delete key st)) as [st2| |] eqn:E2; try discriminate.
    injection E as <- <-.
    destruct (rel_fold_good _ _ IH _ _ E2) as (S2 & N2 & C2 & R2).
    assert (Sd : delete key st ⊆ st) by apply delete_subseteq.
    split; [etrans; eassumption|]. split; [|split; [|split]].
    + eapply sub_none; [exact S2|]. apply lookup_delete.
    + symmetry. apply bool_decide_eq_true. eauto.
    + intros h w Hh Hn c Hc. destruct (decide (h = key)) as [->|Hne].
      * assert (w = v) as -> by congruence. apply N2. exact Hc.
      * eapply C2; [|exact Hn|exact Hc]. rewrite lookup_delete_ne by congruence. exact Hh.
    + intros h Hs Hn. destruct (decide (h = key)) as [->|Hne].
      * apply reach_refl. exact Hs.
      * destruct (R2 h) as (c & Hc & Rc).
        { rewrite lookup_delete_ne by congruence. exact Hs. }
        { exact Hn. }
        eapply reach_cons; [exact Ek|exact Hc|]. eapply reach_mono; eassumption.
  - injection E as <- <-. split; [done|]. split; [exact Ek|]. split; [|split].
    + symmetry. apply bool_decide_eq_false. intros [? ?]. congruence.
    + intros h w Hh Hn. congruence.
    + intros h [w Hw] Hn. congruence.
Qed.

Theorem release_exact st key b st' :
  release_recursive st key = Done (b, st') ->
  b = bool_decide (is_Some (st !! key)) /\
  forall h, (reach st key h -> st' !! h = None) /\ (~ reach st key h -> st' !! h = st !! h).
Proof.
  intros E. destruct (rel_rec_good _ _ _ _ _ E) as (S & N & B & C & R).
  split; [exact B|]. intros h. split.
  - intros Rh. induction Rh as [k Hs|k h v c Rh IH Hh Hc Hs]; [exact N|].
    exact (C h v Hh (IH E N B R) c Hc).
  - intros NR. destruct (st' !! h) as [x|] eqn:F.
    + symmetry. eapply lookup_weaken; eassumption.
    + destruct (st !! h) as [w|] eqn:G; [|reflexivity].
      exfalso. apply NR. apply R; [eauto|exact F].
Qed.

(* ---- refinement: every native command computes what the specification says ------------------- *)
Lemma keep_list (st : store) h l : look_list st h = Found l -> <[h := HList l]> st = st.
Proof. intros E. apply insert_id. now apply look_list_found. Qed.
Lemma keep_map (st : store) h m : look_map st h = Found m -> <[h := HMap m]> st = st.
Proof. intros E. apply insert_id. now apply look_map_found. Qed.
Lemma keep_set (st : store) h x : look_set st h = Found x -> <[h := HSet x]> st = st.
Proof. intros E. apply insert_id. now apply look_set_found. Qed.

Section Refine.
Variable rnd : nat -> handle.
Variable ord : nat -> list str -> list str.
Notation step_s := (step_s rnd ord).

Ltac open_spec := unfold step_s; cbv beta iota zeta delta [spec].
Ltac done_keep := cbn [finish apply cres_of fst snd]; rewrite ?with_hs_id; reflexivity.

Lemma r_array args s : cmd_array rnd args s = Done (step_s CArray args s).
Proof. unfold cmd_array. open_spec. rewrite push_fold. cbn [app apply]. now destruct (put_handle _ _ _). Qed.

Lemma r_range args s : cmd_range rnd args s = Done (step_s CRange args s).
Proof.
  unfold cmd_range. destruct args as [|a0 [|a1 rest]]; try reflexivity. open_spec.
  destruct (parse_i64 a0) as [a|]; [|reflexivity].
  destruct (parse_i64 a1) as [b|]; [|reflexivity].
  destruct (b <? a)%Z; [reflexivity|]. cbn [apply]. now destruct (put_handle _ _ _).
Qed.

Lemma r_array_push args s : cmd_array_push args s = Done (step_s CArrayPush args s).
Proof.
  unfold cmd_array_push. destruct args as [|h vs]; [reflexivity|]. open_spec.
  rewrite mutate_list_eq. unfold on. destruct (look_list (hs s) h) as [l| |] eqn:E; try done_keep.
  rewrite push_fold. reflexivity.
Qed.

Lemma r_array_pop args s : cmd_array_pop args s = Done (step_s CArrayPop args s).
Proof.
  unfold cmd_array_pop. destruct args as [|h vs]; [reflexivity|]. open_spec.
  rewrite mutate_list_eq. unfold on. destruct (look_list (hs s) h) as [l| |] eqn:E; try done_keep.
  rewrite vec_pop_eq. reflexivity.
Qed.

Lemma r_array_get args s : cmd_array_get args s = Done (step_s CArrayGet args s).
Proof.
  unfold cmd_array_get. destruct args as [|h [|i rest]]; try reflexivity. open_spec.
  destruct (parse_usize i) as [idx|]; [|reflexivity].
  rewrite mutate_list_eq. unfold on. destruct (look_list (hs s) h) as [l| |] eqn:E; try done_keep.
  unfold lookupN. destruct (len_gt l idx) eqn:G.
  - destruct (vec_index_eq l (N.to_nat idx)) as (e & He & Hl); [now apply len_gt_lt|].
    rewrite He, Hl. cbn [finish]. rewrite (keep_list _ _ _ E). done_keep.
  - cbn [finish]. rewrite (keep_list _ _ _ E). done_keep.
Qed.

Lemma r_array_set args s : cmd_array_set args s = Done (step_s CArraySet args s).
Proof.
  unfold cmd_array_set. destruct args as [|h [|i [|v rest]]]; try reflexivity. open_spec.
  destruct (parse_usize i) as [idx|]; [|reflexivity].
  rewrite mutate_list_eq. unfold on. destruct (look_list (hs s) h) as [l| |] eqn:E; try done_keep.
  destruct (len_gt l idx) eqn:G.
  - rewrite vec_set_eq by now apply len_gt_lt. reflexivity.
  - cbn [finish]. rewrite (keep_list _ _ _ E). done_keep.
Qed.

Lemma r_array_remove args s : cmd_array_remove args s = Done (step_s CArrayRemove args s).
Proof.
  unfold cmd_array_remove. destruct args as [|h [|i rest]]; try reflexivity. open_spec.
  destruct (parse_usize i) as [idx|]; [|reflexivity].
  rewrite mutate_list_eq. unfold on. destruct (look_list (hs s) h) as [l| |] eqn:E; try done_keep.
  destruct (len_gt l idx) eqn:G.
  - rewrite vec_remove_eq by now apply len_gt_lt. reflexivity.
  - cbn [finish]. rewrite (keep_list _ _ _ E). done_keep.
Qed.

Lemma r_array_clear args s : cmd_array_clear args s = Done (step_s CArrayClear args s).
Proof.
  unfold cmd_array_clear. destruct args as [|h vs]; [reflexivity|]. open_spec.
  rewrite mutate_list_eq. unfold on. destruct (look_list (hs s) h) as [l| |] eqn:E; done_keep.
Qed.

Lemma r_array_length args s : cmd_array_length args s = Done (step_s CArrayLength args s).
Proof.
  unfold cmd_array_length. destruct args as [|h vs]; [reflexivity|]. open_spec.
  unfold on, look_list. destruct (hs s !! h) as [[]|]; reflexivity.
Qed.

Lemma r_map args s : cmd_map rnd args s = Done (step_s CMap args s).
Proof. unfold cmd_map. open_spec. cbn [apply]. now destruct (put_handle _ _ _). Qed.

Lemma r_map_put args s : cmd_map_put args s = Done (step_s CMapPut args s).
Proof.
  unfold cmd_map_put. destruct args as [|h [|k [|v rest]]]; try reflexivity. open_spec.
  rewrite mutate_map_eq. unfold on. destruct (look_map (hs s) h) as [m| |] eqn:E; done_keep.
Qed.

Lemma r_map_get args s : cmd_map_get args s = Done (step_s CMapGet args s).
Proof.
  unfold cmd_map_get. destruct args as [|h [|k rest]]; try reflexivity. open_spec.
  rewrite mutate_map_eq. unfold on. destruct (look_map (hs s) h) as [m| |] eqn:E; try done_keep.
  destruct (m !! k) as [value|] eqn:G.
  - rewrite (insert_delete m k value G). cbn [finish]. rewrite (keep_map _ _ _ E). done_keep.
  - cbn [finish]. rewrite (keep_map _ _ _ E). done_keep.
Qed.

Lemma r_map_remove args s : cmd_map_remove args s = Done (step_s CMapRemove args s).
Proof.
  unfold cmd_map_remove. destruct args as [|h [|k rest]]; try reflexivity. open_spec.
  rewrite mutate_map_eq. unfold on. destruct (look_map (hs s) h) as [m| |] eqn:E; done_keep.
Qed.

Lemma r_map_size args s : cmd_map_size args s = Done (step_s CMapSize args s).
Proof.
  unfold cmd_map_size. destruct args as [|h vs]; [reflexivity|]. open_spec.
  unfold on, look_map. destruct (hs s !! h) as [[]|]; reflexivity.
Qed.

Lemma r_map_keys args s : cmd_map_keys rnd ord args s = Done (step_s CMapKeys args s).
Proof.
  unfold cmd_map_keys. destruct args as [|h vs]; [reflexivity|]. open_spec.
  unfold on, look_map. destruct (hs s !! h) as [[]|]; try reflexivity.
  rewrite push_fold. cbn [app apply]. now destruct (put_handle _ _ _).
Qed.

Lemma r_map_clear args s : cmd_map_clear args s = Done (step_s CMapClear args s).
Proof.
  unfold cmd_map_clear. destruct args as [|h vs]; [reflexivity|]. open_spec.
  rewrite mutate_map_eq. unfold on. destruct (look_map (hs s) h) as [m| |] eqn:E; done_keep.
Qed.

Lemma r_set_new args s : cmd_set_new rnd args s = Done (step_s CSetNew args s).
Proof.
  unfold cmd_set_new. open_spec. rewrite set_fold.
  replace (∅ ∪ list_to_set args : gset str) with (list_to_set args : gset str)
    by (apply leibniz_equiv; set_solver).
  cbn [apply]. now destruct (put_handle _ _ _).
Qed.

Lemma r_set_put args s : cmd_set_put args s = Done (step_s CSetPut args s).
Proof.
  unfold cmd_set_put. destruct args as [|h vs]; [reflexivity|]. open_spec.
  rewrite mutate_set_eq. unfold on. destruct (look_set (hs s) h) as [x| |] eqn:E; try done_keep.
  rewrite set_fold. reflexivity.
Qed.

Lemma r_set_remove args s : cmd_set_remove args s = Done (step_s CSetRemove args s).
Proof.
  unfold cmd_set_remove. destruct args as [|h [|v rest]]; try reflexivity. open_spec.
  rewrite mutate_set_eq. unfold on. destruct (look_set (hs s) h) as [x| |] eqn:E; done_keep.
Qed.

Lemma r_set_contains args s : cmd_set_contains args s = Done (step_s CSetContains args s).
Proof.
  unfold cmd_set_contains. destruct args as [|h [|v rest]]; try reflexivity. open_spec.
  rewrite mutate_set_eq. unfold on. destruct (look_set (hs s) h) as [x| |] eqn:E; try done_keep.
  cbn [finish]. rewrite (keep_set _ _ _ E). done_keep.
Qed.

Lemma r_set_size args s : cmd_set_size args s = Done (step_s CSetSize args s).
Proof.
  unfold cmd_set_size. destruct args as [|h vs]; [reflexivity|]. open_spec.
  unfold on, look_set. destruct (hs s !! h) as [[]|]; reflexivity.
Qed.

Lemma r_set_clear args s : cmd_set_clear args s = Done (step_s CSetClear args s).
Proof.
  unfold cmd_set_clear. destruct args as [|h vs]; [reflexivity|]. open_spec.
  rewrite mutate_set_eq. unfold on. destruct (look_set (hs s) h) as [x| |] eqn:E; done_keep.
Qed.

Lemma r_set_to_array args s : cmd_set_to_array rnd ord args s = Done (step_s CSetToArray args s).
Proof.
  unfold cmd_set_to_array. destruct args as [|h vs]; [reflexivity|]. open_spec.
  unfold on, look_set. destruct (hs s !! h) as [[]|]; try reflexivity.
  rewrite push_fold. cbn [app apply]. now destruct (put_handle _ _ _).
Qed.

Lemma r_is_array args s : cmd_is_array args s = Done (step_s CIsArray args s).
Proof.
  unfold cmd_is_array. destruct args as [|h vs]; [reflexivity|]. open_spec.
  unfold look_list. destruct (hs s !! h) as [[]|]; reflexivity.
Qed.
Lemma r_is_map args s : cmd_is_map args s = Done (step_s CIsMap args s).
Proof.
  unfold cmd_is_map. destruct args as [|h vs]; [reflexivity|]. open_spec.
  unfold look_map. destruct (hs s !! h) as [[]|]; reflexivity.
Qed.
Lemma r_is_set args s : cmd_is_set args s = Done (step_s CIsSet args s).
Proof.
  unfold cmd_is_set. destruct args as [|h vs]; [reflexivity|]. open_spec.
  unfold look_set. destruct (hs s !! h) as [[]|]; reflexivity.
Qed.

Lemma r_release args s : cmd_release args s = Done (step_s CRelease args s).
Proof.
  unfold cmd_release. destruct args as [|a0 rest]; [reflexivity|]. open_spec.
  unfold release_flags.
  set (kr := match rest with
             | [] => (a0, false)
             | a1 :: _ => if str_eqb a0 s_dash_r || str_eqb a0 s_recursive then (a1, true) else (a0, false)
             end).
  destruct kr as [key [|]].
  - destruct (release_recursive_total (hs s) key) as (b & st' & E & _). rewrite E. reflexivity.
  - destruct (hs s !! key); reflexivity.
Qed.

Lemma r_raw args s : cmd_raw rnd args s = Done (step_s CRaw args s).
Proof. unfold cmd_raw. open_spec. cbn [apply]. now destruct (put_handle _ _ _). Qed.

Theorem refines_step c args s :
  native c = true -> step_m rnd ord c args s = Some (Done (step_s c args s)).
Proof.
  destruct c; cbn [native step_m]; intros Hn; try discriminate; f_equal;
    auto using r_array, r_range, r_array_push, r_array_pop, r_array_get, r_array_set,
      r_array_remove, r_array_clear, r_array_length, r_map, r_map_put, r_map_get, r_map_remove,
      r_map_size, r_map_keys, r_map_clear, r_set_new, r_set_put, r_set_remove, r_set_contains,
      r_set_size, r_set_clear, r_set_to_array, r_is_array, r_is_map, r_is_set, r_release, r_raw.
Qed.

Theorem step_h_native c args s : native c = true -> step_h rnd ord c args s = Done (step_s c args s).
Proof. intros Hn. unfold step_h. now rewrite (refines_step c args s Hn). Qed.

Theorem refines_run ops s :
  Forall (fun o => native o.1 = true) ops -> run_h rnd ord ops s = Done (run_s rnd ord ops s).
Proof.
  intros HF. revert s. induction HF as [|[c args] ops Hc HF IH]; intros s; cbn [run_h run_s].
  - reflexivity.
  - rewrite (step_h_native c args s Hc). destruct (step_s c args s) as [r s'].
    rewrite IH. now destruct (run_s rnd ord ops s').
Qed.

(* no native command panics or runs out of fuel *)
Theorem native_no_panic c args s o :
  step_m rnd ord c args s = Some o -> exists r, o = Done r.
Proof.
  intros E. destruct (native c) eqn:Hn.
  - rewrite (refines_step c args s Hn) in E. injection E as <-. eauto.
  - destruct c; cbn in E, Hn; discriminate.
Qed.

End Refine.

(* ---- invariants of the specification: handles, frame, mismatch, verbatim --------------------- *)
Section Facts.
Variable rnd : nat -> handle.
Variable ord : nat -> list str -> list str.
Notation spec := (spec ord).
Notation step_s := (step_s rnd ord).
Notation apply := (apply rnd).

(* every live handle is one of the keys drawn so far *)
Definition Inv (s : mstate) : Prop :=
  forall h, is_Some (hs s !! h) -> exists i, (i < draws s)%nat /\ h = rnd i.

Definition sres_ok (s : mstate) (r : sres) : Prop :=
  match r with
  | SKeep _ => True
  | SUpd _ h _ => is_Some (hs s !! h)
  | SNew _ => True
  | SDel _ st' => st' ⊆ hs s
  end.

Ltac open_spec := cbv beta iota zeta delta [CollectionsSpec.spec].
Ltac split_matches :=
  repeat match goal with
         | |- context [match ?x with _ => _ end] => destruct x eqn:?
         end.

Lemma spec_ok c args s : sres_ok s (spec c args s).
Proof.
  destruct c; destruct args as [|a0 [|a1 [|a2 rest]]]; open_spec; unfold on; split_matches;
    cbn [sres_ok]; try exact I;
    try (match goal with H : look_list _ _ = Found _ |- _ => apply look_list_found in H; rewrite H; eauto end);
    try (match goal with H : look_map _ _ = Found _ |- _ => apply look_map_found in H; rewrite H; eauto end);
    try (match goal with H : look_set _ _ = Found _ |- _ => apply look_set_found in H; rewrite H; eauto end);
    try apply delete_subseteq;
    try (match goal with H : release_recursive _ _ = Done _ |- _ => apply rel_rec_good in H; apply H end).
Qed.

Lemma apply_inv s r : Inv s -> sres_ok s r -> Inv (apply s r).2.
Proof.
  intros HI Hok. destruct r as [c|c h v|v|c st']; cbn [apply sres_ok] in *.
  - exact HI.
  - intros h0 Hs. cbn in Hs. destruct (decide (h0 = h)) as [->|Hne].
    + apply HI. exact Hok.
    + rewrite lookup_insert_ne in Hs by congruence. apply HI. exact Hs.
  - unfold put_handle. intros h0 Hs. cbn in *. destruct (decide (h0 = rnd (draws s))) as [->|Hne].
    + exists (draws s). split; [lia|reflexivity].
    + rewrite lookup_insert_ne in Hs by congruence.
      destruct (HI h0 Hs) as (i & Hi & ->). exists i. split; [lia|reflexivity].
  - intros h0 [w Hw]. cbn in Hw. apply HI. exists w. eapply lookup_weaken; eassumption.
Qed.

(* states reachable from the empty table by specification steps and by as-is array_concat steps
   (that is, by everything the correspondence run executes) *)
Inductive reachable : mstate -> Prop :=
  | reachable_init : reachable init
  | reachable_step s c args : reachable s -> reachable (step_s c args s).2
  | reachable_asis s args : reachable s -> reachable (concat_asis rnd args s).2.

Lemma inv_ext s s' : hs s = hs s' -> draws s = draws s' -> Inv s -> Inv s'.
Proof. unfold Inv. intros <- <-. auto. Qed.

Lemma reachable_inv s : reachable s -> Inv s.
Proof.
  induction 1 as [|s c args R IH|s args R IH].
  - intros h [v Hv]. cbn in Hv. rewrite lookup_empty in Hv. discriminate.
  - unfold CollectionsSpec.step_s. apply apply_inv; [exact IH|apply spec_ok].
  - unfold concat_asis. destruct (first_bad _ _ _) as [j|].
    + cbn [snd]. eapply inv_ext; [| |exact IH]; reflexivity.
    + set (v := HList _).
      assert (IH' : Inv (MS (hs s) (draws s) None)) by (eapply inv_ext; [| |exact IH]; reflexivity).
      exact (apply_inv (MS (hs s) (draws s) None) (SNew v) IH' I).
Qed.

(* the empty string is never a live handle when no drawn key is empty (Rust: keys start with "handle:") *)
Lemma reachable_no_empty s :
  (forall i, rnd i <> []) -> reachable s -> hs s !! ([] : str) = None.
Proof.
  intros Hne R. destruct (hs s !! ([] : str)) eqn:E; [|reflexivity].
  destruct (reachable_inv s R [] ) as (i & _ & Hi); [eauto|]. symmetry in Hi. now apply Hne in Hi.
Qed.

Hypothesis rnd_inj : forall i j, rnd i = rnd j -> i = j.

(* handles are distinct while live: a newly allocated handle is not the name of a live collection,
   the command returns it, and every live collection keeps its contents *)
Theorem fresh_handle s c args v :
  reachable s -> spec c args s = SNew v ->
  let h := rnd (draws s) in
  hs s !! h = None /\ step_s c args s = (Cont (Some h), MS (<[h := v]> (hs s)) (S (draws s)) (stale s)) /\
  forall h', is_Some (hs s !! h') -> hs (step_s c args s).2 !! h' = hs s !! h'.
Proof.
  intros R E h. pose proof (reachable_inv s R) as HI.
  assert (Hn : hs s !! h = None).
  { destruct (hs s !! h) eqn:F; [|reflexivity]. destruct (HI h) as (i & Hi & Hh); [eauto|].
    apply rnd_inj in Hh. lia. }
  split; [exact Hn|]. unfold CollectionsSpec.step_s. rewrite E. cbn [apply put_handle]. split; [reflexivity|].
  intros h' Hs. cbn. apply lookup_insert_ne. intros Heq. unfold h in *. rewrite <- Heq, Hn in Hs. destruct Hs; discriminate.
Qed.

(* a command changes at most the one collection it is applied to *)
Theorem frame s c args r h v h' :
  spec c args s = SUpd r h v -> h' <> h -> hs (step_s c args s).2 !! h' = hs s !! h'.
Proof.
  intros E Hne. unfold CollectionsSpec.step_s. rewrite E. cbn. apply lookup_insert_ne. congruence.
Qed.
Theorem keep s c args r : spec c args s = SKeep r -> step_s c args s = (r, s).
Proof. intros E. unfold CollectionsSpec.step_s. now rewrite E. Qed.

(* ---- wrong kind / released / unknown handle --------------------------------------------------- *)
Theorem mismatch c k h rest s :
  wants c = Some k -> kind_at (hs s) h <> Some k ->
  exists r, spec c (h :: rest) s = SKeep r /\ refused r.
Proof.
  intros W K. unfold kind_at in K.
  destruct c; cbn [wants] in W; try discriminate; injection W as <-;
    destruct rest as [|a1 [|a2 rest]]; open_spec;
    unfold on, look_list, look_map, look_set;
    destruct (hs s !! h) as [[l|m|x|t]|]; try (exfalso; apply K; reflexivity);
    try (destruct (parse_usize a1));
    (eexists; split; [reflexivity|]);
    first [left; eexists; reflexivity | right; reflexivity].
Qed.

Lemma str_eqb_refl a : str_eqb a a = true.
Proof. unfold str_eqb. now apply bool_decide_eq_true. Qed.

Theorem release_unknown h s :
  hs s !! h = None ->
  step_s CRelease [h] s = (Cont (Some s_false), s) /\
  step_s CRelease [s_dash_r; h] s = (Cont (Some s_false), s) /\
  step_s CRelease [s_recursive; h] s = (Cont (Some s_false), s).
Proof.
  intros E. unfold CollectionsSpec.step_s. open_spec. unfold release_flags.
  rewrite !str_eqb_refl, orb_true_r. cbn [orb].
  unfold release_recursive. cbn [rel_rec]. rewrite E. cbn [CollectionsSpec.apply ok_bool bool_str].
  rewrite with_hs_id. auto.
Qed.

Theorem concat_mismatch args a s :
  a ∈ args -> kind_at (hs s) a <> Some KList -> spec CArrayConcat args s = SKeep (Error ETrigger).
Proof.
  intros Hin K. open_spec.
  destruct (forallb _ args) eqn:F; [|reflexivity]. exfalso.
  rewrite forallb_forall in F. apply elem_of_list_In in Hin. specialize (F a Hin).
  unfold look_list, kind_at in *. destruct (hs s !! a) as [[]|]; try discriminate. now apply K.
Qed.

(* ---- values are stored and returned verbatim -------------------------------------------------- *)
Theorem verbatim_array s h l vs :
  look_list (hs s) h = Found l ->
  let s' := (step_s CArrayPush (h :: vs) s).2 in
  look_list (hs s') h = Found (l ++ (EStr <$> vs)) /\
  forall j v i, vs !! j = Some v -> parse_usize i = Some (N.of_nat (length l + j)) ->
    step_s CArrayGet [h; i] s' = (Cont (Some v), s').
Proof.
  intros E s'.
  assert (Hs' : s' = with_hs s (<[h := HList (l ++ (EStr <$> vs))]> (hs s))).
  { unfold s', CollectionsSpec.step_s. open_spec. unfold on. rewrite E. reflexivity. }
  clearbody s'. subst s'.
  assert (E' : look_list (hs (with_hs s (<[h := HList (l ++ (EStr <$> vs))]> (hs s)))) h
               = Found (l ++ (EStr <$> vs))).
  { unfold look_list. cbn [with_hs hs]. now rewrite lookup_insert. }
  split; [exact E'|]. intros j v i Hj Hi.
  unfold CollectionsSpec.step_s. open_spec. rewrite Hi. unfold on. rewrite E'.
  rewrite lookupN_eq, Nat2N.id, lookup_app_r by lia.
  replace (length l + j - length l)%nat with j by lia.
  rewrite list_lookup_fmap, Hj. reflexivity.
Qed.

Theorem verbatim_map s h m k v :
  look_map (hs s) h = Found m ->
  let s' := (step_s CMapPut [h; k; v] s).2 in
  step_s CMapGet [h; k] s' = (Cont (Some v), s').
Proof.
  intros E s'.
  assert (Hs' : s' = with_hs s (<[h := HMap (<[k := EStr v]> m)]> (hs s))).
  { unfold s', CollectionsSpec.step_s. open_spec. unfold on. rewrite E. reflexivity. }
  clearbody s'. subst s'.
  unfold CollectionsSpec.step_s. open_spec. unfold on, look_map. cbn [with_hs hs].
  rewrite lookup_insert. rewrite lookup_insert. reflexivity.
Qed.

Theorem verbatim_set s h x vs v :
  look_set (hs s) h = Found x -> v ∈ vs ->
  let s' := (step_s CSetPut (h :: vs) s).2 in
  step_s CSetContains [h; v] s' = (Cont (Some s_true), s').
Proof.
  intros E Hv s'.
  assert (Hs' : s' = with_hs s (<[h := HSet (x ∪ list_to_set vs)]> (hs s))).
  { unfold s', CollectionsSpec.step_s. open_spec. unfold on. rewrite E. reflexivity. }
  clearbody s'. subst s'.
  unfold CollectionsSpec.step_s. open_spec. unfold on, look_set. cbn [with_hs hs].
  rewrite lookup_insert. unfold ok_bool. rewrite bool_decide_eq_true_2; [reflexivity|].
  apply elem_of_union_r. now apply elem_of_list_to_set.
Qed.

(* map_keys / set_to_array list exactly the keys / members, in some order *)
Hypothesis ord_perm : forall n l, ord n l ≡ₚ l.
Theorem keys_perm s h m :
  look_map (hs s) h = Found m ->
  exists ks, spec CMapKeys [h] s = SNew (HList (EStr <$> ks)) /\ ks ≡ₚ (map_to_list m).*1.
Proof. intros E. open_spec. unfold on. rewrite E. eexists. split; [reflexivity|apply ord_perm]. Qed.
Theorem members_perm s h x :
  look_set (hs s) h = Found x ->
  exists ks, spec CSetToArray [h] s = SNew (HList (EStr <$> ks)) /\ ks ≡ₚ elements x.
Proof. intros E. open_spec. unfold on. rewrite E. eexists. split; [reflexivity|apply ord_perm]. Qed.

End Facts.

Lemma mismatch_native rnd ord c k h rest s :
  native c = true -> wants c = Some k -> kind_at (hs s) h <> Some k ->
  exists r, step_m rnd ord c (h :: rest) s = Some (Done (r, s)) /\ refused r.
Proof.
  intros Hn W K.
  destruct (mismatch ord c k h rest s W K) as (r & E & R). exists r. split; [|exact R].
  rewrite (refines_step rnd ord c (h :: rest) s Hn). unfold step_s. now rewrite E.
Qed.

(* ---- non-vacuity ------------------------------------------------------------------------------ *)
(* the oracle hypotheses are satisfiable *)
Definition rnd0 (k : nat) : handle := replicate k 48%N.
Definition ord0 (_ : nat) (l : list str) : list str := l.
Lemma oracles_exist :
  exists (rnd : nat -> handle) (ord : nat -> list str -> list str),
    (forall i j, rnd i = rnd j -> i = j) /\ (forall n l, ord n l ≡ₚ l).
Proof.
  exists rnd0, ord0. split; [|reflexivity].
  intros i j E. apply (f_equal length) in E. unfold rnd0 in E. now rewrite !replicate_length in E.
Qed.

(* a cyclic store: A = [B, A], B = {A}, C = {} ; releasing A recursively terminates and leaves C *)
Definition hA : handle := [65%N]. Definition hB : handle := [66%N]. Definition hC : handle := [67%N].
Definition cyc : store :=
  <[hA := HList [EStr hB; EStr hA; ENum 7]]> (<[hB := HSet {[hA]}]> (<[hC := HMap ∅]> ∅)).
Definition rel_flag (o : outcome (bool * store)) : option bool :=
  match o with Done (b, _) => Some b | _ => None end.
Definition rel_store (o : outcome (bool * store)) : store :=
  match o with Done (_, st) => st | _ => ∅ end.
Lemma release_cyclic :
  let o := release_recursive cyc hA in
  rel_flag o = Some true /\ kind_at (rel_store o) hA = None /\ kind_at (rel_store o) hB = None /\
  kind_at (rel_store o) hC = Some KMap /\ reach cyc hA hB /\ reach cyc hB hA.
Proof.
  repeat (split; [vm_compute; reflexivity|]). split.
  - eapply (reach_step cyc hA hA _ hB); [apply reach_refl; eexists; reflexivity|reflexivity| |eexists; reflexivity].
    cbn. apply elem_of_list_here.
  - eapply (reach_step cyc hB hB _ hA); [apply reach_refl; eexists; reflexivity|reflexivity| |eexists; reflexivity].
    cbn. rewrite elements_singleton. apply elem_of_list_here.
Qed.

(* finding F6: after `a = array x ; array_concat ${a} nope` (an error), `array_concat nope` succeeds
   in the as-is definition while the specification says it is an error *)
Lemma F6_witness :
  let nope : str := [110%N] in
  let s1 := (step_s rnd0 ord0 CArray [[120%N]] init).2 in
  let s2 := (concat_asis rnd0 [rnd0 0; nope] s1).2 in
  (concat_asis rnd0 [rnd0 0; nope] s1).1 = Error ETrigger /\
  (step_s rnd0 ord0 CArrayConcat [nope] s2).1 = Error ETrigger /\
  (concat_asis rnd0 [nope] s2).1 = Cont (Some (rnd0 1)).
Proof. vm_compute. auto. Qed.

(* ---- the table regenerated from the source agrees with the model's table --------------------- *)
Lemma gen_table_ok : gen_table_check = true.
Proof. vm_compute. reflexivity. Qed.

(* with fewer arguments than the table says, every command refuses without looking at any handle *)
Lemma short_args ord c args s :
  (length args < cmd_min_args c)%nat -> is_short c (spec ord c args s) = true.
Proof.
  destruct c; destruct args as [|a0 [|a1 [|a2 rest]]]; cbn [cmd_min_args length]; intros H;
    try lia; reflexivity.
Qed.

(* ---- array_concat as-is: the deviation is confined to the situation "an earlier array_concat
        failed during validation" (stale <> None) ------------------------------------------------ *)
Lemma first_bad_none st args i :
  first_bad st args i = None <->
  forallb (fun a => match look_list st a with Found _ => true | _ => false end) args = true.
Proof.
  revert i; induction args as [|a args IH]; intros i; cbn [first_bad forallb]; [tauto|].
  unfold is_live_array. destruct (look_list st a); cbn [andb]; try (split; intros; discriminate).
  apply IH.
Qed.
Lemma concat_asis_fresh rnd ord args s :
  stale s = None ->
  (concat_asis rnd args s).1 = (step_s rnd ord CArrayConcat args s).1 /\
  hs (concat_asis rnd args s).2 = hs (step_s rnd ord CArrayConcat args s).2 /\
  draws (concat_asis rnd args s).2 = draws (step_s rnd ord CArrayConcat args s).2.
Proof.
  intros E. unfold concat_asis, step_s. cbv beta iota zeta delta [spec]. rewrite E. cbn [default]. rewrite drop_0.
  destruct (forallb _ args) eqn:F.
  - apply first_bad_none with (i := 0%nat) in F. rewrite F. cbn. auto.
  - destruct (first_bad (hs s) args 0) as [j|] eqn:G.
    + cbn. auto.
    + apply first_bad_none in G. congruence.
Qed.

(* pushing values and reading them back at the indexes array_length announces *)
Lemma verbatim_array_dec rnd ord s h l vs :
  look_list (hs s) h = Found l -> (N.of_nat (length l + length vs) < 18446744073709551616)%N ->
  let s' := (step_s rnd ord CArrayPush (h :: vs) s).2 in
  step_s rnd ord CArrayLength [h] s' = (Cont (Some (dec_nat (length l + length vs))), s') /\
  forall j v, vs !! j = Some v ->
    step_s rnd ord CArrayGet [h; dec_nat (length l + j)] s' = (Cont (Some v), s').
Proof.
  intros E Hlen s'. destruct (verbatim_array rnd ord s h l vs E) as [E' G]. fold s' in E', G. split.
  - unfold step_s. cbv beta iota zeta delta [spec]. unfold on. rewrite E'.
    now rewrite app_length, fmap_length.
  - intros j v Hj. apply (G j v); [exact Hj|]. apply parse_usize_dec.
    apply lookup_lt_Some in Hj. lia.
Qed.

(* ---- the loop-free script commands, translated by hand, compute what the specification says ---- *)
Lemma dec_nat_zero n : str_eqb s_zero (dec_nat n) = bool_decide (n = 0%nat).
Proof.
  unfold str_eqb. destruct n as [|n].
  - rewrite !bool_decide_eq_true_2; reflexivity.
  - rewrite !bool_decide_eq_false_2; [reflexivity|lia|].
    intros E. pose proof (digits_dec (N.of_nat (S n))) as D. unfold dec_nat in E. rewrite <- E in D.
    vm_compute in D. injection D as D. lia.
Qed.

Section ScriptRefine.
Variable rnd : nat -> handle.
Variable ord : nat -> list str -> list str.
Notation step_s := (step_s rnd ord).
Ltac open_spec := unfold step_s; cbv beta iota zeta delta [spec].

Lemma rs_array_is_empty args s : script_array_is_empty args s = Done (step_s CArrayIsEmpty args s).
Proof.
  unfold script_array_is_empty. destruct args as [|h rest]; [reflexivity|].
  rewrite (r_array_length rnd ord [h] s). open_spec. unfold on.
  destruct (look_list (hs s) h) as [l| |]; try reflexivity.
  cbn [apply then_equals_zero default from_option id]. rewrite dec_nat_zero. unfold ok_bool. do 4 f_equal.
  destruct l; [rewrite !bool_decide_eq_true_2|rewrite !bool_decide_eq_false_2]; done.
Qed.
Lemma rs_map_is_empty args s : script_map_is_empty args s = Done (step_s CMapIsEmpty args s).
Proof.
  unfold script_map_is_empty. destruct args as [|h rest]; [reflexivity|].
  rewrite (r_map_size rnd ord [h] s). open_spec. unfold on.
  destruct (look_map (hs s) h) as [m| |]; try reflexivity.
  cbn [apply then_equals_zero default from_option id]. rewrite dec_nat_zero. unfold ok_bool. do 4 f_equal.
  destruct (decide (m = ∅)) as [->|Hne].
  - rewrite map_size_empty, !bool_decide_eq_true_2; done.
  - rewrite !bool_decide_eq_false_2; [done|done|]. intros E. apply map_size_empty_inv in E. done.
Qed.
Lemma rs_set_is_empty args s : script_set_is_empty args s = Done (step_s CSetIsEmpty args s).
Proof.
  unfold script_set_is_empty. destruct args as [|h rest]; [reflexivity|].
  rewrite (r_set_size rnd ord [h] s). open_spec. unfold on.
  destruct (look_set (hs s) h) as [x| |]; try reflexivity.
  cbn [apply then_equals_zero default from_option id]. rewrite dec_nat_zero. unfold ok_bool. do 4 f_equal.
  destruct (decide (x = ∅)) as [->|Hne].
  - rewrite size_empty, !bool_decide_eq_true_2; done.
  - rewrite !bool_decide_eq_false_2; [done|done|]. intros E. apply size_empty_inv in E.
    apply Hne. now apply leibniz_equiv.
Qed.
Lemma rs_map_contains_key args s :
  script_map_contains_key args s = Done (step_s CMapContainsKey args s).
Proof.
  unfold script_map_contains_key. destruct args as [|h [|k rest]]; try reflexivity.
  rewrite (r_map_get rnd ord [h; k] s). open_spec. unfold on.
  destruct (look_map (hs s) h) as [m| |]; try reflexivity.
  cbn [apply then_is_defined]. unfold ok_bool. do 4 f_equal.
  destruct (m !! k) as [e|]; cbn [fmap option_fmap option_map].
  - rewrite !bool_decide_eq_true_2; eauto.
  - rewrite !bool_decide_eq_false_2; [done| |]; intros [? ?]; discriminate.
Qed.

Theorem refines_script c args s o :
  loop_free_script c = true -> step_script rnd ord c args s = Some o -> o = Done (step_s c args s).
Proof.
  destruct c; cbn [loop_free_script step_script]; intros H E; try discriminate; injection E as <-;
    auto using rs_array_is_empty, rs_map_is_empty, rs_set_is_empty, rs_map_contains_key.
Qed.

(* array_contains: the for-in loop finds the least index (or answers "false"); the only assumption
   is that the empty string is not the name of a live collection (the script blanks the handle
   variable to leave the loop) *)
Lemma ac_loop_spec s h l value :
  hs s !! h = Some (HList l) -> hs s !! ([] : str) = None ->
  forall fuel it idx0, (it <= length l)%nat -> (length l - it < fuel)%nat ->
  exists v', ac_loop fuel value it (AC idx0 h it) s = Done v' /\
             ac_index v' = match find_index value (drop it l) it with
                           | Some n => dec_nat n | None => idx0 end.
Proof.
  intros Hh He. induction fuel as [|f IH]; intros it idx0 Hit Hf; [lia|].
  cbn [ac_loop]. unfold next_iteration. cbn [ac_arg1]. rewrite Hh.
  destruct (l !! it) as [e|] eqn:El; cbn [fmap option_fmap option_map].
  - rewrite (drop_S l e it El). cbn [find_index ac_index ac_arg1 ac_counter].
    destruct (str_eqb (elem_str e) value) eqn:Ev.
    + apply lookup_lt_Some in El. destruct f as [|f']; [lia|]. cbn [ac_loop ac_arg1 ac_index ac_counter].
      eexists. split; [unfold next_iteration; cbn [ac_arg1]; rewrite He; reflexivity|reflexivity].
    + apply lookup_lt_Some in El. apply (IH (S it) idx0); lia.
  - apply lookup_ge_None in El. rewrite drop_ge by lia. cbn [find_index]. eexists. split; reflexivity.
Qed.
Lemma rs_array_contains args s :
  hs s !! ([] : str) = None -> script_array_contains args s = Done (step_s CArrayContains args s).
Proof.
  intros He. unfold script_array_contains. destruct args as [|h [|v rest]]; try reflexivity.
  open_spec. unfold look_list, ac_fuel. destruct (hs s !! h) as [[l|m|x|t]|] eqn:Eh;
    try (cbn [ac_loop ac_arg1]; unfold next_iteration; rewrite Eh; reflexivity).
  destruct (ac_loop_spec s h l v Eh He (S (S (length l))) 0%nat s_false) as (v' & E & Hi); [lia|lia|].
  rewrite E, Hi, drop_0. reflexivity.
Qed.


(* set_from_array: the loop of set_put calls builds exactly the set of the items; the only
   assumption is that the key drawn for the new set is not live (theorem fresh_handle) *)
Lemma sfa_loop_spec a1 key l :
  a1 <> key ->
  forall fuel it s x, (it <= length l)%nat -> (length l - it < fuel)%nat ->
  hs s !! a1 = Some (HList l) -> hs s !! key = Some (HSet x) ->
  sfa_loop fuel a1 key it s =
  Done (None, with_hs s (<[key := HSet (x ∪ list_to_set (elem_str <$> drop it l))]> (hs s))).
Proof.
  intros Hne. induction fuel as [|f IH]; intros it s x Hit Hf Ha Hk; [lia|].
  cbn [sfa_loop]. unfold next_iteration. rewrite Ha.
  destruct (l !! it) as [e|] eqn:El; cbn [fmap option_fmap option_map].
  - rewrite (r_set_put rnd ord [key; elem_str e] s). unfold step_s. cbv beta iota zeta delta [spec].
    unfold on, look_set. rewrite Hk. cbn [apply].
    apply lookup_lt_Some in El as Hlt.
    rewrite (IH (S it) _ (x ∪ list_to_set [elem_str e])); [|lia|lia| |].
    + cbn [with_hs hs draws stale]. rewrite insert_insert. rewrite (drop_S l e it El).
      do 5 f_equal. apply leibniz_equiv. cbn [fmap list_fmap list_to_set]. set_solver.
    + cbn [with_hs hs]. rewrite lookup_insert_ne by congruence. exact Ha.
    + cbn [with_hs hs]. apply lookup_insert.
  - apply lookup_ge_None in El. rewrite drop_ge by lia. cbn [fmap list_fmap list_to_set].
    rewrite union_empty_r_L, (insert_id _ _ _ Hk), with_hs_id. reflexivity.
Qed.
Lemma rs_set_from_array args s :
  hs s !! rnd (draws s) = None ->
  script_set_from_array rnd args s = Done (step_s CSetFromArray args s).
Proof.
  intros Hfresh. unfold script_set_from_array. destruct args as [|a1 rest]; [reflexivity|].
  rewrite (r_is_array rnd ord [a1] s). open_spec. cbn [apply].
  unfold look_list. destruct (hs s !! a1) as [[l|m|x|t]|] eqn:Ea; cbn [ok_bool bool_str];
    try (replace (str_eqb s_false s_true) with false
           by (symmetry; apply bool_decide_eq_false_2; discriminate); reflexivity).
  rewrite str_eqb_refl. rewrite (r_set_new rnd ord [] s). unfold step_s at 1.
  cbv beta iota zeta delta [spec]. cbn [apply put_handle list_to_set].
  set (key := rnd (draws s)) in *.
  assert (Hne : a1 <> key) by (intros ->; congruence).
  rewrite (sfa_loop_spec a1 key l Hne _ 0%nat _ ∅); [|lia|lia| |].
  - cbn [with_hs hs draws stale]. rewrite insert_insert, drop_0, union_empty_l_L. reflexivity.
  - cbn [hs]. rewrite lookup_insert_ne by congruence. exact Ea.
  - cbn [hs]. apply lookup_insert.
Qed.

Theorem step_h_script c args s :
  loop_free_script c = true -> step_h rnd ord c args s = Done (step_s c args s).
Proof.
  intros H. destruct c; try discriminate H; unfold step_h; cbn [step_m step_script];
    auto using rs_array_is_empty, rs_map_is_empty, rs_set_is_empty, rs_map_contains_key.
Qed.

(* histories over the proved commands: natives and loop-free scripts *)
Definition proved (c : cmd) : bool := native c || loop_free_script c.
Theorem refines_run_proved ops s :
  Forall (fun o => proved o.1 = true) ops -> run_h rnd ord ops s = Done (run_s rnd ord ops s).
Proof.
  intros HF. revert s. induction HF as [|[c args] ops Hc HF IH]; intros s; cbn [run_h run_s].
  - reflexivity.
  - assert (E : step_h rnd ord c args s = Done (step_s c args s)).
    { unfold proved in Hc. cbn [fst] in Hc. apply orb_true_iff in Hc as [Hn|Hl].
      - now apply step_h_native.
      - now apply step_h_script. }
    rewrite E. destruct (step_s c args s) as [r s'].
    rewrite IH. now destruct (run_s rnd ord ops s').
Qed.
End ScriptRefine.

(* ---- what the specification of the loop scripts means ----------------------------------------- *)
(* array_contains answers the least index holding the value *)
Lemma find_index_spec v l : forall i n,
  find_index v l i = Some n <->
  exists j, n = (i + j)%nat /\ elem_str <$> l !! j = Some v /\
            forall j', (j' < j)%nat -> elem_str <$> l !! j' <> Some v.
Proof.
  induction l as [|e l IH]; intros i n; cbn [find_index].
  - split; [discriminate|]. intros (j & _ & H & _). rewrite lookup_nil in H. discriminate.
  - unfold str_eqb. destruct (decide (elem_str e = v)) as [Ev|Ev].
    + rewrite bool_decide_eq_true_2 by exact Ev. split.
      * intros [= <-]. exists 0%nat. split; [lia|]. split; [cbn; now rewrite Ev|intros j' Hj'; lia].
      * intros (j & -> & Hj & Hmin). destruct j as [|j]; [f_equal; lia|].
        exfalso. apply (Hmin 0%nat); [lia|]. cbn. now rewrite Ev.
    + rewrite bool_decide_eq_false_2 by exact Ev. rewrite IH. split.
      * intros (j & -> & Hj & Hmin). exists (S j). split; [lia|]. split; [exact Hj|].
        intros [|j'] Hj'; [cbn; congruence|]. apply Hmin. lia.
      * intros (j & -> & Hj & Hmin). destruct j as [|j]; [cbn in Hj; congruence|].
        exists j. split; [lia|]. split; [exact Hj|]. intros j' Hj'. apply (Hmin (S j')). lia.
Qed.
Lemma find_index_none v l i : find_index v l i = None <-> v ∉ (elem_str <$> l).
Proof.
  revert i; induction l as [|e l IH]; intros i; cbn [find_index fmap list_fmap].
  - split; [intros _ H; inversion H|reflexivity].
  - unfold str_eqb. destruct (decide (elem_str e = v)) as [Ev|Ev].
    + rewrite bool_decide_eq_true_2 by exact Ev. split; [discriminate|].
      intros H. exfalso. apply H. rewrite Ev. apply elem_of_list_here.
    + rewrite bool_decide_eq_false_2 by exact Ev. rewrite IH. rewrite not_elem_of_cons.
      split; [intros H; split; [congruence|exact H]|intros [_ H]; exact H].
Qed.
(* map_contains_value: some key is bound to the value *)
Lemma map_values_spec (v : str) (m : gmap str elem) :
  v ∈ map_values m <-> exists k e, m !! k = Some e /\ elem_str e = v.
Proof.
  unfold map_values. rewrite elem_of_list_fmap. split.
  - intros (e & -> & He). apply elem_of_list_fmap in He as ([k e'] & -> & Hk).
    apply elem_of_map_to_list in Hk. eauto.
  - intros (k & e & Hk & <-). exists e. split; [reflexivity|].
    apply elem_of_list_fmap. exists (k, e). split; [reflexivity|]. now apply elem_of_map_to_list.
Qed.
(* set_from_array: exactly the items of the array, as text *)
Lemma set_from_array_spec (l : list elem) (v : str) :
  v ∈ (list_to_set (elem_str <$> l) : gset str) <-> exists e, e ∈ l /\ elem_str e = v.
Proof.
  rewrite elem_of_list_to_set, elem_of_list_fmap. split; intros (e & H1 & H2); eauto.
Qed.

Section ScriptRefine2.
Variable rnd : nat -> handle.
Variable ord : nat -> list str -> list str.

(* array_concat: the translated loops compute the as-is definition (hence, by concat_asis_fresh, the
   specification whenever no earlier call failed); assumptions: the key drawn for the result is not
   live and is not one of the arguments *)
Lemma cc_validate_eq args i s : cc_validate args i s = first_bad (hs s) args i.
Proof.
  revert i; induction args as [|a r IH]; intros i; cbn [cc_validate first_bad]; [reflexivity|].
  rewrite (r_is_array rnd ord [a] s). unfold step_s. cbv beta iota zeta delta [spec]. cbn [apply].
  unfold is_live_array. destruct (look_list (hs s) a); cbn [ok_bool bool_str].
  - rewrite str_eqb_refl. apply IH.
  - replace (str_eqb s_false s_true) with false by (symmetry; apply bool_decide_eq_false_2; discriminate). reflexivity.
  - replace (str_eqb s_false s_true) with false by (symmetry; apply bool_decide_eq_false_2; discriminate). reflexivity.
Qed.

Definition items_of (st : store) (a : str) : list elem :=
  match look_list st a with Found l => l | _ => [] end.

Lemma as_text_app l1 l2 : as_text (l1 ++ l2) = as_text l1 ++ as_text l2.
Proof. unfold as_text. apply fmap_app. Qed.

Lemma cc_items_list arg key l : arg <> key ->
  forall fuel it s acc, (it <= length l)%nat -> (length l - it < fuel)%nat ->
  hs s !! arg = Some (HList l) -> hs s !! key = Some (HList acc) ->
  cc_items fuel arg key it s =
  Done (None, with_hs s (<[key := HList (acc ++ as_text (drop it l))]> (hs s))).
Proof.
  intros Hne. induction fuel as [|f IH]; intros it s acc Hit Hf Ha Hk; [lia|].
  cbn [cc_items]. unfold next_iteration. rewrite Ha.
  destruct (l !! it) as [e|] eqn:El; cbn [fmap option_fmap option_map].
  - rewrite (r_array_push rnd ord [key; elem_str e] s). unfold step_s. cbv beta iota zeta delta [spec].
    unfold on, look_list. rewrite Hk. cbn [apply].
    apply lookup_lt_Some in El as Hlt.
    rewrite (IH (S it) _ (acc ++ (EStr <$> [elem_str e]))); [|lia|lia| |].
    + cbn [with_hs hs draws stale]. rewrite insert_insert. rewrite (drop_S l e it El).
      do 5 f_equal. rewrite <- app_assoc. reflexivity.
    + cbn [with_hs hs]. rewrite lookup_insert_ne by congruence. exact Ha.
    + cbn [with_hs hs]. apply lookup_insert.
  - apply lookup_ge_None in El. rewrite drop_ge by lia. cbn. 
    rewrite app_nil_r, (insert_id _ _ _ Hk), with_hs_id. reflexivity.
Qed.

Lemma cc_items_spec arg key s acc : arg <> key -> hs s !! key = Some (HList acc) ->
  cc_items (cc_fuel s arg) arg key 0 s =
  Done (None, with_hs s (<[key := HList (acc ++ as_text (items_of (hs s) arg))]> (hs s))).
Proof.
  intros Hne Hk. unfold cc_fuel, items_of, look_list.
  destruct (hs s !! arg) as [[l|m|x|t]|] eqn:Ea;
    try (cbn [cc_items]; unfold next_iteration; rewrite Ea; cbn;
         rewrite app_nil_r, (insert_id _ _ _ Hk), with_hs_id; reflexivity).
  rewrite (cc_items_list arg key l Hne _ 0%nat s acc); [|lia|lia|exact Ea|exact Hk].
  now rewrite drop_0.
Qed.

Lemma bind_ext_in {A B} (f g : A -> list B) (l : list A) :
  (forall a, a ∈ l -> f a = g a) -> l ≫= f = l ≫= g.
Proof.
  induction l as [|x l IH]; intros H; cbn [mbind list_bind]; [reflexivity|].
  rewrite (H x) by apply elem_of_list_here. f_equal. apply IH. intros a Ha. apply H. now apply elem_of_list_further.
Qed.

Lemma cc_args_spec key args : key ∉ args ->
  forall s acc, hs s !! key = Some (HList acc) ->
  cc_args args key s =
  Done (None, with_hs s (<[key := HList (acc ++ as_text (args ≫= items_of (hs s)))]> (hs s))).
Proof.
  induction args as [|a r IH]; intros Hnin s acc Hk; cbn [cc_args].
  - cbn. rewrite app_nil_r, (insert_id _ _ _ Hk), with_hs_id. reflexivity.
  - apply not_elem_of_cons in Hnin as [Hka Hkr].
    rewrite (cc_items_spec a key s acc); [|congruence|exact Hk].
    rewrite (IH Hkr _ (acc ++ as_text (items_of (hs s) a))); [|cbn [with_hs hs]; apply lookup_insert].
    cbn [with_hs hs draws stale]. rewrite insert_insert. do 5 f_equal.
    rewrite <- app_assoc. f_equal. cbn [mbind list_bind]. rewrite as_text_app. f_equal. f_equal.
    apply bind_ext_in. intros a' Ha'.
    unfold items_of, look_list. rewrite lookup_insert_ne; [reflexivity|].
    intros <-. contradiction.
Qed.

Lemma rs_array_concat args s :
  hs s !! rnd (draws s) = None -> rnd (draws s) ∉ args ->
  script_array_concat rnd args s = Done (concat_asis rnd args s).
Proof.
  intros Hfresh Hnin. unfold script_array_concat, concat_asis.
  rewrite cc_validate_eq. destruct (first_bad _ _ _) as [j|]; [reflexivity|].
  rewrite (r_array rnd ord [] (MS (hs s) (draws s) None)). unfold step_s at 1.
  cbv beta iota zeta delta [spec]. cbn [apply put_handle hs draws stale fmap list_fmap].
  set (key := rnd (draws s)) in *.
  rewrite (cc_args_spec key args Hnin _ []); [|cbn [hs]; apply lookup_insert].
  unfold with_hs. cbn [hs draws stale app]. rewrite insert_insert.
  replace (args ≫= items_of (<[key:=HList []]> (hs s)))
    with (args ≫= (fun a => match look_list (hs s) a with Found l => l | _ => [] end)); [reflexivity|].
  apply bind_ext_in. intros a Ha. unfold items_of, look_list.
  rewrite lookup_insert_ne; [reflexivity|]. intros <-. contradiction.
Qed.

(* map_contains_value: the answer of the specification; the temporary key array is gone afterwards;
   assumptions: the drawn key is not live, the empty string is not a live handle, and the key order
   is a permutation of the keys *)
Definition cmp (m : gmap str elem) (value key : str) : bool :=
  str_eqb (default [] (elem_str <$> m !! key)) value.

(* the loop over the key array [ks] from position [it]: stops (by releasing the key array) at the
   first key bound to the value *)
Lemma mcv_loop_spec a1 karr value m ks : a1 <> karr ->
  forall fuel it found s, (it <= length ks)%nat -> (length ks - it < fuel)%nat ->
  hs s !! a1 = Some (HMap m) -> hs s !! karr = Some (HList (EStr <$> ks)) ->
  mcv_loop fuel a1 karr value it found s =
  if existsb (cmp m value) (drop it ks)
  then Done (None, true, with_hs s (delete karr (hs s)))
  else Done (None, (if decide (it = length ks) then found else false), s).
Proof.
  intros Hne. induction fuel as [|f IH]; intros it found s Hit Hf Ha Hk; [lia|].
  cbn [mcv_loop]. unfold next_iteration. rewrite Hk, list_lookup_fmap.
  destruct (ks !! it) as [key|] eqn:El; cbn [fmap option_fmap option_map elem_str].
  - apply lookup_lt_Some in El as Hlt. rewrite (drop_S ks key it El). cbn [existsb].
    rewrite (r_map_get rnd ord [a1; key] s). unfold step_s. cbv beta iota zeta delta [spec].
    unfold on, look_map. rewrite Ha. cbn [apply]. fold (cmp m value key).
    destruct (cmp m value key) eqn:Ec; cbn [orb].
    + (* found: release the key array, the next test sees no list *)
      unfold cmd_release. rewrite Hk. destruct f as [|f']; [lia|].
      cbn [mcv_loop]. unfold next_iteration. cbn [with_hs hs]. rewrite lookup_delete. reflexivity.
    + rewrite (IH (S it) false s); [|lia|lia|exact Ha|exact Hk].
      destruct (existsb (cmp m value) (drop (S it) ks)); [reflexivity|].
      destruct (decide (S it = length ks)), (decide (it = length ks)); try reflexivity; lia.
  - apply lookup_ge_None in El. rewrite drop_ge by lia. cbn [existsb].
    destruct (decide (it = length ks)); [reflexivity|lia].
Qed.

Lemma existsb_cmp_values (m : gmap str elem) (value : str) ks :
  ks ≡ₚ (map_to_list m).*1 ->
  existsb (cmp m value) ks = bool_decide (value ∈ map_values m).
Proof.
  intros P. destruct (existsb (cmp m value) ks) eqn:E.
  - symmetry. apply bool_decide_eq_true. apply existsb_exists in E as (key & Hin & Hc).
    unfold cmp, str_eqb in Hc. apply bool_decide_eq_true in Hc.
    apply elem_of_list_In in Hin. rewrite P in Hin.
    apply elem_of_list_fmap in Hin as ([k e] & -> & Hke). apply elem_of_map_to_list in Hke.
    cbn [fst] in Hc. rewrite Hke in Hc. cbn in Hc. apply map_values_spec. eauto.
  - symmetry. apply bool_decide_eq_false. intros Hv. apply map_values_spec in Hv as (k & e & Hk & He).
    assert (Hin : k ∈ ks).
    { rewrite P. apply elem_of_list_fmap. exists (k, e). split; [reflexivity|]. now apply elem_of_map_to_list. }
    assert (existsb (cmp m value) ks = true); [|congruence].
    apply existsb_exists. exists k. split; [now apply elem_of_list_In|].
    unfold cmp, str_eqb. rewrite Hk. cbn. now apply bool_decide_eq_true.
Qed.

Theorem rs_map_contains_value args s :
  (forall n l, ord n l ≡ₚ l) ->
  hs s !! rnd (draws s) = None -> hs s !! ([] : str) = None ->
  exists s', script_map_contains_value rnd ord args s = Done ((step_s rnd ord CMapContainsValue args s).1, s') /\
             hs s' = hs s /\ stale s' = stale s.
Proof.
  intros ord_perm Hfresh Hemp. unfold script_map_contains_value.
  destruct args as [|a1 [|a2 rest]]; try (eexists; split; [reflexivity|split; reflexivity]).
  rewrite (rs_map_is_empty rnd ord [a1] s). unfold step_s. cbv beta iota zeta delta [spec].
  unfold on, look_map. destruct (hs s !! a1) as [[l|m|x|t]|] eqn:Ea; cbn [apply fst];
    try (eexists; split; [reflexivity|split; reflexivity]).
  unfold ok_bool. destruct (decide (m = ∅)) as [->|Hm].
  - rewrite bool_decide_eq_true_2 by reflexivity. cbn [bool_str]. rewrite str_eqb_refl.
    unfold cmd_release. rewrite Hemp.
    replace (bool_decide (a2 ∈ map_values ∅)) with false.
    2:{ symmetry. apply bool_decide_eq_false_2. unfold map_values. rewrite map_to_list_empty. apply not_elem_of_nil. }
    eexists. split; [reflexivity|split; reflexivity].
  - rewrite (bool_decide_eq_false_2 (m = ∅)) by exact Hm. cbn [bool_str].
    replace (str_eqb s_false s_true) with false by (symmetry; apply bool_decide_eq_false_2; discriminate).
    rewrite (r_map_keys rnd ord [a1] s). unfold step_s. cbv beta iota zeta delta [spec].
    unfold on, look_map. rewrite Ea. cbn [apply put_handle].
    set (karr := rnd (draws s)) in *. set (ks := ord (draws s) (map_to_list m).*1).
    assert (Hne : a1 <> karr) by (intros ->; congruence).
    cbn [hs]. rewrite lookup_insert, fmap_length.
    rewrite (mcv_loop_spec a1 karr a2 m ks Hne); [|lia|lia| |]; cycle 1.
    { cbn [hs]. rewrite lookup_insert_ne by congruence. exact Ea. }
    { cbn [hs]. apply lookup_insert. }
    rewrite drop_0, (existsb_cmp_values m a2 ks (ord_perm _ _)).
    destruct (bool_decide (a2 ∈ map_values m)) eqn:Eb.
    + unfold cmd_release. cbn [with_hs hs]. rewrite lookup_delete.
      eexists. split; [reflexivity|]. cbn [hs stale]. split; [|reflexivity].
      rewrite delete_insert by exact Hfresh. reflexivity.
    + unfold cmd_release. cbn [hs]. rewrite lookup_insert.
      eexists. split.
      * destruct (decide (0%nat = length ks)); reflexivity.
      * cbn [with_hs hs stale]. split; [|reflexivity].
        rewrite delete_insert by exact Hfresh. reflexivity.
Qed.
End ScriptRefine2.
