(* CollectionsProof.v — proofs about Collections.v (model M) and CollectionsSpec.v (spec S). *)
From stdpp Require Import gmap list.
From Coq Require Import NArith ZArith Lia.
Require Import DS.Collections DS.CollectionsSpec.

(* ---- the take-out / put-back helpers ------------------------------------------------------- *)
Lemma mutate_list_eq key st handler :
  mutate_list key st handler =
  match look_list st key with
  | Found l => match handler l with
               | Some (r, l') => Done (r, <[key := HList l']> st)
               | None => Panic
               end
  | WrongKind => Done (RErr EKind, st)
  | Missing => Done (RErr ENotFound, st)
  end.
Proof.
  unfold mutate_list, look_list.
  destruct (st !! key) as [[l|m|x|t]|] eqn:E; cbv zeta; try reflexivity;
    try (rewrite insert_delete by exact E; reflexivity).
  destruct (handler l) as [[r l']|]; [|reflexivity]. now rewrite insert_delete_insert.
Qed.
Lemma mutate_map_eq key st handler :
  mutate_map key st handler =
  match look_map st key with
  | Found m => match handler m with
               | Some (r, m') => Done (r, <[key := HMap m']> st)
               | None => Panic
               end
  | WrongKind => Done (RErr EKind, st)
  | Missing => Done (RErr ENotFound, st)
  end.
Proof.
  unfold mutate_map, look_map.
  destruct (st !! key) as [[l|m|x|t]|] eqn:E; cbv zeta; try reflexivity;
    try (rewrite insert_delete by exact E; reflexivity).
  destruct (handler m) as [[r m']|]; [|reflexivity]. now rewrite insert_delete_insert.
Qed.
Lemma mutate_set_eq key st handler :
  mutate_set key st handler =
  match look_set st key with
  | Found x => match handler x with
               | Some (r, x') => Done (r, <[key := HSet x']> st)
               | None => Panic
               end
  | WrongKind => Done (RErr EKind, st)
  | Missing => Done (RErr ENotFound, st)
  end.
Proof.
  unfold mutate_set, look_set.
  destruct (st !! key) as [[l|m|x|t]|] eqn:E; cbv zeta; try reflexivity;
    try (rewrite insert_delete by exact E; reflexivity).
  destruct (handler x) as [[r x']|]; [|reflexivity]. now rewrite insert_delete_insert.
Qed.

Lemma with_hs_id s : with_hs s (hs s) = s.
Proof. now destruct s. Qed.

Lemma look_list_found st h l : look_list st h = Found l -> st !! h = Some (HList l).
Proof. unfold look_list. destruct (st !! h) as [[]|]; congruence. Qed.
Lemma look_map_found st h m : look_map st h = Found m -> st !! h = Some (HMap m).
Proof. unfold look_map. destruct (st !! h) as [[]|]; congruence. Qed.
Lemma look_set_found st h x : look_set st h = Found x -> st !! h = Some (HSet x).
Proof. unfold look_set. destruct (st !! h) as [[]|]; congruence. Qed.

(* ---- loops vs closed forms ----------------------------------------------------------------- *)
Lemma push_fold (vs : list str) (l : list elem) :
  fold_left (fun a x => a ++ [EStr x]) vs l = l ++ (EStr <$> vs).
Proof.
  revert l; induction vs as [|v vs IH]; intros l; cbn [fold_left fmap list_fmap].
  - now rewrite app_nil_r.
  - rewrite IH, <- app_assoc. reflexivity.
Qed.
Lemma set_fold (vs : list str) (x : gset str) :
  fold_left (fun (a : gset str) v => {[v]} ∪ a) vs x = x ∪ list_to_set vs.
Proof.
  revert x; induction vs as [|v vs IH]; intros x; cbn [fold_left list_to_set].
  - apply leibniz_equiv. set_solver.
  - rewrite IH. apply leibniz_equiv. set_solver.
Qed.

(* ---- Vec operations ------------------------------------------------------------------------ *)
Lemma len_gt_lt l idx : len_gt l idx = true -> (N.to_nat idx < length l)%nat.
Proof. unfold len_gt. intros H. apply N.ltb_lt in H. lia. Qed.
Lemma len_gt_ge l idx : len_gt l idx = false -> (length l <= N.to_nat idx)%nat.
Proof. unfold len_gt. intros H. apply N.ltb_ge in H. lia. Qed.

Lemma nth_error_lookup {A} (l : list A) i : nth_error l i = l !! i.
Proof. revert i; induction l; intros [|i]; cbn; auto. Qed.

Lemma vec_pop_eq l : vec_pop l = (last l, take (pred (length l)) l).
Proof.
  unfold vec_pop. rewrite last_lookup. destruct (length l) eqn:E; cbn [pred].
  - destruct l; [reflexivity|discriminate].
  - now rewrite nth_error_lookup.
Qed.
Lemma vec_set_eq l i v : (i < length l)%nat -> vec_set l i v = Some (<[i := v]> l).
Proof.
  intros H. unfold vec_set. destruct (Nat.ltb_spec i (length l)); [|lia].
  now rewrite insert_take_drop.
Qed.
Lemma vec_remove_eq l i : (i < length l)%nat -> vec_remove l i = Some (delete i l).
Proof.
  intros H. unfold vec_remove. destruct (Nat.ltb_spec i (length l)); [|lia].
  now rewrite delete_take_drop.
Qed.
Lemma vec_index_eq l i : (i < length l)%nat -> exists e, vec_index l i = Some e /\ l !! i = Some e.
Proof.
  intros H. unfold vec_index. rewrite nth_error_lookup.
  destruct (lookup_lt_is_Some_2 l i H) as [e He]. eauto.
Qed.
Lemma lookupN_eq l idx : lookupN l idx = l !! N.to_nat idx.
Proof.
  unfold lookupN. destruct (len_gt l idx) eqn:E; [reflexivity|].
  symmetry. apply lookup_ge_None. now apply len_gt_ge.
Qed.

(* ---- recursive release: termination ---------------------------------------------------------- *)
Lemma size_delete_lt (st : store) key v : st !! key = Some v -> size st = S (size (delete key st)).
Proof.
  intros E. rewrite <- (insert_delete st key v E) at 1.
  rewrite map_size_insert, lookup_delete. reflexivity.
Qed.
Lemma sub_none (a b : store) h : a ⊆ b -> b !! h = None -> a !! h = None.
Proof.
  intros S E. destruct (a !! h) eqn:F; [|reflexivity].
  rewrite (lookup_weaken _ _ _ _ F S) in E. discriminate.
Qed.

Lemma map_sub_size (a b : store) : a ⊆ b -> (size a <= size b)%nat.
Proof. intros S. rewrite <- !(size_dom (D:=gset handle)). apply subseteq_size, subseteq_dom, S. Qed.

Definition rec_total (rec : store -> handle -> outcome (bool * store)) (n : nat) : Prop :=
  forall st key, (size st < n)%nat -> exists b st', rec st key = Done (b, st') /\ st' ⊆ st.

Lemma rel_fold_total rec n ks : rec_total rec n -> forall st, (size st < n)%nat ->
  exists st', rel_fold rec ks st = Done st' /\ st' ⊆ st.
Proof.
  intros HR. induction ks as [|k ks IH]; intros st Hs; cbn [rel_fold].
  - exists st. split; [reflexivity|done].
  - destruct (HR st k Hs) as (b & st1 & E1 & S1). rewrite E1.
    pose proof (map_sub_size _ _ S1) as Hsz.
    destruct (IH st1) as (st' & E' & S'); [lia|].
    exists st'. split; [exact E'|]. etrans; eassumption.
Qed.
Lemma rel_rec_total fuel : rec_total (rel_rec fuel) fuel.
Proof.
  induction fuel as [|f IH]; intros st key Hs; [lia|]. cbn [rel_rec].
  destruct (st !! key) as [v|] eqn:E.
  - pose proof (size_delete_lt st key v E) as Hd.
    destruct (rel_fold_total (rel_rec f) f (children v) IH (delete key st)) as (st' & E' & S'); [lia|].
    rewrite E'. exists true, st'. split; [reflexivity|].
    etrans; [exact S'|apply delete_subseteq].
  - exists false, st. split; [reflexivity|done].
Qed.
Lemma release_recursive_total st key :
  exists b st', release_recursive st key = Done (b, st') /\ st' ⊆ st.
Proof. apply rel_rec_total. lia. Qed.

(* ---- recursive release: removes exactly the reachable handles -------------------------------- *)
Lemma reach_mono (a b : store) k h : a ⊆ b -> reach a k h -> reach b k h.
Proof.
  intros S R. induction R as [k [v Hk]|k h v c R IH Hh Hc [w Hw]].
  - apply reach_refl. exists v. eapply lookup_weaken; eassumption.
  - eapply reach_step; [exact IH| |exact Hc|].
    + eapply lookup_weaken; eassumption.
    + exists w. eapply lookup_weaken; eassumption.
Qed.
Lemma reach_cons st k v c h :
  st !! k = Some v -> c ∈ children v -> reach st c h -> reach st k h.
Proof.
  intros Hk Hc R. induction R as [c Hs|c h w d R IH Hh Hd Hs].
  - eapply reach_step; [apply reach_refl; eauto|exact Hk|exact Hc|exact Hs].
  - eapply reach_step; [apply IH; assumption|exact Hh|exact Hd|exact Hs].
Qed.

Definition closed_under (st st' : store) : Prop :=
  forall h v, st !! h = Some v -> st' !! h = None -> forall c, c ∈ children v -> st' !! c = None.

Definition rec_good (rec : store -> handle -> outcome (bool * store)) : Prop :=
  forall st key b st', rec st key = Done (b, st') ->
    st' ⊆ st /\ st' !! key = None /\ b = bool_decide (is_Some (st !! key)) /\
    closed_under st st' /\
    (forall h, is_Some (st !! h) -> st' !! h = None -> reach st key h).

Lemma rel_fold_good rec ks : rec_good rec -> forall st st', rel_fold rec ks st = Done st' ->
  st' ⊆ st /\ (forall k, k ∈ ks -> st' !! k = None) /\ closed_under st st' /\
  (forall h, is_Some (st !! h) -> st' !! h = None -> exists k, k ∈ ks /\ reach st k h).
Proof.
  intros HG. induction ks as [|k ks IH]; intros st st' E; cbn [rel_fold] in E.
  - injection E as <-. split; [done|]. split; [intros k Hk; inversion Hk|]. split.
    + intros h v Hh Hn. congruence.
    + intros h [v Hv] Hn. congruence.
  - destruct (rec st k) as [[b st1]| |] eqn:E1; try discriminate.
    destruct (HG _ _ _ _ E1) as (S1 & N1 & _ & C1 & R1).
    destruct (IH _ _ E) as (S2 & N2 & C2 & R2).
    split; [etrans; eassumption|]. split; [|split].
    + intros k0 Hk0. apply elem_of_cons in Hk0 as [->|Hk0]; [|auto].
      eapply sub_none; eassumption.
    + intros h v Hh Hn c Hc. destruct (st1 !! h) as [v1|] eqn:F.
      * assert (v1 = v) as ->.
        { pose proof (lookup_weaken _ _ _ _ F S1) as G. congruence. }
        eapply C2; eassumption.
      * eapply sub_none; [exact S2|]. eapply C1; eassumption.
    + intros h Hs Hn. destruct (st1 !! h) as [v1|] eqn:F.
      * destruct (R2 h) as (k0 & Hk0 & Rk0); [eauto|exact Hn|].
        exists k0. split; [now apply elem_of_list_further|]. eapply reach_mono; eassumption.
      * exists k. split; [apply elem_of_list_here|]. apply R1; assumption.
Qed.

Lemma rel_rec_good fuel : rec_good (rel_rec fuel).
Proof.
  induction fuel as [|f IH]; intros st key b st' E; cbn [rel_rec] in E; [discriminate|].
  destruct (st !! key) as [v|] eqn:Ek.
  - destruct (rel_fold (rel_rec f) (children v) (delete key st)) as [st2| |] eqn:E2; try discriminate.
    injection E as <- <-.
    destruct (rel_fold_good _ _ IH _ _ E2) as (S2 & N2 & C2 & R2).
    assert (Sd : delete key st ⊆ st) by apply delete_subseteq.
    split; [etrans; eassumption|]. split; [|split; [|split]].
    + eapply sub_none; [exact S2|]. apply lookup_delete.
    + symmetry. apply bool_decide_eq_true. eauto.
    + intros h w Hh Hn c Hc. destruct (decide (h = key)) as [->|Hne].
      * assert (w = v) as -> by congruence. apply N2. exact Hc.
      * eapply C2; [|exact Hn|exact Hc]. rewrite lookup_delete_ne by congruence. exact Hh.
    + intros h Hs Hn. destruct (decide (h = key)) as [->|Hne].
      * apply reach_refl. exact Hs.
      * destruct (R2 h) as (c & Hc & Rc).
        { rewrite lookup_delete_ne by congruence. exact Hs. }
        { exact Hn. }
        eapply reach_cons; [exact Ek|exact Hc|]. eapply reach_mono; eassumption.
  - injection E as <- <-. split; [done|]. split; [exact Ek|]. split; [|split].
    + symmetry. apply bool_decide_eq_false. intros [? ?]. congruence.
    + intros h w Hh Hn. congruence.
    + intros h [w Hw] Hn. congruence.
Qed.

Theorem release_exact st key b st' :
  release_recursive st key = Done (b, st') ->
  b = bool_decide (is_Some (st !! key)) /\
  forall h, (reach st key h -> st' !! h = None) /\ (~ reach st key h -> st' !! h = st !! h).
Proof.
  intros E. destruct (rel_rec_good _ _ _ _ _ E) as (S & N & B & C & R).
  split; [exact B|]. intros h. split.
  - intros Rh. induction Rh as [k Hs|k h v c Rh IH Hh Hc Hs]; [exact N|].
    exact (C h v Hh IH c Hc).
  - intros NR. destruct (st' !! h) as [x|] eqn:F.
    + symmetry. eapply lookup_weaken; eassumption.
    + destruct (st !! h) as [w|] eqn:G; [|reflexivity].
      exfalso. apply NR. apply R; [eauto|exact F].
Qed.
