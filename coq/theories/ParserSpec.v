(* ParserSpec.v — specification vocabulary for C08 (definitions only, no proofs; extractable).

   [line_error s] is what one physical line does to a parse that contains it, for texts whose
   include directives cannot be served (the domain of C01/C08): [None] = the line is accepted and
   contributes exactly one instruction; [Some e] = the whole parse fails with [e] at this line. *)
Require Import DS.Base DS.Parser.

Definition line_error (s : str) : option perr :=
  match parse_line s with
  | PErr e => Some e
  | POk (IPre (Some c) a) =>
      if str_eqb c s_print then None
      else if str_eqb c s_include_files then match a with None => None | Some _ => Some EReadFile end
      else Some EUnknownPreProcessorCommand
  | POk (IPre None _) => Some EPreProcessNoCommandFound
  | POk _ => None
  end.

(* an include directive WITH arguments (touches the file system: outside the domain) *)
Definition include_args_line (s : str) : bool :=
  match parse_line s with
  | POk (IPre (Some c) (Some _)) => str_eqb c s_include_files
  | _ => false
  end.
Definition no_include_args (t : str) : bool :=
  forallb (fun s => negb (include_args_line s)) (lines t).

(* blank line or '#'-comment line *)
Definition blank_or_comment (s : str) : bool :=
  match trim s with [] => true | c :: _ => c =? c_hash end.

(* the physical lines with their 1-based numbers *)
Fixpoint number_from (ln : N) (ls : list str) : list (N * str) :=
  match ls with [] => [] | s :: r => (ln, s) :: number_from (ln + 1) r end.

(* "instruction i is what line number n with text s parses to" *)
Definition instr_of_line (src : option str) (p : N * str) (i : instr) : Prop :=
  i_line i = fst p /\ i_source i = src /\ parse_line (snd p) = POk (i_type i).
