(* CliGenTie.v — duckscript_cli/src/main.rs (run_cli, run_script, run_repl, main) and duckscript_cli/src/linter.rs
   (lint_file, lint_instructions, lint_instruction, is_lower_case): the hand model Cli.v (CliFns.v for the Rust
   functions Cli.v folds into run_cli) is EQUAL, for all inputs, to the mechanical translation of the CURRENT Rust
   source (coq/generated/GenCliFn.v, rewritten on every run by lib/rs2v.py through lib/gen/cli_gen.py).

     gen_is_lower_case_eq       translation = Cli.is_lower_case
     gen_lint_instruction_eq    translation = Cli.lint_instruction            (first offender: label, command, output)
     gen_lint_instructions_eq   translation = Cli.lint_instructions           (the loop; first offending instruction)
     gen_lint_file_eq           translation = (lint_says_parsed, lint_parsed) of parse_file's verdict
     gen_run_script_eq          translation = of_bool of run_file / run_text
     gen_run_repl_eq            translation = of_bool repl
     gen_run_cli_eq             translation on the full argv = Some (Cli.run_cli on argv without the program name):
                                in particular no index of run_cli can be out of bounds
     gen_dispatch_eq            the same walk with the leaves named = Some (Cli.dispatch ..)
     gen_main_eq                translation = (exit_code st, prints_error) for the non-zero status st of the source

   The generated functions call the HAND versions of the other functions, so the ties are independent.  Every
   theorem is stated under its own flag [gen_<fn>_understood = true]: when the translator does not understand a
   function any more the generated file holds [false] and a stub for it and the theorem holds vacuously (the check
   reports that tie as inactive).  Every proof must also compile against the stub: the first sentence then closes
   the goal by [discriminate], so every later sentence is prefixed with [all:] and no bullets / braces are used.
   No proof mentions a generated variable name or the position of a test in a decision tree: string comparisons
   are abstracted to boolean atoms and the remaining propositional identity is decided by cases. *)
Require Import DS.Base DS.Parser DS.Cli DS.CliFns DS.Rs2vCliLib.
Require Import DSG.GenCliFn.

Ltac cli_atoms :=
  (* string comparisons are decided by their SPECIFICATION: a positive answer substitutes the compared text, so every other
     comparison of it with a literal computes - two option spellings can never both match, whatever order the source tests
     them in (a syntactic abstraction to independent booleans would invent such cases) *)
  repeat match goal with
         | |- context [str_eqb ?a ?b] =>
           let E := fresh "E" in
           destruct (str_eqb_spec a b) as [E|E];
           [first [subst a | subst b | rewrite E in * |- * | idtac]|]; cbn in *
         end;
  repeat match goal with
         | |- context [is_lower_case ?a] => let x := fresh "atom" in generalize (is_lower_case a); intros x
         end;
  repeat match goal with x : bool |- _ => destruct x end; try reflexivity; try congruence.

(* comparisons of the same two strings in either order: by their specification *)
Ltac str_cases :=
  repeat match goal with |- context [str_eqb ?a ?b] => destruct (str_eqb_spec a b) end;
  try reflexivity; try congruence.

Lemma run_cli_argv_dispatch rf rt rp pf argv :
  run_cli_argv rf rt rp pf argv =
  match dispatch_argv argv with
  | ARepl => run_repl rp
  | AVersion | AHelp => ROk
  | ARunFile f => run_script rf rt f true
  | ARunText t => run_script rf rt t false
  | ALint f => snd (lint_file pf f)
  end.
Proof. unfold run_cli_argv, dispatch_argv, run_cli. destruct (dispatch (tl argv)); reflexivity. Qed.

(* ---- linter.rs ---------------------------------------------------------------------------------------- *)
Theorem gen_is_lower_case_eq : gen_is_lower_case_understood = true ->
  forall v, gen_is_lower_case v = is_lower_case v.
Proof.
  unfold gen_is_lower_case_understood; intros U; try discriminate U; clear U.
  all: intros [t|]; unfold gen_is_lower_case, is_lower_case; str_cases.
Qed.

Theorem gen_lint_instruction_eq : gen_lint_instruction_understood = true ->
  forall label output command, gen_lint_instruction label output command = lint_instruction label output command.
Proof.
  unfold gen_lint_instruction_understood; intros U; try discriminate U; clear U.
  all: intros l o c; unfold gen_lint_instruction, lint_instruction; cli_atoms.
Qed.

Lemma gen_lint_instructions_loop : gen_lint_instructions_understood = true ->
  forall is,
    for_each_r gen_lint_instructions_body is tt
    = match lint_instructions is with ROk => LCont tt | RErr e => LRet (RErr e) end.
Proof.
  unfold gen_lint_instructions_understood; intros U; try discriminate U; clear U.
  all: intros is; induction is as [|i r IH]; cbn [for_each_r lint_instructions]; [reflexivity|].
  all: unfold gen_lint_instructions_body.
  all: destruct (i_type i) as [|cmd args|l o c args]; cbn iota beta; try exact IH.
  all: destruct (lint_instruction l o c); [reflexivity|exact IH].
Qed.

Theorem gen_lint_instructions_eq : gen_lint_instructions_understood = true ->
  forall is, gen_lint_instructions is = lint_instructions is.
Proof.
  intros U is. pose proof (gen_lint_instructions_loop U is) as L. revert U L.
  unfold gen_lint_instructions_understood; intros U; try discriminate U; clear U.
  all: intros L; unfold gen_lint_instructions; rewrite L.
  all: destruct (lint_instructions is); reflexivity.
Qed.

Theorem gen_lint_file_eq : gen_lint_file_understood = true ->
  forall parse_file file, gen_lint_file parse_file file = lint_file parse_file file.
Proof.
  unfold gen_lint_file_understood; intros U; try discriminate U; clear U.
  all: intros pf f; unfold gen_lint_file, lint_file, lint_says_parsed, lint_parsed.
  all: destruct (pf f) as [is|e l s]; [|reflexivity].
  all: destruct (lint_instructions is); reflexivity.
Qed.

(* ---- main.rs ------------------------------------------------------------------------------------------ *)
Theorem gen_run_script_eq : gen_run_script_understood = true ->
  forall run_file run_text value is_file,
    gen_run_script run_file run_text value is_file = run_script run_file run_text value is_file.
Proof.
  unfold gen_run_script_understood; intros U; try discriminate U; clear U.
  all: intros rf rt v f; unfold gen_run_script, run_script, of_bool.
  all: destruct f, (rf v), (rt v); reflexivity.
Qed.

Theorem gen_run_repl_eq : gen_run_repl_understood = true ->
  forall repl, gen_run_repl repl = run_repl repl.
Proof.
  unfold gen_run_repl_understood; intros U; try discriminate U; clear U.
  all: intros []; reflexivity.
Qed.

(* the argument vector by length: nothing, the program name alone, one argument, two or more *)
Ltac argv_cases argv :=
  destruct argv as [|prog [|a1 [|a2 rest]]].

Theorem gen_dispatch_eq : gen_run_cli_understood = true ->
  forall argv, gen_dispatch argv = Some (dispatch_argv argv).
Proof.
  unfold gen_run_cli_understood; intros U; try discriminate U; clear U.
  all: intros argv; unfold gen_dispatch, dispatch_argv, dispatch, s_version, s_help, s_h, s_e, s_eval, s_l, s_lint.
  all: argv_cases argv; cbn [tl length nth_error Nat.ltb Nat.leb Nat.eqb]; try reflexivity; cli_atoms.
Qed.

Theorem gen_run_cli_eq : gen_run_cli_understood = true ->
  forall run_file run_text repl parse_file argv,
    gen_run_cli run_file run_text repl parse_file argv = Some (run_cli_argv run_file run_text repl parse_file argv).
Proof.
  unfold gen_run_cli_understood; intros U; try discriminate U; clear U.
  all: intros rf rt rp pf argv; rewrite run_cli_argv_dispatch.
  all: unfold gen_run_cli, dispatch_argv, dispatch, s_version, s_help, s_h, s_e, s_eval, s_l, s_lint.
  all: argv_cases argv; cbn [tl length nth_error Nat.ltb Nat.leb Nat.eqb]; try reflexivity; cli_atoms.
Qed.

(* main: status 0 and no Error line for Ok, the source's non-zero literal and the Error line for every Err *)
Theorem gen_main_eq : gen_main_understood = true ->
  exists st, st <> 0 /\ forall r, gen_main r = main_outcome st r.
Proof.
  unfold gen_main_understood; intros U; try discriminate U; clear U.
  all: exists (fst (gen_main (RErr CLib))); split; [cbv; discriminate|].
  all: intros [|e]; reflexivity.
Qed.
