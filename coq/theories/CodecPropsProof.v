(* CodecPropsProof.v — C17: the properties round trip (proofs about CodecProps.v). *)
Require Import DS.Base DS.Utf8 DS.Strings DS.Codec DS.CodecProof DS.CodecProps.

Local Ltac inv H := inversion H; subst; clear H.

Lemma nlen_app {A} (a b : list A) : nlen (a ++ b) = nlen a + nlen b.
Proof. unfold nlen. rewrite app_length, Nat2N.inj_add. reflexivity. Qed.
Lemma nlen_cons {A} (x : A) (l : list A) : nlen (x :: l) = 1 + nlen l.
Proof. unfold nlen. cbn [length]. lia. Qed.
Lemma nlen_nil {A} : nlen (@nil A) = 0.
Proof. reflexivity. Qed.

(* ------------------------------------------------------------------------------------------- *)
(* A. windows-1252                                                                              *)

Lemma index_of_spec c l : forall i j, index_of c l i = Some j ->
  exists n, j = i + N.of_nat n /\ nth n l 0 = c /\ (n < length l)%nat.
Proof.
  induction l as [|x r IH]; intros i j H; cbn [index_of] in H; [discriminate|].
  destruct (N.eqb_spec x c) as [E|E].
  - inv H. exists 0%nat. cbn. split; [lia|]. split; [reflexivity|lia].
  - apply IH in H. destruct H as (n & -> & Hn & Hl). exists (S n). cbn [nth length].
    split; [lia|]. split; [exact Hn|lia].
Qed.

Lemma w1252_table_case c i : index_of c w1252_hi 0 = Some i ->
  w1252_decode_byte (128 + i) = c /\ 128 + i < 256.
Proof.
  intros E. apply index_of_spec in E. destruct E as (n & Hi & Hn & Hl). cbn [length w1252_hi] in Hl.
  assert (i = N.of_nat n) as -> by lia. clear Hi.
  unfold w1252_decode_byte.
  destruct (N.ltb_spec (128 + N.of_nat n) 128); [lia|].
  destruct (N.ltb_spec (128 + N.of_nat n) 160); [|lia].
  replace (128 + N.of_nat n - 128) with (N.of_nat n) by lia. rewrite Nat2N.id.
  split; [exact Hn|lia].
Qed.

Lemma w1252_roundtrip c b : w1252_encode_char c = Some b -> w1252_decode_byte b = c /\ b < 256.
Proof.
  unfold w1252_encode_char. intros H.
  destruct (N.ltb_spec c 128) as [L|L].
  - inv H. unfold w1252_decode_byte. destruct (N.ltb_spec b 128); [|lia]. split; [reflexivity|lia].
  - destruct ((160 <=? c) && (c <? 256)) eqn:E2.
    + apply andb_prop in E2. destruct E2 as [L2 L3]. apply N.leb_le in L2. apply N.ltb_lt in L3.
      inv H. unfold w1252_decode_byte.
      destruct (N.ltb_spec b 128); [lia|]. destruct (N.ltb_spec b 160); [lia|]. split; [reflexivity|lia].
    + destruct (index_of c w1252_hi 0) as [i|] eqn:E; [|discriminate]. inv H.
      apply w1252_table_case. exact E.
Qed.

Lemma w1252_ascii c : c < 128 -> w1252_encode_char c = Some c.
Proof. intros H. unfold w1252_encode_char. destruct (N.ltb_spec c 128); [reflexivity|lia]. Qed.

Lemma w1252_ascii_inv c b : w1252_encode_char c = Some b -> b < 128 -> b = c.
Proof.
  intros H Hb. destruct (w1252_roundtrip _ _ H) as [D _]. unfold w1252_decode_byte in D.
  destruct (N.ltb_spec b 128); [exact D|lia].
Qed.

Lemma w1252_unmappable_big c : w1252_encode_char c = None -> 128 <= c.
Proof. intros H. destruct (N.lt_ge_cases c 128) as [L|L]; [|exact L]. rewrite w1252_ascii in H by exact L. discriminate. Qed.

(* ------------------------------------------------------------------------------------------- *)
(* B. the EncodingWriter loop against its character-level view                                   *)

Definition all_mappable (s : str) : Prop := Forall (fun c => w1252_encode_char c <> None) s.

Lemma wire_bytes_app a b : wire_bytes (a ++ b) = wire_bytes a ++ wire_bytes b.
Proof. unfold wire_bytes. apply flat_map_app. Qed.
Lemma wire_chars_app a b : wire_chars (a ++ b) = wire_chars a ++ wire_chars b.
Proof. unfold wire_chars. apply flat_map_app. Qed.

Lemma wire_bytes_some c b r : w1252_encode_char c = Some b -> wire_bytes (c :: r) = b :: wire_bytes r.
Proof. intros H. unfold wire_bytes. cbn [flat_map]. unfold wire_bytes_char at 1. rewrite H. reflexivity. Qed.
Lemma wire_bytes_none c r : w1252_encode_char c = None -> wire_bytes (c :: r) = pp_uesc c ++ wire_bytes r.
Proof. intros H. unfold wire_bytes. cbn [flat_map]. unfold wire_bytes_char at 1. rewrite H. reflexivity. Qed.
Lemma wire_chars_some c b r : w1252_encode_char c = Some b -> wire_chars (c :: r) = c :: wire_chars r.
Proof. intros H. unfold wire_chars. cbn [flat_map]. unfold wire_chars_char at 1. rewrite H. reflexivity. Qed.
Lemma wire_chars_none c r : w1252_encode_char c = None -> wire_chars (c :: r) = pp_uesc c ++ wire_chars r.
Proof. intros H. unfold wire_chars. cbn [flat_map]. unfold wire_chars_char at 1. rewrite H. reflexivity. Qed.

Lemma wire_bytes_mappable_len pre : all_mappable pre -> nlen (wire_bytes pre) = nlen pre.
Proof.
  induction 1 as [|c r Hc _ IH]; [reflexivity|].
  destruct (w1252_encode_char c) as [b|] eqn:E; [|congruence].
  rewrite (wire_bytes_some _ _ _ E), !nlen_cons, IH. reflexivity.
Qed.

(* what one call of the encoder does *)
Lemma pp_encode_spec : forall data d res rest out, pp_encode data d = (res, rest, out) ->
  exists pre, all_mappable pre /\ out = wire_bytes pre /\ nlen pre <= d /\
    match res with
    | EInputEmpty => data = pre /\ rest = []
    | EOutputFull => data = pre ++ rest /\ rest <> [] /\ nlen pre = d
    | EUnmappable c => data = pre ++ c :: rest /\ w1252_encode_char c = None /\ nlen pre < d
    end.
Proof.
  induction data as [|c r IH]; intros d res rest out H; cbn [pp_encode] in H.
  - inv H. exists []. repeat split; try constructor. apply N.le_0_l.
  - destruct (N.eqb_spec d 0) as [E|E].
    + inv H. exists []. repeat split; try constructor; try reflexivity. discriminate.
    + destruct (w1252_encode_char c) as [b|] eqn:Ec.
      * destruct (pp_encode r (d - 1)) as [[res' rest'] out'] eqn:Er. inv H.
        apply IH in Er. destruct Er as (pre & Hm & -> & Hl & Hres).
        exists (c :: pre). split; [constructor; [congruence|exact Hm]|].
        split. { rewrite (wire_bytes_some _ _ _ Ec). reflexivity. }
        rewrite nlen_cons. split; [lia|].
        destruct res.
        -- destruct Hres as [-> ->]. split; reflexivity.
        -- destruct Hres as (-> & Hne & Hd). repeat split; [exact Hne|lia].
        -- destruct Hres as (-> & Hu & Hd). repeat split; [exact Hu|lia].
      * inv H. exists []. repeat split; try constructor; try reflexivity; try exact Ec; rewrite nlen_nil; lia.
Qed.

Lemma vec_reserve_full cap : 0 < cap -> vec_reserve cap cap (2 * cap) = 3 * cap.
Proof.
  intros H. unfold vec_reserve. rewrite N.sub_diag. destruct (N.leb_spec (2 * cap) 0); [lia|]. lia.
Qed.

Lemma ew_clean_mappable pre : all_mappable pre -> forall rest len cap, nlen pre <= cap - len ->
  ew_clean (pre ++ rest) len cap = ew_clean rest (len + nlen pre) cap.
Proof.
  induction 1 as [|c r Hc _ IH]; intros rest len cap Hl.
  - cbn [app]. rewrite nlen_nil, N.add_0_r. reflexivity.
  - rewrite nlen_cons in Hl. cbn [app ew_clean].
    destruct (N.eqb_spec (cap - len) 0) as [E|E]; [lia|].
    destruct (w1252_encode_char c); [|congruence].
    rewrite IH by lia. rewrite nlen_cons. f_equal. lia.
Qed.

Lemma ew_clean_at_full c r cap : 0 < cap ->
  ew_clean (c :: r) cap cap = ew_clean (c :: r) cap (3 * cap).
Proof.
  intros H. cbn [ew_clean]. rewrite N.sub_diag. cbn [N.eqb]. rewrite vec_reserve_full by exact H.
  destruct (N.eqb_spec (3 * cap - cap) 0) as [E|E]; [lia|]. reflexivity.
Qed.

Lemma uesc_ascii c : Forall (fun x => x < 128) (pp_uesc c).
Proof.
  unfold pp_uesc. constructor; [lia|]. constructor; [lia|].
  unfold hex_digits. apply Forall_rev. apply Forall_map.
  eapply Forall_impl; [|apply hex_le_lt16]. cbn. intros d Hd. unfold hex_digit.
  destruct (N.ltb_spec d 10); lia.
Qed.

Lemma ascii_mappable s : Forall (fun x => x < 128) s -> all_mappable s /\ wire_bytes s = s.
Proof.
  induction 1 as [|c r Hc _ [IH1 IH2]]; [split; [constructor|reflexivity]|].
  split.
  - constructor; [rewrite w1252_ascii by exact Hc; discriminate|exact IH1].
  - rewrite (wire_bytes_some _ _ _ (w1252_ascii _ Hc)), IH2. reflexivity.
Qed.

(* the encoder on an escape that fits *)
Lemma pp_encode_all pre : all_mappable pre -> forall d, nlen pre <= d ->
  pp_encode pre d = (EInputEmpty, [], wire_bytes pre).
Proof.
  induction 1 as [|c r Hc _ IH]; intros d Hd; [reflexivity|].
  rewrite nlen_cons in Hd. cbn [pp_encode]. destruct (N.eqb_spec d 0); [lia|].
  destruct (w1252_encode_char c) as [b|] eqn:E; [|congruence].
  rewrite (wire_bytes_some _ _ _ E). rewrite IH by lia. reflexivity.
Qed.

Definition ew_measure (data : str) (len cap : N) : nat :=
  (2 * length data + (if (cap - len =? 0)%N then 1 else 0))%nat.

Lemma pp_ew_loop_clean : forall fuel data len cap c',
  (ew_measure data len cap <= fuel)%nat -> 0 < cap -> len <= cap ->
  ew_clean data len cap = (true, c') ->
  pp_ew_loop fuel data len cap = POk (wire_bytes data, c').
Proof.
  induction fuel as [|f IH]; intros data len cap c' Hf Hcap Hlen Hc.
  - destruct data; [cbn in Hc; inv Hc; reflexivity|].
    unfold ew_measure in Hf. cbn [length] in Hf. lia.
  - destruct data as [|c0 r0]; [cbn in Hc; inv Hc; reflexivity|].
    cbn [pp_ew_loop]. remember (c0 :: r0) as data eqn:Hdata.
    destruct (pp_encode data (cap - len)) as [[res rest] out] eqn:Ee.
    apply pp_encode_spec in Ee. destruct Ee as (pre & Hm & -> & Hl & Hres).
    rewrite (wire_bytes_mappable_len _ Hm).
    destruct res.
    + (* InputEmpty *)
      destruct Hres as [-> ->].
      rewrite <- (app_nil_r pre) in Hc. rewrite ew_clean_mappable in Hc by assumption. cbn [ew_clean] in Hc. inv Hc.
      destruct f; cbn [pp_ew_loop]; rewrite !app_nil_r; reflexivity.
    + (* OutputFull *)
      destruct Hres as (Hd & Hne & Hfull). rewrite Hd in Hc.
      rewrite ew_clean_mappable in Hc by assumption.
      replace (len + nlen pre) with cap in * by lia.
      rewrite vec_reserve_full by exact Hcap.
      destruct rest as [|c1 r1]; [congruence|]. rewrite ew_clean_at_full in Hc by exact Hcap.
      rewrite (IH (c1 :: r1) cap (3 * cap) c'); try lia; try exact Hc.
      * rewrite Hd, wire_bytes_app. reflexivity.
      * unfold ew_measure in *. rewrite Hd, app_length in Hf.
        destruct (N.eqb_spec (3 * cap - cap) 0); [lia|].
        destruct (N.eqb_spec (cap - len) 0) as [E|E].
        -- lia.
        -- assert (length pre <> 0)%nat. { unfold nlen in Hfull. lia. } lia.
    + (* Unmappable *)
      destruct Hres as (Hd & Hu & Hlt). rewrite Hd in Hc.
      rewrite ew_clean_mappable in Hc by assumption.
      cbn [ew_clean] in Hc. rewrite Hu in Hc.
      destruct (N.eqb_spec (cap - (len + nlen pre)) 0) as [E|E]; [lia|].
      destruct (N.leb_spec (nlen (pp_uesc c)) (cap - (len + nlen pre))) as [Hfit|Hfit]; [|discriminate].
      destruct (ascii_mappable _ (uesc_ascii c)) as [Hem Heb].
      rewrite (pp_encode_all _ Hem) by exact Hfit. rewrite Heb.
      rewrite (IH rest _ cap c'); try lia; try exact Hc.
      * rewrite Hd, wire_bytes_app, (wire_bytes_none _ _ Hu). reflexivity.
      * unfold ew_measure in *. rewrite Hd, app_length in Hf. cbn [length] in Hf.
        match goal with |- context [if ?b then _ else _] => destruct b end;
        match type of Hf with context [if ?b then _ else _] => destruct b end; lia.
      * unfold str, char in *. lia.
Qed.

Lemma pp_ew_write_clean data cap c' : 0 < cap -> ew_clean data 0 cap = (true, c') ->
  pp_ew_write data cap = POk (wire_bytes data, c').
Proof.
  intros Hcap Hc. unfold pp_ew_write. apply pp_ew_loop_clean; try assumption; [|lia].
  unfold ew_measure. destruct (cap - 0 =? 0); lia.
Qed.

(* ------------------------------------------------------------------------------------------- *)
(* C. a string that is written cleanly into the fresh buffer is written cleanly into any larger
      buffer of the family 256 * 3^j (the only capacities the writer ever has)                    *)

Fixpoint pow3 (j : nat) : N := match j with O => 1 | S j' => 3 * pow3 j' end.
Lemma pow3_pos j : 0 < pow3 j.
Proof. induction j; cbn [pow3]; lia. Qed.
Lemma pow3_add a b : pow3 (a + b) = pow3 a * pow3 b.
Proof. induction a; cbn [pow3 Nat.add]; [lia|]. rewrite IHa. lia. Qed.

Definition step_cap (len cap : N) : N := if cap - len =? 0 then vec_reserve len cap (2 * cap) else cap.

Lemma ew_clean_cons c r len cap :
  ew_clean (c :: r) len cap =
  match w1252_encode_char c with
  | Some _ => ew_clean r (len + 1) (step_cap len cap)
  | None => if nlen (pp_uesc c) <=? step_cap len cap - len
            then ew_clean r (len + nlen (pp_uesc c)) (step_cap len cap) else (false, step_cap len cap)
  end.
Proof. reflexivity. Qed.

Lemma step_cap_facts len cap : 0 < cap -> len <= cap ->
  len < step_cap len cap /\ exists i, step_cap len cap = cap * pow3 i.
Proof.
  intros Hc Hl. unfold step_cap. destruct (N.eqb_spec (cap - len) 0) as [E|E].
  - assert (len = cap) as -> by lia. rewrite vec_reserve_full by exact Hc. split; [lia|].
    exists 1%nat. cbn [pow3]. lia.
  - split; [lia|]. exists 0%nat. cbn [pow3]. lia.
Qed.

Lemma step_cap_mono len cap j : 0 < cap -> len <= cap ->
  exists j1, step_cap len (cap * pow3 j) = step_cap len cap * pow3 j1.
Proof.
  intros Hc Hl. pose proof (pow3_pos j) as Hp. unfold step_cap.
  destruct (N.eqb_spec (cap - len) 0) as [E|E].
  - assert (len = cap) as -> by lia. rewrite vec_reserve_full by exact Hc.
    destruct j as [|j0].
    + cbn [pow3]. rewrite N.mul_1_r, N.sub_diag. cbn [N.eqb]. rewrite vec_reserve_full by exact Hc.
      exists 0%nat. cbn [pow3]. lia.
    + cbn [pow3]. pose proof (pow3_pos j0).
      destruct (N.eqb_spec (cap * (3 * pow3 j0) - cap) 0) as [E2|E2]; [nia|].
      exists j0. lia.
  - destruct (N.eqb_spec (cap * pow3 j - len) 0) as [E2|E2]; [nia|]. exists j. reflexivity.
Qed.

Lemma ew_clean_grows : forall data len cap c', 0 < cap -> len <= cap ->
  ew_clean data len cap = (true, c') -> exists i, c' = cap * pow3 i.
Proof.
  induction data as [|c r IH]; intros len cap c' Hc Hl H.
  - cbn in H. inv H. exists 0%nat. cbn [pow3]. lia.
  - rewrite ew_clean_cons in H. destruct (step_cap_facts len cap Hc Hl) as (Hlt & i & Hi).
    assert (0 < step_cap len cap) as Hpos by lia.
    destruct (w1252_encode_char c).
    + apply IH in H; [|exact Hpos|lia]. destruct H as (i2 & ->). exists (i + i2)%nat. rewrite Hi, pow3_add. lia.
    + destruct (N.leb_spec (nlen (pp_uesc c)) (step_cap len cap - len)) as [Hfit|Hfit]; [|discriminate].
      apply IH in H; [|exact Hpos|lia]. destruct H as (i2 & ->). exists (i + i2)%nat. rewrite Hi, pow3_add. lia.
Qed.

Lemma ew_clean_mono : forall data len cap j c', 0 < cap -> len <= cap ->
  ew_clean data len cap = (true, c') ->
  exists j', ew_clean data len (cap * pow3 j) = (true, c' * pow3 j').
Proof.
  induction data as [|c r IH]; intros len cap j c' Hc Hl H.
  - cbn in H. inv H. exists j. reflexivity.
  - rewrite ew_clean_cons in H. rewrite ew_clean_cons.
    destruct (step_cap_facts len cap Hc Hl) as (Hlt & _).
    destruct (step_cap_mono len cap j Hc Hl) as (j1 & ->).
    pose proof (pow3_pos j1) as Hp1.
    assert (0 < step_cap len cap) as Hpos by lia.
    destruct (w1252_encode_char c).
    + apply (IH _ _ j1) in H; [exact H|exact Hpos|lia].
    + destruct (N.leb_spec (nlen (pp_uesc c)) (step_cap len cap - len)) as [Hfit|Hfit]; [|discriminate].
      destruct (N.leb_spec (nlen (pp_uesc c)) (step_cap len cap * pow3 j1 - len)) as [Hfit2|Hfit2]; [|nia].
      apply (IH _ _ j1) in H; [exact H|exact Hpos|lia].
Qed.

(* ------------------------------------------------------------------------------------------- *)
(* D. the whole writer on clean pairs                                                            *)

Definition line_bytes (kv : str * str) : list N :=
  wire_bytes (pp_write_escaped (fst kv)) ++ 61 :: wire_bytes (pp_write_escaped (snd kv)) ++ [10].

Lemma pp_ew_write_single b cap : b < 128 -> 0 < cap -> pp_ew_write [b] cap = POk ([b], cap).
Proof.
  intros Hb Hc. rewrite (pp_ew_write_clean [b] cap cap Hc).
  - rewrite (wire_bytes_some _ _ _ (w1252_ascii _ Hb)). reflexivity.
  - rewrite ew_clean_cons, (w1252_ascii _ Hb). cbn [ew_clean]. unfold step_cap. rewrite N.sub_0_r.
    destruct (N.eqb_spec cap 0); [lia|reflexivity].
Qed.

Lemma pp_write_pair_clean k v j : pair_clean k v = true ->
  exists j', pp_write_pair k v (256 * pow3 j) = POk (line_bytes (k, v), 256 * pow3 j').
Proof.
  unfold pair_clean. intros H.
  destruct (ew_clean (pp_write_escaped k) 0 256) as [ok1 c1] eqn:E1.
  destruct (ew_clean (pp_write_escaped v) 0 c1) as [ok2 c2] eqn:E2.
  apply andb_prop in H. destruct H as [-> ->].
  destruct (ew_clean_grows _ 0 256 _ ltac:(lia) ltac:(lia) E1) as (i1 & Hc1).
  pose proof (pow3_pos i1) as Hp1.
  destruct (ew_clean_mono _ 0 256 j _ ltac:(lia) ltac:(lia) E1) as (j1 & M1).
  pose proof (pow3_pos j1) as Hpj1. pose proof (pow3_pos j) as Hpj.
  assert (0 < c1) as Hc1pos by nia.
  destruct (ew_clean_grows _ 0 c1 _ Hc1pos ltac:(lia) E2) as (i2 & Hc2).
  pose proof (pow3_pos i2) as Hp2.
  destruct (ew_clean_mono _ 0 c1 j1 _ Hc1pos ltac:(lia) E2) as (j2 & M2).
  pose proof (pow3_pos j2) as Hpj2.
  unfold pp_write_pair.
  rewrite (pp_ew_write_clean _ (256 * pow3 j) _ ltac:(nia) M1). cbn [pres_bind snd fst].
  rewrite pp_ew_write_single by nia. cbn [pres_bind snd fst].
  rewrite (pp_ew_write_clean _ (c1 * pow3 j1) _ ltac:(nia) M2). cbn [pres_bind snd fst].
  rewrite pp_ew_write_single by nia. cbn [pres_bind snd fst].
  exists (i1 + i2 + j2)%nat. unfold line_bytes. cbn [fst snd].
  replace (256 * pow3 (i1 + i2 + j2)) with (c2 * pow3 j2) by (rewrite Hc2, Hc1, !pow3_add; lia).
  reflexivity.
Qed.

Lemma pp_write_all_clean m : Forall (fun kv => pair_clean (fst kv) (snd kv) = true) m ->
  forall j, pp_write_all m (256 * pow3 j) = POk (concat (map line_bytes m)).
Proof.
  induction 1 as [|[k v] r Hkv _ IH]; intros j; [reflexivity|].
  cbn [pp_write_all map concat]. cbn [fst snd] in Hkv.
  destruct (pp_write_pair_clean k v j Hkv) as (j' & ->). cbn [pres_bind fst snd].
  rewrite IH. reflexivity.
Qed.

Lemma pp_write_clean m : Forall (fun kv => pair_clean (fst kv) (snd kv) = true) m ->
  pp_write m = POk (concat (map line_bytes m)).
Proof. intros H. unfold pp_write. change 256 with (256 * pow3 0). apply pp_write_all_clean. exact H. Qed.

(* ------------------------------------------------------------------------------------------- *)
(* E. UTF-8: decoding is injective (encode inverts it) and distributes over concatenation          *)

Lemma utf8_encode_cons c s : utf8_encode (c :: s) = utf8_encode_char c ++ utf8_encode s.
Proof. reflexivity. Qed.

Lemma utf8_decode_encode_n : forall n bs s, (length bs <= n)%nat -> utf8_decode bs = Some s -> utf8_encode s = bs.
Proof.
  induction n as [|n IH]; intros bs s Hn H.
  - destruct bs; [|cbn in Hn; lia]. cbn in H. inv H. reflexivity.
  - destruct bs as [|b0 r0]; [cbn in H; inv H; reflexivity|].
    cbn [length] in Hn. cbn [utf8_decode] in H.
    destruct (N.ltb_spec b0 128) as [L1|L1].
    { destruct (utf8_decode r0) as [s0|] eqn:Er; inv H.
      rewrite utf8_encode_cons, (IH r0 s0) by (try lia; exact Er).
      unfold utf8_encode_char. destruct (N.ltb_spec b0 128); [reflexivity|lia]. }
    destruct ((194 <=? b0) && (b0 <? 224)) eqn:E2.
    { apply andb_prop in E2. destruct E2 as [A1 A2]. apply N.leb_le in A1. apply N.ltb_lt in A2.
      destruct r0 as [|b1 r1]; [discriminate|]. cbn [length] in Hn.
      destruct (is_cont b1) eqn:C1; [|discriminate].
      destruct (utf8_decode r1) as [s1|] eqn:Er; inv H.
      rewrite utf8_encode_cons, (IH r1 s1) by (try lia; exact Er).
      unfold is_cont in C1. apply andb_prop in C1. destruct C1 as [B1 B2]. apply N.leb_le in B1. apply N.ltb_lt in B2.
      unfold utf8_encode_char.
      destruct (N.ltb_spec ((b0 - 192) * 64 + (b1 - 128)) 128); [exfalso; lia|].
      destruct (N.ltb_spec ((b0 - 192) * 64 + (b1 - 128)) 2048); [|exfalso; lia].
      cbn [app]. f_equal; [arith|]. f_equal. arith. }
    destruct ((224 <=? b0) && (b0 <? 240)) eqn:E3.
    { apply andb_prop in E3. destruct E3 as [A1 A2]. apply N.leb_le in A1. apply N.ltb_lt in A2.
      destruct r0 as [|b1 [|b2 r2]]; try discriminate. cbn [length] in Hn.
      remember ((b0 - 224) * 4096 + (b1 - 128) * 64 + (b2 - 128)) as c eqn:Hc.
      destruct (is_cont b1 && is_cont b2 && (2048 <=? c) && scalar c) eqn:C; [|discriminate].
      apply andb_prop in C. destruct C as [C Cs]. apply andb_prop in C. destruct C as [C C3].
      apply andb_prop in C. destruct C as [C1 C2]. apply N.leb_le in C3.
      destruct (utf8_decode r2) as [s2|] eqn:Er; inv H.
      rewrite utf8_encode_cons, (IH r2 s2) by (try lia; exact Er).
      unfold is_cont in C1, C2. apply andb_prop in C1, C2. destruct C1 as [B1 B2]. destruct C2 as [D1 D2].
      apply N.leb_le in B1, D1. apply N.ltb_lt in B2, D2.
      unfold utf8_encode_char.
      destruct (N.ltb_spec ((b0 - 224) * 4096 + (b1 - 128) * 64 + (b2 - 128)) 128); [exfalso; lia|].
      destruct (N.ltb_spec ((b0 - 224) * 4096 + (b1 - 128) * 64 + (b2 - 128)) 2048); [exfalso; lia|].
      destruct (N.ltb_spec ((b0 - 224) * 4096 + (b1 - 128) * 64 + (b2 - 128)) 65536); [|exfalso; lia].
      cbn [app]. f_equal; [arith|]. f_equal; [arith|]. f_equal. arith. }
    destruct ((240 <=? b0) && (b0 <? 245)) eqn:E4; [|discriminate].
    apply andb_prop in E4. destruct E4 as [A1 A2]. apply N.leb_le in A1. apply N.ltb_lt in A2.
    destruct r0 as [|b1 [|b2 [|b3 r3]]]; try discriminate. cbn [length] in Hn.
    remember ((b0 - 240) * 262144 + (b1 - 128) * 4096 + (b2 - 128) * 64 + (b3 - 128)) as c eqn:Hc.
    destruct (is_cont b1 && is_cont b2 && is_cont b3 && (65536 <=? c) && (c <? 1114112)) eqn:C; [|discriminate].
    apply andb_prop in C. destruct C as [C C5]. apply andb_prop in C. destruct C as [C C4].
    apply andb_prop in C. destruct C as [C C3]. apply andb_prop in C. destruct C as [C1 C2].
    apply N.leb_le in C4. apply N.ltb_lt in C5.
    destruct (utf8_decode r3) as [s3|] eqn:Er; inv H.
    rewrite utf8_encode_cons, (IH r3 s3) by (try lia; exact Er).
    unfold is_cont in C1, C2, C3. apply andb_prop in C1, C2, C3.
    destruct C1 as [B1 B2]. destruct C2 as [D1 D2]. destruct C3 as [F1 F2].
    apply N.leb_le in B1, D1, F1. apply N.ltb_lt in B2, D2, F2.
    unfold utf8_encode_char.
    destruct (N.ltb_spec ((b0 - 240) * 262144 + (b1 - 128) * 4096 + (b2 - 128) * 64 + (b3 - 128)) 128); [exfalso; lia|].
    destruct (N.ltb_spec ((b0 - 240) * 262144 + (b1 - 128) * 4096 + (b2 - 128) * 64 + (b3 - 128)) 2048); [exfalso; lia|].
    destruct (N.ltb_spec ((b0 - 240) * 262144 + (b1 - 128) * 4096 + (b2 - 128) * 64 + (b3 - 128)) 65536); [exfalso; lia|].
    cbn [app]. f_equal; [arith|]. f_equal; [arith|]. f_equal; [arith|]. f_equal. arith.
Qed.

Lemma utf8_decode_encode bs s : utf8_decode bs = Some s -> utf8_encode s = bs.
Proof. apply (utf8_decode_encode_n (length bs)). lia. Qed.

Lemma utf8_decode_app_n : forall n a b ta, (length a <= n)%nat -> utf8_decode a = Some ta ->
  utf8_decode (a ++ b) = match utf8_decode b with Some tb => Some (ta ++ tb) | None => None end.
Proof.
  induction n as [|n IH]; intros a b ta Hn H.
  - destruct a; [|cbn in Hn; lia]. cbn in H. inv H. cbn [app]. destruct (utf8_decode b); reflexivity.
  - destruct a as [|b0 r0]; [cbn in H; inv H; cbn [app]; destruct (utf8_decode b); reflexivity|].
    cbn [length] in Hn. cbn [utf8_decode] in H. cbn [app utf8_decode].
    destruct (b0 <? 128).
    { destruct (utf8_decode r0) as [s0|] eqn:Er; inv H.
      rewrite (IH r0 b s0) by (try lia; exact Er). destruct (utf8_decode b); reflexivity. }
    destruct ((194 <=? b0) && (b0 <? 224)).
    { destruct r0 as [|b1 r1]; [discriminate|]. cbn [length] in Hn. cbn [app].
      destruct (is_cont b1); [|discriminate].
      destruct (utf8_decode r1) as [s1|] eqn:Er; inv H.
      rewrite (IH r1 b s1) by (try lia; exact Er). destruct (utf8_decode b); reflexivity. }
    destruct ((224 <=? b0) && (b0 <? 240)).
    { destruct r0 as [|b1 [|b2 r2]]; try discriminate. cbn [length] in Hn. cbn [app].
      destruct (is_cont b1 && is_cont b2 && (2048 <=? (b0 - 224) * 4096 + (b1 - 128) * 64 + (b2 - 128))
                && scalar ((b0 - 224) * 4096 + (b1 - 128) * 64 + (b2 - 128))); [|discriminate].
      destruct (utf8_decode r2) as [s2|] eqn:Er; inv H.
      rewrite (IH r2 b s2) by (try lia; exact Er). destruct (utf8_decode b); reflexivity. }
    destruct ((240 <=? b0) && (b0 <? 245)); [|discriminate].
    destruct r0 as [|b1 [|b2 [|b3 r3]]]; try discriminate. cbn [length] in Hn. cbn [app].
    destruct (is_cont b1 && is_cont b2 && is_cont b3
              && (65536 <=? (b0 - 240) * 262144 + (b1 - 128) * 4096 + (b2 - 128) * 64 + (b3 - 128))
              && ((b0 - 240) * 262144 + (b1 - 128) * 4096 + (b2 - 128) * 64 + (b3 - 128) <? 1114112)); [|discriminate].
    destruct (utf8_decode r3) as [s3|] eqn:Er; inv H.
    rewrite (IH r3 b s3) by (try lia; exact Er). destruct (utf8_decode b); reflexivity.
Qed.

Lemma utf8_decode_app a b ta tb : utf8_decode a = Some ta -> utf8_decode b = Some tb ->
  utf8_decode (a ++ b) = Some (ta ++ tb).
Proof. intros Ha Hb. rewrite (utf8_decode_app_n (length a) a b ta) by (try lia; exact Ha). rewrite Hb. reflexivity. Qed.

(* ------------------------------------------------------------------------------------------- *)
(* F. trimming the final line ending, on characters, on UTF-8 bytes and on decoded bytes          *)

Lemma trim_end_nl_app a b :
  trim_end_nl (a ++ b) = match trim_end_nl b with [] => trim_end_nl a | _ :: _ => a ++ trim_end_nl b end.
Proof.
  induction a as [|c r IH]; cbn [app trim_end_nl].
  - destruct (trim_end_nl b); reflexivity.
  - rewrite IH. destruct (trim_end_nl b) as [|x xs] eqn:E; [reflexivity|].
    destruct (r ++ x :: xs) eqn:E2; [destruct r; discriminate|]. reflexivity.
Qed.

Definition no_nl (s : list N) : Prop := Forall (fun c => is_nl c = false) s.

Lemma trim_end_nl_id s : no_nl s -> trim_end_nl s = s.
Proof.
  induction 1 as [|c r Hc _ IH]; [reflexivity|]. cbn [trim_end_nl]. rewrite IH.
  destruct r; [rewrite Hc|]; reflexivity.
Qed.

Lemma no_nl_app a b : no_nl a -> no_nl b -> no_nl (a ++ b).
Proof. intros. apply Forall_app. split; assumption. Qed.

Lemma utf8_encode_char_trim c :
  trim_end_nl (utf8_encode_char c) = if is_nl c then [] else utf8_encode_char c.
Proof.
  unfold utf8_encode_char, is_nl.
  destruct (N.ltb_spec c 128) as [L1|L1].
  - cbn [trim_end_nl]. unfold is_nl. reflexivity.
  - assert ((c =? 10) || (c =? 13) = false) as ->.
    { destruct (N.eqb_spec c 10); [lia|]. destruct (N.eqb_spec c 13); [lia|]. reflexivity. }
    assert (forall x, 128 <= x -> is_nl x = false) as Hn.
    { intros x Hx. unfold is_nl. destruct (N.eqb_spec x 10); [lia|]. destruct (N.eqb_spec x 13); [lia|]. reflexivity. }
    destruct (c <? 2048); [|destruct (c <? 65536)]; apply trim_end_nl_id; unfold no_nl;
      repeat (apply Forall_cons; [cbv beta; apply Hn; arith|]); apply Forall_nil.
Qed.

Lemma utf8_encode_char_nonempty c : utf8_encode_char c <> [].
Proof. unfold utf8_encode_char. destruct (c <? 128); [|destruct (c <? 2048); [|destruct (c <? 65536)]]; discriminate. Qed.

Lemma utf8_encode_trim t : utf8_encode (trim_end_nl t) = trim_end_nl (utf8_encode t).
Proof.
  induction t as [|c r IH]; [reflexivity|].
  rewrite utf8_encode_cons, trim_end_nl_app, <- IH. cbn [trim_end_nl].
  destruct (trim_end_nl r) as [|x xs] eqn:E.
  - cbn [utf8_encode flat_map]. rewrite utf8_encode_char_trim. destruct (is_nl c); [reflexivity|].
    rewrite utf8_encode_cons. cbn. rewrite app_nil_r. reflexivity.
  - change (utf8_encode (c :: x :: xs)) with (utf8_encode_char c ++ utf8_encode (x :: xs)).
    destruct (utf8_encode (x :: xs)) eqn:E2; [|reflexivity].
    exfalso. change (utf8_encode (x :: xs)) with (utf8_encode_char x ++ utf8_encode xs) in E2.
    destruct (utf8_encode_char x) eqn:E3; [exact (utf8_encode_char_nonempty x E3)|discriminate].
Qed.

Lemma w1252_hi_not_nl : forallb (fun x => negb (is_nl x)) w1252_hi = true.
Proof. vm_compute. reflexivity. Qed.

Lemma w1252_decode_nl b : is_nl (w1252_decode_byte b) = is_nl b.
Proof.
  unfold w1252_decode_byte. destruct (N.ltb_spec b 128) as [L|L]; [reflexivity|].
  assert (is_nl b = false) as ->.
  { unfold is_nl. destruct (N.eqb_spec b 10); [lia|]. destruct (N.eqb_spec b 13); [lia|]. reflexivity. }
  destruct (N.ltb_spec b 160) as [L2|L2].
  - pose proof w1252_hi_not_nl as H. rewrite forallb_forall in H.
    assert (N.to_nat (b - 128) < length w1252_hi)%nat as Hi by (cbn [length w1252_hi]; lia).
    specialize (H _ (nth_In _ 0 Hi)). destruct (is_nl (nth (N.to_nat (b - 128)) w1252_hi 0)); [discriminate|reflexivity].
  - unfold is_nl. destruct (N.eqb_spec b 10); [lia|]. destruct (N.eqb_spec b 13); [lia|]. reflexivity.
Qed.

Lemma map_decode_trim bs :
  map w1252_decode_byte (trim_end_nl bs) = trim_end_nl (map w1252_decode_byte bs).
Proof.
  induction bs as [|b r IH]; [reflexivity|]. cbn [map trim_end_nl]. rewrite <- IH.
  destruct (trim_end_nl r) as [|x xs]; cbn [map]; [|reflexivity].
  rewrite w1252_decode_nl. destruct (is_nl b); reflexivity.
Qed.

Fixpoint join_nl (ls : list str) : str :=
  match ls with
  | [] => []
  | l :: r => match r with [] => l | _ :: _ => l ++ 10 :: join_nl r end
  end.

Lemma join_nl_cons2 l l2 r : join_nl (l :: l2 :: r) = l ++ 10 :: join_nl (l2 :: r).
Proof. reflexivity. Qed.

Lemma join_nl_nonempty l r : l <> [] -> join_nl (l :: r) <> [].
Proof. intros H. cbn [join_nl]. destruct r; [exact H|]. destruct l; [congruence|discriminate]. Qed.

Lemma trim_concat_lines ls : Forall (fun l => no_nl l /\ l <> []) ls ->
  trim_end_nl (concat (map (fun l => l ++ [10]) ls)) = join_nl ls.
Proof.
  induction 1 as [|l r [Hn Hne] Hr IH]; [reflexivity|].
  cbn [map concat]. rewrite trim_end_nl_app, IH.
  destruct r as [|l2 r2].
  - cbn [join_nl]. rewrite trim_end_nl_app. cbn [trim_end_nl is_nl N.eqb orb]. apply trim_end_nl_id. exact Hn.
  - inversion Hr as [|? ? [_ Hne2] _]; subst.
    destruct (join_nl (l2 :: r2)) eqn:E; [exfalso; exact (join_nl_nonempty l2 r2 Hne2 E)|].
    change (join_nl (l :: l2 :: r2)) with (l ++ 10 :: join_nl (l2 :: r2)).
    rewrite <- app_assoc. cbn [app]. f_equal. f_equal. symmetry. exact E.
Qed.

Lemma natural_lines_no_nl l : no_nl l -> pp_natural_lines l = [l].
Proof.
  induction 1 as [|c r Hc _ IH]; [reflexivity|]. cbn [pp_natural_lines]. unfold is_nl in Hc.
  destruct (c =? 10); [discriminate|]. destruct (c =? 13); [discriminate|]. rewrite IH. reflexivity.
Qed.

Lemma natural_lines_app l rest : no_nl l -> pp_natural_lines (l ++ 10 :: rest) = l :: pp_natural_lines rest.
Proof.
  induction 1 as [|c r Hc _ IH]; [reflexivity|]. cbn [app pp_natural_lines]. unfold is_nl in Hc.
  destruct (c =? 10); [discriminate|]. destruct (c =? 13); [discriminate|]. rewrite IH. reflexivity.
Qed.

Lemma natural_lines_join ls : ls <> [] -> Forall no_nl ls -> pp_natural_lines (join_nl ls) = ls.
Proof.
  intros Hne H. induction H as [|l r Hl Hr IH]; [congruence|].
  destruct r as [|l2 r2].
  - apply natural_lines_no_nl. exact Hl.
  - change (join_nl (l :: l2 :: r2)) with (l ++ 10 :: join_nl (l2 :: r2)).
    rewrite natural_lines_app by exact Hl. f_equal. apply IH. discriminate.
Qed.

(* ------------------------------------------------------------------------------------------- *)
(* G. what the reader makes of a written key or value                                            *)

Definition is_lhex (h : N) : Prop := (48 <= h /\ h <= 57) \/ (97 <= h /\ h <= 102).

Definition esc_pairs : list (char * char) :=
  [(32, 32); (116, 9); (114, 13); (110, 10); (102, 12); (58, 58); (61, 61); (33, 33); (35, 35)].

(* the four shapes a character of the domain takes on the wire *)
Inductive token : char -> str -> Prop :=
| TokBs : token 92 [92; 92]
| TokEsc (x c : char) : In (x, c) esc_pairs -> token c [92; x]
| TokPlain (c : char) : c <> 92 -> is_pws c = false -> c <> 58 -> c <> 61 -> c <> 35 -> c <> 33 -> token c [c]
| TokU (c h1 h2 h3 h4 : char) : is_lhex h1 -> is_lhex h2 -> is_lhex h3 -> is_lhex h4 ->
    hex_val_acc ([h1; h2; h3; h4] : str) 0 = Some c -> (55296 <=? c) && (c <=? 57343) = false ->
    token c [92; 117; h1; h2; h3; h4].

Inductive toks : str -> str -> Prop :=
| toks_nil : toks [] []
| toks_cons c t s w : token c t -> toks s w -> toks (c :: s) (t ++ w).

Lemma hex_digit_lhex d : d < 16 -> is_lhex (hex_digit d).
Proof. intros H. unfold hex_digit, is_lhex. destruct (N.ltb_spec d 10); lia. Qed.

Lemma hex_digits_4 c : 4096 <= c -> c < 65536 ->
  exists h1 h2 h3 h4, hex_digits c = [h1; h2; h3; h4] /\ is_lhex h1 /\ is_lhex h2 /\ is_lhex h3 /\ is_lhex h4.
Proof.
  intros Hlo Hhi. unfold hex_digits.
  assert (3 <= N.size c) as Hs.
  { destruct (N.le_gt_cases 3 (N.size c)) as [H|H]; [exact H|]. exfalso.
    pose proof (N.size_gt c) as Hg.
    assert (2 ^ N.size c <= 2 ^ 2) as Hp by (apply N.pow_le_mono_r; lia).
    change (2 ^ 2) with 4 in Hp. lia. }
  remember (N.to_nat (N.size c)) as k eqn:Hk.
  assert (3 <= k)%nat as Hk3 by lia.
  destruct k as [|[|[|k]]]; try lia.
  cbn [hex_le].
  destruct (N.ltb_spec c 16); [lia|].
  destruct (N.ltb_spec (c / 16) 16); [exfalso; arith|].
  destruct (N.ltb_spec (c / 16 / 16) 16); [exfalso; arith|].
  destruct (N.ltb_spec (c / 16 / 16 / 16) 16); [|exfalso; arith].
  cbn [map rev app].
  eexists _, _, _, _. split; [reflexivity|].
  repeat split; apply hex_digit_lhex; try assumption; apply N.mod_lt; lia.
Qed.

Lemma w1252_plain_some c : c < 128 -> wire_chars_char c = [c].
Proof. intros H. unfold wire_chars_char. rewrite w1252_ascii by exact H. reflexivity. Qed.

Lemma wire_chars_ascii2 a b : a < 128 -> b < 128 -> wire_chars [a; b] = [a; b].
Proof.
  intros Ha Hb. unfold wire_chars. cbn [flat_map]. rewrite !w1252_plain_some by assumption. reflexivity.
Qed.

Lemma token_of_char c : char_ok c = true -> token c (wire_chars (pp_escape_char c)).
Proof.
  unfold char_ok. intros H. apply andb_prop in H. destruct H as [H1 H2].
  unfold pp_escape_char.
  destruct (N.eqb_spec c 92) as [E|N92]; [subst c; rewrite wire_chars_ascii2 by lia; constructor|].
  destruct (N.eqb_spec c 32) as [E|N32]; [subst c; rewrite wire_chars_ascii2 by lia; apply TokEsc; cbn; tauto|].
  destruct (N.eqb_spec c 9) as [E|N9]; [subst c; rewrite wire_chars_ascii2 by lia; apply TokEsc; cbn; tauto|].
  destruct (N.eqb_spec c 13) as [E|N13]; [subst c; rewrite wire_chars_ascii2 by lia; apply TokEsc; cbn; tauto|].
  destruct (N.eqb_spec c 10) as [E|N10]; [subst c; rewrite wire_chars_ascii2 by lia; apply TokEsc; cbn; tauto|].
  destruct (N.eqb_spec c 12) as [E|N12]; [subst c; rewrite wire_chars_ascii2 by lia; apply TokEsc; cbn; tauto|].
  destruct (N.eqb_spec c 58) as [E|N58]; [subst c; rewrite wire_chars_ascii2 by lia; apply TokEsc; cbn; tauto|].
  destruct (N.eqb_spec c 61) as [E|N61]; [subst c; rewrite wire_chars_ascii2 by lia; apply TokEsc; cbn; tauto|].
  destruct (N.eqb_spec c 33) as [E|N33]; [subst c; rewrite wire_chars_ascii2 by lia; apply TokEsc; cbn; tauto|].
  destruct (N.eqb_spec c 35) as [E|N35]; [subst c; rewrite wire_chars_ascii2 by lia; apply TokEsc; cbn; tauto|].
  assert (32 <= c) as H32.
  { destruct (N.eqb_spec c 9); [lia|]. destruct (N.eqb_spec c 10); [lia|]. destruct (N.eqb_spec c 12); [lia|].
    destruct (N.eqb_spec c 13); [lia|]. cbn [orb] in H1. apply N.leb_le in H1. exact H1. }
  destruct (N.ltb_spec c 32); [lia|].
  unfold wire_chars. cbn [flat_map]. rewrite app_nil_r. unfold wire_chars_char, w1252_mappable in *.
  destruct (w1252_encode_char c) as [b|] eqn:E.
  - apply TokPlain; try assumption. unfold is_pws.
    destruct (N.eqb_spec c 32); [lia|]. destruct (N.eqb_spec c 9); [lia|]. destruct (N.eqb_spec c 13); [lia|].
    destruct (N.eqb_spec c 10); [lia|]. destruct (N.eqb_spec c 12); [lia|]. reflexivity.
  - cbn [orb] in H2. apply andb_prop in H2. destruct H2 as [H2 Hsc]. apply andb_prop in H2. destruct H2 as [Hlo Hhi].
    apply N.leb_le in Hlo. apply N.ltb_lt in Hhi.
    destruct (hex_digits_4 c Hlo Hhi) as (h1 & h2 & h3 & h4 & Hd & L1 & L2 & L3 & L4).
    unfold pp_uesc. rewrite Hd. apply TokU; try assumption.
    + pose proof (hex_digits_val c) as Hv. rewrite Hd in Hv. exact Hv.
    + unfold scalar in Hsc. destruct (N.leb_spec 55296 c); [|reflexivity]. destruct (N.leb_spec c 57343); [|reflexivity].
      destruct (N.ltb_spec c 55296); [lia|]. destruct (N.ltb_spec 57343 c); [lia|]. discriminate.
Qed.

Lemma pp_write_escaped_cons c s : pp_write_escaped (c :: s) = pp_escape_char c ++ pp_write_escaped s.
Proof. reflexivity. Qed.

Lemma toks_of s : forallb char_ok s = true -> toks s (wire_chars (pp_write_escaped s)).
Proof.
  induction s as [|c r IH]; intros H; [constructor|].
  cbn [forallb] in H. apply andb_prop in H. destruct H as [Hc Hr].
  rewrite pp_write_escaped_cons, wire_chars_app. constructor; [apply token_of_char; exact Hc|apply IH; exact Hr].
Qed.

Lemma lhex_facts h : is_lhex h ->
  (h =? 92) = false /\ is_pws h = false /\ (h =? 58) = false /\ (h =? 61) = false /\ (h =? 43) = false /\ is_nl h = false.
Proof.
  intros H. unfold is_lhex in H. unfold is_pws, is_nl.
  destruct (N.eqb_spec h 92); [lia|]. destruct (N.eqb_spec h 32); [lia|]. destruct (N.eqb_spec h 9); [lia|].
  destruct (N.eqb_spec h 13); [lia|]. destruct (N.eqb_spec h 10); [lia|]. destruct (N.eqb_spec h 12); [lia|].
  destruct (N.eqb_spec h 58); [lia|]. destruct (N.eqb_spec h 61); [lia|]. destruct (N.eqb_spec h 43); [lia|].
  repeat split; reflexivity.
Qed.

Ltac esc_cases Hin tac :=
  unfold esc_pairs in Hin; cbn [In] in Hin;
  repeat (destruct Hin as [Hin|Hin]; [inversion Hin; subst; tac|]); try contradiction.

(* G1: no line break inside *)
Lemma token_no_nl c t : token c t -> no_nl t.
Proof.
  intros H. destruct H as [|x c Hin|c H1 H2 H3 H4 H5 H6|c h1 h2 h3 h4 L1 L2 L3 L4 Hv Hs]; unfold no_nl.
  - repeat constructor.
  - esc_cases Hin ltac:(repeat constructor).
  - constructor; [|constructor]. unfold is_pws in H2. unfold is_nl.
    destruct (c =? 10); [rewrite !orb_true_r in H2; discriminate|]. destruct (c =? 13); [rewrite !orb_true_r in H2; discriminate|]. reflexivity.
  - repeat (apply Forall_cons; [first [reflexivity | apply lhex_facts; assumption]|]). apply Forall_nil.
Qed.

Lemma toks_no_nl s w : toks s w -> no_nl w.
Proof. induction 1; [constructor|]. apply no_nl_app; [eapply token_no_nl; eassumption|assumption]. Qed.

(* G2: the first character is neither white space nor a comment sign *)
Definition starts_ok (t : list N) : Prop :=
  match t with x :: _ => is_pws x = false /\ (x =? 35) = false /\ (x =? 33) = false | [] => True end.

Lemma token_starts c t : token c t -> starts_ok t /\ t <> [].
Proof.
  intros H. destruct H as [|x c Hin|c H1 H2 H3 H4 H5 H6|c h1 h2 h3 h4 L1 L2 L3 L4 Hv Hs];
    (split; [|discriminate]); cbn [starts_ok]; try (repeat split; reflexivity).
  split; [exact H2|]. split; apply N.eqb_neq; assumption.
Qed.

Lemma toks_starts s w : toks s w -> starts_ok w.
Proof.
  induction 1 as [|c t s w Ht _ _]; [exact I|]. destruct (token_starts _ _ Ht) as [Hs Hne].
  destruct t; [congruence|]. exact Hs.
Qed.

(* G3: an even number of trailing backslashes *)
Lemma token_ceb c t : token c t -> forall rest n, N.even n = true ->
  exists n', N.even n' = true /\ pp_ceb_go (t ++ rest) n = pp_ceb_go rest n'.
Proof.
  intros H rest n Hn. destruct H as [|x c Hin|c H1 H2 H3 H4 H5 H6|c h1 h2 h3 h4 L1 L2 L3 L4 Hv Hs].
  - exists (n + 1 + 1). split; [|reflexivity]. replace (n + 1 + 1) with (2 + n) by lia. rewrite N.even_add. rewrite Hn. reflexivity.
  - exists 0. split; [reflexivity|]. esc_cases Hin ltac:(reflexivity).
  - exists 0. split; [reflexivity|]. cbn [app pp_ceb_go]. apply N.eqb_neq in H1. rewrite H1. reflexivity.
  - exists 0. split; [reflexivity|]. cbn [app pp_ceb_go].
    destruct (lhex_facts _ L4) as (-> & _). reflexivity.
Qed.

Lemma toks_ceb s w : toks s w -> forall rest n, N.even n = true ->
  exists n', N.even n' = true /\ pp_ceb_go (w ++ rest) n = pp_ceb_go rest n'.
Proof.
  induction 1 as [|c t s w Ht _ IH]; intros rest n Hn; [exists n; split; [exact Hn|reflexivity]|].
  rewrite <- app_assoc. destruct (token_ceb _ _ Ht (w ++ rest) n Hn) as (n1 & Hn1 & ->). apply IH. exact Hn1.
Qed.

(* G4: the key scanner runs over it *)
Lemma token_scan c t : token c t -> forall rest,
  pp_scan_key (t ++ rest) = (t ++ fst (pp_scan_key rest), snd (pp_scan_key rest)).
Proof.
  intros H rest. destruct (pp_scan_key rest) as [k r] eqn:E. cbn [fst snd].
  destruct H as [|x c Hin|c H1 H2 H3 H4 H5 H6|c h1 h2 h3 h4 L1 L2 L3 L4 Hv Hs].
  - cbn [app pp_scan_key N.eqb Pos.eqb]. rewrite E. reflexivity.
  - cbn [app pp_scan_key N.eqb Pos.eqb]. rewrite E. reflexivity.
  - cbn [app pp_scan_key]. apply N.eqb_neq in H1, H3, H4. rewrite H1, H2, H3, H4. cbn [orb]. rewrite E. reflexivity.
  - cbn [app pp_scan_key N.eqb Pos.eqb].
    destruct (lhex_facts _ L1) as (-> & -> & -> & -> & _).
    destruct (lhex_facts _ L2) as (-> & -> & -> & -> & _).
    destruct (lhex_facts _ L3) as (-> & -> & -> & -> & _).
    destruct (lhex_facts _ L4) as (-> & -> & -> & -> & _).
    cbn [orb]. rewrite E. reflexivity.
Qed.

Lemma toks_scan s w : toks s w -> forall rest,
  pp_scan_key (w ++ rest) = (w ++ fst (pp_scan_key rest), snd (pp_scan_key rest)).
Proof.
  induction 1 as [|c t s w Ht _ IH]; intros rest; [cbn [app]; destruct (pp_scan_key rest); reflexivity|].
  rewrite <- app_assoc, (token_scan _ _ Ht), IH. cbn [fst snd]. rewrite app_assoc. reflexivity.
Qed.

(* G5: unescape gives the character back *)
Lemma token_unescape c t : token c t -> forall rest,
  pp_unescape (t ++ rest) = match pp_unescape rest with inl u => inl (c :: u) | inr e => inr e end.
Proof.
  intros H rest. destruct H as [|x c Hin|c H1 H2 H3 H4 H5 H6|c h1 h2 h3 h4 L1 L2 L3 L4 Hv Hs].
  - reflexivity.
  - esc_cases Hin ltac:(reflexivity).
  - cbn [app pp_unescape]. apply N.eqb_neq in H1. rewrite H1. reflexivity.
  - cbn [app pp_unescape N.eqb Pos.eqb]. unfold pp_hex4.
    destruct (lhex_facts _ L1) as (_ & _ & _ & _ & -> & _). rewrite Hv, Hs. reflexivity.
Qed.

Lemma toks_unescape s w : toks s w -> pp_unescape w = inl s.
Proof.
  induction 1 as [|c t s w Ht _ IH]; [reflexivity|].
  rewrite (token_unescape _ _ Ht), IH. reflexivity.
Qed.

(* ------------------------------------------------------------------------------------------- *)
(* H. the round trip                                                                            *)

Definition wire_line (kv : str * str) : str :=
  wire_chars (pp_write_escaped (fst kv)) ++ 61 :: wire_chars (pp_write_escaped (snd kv)).

Lemma map_decode_ascii s : Forall (fun x => x < 128) s -> map w1252_decode_byte s = s.
Proof.
  induction 1 as [|c r Hc _ IH]; [reflexivity|]. cbn [map]. rewrite IH. unfold w1252_decode_byte.
  destruct (N.ltb_spec c 128); [reflexivity|lia].
Qed.

Lemma decode_wire_bytes e : map w1252_decode_byte (wire_bytes e) = wire_chars e.
Proof.
  induction e as [|c r IH]; [reflexivity|].
  destruct (w1252_encode_char c) as [b|] eqn:E.
  - rewrite (wire_bytes_some _ _ _ E), (wire_chars_some _ _ _ E). cbn [map]. rewrite IH.
    destruct (w1252_roundtrip _ _ E) as [-> _]. reflexivity.
  - rewrite (wire_bytes_none _ _ E), (wire_chars_none _ _ E), map_app.
    f_equal; [apply map_decode_ascii; apply uesc_ascii|exact IH].
Qed.

Lemma decode_line kv : map w1252_decode_byte (line_bytes kv) = wire_line kv ++ [10].
Proof.
  unfold line_bytes, wire_line. rewrite map_app. cbn [map]. rewrite map_app, !decode_wire_bytes. cbn [map].
  rewrite <- app_assoc. reflexivity.
Qed.

Lemma starts_ok_drop s : starts_ok s -> drop_pws s = s /\ pp_is_comment s = false.
Proof.
  unfold pp_is_comment. destruct s as [|x r]; [split; reflexivity|]. cbn [starts_ok drop_pws].
  intros (H1 & H2 & H3). rewrite H1, H2, H3. split; reflexivity.
Qed.

Lemma line_ok k v : forallb char_ok k = true -> forallb char_ok v = true ->
  let line := wire_line (k, v) in
  no_nl line /\ line <> [] /\ pp_is_comment line = false /\ N.odd (pp_ceb line) = false /\
  pp_parse_line line = PKV (wire_chars (pp_write_escaped k)) (wire_chars (pp_write_escaped v)) /\
  pp_unescape (wire_chars (pp_write_escaped k)) = inl k /\
  pp_unescape (wire_chars (pp_write_escaped v)) = inl v.
Proof.
  intros Hk Hv. apply toks_of in Hk, Hv. unfold wire_line. cbn [fst snd].
  set (wk := wire_chars (pp_write_escaped k)) in *. set (wv := wire_chars (pp_write_escaped v)) in *.
  cbv zeta.
  assert (starts_ok (wk ++ 61 :: wv)) as Hst.
  { pose proof (toks_starts _ _ Hk) as H. destruct wk; [cbn; repeat split; reflexivity|exact H]. }
  destruct (starts_ok_drop _ Hst) as [Hdrop Hcom].
  destruct (starts_ok_drop _ (toks_starts _ _ Hv)) as [Hdropv _].
  split; [apply no_nl_app; [eapply toks_no_nl; exact Hk|constructor; [reflexivity|eapply toks_no_nl; exact Hv]]|].
  split; [destruct wk; discriminate|].
  split; [exact Hcom|].
  split.
  { unfold pp_ceb. destruct (toks_ceb _ _ Hk (61 :: wv) 0 eq_refl) as (n1 & _ & ->).
    cbn [pp_ceb_go N.eqb Pos.eqb]. rewrite <- (app_nil_r wv).
    destruct (toks_ceb _ _ Hv [] 0 eq_refl) as (n2 & Hn2 & ->). cbn [pp_ceb_go].
    rewrite <- N.negb_odd in Hn2. destruct (N.odd n2); [discriminate|reflexivity]. }
  split.
  { unfold pp_parse_line. rewrite Hdrop.
    destruct (wk ++ 61 :: wv) as [|x r] eqn:E; [destruct wk; discriminate|].
    cbn [starts_ok] in Hst. destruct Hst as (_ & -> & ->). cbn [orb]. rewrite <- E.
    unfold pp_parse_kv. rewrite (toks_scan _ _ Hk).
    change (pp_scan_key (61 :: wv)) with (@nil char, 61 :: wv). cbn [fst snd]. rewrite app_nil_r.
    cbn [drop_pws is_pws N.eqb Pos.eqb orb]. rewrite Hdropv. reflexivity. }
  split; [exact (toks_unescape _ _ Hk)|exact (toks_unescape _ _ Hv)].
Qed.

Definition ins_all (m acc : list (str * str)) : list (str * str) :=
  fold_left (fun a kv => map_insert (fst kv) (snd kv) a) m acc.

Lemma read_lines_ok m :
  Forall (fun kv => forallb char_ok (fst kv) = true /\ forallb char_ok (snd kv) = true) m ->
  forall n acc, pp_read_lines (pp_logical_go (map wire_line m) n true 0 []) acc = POk (ins_all m acc).
Proof.
  induction 1 as [|[k v] r [Hk Hv] _ IH]; intros n acc; [reflexivity|].
  cbn [fst snd] in Hk, Hv.
  destruct (line_ok k v Hk Hv) as (_ & _ & Hcom & Hodd & Hparse & Huk & Huv).
  cbn [map pp_logical_go]. rewrite Hcom, Hodd. cbn [andb app pp_read_lines].
  rewrite Hparse, Huk, Huv. rewrite IH. reflexivity.
Qed.

Lemma map_insert_fresh k v acc : ~ In k (map fst acc) -> map_insert k v acc = acc ++ [(k, v)].
Proof.
  induction acc as [|[k' v'] r IH]; intros H; [reflexivity|]. cbn [map_insert map fst In] in *.
  destruct (str_eqb_spec k' k) as [E|E]; [exfalso; apply H; left; exact E|].
  rewrite IH by tauto. reflexivity.
Qed.

Lemma ins_all_nodup m : forall acc, NoDup (map fst (acc ++ m)) -> ins_all m acc = acc ++ m.
Proof.
  induction m as [|[k v] r IH]; intros acc H; [cbn; rewrite app_nil_r; reflexivity|].
  unfold ins_all. cbn [fold_left fst snd]. fold (ins_all r (map_insert k v acc)).
  rewrite map_insert_fresh.
  - rewrite IH; rewrite <- app_assoc; [reflexivity|exact H].
  - rewrite map_app in H. cbn [map fst] in H. apply NoDup_remove_2 in H.
    intros Hin. apply H. apply in_or_app. left. exact Hin.
Qed.

Lemma pp_prefix_key_inj p a b : pp_prefix_key p a = pp_prefix_key p b -> a = b.
Proof.
  unfold pp_prefix_key. destruct p as [|x r]; [tauto|]. intros H. apply app_inv_head in H. inversion H. reflexivity.
Qed.

Lemma nodup_map_inj {A B} (f : A -> B) l : (forall a b, f a = f b -> a = b) -> NoDup l -> NoDup (map f l).
Proof.
  intros Hinj. induction 1 as [|x r Hx _ IH]; cbn [map]; constructor; [|exact IH].
  intros Hin. apply in_map_iff in Hin. destruct Hin as (y & Hy & Hin). apply Hinj in Hy. subst y. contradiction.
Qed.

Lemma prefix_map_nodup p m : NoDup (map fst m) -> NoDup (map fst (pp_prefix_map p m)).
Proof.
  unfold pp_prefix_map. rewrite map_map. cbn [fst].
  rewrite <- (map_map fst (pp_prefix_key p)). apply nodup_map_inj.
  intros a b. apply pp_prefix_key_inj.
Qed.

Lemma prefix_map_nil m : pp_prefix_map [] m = m.
Proof. induction m as [|[k v] r IH]; [reflexivity|]. unfold pp_prefix_map in *. cbn [map fst snd pp_prefix_key]. f_equal. exact IH. Qed.

Lemma representable_parts k v : representable (k, v) = true ->
  forallb char_ok k = true /\ forallb char_ok v = true /\
  utf8_ok (wire_bytes (pp_write_escaped k)) = true /\ utf8_ok (wire_bytes (pp_write_escaped v)) = true /\
  pair_clean k v = true /\ starts_with_bom (wire_bytes (pp_write_escaped k)) = false.
Proof.
  unfold representable. intros H.
  apply andb_prop in H. destruct H as [H H6]. apply andb_prop in H. destruct H as [H H5]. apply andb_prop in H. destruct H as [H H4].
  apply andb_prop in H. destruct H as [H H3]. apply andb_prop in H. destruct H as [H1 H2].
  destruct (starts_with_bom (wire_bytes (pp_write_escaped k))); [discriminate|]. tauto.
Qed.

(* the byte order mark *)
Lemma decode_text_plain t : (forall r, t <> c_bom :: r) -> pp_decode_text t = map w1252_decode_byte (utf8_encode t).
Proof.
  intros H. destruct t as [|c r]; [reflexivity|]. unfold pp_decode_text.
  destruct (N.eqb_spec c c_bom) as [E|E]; [exfalso; apply (H r); rewrite E; reflexivity|reflexivity].
Qed.

Lemma trim_head x c r : trim_end_nl x = c :: r -> exists r', x = c :: r'.
Proof.
  destruct x as [|y x']; cbn [trim_end_nl]; [discriminate|].
  destruct (trim_end_nl x'); [destruct (is_nl y); [discriminate|]|]; intros H; inversion H; subst; eexists; reflexivity.
Qed.

Lemma bom_head bs r : utf8_decode bs = Some (c_bom :: r) -> starts_with_bom bs = true.
Proof. intros H. apply utf8_decode_encode in H. rewrite <- H. reflexivity. Qed.

Lemma bom_app a b : starts_with_bom (a ++ 61 :: b) = true -> starts_with_bom a = true.
Proof.
  destruct a as [|x [|y [|z a']]]; cbn [app starts_with_bom]; try tauto.
  - destruct b as [|b0 [|b1 b']]; cbn; discriminate.
  - destruct b as [|b0 b']; [discriminate|]. cbn [N.eqb Pos.eqb]. rewrite andb_false_r. discriminate.
  - cbn [N.eqb Pos.eqb]. rewrite andb_false_r. discriminate.
Qed.

Lemma concat_no_bom m : Forall (fun kv => starts_with_bom (wire_bytes (pp_write_escaped (fst kv))) = false) m ->
  starts_with_bom (concat (map line_bytes m)) = false.
Proof.
  intros H. destruct H as [|[k v] r Hk _]; [reflexivity|]. cbn [map concat fst] in *.
  change (line_bytes (k, v)) with (wire_bytes (pp_write_escaped k) ++ 61 :: wire_bytes (pp_write_escaped v) ++ [10]).
  rewrite <- app_assoc. cbn [app].
  match goal with |- ?x = false => destruct x eqn:E; [|reflexivity] end.
  apply bom_app in E. congruence.
Qed.

Lemma line_bytes_decodes k v :
  utf8_ok (wire_bytes (pp_write_escaped k)) = true -> utf8_ok (wire_bytes (pp_write_escaped v)) = true ->
  exists t, utf8_decode (line_bytes (k, v)) = Some t.
Proof.
  unfold utf8_ok, line_bytes. cbn [fst snd]. intros Hk Hv.
  destruct (utf8_decode (wire_bytes (pp_write_escaped k))) as [tk|] eqn:Ek; [|discriminate].
  destruct (utf8_decode (wire_bytes (pp_write_escaped v))) as [tv|] eqn:Ev; [|discriminate].
  exists (tk ++ 61 :: tv ++ [10]).
  apply utf8_decode_app; [exact Ek|].
  change (61 :: wire_bytes (pp_write_escaped v) ++ [10]) with ([61] ++ wire_bytes (pp_write_escaped v) ++ [10]).
  change (61 :: tv ++ [10]) with ([61] ++ tv ++ [10]).
  apply utf8_decode_app; [reflexivity|]. apply utf8_decode_app; [exact Ev|reflexivity].
Qed.

Lemma concat_decodes m : Forall (fun kv => exists t, utf8_decode (line_bytes kv) = Some t) m ->
  exists t, utf8_decode (concat (map line_bytes m)) = Some t.
Proof.
  induction 1 as [|kv r [t Ht] _ [tr IH]]; [exists []; reflexivity|].
  exists (t ++ tr). cbn [map concat]. apply utf8_decode_app; assumption.
Qed.

Lemma concat_map_decode m :
  map w1252_decode_byte (concat (map line_bytes m)) = concat (map (fun l => l ++ [10]) (map wire_line m)).
Proof.
  induction m as [|kv r IH]; [reflexivity|]. cbn [map concat]. rewrite map_app, IH, decode_line. reflexivity.
Qed.

Lemma ins_all_prefix q data : forall acc,
  fold_left (fun a kv => map_insert (pp_prefix_key q (fst kv)) (snd kv) a) data acc = ins_all (pp_prefix_map q data) acc.
Proof. induction data as [|kv r IH]; intros acc; [reflexivity|]. cbn [fold_left]. rewrite IH. reflexivity. Qed.

(* the theorem: what map_to_properties --prefix p writes for a map in the domain, map_load_properties --prefix q
   reads back as the same pairs (under both prefixes), whatever the iteration order m of the map *)
Theorem properties_roundtrip p q m :
  Forall (fun kv => representable kv = true) (pp_prefix_map p m) -> NoDup (map fst m) ->
  pp_roundtrip p q m = POk (pp_prefix_map q (pp_prefix_map p m)).
Proof.
  intros Hrep Hnd. set (m' := pp_prefix_map p m) in *.
  assert (Forall (fun kv => forallb char_ok (fst kv) = true /\ forallb char_ok (snd kv) = true) m') as Hok.
  { eapply Forall_impl; [|exact Hrep]. intros [k v] H. apply representable_parts in H. cbn [fst snd]. tauto. }
  assert (Forall (fun kv => pair_clean (fst kv) (snd kv) = true) m') as Hclean.
  { eapply Forall_impl; [|exact Hrep]. intros [k v] H. apply representable_parts in H. cbn [fst snd]. tauto. }
  assert (Forall (fun kv => exists t, utf8_decode (line_bytes kv) = Some t) m') as Hutf.
  { eapply Forall_impl; [|exact Hrep]. intros [k v] H. apply representable_parts in H.
    apply line_bytes_decodes; tauto. }
  unfold pp_roundtrip, cmd_map_to_properties. fold m'.
  rewrite (pp_write_clean _ Hclean). cbn [pres_bind].
  destruct (concat_decodes _ Hutf) as [t Ht]. rewrite Ht.
  unfold cmd_map_load_properties. cbn [pres_bind].
  rewrite decode_text_plain.
  2:{ intros r Hr. apply trim_head in Hr. destruct Hr as [r' ->]. apply bom_head in Ht.
      rewrite concat_no_bom in Ht; [discriminate|].
      eapply Forall_impl; [|exact Hrep]. intros [k v] H. apply representable_parts in H. cbn [fst]. tauto. }
  rewrite utf8_encode_trim, (utf8_decode_encode _ _ Ht), map_decode_trim, concat_map_decode.
  rewrite trim_concat_lines.
  2:{ apply Forall_forall. intros l Hl. apply in_map_iff in Hl. destruct Hl as ([k v] & <- & Hin).
      rewrite Forall_forall in Hok. destruct (Hok _ Hin) as [Hk Hv]. cbn [fst snd] in Hk, Hv.
      destruct (line_ok k v Hk Hv) as (H1 & H2 & _). split; assumption. }
  assert (pp_read (join_nl (map wire_line m')) = POk m') as Hread.
  { unfold pp_read. destruct m' as [|kv0 r0] eqn:Em; [reflexivity|]. rewrite <- Em in *.
    rewrite natural_lines_join.
    - unfold pp_logical_lines. rewrite (read_lines_ok _ Hok). rewrite ins_all_nodup; [reflexivity|].
      cbn [app]. unfold m'. apply prefix_map_nodup. exact Hnd.
    - rewrite Em. discriminate.
    - apply Forall_forall. intros l Hl. apply in_map_iff in Hl. destruct Hl as ([k v] & <- & Hin).
      rewrite Forall_forall in Hok. destruct (Hok _ Hin) as [Hk Hv]. cbn [fst snd] in Hk, Hv.
      destruct (line_ok k v Hk Hv) as (H1 & _). exact H1. }
  rewrite Hread. cbn [pres_bind]. f_equal.
  rewrite ins_all_prefix.
  rewrite ins_all_nodup; [reflexivity|]. cbn [app]. apply prefix_map_nodup. unfold m'. apply prefix_map_nodup. exact Hnd.
Qed.

Corollary properties_roundtrip_plain m :
  Forall (fun kv => representable kv = true) m -> NoDup (map fst m) -> pp_roundtrip [] [] m = POk m.
Proof.
  intros H Hnd. rewrite <- (prefix_map_nil m) in H. rewrite (properties_roundtrip [] [] m H Hnd), !prefix_map_nil. reflexivity.
Qed.

Lemma str_nodup_spec l : str_nodup l = true <-> NoDup l.
Proof.
  induction l as [|x r IH]; cbn [str_nodup]; [split; [constructor|reflexivity]|].
  split.
  - intros H. apply andb_prop in H. destruct H as [H1 H2]. constructor; [|apply IH; exact H2].
    intros Hin. apply str_in_spec in Hin. rewrite Hin in H1. discriminate.
  - intros H. inversion H as [|? ? Hx Hr]; subst. apply andb_true_intro. split; [|apply IH; exact Hr].
    destruct (str_in x r) eqn:E; [apply str_in_spec in E; contradiction|reflexivity].
Qed.

(* ------------------------------------------------------------------------------------------- *)
(* I. sufficient conditions (non-vacuity of the domain) and the refuted classes                   *)

(* what fits into the spare capacity is never cut *)
Lemma ew_clean_short : forall data len cap, 0 < cap -> len + nlen (wire_bytes data) <= cap ->
  ew_clean data len cap = (true, cap).
Proof.
  induction data as [|c r IH]; intros len cap Hc H; [reflexivity|].
  rewrite ew_clean_cons. unfold step_cap.
  destruct (w1252_encode_char c) as [b|] eqn:E.
  - rewrite (wire_bytes_some _ _ _ E), nlen_cons in H.
    destruct (N.eqb_spec (cap - len) 0); [lia|]. apply IH; [exact Hc|lia].
  - rewrite (wire_bytes_none _ _ E), nlen_app in H.
    assert (2 <= nlen (pp_uesc c)) as H2 by (unfold pp_uesc; rewrite !nlen_cons; lia).
    unfold str, char in *.
    destruct (N.eqb_spec (cap - len) 0); [lia|].
    match goal with |- context [?a <=? ?b] => destruct (N.leb_spec a b); [|lia] end.
    apply IH; [exact Hc|lia].
Qed.

Lemma pair_clean_short k v :
  nlen (wire_bytes (pp_write_escaped k)) <= 256 -> nlen (wire_bytes (pp_write_escaped v)) <= 256 -> pair_clean k v = true.
Proof.
  intros Hk Hv. unfold pair_clean. rewrite (ew_clean_short _ 0 256) by lia. rewrite (ew_clean_short _ 0 256) by lia. reflexivity.
Qed.

(* a string without any escape written by the encoder is never cut, whatever its length *)
Lemma ew_clean_all_mappable : forall data len cap, all_mappable data -> exists c', ew_clean data len cap = (true, c').
Proof.
  induction data as [|c r IH]; intros len cap H; [exists cap; reflexivity|].
  inversion H as [|? ? Hc Hr]; subst. rewrite ew_clean_cons.
  destruct (w1252_encode_char c); [|congruence]. apply IH. exact Hr.
Qed.

Definition ascii_ok (c : char) : bool := ((c =? 9) || (c =? 10) || (c =? 12) || (c =? 13) || (32 <=? c)) && (c <? 128).

Lemma escape_char_ascii c : c < 128 -> Forall (fun x => x < 128) (pp_escape_char c).
Proof.
  intros H. unfold pp_escape_char.
  repeat match goal with |- context [if ?b then _ else _] => destruct b; [try (repeat constructor; lia)|] end.
  - apply uesc_ascii.
  - repeat constructor. exact H.
Qed.

Lemma write_escaped_ascii s : Forall (fun c => c < 128) s -> Forall (fun x => x < 128) (pp_write_escaped s).
Proof.
  induction 1 as [|c r Hc _ IH]; [constructor|]. rewrite pp_write_escaped_cons. apply Forall_app.
  split; [apply escape_char_ascii; exact Hc|exact IH].
Qed.

Lemma utf8_decode_ascii bs : Forall (fun x => x < 128) bs -> utf8_decode bs = Some bs.
Proof.
  induction 1 as [|b r Hb _ IH]; [reflexivity|]. cbn [utf8_decode]. rewrite IH.
  destruct (N.ltb_spec b 128); [reflexivity|lia].
Qed.

(* every text of ASCII characters other than the control characters besides TAB LF FF CR is in the domain *)
Lemma representable_ascii k v : forallb ascii_ok k = true -> forallb ascii_ok v = true -> representable (k, v) = true.
Proof.
  intros Hk Hv.
  assert (forall s, forallb ascii_ok s = true -> forallb char_ok s = true /\ Forall (fun c => c < 128) s) as Hs.
  { induction s as [|c r IH]; intros H; [split; [reflexivity|constructor]|].
    cbn [forallb] in H. apply andb_prop in H. destruct H as [Hc Hr]. destruct (IH Hr) as [I1 I2].
    unfold ascii_ok in Hc. apply andb_prop in Hc. destruct Hc as [C1 C2]. apply N.ltb_lt in C2.
    split; [|constructor; assumption]. cbn [forallb]. rewrite I1, andb_true_r. unfold char_ok, w1252_mappable.
    rewrite C1, (w1252_ascii _ C2). reflexivity. }
  destruct (Hs _ Hk) as [Ck Ak]. destruct (Hs _ Hv) as [Cv Av].
  apply write_escaped_ascii in Ak, Av.
  destruct (ascii_mappable _ Ak) as [Mk Bk]. destruct (ascii_mappable _ Av) as [Mv Bv].
  unfold representable. rewrite Ck, Cv. unfold utf8_ok. rewrite Bk, Bv, !utf8_decode_ascii by assumption.
  cbn [andb]. unfold pair_clean.
  destruct (ew_clean_all_mappable _ 0 256 Mk) as [c1 ->]. destruct (ew_clean_all_mappable _ 0 c1 Mv) as [c2 ->]. cbn [andb].
  destruct (pp_write_escaped k) as [|x [|y [|z e]]]; try reflexivity. cbn [starts_with_bom].
  inversion Ak as [|? ? Hx _]; subst. destruct (N.eqb_spec x 239); [lia|]. reflexivity.
Qed.

(* ------------------------------------------------------------------------------------------- *)
(* J. the lines handed to parse_line hold neither CR nor LF, for every input text (the assumption under which
      LINE_RE's '.' and '$' are modelled by pp_parse_line)                                          *)

Lemma natural_lines_all_no_nl_n : forall n s, (length s <= n)%nat -> Forall no_nl (pp_natural_lines s).
Proof.
  induction n as [|n IH]; intros s Hn.
  - destruct s; [|cbn in Hn; lia]. repeat constructor.
  - destruct s as [|c r]; [repeat constructor|]. cbn [length] in Hn. cbn [pp_natural_lines].
    destruct (N.eqb_spec c 10) as [E10|E10]; [constructor; [constructor|apply IH; lia]|].
    destruct (N.eqb_spec c 13) as [E13|E13].
    + constructor; [constructor|]. destruct r as [|c2 r2]; [apply IH; cbn; lia|].
      cbn [length] in Hn. destruct (c2 =? 10); apply IH; cbn [length]; lia.
    + pose proof (IH r ltac:(lia)) as Hr. destruct (pp_natural_lines r) as [|l ls]; [repeat constructor|].
      * unfold is_nl. apply N.eqb_neq in E10, E13. rewrite E10, E13. reflexivity.
      * inversion Hr as [|? ? Hl Hls]; subst. constructor; [|exact Hls]. constructor; [|exact Hl].
        unfold is_nl. apply N.eqb_neq in E10, E13. rewrite E10, E13. reflexivity.
Qed.

Lemma natural_lines_all_no_nl s : Forall no_nl (pp_natural_lines s).
Proof. apply (natural_lines_all_no_nl_n (length s)). lia. Qed.

Lemma drop_ws_no_nl s : no_nl s -> no_nl (drop_ws s).
Proof. induction 1 as [|c r Hc Hr IH]; [constructor|]. cbn [drop_ws]. destruct (is_ws c); [exact IH|constructor; assumption]. Qed.

Lemma removelast_no_nl s : no_nl s -> no_nl (removelast s).
Proof.
  induction 1 as [|c r Hc Hr IH]; [constructor|]. cbn [removelast]. destruct r; [constructor|].
  constructor; [exact Hc|exact IH].
Qed.

Lemma logical_go_no_nl : forall lines n first ln buf, Forall no_nl lines -> no_nl buf ->
  Forall (fun l => no_nl (snd l)) (pp_logical_go lines n first ln buf).
Proof.
  induction lines as [|line rest IH]; intros n first ln buf Hl Hb; [constructor|].
  inversion Hl as [|? ? H1 H2]; subst. cbn [pp_logical_go].
  assert (no_nl (buf ++ (if first then line else trim_start line))) as Hb1.
  { apply no_nl_app; [exact Hb|]. destruct first; [exact H1|apply drop_ws_no_nl; exact H1]. }
  destruct (first && pp_is_comment line).
  - constructor; [exact Hb1|]. apply IH; [exact H2|constructor].
  - destruct (N.odd (pp_ceb line)).
    + apply IH; [exact H2|apply removelast_no_nl; exact Hb1].
    + constructor; [exact Hb1|]. apply IH; [exact H2|constructor].
Qed.

Lemma logical_lines_no_nl s : Forall (fun l => no_nl (snd l)) (pp_logical_lines (pp_natural_lines s)).
Proof. unfold pp_logical_lines. apply logical_go_no_nl; [apply natural_lines_all_no_nl|constructor]. Qed.
