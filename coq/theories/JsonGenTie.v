(* JsonGenTie.v — the JSON <-> nested-handle glue of `json_parse --collection` / `json_encode --collection`
   (duckscript_sdk/src/sdk/std/json/parse/mod.rs, json/encode/mod.rs): the hand model Json.v (C17) and the `run` models of
   JsonRun.v are EQUAL, for all inputs, to the mechanical translation of the CURRENT Rust source
   (coq/generated/GenJsonFn.v, rewritten on every run by lib/rs2v.py, class FnJson, through lib/gen/json_gen.py).

     gen_create_structure_step_eq     gen_create_structure_step rec data st = cs_step rec data st     for every `rec`
     gen_create_structure_eq          gen_create_structure data st = Json.create_structure data st     (closed recursion)
     gen_efsv_step_eq                 the step of the encoder over any `ev` that is pointwise an embedded model evaluator
     gen_efsv_eq                      gen_encode_from_state_value fuel state v
                                        = eres_of_option (Json.encode_from_state_value fuel state v)
                                      in particular the translation never answers EErr: over the StateValue kinds that
                                      create_structure builds no path of the source constructs an Err
     gen_encode_from_state_eq         gen_encode_from_state render fuel state value
                                        = eres_map render (eres_of_option (Json.encode_from_state fuel state value))
     gen_run_parse_eq / gen_run_encode_eq   the two `run` functions = JsonRun.run_parse / run_encode: in particular no JPanic
                                      (every `context.arguments[i]` of the source is an explicit JPanic arm, shown dead)
     gen_efsv_cycle                   F23 about the translation: on a store whose list contains its own handle the encoder is
                                      out of fuel for EVERY fuel (the source has no visited set / depth bound)
     gen_roundtrip                    C17's round trip, stated about the translations themselves

   Every theorem is stated under the flags of the functions it mentions: when the translator does not understand a function
   any more the generated file holds [false] and a stub for it and the theorem holds vacuously (the check reports that tie as
   inactive).  Every proof must also compile against the stub: the first sentence then closes the goal by [discriminate], so
   every later sentence is prefixed with [all:] and no bullets / braces are used.  No proof mentions a generated variable
   name; the loop bodies are taken from the goal by unification with the loop lemmas below. *)
Require Import DS.Base DS.Strings DS.Json DS.JsonProof DS.Rs2vJsonLib DS.JsonRun.
Require Import DSG.GenJsonFn.

(* ---- model side: one-step forms, extensionality ---------------------------------------------------------------------- *)
Lemma create_structure_unfold data st : create_structure data st = cs_step create_structure data st.
Proof. destruct data; reflexivity. Qed.

Lemma cs_items_ext (f g : json -> store -> option str * store) l :
  Forall (fun x => forall st, f x st = g x st) l -> forall st acc, cs_items f l st acc = cs_items g l st acc.
Proof.
  induction 1 as [|x r Hx _ IH]; intros st acc; [reflexivity|].
  rewrite !cs_items_cons, Hx. destruct (g x st) as [o st1]. apply IH.
Qed.

Lemma cs_fields_ext (f g : json -> store -> option str * store) m :
  Forall (fun kv => forall st, f (snd kv) st = g (snd kv) st) m -> forall st acc, cs_fields f m st acc = cs_fields g m st acc.
Proof.
  induction 1 as [|[k x] r Hx _ IH]; intros st acc; [reflexivity|].
  rewrite !cs_fields_cons. cbn [snd] in Hx. rewrite Hx. destruct (g x st) as [o st1]. apply IH.
Qed.

(* ---- the loops of create_structure ------------------------------------------------------------------------------------ *)
Lemma cs_items_loop (rec : json -> store -> option str * store) (f : json -> store * list sv -> store * list sv) :
  (forall x s a, f x (s, a) = let '(o, s') := rec x s in (s', match o with Some v => a ++ [SStr v] | None => a end)) ->
  forall l s a, for_each_acc (s, a) l f = let '(a', s') := cs_items rec l s a in (s', a').
Proof.
  intros Hf. induction l as [|x r IH]; intros s a; [reflexivity|].
  rewrite for_each_acc_cons, cs_items_cons, Hf. destruct (rec x s) as [o s1]. apply IH.
Qed.

Lemma cs_fields_loop (rec : json -> store -> option str * store) (f : str * json -> store * list (str * sv) -> store * list (str * sv)) :
  (forall k x s a, f (k, x) (s, a) = let '(o, s') := rec x s in (s', match o with Some v => alist_insert k (SStr v) a | None => a end)) ->
  forall m s a, for_each_acc (s, a) m f = let '(a', s') := cs_fields rec m s a in (s', a').
Proof.
  intros Hf. induction m as [|[k x] r IH]; intros s a; [reflexivity|].
  rewrite for_each_acc_cons, cs_fields_cons, Hf. destruct (rec x s) as [o s1]. apply IH.
Qed.

Ltac cs_body := intros; match goal with |- context [?rec ?x ?s] => destruct (rec x s) as [[?|] ?] end; reflexivity.

Lemma gen_create_structure_step_eq : gen_create_structure_step_understood = true ->
  forall rec data st, gen_create_structure_step rec data st = cs_step rec data st.
Proof.
  unfold gen_create_structure_step_understood; intros U; try discriminate U.
  all: clear U.
  all: intros rec data st; unfold gen_create_structure_step, cs_step.
  all: destruct data as [|b|t|s|l|m]; try reflexivity.
  all: first [ erewrite (cs_items_loop rec) by (intros x s0 a; destruct (rec x s0) as [[v|] s1]; reflexivity)
             | erewrite (cs_fields_loop rec) by (intros k x s0 a; destruct (rec x s0) as [[v|] s1]; reflexivity) ].
  all: first [ destruct (cs_items rec l st []) as [a' s'] | destruct (cs_fields rec m st []) as [a' s'] ].
  all: reflexivity.
Qed.

Lemma gen_create_structure_unfold : gen_create_structure_understood = true ->
  forall data st, gen_create_structure data st = gen_create_structure_step gen_create_structure data st.
Proof.
  unfold gen_create_structure_understood; intros U; try discriminate U.
  all: clear U.
  all: intros data st; destruct data; reflexivity.
Qed.

Lemma cs_step_ext (f g : json -> store -> option str * store) data st :
  match data with
  | JArr l => Forall (fun x => forall st, f x st = g x st) l
  | JObj m => Forall (fun kv => forall st, f (snd kv) st = g (snd kv) st) m
  | _ => True
  end -> cs_step f data st = cs_step g data st.
Proof.
  destruct data as [|b|t|s|l|m]; intros H; try reflexivity; unfold cs_step.
  - rewrite (cs_items_ext f g l H). reflexivity.
  - rewrite (cs_fields_ext f g m H). reflexivity.
Qed.

Theorem gen_create_structure_eq : gen_create_structure_step_understood = true -> gen_create_structure_understood = true ->
  forall data st, gen_create_structure data st = create_structure data st.
Proof.
  intros U1 U2 data. induction data as [|b|t|s|l IH|m IH] using json_ind'; intros st.
  all: rewrite (gen_create_structure_unfold U2), (gen_create_structure_step_eq U1), create_structure_unfold.
  all: apply cs_step_ext; first [exact I | exact IH].
Qed.

(* ---- the loops of encode_from_state_value ----------------------------------------------------------------------------- *)
Lemma enc_list_loop (ev : sv -> option json) (f : sv -> list json -> list json + eres json) :
  (forall x a, f x a = match ev x with Some y => inl (a ++ [y]) | None => inr EFuel end) ->
  forall l a, for_each_brk a l f = match enc_list ev l with Some ys => inl (a ++ ys) | None => inr EFuel end.
Proof.
  intros Hf. induction l as [|x r IH]; intros a.
  - cbn. rewrite app_nil_r. reflexivity.
  - rewrite for_each_brk_cons, Hf. cbn [enc_list]. destruct (ev x) as [y|]; [|reflexivity].
    rewrite IH. change ((fix go (l : list sv) : option (list json) := match l with
      | [] => Some [] | x :: r => match ev x with Some y => match go r with Some ys => Some (y :: ys) | None => None end | None => None end
      end) r) with (enc_list ev r).
    destruct (enc_list ev r) as [ys|]; [|reflexivity]. rewrite <- app_assoc. reflexivity.
Qed.

Lemma enc_fields_loop (ev : sv -> option json) (f : str * sv -> list (str * json) -> list (str * json) + eres json) :
  (forall k x a, f (k, x) a = match ev x with Some y => inl (alist_insert k y a) | None => inr EFuel end) ->
  forall m a, for_each_brk a m f = match enc_fields ev m a with Some r => inl r | None => inr EFuel end.
Proof.
  intros Hf. induction m as [|[k x] r IH]; intros a; [reflexivity|].
  rewrite for_each_brk_cons, Hf. cbn [enc_fields]. destruct (ev x) as [y|]; [|reflexivity].
  apply IH.
Qed.

Lemma gen_efsv_step_eq : gen_encode_from_state_value_step_understood = true ->
  forall (ev : sv -> eres json) (ev' : sv -> option json), (forall x, ev x = eres_of_option (ev' x)) ->
  forall state v, gen_encode_from_state_value_step ev state v = eres_of_option (enc_step ev' state v).
Proof.
  unfold gen_encode_from_state_value_step_understood; intros U; try discriminate U.
  all: clear U.
  all: intros ev ev' Hev state v; unfold gen_encode_from_state_value_step, enc_step.
  all: destruct v as [s|l|m].
  all: try (destruct (alist_get s state) as [sub|]; [rewrite Hev; destruct (ev' sub); reflexivity|reflexivity]).
  all: first [ erewrite (enc_list_loop ev') by (intros x a; rewrite Hev; destruct (ev' x); reflexivity)
             | erewrite (enc_fields_loop ev') by (intros k x a; rewrite Hev; destruct (ev' x); reflexivity) ].
  all: first [ destruct (enc_list ev' l) | destruct (enc_fields ev' m []) ]; reflexivity.
Qed.

Theorem gen_efsv_eq : gen_encode_from_state_value_step_understood = true -> gen_encode_from_state_value_understood = true ->
  forall fuel state v, gen_encode_from_state_value fuel state v = eres_of_option (encode_from_state_value fuel state v).
Proof.
  intros U1. unfold gen_encode_from_state_value_understood; intros U; try discriminate U.
  all: clear U.
  all: intros fuel state; induction fuel as [|fuel IH]; intros v; [reflexivity|].
  all: rewrite enc_S.
  all: change (gen_encode_from_state_value (S fuel) state v)
         with (gen_encode_from_state_value_step (gen_encode_from_state_value fuel state) state v).
  all: apply (gen_efsv_step_eq U1); exact IH.
Qed.

Corollary gen_efsv_no_err : gen_encode_from_state_value_step_understood = true -> gen_encode_from_state_value_understood = true ->
  forall fuel state v, gen_encode_from_state_value fuel state v <> EErr.
Proof.
  intros U1 U2 fuel state v. rewrite (gen_efsv_eq U1 U2). destruct (encode_from_state_value fuel state v); discriminate.
Qed.

Theorem gen_encode_from_state_eq : gen_encode_from_state_value_step_understood = true ->
  gen_encode_from_state_value_understood = true -> gen_encode_from_state_understood = true ->
  forall render fuel state value,
    gen_encode_from_state render fuel state value = eres_map render (eres_of_option (encode_from_state fuel state value)).
Proof.
  intros U1 U2. unfold gen_encode_from_state_understood; intros U; try discriminate U.
  all: clear U.
  all: intros render fuel state value; unfold gen_encode_from_state, encode_from_state.
  all: destruct (alist_get value state) as [v|]; [|reflexivity].
  all: rewrite (gen_efsv_eq U1 U2); destruct (encode_from_state_value fuel state v); reflexivity.
Qed.

(* ---- F23: a store with a cycle ------------------------------------------------------------------------------------------ *)
(* `a = array x ; array_push ${a} ${a}` (here without the leaf x): the list stored under handle h holds the string h.  The source
   follows the handle name in the String arm by a call on `state.get(value)` - a value that is not a part of its argument; the
   translation can express that recursion only on fuel, and on this store NO fuel is enough: the real call stack overflows. *)
Definition cyclic_store (h : str) : list (str * sv) := [(h, SList [SStr h])].

Lemma model_cycle_none h : forall fuel,
  encode_from_state_value fuel (cyclic_store h) (SStr h) = None /\
  encode_from_state_value fuel (cyclic_store h) (SList [SStr h]) = None.
Proof.
  induction fuel as [|fuel [IH1 IH2]]; [split; reflexivity|].
  split; rewrite enc_S; unfold enc_step.
  - unfold cyclic_store. cbn [alist_get]. rewrite str_eqb_refl. exact IH2.
  - cbn [enc_list]. rewrite IH1. reflexivity.
Qed.

Theorem gen_efsv_cycle : gen_encode_from_state_value_step_understood = true -> gen_encode_from_state_value_understood = true ->
  forall render h fuel,
    gen_encode_from_state_value fuel (cyclic_store h) (SList [SStr h]) = EFuel /\
    (gen_encode_from_state_understood = true -> gen_encode_from_state render fuel (cyclic_store h) h = EFuel).
Proof.
  intros U1 U2 render h fuel. split.
  - rewrite (gen_efsv_eq U1 U2). destruct (model_cycle_none h fuel) as [_ E]. rewrite E. reflexivity.
  - intros U3. rewrite (gen_encode_from_state_eq U1 U2 U3). unfold encode_from_state, cyclic_store. cbn [alist_get].
    rewrite str_eqb_refl. destruct (model_cycle_none h fuel) as [_ E]. unfold cyclic_store in E. rewrite E. reflexivity.
Qed.

(* ---- the two `run` functions ----------------------------------------------------------------------------------------- *)
Theorem gen_run_parse_eq : gen_create_structure_step_understood = true -> gen_create_structure_understood = true ->
  gen_run_parse_understood = true ->
  forall parse args out st, gen_run_parse parse args out st = run_parse parse args out st.
Proof.
  intros U1 U2. unfold gen_run_parse_understood; intros U; try discriminate U.
  all: clear U.
  all: intros parse args out st; unfold gen_run_parse, run_parse, collection_flag.
  all: destruct args as [|a0 [|a1 rest]]; cbn [length nth_error nth Nat.eqb Nat.ltb Nat.leb]; try reflexivity.
  all: try (destruct (parse a0) as [data|]; [destruct out|]; reflexivity).
  all: change (str_eqb a0 s_collection_flag) with (str_eqb a0 [45;45;99;111;108;108;101;99;116;105;111;110]).
  all: destruct (str_eqb a0 [45;45;99;111;108;108;101;99;116;105;111;110]).
  all: try (destruct (parse a0) as [data|]; [destruct out|]; reflexivity).
  all: destruct (parse a1) as [data|]; [destruct out|]; try reflexivity.
  all: rewrite (gen_create_structure_eq U1 U2); reflexivity.
Qed.

Theorem gen_run_encode_eq : gen_encode_from_state_value_step_understood = true ->
  gen_encode_from_state_value_understood = true -> gen_encode_from_state_understood = true ->
  gen_run_encode_understood = true ->
  forall render fuel args st, gen_run_encode render fuel args st = run_encode render fuel args st.
Proof.
  intros U1 U2 U3. unfold gen_run_encode_understood; intros U; try discriminate U.
  all: clear U.
  all: intros render fuel args st; unfold gen_run_encode, run_encode, collection_flag.
  all: destruct args as [|a0 [|a1 rest]]; cbn [length nth_error nth Nat.eqb Nat.ltb Nat.leb]; try reflexivity.
  all: change (str_eqb a0 s_collection_flag) with (str_eqb a0 [45;45;99;111;108;108;101;99;116;105;111;110]).
  all: destruct (str_eqb a0 [45;45;99;111;108;108;101;99;116;105;111;110]); try reflexivity.
  all: rewrite (gen_encode_from_state_eq U1 U2 U3); destruct (encode_from_state fuel (cells st) a1); reflexivity.
Qed.

Theorem gen_run_parse_full : gen_create_structure_step_understood = true -> gen_create_structure_understood = true ->
  gen_run_parse_understood = true ->
  forall parse args out st,
    gen_run_parse parse args out st = run_parse parse args out st /\ fst (gen_run_parse parse args out st) <> JPanic.
Proof.
  intros U1 U2 U3 parse args out st. rewrite (gen_run_parse_eq U1 U2 U3). split; [reflexivity|].
  unfold run_parse. destruct args as [|a0 rest]; [discriminate|].
  destruct (parse _); [|discriminate]. destruct out; [|discriminate].
  destruct (collection_flag _); [|discriminate]. destruct (create_structure _ _). discriminate.
Qed.

Theorem gen_run_encode_full : gen_encode_from_state_value_step_understood = true ->
  gen_encode_from_state_value_understood = true -> gen_encode_from_state_understood = true ->
  gen_run_encode_understood = true ->
  forall render fuel args st,
    gen_run_encode render fuel args st = run_encode render fuel args st /\ gen_run_encode render fuel args st <> JPanic.
Proof.
  intros U1 U2 U3 U4 render fuel args st. rewrite (gen_run_encode_eq U1 U2 U3 U4). split; [reflexivity|].
  unfold run_encode. destruct args as [|a0 rest]; [discriminate|].
  destruct (collection_flag _); [|discriminate]. destruct (encode_from_state _ _ _); discriminate.
Qed.

(* ---- C17's round trip about the translations -------------------------------------------------------------------------- *)
Theorem gen_roundtrip : gen_create_structure_step_understood = true -> gen_create_structure_understood = true ->
  gen_encode_from_state_value_step_understood = true -> gen_encode_from_state_value_understood = true ->
  gen_encode_from_state_understood = true ->
  forall render j st fuel, store_wf st -> json_dom j -> (fuel_for j <= fuel)%nat ->
    let '(o, st') := gen_create_structure j st in
    match o with
    | Some h => match normalise j with
                | Some n => gen_encode_from_state render fuel (cells st') h = EOk (render n)
                | None => False
                end
    | None => normalise j = None
    end.
Proof.
  intros U1 U2 U3 U4 U5 render j st fuel Hst Hj Hfuel.
  rewrite (gen_create_structure_eq U1 U2).
  pose proof (encode_fuel_enough j st fuel Hst Hj Hfuel) as R. unfold roundtrip in R.
  destruct (create_structure j st) as [[h|] st'].
  - rewrite (gen_encode_from_state_eq U3 U4 U5).
    destruct (encode_from_state fuel (cells st') h) as [n|]; cbn in R; [|discriminate R].
    injection R as R. rewrite <- R. reflexivity.
  - injection R as R. symmetry. exact R.
Qed.
