(* Strings.v — C16: model (M) of the text / comparison / arithmetic / range commands and their
   plain specifications (S).  Definitions only; the proofs are in StringsProof.v.

   One Coq function per Rust command `run`, same order of argument checks.  Results:
     RVal v   CommandResult::Continue(Some(v))         RNone  CommandResult::Continue(None)
     RList l  Continue(Some(handle)) where the handle denotes the list l (split, range)
     RErr k   CommandResult::Error(message of kind k)  RPanic the Rust code would unwind
     ROod     the input is outside the domain on which the model claims anything (float rounding,
              Unicode case mapping, evalexpr floats) — never produced by the string family.
   Error kinds (the harness maps message texts to the same numbers):
     1 no argument(s)   2 two arguments required   3 three arguments required   4 non numeric value
     5 start index bigger than text size   6 index from end bigger than text size
     7 start index negative   8 end index bigger than text size   9 end smaller than start
     10 index not on a char boundary   11 split: invalid input   12 less/greater_than: invalid/missing input
     13 range: start bigger than end   14 range: invalid arguments   15 calc: missing input
     16 calc: the evaluator reported an error

   Rust std functions that are ASSUMED to be the naive list functions below (validated by the
   correspondence run, not proved): str::find / rfind / contains / starts_with / ends_with / split /
   replace (with a &str pattern), str::trim / trim_start / trim_end, str::len, str::get(a..b),
   str::parse::<isize / i64>, isize / i64 / usize to_string. *)
Require Import DS.Base DS.Utf8.

Inductive result :=
| RVal (v : str) | RNone | RList (l : list str) | RErr (k : N) | RPanic | ROod.

Definition s_true : str := [116; 114; 117; 101].
Definition s_false : str := [102; 97; 108; 115; 101].
Definition of_bool (b : bool) : result := RVal (if b then s_true else s_false).

(* ------------------------------------------------------------------------------------------- *)
(* decimal integers: to_string and str::parse for the signed machine integer types               *)

Definition is_digit (c : char) : bool := (48 <=? c) && (c <=? 57).

Fixpoint digits_val_acc (s : str) (acc : N) : option N :=
  match s with
  | [] => Some acc
  | c :: s' => if is_digit c then digits_val_acc s' (10 * acc + (c - 48)) else None
  end.
Definition digits_val (s : str) : option N := digits_val_acc s 0.

(* <iN as FromStr>::from_str: empty -> Err; one optional '+' or '-'; then at least one ASCII digit
   and nothing else; a value outside [lo, hi] -> Err (PosOverflow / NegOverflow). *)
Definition parse_int (lo hi : Z) (s : str) : option Z :=
  match s with
  | [] => None
  | c :: r =>
      let neg := c =? 45 in
      let ds := if (c =? 45) || (c =? 43) then r else s in
      match ds with
      | [] => None
      | _ :: _ =>
          match digits_val ds with
          | None => None
          | Some n =>
              let v := if neg then (- Z.of_N n)%Z else Z.of_N n in
              if ((lo <=? v) && (v <=? hi))%Z then Some v else None
          end
      end
  end.

Definition i64_min : Z := (-9223372036854775808)%Z.
Definition i64_max : Z := 9223372036854775807%Z.
(* isize is 64 bits wide on the verified target (x86_64 / aarch64 Linux) *)
Definition parse_isize := parse_int i64_min i64_max.
Definition parse_i64 := parse_int i64_min i64_max.

(* decimal digits, least significant first; [fuel] bounds the number of digits *)
Fixpoint digits_le (fuel : nat) (n : N) : list N :=
  match fuel with
  | O => []
  | S f => if n <? 10 then [n] else (n mod 10) :: digits_le f (n / 10)
  end.
Definition show_N (n : N) : str := rev (map (fun d => 48 + d) (digits_le (S (N.size_nat n)) n)).
Definition show_Z (z : Z) : str :=
  match z with
  | Z0 => show_N 0
  | Zpos p => show_N (Npos p)
  | Zneg p => 45 :: show_N (Npos p)
  end.

(* ------------------------------------------------------------------------------------------- *)
(* naive string algorithms                                                                       *)

Fixpoint is_prefix (t s : str) : bool :=
  match t, s with
  | [], _ => true
  | x :: t', y :: s' => (x =? y) && is_prefix t' s'
  | _ :: _, [] => false
  end.

(* str::find: byte offset of the first occurrence *)
Fixpoint find (s t : str) : option N :=
  match s with
  | [] => if is_prefix t [] then Some 0 else None
  | c :: s' =>
      if is_prefix t s then Some 0
      else match find s' t with Some i => Some (utf8_len c + i) | None => None end
  end.

(* str::rfind: byte offset of the last occurrence *)
Fixpoint rfind (s t : str) : option N :=
  match s with
  | [] => if is_prefix t [] then Some 0 else None
  | c :: s' =>
      match rfind s' t with
      | Some i => Some (utf8_len c + i)
      | None => if is_prefix t s then Some 0 else None
      end
  end.

Definition contains (s t : str) : bool := match find s t with Some _ => true | None => false end.
Definition starts_with (s t : str) : bool := is_prefix t s.
Definition ends_with (s t : str) : bool := is_prefix (rev t) (rev s).

(* str::split with a non-empty pattern: leftmost non-overlapping matches.  [cur] is the current
   piece reversed, [skip] counts the characters of a matched separator still to be passed over. *)
Fixpoint split_go (t s cur : str) (skip : nat) : list str :=
  match s with
  | [] => [rev cur]
  | c :: s' =>
      match skip with
      | S k => split_go t s' cur k
      | O => if is_prefix t s then rev cur :: split_go t s' [] (length t - 1)
             else split_go t s' (c :: cur) O
      end
  end.
(* the empty pattern matches at every char boundary, the two ends included *)
Definition split (s t : str) : list str :=
  match t with
  | [] => [] :: map (fun c => [c]) s ++ [[]]
  | _ :: _ => split_go t s [] O
  end.

Fixpoint join (t : str) (l : list str) : str :=
  match l with
  | [] => []
  | x :: l' => match l' with [] => x | _ :: _ => x ++ t ++ join t l' end
  end.

(* str::replace: every leftmost non-overlapping match of [f] becomes [t]; the empty pattern
   matches before every character and at the end *)
Fixpoint replace_go (f t s : str) (skip : nat) : str :=
  match s with
  | [] => []
  | c :: s' =>
      match skip with
      | S k => replace_go f t s' k
      | O => if is_prefix f s then t ++ replace_go f t s' (length f - 1)
             else c :: replace_go f t s' O
      end
  end.
Definition replace (s f t : str) : str :=
  match f with
  | [] => t ++ flat_map (fun c => c :: t) s
  | _ :: _ => replace_go f t s O
  end.

(* ------------------------------------------------------------------------------------------- *)
(* the commands                                                                                  *)

Definition cmd_length (args : list str) : result :=
  match args with
  | [] => RErr 1
  | s :: _ => RVal (show_N (blen s))
  end.

Definition of_index (o : option N) : result :=
  match o with Some i => RVal (show_N i) | None => RNone end.

Definition cmd_indexof (args : list str) : result :=
  match args with
  | s :: t :: _ => of_index (find s t)
  | _ => RErr 2
  end.

Definition cmd_last_indexof (args : list str) : result :=
  match args with
  | s :: t :: _ => of_index (rfind s t)
  | _ => RErr 2
  end.

(* substring/mod.rs.  [len] is `string_value.len() as isize`; `len - 1` and `len + value` (value < 0)
   cannot overflow because 0 <= len <= isize::MAX.  The two `try_into().unwrap()` are the only
   operations that can unwind: they are the [RPanic] tests of [sub_finish]. *)
Definition sub_finish (s : str) (st en : Z) : result :=
  if (st <? 0)%Z then RPanic
  else if (en <? 0)%Z then RPanic
  else match slice_bytes s (Z.to_N st) (Z.to_N en) with
       | Some m => RVal m
       | None => RErr 10
       end.

Definition substring1 (s : str) : result := sub_finish s 0 (Z.of_N (blen s)).

Definition substring2 (s : str) (v : Z) : result :=
  let len := Z.of_N (blen s) in
  if (0 <=? v)%Z then
    if (len - 1 <? v)%Z then RErr 5 else sub_finish s v len
  else
    let e := (len + v)%Z in
    if (e <? 0)%Z then RErr 6 else sub_finish s 0 e.

Definition substring3 (s : str) (a b : Z) : result :=
  let len := Z.of_N (blen s) in
  if (a <? 0)%Z then RErr 7
  else if (len - 1 <? a)%Z then RErr 5
  else if (a <=? b)%Z then
    if (len - 1 <? b)%Z then RErr 8 else sub_finish s a b
  else RErr 9.

Definition cmd_substring (args : list str) : result :=
  match args with
  | [] => RErr 1
  | [s] => substring1 s
  | [s; a] =>
      match parse_isize a with
      | Some v => substring2 s v
      | None => RErr 4
      end
  | s :: a :: b :: _ =>
      match parse_isize a with
      | None => RErr 4
      | Some st =>
          (* the start index is validated before the end index is parsed *)
          if (st <? 0)%Z then RErr 7
          else if (Z.of_N (blen s) - 1 <? st)%Z then RErr 5
          else match parse_isize b with
               | None => RErr 4
               | Some en => substring3 s st en
               end
      end
  end.

Definition cmd_contains (args : list str) : result :=
  match args with s :: t :: _ => of_bool (contains s t) | _ => RErr 2 end.
Definition cmd_starts_with (args : list str) : result :=
  match args with s :: t :: _ => of_bool (starts_with s t) | _ => RErr 2 end.
Definition cmd_ends_with (args : list str) : result :=
  match args with s :: t :: _ => of_bool (ends_with s t) | _ => RErr 2 end.
Definition cmd_equals (args : list str) : result :=
  match args with s :: t :: _ => of_bool (str_eqb s t) | _ => RErr 2 end.
Definition cmd_is_empty (args : list str) : result :=
  match args with
  | [] => of_bool true
  | s :: _ => of_bool (match s with [] => true | _ :: _ => false end)
  end.

(* concat/script.ds:  output = "" ; for arg in arguments: output = "${output}${arg}" ; set ${output} *)
Definition cmd_concat (args : list str) : result :=
  RVal (fold_left (fun out a => out ++ a) args []).

Definition cmd_replace (args : list str) : result :=
  match args with s :: f :: t :: _ => RVal (replace s f t) | _ => RErr 3 end.
Definition cmd_split (args : list str) : result :=
  match args with s :: t :: _ => RList (split s t) | _ => RErr 11 end.

Definition cmd_trim (args : list str) : result :=
  match args with [] => RNone | s :: _ => RVal (trim s) end.
Definition cmd_trim_start (args : list str) : result :=
  match args with [] => RNone | s :: _ => RVal (trim_start s) end.
Definition cmd_trim_end (args : list str) : result :=
  match args with [] => RNone | s :: _ => RVal (trim_end s) end.

(* collections/range/mod.rs: (start..end) over i64 *)
Definition zrange (a b : Z) : list Z :=
  map (fun k => (a + Z.of_nat k)%Z) (seq 0 (Z.to_nat (b - a))).

Definition cmd_range (args : list str) : result :=
  match args with
  | sa :: sb :: _ =>
      match parse_i64 sa with
      | None => RErr 4
      | Some a =>
          match parse_i64 sb with
          | None => RErr 4
          | Some b => if (b <? a)%Z then RErr 13 else RList (map show_Z (zrange a b))
          end
      end
  | _ => RErr 14
  end.

(* ------------------------------------------------------------------------------------------- *)
(* uppercase / lowercase: ASCII only; anything else is outside the modelled domain               *)

Definition upper_ascii (c : char) : char := if (97 <=? c) && (c <=? 122) then c - 32 else c.
Definition all_ascii (s : str) : bool := forallb (fun c => c <? 128) s.
Definition cmd_uppercase (args : list str) : result :=
  match args with
  | [] => RErr 1
  | s :: _ => if all_ascii s then RVal (map upper_ascii s) else ROod
  end.
Definition cmd_lowercase (args : list str) : result :=
  match args with
  | [] => RErr 1
  | s :: _ => if all_ascii s then RVal (map lower_ascii s) else ROod
  end.

(* ------------------------------------------------------------------------------------------- *)
(* less_than / greater_than: f64::from_str grammar, values compared as exact rationals.
   Domain: both literals finite decimals with at most 15 significant digits and a magnitude in
   [1e-290, 1e290] (or zero): there decimal -> f64 conversion is injective and monotone, so the
   order of the doubles is the order of the rationals.  f64 rounding itself is NOT modelled. *)

Inductive dec := DBad | DSpecial | DNum (neg : bool) (ds : str) (e : Z).

Fixpoint span_digits (s : str) : str * str :=
  match s with
  | c :: s' => if is_digit c then let (d, r) := span_digits s' in (c :: d, r) else ([], s)
  | [] => ([], [])
  end.

Definition lit_inf : str := [105; 110; 102].
Definition lit_infinity : str := [105; 110; 102; 105; 110; 105; 116; 121].
Definition lit_nan : str := [110; 97; 110].

Definition parse_exp (s : str) : option Z :=
  match s with
  | [] => Some 0%Z
  | c :: r =>
      if (c =? 101) || (c =? 69) then
        let neg := match r with x :: _ => x =? 45 | [] => false end in
        let ds := match r with x :: r' => if (x =? 45) || (x =? 43) then r' else r | [] => r end in
        match ds with
        | [] => None
        | _ :: _ => match digits_val ds with
                    | Some n => Some (if neg then (- Z.of_N n)%Z else Z.of_N n)
                    | None => None
                    end
        end
      else None
  end.

Definition parse_dec (s : str) : dec :=
  let neg := match s with c :: _ => c =? 45 | [] => false end in
  let body := match s with c :: r => if (c =? 45) || (c =? 43) then r else s | [] => s end in
  let low := lower_str body in
  if str_eqb low lit_inf || str_eqb low lit_infinity || str_eqb low lit_nan then DSpecial
  else
    let (ip, r1) := span_digits body in
    let (fp, r2) := match r1 with
                    | c :: r => if c =? 46 then span_digits r else ([], r1)
                    | [] => ([], r1)
                    end in
    match ip ++ fp with
    | [] => DBad
    | _ :: _ =>
        match parse_exp r2 with
        | Some e => DNum neg (ip ++ fp) (e - Z.of_nat (length fp))
        | None => DBad
        end
    end.

Fixpoint strip_zeros (ds : str) : str :=
  match ds with
  | c :: r => if c =? 48 then strip_zeros r else ds
  | [] => []
  end.

(* normal form of an in-domain literal: (signed mantissa, decimal exponent); zero is (0, 0) *)
Definition dec_norm (neg : bool) (ds : str) (e : Z) : option (Z * Z) :=
  let sig := strip_zeros ds in
  match sig with
  | [] => Some (0%Z, 0%Z)
  | _ :: _ =>
      let nd := Z.of_nat (length sig) in
      let nsig := Z.of_nat (length (strip_zeros (rev sig))) in
      let mag := (nd - 1 + e)%Z in
      if ((nsig <=? 15) && (-290 <=? mag) && (mag <=? 290))%Z then
        match digits_val sig with
        | Some m => Some (if neg then (- Z.of_N m)%Z else Z.of_N m, e)
        | None => None
        end
      else None
  end.

(* m1 * 10^e1 < m2 * 10^e2 *)
Definition rat_ltb (x y : Z * Z) : bool :=
  let '(m1, e1) := x in
  let '(m2, e2) := y in
  let em := Z.min e1 e2 in
  (m1 * 10 ^ (e1 - em) <? m2 * 10 ^ (e2 - em))%Z.

Definition cmd_compare (gt : bool) (args : list str) : result :=
  match args with
  | [a; b] =>
      match parse_dec a with
      | DBad => RErr 4
      | da =>
          match parse_dec b with
          | DBad => RErr 4
          | db =>
              match da, db with
              | DNum n1 d1 e1, DNum n2 d2 e2 =>
                  match dec_norm n1 d1 e1, dec_norm n2 d2 e2 with
                  | Some x, Some y => of_bool (if gt then rat_ltb y x else rat_ltb x y)
                  | _, _ => ROod
                  end
              | _, _ => ROod
              end
          end
      end
  | _ => RErr 12
  end.
Definition cmd_less_than := cmd_compare false.
Definition cmd_greater_than := cmd_compare true.

(* ------------------------------------------------------------------------------------------- *)
(* calc: evalexpr is third-party and not modelled.  Specification side only: integer expressions
   with checked i64 arithmetic (evalexpr's Int operators are checked_add / sub / mul / div / rem /
   neg; an integer literal above i64::MAX becomes a float, and the final result is converted to
   f64 by eval_number, so results beyond 2^53 are outside the domain). *)

Inductive expr := ELit (n : N) | ENeg (e : expr) | EBin (op : N) (a b : expr).
Inductive cres := CInt (z : Z) | CErr | COod.

Definition in_i64 (z : Z) : cres := if ((i64_min <=? z) && (z <=? i64_max))%Z then CInt z else CErr.

Fixpoint eval_expr (e : expr) : cres :=
  match e with
  | ELit n => if (Z.of_N n <=? i64_max)%Z then CInt (Z.of_N n) else COod
  | ENeg a => match eval_expr a with CInt x => in_i64 (- x)%Z | r => r end
  | EBin op a b =>
      match eval_expr a with
      | CInt x =>
          match eval_expr b with
          | CInt y =>
              if op =? 0 then in_i64 (x + y)%Z
              else if op =? 1 then in_i64 (x - y)%Z
              else if op =? 2 then in_i64 (x * y)%Z
              else if op =? 3 then (if (y =? 0)%Z then CErr else in_i64 (Z.quot x y))
              else if (y =? 0)%Z then CErr
              else if ((x =? i64_min) && (y =? -1))%Z then CErr
              else in_i64 (Z.rem x y)
          | r => r
          end
      | r => r
      end
  end.

Definition two53 : Z := 9007199254740992%Z.
Definition cmd_calc_expr (e : expr) : result :=
  match eval_expr e with
  | CInt z => if ((- two53 <=? z) && (z <=? two53))%Z then RVal (show_Z z) else ROod
  | CErr => RErr 16
  | COod => ROod
  end.

(* the exact decimal text of the value, also beyond 2^53 (used to classify finding F16: results
   that eval_number's f64 conversion rounds) *)
Definition calc_exact (e : expr) : option str :=
  match eval_expr e with CInt z => Some (show_Z z) | _ => None end.

(* ------------------------------------------------------------------------------------------- *)
(* S: plain specifications in executable form (search over all character positions)              *)

Fixpoint first_some {A} (f : nat -> option A) (l : list nat) : option A :=
  match l with
  | [] => None
  | k :: l' => match f k with Some x => Some x | None => first_some f l' end
  end.

Definition occurs_at (s t : str) (k : nat) : bool := is_prefix t (skipn k s).

(* byte offset of the first / last character position at which t occurs in s *)
Definition spec_find (s t : str) : option N :=
  first_some (fun k => if occurs_at s t k then Some (blen (firstn k s)) else None)
             (seq 0 (S (length s))).
Definition spec_rfind (s t : str) : option N :=
  first_some (fun k => if occurs_at s t k then Some (blen (firstn k s)) else None)
             (rev (seq 0 (S (length s)))).

(* the characters i..j-1 where the byte offsets of positions i <= j are a and b *)
Definition spec_slice (s : str) (a b : N) : option str :=
  first_some (fun i =>
    if blen (firstn i s) =? a then
      first_some (fun j => if blen (firstn j s) =? b then Some (firstn (j - i) (skipn i s)) else None)
                 (seq i (S (length s) - i))
    else None) (seq 0 (S (length s))).
