(* CollectionsSpec.v — specification S of the collection commands: every live handle holds a plain
   list, a finite map or a finite set of strings, and each command is a function of those.
   DEFINITIONS ONLY.

   The result of a command is described by WHAT IT DOES TO THE COLLECTIONS:
     SKeep r        nothing changes, the command reports r
     SUpd r h v     the one live collection h gets the contents v, every other one is unchanged
     SNew v         a new handle (never one that is live) is returned and holds v
     SDel r st'     `release`: the table shrinks to st'
   The order in which `map_keys` / `set_to_array` list their elements is UNSPECIFIED (Rust: hash
   order); it is the oracle [ord], about which only `ord n l ≡ₚ l` is assumed.

   The nine commands implemented by a script.ds (array_is_empty, array_contains, array_concat,
   array_join, map_contains_key, map_contains_value, map_is_empty, set_from_array, set_is_empty)
   are specified here like the native ones.  All nine have a hand translation of their script
   (CollectionsScripts.v, CollectionsJoin.v) proved against this specification (array_join on the
   arguments that survive eval re-serialisation: finding F7).  [concat_asis] is
   `array_concat` as the code behaves today (finding F6: the validation loop resumes where an
   earlier failed call stopped; theorem concat_asis_fresh: no difference otherwise). *)
From stdpp Require Import gmap list.
From Coq Require Import NArith ZArith.
Require Import DS.Collections DS.CollectionsScripts DS.CollectionsJoin.
Require DS.Expansion.

Inductive look (A : Type) := Found (a : A) | WrongKind | Missing.
Arguments Found {A} a. Arguments WrongKind {A}. Arguments Missing {A}.

Definition look_list (st : store) (h : handle) : look (list elem) :=
  match st !! h with Some (HList l) => Found l | Some _ => WrongKind | None => Missing end.
Definition look_map (st : store) (h : handle) : look (gmap str elem) :=
  match st !! h with Some (HMap m) => Found m | Some _ => WrongKind | None => Missing end.
Definition look_set (st : store) (h : handle) : look (gset str) :=
  match st !! h with Some (HSet x) => Found x | Some _ => WrongKind | None => Missing end.

Inductive sres :=
  | SKeep (r : cres)
  | SUpd (r : cres) (h : handle) (v : hval)
  | SNew (v : hval)
  | SDel (r : cres) (st' : store).

(* a handle of the wrong kind / a released or unknown handle: an error, nothing changes *)
Definition on {A} (l : look A) (f : A -> sres) : sres :=
  match l with
  | Found a => f a
  | WrongKind => SKeep (Error EKind)
  | Missing => SKeep (Error ENotFound)
  end.
Definition ok_true : cres := Cont (Some s_true).
Definition ok_bool (b : bool) : cres := Cont (Some (bool_str b)).

(* l[idx] for a usize index (no conversion of a huge index to nat) *)
Definition lookupN (l : list elem) (idx : N) : option elem :=
  if len_gt l idx then l !! N.to_nat idx else None.

Fixpoint find_index (v : str) (l : list elem) (i : nat) : option nat :=
  match l with
  | [] => None
  | e :: l' => if str_eqb (elem_str e) v then Some i else find_index v l' (S i)
  end.
Fixpoint join (sep : str) (l : list str) : str :=
  match l with
  | [] => []
  | [x] => x
  | x :: l' => x ++ sep ++ join sep l'
  end.
Definition map_values (m : gmap str elem) : list str := elem_str <$> (map_to_list m).*2.
Definition as_text (l : list elem) : list elem := (fun e => EStr (elem_str e)) <$> l.

Section Spec.
Variable rnd : nat -> handle.
Variable ord : nat -> list str -> list str.

Definition release_flags (a0 : str) (rest : list str) : handle * bool :=
  match rest with
  | a1 :: _ => if str_eqb a0 s_dash_r || str_eqb a0 s_recursive then (a1, true) else (a0, false)
  | [] => (a0, false)
  end.

Definition spec (c : cmd) (args : list str) (s : mstate) : sres :=
  let st := hs s in
  match c, args with
  (* ---- arrays ---- *)
  | CArray, _ => SNew (HList (EStr <$> args))
  | CRange, a0 :: a1 :: _ =>
    match parse_i64 a0, parse_i64 a1 with
    | Some a, Some b =>
      if (b <? a)%Z then SKeep (Error ERange) else SNew (HList (ENum <$> seqZ a (b - a)))
    | _, _ => SKeep (Error ENonNum)
    end
  | CArrayPush, h :: vs =>
    on (look_list st h) (fun l => SUpd ok_true h (HList (l ++ (EStr <$> vs))))
  | CArrayPop, h :: _ =>
    on (look_list st h) (fun l =>
      SUpd (Cont (elem_str <$> last l)) h (HList (take (pred (length l)) l)))
  | CArrayGet, h :: i :: _ =>
    match parse_usize i with
    | None => SKeep (Error ENonNum)
    | Some idx => on (look_list st h) (fun l => SKeep (Cont (elem_str <$> lookupN l idx)))
    end
  | CArraySet, h :: i :: v :: _ =>
    match parse_usize i with
    | None => SKeep (Error ENonNum)
    | Some idx => on (look_list st h) (fun l =>
        if len_gt l idx then SUpd ok_true h (HList (<[N.to_nat idx := EStr v]> l))
        else SKeep (Error EIndex))
    end
  | CArrayRemove, h :: i :: _ =>
    match parse_usize i with
    | None => SKeep (Error ENonNum)
    | Some idx => on (look_list st h) (fun l =>
        if len_gt l idx then SUpd ok_true h (HList (delete (N.to_nat idx) l))
        else SKeep (Error EIndex))
    end
  | CArrayClear, h :: _ => on (look_list st h) (fun _ => SUpd ok_true h (HList []))
  | CArrayLength, h :: _ =>
    on (look_list st h) (fun l => SKeep (Cont (Some (dec_nat (length l)))))
  (* ---- maps ---- *)
  | CMap, _ => SNew (HMap ∅)
  | CMapPut, h :: k :: v :: _ =>
    on (look_map st h) (fun m => SUpd ok_true h (HMap (<[k := EStr v]> m)))
  | CMapGet, h :: k :: _ => on (look_map st h) (fun m => SKeep (Cont (elem_str <$> m !! k)))
  | CMapRemove, h :: k :: _ =>
    on (look_map st h) (fun m => SUpd (Cont (elem_str <$> m !! k)) h (HMap (delete k m)))
  | CMapSize, h :: _ => on (look_map st h) (fun m => SKeep (Cont (Some (dec_nat (size m)))))
  | CMapKeys, h :: _ =>
    on (look_map st h) (fun m => SNew (HList (EStr <$> ord (draws s) (map_to_list m).*1)))
  | CMapClear, h :: _ => on (look_map st h) (fun _ => SUpd ok_true h (HMap ∅))
  (* ---- sets ---- *)
  | CSetNew, _ => SNew (HSet (list_to_set args))
  | CSetPut, h :: vs => on (look_set st h) (fun x => SUpd ok_true h (HSet (x ∪ list_to_set vs)))
  | CSetRemove, h :: v :: _ =>
    on (look_set st h) (fun x => SUpd (ok_bool (bool_decide (v ∈ x))) h (HSet (x ∖ {[v]})))
  | CSetContains, h :: v :: _ =>
    on (look_set st h) (fun x => SKeep (ok_bool (bool_decide (v ∈ x))))
  | CSetSize, h :: _ => on (look_set st h) (fun x => SKeep (Cont (Some (dec_nat (size x)))))
  | CSetClear, h :: _ => on (look_set st h) (fun _ => SUpd ok_true h (HSet ∅))
  | CSetToArray, h :: _ =>
    on (look_set st h) (fun x => SNew (HList (EStr <$> ord (draws s) (elements x))))
  (* ---- kind tests: never an error for a string that is not a live handle ---- *)
  | CIsArray, h :: _ =>
    SKeep (ok_bool (match look_list st h with Found _ => true | _ => false end))
  | CIsMap, h :: _ =>
    SKeep (ok_bool (match look_map st h with Found _ => true | _ => false end))
  | CIsSet, h :: _ =>
    SKeep (ok_bool (match look_set st h with Found _ => true | _ => false end))
  (* ---- release ---- *)
  | CRelease, [] => SKeep (ok_bool false)
  | CRelease, a0 :: rest =>
    let (h, recursive) := release_flags a0 rest in
    if recursive then
      (* what exactly is removed is stated by theorem C12_release (CollectionsProof.v):
         the handles reachable from h through stored strings *)
      match release_recursive st h with
      | Done (removed, st') => SDel (ok_bool removed) st'
      | _ => SKeep (Error EArgs)                        (* unreachable: rel_rec_total *)
      end
    else
      match st !! h with
      | Some _ => SDel (ok_bool true) (delete h st)
      | None => SKeep (ok_bool false)
      end
  | CRaw, _ => SNew (HOther (match args with a :: _ => default 0%N (digits a) | [] => 0%N end))
  (* ---- implemented by scripts (correspondence run only) ---- *)
  | CArrayIsEmpty, h :: _ =>
    on (look_list st h) (fun l => SKeep (ok_bool (bool_decide (l = []))))
  | CMapIsEmpty, h :: _ =>
    on (look_map st h) (fun m => SKeep (ok_bool (bool_decide (m = ∅))))
  | CSetIsEmpty, h :: _ =>
    on (look_set st h) (fun x => SKeep (ok_bool (bool_decide (x = ∅))))
  | CArrayContains, h :: v :: _ =>
    match look_list st h with
    | Found l => SKeep (Cont (Some (match find_index v l 0 with
                                    | Some i => dec_nat i | None => s_false end)))
    | _ => SKeep (ok_bool false)
    end
  | CArrayJoin, h :: sep :: _ =>
    match look_list st h with
    | Found l => SKeep (Cont (Some (join sep (elem_str <$> l))))
    | _ => SKeep (Error ETrigger)
    end
  | CArrayConcat, _ =>
    if forallb (fun a => match look_list st a with Found _ => true | _ => false end) args
    then SNew (HList (as_text (args ≫= (fun a => match look_list st a with
                                                  | Found l => l | _ => [] end))))
    else SKeep (Error ETrigger)
  | CSetFromArray, h :: _ =>
    match look_list st h with
    | Found l => SNew (HSet (list_to_set (elem_str <$> l)))
    | _ => SKeep (Error ETrigger)
    end
  | CMapContainsKey, h :: k :: _ =>
    on (look_map st h) (fun m => SKeep (ok_bool (bool_decide (is_Some (m !! k)))))
  | CMapContainsValue, h :: v :: _ =>
    on (look_map st h) (fun m => SKeep (ok_bool (bool_decide (v ∈ map_values m))))
  (* too few arguments *)
  | _, _ => SKeep (Error EArgs)
  end.

Definition apply (s : mstate) (r : sres) : cres * mstate :=
  match r with
  | SKeep c => (c, s)
  | SUpd c h v => (c, with_hs s (<[h := v]> (hs s)))
  | SNew v => let (h, s') := put_handle rnd s v in (Cont (Some h), s')
  | SDel c st' => (c, with_hs s st')
  end.

Definition step_s (c : cmd) (args : list str) (s : mstate) : cres * mstate :=
  apply s (spec c args s).

(* ---- array_concat as the code behaves (F6) -------------------------------------------------- *)
Definition is_live_array (st : store) (a : str) : bool :=
  match look_list st a with Found _ => true | _ => false end.
(* index (from [i]) of the first argument that is not a live array *)
Fixpoint first_bad (st : store) (args : list str) (i : nat) : option nat :=
  match args with
  | [] => None
  | a :: r => if is_live_array st a then first_bad st r (S i) else Some i
  end.
Definition concat_asis (args : list str) (s : mstate) : cres * mstate :=
  let start := default 0 (stale s) in
  match first_bad (hs s) (drop start args) start with
  | Some j => (Error ETrigger, MS (hs s) (draws s) (Some (S j)))
  | None =>
    let items := args ≫= (fun a => match look_list (hs s) a with Found l => l | _ => [] end) in
    let (h, s') := put_handle rnd (MS (hs s) (draws s) None) (HList (as_text items)) in
    (Cont (Some h), s')
  end.

(* ---- what the correspondence run executes ---------------------------------------------------- *)
(* natives: the model M;  the nine script commands: their translations (CollectionsScripts.v,
   CollectionsJoin.v; array_concat and array_join as the code behaves) *)
Definition step_h (c : cmd) (args : list str) (s : mstate) : outcome (cres * mstate) :=
  match step_m rnd ord c args s with
  | Some o => o
  | None =>
    match step_script rnd ord c args s with  (* the scripts translated by hand *)
    | Some o => o
    | None => match c with
              | CArrayConcat => Done (concat_asis args s)
              | CArrayJoin =>
                (* the translation of CollectionsJoin.v, with no variable defined (so that a separator
                   such as ${x} re-binds to nothing); outside the translation: the specification *)
                match script_array_join DS.Expansion.env_empty args s with
                | Some o => o
                | None => Done (step_s c args s)
                end
              | _ => Done (step_s c args s)
              end
    end
  end.

End Spec.

Global Instance elem_eq_dec : EqDecision elem.
Proof. solve_decision. Defined.
Global Instance hval_eq_dec : EqDecision hval.
Proof. solve_decision. Defined.
Global Instance ekind_eq_dec : EqDecision ekind.
Proof. solve_decision. Defined.
Global Instance cres_eq_dec : EqDecision cres.
Proof. solve_decision. Defined.

(* does the executed step agree with the specification (output and handle table)?  [false] only
   for array_concat in the F6 situation (never for a native command: theorem C12_refines).  The draw
   count is not compared: the translated map_contains_value takes a draw for its temporary key array. *)
Definition agrees (o : outcome (cres * mstate)) (r : cres * mstate) : bool :=
  match o with
  | Done (c, s) => bool_decide (c = r.1) && bool_decide (hs s = hs r.2)
  | _ => false
  end.

(* ---- re-reading a collection (the dump of the correspondence run) --------------------------- *)
Inductive dumped := DArr (l : list str) | DMap (kv : list (str * str)) | DSet (l : list str) | DOther | DAbsent.
Definition dump_handle (s : mstate) (h : handle) : dumped :=
  match hs s !! h with
  | Some (HList l) => DArr (elem_str <$> l)
  | Some (HMap m) => DMap (prod_map id elem_str <$> map_to_list m)
  | Some (HSet x) => DSet (elements x)
  | Some (HOther _) => DOther
  | None => DAbsent
  end.
Definition table_size (s : mstate) : nat := size (hs s).

(* ---- histories ------------------------------------------------------------------------------ *)
Section Runs.
Variable rnd : nat -> handle.
Variable ord : nat -> list str -> list str.
Fixpoint run_s (ops : list (cmd * list str)) (s : mstate) : list cres * mstate :=
  match ops with
  | [] => ([], s)
  | (c, args) :: ops' =>
    let (r, s') := step_s rnd ord c args s in
    let (rs, s'') := run_s ops' s' in (r :: rs, s'')
  end.
Fixpoint run_h (ops : list (cmd * list str)) (s : mstate) : outcome (list cres * mstate) :=
  match ops with
  | [] => Done ([], s)
  | (c, args) :: ops' =>
    match step_h rnd ord c args s with
    | Done (r, s') =>
      match run_h ops' s' with
      | Done (rs, s'') => Done (r :: rs, s'')
      | Panic => Panic
      | Fuel => Fuel
      end
    | Panic => Panic
    | Fuel => Fuel
    end
  end.
End Runs.

(* ---- vocabulary of the theorems --------------------------------------------------------------- *)
Inductive kind := KList | KMap | KSet | KOther.
Definition kind_at (st : store) (h : handle) : option kind :=
  match st !! h with
  | Some (HList _) => Some KList | Some (HMap _) => Some KMap | Some (HSet _) => Some KSet
  | Some (HOther _) => Some KOther | None => None
  end.
(* the kind of collection a command expects behind its first argument *)
Definition wants (c : cmd) : option kind :=
  match c with
  | CArrayPush | CArrayPop | CArrayGet | CArraySet | CArrayRemove | CArrayClear | CArrayLength
  | CIsArray | CArrayIsEmpty | CArrayContains | CArrayJoin | CSetFromArray => Some KList
  | CMapPut | CMapGet | CMapRemove | CMapSize | CMapKeys | CMapClear | CIsMap
  | CMapContainsKey | CMapContainsValue | CMapIsEmpty => Some KMap
  | CSetPut | CSetRemove | CSetContains | CSetSize | CSetClear | CSetToArray | CIsSet
  | CSetIsEmpty => Some KSet
  | _ => None
  end.
Definition refused (r : cres) : Prop := (exists e, r = Error e) \/ r = Cont (Some s_false).

(* h2 can be reached from h1 through strings stored in live collections *)
Inductive reach (st : store) : handle -> handle -> Prop :=
  | reach_refl k : is_Some (st !! k) -> reach st k k
  | reach_step k h v c :
      reach st k h -> st !! h = Some v -> c ∈ children v -> is_Some (st !! c) -> reach st k c.
