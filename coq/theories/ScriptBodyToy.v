(* ScriptBodyToy.v — C19: a small instance of the Section variables of ScriptBody.v (definitions
   only).  Every native command answers Continue and leaves everything alone, except set_by_name
   which does what var/set_by_name/mod.rs does; every name is a registered command; the native
   parts of if / while / not do nothing.  These commands satisfy the frame hypotheses of
   `confined_sound` (ScriptBodyGen.toy_frame_hyps), so a run over them that modifies a caller
   variable is a counterexample to the theorem WITHOUT its "flag down" hypothesis: it isolates what
   the re-parse of condition arguments (utils/eval.rs::parse) does by itself. *)
From stdpp Require Import gmap.
Require Import DS.Base DS.Parser DS.ScriptConf DS.AliasCmd DS.Runner DS.SdkErr DS.ScriptBody.
Local Open Scope nat_scope.

Definition toy_ncmd (c : str) (p : list Runner.instr) (a : inv) : nat_t unit :=
  fun v h u =>
  if str_eqb c s_set_by_name then
    match a_args a with
    | [] => (Error [], v, h, u)
    | [n] => (Continue None, delete n v, h, u)
    | n :: x :: _ => (Continue (Some x), <[n := x]> v, h, u)
    end
  else (Continue None, v, h, u).
Definition toy_pre (c : str) (p : list Runner.instr) (a : inv) (v : vmap) (h : handles) (u : unit)
  : option result * vmap * handles * unit := (None, v, h, u).
Definition toy_post (c : str) (p : list Runner.instr) (a : inv) (cr : option bool) : nat_t unit :=
  fun v h u => (Continue None, v, h, u).
Definition toy_fresh (h : handles) : str := [104]%N.
Definition toy_body := script_body unit gen_table toy_fresh (fun _ _ u => u) (fun _ u => u) (fun _ u => ([], u))
   (fun _ _ => true) toy_ncmd toy_pre toy_post.
Definition toy_command := script_command unit gen_table toy_fresh (fun _ _ u => u) (fun _ u => u) (fun _ u => ([], u))
   (fun _ _ => true) toy_ncmd toy_pre toy_post.

(* the witness: array_concat's own text; its loop variable holds "=" (the value of an argument);
   the caller has a variable called is_array *)
Definition k_is_array : str := [105;115;95;97;114;114;97;121]%N.
Definition s_array_concat : str := [97;114;114;97;121;95;99;111;110;99;97;116]%N.
Definition k_concat_arg : str := scope_prefix s_array_concat ++ [97;114;103]%N.      (* scope::array_concat::arg *)
Definition wit_vars : vmap := <[k_concat_arg := [61]%N]> (<[k_is_array := [107]%N]> ∅).
Definition wit_entry : sentry :=
  match find_script gen_table s_array_concat with Some s => s | None => SE [] [] 0 [] end.
Definition wit_run : sb_out unit := toy_body 100 10 (se_scope wit_entry) (se_body wit_entry) wit_vars ∅ tt.
(* (flag, is_array still there) *)
Definition wit_summary : option (bool * bool) :=
  match wit_run with
  | SBDone _ _ v' _ _ odd => Some (odd, match v' !! k_is_array with Some _ => true | None => false end)
  | _ => None
  end.
