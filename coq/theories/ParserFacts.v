(* ParserFacts.v — termination, instruction count and error position facts about Parser.v (C08). *)
Require Import DS.Base DS.Parser DS.ParserSpec.

Ltac case_ifs_hyp H :=
  repeat match type of H with
         | context [if ?b then _ else _] => destruct b eqn:?
         end.
Ltac case_ifs_goal :=
  repeat match goal with
         | |- context [if ?b then _ else _] => destruct b eqn:?
         end.

(* ---- the token scanner consumes what it returns --------------------------------------------- *)
Lemma in_arg_len fl l : forall acc uq ic fvp rest v,
  in_arg fl l acc uq ic fvp = POk (rest, v) -> (length rest <= length l)%nat.
Proof.
  induction l as [|c l IH]; intros acc uq ic fvp rest v H; cbn [in_arg] in H.
  - case_ifs_hyp H; inversion H; subst; cbn [length]; lia.
  - case_ifs_hyp H; try discriminate;
      try (apply IH in H; cbn [length]; lia);
      inversion H; subst; cbn [length]; lia.
Qed.

Lemma skip_len fl l : forall rest v,
  skip fl l = POk (rest, v) -> (length rest <= length l)%nat.
Proof.
  induction l as [|c l IH]; intros rest v H; cbn [skip] in H.
  - inversion H; subst; cbn; lia.
  - case_ifs_hyp H; try discriminate;
      try (apply IH in H; cbn [length]; lia);
      try (apply in_arg_len in H; cbn [length]; lia);
      inversion H; subst; cbn [length]; lia.
Qed.

(* a value was returned: at least one character was consumed *)
Lemma skip_shrinks fl l : forall rest a,
  skip fl l = POk (rest, Some a) -> (length rest < length l)%nat.
Proof.
  induction l as [|c l IH]; intros rest a H; cbn [skip] in H.
  - discriminate.
  - case_ifs_hyp H; try discriminate;
      try (apply IH in H; cbn [length]; lia);
      try (apply in_arg_len in H; cbn [length]; lia).
Qed.

Lemma pnv_shrinks fl l rest a :
  parse_next_value fl l = POk (rest, Some a) -> (length rest < length l)%nat.
Proof. apply skip_shrinks. Qed.

Lemma pnv_len fl l rest v :
  parse_next_value fl l = POk (rest, v) -> (length rest <= length l)%nat.
Proof. apply skip_len. Qed.

(* ---- EFuel is only ever produced by running out of fuel --------------------------------------- *)
Lemma in_arg_nofuel fl l : forall acc uq ic fvp, in_arg fl l acc uq ic fvp <> PErr EFuel.
Proof.
  induction l as [|c l IH]; intros acc uq ic fvp; cbn [in_arg];
    case_ifs_goal; try discriminate; apply IH.
Qed.

Lemma skip_nofuel fl l : skip fl l <> PErr EFuel.
Proof.
  induction l as [|c l IH]; cbn [skip]; case_ifs_goal; try discriminate;
    try apply in_arg_nofuel; apply IH.
Qed.

Lemma pnv_nofuel fl l : parse_next_value fl l <> PErr EFuel.
Proof. apply skip_nofuel. Qed.

Lemma args_fuel_enough fl : forall f l, (length l < f)%nat -> parse_args_fuel f fl l <> PErr EFuel.
Proof.
  induction f as [|f IH]; intros l Hl; [lia|]. cbn [parse_args_fuel].
  destruct (parse_next_value fl l) as [[rest [a|]]|e] eqn:E.
  - apply pnv_shrinks in E. specialize (IH rest ltac:(lia)).
    destruct (parse_args_fuel f fl rest); congruence.
  - discriminate.
  - intros H. inversion H; subst. exact (pnv_nofuel _ _ E).
Qed.

(* fuel beyond what is needed does not change the result *)
Lemma args_fuel_mono fl : forall f f' l r,
  parse_args_fuel f fl l = r -> r <> PErr EFuel -> (f <= f')%nat -> parse_args_fuel f' fl l = r.
Proof.
  induction f as [|f IH]; intros f' l r H Hr Hle.
  - cbn in H. congruence.
  - destruct f' as [|f']; [lia|]. cbn [parse_args_fuel] in *.
    destruct (parse_next_value fl l) as [[rest [a|]]|e]; try assumption.
    destruct (parse_args_fuel f fl rest) as [args|e] eqn:E.
    + rewrite (IH f' rest (POk args)); [assumption|assumption|discriminate|lia].
    + assert (e <> EFuel) by congruence.
      rewrite (IH f' rest (PErr e)); [assumption|assumption|congruence|lia].
Qed.

Lemma args_any_fuel fl f l r :
  parse_args_fuel f fl l = r -> r <> PErr EFuel -> parse_args_fuel (S (length l)) fl l = r.
Proof.
  intros H Hr. destruct (Nat.le_gt_cases f (S (length l))) as [Hle|Hgt].
  - eapply args_fuel_mono; eassumption.
  - pose proof (args_fuel_enough fl (S (length l)) l ltac:(lia)) as Hn.
    rewrite <- H. symmetry. eapply args_fuel_mono; [reflexivity|exact Hn|lia].
Qed.

Theorem parse_arguments_with_nofuel fl l : parse_arguments_with fl l <> PErr EFuel.
Proof.
  unfold parse_arguments_with.
  pose proof (args_fuel_enough fl (S (length l)) l ltac:(lia)) as H.
  destruct (parse_args_fuel (S (length l)) fl l); congruence.
Qed.

Lemma find_label_nofuel l : find_label l <> PErr EFuel.
Proof.
  induction l as [|c l IH]; cbn [find_label]; [discriminate|].
  destruct (c =? c_colon).
  - pose proof (pnv_nofuel fl_name l) as H.
    destruct (parse_next_value fl_name l) as [[rest [[|x v]|]]|e]; congruence.
  - destruct (c =? c_sp); [exact IH|discriminate].
Qed.

Lemma find_oc_nofuel l : find_output_and_command l <> PErr EFuel.
Proof.
  unfold find_output_and_command.
  pose proof (pnv_nofuel fl_out l) as H.
  destruct (parse_next_value fl_out l) as [[rest [v|]]|e]; try congruence.
  destruct (after_equals rest) as [after|]; try congruence.
  pose proof (pnv_nofuel fl_name after) as H2.
  destruct (parse_next_value fl_name after) as [[rest2 [cmd|]]|e]; congruence.
Qed.

Lemma parse_command_line_nofuel l : parse_command_line l <> PErr EFuel.
Proof.
  unfold parse_command_line. destruct l as [|c l]; [discriminate|].
  pose proof (find_label_nofuel (c :: l)) as H1.
  destruct (find_label (c :: l)) as [[r1 label]|e]; [|congruence].
  pose proof (find_oc_nofuel r1) as H2.
  destruct (find_output_and_command r1) as [[[r2 output] command]|e]; [|congruence].
  pose proof (parse_arguments_with_nofuel fl_arg r2) as H3. unfold parse_arguments.
  destruct (parse_arguments_with fl_arg r2) as [args|e]; [|congruence].
  destruct label, output, command; discriminate.
Qed.

Lemma parse_pre_process_line_nofuel l : parse_pre_process_line l <> PErr EFuel.
Proof.
  unfold parse_pre_process_line. destruct (pp_command l []) as [cmd rest].
  destruct cmd; [discriminate|].
  pose proof (parse_arguments_with_nofuel fl_arg rest) as H3. unfold parse_arguments.
  destruct (parse_arguments_with fl_arg rest); congruence.
Qed.

Theorem parse_line_nofuel s : parse_line s <> PErr EFuel.
Proof.
  unfold parse_line. destruct (trim s) as [|c t]; [discriminate|].
  destruct (c =? c_hash); [discriminate|].
  destruct (c =? c_bang); [apply parse_pre_process_line_nofuel|apply parse_command_line_nofuel].
Qed.

(* ---- the line loop ---------------------------------------------------------------------------- *)
Lemma preprocess_no_include src ln t :
  match preprocess no_include src ln t with
  | TOk added => added = []
  | TErr e l s => (e = EUnknownPreProcessorCommand \/ e = EPreProcessNoCommandFound) /\ l = ln /\ s = src
                  \/ e = EReadFile
  end.
Proof.
  unfold preprocess. destruct t as [|[cmd|] args|]; try reflexivity.
  - destruct (str_eqb cmd s_print); [reflexivity|].
    destruct (str_eqb cmd s_include_files).
    + destruct args; [right; reflexivity|reflexivity].
    + left; auto.
  - left; auto.
Qed.

Theorem parse_lines_nofuel src : forall ls ln l s,
  parse_lines_from no_include src ln ls <> TErr EFuel l s.
Proof.
  induction ls as [|x ls IH]; intros ln l s; cbn [parse_lines_from]; [discriminate|].
  pose proof (parse_line_nofuel x) as Hx.
  destruct (parse_line x) as [t|e]; [|congruence].
  pose proof (preprocess_no_include src ln t) as Hp.
  destruct (preprocess no_include src ln t) as [added|e l' s'].
  - specialize (IH (ln + 1) l s).
    destruct (parse_lines_from no_include src (ln + 1) ls); [discriminate|congruence].
  - intros H; inversion H; subst. destruct Hp as [[[?|?] _]|?]; discriminate.
Qed.

Theorem parse_text_nofuel t l s : parse_text t <> TErr EFuel l s.
Proof. apply parse_lines_nofuel. Qed.

(* what [line_error] says about one step of the loop *)
Lemma line_error_none src ln s :
  line_error s = None ->
  exists t, parse_line s = POk t /\ preprocess no_include src ln t = TOk [].
Proof.
  unfold line_error. destruct (parse_line s) as [t|e]; [|discriminate]. intros H.
  exists t. split; [reflexivity|]. unfold preprocess.
  destruct t as [|[cmd|] args|]; try reflexivity; try discriminate.
  destruct (str_eqb cmd s_print); [reflexivity|].
  destruct (str_eqb cmd s_include_files); [|discriminate].
  destruct args; [discriminate|reflexivity].
Qed.

Lemma line_error_some src ln s e :
  line_error s = Some e -> e <> EReadFile ->
  parse_line s = PErr e \/
  exists t, parse_line s = POk t /\ preprocess no_include src ln t = TErr e ln src.
Proof.
  unfold line_error. destruct (parse_line s) as [t|e']; [|intros H _; left; congruence].
  intros H Hne. right. exists t. split; [reflexivity|]. unfold preprocess.
  destruct t as [|[cmd|] args|]; try discriminate.
  - destruct (str_eqb cmd s_print); [discriminate|].
    destruct (str_eqb cmd s_include_files).
    + destruct args; [congruence|discriminate].
    + congruence.
  - congruence.
Qed.

(* parse errors proper: what [parse_line] itself can answer *)
Definition lex_err (e : perr) : bool :=
  match e with
  | EControlWithoutValidValue | EInvalidControlLocation | EMissingEndQuotes | EInvalidQuotesLocation => true
  | _ => false
  end.
Definition line_err (e : perr) : bool :=
  lex_err e || match e with EEmptyLabel | EPreProcessNoCommandFound => true | _ => false end.

Lemma in_arg_err fl l : forall acc uq ic fvp e, in_arg fl l acc uq ic fvp = PErr e -> lex_err e = true.
Proof.
  induction l as [|c l IH]; intros acc uq ic fvp e H; cbn [in_arg] in H;
    case_ifs_hyp H; try discriminate; try (inversion H; reflexivity); eapply IH; eassumption.
Qed.

Lemma skip_err fl l : forall e, skip fl l = PErr e -> lex_err e = true.
Proof.
  induction l as [|c l IH]; intros e H; cbn [skip] in H; [discriminate|].
  case_ifs_hyp H; try discriminate; try (inversion H; reflexivity);
    try (eapply in_arg_err; eassumption); eapply IH; eassumption.
Qed.

Lemma args_fuel_err fl : forall f l e, parse_args_fuel f fl l = PErr e -> lex_err e = true \/ e = EFuel.
Proof.
  induction f as [|f IH]; intros l e H; cbn [parse_args_fuel] in H.
  - inversion H; auto.
  - destruct (parse_next_value fl l) as [[rest [a|]]|e'] eqn:E; try discriminate.
    + destruct (parse_args_fuel f fl rest) eqn:E2; [discriminate|]. inversion H; subst. eapply IH; eassumption.
    + inversion H; subst. left. eapply skip_err; exact E.
Qed.

Lemma parse_arguments_err fl l e : parse_arguments_with fl l = PErr e -> lex_err e = true.
Proof.
  intros H. pose proof (parse_arguments_with_nofuel fl l) as Hn. unfold parse_arguments_with in *.
  destruct (parse_args_fuel (S (length l)) fl l) eqn:E; [discriminate|]. inversion H; subst.
  apply args_fuel_err in E. destruct E; congruence.
Qed.

Lemma find_label_err l : forall e, find_label l = PErr e -> line_err e = true.
Proof.
  induction l as [|c l IH]; intros e H; cbn [find_label] in H; [discriminate|].
  destruct (c =? c_colon).
  - destruct (parse_next_value fl_name l) as [[rest [[|x v]|]]|e'] eqn:E; try discriminate.
    + inversion H; reflexivity.
    + inversion H; subst. unfold line_err. erewrite skip_err; [reflexivity|exact E].
  - destruct (c =? c_sp); [eauto|discriminate].
Qed.

Lemma find_oc_err l e : find_output_and_command l = PErr e -> lex_err e = true.
Proof.
  unfold find_output_and_command. intros H.
  destruct (parse_next_value fl_out l) as [[rest [v|]]|e'] eqn:E; try discriminate.
  - destruct (after_equals rest) as [after|]; try discriminate.
    destruct (parse_next_value fl_name after) as [[rest2 [cmd|]]|e'] eqn:E2; try discriminate.
    inversion H; subst. eapply skip_err; exact E2.
  - inversion H; subst. eapply skip_err; exact E.
Qed.

Theorem parse_line_err s e : parse_line s = PErr e -> line_err e = true.
Proof.
  unfold parse_line. destruct (trim s) as [|c t]; [discriminate|].
  destruct (c =? c_hash); [discriminate|]. destruct (c =? c_bang).
  - unfold parse_pre_process_line. destruct (pp_command t []) as [cmd rest].
    destruct cmd; [intros H; inversion H; reflexivity|].
    unfold parse_arguments. destruct (parse_arguments_with fl_arg rest) eqn:E; [discriminate|].
    intros H; inversion H; subst. unfold line_err. erewrite parse_arguments_err; [reflexivity|exact E].
  - unfold parse_command_line.
    destruct (find_label (c :: t)) as [[r1 label]|e1] eqn:E1.
    + destruct (find_output_and_command r1) as [[[r2 output] command]|e2] eqn:E2.
      * unfold parse_arguments. destruct (parse_arguments_with fl_arg r2) eqn:E3.
        -- destruct label, output, command; discriminate.
        -- intros H; inversion H; subst. unfold line_err. erewrite parse_arguments_err; [reflexivity|exact E3].
      * intros H; inversion H; subst. unfold line_err. erewrite find_oc_err; [reflexivity|exact E2].
    + intros H; inversion H; subst. eapply find_label_err; exact E1.
Qed.

Lemma line_error_readfile s :
  line_error s = Some EReadFile -> include_args_line s = true.
Proof.
  unfold include_args_line, line_error. pose proof (parse_line_err s) as He.
  destruct (parse_line s) as [t|e].
  - destruct t as [|[cmd|] args|]; try discriminate.
    destruct (str_eqb cmd s_print); [discriminate|].
    destruct (str_eqb cmd s_include_files); [|discriminate].
    destruct args; [reflexivity|discriminate].
  - intros H; inversion H; subst. specialize (He _ eq_refl). discriminate.
Qed.

(* ---- C08: one instruction per line, errors at the first offending line ------------------------ *)
Section Loop.
Variable src : option str.

Lemma loop_ok : forall ls ln is,
  parse_lines_from no_include src ln ls = TOk is ->
  Forall2 (instr_of_line src) (number_from ln ls) is /\ Forall (fun s => line_error s = None) ls.
Proof.
  induction ls as [|x ls IH]; intros ln is H; cbn [parse_lines_from number_from] in *.
  - inversion H; subst. split; constructor.
  - unfold line_error at 1.
    destruct (parse_line x) as [t|e] eqn:Ex; [|discriminate].
    pose proof (preprocess_no_include src ln t) as Hp.
    destruct (preprocess no_include src ln t) as [added|e l' s'] eqn:Ep; [|discriminate]. subst added.
    destruct (parse_lines_from no_include src (ln + 1) ls) as [rest|] eqn:Er; [|discriminate].
    inversion H; subst. destruct (IH _ _ Er) as [IH1 IH2]. split.
    + constructor; [|exact IH1]. repeat split; cbn; assumption.
    + constructor; [|exact IH2]. fold (line_error x).
      unfold line_error. rewrite Ex. unfold preprocess in Ep.
      destruct t as [|[cmd|] args|]; try reflexivity; try discriminate.
      destruct (str_eqb cmd s_print); [reflexivity|].
      destruct (str_eqb cmd s_include_files); [|discriminate].
      destruct args; [discriminate|reflexivity].
Qed.

Lemma loop_planted : forall good ln bad rest e,
  Forall (fun s => line_error s = None) good -> line_error bad = Some e -> e <> EReadFile ->
  parse_lines_from no_include src ln (good ++ bad :: rest) = TErr e (ln + N.of_nat (length good)) src.
Proof.
  induction good as [|g good IH]; intros ln bad rest e Hg Hb Hne; cbn [app parse_lines_from length].
  - replace (ln + N.of_nat 0) with ln by lia.
    destruct (line_error_some src ln bad e Hb Hne) as [E|(t & E & Ep)]; rewrite E; [reflexivity|].
    rewrite Ep. reflexivity.
  - inversion Hg as [|? ? Hg1 Hg2]; subst.
    destruct (line_error_none src ln g Hg1) as (t & E & Ep). rewrite E, Ep.
    rewrite (IH (ln + 1) bad rest e Hg2 Hb Hne). f_equal. lia.
Qed.

Lemma loop_err : forall ls ln e l s,
  parse_lines_from no_include src ln ls = TErr e l s ->
  exists good bad rest, ls = good ++ bad :: rest /\ Forall (fun s => line_error s = None) good /\
    line_error bad = Some e /\ (e <> EReadFile -> l = ln + N.of_nat (length good) /\ s = src).
Proof.
  induction ls as [|x ls IH]; intros ln e l s H; cbn [parse_lines_from] in H; [discriminate|].
  destruct (line_error x) as [ex|] eqn:Ex.
  - exists [], x, ls. cbn [app length]. split; [reflexivity|]. split; [constructor|].
    pose proof Ex as Ex'. unfold line_error in Ex.
    destruct (parse_line x) as [t|e'] eqn:Ep.
    + unfold preprocess in H.
      destruct t as [|[cmd|] args|]; try discriminate.
      * destruct (str_eqb cmd s_print); [discriminate|].
        destruct (str_eqb cmd s_include_files).
        -- destruct args; [|discriminate]. unfold no_include in H. inversion H; subst.
           inversion Ex; subst. split; [exact Ex'|]. congruence.
        -- inversion H; subst. inversion Ex; subst. split; [exact Ex'|]. intros _. split; [lia|reflexivity].
      * inversion H; subst. inversion Ex; subst. split; [exact Ex'|]. intros _. split; [lia|reflexivity].
    + inversion H; subst. inversion Ex; subst. split; [exact Ex'|]. intros _. split; [lia|reflexivity].
  - destruct (line_error_none src ln x Ex) as (t & E & Ep). rewrite E, Ep in H.
    destruct (parse_lines_from no_include src (ln + 1) ls) as [|e' l' s'] eqn:Er; [discriminate|].
    inversion H; subst. destruct (IH _ _ _ _ Er) as (good & bad & rest & -> & Hg & Hb & Hl).
    exists (x :: good), bad, rest. cbn [app length]. split; [reflexivity|]. split; [constructor; assumption|].
    split; [assumption|]. intros Hne. destruct (Hl Hne) as [-> ->]. split; [lia|reflexivity].
Qed.
End Loop.

Lemma number_from_length ls : forall ln, length (number_from ln ls) = length ls.
Proof. induction ls; intros; cbn; auto. Qed.

Lemma number_from_nth ls : forall ln k s,
  nth_error ls k = Some s -> nth_error (number_from ln ls) k = Some (ln + N.of_nat k, s).
Proof.
  induction ls as [|x ls IH]; intros ln k s H; destruct k; cbn in *; try discriminate.
  - inversion H; subst. f_equal. f_equal. lia.
  - rewrite (IH (ln + 1) k s H). f_equal. f_equal. lia.
Qed.

Lemma Forall2_nth {A B} (R : A -> B -> Prop) : forall l1 l2 k a,
  Forall2 R l1 l2 -> nth_error l1 k = Some a -> exists b, nth_error l2 k = Some b /\ R a b.
Proof.
  intros l1 l2 k a H. revert k a. induction H; intros [|k] a' Hn; cbn in *; try discriminate.
  - inversion Hn; subst. eauto.
  - eauto.
Qed.

Lemma Forall2_len {A B} (R : A -> B -> Prop) l1 l2 : Forall2 R l1 l2 -> length l1 = length l2.
Proof. induction 1; cbn; congruence. Qed.

Lemma blank_or_comment_empty s : blank_or_comment s = true -> parse_line s = POk IEmpty.
Proof.
  unfold blank_or_comment, parse_line. destruct (trim s) as [|c t]; [reflexivity|]. now intros ->.
Qed.

(* the instruction list of an accepted text: exactly one instruction per line, in order, the k-th
   carrying line number k+1 and being what line k parses to; blank and comment lines are Empty *)
Theorem parse_text_count t is :
  parse_text t = TOk is ->
  length is = length (lines t) /\
  Forall2 (instr_of_line None) (number_from 1 (lines t)) is /\
  (forall k s, nth_error (lines t) k = Some s ->
     exists i, nth_error is k = Some i /\ i_line i = N.of_nat k + 1 /\ i_source i = None /\
               parse_line s = POk (i_type i) /\
               (blank_or_comment s = true -> i_type i = IEmpty)) /\
  no_include_args t = true.
Proof.
  intros H. apply loop_ok in H. destruct H as [H2 Hg].
  split; [|split; [exact H2|split]].
  - apply Forall2_len in H2. rewrite number_from_length in H2. congruence.
  - intros k s Hk. apply (number_from_nth _ 1) in Hk.
    destruct (Forall2_nth _ _ _ _ _ H2 Hk) as (i & Hi & (H1 & Hs & Hp)). cbn [fst snd] in *.
    exists i. repeat split; try assumption; [lia|].
    intros Hb. apply blank_or_comment_empty in Hb. congruence.
  - unfold no_include_args. rewrite forallb_forall. intros s Hs.
    rewrite Forall_forall in Hg. specialize (Hg s Hs).
    destruct (include_args_line s) eqn:E; [|reflexivity].
    unfold include_args_line in E. unfold line_error in Hg.
    destruct (parse_line s) as [[|[cmd|] [args|]|]|]; try discriminate.
    rewrite E in Hg. destruct (str_eqb cmd s_print) eqn:Ep; [|discriminate].
    apply str_eqb_eq in Ep. apply str_eqb_eq in E. subst. discriminate.
Qed.

(* a failing parse fails at the first line that is not acceptable, with that line's error and number *)
Theorem parse_text_first_error t e ln src :
  no_include_args t = true -> parse_text t = TErr e ln src ->
  src = None /\ e <> EReadFile /\ e <> EFuel /\
  exists good bad rest, lines t = good ++ bad :: rest /\
    Forall (fun s => line_error s = None) good /\ line_error bad = Some e /\
    ln = N.of_nat (length good) + 1.
Proof.
  intros Hn H.
  assert (Hf : e <> EFuel) by (intros ->; exact (parse_text_nofuel _ _ _ H)).
  apply loop_err in H. destruct H as (good & bad & rest & El & Hg & Hb & Hl).
  assert (Hne : e <> EReadFile).
  { intros ->. apply line_error_readfile in Hb. unfold no_include_args in Hn.
    rewrite forallb_forall in Hn. specialize (Hn bad). rewrite El in Hn.
    rewrite Hb in Hn. specialize (Hn ltac:(apply in_elt)). discriminate. }
  destruct (Hl Hne) as [-> ->]. split; [reflexivity|]. split; [assumption|]. split; [assumption|].
  exists good, bad, rest. repeat split; try assumption. lia.
Qed.

(* conversely: a text whose first unacceptable line is [bad] is rejected there *)
Theorem parse_text_planted t good bad rest e :
  lines t = good ++ bad :: rest ->
  Forall (fun s => line_error s = None) good -> line_error bad = Some e -> e <> EReadFile ->
  parse_text t = TErr e (N.of_nat (length good) + 1) None.
Proof.
  intros El Hg Hb Hne. unfold parse_text, parse_text_src. rewrite El.
  rewrite (loop_planted None good 1 bad rest e Hg Hb Hne). f_equal. lia.
Qed.

(* every text gets a verdict; an accepted or rejected text is classified by its lines *)
Theorem parse_text_total t :
  (exists is, parse_text t = TOk is) \/ (exists e ln src, parse_text t = TErr e ln src /\ e <> EFuel).
Proof.
  destruct (parse_text t) as [is|e ln src] eqn:E; [left; eauto|right].
  exists e, ln, src. split; [reflexivity|]. intros ->. exact (parse_text_nofuel _ _ _ E).
Qed.
