(* RunnerNested.v — C13 for nested flows.  utils/eval.rs `eval_instructions` (SdkErr.v) never looks
   at the halt flag: when an inner instruction of a script-implemented command / condition
   function / eval raises it, the remaining inner instructions still run, the enclosing top-level
   instruction completes exactly as in the un-halted run, and the run stops (Ok Halted) at the
   next poll of the top-level loop. *)
From stdpp Require Import gmap.
Require Import DS.Base DS.Runner DS.RunnerHalt DS.SdkErr DS.SdkErrProof.
Local Open Scope nat_scope.

Section Nested.
Variable cstate : Type.
Variable exists_cmd : cstate -> str -> bool.
Variable cmd : str -> inv -> world cstate -> result * world cstate.
Variable ext : nat -> bool.

Notation world := (world cstate).
Notation eval := (eval_instructions cstate exists_cmd cmd).
Notation run_instruction := (run_instruction cstate exists_cmd cmd).

Definition with_halt (w : world) (b : bool) : world := World (vars w) (cst w) b.

(* ---- (A) the nested flow is blind to the flag ------------------------------------------- *)
(* if the commands themselves behave alike whether the flag is up or not, the whole nested flow
   does: every inner instruction that would run with the flag down runs with the flag up *)
Section Blind.
Hypothesis Hblind : forall name a w,
  cmd name a (with_halt w true) = (fst (cmd name a w), with_halt (snd (cmd name a w)) true).

Lemma run_instruction_blind w i line :
  run_instruction (with_halt w true) i line =
  RI (ri_res (run_instruction w i line)) (ri_ov (run_instruction w i line))
     (with_halt (ri_w (run_instruction w i line)) true) (ri_calls (run_instruction w i line)).
Proof.
  unfold Runner.run_instruction. destruct (i_type i) as [| |s]; try reflexivity.
  destruct (s_cmd s) as [c|]; [|reflexivity]. cbn [cst with_halt].
  destruct (exists_cmd (cst w) c); [|reflexivity]. rewrite Hblind. reflexivity.
Qed.

Lemma update_output_with_halt (w : world) ov o :
  update_output (with_halt w true) ov o = with_halt (update_output w ov o) true.
Proof. destruct ov as [v|]; [|reflexivity]. destruct o; reflexivity. Qed.

Theorem eval_flag_blind fuel : forall body line w fo calls,
  eval fuel body line (with_halt w true) fo calls =
  match eval fuel body line w fo calls with
  | Some o => Some (EO cstate (eo_result cstate o) (eo_output cstate o) (with_halt (eo_w cstate o) true) (eo_calls cstate o))
  | None => None
  end.
Proof.
  induction fuel as [|fuel IH]; intros body line w fo calls; [reflexivity|]. cbn [eval_instructions].
  destruct (body !! line) as [i|]; [|reflexivity].
  destruct (i_type i) as [| |s] eqn:Et; try apply IH.
  rewrite run_instruction_blind. cbn [ri_res ri_w ri_ov ri_calls].
  destruct (ri_res (run_instruction w i line)) as [o|o [l|n]|e|e|o]; try reflexivity.
  - rewrite update_output_with_halt. apply IH.
  - apply IH.
Qed.
End Blind.

(* ---- (B) a flag raised inside stays up and stops the run at the next top-level poll ------ *)
Hypothesis Hmono : forall name a w, halt w = true -> halt (snd (cmd name a w)) = true.

Lemma update_output_halt (w : world) ov o : halt (update_output w ov o) = halt w.
Proof. destruct ov as [v|]; [|reflexivity]. destruct o; reflexivity. Qed.

Lemma run_instruction_halt_mono w i line : halt w = true -> halt (ri_w (run_instruction w i line)) = true.
Proof.
  intros H. unfold Runner.run_instruction. destruct (i_type i) as [| |s]; auto.
  destruct (s_cmd s) as [c|]; auto. destruct (exists_cmd (cst w) c); auto. cbn. apply Hmono. exact H.
Qed.

Lemma eval_halt_mono fuel : forall body line w fo calls o,
  eval fuel body line w fo calls = Some o -> halt w = true -> halt (eo_w cstate o) = true.
Proof.
  induction fuel as [|fuel IH]; intros body line w fo calls o; [discriminate|]. cbn [eval_instructions].
  destruct (body !! line) as [i|]; [|intros [= <-]; auto].
  destruct (i_type i) as [| |s]; try (apply IH).
  pose proof (run_instruction_halt_mono w i line) as Hm.
  destruct (ri_res (run_instruction w i line)) as [out|out [l|n]|e|e|out]; intros He Hw.
  - eapply IH; [exact He|]. rewrite update_output_halt. auto.
  - injection He as <-. cbn. auto.
  - eapply IH; [exact He|]. auto.
  - injection He as <-. cbn. auto.
  - injection He as <-. cbn. auto.
  - injection He as <-. cbn. auto.
Qed.

(* the evaluation of a body passes through every point its flow reaches *)
Lemma eval_through body l w j wj :
  body_reaches cstate exists_cmd cmd body l w j wj ->
  forall fuel fo calls o, eval fuel body l w fo calls = Some o ->
  exists fuel' fo' calls', eval fuel' body j wj fo' calls' = Some o.
Proof.
  induction 1 as [l w|l w i0 l' w' Hi0 Hns _ IH|l w i0 s0 out l' w' Hi0 Hs0 Hr0 _ IH|l w i0 s0 out n l' w' Hi0 Hs0 Hr0 _ IH];
    intros fuel fo calls o He.
  - eauto.
  - destruct fuel as [|fuel]; [discriminate|]. cbn [eval_instructions] in He. rewrite Hi0 in He.
    destruct (i_type i0) as [| |s1] eqn:Et; [eapply IH; eauto|eapply IH; eauto|exfalso; eapply Hns; eauto].
  - destruct fuel as [|fuel]; [discriminate|]. cbn [eval_instructions] in He. rewrite Hi0, Hs0, Hr0 in He. eapply IH; eauto.
  - destruct fuel as [|fuel]; [discriminate|]. cbn [eval_instructions] in He. rewrite Hi0, Hs0, Hr0 in He. eapply IH; eauto.
Qed.

(* an inner instruction raises the flag: it is up at the end of the nested flow *)
Lemma eval_raised fuel body j wj ij sj fo calls o :
  eval fuel body j wj fo calls = Some o -> body !! j = Some ij -> i_type ij = IScript sj ->
  halt (ri_w (run_instruction wj ij j)) = true -> halt (eo_w cstate o) = true.
Proof.
  destruct fuel as [|fuel]; [discriminate|]. cbn [eval_instructions]. intros He Hi Hs Hh. rewrite Hi, Hs in He.
  destruct (ri_res (run_instruction wj ij j)) as [out|out [l|n]|e|e|out].
  - eapply eval_halt_mono; [exact He|]. rewrite update_output_halt. exact Hh.
  - injection He as <-. exact Hh.
  - eapply eval_halt_mono; [exact He|]. exact Hh.
  - injection He as <-. exact Hh.
  - injection He as <-. exact Hh.
  - injection He as <-. exact Hh.
Qed.

Variable prog : program.
Variable lt : gmap str nat.
Notation config := (config cstate).
Notation exec := (exec cstate exists_cmd cmd prog lt).
Notation loop := (loop cstate exists_cmd cmd ext prog lt).
Notation iter := (iter_nohalt cstate exists_cmd cmd prog lt).
Notation seen := (flag_seen cstate ext).

Lemma run_on_error_halt_mono w msg m : halt w = true -> halt (oe_w (run_on_error cstate exists_cmd cmd w msg m)) = true.
Proof.
  intros H. unfold run_on_error. destruct (exists_cmd (cst w) on_error_name); [|exact H].
  pose proof (run_instruction_halt_mono w (on_error_instr msg m) 0 H) as Hm.
  destruct (ri_res _); cbn; auto. rewrite update_output_halt. exact Hm.
Qed.

(* the top-level instruction completes with the flag up *)
Lemma exec_keeps_flag (c c' : config) i :
  prog !! pc c = Some i -> halt (ri_w (run_instruction (wd c) i (pc c))) = true ->
  exec c = inl c' -> halt (wd c') = true.
Proof.
  intros Hi Hh. unfold Runner.exec. rewrite Hi.
  destruct (ri_res _) as [o|o [l|n]|e|e|o].
  - intros [= <-]. cbn. rewrite update_output_halt. exact Hh.
  - destruct (lt !! l); [|discriminate]. intros [= <-]. cbn. rewrite update_output_halt. exact Hh.
  - intros [= <-]. cbn. rewrite update_output_halt. exact Hh.
  - destruct (oe_err _) eqn:E; [discriminate|]. intros [= <-]. cbn.
    apply run_on_error_halt_mono. rewrite update_output_halt. exact Hh.
  - discriminate.
  - destruct (exit_code o); discriminate.
Qed.

(* ... and the run stops at the next poll, with the configuration of the un-halted execution of
   that one instruction *)
Theorem halt_after_instruction (c c' : config) i fuel :
  seen c = false -> prog !! pc c = Some i -> halt (ri_w (run_instruction (wd c) i (pc c))) = true ->
  exec c = inl c' -> 2 <= fuel ->
  iter 1 c = Some c' /\ loop fuel c = Done (FOk Halted (wd c')) (trace c').
Proof.
  intros Hs Hi Hh He Hf.
  assert (H1 : iter 1 c = Some c') by (cbn; rewrite He; reflexivity).
  split; [exact H1|].
  eapply (halt_prefix cstate exists_cmd cmd ext prog lt c 1 c' fuel H1).
  - intros [|j] cj Hj; [intros [= <-]; exact Hs|lia].
  - unfold flag_seen. rewrite (exec_keeps_flag c c' i Hi Hh He). reflexivity.
  - lia.
Qed.

(* the nested case: the command of the top-level instruction is a script-implemented command
   (wrapper of types/command.rs over eval_instructions) one of whose inner instructions raises
   the flag *)
Variable prepare : list str -> world -> world.
Variable cleanup : world -> world -> world.
Variable leaked : world -> world -> bool.
Hypothesis cleanup_halt : forall w0 w1, halt (cleanup w0 w1) = halt w1.

Theorem halt_nested (c c' : config) i s name fuel_body amount body r w' calls j wj ij sj fuel :
  seen c = false -> prog !! pc c = Some i -> i_type i = IScript s -> s_cmd s = Some name ->
  exists_cmd (cst (wd c)) name = true ->
  (* the command's answer is the wrapper's *)
  cmd name (Inv (s_args s) (s_out s) (pc c)) (wd c) = (r, w') ->
  alias_run cstate exists_cmd cmd prepare cleanup leaked fuel_body amount body (Inv (s_args s) (s_out s) (pc c)) (wd c) = Some (r, w', calls) ->
  amount <= length (s_args s) ->
  (* the body's flow reaches inner instruction j, whose command raises the flag *)
  body_reaches cstate exists_cmd cmd body 0 (prepare (s_args s) (wd c)) j wj ->
  body !! j = Some ij -> i_type ij = IScript sj -> halt (ri_w (run_instruction wj ij j)) = true ->
  (* the top-level instruction is not the last word of the run *)
  exec c = inl c' -> 2 <= fuel ->
  halt w' = true /\ iter 1 c = Some c' /\ loop fuel c = Done (FOk Halted (wd c')) (trace c').
Proof.
  intros Hs Hi Ht Hc Hex Hcmd Hal Hlen Hreach Hij Hsj Hraise He Hf.
  assert (Hw' : halt w' = true).
  { unfold alias_run in Hal. cbn [a_args] in Hal.
    destruct (Nat.ltb_spec (length (s_args s)) amount); [lia|].
    destruct (eval fuel_body body 0 (prepare (s_args s) (wd c)) None []) as [o|] eqn:Ee; [|discriminate].
    destruct (eval_through _ _ _ _ _ Hreach _ _ _ _ Ee) as (f' & fo' & calls' & Ej).
    pose proof (eval_raised _ _ _ _ _ _ _ _ _ Ej Hij Hsj Hraise) as Hh.
    destruct (leaked (wd c) (cleanup (wd c) (eo_w cstate o))); injection Hal as _ <- _; rewrite cleanup_halt; exact Hh. }
  split; [exact Hw'|].
  eapply halt_after_instruction; eauto.
  unfold Runner.run_instruction. rewrite Ht, Hc, Hex, Hcmd. exact Hw'.
Qed.

End Nested.
