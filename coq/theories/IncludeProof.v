(* IncludeProof.v — proofs about Include.v (C14). *)
Require Import DS.Base DS.Parser DS.Include.

(* ------------------------------------------------------------------------------------------ *)
(* lines: directive / line_err / line_res *)

Lemma directive_parse s args :
  directive s = Some args -> parse_line s = POk (IPre (Some s_include_files) (Some args)).
Proof.
  unfold directive. destruct (parse_line s) as [[|c a|lb o c a]|e]; try discriminate.
  destruct c as [c|]; try discriminate. destruct a as [a|]; try discriminate.
  destruct (str_eqb_spec c s_include_files) as [->|]; try discriminate.
  now intros [= <-].
Qed.

Lemma directive_res s args :
  directive s = Some args -> line_res s = POk (IPre (Some s_include_files) (Some args)).
Proof.
  intros D. pose proof (directive_parse _ _ D) as E. unfold line_res, line_err. now rewrite E.
Qed.

Lemma line_res_err_directive s e : line_res s = PErr e -> directive s = None.
Proof.
  destruct (directive s) eqn:D; [|reflexivity]. rewrite (directive_res _ _ D). discriminate.
Qed.

Lemma comment_res : line_res comment_line = POk IEmpty.
Proof. reflexivity. Qed.
Lemma comment_directive : directive comment_line = None.
Proof. reflexivity. Qed.

(* preprocessor::run in terms of the two line classifiers *)
Lemma preprocess_spec inc src ln s t :
  parse_line s = POk t ->
  preprocess inc src ln t =
  match line_err s with
  | Some e => TErr e ln src
  | None => match directive s with Some args => inc args src | None => TOk [] end
  end.
Proof.
  intros E. unfold line_err, directive. rewrite E.
  destruct t as [|c a|lb o c a]; cbn; try reflexivity.
  destruct c as [c|]; cbn; [|reflexivity].
  destruct (str_eqb_spec c s_print) as [->|Np]; cbn.
  - destruct a; reflexivity.
  - destruct (str_eqb c s_include_files); cbn; [|reflexivity]. destruct a; reflexivity.
Qed.

(* one step of parse_lines, in terms of the classifiers *)
Lemma parse_lines_step inc src ln s ls :
  parse_lines_from inc src ln (s :: ls) =
  match line_res s with
  | PErr e => TErr e ln src
  | POk t =>
    match (match directive s with Some args => inc args src | None => TOk [] end) with
    | TErr e l s' => TErr e l s'
    | TOk added =>
      match parse_lines_from inc src (ln + 1) ls with
      | TErr e l s' => TErr e l s'
      | TOk rest => TOk ({| i_line := ln; i_source := src; i_type := t |} :: added ++ rest)
      end
    end
  end.
Proof.
  cbn [parse_lines_from]. unfold line_res.
  destruct (parse_line s) as [t|e] eqn:E.
  - rewrite (preprocess_spec inc src ln s t E).
    destruct (line_err s) eqn:Le; reflexivity.
  - assert (Le : line_err s = Some e) by (unfold line_err; now rewrite E).
    rewrite Le. reflexivity.
Qed.

(* ------------------------------------------------------------------------------------------ *)
(* parse_x over concatenations *)

Definition tapp (a b : tres) : tres :=
  match a with
  | TErr e l s => TErr e l s
  | TOk x => match b with TErr e l s => TErr e l s | TOk y => TOk (x ++ y) end
  end.

Lemma parse_x_app a b : parse_x (a ++ b) = tapp (parse_x a) (parse_x b).
Proof.
  induction a as [|x a IH]; cbn [app parse_x].
  - destruct (parse_x b); reflexivity.
  - destruct x as [t|q|q]; try reflexivity.
    destruct (line_res (t_text t)); [|reflexivity].
    rewrite IH. destruct (parse_x a), (parse_x b); reflexivity.
Qed.


(* ------------------------------------------------------------------------------------------ *)
(* pasting: the tagged parse and the parse of the pasted lines agree up to positions *)

Lemma paste_tagged tl : forall ln,
  erase (parse_tagged tl) = erase (parse_lines_from no_include None ln (map pasted tl)).
Proof.
  unfold parse_tagged.
  induction tl as [|t tl IH]; intros ln; [reflexivity|].
  cbn [map]. rewrite parse_lines_step. cbn [parse_x].
  specialize (IH (ln + 1)).
  unfold pasted at 1 2. destruct (directive (t_text t)) as [args|] eqn:D.
  - rewrite comment_res, comment_directive, (directive_res _ _ D).
    destruct (parse_x (map XLine tl)), (parse_lines_from no_include None (ln + 1) (map pasted tl));
      cbn in *; try discriminate; congruence.
  - rewrite D. destruct (line_res (t_text t)) as [ty|e]; [|reflexivity].
    destruct (parse_x (map XLine tl)), (parse_lines_from no_include None (ln + 1) (map pasted tl));
      cbn in *; try discriminate; congruence.
Qed.

(* ------------------------------------------------------------------------------------------ *)
(* from line lists to text: str::lines of the re-joined lines *)

Definition no_lf (l : str) : Prop := ~ In c_lf l.
Definition chomp (l : str) : str := strip_cr (rev l).

Lemma lines_aux_line l : no_lf l -> forall s cur,
  lines_aux (l ++ c_lf :: s) cur = strip_cr (rev l ++ cur) :: lines_aux s [].
Proof.
  induction l as [|c l IH]; intros Hl s cur.
  - cbn. reflexivity.
  - cbn [app lines_aux]. destruct (N.eqb_spec c c_lf) as [->|Hc].
    + exfalso. apply Hl. now left.
    + rewrite IH by (intros Hin; apply Hl; now right).
      cbn [rev]. now rewrite <- app_assoc.
Qed.

Lemma lines_unlines ls : Forall no_lf ls -> lines (unlines ls) = map chomp ls.
Proof.
  unfold lines. induction 1 as [|l ls Hl _ IH]; [reflexivity|].
  cbn [unlines map]. rewrite lines_aux_line by assumption. rewrite app_nil_r. now rewrite IH.
Qed.

Lemma drop_ws_snoc l c : is_ws c = true ->
  drop_ws (l ++ [c]) = match drop_ws l with [] => [] | x => x ++ [c] end.
Proof.
  intros Hc. induction l as [|a l IH]; cbn [app drop_ws].
  - now rewrite Hc.
  - destruct (is_ws a); [exact IH|reflexivity].
Qed.

Lemma trim_snoc_ws l c : is_ws c = true -> trim (l ++ [c]) = trim l.
Proof.
  intros Hc. unfold trim, trim_start. rewrite (drop_ws_snoc l c Hc).
  destruct (drop_ws l) as [|x d]; [reflexivity|].
  unfold trim_end. rewrite rev_unit. cbn [drop_ws]. now rewrite Hc.
Qed.

Lemma trim_chomp l : trim (chomp l) = trim l.
Proof.
  unfold chomp, strip_cr. destruct (rev l) as [|c r] eqn:E.
  - apply (f_equal (@rev _)) in E. rewrite rev_involutive in E. now subst.
  - apply (f_equal (@rev _)) in E. rewrite rev_involutive in E. cbn [rev] in E. subst l.
    destruct (N.eqb_spec c c_cr) as [->|_].
    + symmetry. apply trim_snoc_ws. reflexivity.
    + cbn [rev]. reflexivity.
Qed.

Lemma parse_line_chomp l : parse_line (chomp l) = parse_line l.
Proof. unfold parse_line. now rewrite trim_chomp. Qed.

Lemma parse_lines_map_chomp inc src ls : forall ln,
  parse_lines_from inc src ln (map chomp ls) = parse_lines_from inc src ln ls.
Proof.
  induction ls as [|s ls IH]; intros ln; [reflexivity|].
  cbn [map parse_lines_from]. rewrite parse_line_chomp, IH. reflexivity.
Qed.

Lemma strip_cr_in x cur : In x (strip_cr cur) -> In x cur.
Proof.
  unfold strip_cr. destruct cur as [|c r]; [tauto|].
  destruct (c =? c_cr); rewrite <- in_rev; intros H; [now right|exact H].
Qed.

Lemma lines_aux_no_lf s : forall cur, no_lf cur -> Forall no_lf (lines_aux s cur).
Proof.
  induction s as [|c s IH]; intros cur Hc; cbn [lines_aux].
  - destruct cur; constructor; [|constructor]. intros H. apply Hc. now apply in_rev.
  - destruct (N.eqb_spec c c_lf) as [->|Hne].
    + constructor; [|apply IH; intros []]. intros H. apply Hc. now apply strip_cr_in.
    + apply IH. intros [H|H]; [now apply Hne|now apply Hc].
Qed.

Lemma lines_no_lf s : Forall no_lf (lines s).
Proof. apply lines_aux_no_lf. intros []. Qed.

Lemma parse_text_unlines ls :
  Forall no_lf ls -> parse_text (unlines ls) = parse_lines_from no_include None 1 ls.
Proof.
  intros H. unfold parse_text, parse_text_src. rewrite lines_unlines by assumption.
  apply parse_lines_map_chomp.
Qed.


(* ------------------------------------------------------------------------------------------ *)
(* reading parse_x results back *)

Lemma all_lines_map xl tl : all_lines xl = Some tl -> xl = map XLine tl.
Proof.
  revert tl; induction xl as [|x xl IH]; intros tl; cbn.
  - now intros [= <-].
  - destruct x as [t|q|q]; try discriminate.
    destruct (all_lines xl) as [tl'|]; try discriminate. intros [= <-]. cbn. now rewrite (IH tl').
Qed.

Lemma all_lines_of_map tl : all_lines (map XLine tl) = Some tl.
Proof. induction tl as [|t tl IH]; cbn; [reflexivity|now rewrite IH]. Qed.

Definition ok_pair (x : xline) (i : instr) : Prop :=
  exists t, x = XLine t /\ line_res (t_text t) = POk (i_type i) /\ origin i = torigin t.

Lemma parse_x_ok xl : forall is, parse_x xl = TOk is -> Forall2 ok_pair xl is.
Proof.
  induction xl as [|x xl IH]; intros is; cbn [parse_x].
  - intros [= <-]. constructor.
  - destruct x as [t|q|q]; try discriminate.
    destruct (line_res (t_text t)) as [ty|e] eqn:E; try discriminate.
    destruct (parse_x xl) as [is'|]; try discriminate. intros [= <-].
    constructor; [|now apply IH]. exists t. repeat split; assumption.
Qed.

Definition err_at (e : perr) (l : N) (s : option str) (x : xline) : Prop :=
  match x with
  | XLine t => line_res (t_text t) = PErr e /\ l = t_ln t /\ s = Some (t_src t)
  | XMissing q => e = EReadFile /\ l = 0 /\ s = Some q
  | XFuel q => e = EFuel /\ l = 0 /\ s = Some q
  end.

Lemma parse_x_err xl e l s : parse_x xl = TErr e l s -> exists x, In x xl /\ err_at e l s x.
Proof.
  induction xl as [|x xl IH]; cbn [parse_x]; [discriminate|].
  destruct x as [t|q|q].
  - destruct (line_res (t_text t)) as [ty|e'] eqn:E.
    + destruct (parse_x xl) as [is'|e' l' s']; try discriminate. intros [= -> -> ->].
      destruct IH as (x & Hin & Hx); [reflexivity|]. exists x. split; [now right|assumption].
    + intros [= -> <- <-]. exists (XLine t). split; [now left|]. cbn. auto.
  - intros [= <- <- <-]. exists (XMissing q). split; [now left|]. cbn. auto.
  - intros [= <- <- <-]. exists (XFuel q). split; [now left|]. cbn. auto.
Qed.

Lemma Forall2_Forall_r {A B} (R : A -> B -> Prop) (P : A -> Prop) (Q : B -> Prop) :
  (forall a b, R a b -> P a -> Q b) -> forall la lb, Forall2 R la lb -> Forall P la -> Forall Q lb.
Proof.
  intros H la lb F2. induction F2 as [|a b la lb Hab _ IH]; intros Fa; constructor.
  - inversion Fa; subst. eapply H; eassumption.
  - apply IH. now inversion Fa.
Qed.

Section Proofs.
Variable fs : path -> option str.
Variable resolve : option path -> str -> path.
Local Notation parse_file := (parse_file fs resolve).
Local Notation inline_x := (inline_x fs resolve).
Local Notation inline_t := (inline_t fs resolve).
Local Notation include_path := (include_path resolve).
Local Notation inc_list := (inc_list resolve).
Local Notation inx_args := (inx_args resolve).
Local Notation inx_from := (inx_from resolve).
Local Notation includes := (includes fs resolve).
Local Notation reach := (reach fs resolve).
Local Notation within := (within fs resolve).
Local Notation line_at := (line_at fs).

(* ------------------------------------------------------------------------------------------ *)
(* the master lemma: parsing a file is parsing its pasting, line by line with origins *)

Lemma inc_list_x pf rec (H : forall q, pf q = parse_x (rec q)) src args :
  inc_list pf (Some src) args = parse_x (inx_args rec src args).
Proof.
  induction args as [|a r IH]; cbn [Include.inc_list Include.inx_args]; [reflexivity|].
  rewrite parse_x_app, H, IH.
  destruct (parse_x (rec _)); [|reflexivity]. cbn [tapp].
  destruct (parse_x (inx_args rec src r)); reflexivity.
Qed.

Lemma lines_x pf rec (H : forall q, pf q = parse_x (rec q)) src ls : forall ln,
  parse_lines_from (fun args s => inc_list pf s args) (Some src) ln ls =
  parse_x (inx_from rec src ln ls).
Proof.
  induction ls as [|s ls IH]; intros ln; [reflexivity|].
  rewrite parse_lines_step. cbn [Include.inx_from parse_x t_text t_src t_ln].
  destruct (line_res s) as [t|e]; [|reflexivity].
  rewrite parse_x_app, <- IH.
  destruct (directive s) as [args|].
  - rewrite (inc_list_x pf rec H).
    destruct (parse_x (inx_args rec src args)); [|reflexivity]. cbn [tapp].
    destruct (parse_lines_from _ _ _ ls); reflexivity.
  - cbn [parse_x tapp]. destruct (parse_lines_from _ _ _ ls); reflexivity.
Qed.

Theorem parse_file_x f : forall p, parse_file f p = parse_x (inline_x f p).
Proof.
  induction f as [|f IH]; intros p; cbn [Include.parse_file Include.inline_x]; [reflexivity|].
  destruct (fs p) as [text|]; [|reflexivity].
  unfold parse_text_src. apply lines_x. exact IH.
Qed.


(* ------------------------------------------------------------------------------------------ *)
(* the include graph *)

Lemma reach_snoc a b c : reach a b -> includes b c -> reach a c.
Proof.
  induction 1 as [p|p q r Hpq _ IH]; intros Hc.
  - eapply reach_step; [exact Hc|apply reach_refl].
  - eapply reach_step; [exact Hpq|now apply IH].
Qed.

Lemma Forall_inx_args (Q : xline -> Prop) rec src args :
  (forall a, In a args -> Forall Q (rec (include_path (Some src) a))) ->
  Forall Q (inx_args rec src args).
Proof.
  induction args as [|a r IH]; intros H; cbn [Include.inx_args]; [constructor|].
  apply Forall_app. split; [apply H; now left|]. apply IH. intros b Hb. apply H. now right.
Qed.

(* induction principle for inline_x: [P f p] is what is known on entering file p with fuel f,
   [Q] what is to be shown of every item of the pasting *)
Lemma inline_x_Forall (P : nat -> path -> Prop) (Q : xline -> Prop) :
  (forall f p q, P (S f) p -> includes p q -> P f q) ->
  (forall p, P 0%nat p -> Q (XFuel p)) ->
  (forall f p, P (S f) p -> fs p = None -> Q (XMissing p)) ->
  (forall f p ln s, P (S f) p -> line_at p ln s -> Q (XLine {| t_src := p; t_ln := ln; t_text := s |})) ->
  forall f p, P f p -> Forall Q (inline_x f p).
Proof.
  intros Hstep Hfuel Hmiss Hline.
  induction f as [|f IH]; intros p Hp; cbn [Include.inline_x].
  - constructor; [now apply Hfuel|constructor].
  - destruct (fs p) as [text|] eqn:Efs.
    2:{ constructor; [now apply (Hmiss f)|constructor]. }
    assert (G : forall ls pre ln, lines text = pre ++ ls -> ln = N.of_nat (length pre) + 1 ->
                Forall Q (inx_from (inline_x f) p ln ls)).
    { induction ls as [|s ls IHl]; intros pre ln Hl Hn; cbn [Include.inx_from]; [constructor|].
      constructor; [|apply Forall_app; split].
      - apply (Hline f); [assumption|]. exists text. split; [assumption|]. split; [lia|].
        replace (N.to_nat (ln - 1)) with (length pre) by lia.
        rewrite Hl, nth_error_app2, Nat.sub_diag by lia. reflexivity.
      - destruct (directive s) as [args|] eqn:D; [|constructor].
        apply Forall_inx_args. intros a Ha. apply IH. apply (Hstep f p); [assumption|].
        exists text, s, args, a. repeat split; try assumption.
        rewrite Hl. apply in_or_app. right. now left.
      - apply (IHl (pre ++ [s])).
        + now rewrite <- app_assoc.
        + rewrite app_length. cbn [length]. lia. }
    apply (G (lines text) []); reflexivity.
Qed.

(* every item of the pasting is what it says it is *)
Definition valid_x (root : path) (x : xline) : Prop :=
  match x with
  | XLine t => reach root (t_src t) /\ line_at (t_src t) (t_ln t) (t_text t)
  | XMissing q => reach root q /\ fs q = None
  | XFuel q => reach root q
  end.

Lemma inline_x_valid root f p : reach root p -> Forall (valid_x root) (inline_x f p).
Proof.
  apply (inline_x_Forall (fun _ q => reach root q) (valid_x root)); cbn; auto.
  intros _ a b Ha Hab. eapply reach_snoc; eassumption.
Qed.

Lemma within_no_fuel f p : within f p -> Forall (fun x => forall q, x <> XFuel q) (inline_x f p).
Proof.
  apply (inline_x_Forall within (fun x => forall q, x <> XFuel q)); try discriminate.
  - intros f' a b Ha Hab. inversion Ha; subst. auto.
  - intros a Ha. inversion Ha.
Qed.

Lemma inline_t_exists f p :
  within f p -> (forall q, reach p q -> fs q <> None) -> exists tl, inline_t f p = Some tl.
Proof.
  intros W R.
  assert (F : Forall (fun x => exists t, x = XLine t) (inline_x f p)).
  { apply (inline_x_Forall (fun f q => within f q /\ forall r, reach q r -> fs r <> None)
                           (fun x => exists t, x = XLine t)).
    - intros f' a b [Wa Ra] Hab. split; [inversion Wa; subst; auto|].
      intros r Hr. apply Ra. eapply reach_step; eassumption.
    - intros a [Wa _]. inversion Wa.
    - intros f' a [_ Ra] E. exfalso. apply (Ra a); [apply reach_refl|assumption].
    - intros. eexists. reflexivity.
    - split; assumption. }
  unfold Include.inline_t. induction F as [|x xl [t ->] _ [tl IH]]; cbn.
  - now exists [].
  - rewrite IH. now eexists.
Qed.

(* ------------------------------------------------------------------------------------------ *)
(* provenance *)

Definition prov (root : path) (i : instr) : Prop :=
  exists q line, i_source i = Some q /\ reach root q /\ line_at q (i_line i) line /\
    line_res line = POk (i_type i).

Lemma parse_file_prov f p is : parse_file f p = TOk is -> Forall (prov p) is.
Proof.
  rewrite parse_file_x. intros H. apply parse_x_ok in H.
  eapply Forall2_Forall_r; [|exact H|apply (inline_x_valid p f p), reach_refl].
  intros x i (t & -> & Hres & Ho) [Hr Hl]. unfold origin, torigin in Ho.
  injection Ho as Hs Hn. exists (t_src t), (t_text t). rewrite Hn. auto.
Qed.

Lemma parse_file_ok_inline f p is :
  parse_file f p = TOk is ->
  exists tl, inline_t f p = Some tl /\ map origin is = map torigin tl /\
    Forall2 (fun t i => line_res (t_text t) = POk (i_type i)) tl is.
Proof.
  rewrite parse_file_x. intros H. apply parse_x_ok in H. unfold Include.inline_t.
  induction H as [|x i xl is (t & -> & Hres & Ho) _ (tl & E & Hm & F)]; cbn.
  - exists []. repeat split. constructor.
  - rewrite E. exists (t :: tl). cbn. rewrite Ho, Hm. repeat split. now constructor.
Qed.

Lemma inline_t_origins f p tl is :
  inline_t f p = Some tl -> parse_file f p = TOk is -> map origin is = map torigin tl.
Proof.
  intros E H. destruct (parse_file_ok_inline _ _ _ H) as (tl' & E' & Hm & _). congruence.
Qed.

(* ------------------------------------------------------------------------------------------ *)
(* failures *)

Lemma parse_file_err f p e l s :
  parse_file f p = TErr e l s ->
  exists q, s = Some q /\ reach p q /\
    ((e = EReadFile /\ l = 0 /\ fs q = None) \/
     (e = EFuel /\ l = 0 /\ ~ within f p) \/
     (exists line, line_at q l line /\ line_res line = PErr e)).
Proof.
  rewrite parse_file_x. intros H. destruct (parse_x_err _ _ _ _ H) as (x & Hin & Hx).
  pose proof (inline_x_valid p f p (reach_refl _ _ _)) as V.
  rewrite Forall_forall in V. specialize (V x Hin).
  destruct x as [t|q|q]; cbn in Hx, V.
  - destruct Hx as (Hres & -> & ->). destruct V as [Hr Hl].
    exists (t_src t). repeat split; try assumption. right. right. now exists (t_text t).
  - destruct Hx as (-> & -> & ->). destruct V as [Hr Hn]. exists q. repeat split; auto.
  - destruct Hx as (-> & -> & ->). exists q. repeat split; try assumption. right. left.
    repeat split. intros W. apply within_no_fuel in W. rewrite Forall_forall in W.
    exact (W _ Hin q eq_refl).
Qed.

(* completeness: an accepted parse has visited every file reachable through directives *)
Definition okx (x : xline) : Prop := exists t ty, x = XLine t /\ line_res (t_text t) = POk ty.

Lemma inx_args_incl rec src args a x :
  In a args -> In x (rec (include_path (Some src) a)) -> In x (inx_args rec src args).
Proof.
  induction args as [|b r IH]; cbn [Include.inx_args]; [tauto|].
  intros [->|Ha] Hx; apply in_or_app; [now left|right; now apply IH].
Qed.

Lemma inx_from_incl rec src line args a x ls : forall ln,
  In line ls -> directive line = Some args -> In a args ->
  In x (rec (include_path (Some src) a)) -> In x (inx_from rec src ln ls).
Proof.
  induction ls as [|s ls IH]; intros ln Hl D Ha Hx; cbn [Include.inx_from]; [destruct Hl|].
  right. apply in_or_app. destruct Hl as [->|Hl].
  - left. rewrite D. eapply inx_args_incl; eassumption.
  - right. now apply IH.
Qed.

Lemma inx_from_line rec src line ls : forall k ln,
  nth_error ls k = Some line ->
  In (XLine {| t_src := src; t_ln := ln + N.of_nat k; t_text := line |}) (inx_from rec src ln ls).
Proof.
  induction ls as [|s ls IH]; intros k ln; [destruct k; discriminate|].
  cbn [Include.inx_from]. destruct k as [|k]; cbn [nth_error].
  - intros [= ->]. left. now rewrite N.add_0_r.
  - intros H. right. apply in_or_app. right.
    replace (ln + N.of_nat (S k)) with (ln + 1 + N.of_nat k) by lia. now apply IH.
Qed.

Lemma okx_reach p q : reach p q -> forall f, Forall okx (inline_x f p) -> exists f', Forall okx (inline_x f' q).
Proof.
  induction 1 as [p|p q r Hpq _ IH]; intros f F; [now exists f|].
  destruct Hpq as (text & line & args & a & Efs & Hl & D & Ha & ->).
  destruct f as [|f]; cbn [Include.inline_x] in F.
  { inversion F as [|x xl (t & ty & Hx & _)]; discriminate. }
  rewrite Efs in F. apply (IH f). rewrite Forall_forall in *. intros x Hx. apply F.
  eapply inx_from_incl; eassumption.
Qed.

Lemma parse_file_ok_complete f p is :
  parse_file f p = TOk is ->
  forall q, reach p q ->
    fs q <> None /\ forall n line, line_at q n line -> exists ty, line_res line = POk ty.
Proof.
  rewrite parse_file_x. intros H q Hq.
  assert (F : Forall okx (inline_x f p)).
  { apply parse_x_ok in H. clear Hq. induction H as [|x i xl is (t & -> & Hres & _) _ IH]; constructor.
    - exists t, (i_type i). auto.
    - exact IH. }
  destruct (okx_reach _ _ Hq _ F) as (f' & F'). clear F H.
  destruct f' as [|f']; cbn [Include.inline_x] in F'.
  { inversion F' as [|x xl (t & ty & Hx & _)]; discriminate. }
  destruct (fs q) as [text|] eqn:Efs.
  2:{ inversion F' as [|x xl (t & ty & Hx & _)]; discriminate. }
  split; [discriminate|]. intros n line (text' & Et & Hn & Hnth).
  rewrite Efs in Et. injection Et as <-.
  rewrite Forall_forall in F'.
  destruct (F' _ (inx_from_line (inline_x f') q line (lines text) _ 1 Hnth)) as (t & ty & [= <-] & Hres).
  now exists ty.
Qed.

Lemma parse_file_fail_complete f p q :
  reach p q ->
  (fs q = None \/ exists n line e, line_at q n line /\ line_res line = PErr e) ->
  exists e l s, parse_file f p = TErr e l s.
Proof.
  intros Hq Hbad. destruct (parse_file f p) as [is|e l s] eqn:E; [|now exists e, l, s].
  exfalso. destruct (parse_file_ok_complete _ _ _ E q Hq) as [Hfs Hlines].
  destruct Hbad as [Hn|(n & line & e & Hl & Hres)]; [contradiction|].
  destruct (Hlines n line Hl) as (ty & Hty). congruence.
Qed.

(* ------------------------------------------------------------------------------------------ *)
(* fuel is a proof device: any fuel above the depth of the tree gives the same result *)

Lemma inx_args_ext rec1 rec2 src args :
  (forall a, In a args -> rec1 (include_path (Some src) a) = rec2 (include_path (Some src) a)) ->
  inx_args rec1 src args = inx_args rec2 src args.
Proof.
  induction args as [|a r IH]; intros H; cbn [Include.inx_args]; [reflexivity|].
  rewrite H by now left. rewrite IH; [reflexivity|]. intros b Hb. apply H. now right.
Qed.

Lemma inx_from_ext rec1 rec2 src ls : forall ln,
  (forall line args a, In line ls -> directive line = Some args -> In a args ->
     rec1 (include_path (Some src) a) = rec2 (include_path (Some src) a)) ->
  inx_from rec1 src ln ls = inx_from rec2 src ln ls.
Proof.
  induction ls as [|s ls IH]; intros ln H; cbn [Include.inx_from]; [reflexivity|].
  f_equal. f_equal.
  - destruct (directive s) as [args|] eqn:D; [|reflexivity].
    apply inx_args_ext. intros a Ha. apply (H s args a); auto. now left.
  - apply IH. intros line args a Hl. apply H. now right.
Qed.

Lemma inline_x_fuel f : forall p k, within f p -> inline_x (f + k) p = inline_x f p.
Proof.
  induction f as [|f IH]; intros p k W; [inversion W|].
  inversion W as [f0 p0 Hq]; subst. cbn [Nat.add Include.inline_x].
  destruct (fs p) as [text|] eqn:Efs; [|reflexivity].
  apply inx_from_ext. intros line args a Hl D Ha. apply IH. apply Hq.
  exists text, line, args, a. auto.
Qed.

Lemma parse_file_fuel f p k : within f p -> parse_file (f + k) p = parse_file f p.
Proof. intros W. rewrite !parse_file_x. now rewrite inline_x_fuel. Qed.

(* ------------------------------------------------------------------------------------------ *)
(* pasting, at the level of texts *)

Lemma inline_x_no_lf f p :
  Forall (fun x => match x with XLine t => no_lf (t_text t) | _ => True end) (inline_x f p).
Proof.
  apply (inline_x_Forall (fun _ _ => True)); auto.
  intros _ q ln s _ (text & _ & _ & Hn). cbn.
  pose proof (lines_no_lf text) as F. rewrite Forall_forall in F. apply F.
  eapply nth_error_In; eassumption.
Qed.

Lemma pasted_no_lf t : no_lf (t_text t) -> no_lf (pasted t).
Proof.
  unfold pasted. destruct (directive (t_text t)); [|auto].
  intros _ [H|[]]. discriminate.
Qed.

Theorem paste f p tl :
  inline_t f p = Some tl ->
  erase (parse_file f p) = erase (parse_text (unlines (map pasted tl))).
Proof.
  intros E. unfold Include.inline_t in E. pose proof (inline_x_no_lf f p) as F.
  apply all_lines_map in E. rewrite parse_file_x, E in *.
  rewrite parse_text_unlines.
  - apply (paste_tagged tl 1).
  - clear E. induction tl as [|t tl IH]; cbn [map]; [constructor|].
    inversion F; subst. constructor; [now apply pasted_no_lf|now apply IH].
Qed.

Theorem paste_lines f p tl :
  inline_t f p = Some tl ->
  erase (parse_file f p) = erase (parse_lines_from no_include None 1 (map pasted tl)).
Proof.
  intros E. apply all_lines_map in E. rewrite parse_file_x, E. apply (paste_tagged tl 1).
Qed.

End Proofs.
