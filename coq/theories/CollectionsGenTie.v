(* CollectionsGenTie.v — the handle helpers mutate_list / mutate_map / mutate_set of duckscript_sdk/src/utils/state.rs and the
   `run` functions of the native collection commands (duckscript_sdk/src/sdk/std/collections/*/mod.rs): the hand model
   Collections.v (C12) is EQUAL, for all inputs, to the mechanical translation of the CURRENT Rust source
   (coq/generated/GenCollectionsFn.v, rewritten on every run by lib/rs2v.py, class FnColl, through
   lib/gen/collections_gen.py).

     gen_mutate_<kind>_eq     gen_mutate_<kind> key st handler = mutate_<kind> key st handler
                              for every key, handle table and closure (a Coq function; None = the closure panicked)
     gen_mutate_<kind>_wrong_kind
                              the translation, on a key that holds a value of ANOTHER kind — each of the twelve arms the source
                              spells out, the ten non-collection arms through [other_arm] — answers the "invalid handle" error
                              and leaves the handle table exactly as it was (the value is put back under the same key): the
                              property's "leaves every collection unchanged", about the source
     gen_cmd_<name>_eq        gen_cmd_<name> rnd ord args s = cmd_<name> [rnd] [ord] args s
                              for every argument vector, every state and both oracles
     gen_cmd_<name>_done      hence (CollectionsProof.refines_step) the translation computes exactly what the specification
                              says, and never yields Panic / Fuel: every `context.arguments[i]`, `&context.arguments[1..]`,
                              `list[index]`, `list[index] = v`, `list.remove(index)` of the source is an explicit Panic arm of
                              the translation, shown dead for all inputs

   `release`: the translation of its `run` calls the MODEL's release_recursive where the source calls
   remove_handle_recursive (that function is not translated); everything else of the command — the argument tests, the
   `-r` / `--recursive` flag, which argument is the key, the plain branch (remove_handle inlined), the result text — is the source.

   Every theorem is stated under its own flag [gen_.._understood = true]: when the translator does not understand a function
   any more the generated file holds [false] and a stub for it and the theorem holds vacuously (the check reports that tie
   as inactive).  Every proof must also compile against the stub: the first sentence then closes the goal by
   [discriminate], so every later sentence is prefixed with [all:] and no bullets / braces are used.  No proof mentions a
   generated variable name or the position of a test in a decision tree: after a case analysis of the argument vector that
   decides every argument-count test, [tie_tree] splits on whatever tests the two sides contain, innermost scrutinee
   first, and closes the leaves by [reflexivity] (after [delete_notin] where the source leaves a map alone on which the
   model deletes an absent key). *)
From stdpp Require Import gmap list.
From Coq Require Import NArith ZArith Lia.
Require Import DS.Collections DS.CollectionsSpec DS.CollectionsProof DS.Rs2vCollLib.
Require Import DSG.GenCollectionsFn.

(* the hand models' auxiliary definitions, opened *)
Ltac tie_open :=
  unfold cmd_array, cmd_range, cmd_array_push, cmd_array_pop, cmd_array_get, cmd_array_set, cmd_array_remove,
         cmd_array_clear, cmd_array_length, cmd_map, cmd_map_put, cmd_map_get, cmd_map_remove, cmd_map_size, cmd_map_keys,
         cmd_map_clear, cmd_set_new, cmd_set_put, cmd_set_remove, cmd_set_contains, cmd_set_size, cmd_set_clear,
         cmd_set_to_array, cmd_is_array, cmd_is_map, cmd_is_set, cmd_release, s_dash_r, s_recursive,
         put_handle, mutate_list, mutate_map, mutate_set, finish, as_is, always_true, cres_of, with_hs, len_gt, vec_index,
         dec_nat.

Ltac tie_simpl :=
  cbn [length nth_error skipn Nat.ltb Nat.leb Nat.eqb negb andb orb fst snd hs draws stale fmap option_fmap option_map elem_str];
  cbn beta iota zeta.

Lemma parse_usize_range s n : parse_usize s = Some n -> (n <= usize_max)%N.
Proof.
  unfold parse_usize, usize_max. destruct (digits _) as [m|]; [|discriminate].
  destruct (N.ltb_spec m 18446744073709551616); [|discriminate]. intros [= <-]. lia.
Qed.

(* boolean facts about numbers as propositions (only needed when the source computes with indices) *)
Ltac tie_props :=
  repeat match goal with
         | H : parse_usize _ = Some _ |- _ => apply parse_usize_range in H
         | H : usize_add _ _ = Some _ |- _ => unfold usize_add in H
         | H : usize_add _ _ = None |- _ => unfold usize_add in H
         | H : usize_sub _ _ = Some _ |- _ => unfold usize_sub in H
         | H : usize_sub _ _ = None |- _ => unfold usize_sub in H
         | H : (if ?c then Some _ else None) = Some _ |- _ => destruct c eqn:?; [injection H as H|discriminate H]
         | H : (if ?c then Some _ else None) = None |- _ => destruct c eqn:?; [discriminate H|clear H]
         | H : (_ <? _)%N = true |- _ => apply N.ltb_lt in H
         | H : (_ <? _)%N = false |- _ => apply N.ltb_ge in H
         | H : (_ <=? _)%N = true |- _ => apply N.leb_le in H
         | H : (_ <=? _)%N = false |- _ => apply N.leb_gt in H
         | H : (_ =? _)%N = true |- _ => apply N.eqb_eq in H
         | H : (_ =? _)%N = false |- _ => apply N.eqb_neq in H
         end;
  unfold usize_max in *.

Ltac tie_leaf :=
  first [ reflexivity
        | repeat match goal with
                 | H : ?m !! ?k = None |- context [delete ?k ?m] => rewrite (delete_notin m k H)
                 | H : ?m !! ?k = Some ?v |- context [<[?k := ?v]> (delete ?k ?m)] => rewrite (insert_delete m k v H)
                 end; reflexivity
        | congruence
        | exfalso; tie_props; subst; lia ].

(* split on every test of either side, innermost scrutinee first (a scrutinee that mentions a variable bound by an
   enclosing match or closure is simply not offered by [context]) *)
Ltac tie_tree :=
  repeat (tie_simpl;
          match goal with
          | |- context [match ?x with _ => _ end] =>
              lazymatch x with
              | context [match _ with _ => _ end] => fail
              | _ => destruct x eqn:?
              end
          end);
  tie_simpl; tie_leaf.

Ltac tie_args args :=
  destruct args as [|?a [|?a [|?a ?rest]]]; tie_simpl.

(* ---- mutate_list / mutate_map / mutate_set ------------------------------------------------------------------------------- *)
Theorem gen_mutate_list_eq : gen_mutate_list_understood = true ->
  forall key st handler, gen_mutate_list key st handler = mutate_list key st handler.
Proof.
  unfold gen_mutate_list_understood; intros U; try discriminate U; clear U.
  all: intros key st handler; unfold gen_mutate_list, mutate_list; tie_tree.
Qed.

Theorem gen_mutate_map_eq : gen_mutate_map_understood = true ->
  forall key st handler, gen_mutate_map key st handler = mutate_map key st handler.
Proof.
  unfold gen_mutate_map_understood; intros U; try discriminate U; clear U.
  all: intros key st handler; unfold gen_mutate_map, mutate_map; tie_tree.
Qed.

Theorem gen_mutate_set_eq : gen_mutate_set_understood = true ->
  forall key st handler, gen_mutate_set key st handler = mutate_set key st handler.
Proof.
  unfold gen_mutate_set_understood; intros U; try discriminate U; clear U.
  all: intros key st handler; unfold gen_mutate_set, mutate_set; tie_tree.
Qed.

(* the callee of a command is the model's helper (its own tie, when the command calls it) *)
Ltac tie_callees :=
  try rewrite (gen_mutate_list_eq eq_refl); try rewrite (gen_mutate_map_eq eq_refl); try rewrite (gen_mutate_set_eq eq_refl).


(* a key that holds a value of another kind: "invalid handle", and the handle table is exactly what it was *)
Theorem gen_mutate_list_wrong_kind : gen_mutate_list_understood = true ->
  forall key st handler v, st !! key = Some v -> (forall l, v <> HList l) ->
  gen_mutate_list key st handler = Done (RErr EKind, st).
Proof.
  intros U key st handler v E NL. rewrite (gen_mutate_list_eq U). unfold mutate_list. rewrite E.
  destruct v; try (exfalso; eapply NL; reflexivity); now rewrite (insert_delete _ _ _ E).
Qed.
Theorem gen_mutate_map_wrong_kind : gen_mutate_map_understood = true ->
  forall key st handler v, st !! key = Some v -> (forall m, v <> HMap m) ->
  gen_mutate_map key st handler = Done (RErr EKind, st).
Proof.
  intros U key st handler v E NL. rewrite (gen_mutate_map_eq U). unfold mutate_map. rewrite E.
  destruct v; try (exfalso; eapply NL; reflexivity); now rewrite (insert_delete _ _ _ E).
Qed.
Theorem gen_mutate_set_wrong_kind : gen_mutate_set_understood = true ->
  forall key st handler v, st !! key = Some v -> (forall x, v <> HSet x) ->
  gen_mutate_set key st handler = Done (RErr EKind, st).
Proof.
  intros U key st handler v E NL. rewrite (gen_mutate_set_eq U). unfold mutate_set. rewrite E.
  destruct v; try (exfalso; eapply NL; reflexivity); now rewrite (insert_delete _ _ _ E).
Qed.

(* [tie_tree] for a command: a callee becomes the model's helper as soon as it is no longer under a binder *)
Ltac tie_tree_cmd :=
  repeat (tie_simpl; tie_callees; tie_open;
          match goal with
          | |- context [match ?x with _ => _ end] =>
              lazymatch x with
              | context [match _ with _ => _ end] => fail
              | _ => destruct x eqn:?
              end
          end);
  tie_simpl; tie_leaf.

Ltac tie_cmd :=
  let rnd := fresh "rnd" in let ord := fresh "ord" in let args := fresh "args" in let s := fresh "s" in
  intros rnd ord args s; tie_args args; tie_open; tie_tree_cmd.

(* ---- the commands -------------------------------------------------------------------------------------------------------- *)
Theorem gen_cmd_array_eq : gen_cmd_array_understood = true ->
  forall rnd ord args s, gen_cmd_array rnd ord args s = cmd_array rnd args s.
Proof.
  unfold gen_cmd_array_understood; intros U; try discriminate U; clear U.
  all: unfold gen_cmd_array; tie_cmd.
Qed.
Theorem gen_cmd_array_done : gen_cmd_array_understood = true ->
  forall rnd ord args s, gen_cmd_array rnd ord args s = Done (step_s rnd ord CArray args s).
Proof.
  intros U rnd ord args s. rewrite (gen_cmd_array_eq U).
  exact (f_equal (fun o => match o with Some r => r | None => Fuel end) (refines_step rnd ord CArray args s eq_refl)).
Qed.

Theorem gen_cmd_range_eq : gen_cmd_range_understood = true ->
  forall rnd ord args s, gen_cmd_range rnd ord args s = cmd_range rnd args s.
Proof.
  unfold gen_cmd_range_understood; intros U; try discriminate U; clear U.
  all: unfold gen_cmd_range; tie_cmd.
Qed.
Theorem gen_cmd_range_done : gen_cmd_range_understood = true ->
  forall rnd ord args s, gen_cmd_range rnd ord args s = Done (step_s rnd ord CRange args s).
Proof.
  intros U rnd ord args s. rewrite (gen_cmd_range_eq U).
  exact (f_equal (fun o => match o with Some r => r | None => Fuel end) (refines_step rnd ord CRange args s eq_refl)).
Qed.

Theorem gen_cmd_array_push_eq : gen_cmd_array_push_understood = true ->
  forall rnd ord args s, gen_cmd_array_push rnd ord args s = cmd_array_push args s.
Proof.
  unfold gen_cmd_array_push_understood; intros U; try discriminate U; clear U.
  all: unfold gen_cmd_array_push; tie_cmd.
Qed.
Theorem gen_cmd_array_push_done : gen_cmd_array_push_understood = true ->
  forall rnd ord args s, gen_cmd_array_push rnd ord args s = Done (step_s rnd ord CArrayPush args s).
Proof.
  intros U rnd ord args s. rewrite (gen_cmd_array_push_eq U).
  exact (f_equal (fun o => match o with Some r => r | None => Fuel end) (refines_step rnd ord CArrayPush args s eq_refl)).
Qed.

Theorem gen_cmd_array_pop_eq : gen_cmd_array_pop_understood = true ->
  forall rnd ord args s, gen_cmd_array_pop rnd ord args s = cmd_array_pop args s.
Proof.
  unfold gen_cmd_array_pop_understood; intros U; try discriminate U; clear U.
  all: unfold gen_cmd_array_pop; tie_cmd.
Qed.
Theorem gen_cmd_array_pop_done : gen_cmd_array_pop_understood = true ->
  forall rnd ord args s, gen_cmd_array_pop rnd ord args s = Done (step_s rnd ord CArrayPop args s).
Proof.
  intros U rnd ord args s. rewrite (gen_cmd_array_pop_eq U).
  exact (f_equal (fun o => match o with Some r => r | None => Fuel end) (refines_step rnd ord CArrayPop args s eq_refl)).
Qed.

Theorem gen_cmd_array_get_eq : gen_cmd_array_get_understood = true ->
  forall rnd ord args s, gen_cmd_array_get rnd ord args s = cmd_array_get args s.
Proof.
  unfold gen_cmd_array_get_understood; intros U; try discriminate U; clear U.
  all: unfold gen_cmd_array_get; tie_cmd.
Qed.
Theorem gen_cmd_array_get_done : gen_cmd_array_get_understood = true ->
  forall rnd ord args s, gen_cmd_array_get rnd ord args s = Done (step_s rnd ord CArrayGet args s).
Proof.
  intros U rnd ord args s. rewrite (gen_cmd_array_get_eq U).
  exact (f_equal (fun o => match o with Some r => r | None => Fuel end) (refines_step rnd ord CArrayGet args s eq_refl)).
Qed.

Theorem gen_cmd_array_set_eq : gen_cmd_array_set_understood = true ->
  forall rnd ord args s, gen_cmd_array_set rnd ord args s = cmd_array_set args s.
Proof.
  unfold gen_cmd_array_set_understood; intros U; try discriminate U; clear U.
  all: unfold gen_cmd_array_set; tie_cmd.
Qed.
Theorem gen_cmd_array_set_done : gen_cmd_array_set_understood = true ->
  forall rnd ord args s, gen_cmd_array_set rnd ord args s = Done (step_s rnd ord CArraySet args s).
Proof.
  intros U rnd ord args s. rewrite (gen_cmd_array_set_eq U).
  exact (f_equal (fun o => match o with Some r => r | None => Fuel end) (refines_step rnd ord CArraySet args s eq_refl)).
Qed.

Theorem gen_cmd_array_remove_eq : gen_cmd_array_remove_understood = true ->
  forall rnd ord args s, gen_cmd_array_remove rnd ord args s = cmd_array_remove args s.
Proof.
  unfold gen_cmd_array_remove_understood; intros U; try discriminate U; clear U.
  all: unfold gen_cmd_array_remove; tie_cmd.
Qed.
Theorem gen_cmd_array_remove_done : gen_cmd_array_remove_understood = true ->
  forall rnd ord args s, gen_cmd_array_remove rnd ord args s = Done (step_s rnd ord CArrayRemove args s).
Proof.
  intros U rnd ord args s. rewrite (gen_cmd_array_remove_eq U).
  exact (f_equal (fun o => match o with Some r => r | None => Fuel end) (refines_step rnd ord CArrayRemove args s eq_refl)).
Qed.

Theorem gen_cmd_array_clear_eq : gen_cmd_array_clear_understood = true ->
  forall rnd ord args s, gen_cmd_array_clear rnd ord args s = cmd_array_clear args s.
Proof.
  unfold gen_cmd_array_clear_understood; intros U; try discriminate U; clear U.
  all: unfold gen_cmd_array_clear; tie_cmd.
Qed.
Theorem gen_cmd_array_clear_done : gen_cmd_array_clear_understood = true ->
  forall rnd ord args s, gen_cmd_array_clear rnd ord args s = Done (step_s rnd ord CArrayClear args s).
Proof.
  intros U rnd ord args s. rewrite (gen_cmd_array_clear_eq U).
  exact (f_equal (fun o => match o with Some r => r | None => Fuel end) (refines_step rnd ord CArrayClear args s eq_refl)).
Qed.

Theorem gen_cmd_array_length_eq : gen_cmd_array_length_understood = true ->
  forall rnd ord args s, gen_cmd_array_length rnd ord args s = cmd_array_length args s.
Proof.
  unfold gen_cmd_array_length_understood; intros U; try discriminate U; clear U.
  all: unfold gen_cmd_array_length; tie_cmd.
Qed.
Theorem gen_cmd_array_length_done : gen_cmd_array_length_understood = true ->
  forall rnd ord args s, gen_cmd_array_length rnd ord args s = Done (step_s rnd ord CArrayLength args s).
Proof.
  intros U rnd ord args s. rewrite (gen_cmd_array_length_eq U).
  exact (f_equal (fun o => match o with Some r => r | None => Fuel end) (refines_step rnd ord CArrayLength args s eq_refl)).
Qed.

Theorem gen_cmd_map_eq : gen_cmd_map_understood = true ->
  forall rnd ord args s, gen_cmd_map rnd ord args s = cmd_map rnd args s.
Proof.
  unfold gen_cmd_map_understood; intros U; try discriminate U; clear U.
  all: unfold gen_cmd_map; tie_cmd.
Qed.
Theorem gen_cmd_map_done : gen_cmd_map_understood = true ->
  forall rnd ord args s, gen_cmd_map rnd ord args s = Done (step_s rnd ord CMap args s).
Proof.
  intros U rnd ord args s. rewrite (gen_cmd_map_eq U).
  exact (f_equal (fun o => match o with Some r => r | None => Fuel end) (refines_step rnd ord CMap args s eq_refl)).
Qed.

Theorem gen_cmd_map_put_eq : gen_cmd_map_put_understood = true ->
  forall rnd ord args s, gen_cmd_map_put rnd ord args s = cmd_map_put args s.
Proof.
  unfold gen_cmd_map_put_understood; intros U; try discriminate U; clear U.
  all: unfold gen_cmd_map_put; tie_cmd.
Qed.
Theorem gen_cmd_map_put_done : gen_cmd_map_put_understood = true ->
  forall rnd ord args s, gen_cmd_map_put rnd ord args s = Done (step_s rnd ord CMapPut args s).
Proof.
  intros U rnd ord args s. rewrite (gen_cmd_map_put_eq U).
  exact (f_equal (fun o => match o with Some r => r | None => Fuel end) (refines_step rnd ord CMapPut args s eq_refl)).
Qed.

Theorem gen_cmd_map_get_eq : gen_cmd_map_get_understood = true ->
  forall rnd ord args s, gen_cmd_map_get rnd ord args s = cmd_map_get args s.
Proof.
  unfold gen_cmd_map_get_understood; intros U; try discriminate U; clear U.
  all: unfold gen_cmd_map_get; tie_cmd.
Qed.
Theorem gen_cmd_map_get_done : gen_cmd_map_get_understood = true ->
  forall rnd ord args s, gen_cmd_map_get rnd ord args s = Done (step_s rnd ord CMapGet args s).
Proof.
  intros U rnd ord args s. rewrite (gen_cmd_map_get_eq U).
  exact (f_equal (fun o => match o with Some r => r | None => Fuel end) (refines_step rnd ord CMapGet args s eq_refl)).
Qed.

Theorem gen_cmd_map_remove_eq : gen_cmd_map_remove_understood = true ->
  forall rnd ord args s, gen_cmd_map_remove rnd ord args s = cmd_map_remove args s.
Proof.
  unfold gen_cmd_map_remove_understood; intros U; try discriminate U; clear U.
  all: unfold gen_cmd_map_remove; tie_cmd.
Qed.
Theorem gen_cmd_map_remove_done : gen_cmd_map_remove_understood = true ->
  forall rnd ord args s, gen_cmd_map_remove rnd ord args s = Done (step_s rnd ord CMapRemove args s).
Proof.
  intros U rnd ord args s. rewrite (gen_cmd_map_remove_eq U).
  exact (f_equal (fun o => match o with Some r => r | None => Fuel end) (refines_step rnd ord CMapRemove args s eq_refl)).
Qed.

Theorem gen_cmd_map_size_eq : gen_cmd_map_size_understood = true ->
  forall rnd ord args s, gen_cmd_map_size rnd ord args s = cmd_map_size args s.
Proof.
  unfold gen_cmd_map_size_understood; intros U; try discriminate U; clear U.
  all: unfold gen_cmd_map_size; tie_cmd.
Qed.
Theorem gen_cmd_map_size_done : gen_cmd_map_size_understood = true ->
  forall rnd ord args s, gen_cmd_map_size rnd ord args s = Done (step_s rnd ord CMapSize args s).
Proof.
  intros U rnd ord args s. rewrite (gen_cmd_map_size_eq U).
  exact (f_equal (fun o => match o with Some r => r | None => Fuel end) (refines_step rnd ord CMapSize args s eq_refl)).
Qed.

Theorem gen_cmd_map_keys_eq : gen_cmd_map_keys_understood = true ->
  forall rnd ord args s, gen_cmd_map_keys rnd ord args s = cmd_map_keys rnd ord args s.
Proof.
  unfold gen_cmd_map_keys_understood; intros U; try discriminate U; clear U.
  all: unfold gen_cmd_map_keys; tie_cmd.
Qed.
Theorem gen_cmd_map_keys_done : gen_cmd_map_keys_understood = true ->
  forall rnd ord args s, gen_cmd_map_keys rnd ord args s = Done (step_s rnd ord CMapKeys args s).
Proof.
  intros U rnd ord args s. rewrite (gen_cmd_map_keys_eq U).
  exact (f_equal (fun o => match o with Some r => r | None => Fuel end) (refines_step rnd ord CMapKeys args s eq_refl)).
Qed.

Theorem gen_cmd_map_clear_eq : gen_cmd_map_clear_understood = true ->
  forall rnd ord args s, gen_cmd_map_clear rnd ord args s = cmd_map_clear args s.
Proof.
  unfold gen_cmd_map_clear_understood; intros U; try discriminate U; clear U.
  all: unfold gen_cmd_map_clear; tie_cmd.
Qed.
Theorem gen_cmd_map_clear_done : gen_cmd_map_clear_understood = true ->
  forall rnd ord args s, gen_cmd_map_clear rnd ord args s = Done (step_s rnd ord CMapClear args s).
Proof.
  intros U rnd ord args s. rewrite (gen_cmd_map_clear_eq U).
  exact (f_equal (fun o => match o with Some r => r | None => Fuel end) (refines_step rnd ord CMapClear args s eq_refl)).
Qed.

Theorem gen_cmd_set_new_eq : gen_cmd_set_new_understood = true ->
  forall rnd ord args s, gen_cmd_set_new rnd ord args s = cmd_set_new rnd args s.
Proof.
  unfold gen_cmd_set_new_understood; intros U; try discriminate U; clear U.
  all: unfold gen_cmd_set_new; tie_cmd.
Qed.
Theorem gen_cmd_set_new_done : gen_cmd_set_new_understood = true ->
  forall rnd ord args s, gen_cmd_set_new rnd ord args s = Done (step_s rnd ord CSetNew args s).
Proof.
  intros U rnd ord args s. rewrite (gen_cmd_set_new_eq U).
  exact (f_equal (fun o => match o with Some r => r | None => Fuel end) (refines_step rnd ord CSetNew args s eq_refl)).
Qed.

Theorem gen_cmd_set_put_eq : gen_cmd_set_put_understood = true ->
  forall rnd ord args s, gen_cmd_set_put rnd ord args s = cmd_set_put args s.
Proof.
  unfold gen_cmd_set_put_understood; intros U; try discriminate U; clear U.
  all: unfold gen_cmd_set_put; tie_cmd.
Qed.
Theorem gen_cmd_set_put_done : gen_cmd_set_put_understood = true ->
  forall rnd ord args s, gen_cmd_set_put rnd ord args s = Done (step_s rnd ord CSetPut args s).
Proof.
  intros U rnd ord args s. rewrite (gen_cmd_set_put_eq U).
  exact (f_equal (fun o => match o with Some r => r | None => Fuel end) (refines_step rnd ord CSetPut args s eq_refl)).
Qed.

Theorem gen_cmd_set_remove_eq : gen_cmd_set_remove_understood = true ->
  forall rnd ord args s, gen_cmd_set_remove rnd ord args s = cmd_set_remove args s.
Proof.
  unfold gen_cmd_set_remove_understood; intros U; try discriminate U; clear U.
  all: unfold gen_cmd_set_remove; tie_cmd.
Qed.
Theorem gen_cmd_set_remove_done : gen_cmd_set_remove_understood = true ->
  forall rnd ord args s, gen_cmd_set_remove rnd ord args s = Done (step_s rnd ord CSetRemove args s).
Proof.
  intros U rnd ord args s. rewrite (gen_cmd_set_remove_eq U).
  exact (f_equal (fun o => match o with Some r => r | None => Fuel end) (refines_step rnd ord CSetRemove args s eq_refl)).
Qed.

Theorem gen_cmd_set_contains_eq : gen_cmd_set_contains_understood = true ->
  forall rnd ord args s, gen_cmd_set_contains rnd ord args s = cmd_set_contains args s.
Proof.
  unfold gen_cmd_set_contains_understood; intros U; try discriminate U; clear U.
  all: unfold gen_cmd_set_contains; tie_cmd.
Qed.
Theorem gen_cmd_set_contains_done : gen_cmd_set_contains_understood = true ->
  forall rnd ord args s, gen_cmd_set_contains rnd ord args s = Done (step_s rnd ord CSetContains args s).
Proof.
  intros U rnd ord args s. rewrite (gen_cmd_set_contains_eq U).
  exact (f_equal (fun o => match o with Some r => r | None => Fuel end) (refines_step rnd ord CSetContains args s eq_refl)).
Qed.

Theorem gen_cmd_set_size_eq : gen_cmd_set_size_understood = true ->
  forall rnd ord args s, gen_cmd_set_size rnd ord args s = cmd_set_size args s.
Proof.
  unfold gen_cmd_set_size_understood; intros U; try discriminate U; clear U.
  all: unfold gen_cmd_set_size; tie_cmd.
Qed.
Theorem gen_cmd_set_size_done : gen_cmd_set_size_understood = true ->
  forall rnd ord args s, gen_cmd_set_size rnd ord args s = Done (step_s rnd ord CSetSize args s).
Proof.
  intros U rnd ord args s. rewrite (gen_cmd_set_size_eq U).
  exact (f_equal (fun o => match o with Some r => r | None => Fuel end) (refines_step rnd ord CSetSize args s eq_refl)).
Qed.

Theorem gen_cmd_set_clear_eq : gen_cmd_set_clear_understood = true ->
  forall rnd ord args s, gen_cmd_set_clear rnd ord args s = cmd_set_clear args s.
Proof.
  unfold gen_cmd_set_clear_understood; intros U; try discriminate U; clear U.
  all: unfold gen_cmd_set_clear; tie_cmd.
Qed.
Theorem gen_cmd_set_clear_done : gen_cmd_set_clear_understood = true ->
  forall rnd ord args s, gen_cmd_set_clear rnd ord args s = Done (step_s rnd ord CSetClear args s).
Proof.
  intros U rnd ord args s. rewrite (gen_cmd_set_clear_eq U).
  exact (f_equal (fun o => match o with Some r => r | None => Fuel end) (refines_step rnd ord CSetClear args s eq_refl)).
Qed.

Theorem gen_cmd_set_to_array_eq : gen_cmd_set_to_array_understood = true ->
  forall rnd ord args s, gen_cmd_set_to_array rnd ord args s = cmd_set_to_array rnd ord args s.
Proof.
  unfold gen_cmd_set_to_array_understood; intros U; try discriminate U; clear U.
  all: unfold gen_cmd_set_to_array; tie_cmd.
Qed.
Theorem gen_cmd_set_to_array_done : gen_cmd_set_to_array_understood = true ->
  forall rnd ord args s, gen_cmd_set_to_array rnd ord args s = Done (step_s rnd ord CSetToArray args s).
Proof.
  intros U rnd ord args s. rewrite (gen_cmd_set_to_array_eq U).
  exact (f_equal (fun o => match o with Some r => r | None => Fuel end) (refines_step rnd ord CSetToArray args s eq_refl)).
Qed.

Theorem gen_cmd_is_array_eq : gen_cmd_is_array_understood = true ->
  forall rnd ord args s, gen_cmd_is_array rnd ord args s = cmd_is_array args s.
Proof.
  unfold gen_cmd_is_array_understood; intros U; try discriminate U; clear U.
  all: unfold gen_cmd_is_array; tie_cmd.
Qed.
Theorem gen_cmd_is_array_done : gen_cmd_is_array_understood = true ->
  forall rnd ord args s, gen_cmd_is_array rnd ord args s = Done (step_s rnd ord CIsArray args s).
Proof.
  intros U rnd ord args s. rewrite (gen_cmd_is_array_eq U).
  exact (f_equal (fun o => match o with Some r => r | None => Fuel end) (refines_step rnd ord CIsArray args s eq_refl)).
Qed.

Theorem gen_cmd_is_map_eq : gen_cmd_is_map_understood = true ->
  forall rnd ord args s, gen_cmd_is_map rnd ord args s = cmd_is_map args s.
Proof.
  unfold gen_cmd_is_map_understood; intros U; try discriminate U; clear U.
  all: unfold gen_cmd_is_map; tie_cmd.
Qed.
Theorem gen_cmd_is_map_done : gen_cmd_is_map_understood = true ->
  forall rnd ord args s, gen_cmd_is_map rnd ord args s = Done (step_s rnd ord CIsMap args s).
Proof.
  intros U rnd ord args s. rewrite (gen_cmd_is_map_eq U).
  exact (f_equal (fun o => match o with Some r => r | None => Fuel end) (refines_step rnd ord CIsMap args s eq_refl)).
Qed.

Theorem gen_cmd_is_set_eq : gen_cmd_is_set_understood = true ->
  forall rnd ord args s, gen_cmd_is_set rnd ord args s = cmd_is_set args s.
Proof.
  unfold gen_cmd_is_set_understood; intros U; try discriminate U; clear U.
  all: unfold gen_cmd_is_set; tie_cmd.
Qed.
Theorem gen_cmd_is_set_done : gen_cmd_is_set_understood = true ->
  forall rnd ord args s, gen_cmd_is_set rnd ord args s = Done (step_s rnd ord CIsSet args s).
Proof.
  intros U rnd ord args s. rewrite (gen_cmd_is_set_eq U).
  exact (f_equal (fun o => match o with Some r => r | None => Fuel end) (refines_step rnd ord CIsSet args s eq_refl)).
Qed.

Theorem gen_cmd_release_eq : gen_cmd_release_understood = true ->
  forall rnd ord args s, gen_cmd_release rnd ord args s = cmd_release args s.
Proof.
  unfold gen_cmd_release_understood; intros U; try discriminate U; clear U.
  all: unfold gen_cmd_release; tie_cmd.
Qed.
Theorem gen_cmd_release_done : gen_cmd_release_understood = true ->
  forall rnd ord args s, gen_cmd_release rnd ord args s = Done (step_s rnd ord CRelease args s).
Proof.
  intros U rnd ord args s. rewrite (gen_cmd_release_eq U).
  exact (f_equal (fun o => match o with Some r => r | None => Fuel end) (refines_step rnd ord CRelease args s eq_refl)).
Qed.
