(* Scope.v — Rust-shaped model M of the variable commands and the scope stack (std++ gmap style).
   DEFINITIONS ONLY (specification S: ScopeSpec.v, proofs: ScopeProof.v).

   duckscript_sdk/src/utils/scope.rs            push / pop               m_push / m_pop
   duckscript_sdk/src/types/scope.rs            clear (prefix retain)    m_cmd (CClearScope)
   duckscript_sdk/src/sdk/std/var/*/mod.rs      set, set_by_name, get_by_name, is_defined,
                                                get_all_var_names, unset_all_vars
   duckscript_sdk/src/sdk/std/var/unset         script.ds run by types/command.rs AliasCommand
   duckscript/src/runner.rs                     update_output

   State: the variables (HashMap<String,String>) and the "scope_stack" list of saved maps kept in
   Context.state; the HEAD of [stack] is the map pushed last (Rust: Vec::push / Vec::pop at the end).
   Hash-map iteration (`for (key, value) in map`) is modelled by iterating [map_to_list]; the
   loops only insert distinct keys, so the result does not depend on the order (proved). *)
From stdpp Require Import gmap list sorting.
From Coq Require Import NArith.
Require Import DS.Registry.   (* name, name_le, key_le *)

Definition value := list N.
Notation vmap := (gmap name value).

(* str::starts_with *)
Fixpoint starts_with (p s : name) : bool :=
  match p, s with
  | [], _ => true
  | _ :: _, [] => false
  | a :: p', b :: s' => (a =? b)%N && starts_with p' s'
  end.

Definition lit_true : value := [116; 114; 117; 101]%N.
Definition lit_false : value := [102; 97; 108; 115; 101]%N.
Definition colons : name := [58; 58]%N.
(* "scope::unset" — AliasCommand.scope_name of the unset command *)
Definition unset_scope : name := [115; 99; 111; 112; 101; 58; 58; 117; 110; 115; 101; 116]%N.
Definition unset_prefix : name := unset_scope ++ colons.                         (* "scope::unset::" *)
Definition args_key : name := unset_prefix ++ [97; 114; 103; 117; 109; 101; 110; 116; 115]%N.   (* ...arguments *)
Definition loop_key : name := unset_prefix ++ [110; 97; 109; 101]%N.                            (* ...name *)
(* decimal rendering of the argument index *)
Fixpoint dec_aux (fuel : nat) (n : N) (acc : name) : name :=
  match fuel with
  | O => acc
  | S f => let acc' := (48 + n mod 10)%N :: acc in
           if (n / 10 =? 0)%N then acc' else dec_aux f (n / 10)%N acc'
  end.
Definition dec (n : N) : name := dec_aux (S (N.to_nat n)) n [].
Definition arg_key (i : nat) : name :=
  unset_prefix ++ [97; 114; 103; 117; 109; 101; 110; 116; 58; 58]%N ++ dec (N.of_nat i).     (* ...argument::<i> *)

Record mstate := MS { vars : vmap; stack : list vmap }.
Definition ms_init : mstate := MS ∅ [].

Inductive outcome :=
| OVal (v : value)         (* Continue(Some v) *)
| ONone                    (* Continue(None) *)
| OErr                     (* CommandResult::Error *)
| ONames (l : list name)   (* get_all_var_names: the contents of the array behind the handle, sorted *)
| OCrash.                  (* CommandResult::Crash (AliasCommand's "Memory leak detected") *)

(* `for key in copy { if let Some(value) = variables.get(key) { new_variables.insert(key, value) } }` *)
Definition collect (vs : vmap) (copy : list name) : vmap :=
  foldl (fun nv key => match vs !! key with Some v => <[key := v]> nv | None => nv end) ∅ copy.
(* `for (key, value) in src { dst.insert(key, value) }` *)
Definition insert_all (src dst : vmap) : vmap :=
  foldl (fun m kv => <[kv.1 := kv.2]> m) dst (map_to_list src).

(* scope::push *)
Definition m_push (s : mstate) (copy : list name) : mstate :=
  let st' := vars s :: stack s in                (* list.push(variables.clone()) *)
  let nv := collect (vars s) copy in
  MS (insert_all nv ∅) st'.                      (* variables.clear(); re-insert *)

(* scope::pop *)
Definition m_pop (s : mstate) (copy : list name) : outcome * mstate :=
  match stack s with
  | [] => (OErr, s)                              (* "Reached end of scope stack." *)
  | old :: rest =>
      let nv := collect (vars s) copy in
      (OVal lit_true, MS (insert_all nv (insert_all old ∅)) rest)
  end.

(* AliasCommand::run for `unset` with its script
       for scope::unset::name in ${scope::unset::arguments}
           set_by_name ${scope::unset::name}
       end                                                                                   *)
Fixpoint put_args (i : nat) (ns : list name) (m : vmap) : vmap :=
  match ns with
  | [] => m
  | a :: r => put_args (S i) r (<[arg_key i := a]> m)
  end.
Definition m_unset (vs : vmap) (ns : list name) (h : value) : outcome * vmap :=
  let v1 := match ns with [] => vs | _ => <[args_key := h]> (put_args 1 ns vs) end in
  let v2 := foldl (fun m a => delete a (<[loop_key := a]> m)) v1 ns in
  let v3 := filter (fun kv => starts_with unset_prefix kv.1 = false) v2 in     (* clear(scope_name) *)
  if (size vs <? size v3)%nat then (OCrash, vs) else (ONone, v3).

Inductive cmd :=
| CSet (v : value)                          (* set <v>            (single-value form) *)
| CUnset (ns : list name) (h : value)       (* unset n1 n2 ...    h: the handle of the argument array *)
| CSetByName (n : name) (v : option value)  (* set_by_name n [v] *)
| CGetByName (n : name)
| CIsDefined (n : name)
| CUnsetAllVars (p : option name)           (* unset_all_vars [--prefix p] *)
| CClearScope (n : name)
| CPush (copy : option (list name))         (* scope_push_stack [--copy names...] *)
| CPop (copy : option (list name)).         (* scope_pop_stack [--copy names...] *)

Inductive op :=
| Op (out : option name) (c : cmd)          (* [out =] command *)
| OpNames.                                  (* get_all_var_names, its handle not stored in a variable *)

Definition copy_list (c : option (list name)) : list name :=
  match c with Some l => l | None => [] end.

Definition m_cmd (s : mstate) (c : cmd) : outcome * mstate :=
  match c with
  | CSet v => (OVal v, s)
  | CUnset ns h => let '(o, vs) := m_unset (vars s) ns h in (o, MS vs (stack s))
  | CSetByName n (Some v) => (OVal v, MS (<[n := v]> (vars s)) (stack s))
  | CSetByName n None => (ONone, MS (delete n (vars s)) (stack s))
  | CGetByName n => (match vars s !! n with Some v => OVal v | None => ONone end, s)
  | CIsDefined n => (OVal (match vars s !! n with Some _ => lit_true | None => lit_false end), s)
  | CUnsetAllVars None => (ONone, MS ∅ (stack s))
  | CUnsetAllVars (Some p) =>
      (ONone, MS (filter (fun kv => starts_with p kv.1 = false) (vars s)) (stack s))
  | CClearScope n =>
      (ONone, MS (filter (fun kv => starts_with (n ++ colons) kv.1 = false) (vars s)) (stack s))
  | CPush c => (OVal lit_true, m_push s (copy_list c))
  | CPop c => m_pop s (copy_list c)
  end.

(* runner::update_output, and Some("false") for the Error arm of run_instructions *)
Definition update_output (out : option name) (o : outcome) (vs : vmap) : vmap :=
  match out with
  | None => vs
  | Some x =>
      match o with
      | OVal v => <[x := v]> vs
      | ONone => delete x vs
      | OErr => <[x := lit_false]> vs
      | ONames _ | OCrash => vs
      end
  end.

Definition var_names (vs : vmap) : list name := merge_sort name_le ((map_to_list vs).*1).

Definition m_step (s : mstate) (o : op) : outcome * mstate :=
  match o with
  | Op out c => let '(r, s') := m_cmd s c in (r, MS (update_output out r (vars s')) (stack s'))
  | OpNames => (ONames (var_names (vars s)), s)
  end.

(* a history: the observation after every step is the command's outcome and the variables *)
Fixpoint m_run (s : mstate) (ops : list op) : list (outcome * vmap) * mstate :=
  match ops with
  | [] => ([], s)
  | o :: ops' =>
      let '(r, s1) := m_step s o in
      let '(obs, s2) := m_run s1 ops' in ((r, vars s1) :: obs, s2)
  end.

Definition vars_dump (vs : vmap) : list (name * value) := merge_sort key_le (map_to_list vs).
