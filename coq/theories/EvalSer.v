(* EvalSer.v — model of duckscript_sdk/src/utils/eval.rs::parse (the text that if / elseif / while /
   not / alias commands rebuild from already-bound argument values), composed with the line parser
   (Parser.v) and the second binding (Expansion.v) done by run_instruction.  Definitions only:
   the model, and the argument classes of C09 (the same booleans are the theorem's hypotheses and
   the check's classifiers).  Proofs are in EvalSerFacts.v. *)
Require Import DS.Base DS.Parser DS.Expansion.

Definition has_chr (c : char) (s : str) : bool := existsb (N.eqb c) s.
Definition starts_with (c : char) (a : str) : bool :=
  match a with x :: _ => x =? c | [] => false end.
Fixpoint ends_with (c : char) (a : str) : bool :=
  match a with
  | [] => false
  | [x] => x =? c
  | _ :: r => ends_with c r
  end.

(* the body of `for argument in arguments` *)
Definition serialise_arg (argument : str) : str :=
  if is_nil argument then [c_quote; c_quote]
  else if starts_with c_quote argument && ends_with c_quote argument then
    [c_bs] ++ argument ++ [c_bs]
  else if has_chr c_sp argument then [c_quote] ++ argument ++ [c_quote]
  else argument.

Definition line_buffer (arguments : list str) : str :=
  flat_map (fun argument => serialise_arg argument ++ [c_sp]) arguments.

(* String::replace of a one-character pattern *)
Definition remove_char (c : char) (s : str) : str := filter (fun x => negb (x =? c)) s.
Definition double_bs (s : str) : str :=
  flat_map (fun x => if x =? c_bs then [c_bs; c_bs] else [x]) s.

(* line_str *)
Definition serialise (arguments : list str) : str :=
  double_bs (remove_char c_lf (remove_char c_cr (line_buffer arguments))).

Inductive parsed := ParsedOk (i : itype) | ParseErr (e : perr) | ParsePanic.

(* `match parser::parse_text(&line_str) { Ok(instructions) => Ok(instructions[0].clone()), .. }` *)
Definition eval_parse (arguments : list str) : parsed :=
  match parse_text (serialise arguments) with
  | TOk (i :: _) => ParsedOk (i_type i)
  | TOk [] => ParsePanic
  | TErr e _ _ => ParseErr e
  end.

(* what run_instruction then invokes: the command word and the re-bound arguments *)
Inductive call :=
| Call (label output : option str) (command : str) (args : list str)
| NoCall                 (* nothing to evaluate, or an instruction without a command *)
| CallErr (e : perr)
| CallPanic.

Definition eval_call (variables : env) (arguments : list str) : call :=
  match arguments with
  | [] => NoCall
  | _ =>
    match eval_parse arguments with
    | ParsedOk (IScript label output (Some command) args) =>
        Call label output command (bind_command_arguments variables args)
    | ParsedOk _ => NoCall
    | ParseErr e => CallErr e
    | ParsePanic => CallPanic
    end
  end.

(* ------------------------------------------------------------------------------------------- *)
(* argument classes (F7).  An argument value is [safe] when it is in none of the six
   position-independent classes; E concerns the first argument only, W the last one only. *)

Fixpoint has_pair (p : char -> char -> bool) (a : str) : bool :=
  match a with
  | x :: r => match r with y :: _ => p x y || has_pair p r | [] => false end
  | [] => false
  end.

(* NL: contains CR or LF (removed from the rebuilt line) *)
Definition cls_NL (a : str) : bool := has_chr c_cr a || has_chr c_lf a.
(* Q: begins with a double quote, or contains a double quote together with a space *)
Definition cls_Q (a : str) : bool := starts_with c_quote a || (has_chr c_quote a && has_chr c_sp a).
(* H: contains # and no space (written unquoted: the rest is a comment) *)
Definition cls_H (a : str) : bool := has_chr c_hash a && negb (has_chr c_sp a).
(* The second binding scans the value once more.  [rescan] is the control skeleton of that scan
   (Expansion.xstep without the buffers): RN neutral, RF after a back-slash that escapes the next
   character, RP after a $ or % that may open a reference, RK inside a reference "${..." / "%{..."
   (the flag: some name character has been read).  It reports the first event that changes the
   text, or the final single_type flag when the scan copies the value unchanged. *)
Inductive rstate := RN | RF | RP | RK (nonempty : bool).
Inductive rescan_res := RClean (single : bool) | RLossB | RLossD.

Fixpoint rescan_from (s : rstate) (single : bool) (a : str) : rescan_res :=
  match a with
  | [] =>
    match s with
    | RN | RF => RClean single
    | RP => RClean true                 (* a trailing $ or % is copied and the flag reset *)
    | RK false => RLossD                (* a trailing "${" / "%{" is dropped *)
    | RK true => RClean single          (* an unterminated reference is copied *)
    end
  | c :: r =>
    match s with
    | RN => if c =? c_bs then rescan_from RF single r
            else if (c =? c_dollar) || (c =? c_pct) then rescan_from RP (c =? c_dollar) r
            else rescan_from RN single r
    | RF => if (c =? c_dollar) || (c =? c_pct) then RLossB else rescan_from RN single r
    | RP => if c =? c_lbrace then rescan_from (RK false) single r else rescan_from RN single r
    | RK _ => if c =? c_rbrace then RLossD
              else if should_break_key c then rescan_from RN single r
              else rescan_from (RK true) single r
    end
  end.
Definition rescan (a : str) : rescan_res := rescan_from RN true a.

(* D: the second binding finds a reference: an active "${" or "%{" is closed by } before any of
   space TAB CR LF =, or stands at the very end of the value (every such value contains "${" or "%{") *)
Definition cls_D (a : str) : bool := match rescan a with RLossD => true | _ => false end.
(* B: an active back-slash stands directly before $ or % and is dropped (every such value contains
   "\$" or "\%") *)
Definition cls_B (a : str) : bool := match rescan a with RLossB => true | _ => false end.
(* P: the scan ends in spread mode (the last active $ / % was a % that is not the last character)
   and the value contains a space, so it is re-split (every such value contains % and a space) *)
Definition cls_P (a : str) : bool :=
  match rescan a with RClean single => negb single && has_chr c_sp a | _ => false end.

Definition safe (a : str) : bool :=
  negb (cls_NL a) && negb (cls_Q a) && negb (cls_H a) && negb (cls_D a) && negb (cls_B a) && negb (cls_P a).

(* a purely syntactic sufficient condition for [safe] (EvalSerFacts.safe_simple_safe): no CR/LF; no
   leading quote and no quote together with a space; no # unless there is a space; no "${" / "%{";
   no back-slash directly before $ or %; no % together with a space *)
Definition pair_D (x y : char) : bool := ((x =? c_dollar) || (x =? c_pct)) && (y =? c_lbrace).
Definition pair_B (x y : char) : bool := (x =? c_bs) && ((y =? c_dollar) || (y =? c_pct)).
Definition safe_simple (a : str) : bool :=
  negb (cls_NL a) && negb (cls_Q a) && negb (cls_H a) && negb (has_pair pair_D a) &&
  negb (has_pair pair_B a) && negb (has_chr c_pct a && has_chr c_sp a).

(* E: the first argument begins with = and contains no space (the command word is read as an
   output variable) *)
Definition cls_E (a : str) : bool := starts_with c_eq a && negb (has_chr c_sp a).
Definition head_ok (args : list str) : bool :=
  match args with a :: _ => negb (cls_E a) | [] => true end.

(* W: the last argument contains no space and ends with a white-space character (trimmed with the line) *)
Fixpoint ends_with_ws (a : str) : bool :=
  match a with
  | [] => false
  | [x] => is_ws x
  | _ :: r => ends_with_ws r
  end.
Definition cls_W (a : str) : bool := ends_with_ws a && negb (has_chr c_sp a).
Fixpoint last_ok (args : list str) : bool :=
  match args with
  | [] => true
  | [a] => negb (cls_W a)
  | _ :: r => last_ok r
  end.

(* command words: what a registered command name looks like *)
Definition cmd_char_ok (c : char) : bool :=
  negb (is_ws c) && negb (c =? c_hash) && negb (c =? c_eq) && negb (c =? c_bs) && negb (c =? c_quote).
Definition is_cmd (cmd : str) : bool :=
  match cmd with
  | [] => false
  | c :: _ => negb (c =? c_colon) && negb (c =? c_bang) && forallb cmd_char_ok cmd
  end.
