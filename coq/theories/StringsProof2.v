(* StringsProof2.v — C16 proofs, part 2: split / join / replace, trim, range, concat, the executable
   specifications, totality of the string family. *)
Require Import DS.Base DS.Utf8 DS.Strings DS.StringsProof.

(* ------------------------------------------------------------------------------------------- *)
(* split and join                                                                                *)

Lemma join_cons t x l : l <> [] -> join t (x :: l) = x ++ t ++ join t l.
Proof. destruct l; [contradiction|reflexivity]. Qed.

Lemma split_go_nonempty t s : forall cur k, split_go t s cur k <> [].
Proof.
  induction s as [|c s IH]; intros cur k; cbn [split_go]; [discriminate|].
  destruct k; [|apply IH]. destruct (is_prefix t (c :: s)); [discriminate|apply IH].
Qed.

Lemma is_prefix_cons_split x t c s :
  is_prefix (x :: t) (c :: s) = true -> c = x /\ s = t ++ skipn (length t) s.
Proof.
  intros H. apply is_prefix_spec in H. destruct H as (q & H). cbn [app] in H.
  inversion H. subst. split; [reflexivity|].
  rewrite skipn_app, skipn_all, Nat.sub_diag. reflexivity.
Qed.

Lemma split_go_join t s : t <> [] -> forall cur k,
  join t (split_go t s cur k) = rev cur ++ skipn k s.
Proof.
  intros Ht. induction s as [|c s IH]; intros cur k.
  - cbn [split_go join]. rewrite skipn_nil, app_nil_r. reflexivity.
  - cbn [split_go]. destruct k as [|k].
    + destruct (is_prefix t (c :: s)) eqn:E.
      * rewrite join_cons by apply split_go_nonempty. rewrite IH.
        destruct t as [|x t]; [contradiction|].
        destruct (is_prefix_cons_split _ _ _ _ E) as [-> Hs].
        cbn [length Nat.sub rev skipn app]. rewrite Nat.sub_0_r.
        rewrite <- Hs. reflexivity.
      * rewrite IH. cbn [rev skipn]. rewrite <- app_assoc. reflexivity.
    + rewrite IH. reflexivity.
Qed.

Lemma join_nil_sep l : join [] l = concat l.
Proof.
  induction l as [|x l IH]; [reflexivity|].
  destruct l as [|y l]; [cbn; rewrite app_nil_r; reflexivity|].
  rewrite join_cons by discriminate. rewrite IH. reflexivity.
Qed.

Lemma concat_singletons (s : str) : concat (map (fun c => [c]) s) = s.
Proof. induction s as [|c s IH]; [reflexivity|]. cbn. rewrite IH. reflexivity. Qed.

(* joining the pieces with the separator gives the text back — for every separator, the empty
   one included *)
Lemma split_join s t : join t (split s t) = s.
Proof.
  destruct t as [|x t].
  - unfold split. rewrite join_nil_sep. cbn [concat app].
    rewrite concat_app, concat_singletons. cbn. rewrite app_nil_r. reflexivity.
  - unfold split. rewrite split_go_join by discriminate. reflexivity.
Qed.

(* no piece contains the separator.  [clean cur s]: the separator does not occur at a position
   inside the piece collected so far, even when it would extend into the rest of the text *)
Definition clean (t cur s : str) : Prop :=
  forall p r, rev cur = p ++ r -> r <> [] -> is_prefix t (r ++ s) = false.

Lemma clean_piece t cur s :
  t <> [] -> clean t cur s -> (s = [] \/ is_prefix t s = true) -> contains (rev cur) t = false.
Proof.
  intros Ht Hc Hs. destruct (contains (rev cur) t) eqn:E; [|reflexivity].
  apply contains_spec in E. destruct E as (p & q & E).
  assert (t ++ q <> []) as Hne by (destruct t; [contradiction|discriminate]).
  pose proof (Hc p (t ++ q) E Hne) as X.
  assert (is_prefix t ((t ++ q) ++ s) = true) as Y
    by (apply is_prefix_spec; exists (q ++ s); rewrite app_assoc; reflexivity).
  congruence.
Qed.

Lemma snoc_split {A} (l : list A) : l <> [] -> exists l' a, l = l' ++ [a].
Proof.
  intros H. destruct (rev l) as [|a r] eqn:E.
  - apply (f_equal (@rev _)) in E. rewrite rev_involutive in E. contradiction.
  - exists (rev r), a. apply (f_equal (@rev _)) in E. rewrite rev_involutive in E. exact E.
Qed.

Lemma split_go_pieces t s : t <> [] -> forall cur k,
  (k = O \/ cur = []) -> clean t cur s ->
  Forall (fun p => contains p t = false) (split_go t s cur k).
Proof.
  intros Ht. induction s as [|c s IH]; intros cur k Hk Hc.
  - cbn [split_go]. constructor; [|constructor]. eapply clean_piece; eauto.
  - cbn [split_go]. destruct k as [|k].
    + destruct (is_prefix t (c :: s)) eqn:E.
      * constructor; [eapply clean_piece; eauto|].
        apply IH; [right; reflexivity|]. intros p r Hr Hne. destruct p; destruct r; try discriminate. contradiction.
      * apply IH; [left; reflexivity|].
        intros p r Hr Hne. cbn [rev] in Hr.
        destruct (snoc_split r Hne) as (r' & a & ->).
        rewrite app_assoc in Hr. apply app_inj_tail in Hr. destruct Hr as [Hr ->].
        rewrite <- app_assoc. cbn [app].
        destruct r' as [|b r']; [exact E|]. apply (Hc p); [exact Hr|discriminate].
    + destruct Hk as [Hk | ->]; [discriminate|].
      apply IH; [right; reflexivity|]. intros p r Hr Hne. destruct p; destruct r; try discriminate. contradiction.
Qed.

Lemma split_pieces s t : t <> [] -> Forall (fun p => contains p t = false) (split s t).
Proof.
  intros Ht. destruct t as [|x t]; [contradiction|]. unfold split.
  apply split_go_pieces; [discriminate|left; reflexivity|].
  intros p r Hr Hne. destruct p; destruct r; try discriminate. contradiction.
Qed.

(* text without the separator is one piece *)
Lemma split_go_absent t s : forall cur, find s t = None -> split_go t s cur O = [rev cur ++ s].
Proof.
  induction s as [|c s IH]; intros cur F.
  - cbn. rewrite app_nil_r. reflexivity.
  - cbn [find] in F. destruct (is_prefix t (c :: s)) eqn:E; [discriminate|].
    destruct (find s t) eqn:F'; [discriminate|].
    cbn [split_go]. rewrite E, IH by reflexivity. cbn [rev]. rewrite <- app_assoc. reflexivity.
Qed.

(* ------------------------------------------------------------------------------------------- *)
(* replace                                                                                       *)

Lemma replace_go_join f t s : forall cur k,
  rev cur ++ replace_go f t s k = join t (split_go f s cur k).
Proof.
  induction s as [|c s IH]; intros cur k.
  - cbn. apply app_nil_r.
  - cbn [replace_go split_go]. destruct k as [|k]; [|apply IH].
    destruct (is_prefix f (c :: s)).
    + rewrite join_cons by apply split_go_nonempty. rewrite <- IH. reflexivity.
    + rewrite <- IH. cbn [rev]. rewrite <- app_assoc. reflexivity.
Qed.

Lemma join_singletons_end t (s : str) :
  join t (map (fun c => [c]) s ++ [[]]) = flat_map (fun c => c :: t) s.
Proof.
  induction s as [|c s IH]; [reflexivity|].
  cbn [map app flat_map]. rewrite join_cons by (destruct s; discriminate).
  rewrite IH. reflexivity.
Qed.

(* replace = split by the pattern, join with the replacement *)
Lemma replace_spec s f t : replace s f t = join t (split s f).
Proof.
  destruct f as [|x f]; unfold replace, split.
  - rewrite join_cons by (destruct s; discriminate). rewrite join_singletons_end. reflexivity.
  - rewrite <- replace_go_join. reflexivity.
Qed.

Lemma replace_absent s f t : contains s f = false -> replace s f t = s.
Proof.
  intros H. rewrite replace_spec. unfold contains in H.
  destruct (find s f) eqn:F; [discriminate|].
  destruct f as [|x f].
  - destruct s; cbn in F; discriminate.
  - unfold split. rewrite split_go_absent by exact F. reflexivity.
Qed.

Lemma replace_same s f : replace s f f = s.
Proof. rewrite replace_spec. apply split_join. Qed.

(* ------------------------------------------------------------------------------------------- *)
(* trim                                                                                          *)

Definition all_ws (l : str) : Prop := forallb is_ws l = true.
Definition head_not_ws (m : str) : Prop := match m with c :: _ => is_ws c = false | [] => True end.
Definition edges_not_ws (m : str) : Prop := head_not_ws m /\ head_not_ws (rev m).

Lemma drop_ws_decomp s : exists l, s = l ++ drop_ws s /\ all_ws l /\ head_not_ws (drop_ws s).
Proof.
  induction s as [|c s (l & Hs & Hl & Hh)].
  - exists []. repeat split.
  - cbn [drop_ws]. destruct (is_ws c) eqn:E.
    + exists (c :: l). split; [cbn; congruence|]. split; [unfold all_ws; cbn; rewrite E; exact Hl|exact Hh].
    + exists []. split; [reflexivity|]. split; [reflexivity|exact E].
Qed.

Lemma drop_ws_all l x : all_ws l -> drop_ws (l ++ x) = drop_ws x.
Proof.
  unfold all_ws. induction l as [|c l IH]; intros H; [reflexivity|].
  cbn in H. apply andb_prop in H. destruct H as [Hc Hl]. cbn [app drop_ws]. rewrite Hc. auto.
Qed.

Lemma drop_ws_head x : head_not_ws x -> drop_ws x = x.
Proof. destruct x as [|c x]; [reflexivity|]. cbn. intros ->. reflexivity. Qed.

Lemma all_ws_rev l : all_ws l -> all_ws (rev l).
Proof.
  unfold all_ws. rewrite !forallb_forall. intros H x Hx. apply H. apply in_rev. exact Hx.
Qed.

Lemma trim_start_unique s l m : s = l ++ m -> all_ws l -> head_not_ws m -> trim_start s = m.
Proof. intros -> Hl Hm. unfold trim_start. rewrite drop_ws_all, drop_ws_head; auto. Qed.

Lemma trim_start_exists s :
  exists l, s = l ++ trim_start s /\ all_ws l /\ head_not_ws (trim_start s).
Proof. apply drop_ws_decomp. Qed.

Lemma trim_end_unique s m r : s = m ++ r -> all_ws r -> head_not_ws (rev m) -> trim_end s = m.
Proof.
  intros -> Hr Hm. unfold trim_end. rewrite rev_app_distr, drop_ws_all by (apply all_ws_rev; exact Hr).
  rewrite drop_ws_head by exact Hm. apply rev_involutive.
Qed.

Lemma trim_end_exists s :
  exists r, s = trim_end s ++ r /\ all_ws r /\ head_not_ws (rev (trim_end s)).
Proof.
  unfold trim_end. destruct (drop_ws_decomp (rev s)) as (l & Hs & Hl & Hh).
  exists (rev l). split.
  - apply (f_equal (@rev _)) in Hs. rewrite rev_involutive, rev_app_distr in Hs. exact Hs.
  - split; [apply all_ws_rev; exact Hl|]. rewrite rev_involutive. exact Hh.
Qed.

Lemma all_ws_app a b : all_ws a -> all_ws b -> all_ws (a ++ b).
Proof. unfold all_ws. intros Ha Hb. rewrite forallb_app, Ha, Hb. reflexivity. Qed.

Lemma trim_unique s l m r :
  s = l ++ m ++ r -> all_ws l -> all_ws r -> edges_not_ws m -> trim s = m.
Proof.
  intros -> Hl Hr [Hh Ht]. unfold trim.
  destruct m as [|c m].
  - cbn [app]. rewrite (trim_start_unique (l ++ r) (l ++ r) []); [reflexivity|symmetry; apply app_nil_r| |exact I].
    apply all_ws_app; assumption.
  - rewrite (trim_start_unique (l ++ (c :: m) ++ r) l ((c :: m) ++ r) eq_refl Hl) by exact Hh.
    apply (trim_end_unique _ (c :: m) r eq_refl Hr Ht).
Qed.

Lemma trim_exists s :
  exists l r, s = l ++ trim s ++ r /\ all_ws l /\ all_ws r /\ edges_not_ws (trim s).
Proof.
  unfold trim. destruct (trim_start_exists s) as (l & Hs & Hl & Hh).
  destruct (trim_end_exists (trim_start s)) as (r & Hs' & Hr & Ht).
  exists l, r. split; [rewrite <- Hs'; exact Hs|]. split; [exact Hl|]. split; [exact Hr|].
  split; [|exact Ht].
  (* the head survives trim_end *)
  destruct (trim_start s) as [|c x] eqn:E.
  - exact I.
  - destruct (trim_end (c :: x)) as [|c' y] eqn:E'.
    + exact I.
    + cbn [app] in Hs'. inversion Hs'. subst c'. exact Hh.
Qed.

(* ------------------------------------------------------------------------------------------- *)
(* range                                                                                         *)

Lemma zrange_length a b : length (zrange a b) = Z.to_nat (b - a).
Proof. unfold zrange. rewrite map_length, seq_length. reflexivity. Qed.

Lemma zrange_nth a b k :
  (k < Z.to_nat (b - a))%nat -> nth_error (zrange a b) k = Some (a + Z.of_nat k)%Z.
Proof.
  intros H. unfold zrange.
  apply (map_nth_error (fun k => (a + Z.of_nat k)%Z) k (seq 0 (Z.to_nat (b - a)))).
  rewrite (nth_error_nth' _ O) by (rewrite seq_length; exact H).
  rewrite seq_nth by exact H. reflexivity.
Qed.

Lemma zrange_in a b x : In x (zrange a b) <-> (a <= x < b)%Z.
Proof.
  unfold zrange. rewrite in_map_iff. split.
  - intros (k & <- & Hk). apply in_seq in Hk. lia.
  - intros H. exists (Z.to_nat (x - a)). split; [lia|]. apply in_seq. lia.
Qed.

Lemma cmd_range_spec sa sb rest l :
  cmd_range (sa :: sb :: rest) = RList l <->
  exists a b, parse_i64 sa = Some a /\ parse_i64 sb = Some b /\ (a <= b)%Z /\
              l = map show_Z (zrange a b).
Proof.
  unfold cmd_range. destruct (parse_i64 sa) as [a|].
  - destruct (parse_i64 sb) as [b|].
    + destruct (Z.ltb_spec b a).
      * split; [discriminate|]. intros (a' & b' & Ha & Hb & Hle & _). inversion Ha. inversion Hb. lia.
      * split.
        -- intros X. inversion X. exists a, b. repeat split. assumption.
        -- intros (a' & b' & Ha & Hb & Hle & ->). inversion Ha. inversion Hb. reflexivity.
    + split; [discriminate|]. intros (a' & b' & _ & Hb & _). discriminate.
  - split; [discriminate|]. intros (a' & b' & Ha & _). discriminate.
Qed.

Lemma cmd_range_errors sa sb rest :
  (cmd_range (sa :: sb :: rest) = RErr 4 <-> parse_i64 sa = None \/ parse_i64 sb = None) /\
  (cmd_range (sa :: sb :: rest) = RErr 13 <->
     exists a b, parse_i64 sa = Some a /\ parse_i64 sb = Some b /\ (b < a)%Z) /\
  (forall k, cmd_range (sa :: sb :: rest) = RErr k -> k = 4 \/ k = 13) /\
  cmd_range [] = RErr 14 /\ cmd_range [sa] = RErr 14.
Proof.
  unfold cmd_range. destruct (parse_i64 sa) as [a|]; [destruct (parse_i64 sb) as [b|]|].
  - destruct (Z.ltb_spec b a).
    + repeat split; try discriminate; eauto.
      * intros [X|X]; discriminate.
      * intros k X. inversion X. auto.
    + repeat split; try discriminate.
      * intros [X|X]; discriminate.
      * intros (a' & b' & Ha & Hb & Hlt). inversion Ha. inversion Hb. lia.
  - repeat split; try discriminate; eauto.
    + intros (a' & b' & _ & Hb & _). discriminate.
    + intros k X. inversion X. auto.
  - repeat split; try discriminate; eauto.
    + intros (a' & b' & Ha & _). discriminate.
    + intros k X. inversion X. auto.
Qed.

(* ------------------------------------------------------------------------------------------- *)
(* concat                                                                                        *)

Lemma fold_concat (args : list str) : forall acc,
  fold_left (fun out a => out ++ a) args acc = acc ++ concat args.
Proof.
  induction args as [|a args IH]; intros acc; cbn [fold_left concat].
  - symmetry. apply app_nil_r.
  - rewrite IH. apply app_assoc_reverse.
Qed.

Lemma cmd_concat_spec args : cmd_concat args = RVal (concat args).
Proof. unfold cmd_concat. rewrite fold_concat. reflexivity. Qed.

(* ------------------------------------------------------------------------------------------- *)
(* the executable specifications agree with the model                                            *)

Lemma first_some_map {A} (f : nat -> option A) g l :
  first_some f (map g l) = first_some (fun k => f (g k)) l.
Proof. induction l as [|k l IH]; [reflexivity|]. cbn. rewrite IH. reflexivity. Qed.

Lemma first_some_ext {A} (f g : nat -> option A) l :
  (forall k, f k = g k) -> first_some f l = first_some g l.
Proof. intros H. induction l as [|k l IH]; [reflexivity|]. cbn. rewrite H, IH. reflexivity. Qed.

Lemma first_some_app {A} (f : nat -> option A) l1 l2 :
  first_some f (l1 ++ l2) =
  match first_some f l1 with Some x => Some x | None => first_some f l2 end.
Proof. induction l1 as [|k l IH]; [reflexivity|]. cbn. destruct (f k); [reflexivity|exact IH]. Qed.

Lemma first_some_omap {A B} (h : A -> B) (f : nat -> option A) l :
  first_some (fun k => match f k with Some x => Some (h x) | None => None end) l =
  match first_some f l with Some x => Some (h x) | None => None end.
Proof. induction l as [|k l IH]; [reflexivity|]. cbn. destruct (f k); [reflexivity|exact IH]. Qed.

Definition occ_at (s t : str) (k : nat) : option N :=
  if occurs_at s t k then Some (blen (firstn k s)) else None.

Lemma occ_at_succ c s t k :
  occ_at (c :: s) t (S k) = match occ_at s t k with Some i => Some (utf8_len c + i) | None => None end.
Proof. unfold occ_at, occurs_at. cbn [skipn firstn blen]. destruct (is_prefix t (skipn k s)); reflexivity. Qed.

Lemma spec_find_eq s t : spec_find s t = find s t.
Proof.
  unfold spec_find. fold (occ_at s t). induction s as [|c s IH].
  - cbn. unfold occ_at, occurs_at. cbn. destruct (is_prefix t []); reflexivity.
  - cbn [length]. rewrite <- cons_seq, <- seq_shift. cbn [first_some find].
    unfold occ_at at 1. unfold occurs_at. cbn [skipn firstn blen].
    destruct (is_prefix t (c :: s)); [reflexivity|].
    rewrite first_some_map.
    rewrite (first_some_ext _ _ _ (occ_at_succ c s t)), first_some_omap, IH. reflexivity.
Qed.

Lemma spec_rfind_eq s t : spec_rfind s t = rfind s t.
Proof.
  unfold spec_rfind. fold (occ_at s t). induction s as [|c s IH].
  - cbn. unfold occ_at, occurs_at. cbn. destruct (is_prefix t []); reflexivity.
  - cbn [length]. rewrite <- cons_seq, <- seq_shift. cbn [rev].
    rewrite <- map_rev, first_some_app, first_some_map.
    rewrite (first_some_ext _ _ _ (occ_at_succ c s t)), first_some_omap, IH.
    cbn [rfind]. destruct (rfind s t); [reflexivity|].
    cbn [first_some]. unfold occ_at, occurs_at. cbn [skipn firstn blen].
    destruct (is_prefix t (c :: s)); reflexivity.
Qed.

Lemma first_some_in {A} (f : nat -> option A) l x :
  first_some f l = Some x -> exists k, In k l /\ f k = Some x.
Proof.
  induction l as [|k l IH]; [discriminate|]. cbn. destruct (f k) eqn:E.
  - intros X. inversion X. subst. exists k. split; [left; reflexivity|exact E].
  - intros X. destruct (IH X) as (k' & Hin & Hk'). exists k'. split; [right; exact Hin|exact Hk'].
Qed.

Lemma first_some_none {A} (f : nat -> option A) l :
  first_some f l = None -> forall k, In k l -> f k = None.
Proof.
  induction l as [|k l IH]; [intros _ k []|]. cbn. destruct (f k) eqn:E; [discriminate|].
  intros X k' [<-|Hin]; [exact E|exact (IH X _ Hin)].
Qed.

Lemma firstn_add {A} (s : list A) : forall i d, firstn (i + d) s = firstn i s ++ firstn d (skipn i s).
Proof.
  induction s as [|c s IH]; intros i d.
  - rewrite !firstn_nil, skipn_nil, firstn_nil. reflexivity.
  - destruct i; [reflexivity|]. cbn [Nat.add firstn skipn app]. rewrite IH. reflexivity.
Qed.

Lemma spec_slice_some s a b m : spec_slice s a b = Some m -> slice_bytes s a b = Some m.
Proof.
  unfold spec_slice. intros H.
  apply first_some_in in H. destruct H as (i & Hi & H). apply in_seq in Hi.
  destruct (N.eqb_spec (blen (firstn i s)) a) as [Ha|]; [|discriminate].
  apply first_some_in in H. destruct H as (j & Hj & H). apply in_seq in Hj.
  destruct (N.eqb_spec (blen (firstn j s)) b) as [Hb|]; [|discriminate].
  inversion H. apply slice_bytes_spec.
  exists (firstn i s), (skipn (j - i) (skipn i s)).
  rewrite !firstn_skipn. split; [reflexivity|]. split; [exact Ha|].
  rewrite <- firstn_add. replace (i + (j - i))%nat with j by lia. exact Hb.
Qed.

Lemma spec_slice_none s a b : spec_slice s a b = None -> slice_bytes s a b = None.
Proof.
  unfold spec_slice. intros H.
  destruct (slice_bytes s a b) as [m|] eqn:E; [|reflexivity]. exfalso.
  apply slice_bytes_spec in E. destruct E as (p & q & Hs & Hp & Hpm).
  assert (firstn (length p) s = p) as Fp by (subst s; rewrite firstn_app, Nat.sub_diag, firstn_all; cbn; apply app_nil_r).
  assert (firstn (length (p ++ m)) s = p ++ m) as Fpm.
  { subst s. rewrite app_assoc. rewrite firstn_app, Nat.sub_diag, firstn_all. cbn. apply app_nil_r. }
  assert (length s = length p + length m + length q)%nat as L by (subst s; rewrite !app_length; lia).
  pose proof (first_some_none _ _ H (length p)) as X.
  cbv beta in X. rewrite Fp in X.
  destruct (N.eqb_spec (blen p) a); [|contradiction].
  assert (In (length p) (seq 0 (S (length s)))) as Hin by (apply in_seq; lia).
  specialize (X Hin).
  pose proof (first_some_none _ _ X (length (p ++ m))) as Y. cbv beta in Y.
  rewrite Fpm in Y. destruct (N.eqb_spec (blen (p ++ m)) b); [|contradiction].
  assert (In (length (p ++ m)) (seq (length p) (S (length s) - length p))) as Hin2
    by (apply in_seq; rewrite app_length; lia).
  specialize (Y Hin2). discriminate.
Qed.

Lemma spec_slice_eq s a b : spec_slice s a b = slice_bytes s a b.
Proof.
  destruct (spec_slice s a b) as [m|] eqn:E.
  - symmetry. apply spec_slice_some. exact E.
  - symmetry. apply spec_slice_none. exact E.
Qed.

(* ------------------------------------------------------------------------------------------- *)
(* the string family and range never unwind and never leave the modelled domain                  *)

Definition defined (r : result) : Prop := r <> RPanic /\ r <> ROod.

Lemma of_bool_defined b : defined (of_bool b).
Proof. split; discriminate. Qed.
Lemma of_index_defined o : defined (of_index o).
Proof. destruct o; split; discriminate. Qed.

Lemma string_family_defined args :
  defined (cmd_length args) /\ defined (cmd_indexof args) /\ defined (cmd_last_indexof args) /\
  defined (cmd_substring args) /\ defined (cmd_contains args) /\ defined (cmd_starts_with args) /\
  defined (cmd_ends_with args) /\ defined (cmd_equals args) /\ defined (cmd_is_empty args) /\
  defined (cmd_concat args) /\ defined (cmd_replace args) /\ defined (cmd_split args) /\
  defined (cmd_trim args) /\ defined (cmd_trim_start args) /\ defined (cmd_trim_end args) /\
  defined (cmd_range args).
Proof.
  repeat split; try discriminate;
    try (destruct args as [|s [|t [|u r]]]; cbn; (discriminate || apply of_bool_defined || apply of_index_defined));
    try (destruct (cmd_substring_total args) as [(m & ->)|(k & ->)]; discriminate);
    try (unfold cmd_range; destruct args as [|sa [|sb r]]; try discriminate;
         destruct (parse_i64 sa); try discriminate; destruct (parse_i64 sb); try discriminate;
         destruct (_ <? _)%Z; discriminate).
Qed.

Lemma is_empty_spec : forall s rest,
  cmd_is_empty [] = of_bool true /\ (cmd_is_empty (s :: rest) = of_bool true <-> s = []).
Proof.
  intros s rest. split; [reflexivity|]. destruct s; cbn; split; (reflexivity || discriminate).
Qed.

(* non-vacuity examples *)
Definition w_hello_acute : str := [104; 233; 108; 108; 111].   (* héllo *)
Definition w_hello : str := [104; 101; 108; 108; 111].         (* hello *)
Lemma nonvacuous_examples :
  substring3 w_hello_acute 0 2 = RErr 10 /\
  cmd_substring [w_hello; [45; 49]; [50]] = RErr 7 /\
  find w_hello_acute [108] = Some 3 /\
  substring3 w_hello_acute 0 3 = RVal [104; 233] /\
  cmd_length [w_hello_acute] = RVal [54] /\
  split [97; 44; 98; 44] [44] = [[97]; [98]; []] /\
  cmd_range [[45; 49]; [50]] = RList [[45; 49]; [48]; [49]].
Proof. vm_compute. repeat split. Qed.
