(* CodecCmds.v — C17: the COMMAND layer of the byte / base64 / properties commands (definitions only; the link
   lemmas to the statements of props/C17.v are in CodecCmdsProof.v, the tie to the source in CodecCmdsGenTie.v).

   Codec.v / CodecProps.v model the codecs themselves (b64_encode / b64_decode, utf8_encode / utf8_decode, the
   java-properties writer / reader and the text glue of the two properties commands on a map that is already a list of
   string pairs).  What a `run` function does AROUND the codec — the argument-count test, which argument is read, the
   lookup in the handle table, the kind of the value found there, which error each failing path ends in, put_handle of
   the result — had no model function; this file has one per command, written in terms of the functions of Codec.v /
   CodecProps.v, and lib/gen/codeccmds_gen.py translates the six `run` functions into the same shape.

   Rust                                                      model
   --------------------------------------------------------- ---------------------------------------------------------
   StateValue (all thirteen arms)                            sval   (List / Set / Any: payload never inspected -> a tag)
   Context.state["handles"] : HashMap<String, StateValue>    htable := list (str * sval): get = first entry of the key,
                                                             insert = replace in place or append, remove = drop the entry
   HashMap<String, StateValue> of a SubState                 the same list; its ORDER is the HashMap's iteration order
                                                             (CodecProps.v's convention: "forall m" covers every order)
   utils/state.rs put_handle (20 random alphanumerics)       put_handle with the draw oracle rnd (Collections.v's scheme)
   utils/state.rs get_as_string                              sval_as_string
   utils/state.rs mutate_map                                 mutate_map
   string_to_bytes / bytes_to_string / base64_encode /       cmd_string_to_bytes / cmd_bytes_to_string / cmd_base64_encode /
   base64_decode / map_to_properties / map_load_properties   cmd_base64_decode / cmd_map_to_properties_run /
   ::run                                                     cmd_map_load_properties_run

   A Rust panic (`context.arguments[i]` out of range) is the result [CPanic]; the fuel of CodecProps.v's writer loop is
   [CFuel].  CodecCmdsProof.v shows no argument vector / state reaches CPanic. *)
Require Import DS.Base DS.Utf8 DS.Strings DS.Codec DS.CodecProps DS.Rs2vCodecLib.

(* ---- values --------------------------------------------------------------------------------------------------------- *)
Inductive sval :=
| SBool (b : bool) | SNum (z : Z) | SUNum (n : N) | SNum32 (z : Z) | SUNum32 (n : N) | SNum64 (z : Z) | SUNum64 (n : N)
| SString (s : str) | SBytes (bs : list N) | SList (tag : N) | SSet (tag : N) | SSub (m : list (str * sval)) | SAny (tag : N).

Definition htable := list (str * sval).

Fixpoint ht_get (k : str) (t : htable) : option sval :=
  match t with
  | [] => None
  | (k', v) :: r => if str_eqb k' k then Some v else ht_get k r
  end.
(* HashMap::insert: the value of an existing key is replaced, a new key goes last *)
Fixpoint ht_insert (k : str) (v : sval) (t : htable) : htable :=
  match t with
  | [] => [(k, v)]
  | (k', v') :: r => if str_eqb k' k then (k, v) :: r else (k', v') :: ht_insert k v r
  end.
Fixpoint ht_remove (k : str) (t : htable) : htable :=
  match t with
  | [] => []
  | (k', v') :: r => if str_eqb k' k then r else (k', v') :: ht_remove k r
  end.

(* the handle table and the number of random keys drawn so far *)
Record cstate := CS { handles : htable; cdraws : nat }.

(* ---- results -------------------------------------------------------------------------------------------------------- *)
(* CommandResult::Continue(Some v) | Continue(None) | Error (kind, line number of a java-properties error or 0) *)
Inductive cres := CVal (v : str) | CNoVal | CErr (kind line : N) | CPanic | CFuel.

(* error kinds (message texts are not modelled); 1 2 3 10 11 are CodecProps.v's pe_* *)
Definition ce_args : N := 20.         (* "Array handle not provided." / "Value not provided." / "Missing input." /
                                         "Map handle not provided." / "Map handle and/or properties text not provided." *)
Definition ce_kind : N := 21.         (* "Invalid handle provided." *)
Definition ce_notfound : N := 22.     (* "Array for handle: .. not found." / "Map for handle: .. not found." *)
Definition ce_b64 : N := 23.          (* Display of base64::DecodeError *)
Definition ce_unsupported : N := 24.  (* "Unsupported value type." (get_as_string) *)

Definition cres_of_pres (r : pres str) : cres :=
  match r with POk t => CVal t | PErr k l => CErr k l | PFuel => CFuel end.

Section Cmds.
(* the i-th key drawn by put_handle *)
Variable rnd : nat -> str.

Definition put_handle (v : sval) (s : cstate) : str * cstate :=
  (rnd (cdraws s), CS (ht_insert (rnd (cdraws s)) v (handles s)) (S (cdraws s))).

(* ---- string_to_bytes: String::into_bytes of the first argument, stored as a ByteArray under a fresh handle ---------- *)
Definition cmd_string_to_bytes (args : list str) (s : cstate) : cres * cstate :=
  match args with
  | [] => (CErr ce_args 0, s)
  | a :: _ => (CVal (fst (put_handle (SBytes (utf8_encode a)) s)), snd (put_handle (SBytes (utf8_encode a)) s))
  end.

(* the lookup shared by bytes_to_string and base64_encode: the ByteArray behind a handle, or the error of the path taken *)
Definition bytes_at (key : str) (s : cstate) : list N + cres :=
  match ht_get key (handles s) with
  | Some (SBytes bs) => inl bs
  | Some _ => inr (CErr ce_kind 0)
  | None => inr (CErr ce_notfound 0)
  end.

(* ---- bytes_to_string: str::from_utf8 of the ByteArray behind the handle -------------------------------------------- *)
Definition cmd_bytes_to_string (args : list str) (s : cstate) : cres * cstate :=
  match args with
  | [] => (CErr ce_args 0, s)
  | key :: _ =>
      match bytes_at key s with
      | inl bs => match utf8_decode bs with Some t => (CVal t, s) | None => (CErr pe_utf8 0, s) end
      | inr e => (e, s)
      end
  end.

(* ---- base64_encode: STANDARD.encode of the ByteArray behind the handle --------------------------------------------- *)
Definition cmd_base64_encode (args : list str) (s : cstate) : cres * cstate :=
  match args with
  | [] => (CErr ce_args 0, s)
  | key :: _ =>
      match bytes_at key s with
      | inl bs => (CVal (b64_encode bs), s)
      | inr e => (e, s)
      end
  end.

(* ---- base64_decode: STANDARD.decode of the first argument, stored as a ByteArray under a fresh handle --------------- *)
Definition cmd_base64_decode (args : list str) (s : cstate) : cres * cstate :=
  match args with
  | [] => (CErr ce_args 0, s)
  | a :: _ =>
      match b64_decode a with
      | Some bs => (CVal (fst (put_handle (SBytes bs) s)), snd (put_handle (SBytes bs) s))
      | None => (CErr ce_b64 0, s)
      end
  end.

End Cmds.

(* ---- map_to_properties [--prefix p] handle ------------------------------------------------------------------------- *)
(* utils/state.rs get_as_string: the display text of the eight scalar arms, "Unsupported value type." for the five others *)
Definition sval_as_string (v : sval) : option str :=
  match v with
  | SBool b => Some (if b then s_true else s_false)
  | SNum z | SNum32 z | SNum64 z => Some (show_Z z)
  | SUNum n | SUNum32 n | SUNum64 n => Some (show_N n)
  | SString t => Some t
  | SBytes _ | SList _ | SSet _ | SSub _ | SAny _ => None
  end.

(* one round of the `for (property_key, property_value) in map` loop: the prefixed key and the display text of the value
   are inserted into the HashMap<String, String> handed to the writer; an unsupported value ends the command *)
Definition props_step (prefix : str) (acc : list (str * str)) (kv : str * sval) : list (str * str) + cres :=
  match sval_as_string (snd kv) with
  | Some v => inl (map_insert (pp_prefix_key prefix (fst kv)) v acc)
  | None => inr (CErr ce_unsupported 0)
  end.

Definition map_to_properties_at (prefix key : str) (s : cstate) : cres * cstate :=
  match ht_get key (handles s) with
  | Some (SSub m) =>
      match for_each_ret (props_step prefix) m [] with
      | inl props =>
          match pp_write props with
          | POk written =>
              match utf8_decode written with
              | Some text => (CVal (trim_end_nl text), s)
              | None => (CErr pe_utf8 0, s)
              end
          | PErr k l => (CErr k l, s)
          | PFuel => (CFuel, s)
          end
      | inr e => (e, s)
      end
  | Some _ => (CErr ce_kind 0, s)
  | None => (CErr ce_notfound 0, s)
  end.

Definition s_prefix_flag : str := [45; 45; 112; 114; 101; 102; 105; 120].        (* --prefix *)

(* the flag is recognised only when at least three arguments are given; otherwise the FIRST argument is the handle *)
Definition cmd_map_to_properties_run (args : list str) (s : cstate) : cres * cstate :=
  match args with
  | [] => (CErr ce_args 0, s)
  | a0 :: a1 :: a2 :: _ => if str_eqb a0 s_prefix_flag then map_to_properties_at a1 a2 s else map_to_properties_at [] a0 s
  | a0 :: _ => map_to_properties_at [] a0 s
  end.
