(* ParserIx.v — index-faithful model of duckscript/src/parser.rs (definitions only).

   Where DS.Parser passes list suffixes, this model keeps what the Rust code keeps: the whole line
   as a vector, [usize] indices moved forward and backward by hand, [for _i in index..end_index]
   loops that run a number of iterations fixed at loop entry, and the mutable flags of
   parse_next_value.  Every operation that can unwind in Rust is explicit:
     line_text[index]        -> [IPanic] when index is out of bounds  ([nth_error] = None)
     index -= 1              -> [IPanic] when index = 0               (usize underflow)
     chars[0]                -> [IPanic] on an empty vector
   DS.ParserIxProof shows that this model never answers [IPanic] / [ITPanic] and agrees with the
   suffix model DS.Parser on every input. *)
Require Import DS.Base DS.Parser.

Inductive ires (A : Type) := IOk (a : A) | IErr (e : perr) | IPanic.
Arguments IOk {A}. Arguments IErr {A}. Arguments IPanic {A}.

Definition usize_dec (n : nat) : option nat := match n with O => None | S k => Some k end.

(* ---- parse_next_value -------------------------------------------------------------------------- *)
Record pstate := { p_argument : str;      (* reversed *)
                   p_index : nat; p_in_argument : bool; p_using_quotes : bool; p_in_control : bool;
                   p_found_end : bool; p_found_variable_prefix : bool }.

Inductive step (A : Type) := SContinue (s : A) | SBreak (s : A) | SFail (e : perr) | SPanic.
Arguments SContinue {A}. Arguments SBreak {A}. Arguments SFail {A}. Arguments SPanic {A}.

Definition push (c : char) (s : pstate) (index : nat) (ic fvp : bool) : pstate :=
  {| p_argument := c :: p_argument s; p_index := index; p_in_argument := p_in_argument s;
     p_using_quotes := p_using_quotes s; p_in_control := ic; p_found_end := p_found_end s;
     p_found_variable_prefix := fvp |}.

(* one iteration of the loop body *)
Definition pnv_body (fl : flags) (line : str) (s : pstate) : step pstate :=
  match nth_error line (p_index s) with
  | None => SPanic
  | Some character =>
    let index := S (p_index s) in
    if p_in_argument s then
      if p_in_control s then
        if p_found_variable_prefix s then
          if character =? c_lbrace then
            SContinue {| p_argument := c_lbrace :: c_dollar :: c_bs :: p_argument s; p_index := index;
                         p_in_argument := true; p_using_quotes := p_using_quotes s; p_in_control := false;
                         p_found_end := p_found_end s; p_found_variable_prefix := false |}
          else SFail EControlWithoutValidValue
        else if (character =? c_bs) || (character =? c_quote) then
          SContinue (push character s index false (p_found_variable_prefix s))
        else if character =? c_n then SContinue (push c_lf s index false (p_found_variable_prefix s))
        else if character =? c_r then SContinue (push c_cr s index false (p_found_variable_prefix s))
        else if character =? c_t then SContinue (push c_tab s index false (p_found_variable_prefix s))
        else if character =? c_dollar then
          SContinue {| p_argument := p_argument s; p_index := index; p_in_argument := true;
                       p_using_quotes := p_using_quotes s; p_in_control := true;
                       p_found_end := p_found_end s; p_found_variable_prefix := true |}
        else SFail EControlWithoutValidValue
      else if character =? c_bs then
        if control_as_char fl then SContinue (push character s index false (p_found_variable_prefix s))
        else if allow_control fl then
          SContinue {| p_argument := p_argument s; p_index := index; p_in_argument := true;
                       p_using_quotes := p_using_quotes s; p_in_control := true;
                       p_found_end := p_found_end s; p_found_variable_prefix := false |}
        else SFail EInvalidControlLocation
      else if p_using_quotes s && (character =? c_quote) then
        SBreak {| p_argument := p_argument s; p_index := index; p_in_argument := true;
                  p_using_quotes := p_using_quotes s; p_in_control := false;
                  p_found_end := true; p_found_variable_prefix := p_found_variable_prefix s |}
      else if negb (p_using_quotes s) &&
              ((character =? c_sp) || ((character =? c_hash) && negb (control_as_char fl)) ||
               (stop_on_equals fl && (character =? c_eq))) then
        if (character =? c_sp) || (character =? c_eq) then
          match usize_dec index with           (* index -= 1 *)
          | None => SPanic
          | Some index' =>
            SBreak {| p_argument := p_argument s; p_index := index'; p_in_argument := true;
                      p_using_quotes := p_using_quotes s; p_in_control := false;
                      p_found_end := true; p_found_variable_prefix := p_found_variable_prefix s |}
          end
        else                                   (* else if '#': index = end_index *)
          SBreak {| p_argument := p_argument s;
                    p_index := if character =? c_hash then length line else index;
                    p_in_argument := true;
                    p_using_quotes := p_using_quotes s; p_in_control := false;
                    p_found_end := true; p_found_variable_prefix := p_found_variable_prefix s |}
      else SContinue (push character s index false (p_found_variable_prefix s))
    else if (character =? c_hash) && negb (control_as_char fl) then
      SBreak {| p_argument := p_argument s; p_index := length line; p_in_argument := false;
                p_using_quotes := p_using_quotes s; p_in_control := p_in_control s;
                p_found_end := p_found_end s; p_found_variable_prefix := p_found_variable_prefix s |}
    else if negb (character =? c_sp) then
      (* in_argument = true *)
      if character =? c_quote then
        if allow_quotes fl then
          SContinue {| p_argument := p_argument s; p_index := index; p_in_argument := true;
                       p_using_quotes := true; p_in_control := p_in_control s;
                       p_found_end := p_found_end s; p_found_variable_prefix := p_found_variable_prefix s |}
        else SFail EInvalidQuotesLocation
      else if character =? c_bs then
        if control_as_char fl then
          SContinue {| p_argument := character :: p_argument s; p_index := index; p_in_argument := true;
                       p_using_quotes := p_using_quotes s; p_in_control := p_in_control s;
                       p_found_end := p_found_end s; p_found_variable_prefix := p_found_variable_prefix s |}
        else if allow_control fl then
          SContinue {| p_argument := p_argument s; p_index := index; p_in_argument := true;
                       p_using_quotes := p_using_quotes s; p_in_control := true;
                       p_found_end := p_found_end s; p_found_variable_prefix := p_found_variable_prefix s |}
        else SFail EInvalidControlLocation
      else
        SContinue {| p_argument := character :: p_argument s; p_index := index; p_in_argument := true;
                     p_using_quotes := p_using_quotes s; p_in_control := p_in_control s;
                     p_found_end := p_found_end s; p_found_variable_prefix := p_found_variable_prefix s |}
    else
      SContinue {| p_argument := p_argument s; p_index := index; p_in_argument := false;
                   p_using_quotes := p_using_quotes s; p_in_control := p_in_control s;
                   p_found_end := p_found_end s; p_found_variable_prefix := p_found_variable_prefix s |}
  end.

(* [for _i in index..end_index]: n = number of iterations fixed at loop entry *)
Fixpoint pnv_loop (fl : flags) (line : str) (n : nat) (s : pstate) : ires pstate :=
  match n with
  | O => IOk s
  | S n' =>
    match pnv_body fl line s with
    | SContinue s' => pnv_loop fl line n' s'
    | SBreak s' => IOk s'
    | SFail e => IErr e
    | SPanic => IPanic
    end
  end.

Definition pnv_finish (s : pstate) : ires (nat * option str) :=
  if p_in_argument s && negb (p_found_end s) && (p_in_control s || p_using_quotes s) then
    if p_in_control s then IErr EControlWithoutValidValue else IErr EMissingEndQuotes
  else match p_argument s with
       | [] => if p_using_quotes s then IOk (p_index s, Some []) else IOk (p_index s, None)
       | a => IOk (p_index s, Some (rev a))
       end.

Definition parse_next_value (fl : flags) (line : str) (start_index : nat) : ires (nat * option str) :=
  let end_index := length line in
  if Nat.leb end_index start_index then IOk (start_index, None)
  else
    match pnv_loop fl line (Nat.sub end_index start_index)
            {| p_argument := []; p_index := start_index; p_in_argument := false; p_using_quotes := false;
               p_in_control := false; p_found_end := false; p_found_variable_prefix := false |} with
    | IOk s => pnv_finish s
    | IErr e => IErr e
    | IPanic => IPanic
    end.

(* ---- parse_arguments_with_options ------------------------------------------------------------- *)
Fixpoint parse_args_fuel (fuel : nat) (fl : flags) (line : str) (index : nat) : ires (list str) :=
  match fuel with
  | O => IErr EFuel
  | S f =>
    match parse_next_value fl line index with
    | IPanic => IPanic
    | IErr e => IErr e
    | IOk (_, None) => IOk []
    | IOk (next_index, Some a) =>
      match parse_args_fuel f fl line next_index with
      | IPanic => IPanic
      | IErr e => IErr e
      | IOk args => IOk (a :: args)
      end
    end
  end.

Definition parse_arguments_with (fl : flags) (line : str) (start_index : nat) : ires (option (list str)) :=
  match parse_args_fuel (S (Nat.sub (length line) start_index)) fl line start_index with
  | IPanic => IPanic
  | IErr e => IErr e
  | IOk args => IOk (opt_list args)
  end.
Definition parse_arguments := parse_arguments_with fl_arg.

(* ---- find_label ------------------------------------------------------------------------------------ *)
Fixpoint find_label_loop (line : str) (n : nat) (index : nat) : ires (nat * option str) :=
  match n with
  | O => IOk (index, None)
  | S n' =>
    match nth_error line index with
    | None => IPanic
    | Some character =>
      let index := S index in
      if character =? c_colon then
        match parse_next_value fl_name line index with
        | IPanic => IPanic
        | IErr e => IErr e
        | IOk (next_index, Some v) =>
          match v with [] => IErr EEmptyLabel | _ => IOk (next_index, Some (c_colon :: v)) end
        | IOk (next_index, None) => IOk (next_index, None)
        end
      else if negb (character =? c_sp) then
        match usize_dec index with None => IPanic | Some index' => IOk (index', None) end
      else find_label_loop line n' index
    end
  end.

Definition find_label (line : str) (start_index : nat) : ires (nat * option str) :=
  let end_index := length line in
  if Nat.leb end_index start_index then IOk (start_index, None)
  else find_label_loop line (Nat.sub end_index start_index) start_index.

(* ---- find_output_and_command -------------------------------------------------------------------- *)
(* the loop that looks for '=' after the first value: (index after the loop, '=' found) *)
Fixpoint equals_loop (line : str) (n : nat) (index : nat) : ires (nat * bool) :=
  match n with
  | O => IOk (index, false)
  | S n' =>
    match nth_error line index with
    | None => IPanic
    | Some character =>
      let index := S index in
      if negb (character =? c_sp) then IOk (index, character =? c_eq)
      else equals_loop line n' index
    end
  end.

(* returns (next index, output, command) *)
Definition find_output_and_command (line : str) (start_index : nat)
  : ires (nat * option str * option str) :=
  match parse_next_value fl_out line start_index with
  | IPanic => IPanic
  | IErr e => IErr e
  | IOk (next_index, None) => IOk (next_index, None, None)
  | IOk (next_index, Some v) =>
    match equals_loop line (Nat.sub (length line) next_index) next_index with
    | IPanic => IPanic
    | IErr e => IErr e
    | IOk (index, true) =>
      match parse_next_value fl_name line index with
      | IPanic => IPanic
      | IErr e => IErr e
      | IOk (_, None) => IOk (index, Some v, None)
      | IOk (next2, Some cmd) => IOk (next2, Some v, Some cmd)
      end
    | IOk (_, false) => IOk (next_index, None, Some v)
    end
  end.

(* ---- parse_command_line / parse_pre_process_line / parse_line ------------------------------------ *)
Definition parse_command_line (line : str) (start_index : nat) : ires itype :=
  match line with
  | [] => IOk IEmpty
  | _ =>
    if Nat.leb (length line) start_index then IOk IEmpty
    else
      match find_label line start_index with
      | IPanic => IPanic
      | IErr e => IErr e
      | IOk (index, label) =>
        match find_output_and_command line index with
        | IPanic => IPanic
        | IErr e => IErr e
        | IOk (index2, output, command) =>
          match parse_arguments line index2 with
          | IPanic => IPanic
          | IErr e => IErr e
          | IOk args =>
            match label, output, command with
            | None, None, None => IOk IEmpty
            | _, _, _ => IOk (IScript label output command args)
            end
          end
        end
      end
  end.

Fixpoint pp_loop (line : str) (n : nat) (index : nat) (command : str) : ires (nat * str) :=
  match n with
  | O => IOk (index, rev command)
  | S n' =>
    match nth_error line index with
    | None => IPanic
    | Some character =>
      let index := S index in
      if character =? c_sp then
        match command with [] => pp_loop line n' index command | _ => IOk (index, rev command) end
      else pp_loop line n' index (character :: command)
    end
  end.

Definition parse_pre_process_line (line : str) (start_index : nat) : ires itype :=
  match line with
  | [] => IErr EPreProcessNoCommandFound
  | _ =>
    match pp_loop line (Nat.sub (length line) start_index) start_index [] with
    | IPanic => IPanic
    | IErr e => IErr e
    | IOk (index, command) =>
      match command with
      | [] => IErr EPreProcessNoCommandFound
      | _ =>
        match parse_arguments line index with
        | IPanic => IPanic
        | IErr e => IErr e
        | IOk args => IOk (IPre (Some command) args)
        end
      end
    end
  end.

Definition parse_line (s : str) : ires itype :=
  let chars := trim s in
  match chars with
  | [] => IOk IEmpty
  | _ =>
    match nth_error chars 0 with         (* starts_with("#"), then chars[0] *)
    | None => IPanic
    | Some c0 =>
      if c0 =? c_hash then IOk IEmpty
      else if c0 =? c_bang then parse_pre_process_line chars 1
      else parse_command_line chars 0
    end
  end.

(* ---- parse_lines / parse_text ------------------------------------------------------------------- *)
Inductive itres := ITOk (is : list instr) | ITErr (e : perr) (line : N) (source : option str) | ITPanic.

Section ParseLines.
Variable inc : list str -> option str -> tres.

Fixpoint parse_lines_from (src : option str) (ln : N) (ls : list str) : itres :=
  match ls with
  | [] => ITOk []
  | s :: ls' =>
    match parse_line s with
    | IPanic => ITPanic
    | IErr e => ITErr e ln src
    | IOk t =>
      match preprocess inc src ln t with
      | TErr e l s' => ITErr e l s'
      | TOk added =>
        match parse_lines_from src (ln + 1) ls' with
        | ITPanic => ITPanic
        | ITErr e l s' => ITErr e l s'
        | ITOk rest => ITOk ({| i_line := ln; i_source := src; i_type := t |} :: added ++ rest)
        end
      end
    end
  end.
End ParseLines.

Definition parse_text (text : str) : itres := parse_lines_from no_include None 1 (lines text).

(* the embedding of the suffix model's results *)
Definition inj_tres (r : tres) : itres :=
  match r with TOk is => ITOk is | TErr e l s => ITErr e l s end.
