(* FlowFnThms.v — the theorems of C05:
   * [fn_sim_ordered]: whole-program simulation for programs in which every function only calls
     functions defined after it (no call-graph cycles) and no return stands inside a for-in body;
   * [f6_refuted_return], [f6_refuted_recursion]: two well-formed KnownF6 programs on which the flat
     machine (the pinned for-in state, keyed by line) and the structured semantics differ. *)
Require Import DS.Base DS.FlowTables DS.FlowTablesWf DS.FlowScan DS.Flow DS.FlowTree DS.FlowScanProof
  DS.FlowLemmas DS.FlowFrame DS.FlowFn DS.FlowFnTree DS.FlowFnDom DS.FlowFnScan DS.FlowFnLemmas DS.FlowFnSim.
Require Import DSG.GenFlowNames DSG.GenFnNames.
Open Scope nat_scope.

Lemma ogs_pgs names (callable : str -> Prop) infn :
  (forall f, In f names -> callable f) ->
  (forall s, ogs names infn s = true -> pgs callable infn s) /\
  (forall b, ogb names infn b = true -> pgb callable infn b) /\
  (forall els, oge names infn els = true -> pge callable infn els).
Proof.
  intros Hc. apply fsyntax_ind.
  - intros p _. exact I.
  - intros sp c b IHb els IHe e H. cbn [ogs] in H.
    apply andb_prop in H; destruct H as [H H4]. apply andb_prop in H; destruct H as [H H3].
    apply andb_prop in H; destruct H as [H1 H2]. apply str_in_spec in H1. apply str_in_spec in H2.
    exact (conj H1 (conj H2 (conj (IHb H3) (IHe H4)))).
  - intros sp c b IHb e H. cbn [ogs] in H.
    apply andb_prop in H; destruct H as [H H3]. apply andb_prop in H; destruct H as [H1 H2].
    apply str_in_spec in H1. apply str_in_spec in H2. exact (conj H1 (conj H2 (IHb H3))).
  - intros sp x hv b IHb e H. cbn [ogs] in H.
    apply andb_prop in H; destruct H as [H H3]. apply andb_prop in H; destruct H as [H1 H2].
    apply str_in_spec in H1. apply str_in_spec in H2. exact (conj H1 (conj H2 (IHb H3))).
  - intros out f args H. cbn [ogs] in H.
    apply andb_prop in H; destruct H as [H H3]. apply andb_prop in H; destruct H as [H1 H2].
    apply str_in_spec in H1. apply Nat.leb_le in H3. exact (conj (Hc f H1) (conj H2 H3)).
  - intros sp a H. cbn [ogs] in H. apply andb_prop in H; destruct H as [H1 H2].
    apply str_in_spec in H2. exact (conj H1 H2).
  - intros _. exact I.
  - intros s IHs b IHb H. cbn [ogb] in H. apply andb_prop in H; destruct H as [H1 H2]. exact (conj (IHs H1) (IHb H2)).
  - intros _. exact I.
  - intros sp c b IHb r IHr H. cbn [oge] in H.
    apply andb_prop in H; destruct H as [H H3]. apply andb_prop in H; destruct H as [H1 H2].
    apply str_in_spec in H1. exact (conj H1 (conj (IHb H2) (IHr H3))).
  - intros sp b IHb H. cbn [oge] in H. apply andb_prop in H; destruct H as [H1 H2].
    apply str_in_spec in H1. exact (conj H1 (IHb H2)).
Qed.

(* ---- runs of the fuelled runner -------------------------------------------------------------------- *)
Lemma frun_steps P : forall m c l' s', fsteps m P c = Some (l', s') -> nth_error P l' = None ->
  frun (S m) P (fst c) (snd c) = FDone s'.
Proof.
  induction m as [|m IH]; intros [l s] l' s' H Hn.
  - cbn in H. inversion H; subst. cbn [frun fst snd]. unfold frun_body. now rewrite Hn.
  - cbn [fsteps] in H. destruct (fstep1 P (l, s)) as [[l1 s1]|] eqn:E1; [|discriminate].
    specialize (IH (l1, s1) l' s' H Hn). cbn [fst snd] in *.
    unfold fstep1 in E1. change (frun (S (S m)) P l s) with (frun_body (frun (S m) P) P l s).
    unfold frun_body. destruct (nth_error P l) as [i|]; [|discriminate].
    destruct (fstep P l i s) as [[] s2]; inversion E1; subst; exact IH.
Qed.
Lemma frun_mono P : forall fuel l s s', frun fuel P l s = FDone s' ->
  forall k, fuel <= k -> frun k P l s = FDone s'.
Proof.
  induction fuel as [|fuel IH]; intros l s s' H k Hk; [discriminate|].
  destruct k as [|k]; [lia|].
  change (frun_body (frun fuel P) P l s = FDone s') in H.
  change (frun_body (frun k P) P l s = FDone s').
  unfold frun_body in *. destruct (nth_error P l) as [i|]; [|exact H].
  destruct (fstep P l i s) as [[] s2]; try discriminate; apply IH; auto; lia.
Qed.

(* ---- the definitions prelude ------------------------------------------------------------------------ *)
Section Prelude.
Variable pr : prog.
Hypothesis TW : tables_wf = true.
Hypothesis OP : ordered_prog pr = true.
Let ds := p_defs pr.
Let P := compile_prog pr.
Let M := length (gdefs ds).

Lemma ordered_parts : ordered_defs ds = true /\ ogb (map fd_name ds) false (p_main pr) = true /\
                      nfr_b (p_main pr) = true.
Proof.
  unfold ordered_prog in OP. apply andb_prop in OP. destruct OP as [H H3].
  apply andb_prop in H. destruct H as [H1 H2]. auto.
Qed.

End Prelude.

(* ---- layout of an ordered list of definitions ------------------------------------------------------ *)
Lemma layout_name l : forall s0 d s, In (d, s) (layout l s0) -> In (fd_name d) (map fd_name l).
Proof.
  induction l as [|d0 r IH]; intros s0 d s H; cbn [layout In map] in *; [contradiction|].
  destruct H as [E|H]; [inversion E; now left|right; eauto].
Qed.
Lemma find_in_layout r : forall s1 f, In f (map fd_name r) ->
  exists d' s', find_def f r = Some d' /\ In (d', s') (layout r s1) /\ s1 <= s'.
Proof.
  induction r as [|d1 r IH]; intros s1 f Hin; cbn [map In find_def layout] in *; [contradiction|].
  destruct (str_eqb f (fd_name d1)) eqn:Ef.
  - exists d1, s1. split; [reflexivity|]. split; [now left|lia].
  - destruct Hin as [E|Hin]; [apply str_eqb_neq in Ef; congruence|].
    destruct (IH (s1 + length (gdef d1)) f Hin) as (d2 & s2 & A & B & C).
    exists d2, s2. split; [exact A|]. split; [now right|lia].
Qed.
Lemma ordered_layout : forall (l : list fndef) s0, ordered_defs l = true ->
  forall d s, In (d, s) (layout l s0) ->
    In (fd_sp d) n_function /\ In (fd_end d) fn_closers /\ free_name (fd_name d) = true /\
    nfr_b (fd_body d) = true /\ find_def (fd_name d) l = Some d /\
    exists later, ogb later true (fd_body d) = true /\
                  (forall f, In f later ->
                     exists d' s', find_def f l = Some d' /\ In (d', s') (layout l s0) /\ s + length (gdef d) <= s').
Proof.
  induction l as [|d0 r IH]; intros s0 Ho d s Hin; cbn [layout In ordered_defs] in *; [contradiction|].
  apply andb_prop in Ho; destruct Ho as [Ho Hrest].
  apply andb_prop in Ho; destruct Ho as [Ho Hnfr].
  apply andb_prop in Ho; destruct Ho as [Ho Hbody].
  apply andb_prop in Ho; destruct Ho as [Ho Hfresh].
  apply andb_prop in Ho; destruct Ho as [Ho Hfree].
  apply andb_prop in Ho; destruct Ho as [Hsp Hend].
  apply negb_true_iff in Hfresh. apply str_in_spec in Hsp. apply str_in_spec in Hend.
  assert (Hne : forall f, In f (map fd_name r) -> str_eqb f (fd_name d0) = false).
  { intros f Hf. destruct (str_eqb f (fd_name d0)) eqn:Ef; [|reflexivity].
    apply str_eqb_eq in Ef. subst f. apply str_in_spec in Hf. congruence. }
  destruct Hin as [E|Hin].
  - inversion E; subst d0 s0. split; [exact Hsp|]. split; [exact Hend|]. split; [exact Hfree|].
    split; [exact Hnfr|]. split; [cbn [find_def]; now rewrite str_eqb_refl|].
    exists (map fd_name r). split; [exact Hbody|]. intros f Hf.
    destruct (find_in_layout r (s + length (gdef d)) f Hf) as (d' & s' & A & B & C).
    exists d', s'. cbn [find_def]. rewrite (Hne f Hf). split; [exact A|]. split; [now right|exact C].
  - destruct (IH (s0 + length (gdef d0)) Hrest d s Hin) as (A & B & C & D & E & later & F & G).
    split; [exact A|]. split; [exact B|]. split; [exact C|]. split; [exact D|].
    split.
    + cbn [find_def]. rewrite (Hne (fd_name d) (layout_name r _ d s Hin)). exact E.
    + exists later. split; [exact F|]. intros f Hf. destruct (G f Hf) as (d' & s' & A' & B' & C').
      exists d', s'. cbn [find_def].
      assert (Hf' : In f (map fd_name r)).
      { rewrite <- (find_def_name _ _ _ A'). eapply layout_name; eauto. }
      rewrite (Hne f Hf'). split; [exact A'|]. split; [now right|exact C'].
Qed.

(* ---- running the definitions ------------------------------------------------------------------------ *)
Fixpoint reg (todo : list fndef) (s0 : nat) (f : flow) (g : fnst) : flow * fnst :=
  match todo with
  | [] => (f, g)
  | d :: r =>
    reg r (s0 + length (gdef d)) (end_set (d_end d s0) gen_endfunction_name f)
        (mkFS (aset str_eqb (fd_name d) (mkFM s0 (d_end d s0) (fd_scoped d)) (fs_meta g)) (fs_stk g) (fs_scopes g))
  end.

Lemma aget_aset_str_same {B} k (v : B) l : aget str_eqb k (aset str_eqb k v l) = Some v.
Proof.
  induction l as [|[k' v'] l IH]; cbn.
  - now rewrite str_eqb_refl.
  - destruct (str_eqb k k') eqn:E; cbn; rewrite ?str_eqb_refl, ?E; auto.
Qed.
Lemma aget_aset_str_other {B} k k' (v : B) l : k <> k' ->
  aget str_eqb k (aset str_eqb k' v l) = aget str_eqb k l.
Proof.
  intros Hne. induction l as [|[k2 v2] l IH]; cbn.
  - destruct (str_eqb_spec k k'); congruence.
  - destruct (str_eqb_spec k' k2); cbn.
    + subst. destruct (str_eqb_spec k k2); congruence.
    + destruct (str_eqb_spec k k2); auto.
Qed.

Lemma reg_props : forall todo s0 f g,
  let r := reg todo s0 f g in
  f_ifmeta (fst r) = f_ifmeta f /\ f_whmeta (fst r) = f_whmeta f /\ f_formeta (fst r) = f_formeta f /\
  f_ifstk (fst r) = f_ifstk f /\ f_whstk (fst r) = f_whstk f /\ f_forstk (fst r) = f_forstk f /\
  fs_stk (snd r) = fs_stk g /\ fs_scopes (snd r) = fs_scopes g /\
  (forall name, ~ In name (map fd_name todo) -> aget str_eqb name (fs_meta (snd r)) = aget str_eqb name (fs_meta g)) /\
  (forall l, l < s0 -> aget Nat.eqb l (f_end (fst r)) = aget Nat.eqb l (f_end f)).
Proof.
  induction todo as [|d r IH]; intros s0 f g; cbn [reg].
  - cbn. repeat split; auto.
  - specialize (IH (s0 + length (gdef d)) (end_set (d_end d s0) gen_endfunction_name f)
                   (mkFS (aset str_eqb (fd_name d) (mkFM s0 (d_end d s0) (fd_scoped d)) (fs_meta g)) (fs_stk g) (fs_scopes g))).
    cbv zeta in *. destruct IH as (A1 & A2 & A3 & A4 & A5 & A6 & A7 & A8 & A9 & A10).
    cbn [end_set set_end f_ifmeta f_whmeta f_formeta f_ifstk f_whstk f_forstk fs_stk fs_scopes fs_meta f_end] in *.
    split; [exact A1|]. split; [exact A2|]. split; [exact A3|]. split; [exact A4|]. split; [exact A5|].
    split; [exact A6|]. split; [exact A7|]. split; [exact A8|]. split.
    + intros name Hn.
      assert (H1 : ~ In name (map fd_name r)) by (intros H; apply Hn; right; exact H).
      assert (H2 : name <> fd_name d) by (intros E; apply Hn; left; symmetry; exact E).
      rewrite A9 by exact H1. apply aget_aset_str_other. exact H2.
    + intros l Hl. rewrite A10 by (rewrite gdef_length; lia). apply aget_aset_other. unfold d_end. lia.
Qed.

Lemma reg_defs : forall todo s0 f g, distinct (map fd_name todo) = true ->
  forall d s, In (d, s) (layout todo s0) ->
    aget str_eqb (fd_name d) (fs_meta (snd (reg todo s0 f g))) = Some (mkFM s (d_end d s) (fd_scoped d)) /\
    aget Nat.eqb (d_end d s) (f_end (fst (reg todo s0 f g))) = Some gen_endfunction_name.
Proof.
  induction todo as [|d0 r IH]; intros s0 f g Hd d s Hin; cbn [layout In reg map distinct] in *; [contradiction|].
  apply andb_prop in Hd. destruct Hd as [Hfresh Hd]. apply negb_true_iff in Hfresh.
  destruct Hin as [E|Hin].
  - inversion E; subst d0 s0.
    destruct (reg_props r (s + length (gdef d)) (end_set (d_end d s) gen_endfunction_name f)
               (mkFS (aset str_eqb (fd_name d) (mkFM s (d_end d s) (fd_scoped d)) (fs_meta g)) (fs_stk g) (fs_scopes g)))
      as (_ & _ & _ & _ & _ & _ & _ & _ & A9 & A10).
    split.
    + rewrite A9; [cbn [fs_meta]; apply aget_aset_str_same|].
      intros Hc. apply str_in_spec in Hc. congruence.
    + rewrite A10 by (rewrite gdef_length; unfold d_end; lia). cbn. apply aget_aset_same.
  - eapply IH; eauto.
Qed.

Section Main.
Variable pr : prog.
Hypothesis TW : tables_wf = true.
Hypothesis OP : ordered_prog pr = true.
Let ds := p_defs pr.
Let P := compile_prog pr.
Let M := length (gdefs ds).

Lemma ordered_distinct : forall l, ordered_defs l = true -> distinct (map fd_name l) = true.
Proof.
  induction l as [|d r IH]; intros H; cbn [ordered_defs map distinct] in *; [reflexivity|].
  apply andb_prop in H; destruct H as [H Hrest]. apply andb_prop in H; destruct H as [H _].
  apply andb_prop in H; destruct H as [H _]. apply andb_prop in H; destruct H as [_ Hfresh].
  rewrite Hfresh. auto.
Qed.

Lemma Hdefs_main : forall d s, DefAt pr d s ->
  In (fd_sp d) n_function /\ In (fd_end d) fn_closers /\
  pgb (callable_at pr (s + length (gdef d))) true (fd_body d) /\ nfr_b (fd_body d) = true /\
  find_def (fd_name d) ds = Some d.
Proof.
  intros d s Hd. destruct (ordered_parts pr OP) as (Ho & _ & _).
  destruct (ordered_layout ds 0 Ho d s Hd) as (A & B & C & D & E & later & F & G).
  split; [exact A|]. split; [exact B|]. split; [|split; [exact D|exact E]].
  eapply (proj1 (proj2 (ogs_pgs later (callable_at pr (s + length (gdef d))) true _))); [exact F].
  Unshelve. intros f Hf. destruct (G f Hf) as (d' & s' & A' & B' & C'). exists d', s'. auto.
Qed.

(* one [fn] line *)
Lemma fn_step d s w f g : DefAt pr d s -> aget str_eqb (fd_name d) (fs_meta g) = None ->
  fstep1 P (s, (w, f, g))
  = Some (s + length (gdef d),
          (w, end_set (d_end d s) gen_endfunction_name f,
           mkFS (aset str_eqb (fd_name d) (mkFM s (d_end d s) (fd_scoped d)) (fs_meta g)) (fs_stk g) (fs_scopes g))).
Proof.
  intros Hd Hnone. destruct (Hdefs_main d s Hd) as (Hsp & Hend & Hbody & _ & _).
  destruct (DefAt_placed pr d s Hd) as (Hp & _). fold P in Hp. unfold gdef in Hp.
  eapply fstep1_goto; [eapply fplaced_nth; exact Hp|].
  unfold fstep. cbn [fi_cmd fi_arg fkw].
  destruct (fcl_parts) as (Hf & _ & _). rewrite (Hf _ Hsp).
  unfold step_function. rewrite Hnone.
  rewrite (gfn_meta_placed P (callable_at pr (s + length (gdef d))) s (fd_sp d) (fd_scoped d) (fd_name d)
             (fd_body d) (fd_end d) Hp Hbody Hend).
  fold (d_end d s). rewrite gdef_length. unfold d_end. do 2 f_equal. lia.
Qed.

Lemma prelude_runs : forall todo s0 w f g,
  (forall d s, In (d, s) (layout todo s0) -> DefAt pr d s) ->
  distinct (map fd_name todo) = true ->
  (forall name, In name (map fd_name todo) -> aget str_eqb name (fs_meta g) = None) ->
  fruns P (s0, (w, f, g)) (s0 + length (gdefs todo), (w, fst (reg todo s0 f g), snd (reg todo s0 f g))).
Proof.
  induction todo as [|d r IH]; intros s0 w f g Hall Hd Hnone; cbn [gdefs reg length].
  - rewrite Nat.add_0_r. apply fruns_refl.
  - cbn [map distinct] in Hd. apply andb_prop in Hd. destruct Hd as [Hfresh Hd]. apply negb_true_iff in Hfresh.
    rewrite app_length, Nat.add_assoc.
    eapply fruns_step_then.
    + apply fn_step; [apply Hall; now left|apply Hnone; now left].
    + apply IH; auto.
      * intros d' s' Hin. apply Hall. now right.
      * intros name Hin. cbn [fs_meta]. rewrite aget_aset_str_other.
        -- apply Hnone. now right.
        -- intros ->. apply str_in_spec in Hin. congruence.
Qed.

Theorem fn_sim_ordered : forall n w w', prog_run n pr w = FOk w' ->
  exists fuel f' g', (forall k, fuel <= k -> frun_program k P w = FDone (w', f', g')) /\
                     f_forstk f' = [] /\ fs_stk g' = [] /\ fs_scopes g' = [].
Proof.
  intros n w w' Hrun. destruct (ordered_parts pr OP) as (Ho & Hmain & Hnfr).
  pose proof (ordered_distinct ds Ho) as Hdist.
  set (r := reg ds 0 flow0 fnst0).
  assert (Rpre : fruns P (0, (w, flow0, fnst0)) (M, (w, fst r, snd r))).
  { apply (prelude_runs ds 0 w flow0 fnst0); auto. }
  destruct (reg_props ds 0 flow0 fnst0) as (A1 & A2 & A3 & A4 & A5 & A6 & A7 & A8 & _ & _). fold r in A1, A2, A3, A4, A5, A6, A7, A8.
  assert (HI : Inv (map down P) (fst r)).
  { unfold Inv. rewrite A1, A2, A3. apply Inv_flow0. }
  assert (HF : FnInv pr (snd r)).
  { intros d s Hd. apply (reg_defs ds 0 flow0 fnst0 Hdist d s Hd). }
  assert (HE : EndInv pr (fst r)).
  { intros d s Hd. apply (reg_defs ds 0 flow0 fnst0 Hdist d s Hd). }
  destruct (gsim_all pr TW Hdefs_main n) as (_ & Hb & _ & _).
  assert (Hpm : fplaced P M (gb (p_main pr))).
  { exists (gdefs ds), []. split; [unfold P, compile_prog; now rewrite app_nil_r|reflexivity]. }
  assert (Hwm : pgb (callable_at pr 0) false (p_main pr)).
  { eapply (proj1 (proj2 (ogs_pgs (map fd_name ds) (callable_at pr 0) false _))); [exact Hmain].
    Unshelve. intros f Hf. destruct (find_in_layout ds 0 f Hf) as (d' & s' & A & B & C). exists d', s'. auto. }
  assert (Hready : ready pr 0 false M (M + length (gb (p_main pr))) (fst r) (snd r)).
  { unfold ready. fold ds. fold M. split; [lia|]. split; [right; lia|]. split.
    - intros l Hl (d & s & Hd & E). destruct (DefAt_placed pr d s Hd) as (_ & Hb0). fold ds in Hb0. fold M in Hb0.
      rewrite gdef_length in Hb0. unfold d_end in E. lia.
    - split; [exact HI|]. split; [exact HE|]. split; [exact HF|]. split.
      + unfold fout. rewrite A6. constructor.
      + intros Hc. discriminate. }
  pose proof (Hb 0 false (p_main pr) w M (fst r) (snd r) Hwm Hnfr Hpm Hready) as Hpost.
  unfold prog_run in Hrun. unfold ds in Hpost. rewrite Hrun in Hpost. cbn [post] in Hpost.
  destruct Hpost as (f' & R' & I' & F').
  destruct (fruns_trans P _ _ _ Rpre R') as (m & Hm).
  exists (S m), f', (snd r). split; [|split; [|split]].
  - intros k Hk. unfold frun_program. eapply frun_mono; [|exact Hk].
    apply (frun_steps P m (0, (w, flow0, fnst0)) _ _ Hm).
    apply nth_error_None. unfold P, compile_prog. rewrite app_length. fold ds. fold M. lia.
  - rewrite (gf_for _ _ _ F'). exact A6.
  - exact A7.
  - exact A8.
Qed.
End Main.

(* ---- F6: two witnesses ------------------------------------------------------------------------------ *)
Open Scope N_scope.
Definition s_h : str := [104]. Definition s_x : str := [120]. Definition s_f : str := [102].
Definition s_end : str := gen_end_name.
(* fn f / for x in ${h} / return ${x} / end / end ; h = array a b c ; x = f ; y = f ; z = f *)
Definition f6_return : prog :=
  mkProg [mkFD [102;110] false s_f
            (GCons (GFor [102;111;114] s_x s_h (GCons (GReturn [114;101;116;117;114;110] (Some (AVar s_x))) GNil) s_end) GNil)
            s_end]
         (GCons (GCmd (PArr s_h [[97]; [98]; [99]]))
         (GCons (GCall (Some [117]) s_f [])
         (GCons (GCall (Some [118]) s_f [])
         (GCons (GCall (Some [119]) s_f []) GNil)))).
(* fn f / emit in ${1} / for x in ${h} / if next c / f inner / end / emit it ${1} ${x} / end / end ;
   h = array a b ; f outer         with c = "T" *)
Definition s_c : str := [99].
Definition f6_recursion : prog :=
  mkProg [mkFD [102;110] false s_f
            (GCons (GCmd (PEmit [105;110] [[49]]))
            (GCons (GFor [102;111;114] s_x s_h
                      (GCons (GIf [105;102] (CNext s_c) (GCons (GCall None s_f [ALit [105]]) GNil) HNil s_end)
                      (GCons (GCmd (PEmit [105;116] [[49]; s_x])) GNil)) s_end) GNil))
            s_end]
         (GCons (GCmd (PArr s_h [[97]; [98]]))
         (GCons (GCall None s_f [ALit [111]]) GNil)).

Lemma f6_refuted_return :
  wf_prog f6_return = true /\ known_f6 f6_return = true /\
  exists ws wf ff sf, prog_run 50%nat f6_return world0 = FOk ws /\
                   frun_program 200%nat (compile_prog f6_return) world0 = FDone (wf, ff, sf) /\
                   vget [117] ws = Some [97] /\ vget [118] ws = Some [97] /\ vget [119] ws = Some [97] /\
                   vget [118] wf = Some [98] /\ vget [119] wf = Some [99].
Proof.
  split; [vm_compute; reflexivity|]. split; [vm_compute; reflexivity|].
  eexists. eexists. eexists. eexists. split; [vm_compute; reflexivity|]. split; [vm_compute; reflexivity|].
  repeat split; vm_compute; reflexivity.
Qed.
Lemma f6_refuted_recursion :
  wf_prog f6_recursion = true /\ known_f6 f6_recursion = true /\
  (exists ws, prog_run 50%nat f6_recursion (mkW [(s_c, [84])] [] [] 0) = FOk ws /\ length (w_trace ws) = 6%nat) /\
  (exists l s, frun_program 200%nat (compile_prog f6_recursion) (mkW [(s_c, [84])] [] [] 0)
               = FStopped l (RError 5) s).
Proof.
  split; [vm_compute; reflexivity|]. split; [vm_compute; reflexivity|]. split.
  - eexists. split; vm_compute; reflexivity.
  - eexists. eexists. vm_compute. reflexivity.
Qed.
