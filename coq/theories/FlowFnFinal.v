(* FlowFnFinal.v — C05_sim: the boolean side conditions [wf_prog] and [known_f6 = false] imply the
   propositional hypotheses of [rec_sim_prop]. *)
Require Import DS.Base DS.FlowTables DS.FlowTablesWf DS.FlowScan DS.Flow DS.FlowFn DS.FlowFnTree DS.FlowFnDom
  DS.FlowFnScan DS.FlowFnLemmas DS.FlowFnSim DS.FlowFnSites DS.FlowFnThms DS.FlowFnRec DS.FlowFnRecThms DS.FlowFnReach.
Require Import DSG.GenFlowNames DSG.GenFnNames.
Open Scope nat_scope.

Lemma tables_closed_ok : tables_closed = true.
Proof. vm_compute; reflexivity. Qed.

Lemma not_reserved_free f : reserved f = false -> free_name f = true.
Proof.
  unfold reserved. intros H. apply orb_false_elim in H. destruct H as [H1 H2].
  apply negb_false_iff in H1.
  assert (Hk : classify_fn f = FKBase KOther) by (destruct (classify_fn f) as [[]| | |]; try discriminate; reflexivity).
  unfold free_name. rewrite Hk, H2. cbn [negb]. apply andb_true_intro. split; [|reflexivity].
  apply andb_true_intro. split; [|reflexivity].
  apply forallb_forall. intros T HT.
  pose proof tables_closed_ok as C. unfold tables_closed in C. rewrite forallb_forall in C.
  specialize (C T HT). rewrite forallb_forall in C.
  assert (Hnot : forall l, incl l (starts T ++ middles T ++ ends T ++ sblocks T ++ eblocks T) -> str_in f l = false).
  { intros l Hl. destruct (str_in f l) eqn:E; [|reflexivity]. apply str_in_spec in E.
    specialize (C f (Hl f E)). rewrite Hk in C. discriminate. }
  unfold inert.
  rewrite (Hnot (starts T)), (Hnot (middles T)), (Hnot (ends T)), (Hnot (sblocks T)), (Hnot (eblocks T)); [reflexivity| | | | |].
  - do 4 apply incl_appr. apply incl_refl.
  - do 3 apply incl_appr. apply incl_appl. apply incl_refl.
  - do 2 apply incl_appr. apply incl_appl. apply incl_refl.
  - apply incl_appr. apply incl_appl. apply incl_refl.
  - apply incl_appl. apply incl_refl.
Qed.

Lemma wgs_pgs names (callable : str -> Prop) infn :
  (forall f, In f names -> callable f /\ free_name f = true) ->
  (forall s, wgs names infn s = true -> pgs callable infn s) /\
  (forall b, wgb names infn b = true -> pgb callable infn b) /\
  (forall els, wge names infn els = true -> pge callable infn els).
Proof.
  intros Hc. apply fsyntax_ind.
  - intros p _. exact I.
  - intros sp c b IHb els IHe e H. cbn [wgs] in H.
    apply andb_prop in H; destruct H as [H H4]. apply andb_prop in H; destruct H as [H H3].
    apply andb_prop in H; destruct H as [H1 H2]. apply str_in_spec in H1. apply str_in_spec in H2.
    exact (conj H1 (conj H2 (conj (IHb H3) (IHe H4)))).
  - intros sp c b IHb e H. cbn [wgs] in H.
    apply andb_prop in H; destruct H as [H H3]. apply andb_prop in H; destruct H as [H1 H2].
    apply str_in_spec in H1. apply str_in_spec in H2. exact (conj H1 (conj H2 (IHb H3))).
  - intros sp x hv b IHb e H. cbn [wgs] in H.
    apply andb_prop in H; destruct H as [H H3]. apply andb_prop in H; destruct H as [H1 H2].
    apply str_in_spec in H1. apply str_in_spec in H2. exact (conj H1 (conj H2 (IHb H3))).
  - intros out f args H. cbn [wgs] in H. apply andb_prop in H; destruct H as [H1 H3].
    apply str_in_spec in H1. apply Nat.leb_le in H3. destruct (Hc f H1) as (A & B).
    exact (conj A (conj B H3)).
  - intros sp a H. cbn [wgs] in H. apply andb_prop in H; destruct H as [H1 H2].
    apply str_in_spec in H2. exact (conj H1 H2).
  - intros _. exact I.
  - intros s IHs b IHb H. cbn [wgb] in H. apply andb_prop in H; destruct H as [H1 H2]. exact (conj (IHs H1) (IHb H2)).
  - intros _. exact I.
  - intros sp c b IHb r IHr H. cbn [wge] in H.
    apply andb_prop in H; destruct H as [H H3]. apply andb_prop in H; destruct H as [H1 H2].
    apply str_in_spec in H1. exact (conj H1 (conj (IHb H2) (IHr H3))).
  - intros sp b IHb H. cbn [wge] in H. apply andb_prop in H; destruct H as [H1 H2].
    apply str_in_spec in H1. exact (conj H1 (IHb H2)).
Qed.

(* for-in bodies without return <-> nfr *)
Lemma nfr_of_bodies :
  (forall s, (forall B, In B (for_bodies_s s) -> has_return_b B = false) -> nfr_s s = true) /\
  (forall b, (forall B, In B (for_bodies_b b) -> has_return_b B = false) -> nfr_b b = true) /\
  (forall els, (forall B, In B (for_bodies_e els) -> has_return_b B = false) -> nfr_e els = true).
Proof.
  apply fsyntax_ind; cbn [nfr_s nfr_b nfr_e for_bodies_s for_bodies_b for_bodies_e]; try reflexivity.
  - intros sp c b IHb els IHe e H. rewrite IHb, IHe; auto; intros B HB; apply H; apply in_or_app; auto.
  - intros sp c b IHb e H. auto.
  - intros sp x hv b IHb e H. rewrite (H b (or_introl eq_refl)), IHb; auto. intros B HB. apply H. now right.
  - intros s IHs b IHb H. rewrite IHs, IHb; auto; intros B HB; apply H; apply in_or_app; auto.
  - intros sp c b IHb r IHr H. rewrite IHb, IHr; auto; intros B HB; apply H; apply in_or_app; auto.
  - intros sp b IHb H. auto.
Qed.

(* outside functions there is no return at all *)
Lemma wg_no_return names :
  (forall s, wgs names false s = true -> has_return_s s = false /\ forall B, In B (for_bodies_s s) -> has_return_b B = false) /\
  (forall b, wgb names false b = true -> has_return_b b = false /\ forall B, In B (for_bodies_b b) -> has_return_b B = false) /\
  (forall els, wge names false els = true -> has_return_e els = false /\ forall B, In B (for_bodies_e els) -> has_return_b B = false).
Proof.
  apply fsyntax_ind; cbn [wgs wgb wge has_return_s has_return_b has_return_e for_bodies_s for_bodies_b for_bodies_e].
  - intros p _. split; [reflexivity|intros B []].
  - intros sp c b IHb els IHe e H.
    apply andb_prop in H; destruct H as [H H4]. apply andb_prop in H; destruct H as [H H3].
    destruct (IHb H3) as (A1 & A2). destruct (IHe H4) as (B1 & B2). rewrite A1, B1. split; [reflexivity|].
    intros B HB. apply in_app_or in HB. destruct HB; auto.
  - intros sp c b IHb e H. apply andb_prop in H; destruct H as [H H3]. exact (IHb H3).
  - intros sp x hv b IHb e H. apply andb_prop in H; destruct H as [H H3]. destruct (IHb H3) as (A1 & A2).
    split; [exact A1|]. intros B [<-|HB]; auto.
  - intros out f args _. split; [reflexivity|intros B []].
  - intros sp a H. discriminate.
  - intros _. split; [reflexivity|intros B []].
  - intros s IHs b IHb H. apply andb_prop in H; destruct H as [H1 H2].
    destruct (IHs H1) as (A1 & A2). destruct (IHb H2) as (B1 & B2). rewrite A1, B1. split; [reflexivity|].
    intros B HB. apply in_app_or in HB. destruct HB; auto.
  - intros _. split; [reflexivity|intros B []].
  - intros sp c b IHb r IHr H. apply andb_prop in H; destruct H as [H H3]. apply andb_prop in H; destruct H as [H1 H2].
    destruct (IHb H2) as (A1 & A2). destruct (IHr H3) as (B1 & B2). rewrite A1, B1. split; [reflexivity|].
    intros B HB. apply in_app_or in HB. destruct HB; auto.
  - intros sp b IHb H. apply andb_prop in H; destruct H as [H1 H2]. exact (IHb H2).
Qed.

Lemma layout_In l : forall s0 d s, In (d, s) (layout l s0) -> In d l.
Proof.
  induction l as [|d0 r IH]; intros s0 d s H; cbn [layout In] in *; [contradiction|].
  destruct H as [E|H]; [inversion E; now left|right; eauto].
Qed.
Lemma distinct_find l : distinct (map fd_name l) = true -> forall d, In d l -> find_def (fd_name d) l = Some d.
Proof.
  induction l as [|d0 r IH]; intros H d Hd; [contradiction|]. cbn [map distinct] in H.
  apply andb_prop in H. destruct H as [Hf Hr]. apply negb_true_iff in Hf. cbn [find_def].
  destruct Hd as [->|Hd]; [now rewrite str_eqb_refl|].
  destruct (str_eqb (fd_name d) (fd_name d0)) eqn:E; [|auto].
  apply str_eqb_eq in E. assert (Hc : str_in (fd_name d0) (map fd_name r) = true).
  { apply str_in_spec. rewrite <- E. now apply in_map. }
  congruence.
Qed.

Theorem rec_sim p : tables_wf = true -> wf_prog p = true -> known_f6 p = false ->
  forall n w w', prog_run n p w = FOk w' ->
  exists fuel f' g', (forall k, fuel <= k -> frun_program k (compile_prog p) w = FDone (w', f', g')) /\
                     f_forstk f' = [] /\ fs_stk g' = [] /\ fs_scopes g' = [].
Proof.
  intros TW Hwf Hk6.
  unfold wf_prog in Hwf. apply andb_prop in Hwf. destruct Hwf as [Hwf Hmain].
  apply andb_prop in Hwf. destruct Hwf as [Hdist Hdefs]. rewrite forallb_forall in Hdefs.
  set (ds := p_defs p) in *. set (names := map fd_name ds) in *.
  assert (Hnames : forall f, In f names -> callable p f /\ free_name f = true).
  { intros f Hf. split.
    - destruct (find_in_layout ds 0 f Hf) as (d' & s' & A & B & _). exists d', s'. auto.
    - apply in_map_iff in Hf. destruct Hf as (d & <- & Hd). specialize (Hdefs d Hd). unfold wf_def in Hdefs.
      apply andb_prop in Hdefs; destruct Hdefs as [H _]. apply andb_prop in H; destruct H as [_ H].
      apply negb_true_iff in H. now apply not_reserved_free. }
  assert (Hk : forall d, In d ds -> forall B, In B (for_bodies_b (fd_body d)) ->
               has_return_b B = false /\ str_in (fd_name d) (reach (length ds) ds (calls_b B)) = false).
  { intros d Hd B HB. unfold known_f6 in Hk6. fold ds in Hk6.
    pose proof (existsb_false _ _ Hk6 d Hd) as H. cbv beta in H. apply orb_false_elim in H. destruct H as [H1 H2].
    split; [exact (existsb_false _ _ H1 B HB)|exact (existsb_false _ _ H2 B HB)]. }
  apply rec_sim_prop; auto.
  - intros d s Hd. pose proof (layout_In _ _ _ _ Hd) as Hin. specialize (Hdefs d Hin). unfold wf_def in Hdefs.
    apply andb_prop in Hdefs; destruct Hdefs as [H Hb]. apply andb_prop in H; destruct H as [H _].
    apply andb_prop in H; destruct H as [H1 H2]. apply str_in_spec in H1. apply str_in_spec in H2.
    split; [exact H1|]. split; [exact H2|]. split; [|split].
    + apply (proj1 (proj2 (wgs_pgs names (callable p) true Hnames))). exact Hb.
    + apply (proj1 (proj2 nfr_of_bodies)). intros B HB. apply (Hk d Hin B HB).
    + apply distinct_find; auto.
  - intros d s Hd B HB. pose proof (layout_In _ _ _ _ Hd) as Hin. destruct (Hk d Hin B HB) as (H1 & H2).
    split; [exact H1|]. intros f' Hf' Hr.
    assert (Hc : In (fd_name d) (reach (length ds) ds (calls_b B))) by (eapply (reach_complete p); eauto).
    apply str_in_spec in Hc. congruence.
  - split.
    + apply (proj1 (proj2 (wgs_pgs names (callable p) false Hnames))). exact Hmain.
    + apply (proj1 (proj2 nfr_of_bodies)). apply (proj1 (proj2 (wg_no_return names))). exact Hmain.
Qed.
