(* ScriptBodyGen.v — C19: the obligations on the regenerated scripts (re-proved by computation on
   every run), the soundness theorems instantiated to the script table of the current tree, what
   the static condition check buys, and the counterexample to the theorem without its "flag down"
   hypothesis. *)
From stdpp Require Import gmap.
Require Import DS.Base DS.Parser DS.Expansion DS.ExpansionSpec DS.ExpansionFacts DS.EvalSer DS.EvalSerFacts DS.Cond DS.ScriptConf.
Require Import DS.AliasCmd DS.AliasCmdProof DS.Runner DS.SdkErr DS.ScriptBody DS.ScriptBodyProof DS.ScriptBodyToy.
Require DSG.GenScripts.
Local Open Scope nat_scope.

(* ---- computation on the regenerated table ----------------------------------------------------- *)
Lemma gen_table_ok_s : table_ok_s gen_table = true.
Proof. vm_compute. reflexivity. Qed.
Lemma gen_scripts_confined_s : all_scripts_confined_s = true.
Proof. vm_compute. reflexivity. Qed.
Lemma gen_table_nonempty : (5 <=? length gen_table) = true.
Proof. vm_compute. reflexivity. Qed.
(* every script parses, so [entry_of] took the parsed body and not the [] fallback *)
Lemma gen_table_parsed :
  forallb (fun s => match parse_text (DSG.GenScripts.sc_text s) with TOk _ => true | _ => false end)
          DSG.GenScripts.gen_scripts = true.
Proof. vm_compute. reflexivity. Qed.

Lemma table_ok_s_ok t : table_ok_s t = true -> table_ok t = true.
Proof.
  unfold table_ok_s, table_ok. rewrite !forallb_forall. intros H s Hs. specialize (H s Hs).
  rewrite forallb_forall in *. intros i Hi. specialize (H i Hi). unfold instr_ok_s in H.
  now apply andb_prop in H.
Qed.
Lemma gen_table_ok : table_ok gen_table = true.
Proof. apply table_ok_s_ok, gen_table_ok_s. Qed.

Lemma scope_in_entry t s : In s t -> scope_in t (se_scope s).
Proof. intros H. exists s. now split. Qed.

(* ---- the soundness theorems on the current tree ------------------------------------------------ *)
Section Gen.
Variable ustate : Type.
Variable fresh : handles -> str.
Variable store_args : str -> list str -> ustate -> ustate.
Variable drop_handle : str -> ustate -> ustate.
Variable set_ctx : str -> ustate -> str * ustate.
Variable nexists : ustate -> str -> bool.
Variable ncmd : str -> list Runner.instr -> inv -> nat_t ustate.
Variable cond_pre : str -> list Runner.instr -> inv -> vmap -> handles -> ustate -> option result * vmap * handles * ustate.
Variable cond_post : str -> list Runner.instr -> inv -> option bool -> nat_t ustate.
Hypothesis FHyp : frame_hyps ustate ncmd cond_pre cond_post.

Theorem confined_sound_gen s fuel n v h u r out v' h' u' :
  In s gen_table ->
  script_body ustate gen_table fresh store_args drop_handle set_ctx nexists ncmd cond_pre cond_post
              fuel n (se_scope s) (se_body s) v h u = SBDone r out v' h' u' false ->
  (forall k, reserved gen_table k = false -> v' !! k = v !! k \/ (is_unset (se_scope s) = true /\ v' !! k = None)) /\
  (forall k, hasp (se_P s) k = false -> v' !! k = v !! k \/ v' !! k = None).
Proof.
  intros Hin H.
  eapply (confined_sound ustate gen_table fresh store_args drop_handle set_ctx nexists ncmd cond_pre cond_post
            FHyp gen_table_ok); [now apply scope_in_entry| |exact H].
  pose proof gen_table_ok as Ht. unfold table_ok in Ht. rewrite forallb_forall in Ht. now apply Ht.
Qed.

Theorem every_script_command_gen s fuel n args v h u r v' h' u' :
  In s gen_table ->
  script_command ustate gen_table fresh store_args drop_handle set_ctx nexists ncmd cond_pre cond_post
                 fuel n s args v h u = SCDone r v' h' u' false ->
  (forall k, reserved gen_table k = false -> v' !! k = v !! k \/ (is_unset (se_scope s) = true /\ v' !! k = None)) /\
  (se_min s <= length args -> forall k, hasp (se_P s) k = true -> v' !! k = None) /\
  (se_min s <= length args -> forall a0 ar, args = a0 :: ar -> fresh h ∉ h') /\
  (size v' <= size v) /\
  (se_min s <= length args ->
   exists o, ev ustate gen_table fresh store_args drop_handle set_ctx nexists ncmd cond_pre cond_post
                fuel n (se_scope s) (se_body s) 0
                (alias_start ustate fresh store_args set_ctx s args (start ustate v h u)) = Some o /\
             r = flow_answer ustate o).
Proof.
  intros Hin H.
  exact (every_script_command ustate gen_table fresh store_args drop_handle set_ctx nexists ncmd cond_pre cond_post
            FHyp gen_table_ok fuel n s args v h u r v' h' u' Hin H).
Qed.
End Gen.

(* ---- when does a condition site raise the flag? ------------------------------------------------ *)
(* received arguments inside C09's safe classes are re-parsed into the command word and the same
   arguments (EvalSerFacts.roundtrip) ... *)
Lemma cond_site_plain c args :
  is_cmd c = true -> forallb safe args = true -> head_ok args = true -> last_ok args = true ->
  exists args0, eval_parse (c :: args) = ParsedOk (Parser.IScript None None (Some c) args0) /\
                forall e, bind_command_arguments e args0 = args.
Proof.
  intros Hc Hs Hh Hl.
  pose proof (roundtrip c args env_empty Hc Hs Hh Hl) as H0. unfold eval_call in H0.
  destruct (eval_parse (c :: args)) as [t|e|] eqn:Ep; try discriminate.
  destruct t as [| |l o cm a0]; try discriminate. destruct cm as [cm|]; try discriminate.
  injection H0 as -> -> -> _. exists a0. split; [reflexivity|].
  intros e. pose proof (roundtrip c args e Hc Hs Hh Hl) as He. unfold eval_call in He. rewrite Ep in He.
  now injection He.
Qed.

Lemma cmd_iok_nil t scope c l : cmd_iok t scope c [] = true -> cmd_iok t scope c l = true.
Proof.
  unfold cmd_iok. destruct (find_script t c); [auto|].
  destruct (str_eqb c s_for); [discriminate|].
  destruct (str_eqb c s_set_by_name); [rewrite andb_false_r; discriminate|]. auto.
Qed.

(* ... so a site whose received command word is permitted by the check, with received arguments
   inside C09's safe classes, does not raise the flag: the re-parsed instruction passes [iok] *)
Theorem cond_site_ok t scope c args :
  is_cmd c = true -> forallb safe args = true -> head_ok args = true -> last_ok args = true ->
  cmd_iok t scope c [] = true ->
  exists ty, eval_parse (c :: args) = ParsedOk ty /\ iok t scope (cond_instr ty) = true.
Proof.
  intros Hc Hs Hh Hl Hok. destruct (cond_site_plain c args Hc Hs Hh Hl) as (a0 & Ep & _).
  eexists. split; [exact Ep|]. unfold iok, cond_instr. cbn. now apply cmd_iok_nil.
Qed.

(* the static condition check: a condition written with a literal command word is received with
   that word in front, the word is command-shaped and permitted; after `not` the rest is checked
   the same way.  (A condition written as a value reference is not constrained statically.) *)
Theorem cond_static_head t scope a r : cond_ok_s t scope (a :: r) = true ->
  (exists x a', a = x :: a' /\ x = c_dollar) \/
  ((forall e, bind_args e (a :: r) = a :: bind_args e r) /\ is_cmd a = true /\ cmd_iok t scope a [] = true /\
   (a = s_not -> cond_ok_s t scope r = true)).
Proof.
  cbn [cond_ok_s]. destruct a as [|x a']; [discriminate|].
  destruct (N.eqb_spec x c_dollar) as [->|Hx]; [intros _; left; eauto|].
  intros H. right. apply andb_prop in H. destruct H as [H Hn]. apply andb_prop in H. destruct H as [H Hk].
  apply andb_prop in H. destruct H as [Hl Hc]. repeat split; try assumption.
  - intros e. apply bind_lit; [exact Hl|discriminate].
  - intros E. rewrite E, str_eqb_refl in Hn. exact Hn.
Qed.

(* on the current tree every condition of every script passes the static check (gen_table_ok_s) *)
Theorem gen_conditions_static s i si c : In s gen_table -> In i (se_body s) ->
  Runner.i_type i = Runner.IScript si -> s_cmd si = Some c -> str_in c cond_cmds = true ->
  cond_ok_s gen_table (se_scope s) (s_args si) = true.
Proof.
  intros Hs Hi Ht Hc Hcc. pose proof gen_table_ok_s as H. unfold table_ok_s in H.
  rewrite forallb_forall in H. specialize (H s Hs). rewrite forallb_forall in H. specialize (H i Hi).
  unfold instr_ok_s in H. rewrite Ht, Hc, Hcc in H. now apply andb_prop in H.
Qed.

(* ---- the theorem is false without "flag down" ---------------------------------------------------- *)
Lemma toy_frame_hyps : frame_hyps unit toy_ncmd toy_pre toy_post.
Proof.
  assert (Hp : str_in s_set_by_name pure_cmds = false) by reflexivity.
  assert (Hf : str_in s_set_by_name flow_cmds = false) by reflexivity.
  constructor.
  - intros c p a v h u H _. unfold toy_ncmd, nv. destruct (str_eqb_spec c s_set_by_name) as [->|_]; [congruence|reflexivity].
  - intros c p a v h u H _. unfold toy_ncmd, nv. destruct (str_eqb_spec c s_set_by_name) as [->|_]; [congruence|reflexivity].
  - intros p a v h u. left. reflexivity.
  - intros p a v h u n Ha. unfold toy_ncmd, nv. rewrite str_eqb_refl, Ha. reflexivity.
  - reflexivity.
  - reflexivity.
Qed.

(* array_concat's own script over commands that satisfy every frame hypothesis: the loop variable
   holds "=", `if not is_array ${scope::array_concat::arg}` re-parses "is_array =" as an assignment
   to the variable is_array with no command, and the caller's variable is_array is deleted.  The
   flag is up at the end of that run. *)
(* state the run directly on the script_body term: no definitional layer for the kernel to evaluate through *)
Lemma wit_run_direct : exists r out v' h' u',
  script_body unit gen_table toy_fresh (fun _ _ u => u) (fun _ u => u) (fun _ u => ([], u)) (fun _ _ => true)
              toy_ncmd toy_pre toy_post 100 10 (se_scope wit_entry) (se_body wit_entry) wit_vars ∅ tt
  = SBDone r out v' h' u' true /\ v' !! k_is_array = None.
Proof. vm_compute. do 5 eexists. split; reflexivity. Qed.
Lemma wit_entry_in : In wit_entry gen_table.
Proof.
  unfold wit_entry. destruct (find_script gen_table s_array_concat) as [s|] eqn:E.
  - eapply find_script_In; exact E.
  - vm_compute in E. discriminate E.
Qed.
Lemma wit_side1 : is_unset (se_scope wit_entry) = false. Proof. vm_compute. reflexivity. Qed.
Lemma wit_side2 : reserved gen_table k_is_array = false. Proof. vm_compute. reflexivity. Qed.
Lemma wit_side3 : wit_vars !! k_is_array = Some [107]%N. Proof. vm_compute. reflexivity. Qed.

Theorem confined_sound_unflagged_refuted :
  exists ncmd cond_pre cond_post, frame_hyps unit ncmd cond_pre cond_post /\
  exists s fuel n v r out v' h' u' k x,
    In s gen_table /\ is_unset (se_scope s) = false /\
    script_body unit gen_table toy_fresh (fun _ _ u => u) (fun _ u => u) (fun _ u => ([], u)) (fun _ _ => true)
                ncmd cond_pre cond_post fuel n (se_scope s) (se_body s) v ∅ tt = SBDone r out v' h' u' true /\
    reserved gen_table k = false /\ v !! k = Some x /\ v' !! k = None.
Proof.
  exists toy_ncmd, toy_pre, toy_post. split; [exact toy_frame_hyps|].
  destruct wit_run_direct as (r & out & v' & h' & u' & Hrun & Hk).
  exists wit_entry, 100, 10, wit_vars, r, out, v', h', u', k_is_array, [107]%N.
  exact (conj wit_entry_in (conj wit_side1 (conj Hrun (conj wit_side2 (conj wit_side3 Hk))))).
Qed.
