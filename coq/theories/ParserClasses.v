(* ParserClasses.v — the classes of malformed lines of C08_errors, defined as renderings: a
   well-formed prefix (rendered with DS.Render) followed by exactly one malformation.
   Definitions only (extracted: the C08 check plants [render_bad b] for generated [b]). *)
Require Import DS.Base DS.Parser DS.Render.

(* ---- a malformed argument token ---------------------------------------------------------------- *)
Inductive esc_fault :=
| FBad (x : char) (rest : str)      (* backslash + a character that is not a documented escape *)
| FDollar (y : char) (rest : str)   (* backslash, dollar, then something else than an opening brace *)
| FDangling                         (* backslash at the end of the line *)
| FDanglingDollar.                  (* backslash, dollar at the end of the line *)

Definition fault_str (f : esc_fault) : str :=
  match f with
  | FBad x rest => c_bs :: x :: rest
  | FDollar y rest => c_bs :: c_dollar :: y :: rest
  | FDangling => [c_bs]
  | FDanglingDollar => [c_bs; c_dollar]
  end.

Definition fault_ok (f : esc_fault) : bool :=
  match f with
  | FBad x _ => negb ((x =? c_bs) || (x =? c_quote) || (x =? c_n) || (x =? c_r) || (x =? c_t) || (x =? c_dollar))
  | FDollar y _ => negb (y =? c_lbrace)
  | FDangling | FDanglingDollar => true
  end.

Inductive bad_token :=
| TUnterminated (s : str) (es : list bool)                   (* opening quote, text, no closing quote *)
| TEscape (q : bool) (s : str) (es : list bool) (f : esc_fault).  (* [quote] text, then the fault *)

Definition bad_token_str (t : bad_token) : str :=
  match t with
  | TUnterminated s es => c_quote :: emit_str s es
  | TEscape q s es f => (if q then [c_quote] else []) ++ emit_str s es ++ fault_str f
  end.

Definition bad_token_ok (t : bad_token) : bool :=
  match t with
  | TUnterminated s es => valid_q s es
  | TEscape true s es f => valid_q s es && fault_ok f
  | TEscape false s es f =>
      valid_u s es && fault_ok f &&
      match emit_str s es with c :: _ => negb ((c =? c_quote) || (c =? c_eq)) | [] => true end
  end.

Definition bad_token_kind (t : bad_token) : perr :=
  match t with TUnterminated _ _ => EMissingEndQuotes | TEscape _ _ _ _ => EControlWithoutValidValue end.

(* ---- a malformed name (label, output variable, command) --------------------------------------- *)
Inductive name_fault :=
| NQuote (rest : str)               (* the name begins with a double quote *)
| NBackslash (pre rest : str).      (* the name contains a backslash: pre, backslash, rest *)

Definition name_fault_str (nf : name_fault) : str :=
  match nf with NQuote rest => c_quote :: rest | NBackslash pre rest => pre ++ c_bs :: rest end.

Definition name_fault_ok (nf : name_fault) : bool :=
  match nf with
  | NQuote _ => true
  | NBackslash pre _ => forallb name_char pre && no_eq pre &&
                        match pre with c :: _ => negb (c =? c_quote) | [] => true end
  end.

Definition name_fault_kind (nf : name_fault) : perr :=
  match nf with NQuote _ => EInvalidQuotesLocation | NBackslash _ _ => EInvalidControlLocation end.

(* where the malformed name stands *)
Inductive name_pos :=
| PLabel                                                  (* :NAME *)
| PFirst (label : option str) (gap : nat)                 (* [:label ] NAME       (output or command position) *)
| PCommand (label : option str) (gap : nat) (out : str) (el er : nat).   (* [:label ] out = NAME *)

Definition label_prefix (label : option str) (gap : nat) : str :=
  match label with Some n => c_colon :: n ++ spaces (S gap) | None => [] end.

Definition name_pos_str (p : name_pos) : str :=
  match p with
  | PLabel => [c_colon]
  | PFirst label gap => label_prefix label gap
  | PCommand label gap out el er => label_prefix label gap ++ out ++ spaces el ++ c_eq :: spaces er
  end.

Definition opt_name_ok (o : option str) : bool := match o with Some n => name_ok n | None => true end.

Definition name_pos_ok (p : name_pos) (nf : name_fault) : bool :=
  match p with
  | PLabel => true
  | PFirst label _ =>
      opt_name_ok label &&
      match label, nf with None, NBackslash pre _ => first_ok pre | _, _ => true end
  | PCommand label _ out _ _ =>
      opt_name_ok label && name_ok out && no_eq out &&
      match label with None => first_ok out | Some _ => true end
  end.

(* ---- malformed lines ------------------------------------------------------------------------------ *)
Definition comment_str (cm : option (nat * str)) : str :=
  match cm with Some (k, txt) => spaces k ++ c_hash :: txt | None => [] end.

Inductive bad_body :=
| BToken (i : sinstr) (ch : choices) (gap : nat) (t : bad_token)
    (* a well-formed line with a command (ch_comment ignored), then the malformed token as last argument *)
| BName (p : name_pos) (nf : name_fault)
| BBangAlone
| BBangUnknown (k : nat) (word : str) (more : option (list str * list argch * option (nat * str))).
    (* '!' spaces word [space arguments comment] *)

Definition bad_body_str (b : bad_body) : str :=
  match b with
  | BToken i ch gap t =>
      render_head i ch ++ render_args (s_args i) (ch_args ch) ++ spaces (S gap) ++ bad_token_str t
  | BName p nf => name_pos_str p ++ name_fault_str nf
  | BBangAlone => [c_bang]
  | BBangUnknown k word more =>
      c_bang :: spaces k ++ word ++
      match more with
      | Some (args, chs, cm) => c_sp :: render_args args chs ++ comment_str cm
      | None => []
      end
  end.

Definition bad_body_ok (b : bad_body) : bool :=
  match b with
  | BToken i ch _ t =>
      wf i && match s_command i with Some _ => true | None => false end &&
      valid_args (match s_output i with None => true | Some _ => false end) (s_args i) (ch_args ch) &&
      bad_token_ok t
  | BName p nf => name_fault_ok nf && name_pos_ok p nf
  | BBangAlone => true
  | BBangUnknown _ word more =>
      match word with [] => false | _ => true end &&
      forallb (fun c => negb (is_ws c)) word &&
      negb (str_eqb word s_print) && negb (str_eqb word s_include_files) &&
      match more with Some (args, chs, _) => valid_args false args chs | None => true end
  end.

Definition bad_body_kind (b : bad_body) : perr :=
  match b with
  | BToken _ _ _ t => bad_token_kind t
  | BName _ nf => name_fault_kind nf
  | BBangAlone => EPreProcessNoCommandFound
  | BBangUnknown _ _ _ => EUnknownPreProcessorCommand
  end.

Record bad_line := { b_lead : str; b_body : bad_body; b_trail : str }.

Definition render_bad (b : bad_line) : str := b_lead b ++ bad_body_str (b_body b) ++ b_trail b.

(* the line is one physical line, surrounded by white space only, and its last character is not
   white space (so that trimming removes exactly [b_lead] and [b_trail]) *)
Definition valid_bad (b : bad_line) : bool :=
  ws_line (b_lead b) && ws_line (b_trail b) &&
  no_lf (bad_body_str (b_body b)) && negb (ends_ws (bad_body_str (b_body b))) &&
  bad_body_ok (b_body b).

Definition bad_kind (b : bad_line) : perr := bad_body_kind (b_body b).

(* the seven classes of the property statement *)
Inductive bad_class := KUnterminatedQuote | KUndocumentedEscape | KDanglingBackslash
                     | KNameBeginsWithQuote | KNameContainsBackslash | KBangAlone | KBangUnknown.

Definition class_of (b : bad_line) : bad_class :=
  match b_body b with
  | BToken _ _ _ (TUnterminated _ _) => KUnterminatedQuote
  | BToken _ _ _ (TEscape _ _ _ (FBad _ _ | FDollar _ _)) => KUndocumentedEscape
  | BToken _ _ _ (TEscape _ _ _ (FDangling | FDanglingDollar)) => KDanglingBackslash
  | BName _ (NQuote _) => KNameBeginsWithQuote
  | BName _ (NBackslash _ _) => KNameContainsBackslash
  | BBangAlone => KBangAlone
  | BBangUnknown _ _ _ => KBangUnknown
  end.

Definition class_kind (k : bad_class) : perr :=
  match k with
  | KUnterminatedQuote => EMissingEndQuotes
  | KUndocumentedEscape | KDanglingBackslash => EControlWithoutValidValue
  | KNameBeginsWithQuote => EInvalidQuotesLocation
  | KNameContainsBackslash => EInvalidControlLocation
  | KBangAlone => EPreProcessNoCommandFound
  | KBangUnknown => EUnknownPreProcessorCommand
  end.
