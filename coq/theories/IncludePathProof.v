(* IncludePathProof.v — facts about the lexical path model of IncludePath.v:
   the fuel of Path::parent is never exhausted; parent is a prefix; the parent of dir/file;
   PathBuf::push; what the include pre-processor opens for relative / absolute arguments and in the
   corner cases (no directory part, root, source without parent, trailing separators). *)
Require Import DS.Base DS.Parser DS.Include DS.IncludePath.
Local Open Scope nat_scope.

Definition nonsep (c : char) : bool := negb (is_sep c).

Lemma is_sep_eq c : is_sep c = true -> c = c_slash.
Proof. unfold is_sep. intros H. apply N.eqb_eq in H. exact H. Qed.

(* ---- last_comp ---------------------------------------------------------------------------------- *)
Lemma last_comp_spec l :
  forallb nonsep (snd (last_comp l)) = true /\
  (if fst (last_comp l) then exists x, l = x ++ c_slash :: snd (last_comp l) else l = snd (last_comp l)).
Proof.
  induction l as [|c r IH]; [cbn; auto|].
  cbn [last_comp]. destruct (last_comp r) as [f comp]. cbn [fst snd] in *. destruct IH as [Hn Hs].
  destruct f.
  - cbn [fst snd]. split; [exact Hn|]. destruct Hs as [x ->]. exists (c :: x). reflexivity.
  - subst comp. destruct (is_sep c) eqn:Hc; cbn [fst snd].
    + split; [exact Hn|]. exists []. apply is_sep_eq in Hc. subst c. reflexivity.
    + split; [|reflexivity]. cbn [forallb]. unfold nonsep at 1. rewrite Hc. exact Hn.
Qed.

Lemma last_comp_nosep l : forallb nonsep l = true -> last_comp l = (false, l).
Proof.
  induction l as [|c r IH]; [reflexivity|]. cbn [forallb]. intros H. apply andb_prop in H.
  destruct H as [Hc Hr]. cbn [last_comp]. rewrite (IH Hr). unfold nonsep in Hc.
  destruct (is_sep c); [discriminate|reflexivity].
Qed.

Lemma last_comp_app x f : forallb nonsep f = true -> last_comp (x ++ c_slash :: f) = (true, f).
Proof.
  intros Hf. induction x as [|c x IH].
  - cbn [app last_comp]. rewrite (last_comp_nosep _ Hf). reflexivity.
  - cbn [app last_comp]. rewrite IH. reflexivity.
Qed.

Definition lc_size (l : str) : nat := length (snd (last_comp l)) + (if fst (last_comp l) then 1 else 0).

Lemma lc_size_le l : lc_size l <= length l.
Proof.
  unfold lc_size. destruct (last_comp_spec l) as [_ H]. destruct (fst (last_comp l)).
  - destruct H as [x Hx]. rewrite Hx at 2. rewrite app_length. cbn [length]. lia.
  - rewrite <- H. lia.
Qed.

Lemma lc_size_ge l : l <> [] -> 1 <= lc_size l.
Proof.
  unfold lc_size. intros Hl. destruct (last_comp_spec l) as [_ H]. destruct (fst (last_comp l)); [lia|].
  rewrite <- H. destruct l; [congruence|cbn; lia].
Qed.

Lemma pncb_size c : fst (parse_next_component_back c) = lc_size (skipn (len_before_body c) (cp_path c)).
Proof.
  unfold parse_next_component_back, lc_size. destruct (last_comp _) as [f comp]. reflexivity.
Qed.

Lemma pncb_snd c :
  snd (parse_next_component_back c) = parse_single_component (snd (last_comp (skipn (len_before_body c) (cp_path c)))).
Proof. unfold parse_next_component_back. destruct (last_comp _) as [f comp]. reflexivity. Qed.

Lemma pncb_size_ge c : len_before_body c < length (cp_path c) -> 1 <= fst (parse_next_component_back c).
Proof.
  intros H. rewrite pncb_size. apply lc_size_ge. intros E.
  apply (f_equal (@length _)) in E. rewrite skipn_length in E. cbn in E. lia.
Qed.

Lemma truncate_length c size : 1 <= size -> length (cp_path c) <> 0 -> length (cp_path (truncate c size)) < length (cp_path c).
Proof. intros H1 H2. unfold truncate. cbn [cp_path]. rewrite firstn_length. lia. Qed.

Lemma truncate_length_le c size : length (cp_path (truncate c size)) <= length (cp_path c).
Proof. unfold truncate. cbn [cp_path]. rewrite firstn_length. lia. Qed.

(* ---- fuel is sufficient ------------------------------------------------------------------------- *)
Lemma trim_right_total fuel : forall c, length (cp_path c) < fuel -> trim_right fuel c <> None.
Proof.
  induction fuel as [|f IH]; intros c H; [lia|]. cbn [trim_right].
  destruct (Nat.ltb_spec (len_before_body c) (length (cp_path c))) as [Hl|Hl]; [|discriminate].
  pose proof (pncb_size_ge c Hl) as Hs.
  destruct (parse_next_component_back c) as [size comp]. cbn [fst] in Hs.
  destruct comp; [discriminate|]. apply IH.
  pose proof (truncate_length c size Hs). lia.
Qed.

Lemma trim_right_mono fuel : forall c c' k, trim_right fuel c = Some c' -> trim_right (fuel + k) c = Some c'.
Proof.
  induction fuel as [|f IH]; intros c c' k; [discriminate|]. cbn [trim_right Nat.add].
  destruct (len_before_body c <? length (cp_path c)); [|auto].
  destruct (parse_next_component_back c) as [size comp]. destruct comp; auto.
Qed.

Lemma trim_right_shrinks fuel : forall c c', trim_right fuel c = Some c' ->
  length (cp_path c') <= length (cp_path c) /\ cp_root c' = cp_root c /\ cp_back c' = cp_back c /\
  exists t, cp_path c = cp_path c' ++ t.
Proof.
  induction fuel as [|f IH]; intros c c'; [discriminate|]. cbn [trim_right].
  destruct (len_before_body c <? length (cp_path c)).
  2:{ intros [= <-]. repeat split; auto. exists []. rewrite app_nil_r. reflexivity. }
  destruct (parse_next_component_back c) as [size comp]. destruct comp.
  { intros [= <-]. repeat split; auto. exists []. rewrite app_nil_r. reflexivity. }
  intros H. apply IH in H. destruct H as (Hl & Hr & Hb & t & Ht).
  pose proof (truncate_length_le c size). cbn [truncate cp_root cp_back cp_path] in *.
  repeat split; auto; [lia|].
  exists (t ++ skipn (length (cp_path c) - size) (cp_path c)).
  rewrite app_assoc, <- Ht. symmetry. apply firstn_skipn.
Qed.

Definition nb_measure (c : comps) : nat :=
  length (cp_path c) + match cp_back c with BBody => 2 | BStartDir => 1 | BDone => 0 end.

Lemma next_back_total fuel : forall c, nb_measure c < fuel -> next_back fuel c <> None.
Proof.
  induction fuel as [|f IH]; intros c H; [lia|]. cbn [next_back]. unfold nb_measure in H.
  destruct (cp_back c) eqn:Hb.
  - destruct (Nat.ltb_spec (len_before_body c) (length (cp_path c))) as [Hl|Hl].
    + pose proof (pncb_size_ge c Hl) as Hs.
      destruct (parse_next_component_back c) as [size comp]. cbn [fst] in Hs.
      destruct comp; [discriminate|]. apply IH. unfold nb_measure.
      pose proof (truncate_length c size Hs). cbn [truncate cp_back] in *. rewrite Hb. cbn [cp_path] in *. lia.
    + apply IH. unfold nb_measure. cbn [set_back cp_path cp_back]. lia.
  - destruct (cp_root c); [discriminate|]. destruct (include_cur_dir c); [discriminate|].
    apply IH. unfold nb_measure. cbn [set_back cp_path cp_back]. lia.
  - discriminate.
Qed.

Lemma next_back_shrinks fuel : forall c x c', next_back fuel c = Some (x, c') ->
  length (cp_path c') <= length (cp_path c) /\ cp_root c' = cp_root c /\ exists t, cp_path c = cp_path c' ++ t.
Proof.
  assert (Hfs : forall (l : str) n, exists t, l = firstn n l ++ t).
  { intros l n. exists (skipn n l). symmetry. apply firstn_skipn. }
  induction fuel as [|f IH]; intros c x c'; [discriminate|]. cbn [next_back].
  destruct (cp_back c) eqn:Hb.
  - destruct (len_before_body c <? length (cp_path c)).
    + destruct (parse_next_component_back c) as [size comp]. destruct comp.
      * intros [= <- <-]. pose proof (truncate_length_le c size). cbn [truncate cp_root cp_path] in *.
        repeat split; auto.
      * intros H. apply IH in H. destruct H as (Hl & Hr & t & Ht).
        pose proof (truncate_length_le c size). cbn [truncate cp_root cp_path] in *.
        repeat split; auto; [lia|]. destruct (Hfs (cp_path c) (length (cp_path c) - size)) as [t2 Ht2].
        exists (t ++ t2). rewrite app_assoc, <- Ht. exact Ht2.
    + intros H. apply IH in H. exact H.
  - destruct (cp_root c) eqn:Hr.
    { intros [= <- <-]. cbn [truncate set_back cp_root cp_path]. rewrite firstn_length. repeat split; auto; lia. }
    destruct (include_cur_dir c).
    { intros [= <- <-]. cbn [truncate set_back cp_root cp_path]. rewrite firstn_length. repeat split; auto; lia. }
    intros H. apply IH in H. cbn [set_back cp_root cp_path] in H. rewrite Hr in H. exact H.
  - intros [= <- <-]. repeat split; auto. exists []. rewrite app_nil_r. reflexivity.
Qed.

Lemma as_path_total fuel c : length (cp_path c) < fuel -> as_path fuel c <> None.
Proof.
  intros H. unfold as_path. destruct (cp_back c); try discriminate.
  pose proof (trim_right_total fuel c H). destruct (trim_right fuel c); [discriminate|congruence].
Qed.

(* Path::parent terminates within the fuel it is given: PFuel is never the answer *)
Theorem parent_total s : parent s <> PFuel.
Proof.
  unfold parent.
  pose proof (next_back_total (path_fuel s) (components s)) as Hn.
  destruct (next_back (path_fuel s) (components s)) as [[x c]|] eqn:E.
  2:{ exfalso. apply Hn; [|reflexivity]. unfold nb_measure, path_fuel. cbn. lia. }
  apply next_back_shrinks in E. destruct E as (Hl & _).
  assert (Hp : as_path (path_fuel s) c <> None).
  { apply as_path_total. unfold path_fuel. cbn [components cp_path] in Hl. lia. }
  destruct x as [[| | |n]|]; try discriminate;
    destruct (as_path (path_fuel s) c); try discriminate; congruence.
Qed.

Lemma include_cur_dir_nonempty c : include_cur_dir c = true -> cp_path c <> [].
Proof. unfold include_cur_dir. destruct (cp_root c); [discriminate|]. destruct (cp_path c); [discriminate|congruence]. Qed.

Lemma next_back_strict fuel : forall c0 x c, next_back fuel c0 = Some (Some x, c) -> x <> CRootDir ->
  length (cp_path c) < length (cp_path c0).
Proof.
  induction fuel as [|f IH]; intros c0 x c; [discriminate|]. cbn [next_back].
  destruct (cp_back c0) eqn:Hb.
  - destruct (Nat.ltb_spec (len_before_body c0) (length (cp_path c0))) as [Hl|Hl].
    + pose proof (pncb_size_ge c0 Hl) as Hs.
      destruct (parse_next_component_back c0) as [size comp]. cbn [fst] in Hs.
      pose proof (truncate_length c0 size Hs) as Ht.
      destruct comp.
      * intros [= <- <-] _. apply Ht. lia.
      * intros H Hx. apply IH in H; [|exact Hx]. lia.
    + intros H Hx. apply IH in H; [|exact Hx]. exact H.
  - destruct (cp_root c0) eqn:Hr.
    { intros [= <- <-] Hx. congruence. }
    destruct (include_cur_dir c0) eqn:Hc.
    { intros [= <- <-] _. apply include_cur_dir_nonempty in Hc.
      cbn [truncate set_back cp_path]. rewrite firstn_length.
      destruct (cp_path c0); [congruence|cbn [length]; lia]. }
    intros H Hx. apply IH in H; [|exact Hx]. exact H.
  - discriminate.
Qed.

(* the parent is a proper prefix of the path *)
Theorem parent_prefix s d : parent s = PSome d -> exists t, s = d ++ t /\ t <> [].
Proof.
  unfold parent. destruct (next_back (path_fuel s) (components s)) as [[x c]|] eqn:E; [|discriminate].
  assert (G : x <> None -> x <> Some CRootDir ->
              match as_path (path_fuel s) c with Some p => PSome p | None => PFuel end = PSome d ->
              exists t, s = d ++ t /\ t <> []).
  { intros Hx Hr Hd. destruct x as [x|]; [|congruence].
    pose proof (next_back_strict _ _ _ _ E) as Hlt. cbn [components cp_path] in Hlt.
    assert (Hx' : x <> CRootDir) by congruence. specialize (Hlt Hx').
    apply next_back_shrinks in E. destruct E as (_ & _ & t1 & Ht1). cbn [components cp_path] in Ht1.
    unfold as_path in Hd.
    assert (Hp : exists t2, cp_path c = d ++ t2).
    { destruct (cp_back c).
      - destruct (trim_right (path_fuel s) c) as [c'|] eqn:Et; [|discriminate].
        injection Hd as <-. apply trim_right_shrinks in Et. destruct Et as (_ & _ & _ & t & Ht). eauto.
      - injection Hd as <-. exists []. rewrite app_nil_r. reflexivity.
      - injection Hd as <-. exists []. rewrite app_nil_r. reflexivity. }
    destruct Hp as [t2 Ht2]. exists (t2 ++ t1). split.
    - rewrite Ht1, Ht2, app_assoc. reflexivity.
    - intros E0. apply app_eq_nil in E0. destruct E0 as [-> ->]. rewrite app_nil_r in Ht1. rewrite Ht1 in Hlt. lia. }
  destruct x as [[| | |n]|]; try discriminate; apply G; congruence.
Qed.

(* ---- the parent of dir/file --------------------------------------------------------------------- *)
Lemma plain_spec f : plain f = true -> f <> [] /\ forallb nonsep f = true /\ f <> s_dot.
Proof.
  unfold plain. destruct f as [|c f]; [discriminate|]. intros H. apply andb_prop in H. destruct H as [H1 H2].
  repeat split; [congruence|exact H1|]. intros E. rewrite E in H2. cbn in H2. discriminate.
Qed.

Definition comp_of (f : str) : component := if str_eqb f s_dotdot then CParentDir else CNormal f.

Lemma parse_single_plain f : plain f = true -> parse_single_component f = Some (comp_of f).
Proof.
  intros H. apply plain_spec in H. destruct H as (Hne & _ & Hd). unfold parse_single_component, comp_of.
  destruct (str_eqb_spec f s_dot); [contradiction|]. destruct (str_eqb f s_dotdot); [reflexivity|].
  destruct f; [congruence|reflexivity].
Qed.

Lemma root_app d t : d <> [] -> has_physical_root (d ++ t) = has_physical_root d.
Proof. destruct d; [congruence|reflexivity]. Qed.

Lemma cur_dir_app d f r b : d <> [] ->
  include_cur_dir (Comps (d ++ c_slash :: f) r b) = include_cur_dir (Comps d r b).
Proof.
  intros Hd. unfold include_cur_dir. cbn [cp_root cp_path]. destruct r; [reflexivity|].
  destruct d as [|a [|b' d]]; [congruence| |reflexivity].
  cbn [app]. unfold is_sep. rewrite N.eqb_refl, andb_true_r. reflexivity.
Qed.

Lemma lbb_le_1 c : len_before_body c <= 1.
Proof. unfold len_before_body, include_cur_dir. destruct (cp_root c); cbn; [lia|]. destruct (match cp_path c with [] => _ | _ => _ end); lia. Qed.

Lemma next_back_dir_file fuel d f : d <> [] -> plain f = true ->
  next_back (S fuel) (components (d ++ c_slash :: f)) = Some (Some (comp_of f), components d).
Proof.
  intros Hd Hf. pose proof (plain_spec f Hf) as (Hne & Hns & _).
  unfold components. rewrite (root_app d _ Hd). cbn [next_back cp_back].
  assert (Hl : len_before_body (Comps (d ++ c_slash :: f) (has_physical_root d) BBody)
               = len_before_body (Comps d (has_physical_root d) BBody)).
  { unfold len_before_body. rewrite cur_dir_app by exact Hd. reflexivity. }
  pose proof (lbb_le_1 (Comps d (has_physical_root d) BBody)) as H1.
  assert (Hdl : 1 <= length d) by (destruct d; [congruence|cbn; lia]).
  rewrite Hl. cbn [cp_path]. rewrite app_length. cbn [length].
  destruct (Nat.ltb_spec (len_before_body (Comps d (has_physical_root d) BBody)) (length d + S (length f))) as [_|?]; [|lia].
  unfold parse_next_component_back. rewrite Hl. cbn [cp_path].
  rewrite skipn_app.
  replace (len_before_body (Comps d (has_physical_root d) BBody) - length d) with 0 by lia.
  cbn [skipn]. rewrite last_comp_app by exact Hns. rewrite (parse_single_plain f Hf).
  unfold truncate. cbn [cp_path cp_root cp_back]. rewrite app_length. cbn [length].
  replace (length d + S (length f) - (length f + 1)) with (length d + 0) by lia.
  rewrite firstn_app_2. cbn [firstn]. rewrite app_nil_r. reflexivity.
Qed.

Lemma trim_dir_spec d k : trim_right (S (length d) + k) (components d) = Some (Comps (trim_dir d) (has_physical_root d) BBody).
Proof.
  unfold trim_dir. pose proof (trim_right_total (S (length d)) (components d)) as Ht.
  destruct (trim_right (S (length d)) (components d)) as [c'|] eqn:E.
  2:{ exfalso. apply Ht; [cbn; lia|reflexivity]. }
  rewrite (trim_right_mono _ _ _ k E). apply trim_right_shrinks in E. destruct E as (_ & Hr & Hb & _).
  destruct c' as [p r b]. cbn in *. subst. reflexivity.
Qed.

(* Path::parent of "<dir>/<file>" is the directory part without trailing separators and "/." *)
Theorem parent_dir_file d f : d <> [] -> plain f = true -> parent (d ++ c_slash :: f) = PSome (trim_dir d).
Proof.
  intros Hd Hf. unfold parent, path_fuel. rewrite next_back_dir_file by assumption.
  assert (Ha : as_path (S (S (S (length (d ++ c_slash :: f))))) (components d) = Some (trim_dir d)).
  { unfold as_path. cbn [components cp_back]. rewrite app_length. cbn [length].
    replace (S (S (S (length d + S (length f))))) with (S (length d) + (3 + length f)) by lia.
    rewrite (trim_dir_spec d). reflexivity. }
  unfold comp_of. destruct (str_eqb f s_dotdot); rewrite Ha; reflexivity.
Qed.

Theorem trim_dir_clean d : clean_dir d = true -> trim_dir d = d.
Proof.
  unfold clean_dir, trim_dir. cbn [trim_right]. intros H.
  change (cp_path (components d)) with d.
  destruct (len_before_body (components d) <? length d); [|reflexivity].
  destruct (parse_next_component_back (components d)) as [size comp]. cbn [snd] in H.
  destruct comp; [reflexivity|discriminate].
Qed.

(* an elementary sufficient condition: the directory part ends with a character other than '/' and '.' *)
Lemma parse_single_last x c : (c =? c_dot)%N = false -> parse_single_component (x ++ [c]) <> None.
Proof.
  intros Hc. unfold parse_single_component.
  assert (Hl : forall y, str_eqb (x ++ [c]) (y ++ [c_dot]) = false).
  { intros y. apply str_eqb_neq. intros E. apply app_inj_tail in E. destruct E as [_ ->].
    rewrite N.eqb_refl in Hc. discriminate. }
  change s_dot with ([] ++ [c_dot]). change s_dotdot with ([c_dot] ++ [c_dot]).
  rewrite (Hl []). rewrite (Hl [c_dot]). destruct x; discriminate.
Qed.

Lemma last_comp_last l c : is_sep c = false -> exists x, snd (last_comp (l ++ [c])) = x ++ [c].
Proof.
  intros Hc. destruct (last_comp_spec (l ++ [c])) as [_ H]. destruct (fst (last_comp (l ++ [c]))).
  - destruct H as [x Hx]. destruct (snd (last_comp (l ++ [c]))) as [|a r] using rev_ind.
    + exfalso. change (x ++ [c_slash]) with (x ++ [c_slash]) in Hx.
      apply app_inj_tail in Hx. destruct Hx as [_ ->]. unfold is_sep in Hc. rewrite N.eqb_refl in Hc. discriminate.
    + exists r. replace (x ++ c_slash :: r ++ [a]) with ((x ++ c_slash :: r) ++ [a]) in Hx by (rewrite <- app_assoc; reflexivity).
      apply app_inj_tail in Hx. destruct Hx as [_ ->]. reflexivity.
  - exists l. symmetry. exact H.
Qed.

Theorem clean_dir_last d c : is_sep c = false -> (c =? c_dot)%N = false -> clean_dir (d ++ [c]) = true.
Proof.
  intros Hs Hd. unfold clean_dir.
  destruct (Nat.ltb_spec (len_before_body (components (d ++ [c]))) (length (d ++ [c]))) as [Hl|Hl]; [|reflexivity].
  rewrite pncb_snd. cbn [components cp_path].
  set (n := len_before_body _) in *.
  assert (Hn : n <= length d) by (rewrite app_length in Hl; cbn [length] in Hl; lia).
  rewrite skipn_app. replace (n - length d) with 0 by lia. cbn [skipn].
  destruct (last_comp_last (skipn n d) c Hs) as [x ->].
  pose proof (parse_single_last x c Hd) as Hp. destruct (parse_single_component (x ++ [c])) eqn:E; [reflexivity|]. exfalso. apply Hp. exact E.
Qed.

(* ---- PathBuf::push ------------------------------------------------------------------------------- *)
Lemma last_some (d : str) c : last (map Some (d ++ [c])) None = Some c.
Proof. rewrite map_app. cbn [map]. apply last_last. Qed.

Theorem push_absolute d a : has_physical_root a = true -> push d a = a.
Proof. unfold push. intros ->. reflexivity. Qed.
Theorem push_empty a : push [] a = a.
Proof. unfold push. cbn. destruct (has_physical_root a); reflexivity. Qed.
Theorem push_sep d a : has_physical_root a = false -> push (d ++ [c_slash]) a = d ++ c_slash :: a.
Proof. unfold push. intros ->. rewrite last_some. cbn. rewrite <- app_assoc. reflexivity. Qed.
Theorem push_nosep d c a : has_physical_root a = false -> is_sep c = false ->
  push (d ++ [c]) a = (d ++ [c]) ++ c_slash :: a.
Proof. unfold push. intros -> Hc. rewrite last_some, Hc. reflexivity. Qed.

Lemma is_abs_root a : is_abs a = false -> has_physical_root a = false.
Proof.
  unfold is_abs, has_physical_root, is_sep, c_slash. destruct a as [|c a]; [reflexivity|].
  intros H. apply orb_false_elim in H. tauto.
Qed.

(* a clean, non-root directory part does not end with a separator *)
Lemma clean_last_nosep d : d <> [] -> d <> [c_slash] -> clean_dir d = true ->
  exists d' c, d = d' ++ [c] /\ is_sep c = false.
Proof.
  intros Hne Hroot Hc. destruct d as [|a r] using rev_ind; [congruence|]. clear IHr.
  exists r, a. split; [reflexivity|]. destruct (is_sep a) eqn:Ha; [|reflexivity]. exfalso.
  apply is_sep_eq in Ha. subst a.
  unfold clean_dir in Hc.
  destruct (Nat.ltb_spec (len_before_body (components (r ++ [c_slash]))) (length (r ++ [c_slash]))) as [Hl|Hl].
  - rewrite pncb_snd in Hc. cbn [components cp_path] in *.
    set (n := len_before_body _) in *.
    assert (Hn : n <= length r) by (rewrite app_length in Hl; cbn [length] in Hl; lia).
    rewrite skipn_app in Hc. replace (n - length r) with 0 in Hc by lia. cbn [skipn] in Hc.
    rewrite (last_comp_app (skipn n r) [] eq_refl) in Hc. cbn in Hc. discriminate.
  - pose proof (lbb_le_1 (components (r ++ [c_slash]))) as H1. rewrite app_length in Hl. cbn [length] in Hl.
    assert (r = []) by (destruct r; [reflexivity|cbn [length] in Hl; lia]). subst r. apply Hroot. reflexivity.
Qed.

Theorem push_clean d a : d <> [] -> d <> [c_slash] -> clean_dir d = true -> has_physical_root a = false ->
  push d a = d ++ c_slash :: a.
Proof.
  intros H1 H2 H3 Ha. destruct (clean_last_nosep d H1 H2 H3) as (d' & c & -> & Hc).
  apply push_nosep; assumption.
Qed.

(* ---- what the pre-processor opens ---------------------------------------------------------------- *)
Section Resolve.
Variable canon : path -> option path.
Notation inc_path := (include_path (resolve canon)).

(* an argument starting with '/' (or '\') is used as it is written; so would PathBuf::push *)
Theorem resolve_absolute src a : is_abs a = true -> inc_path src a = a.
Proof. unfold include_path. intros ->. reflexivity. Qed.

(* general form: parent(source) joined with the argument, canonicalised when the OS can *)
Theorem resolve_general value a : is_abs a = false ->
  inc_path (Some value) a = match parent value with PSome d => or_canon canon (push d a) | _ => a end.
Proof. unfold include_path. intros ->. reflexivity. Qed.

(* the script has no source (parse_text): the argument is used as written *)
Theorem resolve_no_source a : inc_path None a = a.
Proof. unfold include_path. destruct (is_abs a); reflexivity. Qed.

(* RELATIVE: "<dir>/<file>" including "rel" opens "<dir>/rel" *)
Theorem resolve_relative dir file rel :
  dir <> [] -> dir <> [c_slash] -> clean_dir dir = true -> plain file = true -> is_abs rel = false ->
  inc_path (Some (dir ++ c_slash :: file)) rel = or_canon canon (dir ++ c_slash :: rel).
Proof.
  intros H1 H2 H3 Hf Ha. rewrite resolve_general by exact Ha.
  rewrite parent_dir_file by assumption. rewrite trim_dir_clean by exact H3.
  rewrite push_clean; auto using is_abs_root.
Qed.

(* ... whatever the spelling of the directory part: trailing separators and "/." are dropped first *)
Theorem resolve_relative_any dir file rel :
  dir <> [] -> plain file = true -> is_abs rel = false ->
  inc_path (Some (dir ++ c_slash :: file)) rel = or_canon canon (push (trim_dir dir) rel).
Proof.
  intros H1 Hf Ha. rewrite resolve_general by exact Ha. rewrite parent_dir_file by assumption. reflexivity.
Qed.

(* the including file lies in the root directory *)
Theorem resolve_root file rel : plain file = true -> is_abs rel = false ->
  inc_path (Some (c_slash :: file)) rel = or_canon canon (c_slash :: rel).
Proof.
  intros Hf Ha. rewrite resolve_general by exact Ha.
  pose proof (plain_spec file Hf) as (Hne & Hns & Hd).
  assert (Hp : parent (c_slash :: file) = PSome [c_slash]).
  { unfold parent, path_fuel.
    change (components (c_slash :: file)) with (Comps (c_slash :: file) true BBody).
    cbn [length next_back cp_back].
    assert (Hl : len_before_body (Comps (c_slash :: file) true BBody) = 1) by reflexivity.
    rewrite Hl. cbn [cp_path length].
    destruct (Nat.ltb_spec 1 (S (length file))) as [_|?]; [|destruct file; [congruence|cbn in *; lia]].
    unfold parse_next_component_back. rewrite Hl. cbn [cp_path skipn].
    rewrite (last_comp_nosep _ Hns). rewrite (parse_single_plain file Hf).
    unfold truncate. cbn [cp_path cp_root cp_back length].
    replace (S (length file) - (length file + 0)) with 1 by lia. cbn [firstn].
    unfold as_path. cbn [cp_back trim_right].
    assert (Hl' : len_before_body (Comps [c_slash] true BBody) = 1) by reflexivity.
    rewrite Hl'. cbn [cp_path length Nat.ltb Nat.leb].
    unfold comp_of. destruct (str_eqb file s_dotdot); reflexivity. }
  rewrite Hp. unfold push. rewrite (is_abs_root _ Ha). cbn. reflexivity.
Qed.

(* the including file has no directory part: the argument, resolved against the current directory *)
Theorem resolve_no_dir file rel : plain file = true -> is_abs rel = false ->
  inc_path (Some file) rel = or_canon canon rel.
Proof.
  intros Hf Ha. rewrite resolve_general by exact Ha.
  pose proof (plain_spec file Hf) as (Hne & Hns & Hd).
  assert (Hnr : has_physical_root file = false).
  { destruct file as [|c r]; [congruence|]. cbn in Hns. apply andb_prop in Hns. destruct Hns as [Hc _].
    unfold nonsep in Hc. cbn. destruct (is_sep c); [discriminate|reflexivity]. }
  assert (Hcd : include_cur_dir (Comps file false BBody) = false).
  { unfold include_cur_dir. cbn [cp_root cp_path]. destruct file as [|a [|b r]]; [reflexivity| |].
    - destruct (N.eqb_spec a c_dot); [|reflexivity]. subst a. exfalso. apply Hd. reflexivity.
    - cbn in Hns. apply andb_prop in Hns. destruct Hns as [_ Hns]. apply andb_prop in Hns. destruct Hns as [Hb _].
      unfold nonsep in Hb. destruct (is_sep b); [discriminate|]. apply andb_false_r. }
  assert (Hp : parent file = PSome []).
  { unfold parent, path_fuel, components. rewrite Hnr. cbn [next_back cp_back].
    assert (Hl : len_before_body (Comps file false BBody) = 0).
    { unfold len_before_body. rewrite Hcd. reflexivity. }
    rewrite Hl. cbn [cp_path].
    destruct (Nat.ltb_spec 0 (length file)) as [_|?]; [|destruct file; [congruence|cbn in *; lia]].
    unfold parse_next_component_back. rewrite Hl. cbn [cp_path skipn].
    rewrite (last_comp_nosep _ Hns). rewrite (parse_single_plain file Hf).
    unfold truncate. cbn [cp_path cp_root cp_back].
    replace (length file - (length file + 0)) with 0 by lia. cbn [firstn].
    unfold as_path. cbn [cp_back trim_right].
    assert (Hl' : len_before_body (Comps [] false BBody) = 0) by reflexivity.
    rewrite Hl'. cbn [cp_path length Nat.ltb Nat.leb].
    unfold comp_of. destruct (str_eqb file s_dotdot); reflexivity. }
  rewrite Hp. rewrite push_empty. reflexivity.
Qed.

(* a source without parent ("" and "/" for instance): the argument as written, NOT canonicalised *)
Theorem resolve_no_parent value a : parent value = PNone -> inc_path (Some value) a = a.
Proof.
  intros Hp. unfold include_path. destruct (is_abs a); [reflexivity|]. unfold resolve. rewrite Hp. reflexivity.
Qed.

(* when canonicalize fails the plain join is what parse_file is given (and what the error names) *)
Theorem resolve_canon_fails value d a : is_abs a = false -> parent value = PSome d ->
  canon (push d a) = None -> inc_path (Some value) a = push d a.
Proof. intros Ha Hp Hc. rewrite resolve_general by exact Ha. rewrite Hp. unfold or_canon. rewrite Hc. reflexivity. Qed.

(* a canonicalize that names the same file (the OS's contract) does not change what is read *)
Theorem resolve_reads (fs : path -> option str) value a :
  (forall p c, canon p = Some c -> fs c = fs p) ->
  fs (inc_path (Some value) a) = fs (if is_abs a then a else lex_join value a).
Proof.
  intros Hc. unfold include_path, lex_join, resolve. destruct (is_abs a); [reflexivity|].
  destruct (parent value); try reflexivity. unfold or_canon.
  destruct (canon (push p a)) eqn:E; [apply Hc; exact E|reflexivity].
Qed.
End Resolve.

(* ---- corner cases by computation ----------------------------------------------------------------- *)
Definition s_a : str := [97%N]. Definition s_b : str := [98%N].
Theorem parent_corners :
  parent [] = PNone /\ parent [c_slash] = PNone /\ parent [c_slash; c_slash] = PNone /\
  parent [c_slash; c_dot] = PNone /\
  parent s_a = PSome [] /\ parent s_dot = PSome [] /\ parent s_dotdot = PSome [] /\
  parent [c_dot; c_slash] = PSome [] /\
  parent (s_a ++ [c_slash; c_dot]) = PSome [] /\                                   (* "a/."    -> ""    *)
  parent (s_a ++ c_slash :: s_b ++ [c_slash]) = PSome s_a /\                       (* "a/b/"   -> "a"   *)
  parent (s_a ++ c_slash :: c_slash :: s_b) = PSome s_a /\                         (* "a//b"   -> "a"   *)
  parent (s_a ++ c_slash :: c_dot :: c_slash :: s_b) = PSome s_a /\                (* "a/./b"  -> "a"   *)
  parent (c_dot :: c_slash :: s_a) = PSome s_dot /\                                (* "./a"    -> "."   *)
  parent (c_slash :: c_slash :: s_a) = PSome [c_slash] /\                          (* "//a"    -> "/"   *)
  parent (s_a ++ c_slash :: s_dotdot ++ c_slash :: s_b) = PSome (s_a ++ c_slash :: s_dotdot) /\   (* "a/../b" -> "a/.." *)
  parent (s_a ++ c_slash :: s_dotdot) = PSome s_a.                                  (* "a/.."   -> "a"   *)
Proof. repeat split; vm_compute; reflexivity. Qed.

Theorem push_corners :
  push s_a [] = s_a ++ [c_slash] /\                                (* empty argument: "a/" *)
  push [c_slash] s_b = c_slash :: s_b /\                           (* no doubled separator after the root *)
  push s_a (c_slash :: s_b) = c_slash :: s_b /\                    (* an absolute right side replaces the buffer *)
  push s_dot s_b = c_dot :: c_slash :: s_b /\                      (* "./b" keeps the "." *)
  push (s_a ++ c_slash :: s_dotdot) s_b = s_a ++ c_slash :: s_dotdot ++ c_slash :: s_b.  (* ".." is not resolved *)
Proof. repeat split; vm_compute; reflexivity. Qed.
