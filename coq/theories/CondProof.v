(* CondProof.v — the and-of-ors specification of conditions and the proof that the model of
   eval_condition_for_slice (Cond.v) computes it on every well-formed condition statement. *)
Require Import DS.Base DS.Cond DS.CondSpec.

Section P.
Variable truth : str -> bool.
Notation go := (go truth).
Notation semc' := (semc truth). Notation sema' := (sema truth). Notation sem' := (sem truth).
Notation eval := (eval truth).

(* ---- single-step lemmas ---- *)
Lemma kw_false s : kw s = false ->
  str_eqb s s_open = false /\ str_eqb s s_close = false /\ str_eqb s s_and = false /\ str_eqb s s_or = false.
Proof. unfold kw; intros H; repeat (apply orb_false_elim in H; destruct H as [H ?]); auto. Qed.

Definition push a (s : st) := mk (cnt s) (a :: grp s) (total s) (partial s) (found s).

Lemma go_inner ev a l s : str_eqb a s_open = false -> str_eqb a s_close = false -> (0 < cnt s)%Z ->
  go ev (a :: l) s = go ev l (push a s).
Proof. intros H1 H2 H3; cbn [Cond.go]; rewrite H1, H2.
  destruct (Z.ltb_spec 0 (cnt s)); [reflexivity|lia]. Qed.

Lemma go_open_in ev l s : (0 < cnt s)%Z ->
  go ev (s_open :: l) s = go ev l (mk (cnt s + 1) (s_open :: grp s) (total s) (partial s) (found s)).
Proof. intros H; cbn [Cond.go]. change (str_eqb s_open s_open) with true; cbn iota.
  destruct (Z.eqb_spec (cnt s) 0); [lia|reflexivity]. Qed.

Lemma go_close_in ev l s : (1 < cnt s)%Z ->
  go ev (s_close :: l) s = go ev l (mk (cnt s - 1) (s_close :: grp s) (total s) (partial s) (found s)).
Proof. intros H; cbn [Cond.go]. change (str_eqb s_close s_open) with false; change (str_eqb s_close s_close) with true; cbn iota.
  destruct (Z.eqb_spec (cnt s - 1) 0); [lia|]. destruct (Z.ltb_spec (cnt s - 1) 0); [lia|reflexivity]. Qed.

(* scanning balanced tokens inside a group only collects them *)
Lemma collect :
  (forall c, wf c -> forall ev k g t p f l, (0 < k)%Z ->
     go ev (toks c ++ l) (mk k g t p f) = go ev l (mk k (rev (toks c) ++ g) t p f)) /\
  (forall a, wfa a -> forall ev k g t p f l, (0 < k)%Z ->
     go ev (atoks a ++ l) (mk k g t p f) = go ev l (mk k (rev (atoks a) ++ g) t p f)).
Proof.
  apply cond_atom_ind.
  - intros a IH Hw *; cbn [toks]; auto.
  - intros a IHa c IHc [Hwa Hwc] ev k g t p f l Hk; cbn [toks].
    rewrite <- app_assoc, IHa by auto. cbn [app].
    rewrite go_inner by (cbn; auto). unfold push; cbn [cnt grp total partial found].
    rewrite IHc by auto. do 2 f_equal. rewrite rev_app_distr; cbn [rev]. rewrite <- !app_assoc; reflexivity.
  - intros a IHa c IHc [Hwa Hwc] ev k g t p f l Hk; cbn [toks].
    rewrite <- app_assoc, IHa by auto. cbn [app].
    rewrite go_inner by (cbn; auto). unfold push; cbn [cnt grp total partial found].
    rewrite IHc by auto. do 2 f_equal. rewrite rev_app_distr; cbn [rev]. rewrite <- !app_assoc; reflexivity.
  - intros s Hw ev k g t p f l Hk; cbn [atoks app]. cbn in Hw; destruct (kw_false _ Hw) as (H1 & H2 & _).
    rewrite go_inner by auto. reflexivity.
  - intros _ ev k g t p f l Hk; cbn [atoks app].
    rewrite go_open_in by (cbn; lia). cbn [cnt grp total partial found].
    rewrite go_close_in by (cbn; lia). cbn [cnt grp total partial found].
    replace (k + 1 - 1)%Z with k by lia. reflexivity.
  - intros c IHc Hw ev k g t p f l Hk; cbn [atoks app].
    rewrite go_open_in by (cbn; lia). cbn [cnt grp total partial found].
    rewrite <- app_assoc, IHc by (auto; lia). cbn [app].
    rewrite go_close_in by (cbn; lia). cbn [cnt grp total partial found].
    replace (k + 1 - 1)%Z with k by lia. do 2 f_equal.
    cbn [rev]. rewrite rev_app_distr. cbn [rev app]. rewrite <- !app_assoc. reflexivity.
Qed.

(* ---- the abstraction of the evaluator state between atoms ---- *)
Inductive ready : st -> bool -> Prop :=
| R_none : ready (mk 0 [] None None FNone) false
| R_and p : ready (mk 0 [] (Some true) p FAnd) false
| R_or t v : unwrap_or t true = true -> ready (mk 0 [] t (Some v) FOr) v.

Definition after (s : st) (v : bool) : st := mk 0 [] (total s) (Some v) FValue.

Lemma ready_total s cur : ready s cur -> unwrap_or (total s) true = true.
Proof. destruct 1; auto. Qed.

Section Inner.
Variable ev : list str -> res.
Variable n : nat.
Hypothesis ev_nil : (1 <= n)%nat -> ev [] = Ok false.
Hypothesis ev_sub : forall c, wf c -> (depth c < n)%nat -> ev (toks c) = Ok (sem' c).

Lemma atom_step a : wfa a -> (adepth a <= n)%nat -> forall s cur l, ready s cur ->
  go ev (atoks a ++ l) s = go ev l (after s (cur || sema' a)).
Proof.
  destruct a as [v| |c]; intros Hw Hd s cur l Hr.
  - cbn in Hw. destruct (kw_false _ Hw) as (H1 & H2 & H3 & H4).
    cbn [atoks app Cond.go]. rewrite H1, H2, H3, H4.
    destruct Hr; cbn; try reflexivity.
    now rewrite orb_comm.
  - cbn [atoks app Cond.go].
    change (str_eqb s_open s_open) with true; cbn iota.
    change (str_eqb s_close s_open) with false; change (str_eqb s_close s_close) with true; cbn iota.
    destruct Hr; cbn; rewrite ev_nil by (cbn in Hd; lia); cbn; try reflexivity.
    now rewrite orb_false_r.
  - cbn [atoks app]. cbn [Cond.go]. change (str_eqb s_open s_open) with true; cbn iota.
    assert (Hc : cnt s = 0%Z) by (destruct Hr; reflexivity).
    rewrite Hc; cbn [Z.eqb Z.add].
    rewrite <- app_assoc. destruct collect as [Hcol _].
    rewrite Hcol by (auto; lia). cbn [app Cond.go].
    change (str_eqb s_close s_open) with false; change (str_eqb s_close s_close) with true; cbn iota.
    cbn [cnt grp Z.sub Z.add Z.opp Z.pos_sub Z.eqb]. rewrite app_nil_r, rev_involutive.
    rewrite ev_sub by (auto; cbn in Hd; lia).
    destruct Hr; cbn; try reflexivity.
    unfold sem. now rewrite orb_comm.
Qed.

Lemma cond_run c : wf c -> (depth c <= n)%nat -> forall s cur, ready s cur ->
  go ev (toks c) s = Ok (semc' c cur).
Proof.
  induction c as [a|a c IH|a c IH]; intros Hw Hd s cur Hr; cbn [toks];
    [change (semc' (CAtom a) cur) with (cur || sema' a)
    |change (semc' (CAnd a c) cur) with ((cur || sema' a) && semc' c false)
    |change (semc' (COr a c) cur) with (semc' c (cur || sema' a))].
  - rewrite <- (app_nil_r (atoks a)), atom_step with (cur := cur) by auto.
    destruct Hr as [|p|t v Ht]; cbn; rewrite ?andb_true_r; try reflexivity.
    unfold final, after; cbn. destruct t as [[|]|]; cbn in *; try discriminate; now rewrite ?andb_true_r.
  - destruct Hw as [Hwa Hwc]. cbn in Hd.
    rewrite atom_step with (cur := cur) by (auto; lia).
    cbn [Cond.go]. change (str_eqb s_and s_open) with false. change (str_eqb s_and s_close) with false.
    change (str_eqb s_and s_and) with true. cbn.
    rewrite (ready_total _ _ Hr). cbn.
    destruct (cur || sema' a); cbn; [|reflexivity].
    apply IH; auto; [lia|constructor].
  - destruct Hw as [Hwa Hwc]. cbn in Hd.
    rewrite atom_step with (cur := cur) by (auto; lia).
    cbn [Cond.go]. change (str_eqb s_or s_open) with false. change (str_eqb s_or s_close) with false.
    change (str_eqb s_or s_and) with false. change (str_eqb s_or s_or) with true. cbn.
    apply IH; auto; [lia|]. constructor. apply (ready_total _ _ Hr).
Qed.
End Inner.

Lemma toks_nonempty c : toks c <> [].
Proof. destruct c as [[| |]|[| |]|[| |]]; cbn; congruence. Qed.

Theorem eval_sem : forall n c, wf c -> (depth c < n)%nat -> eval n (toks c) = Ok (sem' c).
Proof.
  induction n as [|n IH]; intros c Hw Hd; [lia|].
  cbn [Cond.eval]. destruct (toks c) eqn:E; [now apply toks_nonempty in E|]. rewrite <- E.
  apply cond_run with (n := n); auto; try lia.
  - intros H; destruct n; [lia|reflexivity].
  - constructor.
Qed.
End P.

