(* RegcmdsGenTie.v — the hand-written model of the script-level registry commands in Registry.v (the arms SAlias /
   SUnalias / SRemoveCommand / SIsDefined of [sstep]) is EQUAL, for every argument vector and every state, to the mechanical
   translation of the CURRENT Rust source (coq/generated/GenRegcmdsFn.v, rewritten on every run by lib/rs2v.py through
   lib/gen/regcmds_gen.py) of

     sdk/std/is_command_defined/mod.rs   run      gen_cmd_is_command_defined args s = Some (sstep s (SIsDefined args))
     sdk/std/lib/command/remove/mod.rs   run      gen_cmd_remove_command     args s = Some (sstep s (SRemoveCommand args))
     sdk/std/lib/alias/unset/mod.rs      run      gen_cmd_unalias            args s = Some (sstep s (SUnalias args))
     sdk/std/lib/alias/set/mod.rs        run + create_alias_command
                                                  gen_cmd_alias              args s = Some (sstep s (SAlias args))

   The generated functions return an option: None is a panic (`arguments[i]` / `arguments[1..]` out of range).  The
   equalities say `Some`: those arms are dead for every argument vector.

   Each theorem is stated under its own flag [gen_cmd_<name>_understood = true]: when the translator does not understand the
   source any more the generated file carries [false] and a stub, and the theorem holds vacuously.  After the first sentence
   (which closes the goal against the stub) every sentence is prefixed with [all:], so the file also compiles against the
   all-stub file.  The proofs name no generated variable: they split the argument vector by its length (up to three
   elements and a rest, more than any of the commands looks at), compute, and then do case analysis on whatever registry
   call / lookup / test the goal branches on, so rewrites of the source that keep the meaning (tests reordered or negated,
   `< 2` as `<= 1`, match as if let, early returns, hoisted lets) leave them provable. *)
From stdpp Require Import gmap list.
Require Import DS.Registry DS.RegistryGenLib DS.Rs2vMapLib DS.RegcmdsGenLib.
Require Import DSG.GenRegcmdsFn.

Ltac rc_compute :=
  cbn [length nth_error Nat.ltb Nat.leb Nat.eqb negb andb orb vec_is_empty vec_slice_from drop sstep set_outcome
       sr_reg sr_alias sr_fn cmds als fst snd] in *; cbn beta iota zeta in *.

(* one step of case analysis on what a translated command can branch on *)
Ltac rc_case :=
  match goal with
  | |- context [reg_remove ?r ?k] => destruct (reg_remove r k) as [? []] eqn:?
  | |- context [reg_set ?r ?n ?d] => destruct (reg_set r n d) eqn:?
  | |- context [bool_decide ?P] => destruct (bool_decide_reflect P)
  | |- context [match ?m !! ?k with Some _ => _ | None => _ end] => destruct (m !! k) eqn:?
  | |- context [if ?b then _ else _] => destruct b eqn:?
  end.

Ltac rc_close :=
  repeat match goal with
         | H : reg_remove _ _ = (_, false) |- _ => apply reg_remove_false in H; subst
         end;
  try reflexivity; try congruence; try contradiction.

Ltac rc_tree :=
  unfold map_has, opt_is_some in *; rc_compute;
  repeat (rc_case; rc_compute; try discriminate);
  rc_close.

Ltac rc_args args :=
  destruct args as [|? [|? [|? ?]]].

(* ---- is_command_defined ------------------------------------------------------------------------------------------- *)
Theorem gen_cmd_is_command_defined_eq : gen_cmd_is_command_defined_understood = true ->
  forall args s, gen_cmd_is_command_defined args s = Some (sstep s (SIsDefined args)).
Proof.
  unfold gen_cmd_is_command_defined_understood; intros U; try discriminate U.
  all: clear U.
  all: intros args [r A F]; unfold gen_cmd_is_command_defined.
  all: rc_args args; rc_tree.
Qed.

(* ---- remove_command ----------------------------------------------------------------------------------------------- *)
Theorem gen_cmd_remove_command_eq : gen_cmd_remove_command_understood = true ->
  forall args s, gen_cmd_remove_command args s = Some (sstep s (SRemoveCommand args)).
Proof.
  unfold gen_cmd_remove_command_understood; intros U; try discriminate U.
  all: clear U.
  all: intros args [r A F]; unfold gen_cmd_remove_command.
  all: rc_args args; rc_tree.
Qed.

(* ---- unalias ------------------------------------------------------------------------------------------------------ *)
Theorem gen_cmd_unalias_eq : gen_cmd_unalias_understood = true ->
  forall args s, gen_cmd_unalias args s = Some (sstep s (SUnalias args)).
Proof.
  unfold gen_cmd_unalias_understood; intros U; try discriminate U.
  all: clear U.
  all: intros args [r A F]; unfold gen_cmd_unalias.
  all: rc_args args; rc_tree.
Qed.

(* ---- alias (run with create_alias_command inlined) ------------------------------------------------------------------ *)
Theorem gen_cmd_alias_eq : gen_cmd_alias_understood = true ->
  forall args s, gen_cmd_alias args s = Some (sstep s (SAlias args)).
Proof.
  unfold gen_cmd_alias_understood; intros U; try discriminate U.
  all: clear U.
  all: intros args [r A F]; unfold gen_cmd_alias.
  all: rc_args args; rc_tree.
Qed.

(* ---- the script-level history: a run of alias / unalias / remove_command / is_command_defined steps through the
   translations is Registry.srun ---------------------------------------------------------------------------------------- *)
(* one step through the generated functions; the `fn` registration (SFn) is not translated here and is taken from the
   hand model *)
Definition gen_sstep (s : sreg) (o : sop) : option (sreg * sres) :=
  match o with
  | SAlias args => gen_cmd_alias args s
  | SUnalias args => gen_cmd_unalias args s
  | SRemoveCommand args => gen_cmd_remove_command args s
  | SIsDefined args => gen_cmd_is_command_defined args s
  | SFn n => Some (sstep s (SFn n))
  end.

Fixpoint gen_srun (s : sreg) (ops : list sop) : option (sreg * list sres) :=
  match ops with
  | [] => Some (s, [])
  | o :: ops' =>
      match gen_sstep s o with
      | None => None
      | Some (s1, x) => match gen_srun s1 ops' with None => None | Some (s2, xs) => Some (s2, x :: xs) end
      end
  end.

Definition gen_regcmds_all_understood : bool :=
  gen_cmd_alias_understood && gen_cmd_unalias_understood && gen_cmd_remove_command_understood
  && gen_cmd_is_command_defined_understood.

Theorem gen_sstep_eq : gen_regcmds_all_understood = true -> forall s o, gen_sstep s o = Some (sstep s o).
Proof.
  unfold gen_regcmds_all_understood. intros U.
  apply andb_prop in U as [U U4]. apply andb_prop in U as [U U3]. apply andb_prop in U as [U1 U2].
  intros s [args|args|args|args|n]; unfold gen_sstep.
  - exact (gen_cmd_alias_eq U1 args s).
  - exact (gen_cmd_unalias_eq U2 args s).
  - exact (gen_cmd_remove_command_eq U3 args s).
  - exact (gen_cmd_is_command_defined_eq U4 args s).
  - reflexivity.
Qed.

Theorem gen_srun_eq : gen_regcmds_all_understood = true -> forall ops s, gen_srun s ops = Some (srun s ops).
Proof.
  intros U ops. induction ops as [|o ops IH]; intros s; cbn [gen_srun srun]; [reflexivity|].
  rewrite (gen_sstep_eq U). destruct (sstep s o) as [s1 x]. rewrite IH. destruct (srun s1 ops) as [s2 xs]. reflexivity.
Qed.
