(* FlowforEmbed.v — the g-model of FlowforLib.v (forin/mod.rs over gstate, WITH line_context_name) against the hand model
   Flow.v (which omits line_context_name).  No generated file is used here.

   [embed c s] is the gstate of a Flow.v state [s] in which the current line context name is [c] and every call-info entry
   carries [c] — Flow.v's stated assumption (programs of C04's / C05's domain never change the line context name: only
   types/command.rs::AliasCommand does).  On these states every g-model function IS the Flow.v function, and lands in an
   embedded state again (so the statement composes along runs). *)
Require Import DS.Base DS.Cond DS.FlowTables DS.FlowScan DS.Flow DS.FlowforLib.
Require Import DSG.GenFlowNames.
Local Open Scope nat_scope.
Local Open Scope bool_scope.

(* ---- loops ---------------------------------------------------------------------------------------------------------- *)
Lemma gloop_ext {S R : Type} (b1 b2 : S -> gres (lctl R * S)) :
  (forall s, b1 s = b2 s) -> forall fuel s, gloop fuel b1 s = gloop fuel b2 s.
Proof.
  intros E fuel; induction fuel as [|n IH]; intros s; cbn [gloop]; [reflexivity|].
  rewrite E. destruct (b2 s) as [[[|r] s']| |]; auto.
Qed.

(* the `loop` of pop_call_info_for_line, driven with enough fuel, is the structural pop *)
Lemma gloop_pop line recursive c : forall stk meta en arrs l fuel,
  length stk < fuel ->
  gloop fuel (fun g => GVal (g_pop_body line recursive c g)) (mkGS meta stk en arrs l) =
  GVal (let (o, stk') := (if recursive then g_pop_rec else g_pop_top) line c stk in (o, mkGS meta stk' en arrs l)).
Proof.
  induction stk as [|e r IH]; intros meta en arrs l fuel Hf.
  - destruct fuel as [|n]; [inversion Hf|]. cbn. destruct recursive; reflexivity.
  - destruct fuel as [|n]; [inversion Hf|].
    cbn [gloop g_pop_body gs_stk]. unfold g_store, g_set_stk; cbn [gs_meta gs_stk gs_end gs_arrs gs_lcn].
    destruct (g_match line c e) eqn:M.
    + destruct recursive; cbn [g_pop_rec g_pop_top]; rewrite M; reflexivity.
    + destruct recursive; cbn [negb g_pop_rec g_pop_top]; rewrite M.
      * rewrite IH by (cbn in Hf; lia). reflexivity.
      * reflexivity.
Qed.

Lemma g_pop_loop line recursive gs :
  gloop (S (length (gs_stk gs))) (fun g => GVal (g_pop_body line recursive (gs_lcn gs) g)) gs = GVal (g_pop line recursive gs).
Proof.
  destruct gs as [meta stk en arrs l]. cbn [gs_stk gs_lcn].
  rewrite gloop_pop by lia. unfold g_pop, g_set_stk; cbn [gs_meta gs_stk gs_end gs_arrs gs_lcn]. reflexivity.
Qed.

(* ---- the embedding ---------------------------------------------------------------------------------------------------- *)
Lemma g_match_addl line c e : g_match line c (addl c e) = for_match line e.
Proof. unfold g_match, for_match, addl; cbn. rewrite str_eqb_refl. apply andb_true_r. Qed.

Lemma embed_pop_top line c stk :
  g_pop_top line c (map (addl c) stk) =
  let (o, r) := for_pop_top line stk in (option_map (addl c) o, map (addl c) r).
Proof. destruct stk as [|e r]; cbn; [reflexivity|]. rewrite g_match_addl. destruct (for_match line e); reflexivity. Qed.

Lemma embed_pop_rec line c stk :
  g_pop_rec line c (map (addl c) stk) =
  let (o, r) := for_pop line stk in (option_map (addl c) o, map (addl c) r).
Proof.
  induction stk as [|e r IH]; cbn; [reflexivity|]. rewrite g_match_addl.
  destruct (for_match line e); [reflexivity|exact IH].
Qed.

(* pop_call_info_for_line *)
Lemma embed_pop line recursive c w f :
  g_pop line recursive (embed c (w, f)) =
  let (o, stk) := (if recursive then for_pop else for_pop_top) line (f_forstk f) in
  (option_map (addl c) o, embed c (w, set_forstk stk f)).
Proof.
  unfold g_pop, embed, g_set_stk; cbn [fst snd gs_meta gs_stk gs_end gs_arrs gs_lcn].
  destruct recursive.
  - rewrite embed_pop_rec. destruct (for_pop line (f_forstk f)); reflexivity.
  - rewrite embed_pop_top. destruct (for_pop_top line (f_forstk f)); reflexivity.
Qed.

(* store_call_info *)
Lemma embed_store c e w f : g_store (addl c e) (embed c (w, f)) = embed c (w, for_push e f).
Proof. reflexivity. Qed.

(* get_next_iteration *)
Lemma embed_next c i h w f : g_next i h (embed c (w, f)) = get_next_iteration i h w.
Proof. reflexivity. Qed.

(* get_or_create_forin_meta_info_for_line *)
Lemma embed_meta_info P line c w f :
  g_meta_info P line (embed c (w, f)) =
  let (o, f') := for_meta_info P line f in (o, embed c (w, f')).
Proof.
  unfold g_meta_info, for_meta_info, embed; cbn [fst snd gs_meta gs_stk gs_end gs_arrs gs_lcn].
  destruct (aget Nat.eqb line (f_formeta f)) as [m|]; [reflexivity|].
  destruct (create_loop_meta gen_for_tables P line) as [m|]; reflexivity.
Qed.

(* ForInCommand::run on the argument vector `x in <handle>` the model's instruction [AFor x hv] stands for *)
Lemma embed_step_for P line x hv c w f :
  g_step_for P line [x; s_in; vval hv w] (w_vars w) (embed c (w, f)) =
  let '(r, (w', f')) := step_for P line x hv (w, f) in (r, w_vars w', embed c (w', f')).
Proof.
  unfold g_step_for, step_for, for_call_info. rewrite str_eqb_refl, embed_pop.
  destruct (for_pop_top line (f_forstk f)) as [[ci|] stk]; cbn [option_map].
  - rewrite embed_next. cbn [addl gc_iter gc_meta].
    destruct (get_next_iteration (fc_iter ci) (vval hv w) w) as [v|]; [|reflexivity].
    change (mkGC (S (fc_iter ci)) (fc_meta ci) (gs_lcn (embed c (w, set_forstk stk f))))
      with (addl c (mkFC (S (fc_iter ci)) (fc_meta ci))).
    rewrite embed_store. reflexivity.
  - rewrite embed_meta_info.
    destruct (for_meta_info P line (set_forstk stk f)) as [[m|] f1]; [|reflexivity].
    rewrite embed_next. cbn [gc_iter gc_meta fc_iter fc_meta].
    destruct (get_next_iteration 0 (vval hv w) w) as [v|]; [|reflexivity].
    change (mkGC 1 m (gs_lcn (embed c (w, f1)))) with (addl c (mkFC 1 m)).
    rewrite embed_store. reflexivity.
Qed.

(* every other argument vector: the model's [step] answers RError 10 for an instruction of the wrong shape *)
Lemma g_step_for_invalid P line args vars gs :
  (forall x h, args <> [x; s_in; h]) -> g_step_for P line args vars gs = (RError 10, vars, gs).
Proof.
  intros H. unfold g_step_for.
  destruct args as [|x [|kw [|h [|z r]]]]; try reflexivity.
  destruct (str_eqb_spec kw s_in) as [->|]; [|reflexivity].
  exfalso. exact (H x h eq_refl).
Qed.

(* EndForInCommand::run *)
Lemma embed_step_endfor line c w f :
  g_step_endfor line (w_vars w) (embed c (w, f)) =
  let '(r, (w', f')) := step_endfor line (w, f) in (r, w_vars w', embed c (w', f')).
Proof.
  unfold g_step_endfor, step_endfor. rewrite embed_pop.
  destruct (for_pop line (f_forstk f)) as [[ci|] stk]; cbn [option_map]; [|reflexivity].
  rewrite embed_store. reflexivity.
Qed.

(* ---- what the two commands leave alone (the components of a Flow.v state that are not in gstate) ---------------------- *)
Definition same_rest (s s' : state) : Prop :=
  w_trace (fst s') = w_trace (fst s) /\ w_next (fst s') = w_next (fst s) /\
  f_ifmeta (snd s') = f_ifmeta (snd s) /\ f_ifstk (snd s') = f_ifstk (snd s) /\
  f_whmeta (snd s') = f_whmeta (snd s) /\ f_whstk (snd s') = f_whstk (snd s).

Lemma for_meta_info_rest P line f : forall o f', for_meta_info P line f = (o, f') ->
  f_ifmeta f' = f_ifmeta f /\ f_ifstk f' = f_ifstk f /\ f_whmeta f' = f_whmeta f /\ f_whstk f' = f_whstk f.
Proof.
  unfold for_meta_info. intros o f' H.
  destruct (aget Nat.eqb line (f_formeta f)) as [m|].
  - inversion H; subst; cbn; auto.
  - destruct (create_loop_meta gen_for_tables P line) as [m|]; inversion H; subst; cbn; auto.
Qed.

Lemma step_for_rest P line x hv s : same_rest s (snd (step_for P line x hv s)).
Proof.
  destruct s as [w f]. unfold step_for, for_call_info.
  destruct (for_pop_top line (f_forstk f)) as [[ci|] stk].
  - destruct (get_next_iteration (fc_iter ci) (vval hv w) w); cbn; repeat split; reflexivity.
  - destruct (for_meta_info P line (set_forstk stk f)) as [[m|] f1] eqn:E;
      apply for_meta_info_rest in E; cbn in E; destruct E as (E1 & E2 & E3 & E4).
    + cbn [fc_iter fc_meta]. destruct (get_next_iteration 0 (vval hv w) w); cbn; repeat split; first [assumption|reflexivity].
    + cbn; repeat split; first [assumption|reflexivity].
Qed.

Lemma step_endfor_rest line s : same_rest s (snd (step_endfor line s)).
Proof.
  destruct s as [w f]. unfold step_endfor.
  destruct (for_pop line (f_forstk f)) as [[ci|] stk]; cbn; repeat split; reflexivity.
Qed.

(* a Flow.v state is its embedding plus the components [same_rest] speaks about plus the variables *)
Lemma embed_determines c s s' :
  embed c s = embed c s' -> w_vars (fst s) = w_vars (fst s') -> same_rest s s' -> s = s'.
Proof.
  destruct s as [[v t a n] [a1 a2 a3 a4 a5 a6 a7]], s' as [[v' t' a' n'] [b1 b2 b3 b4 b5 b6 b7]].
  unfold embed, same_rest; cbn. intros E Ev (H1 & H2 & H3 & H4 & H5 & H6).
  inversion E as [[E1 E2 E3 E4]]. subst.
  assert (a6 = b6).
  { clear -E2. revert b6 E2. induction a6 as [|[i m] r IH]; intros [|[i' m'] r'] E; cbn in E; try discriminate; [reflexivity|].
    inversion E; subst. f_equal. apply IH; assumption. }
  subst. reflexivity.
Qed.
