(* IncludeGenTie.v — the include pre-processor (duckscript/src/preprocessor/include_files_preprocessor.rs `run`), the
   pre-processor dispatch (preprocessor/mod.rs `run`) and the three wrappers of parser.rs (parse_file,
   parse_text_with_source_file, parse_text): the hand models Include.v / IncludePath.v / Parser.preprocess are EQUAL, for
   all inputs, to the mechanical translation of the CURRENT Rust source (coq/generated/GenIncludeFn.v, rewritten on every
   run by lib/rs2v.py class FnV through lib/gen/include_gen.py).

     gen_include_path_eq        the path string one loop iteration hands to parser::parse_file
                                = Include.include_path (IncludePath.resolve canon)
     gen_include_run_body_eq    one iteration of the loop = parse the file at that path, append or return the error
     gen_include_run_eq         the loop = Include.inc_list (None arguments: no instructions)
     gen_preprocess_eq          preprocessor::run = Parser.preprocess (the handler receives the Option of the arguments)
     gen_preprocess_include_eq  .. with the translated include loop plugged in as the handler
     gen_parse_text_eq / gen_parse_text_with_source_file_eq / gen_parse_file_eq
                                the wrappers = IncludeFns.parse_text_inc / parse_text_with_source_file / parse_file_step
     parse_text_inc_model, parse_text_with_source_file_model, parse_file_step_model, include_parse_file_step
                                (hand side only) what those names are in terms of Parser.v / Include.v
     gen_include_knot           one unfolding of Include.parse_file is the translated parse_file whose include handler is the
                                translated loop over Include.parse_file at the next smaller include depth

   Every theorem is stated under the flag(s) [gen_<fn>_understood = true] of the generated functions it unfolds: when the
   translator does not understand a function any more the generated file holds [false] and a stub for it and the theorem
   holds vacuously (the check reports that tie as inactive).  Every proof must also compile against the stub: the first
   sentence then closes the goal by [discriminate], so every later sentence is prefixed with [all:] and no bullets / braces
   are used.  No proof mentions a generated variable name or the position of a test in a decision tree: character and
   string comparisons are decided by their specification / abstracted to boolean atoms and every remaining [match] is
   decided by cases on its scrutinee. *)
Require Import DS.Base DS.Parser DS.ParserIx DS.ParserIxProof DS.Rs2vLib2 DS.Rs2vCliLib DS.Include DS.IncludePath DS.IncludeFns.
Require Import DSG.GenIncludeFn.
Local Open Scope bool_scope.

(* string comparisons are decided by their SPECIFICATION (a positive answer substitutes the compared text, so every other
   comparison of it with a literal computes: two command names can never both match, whatever order the source tests them) *)
Ltac str_atoms :=
  repeat match goal with
         | |- context [str_eqb ?a ?b] =>
           let E := fresh "E" in
           destruct (str_eqb_spec a b) as [E|E];
           [first [subst a | subst b | rewrite E in * |- * | idtac]|]; cbn in *
         end.

(* the tests of the first character become independent boolean atoms *)
Ltac char_atoms :=
  repeat match goal with
         | |- context [N.eqb ?a ?b] => let x := fresh "atom" in generalize (N.eqb a b); intros x
         end;
  repeat match goal with x : bool |- _ => destruct x end; cbn [andb orb negb].

(* every match that is left is decided by cases on what it inspects *)
Ltac match_cases :=
  repeat match goal with
         | |- context [match ?x with _ => _ end] => destruct x eqn:?; cbn iota beta
         end;
  try reflexivity; try congruence.

(* ---- include_files_preprocessor.rs: the path of one listed file -------------------------------------------- *)
Theorem gen_include_path_eq : gen_include_path_understood = true ->
  forall canon src a, gen_include_path canon src a = include_path (resolve canon) src a.
Proof.
  unfold gen_include_path_understood; intros U; try discriminate U; clear U.
  all: intros canon src a; unfold gen_include_path, include_path, resolve, or_canon, is_abs, c_bs.
  all: destruct a as [|c r]; cbn [str_starts_with]; rewrite ?Bool.andb_true_r; char_atoms; match_cases.
Qed.

(* ---- .. one iteration of its loop ------------------------------------------------------------------------------ *)
Lemma gen_include_run_body_eq : gen_include_run_understood = true ->
  forall canon pf src st a,
    gen_include_run_body canon pf src st a
    = match pf (include_path (resolve canon) src a) with
      | TOk is => LCont (st ++ is)
      | TErr e l s => LRet (TErr e l s)
      end.
Proof.
  unfold gen_include_run_understood; intros U; try discriminate U; clear U.
  all: intros canon pf src st a; unfold gen_include_run_body, include_path, resolve, or_canon, is_abs, c_bs.
  all: destruct a as [|c r]; cbn [str_starts_with]; rewrite ?Bool.andb_true_r; char_atoms; match_cases.
Qed.

(* .. the loop: the instructions of the listed files in order, the first error ends it (no generated definition is
   unfolded here, so the proof is the same against the stub) *)
Lemma gen_include_run_loop : gen_include_run_understood = true ->
  forall canon pf src args st,
    for_each_r (gen_include_run_body canon pf src) args st
    = match inc_list (resolve canon) pf src args with
      | TOk is => LCont (st ++ is)
      | TErr e l s => LRet (TErr e l s)
      end.
Proof.
  intros U canon pf src args; induction args as [|a r IH]; intros st; cbn [for_each_r inc_list].
  - rewrite app_nil_r; reflexivity.
  - rewrite (gen_include_run_body_eq U).
    destruct (pf (include_path (resolve canon) src a)) as [is|e l s]; [|reflexivity].
    rewrite IH. destruct (inc_list (resolve canon) pf src r); [rewrite app_assoc|]; reflexivity.
Qed.

Theorem gen_include_run_eq : gen_include_run_understood = true ->
  forall canon pf src oargs,
    gen_include_run canon pf src oargs = inc_opt (fun args s => inc_list (resolve canon) pf s args) oargs src.
Proof.
  intros U. pose proof (gen_include_run_loop U) as L. revert U L.
  unfold gen_include_run_understood; intros U; try discriminate U; clear U.
  all: intros L canon pf src oargs; unfold gen_include_run, inc_opt.
  all: destruct oargs as [args|]; cbn iota beta; rewrite ?L; try destruct (inc_list (resolve canon) pf src args); reflexivity.
Qed.

(* ---- preprocessor/mod.rs: the dispatch on the command name ------------------------------------------------- *)
Theorem gen_preprocess_eq : gen_preprocess_understood = true ->
  forall inc src ln t, gen_preprocess (inc_opt inc) src ln t = preprocess inc src ln t.
Proof.
  unfold gen_preprocess_understood; intros U; try discriminate U; clear U.
  all: intros inc src ln t; unfold gen_preprocess, preprocess, inc_opt, s_print, s_include_files.
  all: destruct t as [|[cmd|] args|l o c args]; cbn iota beta; try reflexivity; str_atoms; match_cases.
Qed.

(* .. with the translated loop as the handler *)
Theorem gen_preprocess_include_eq : gen_preprocess_understood = true -> gen_include_run_understood = true ->
  forall canon pf src ln t,
    gen_preprocess (fun oa s => gen_include_run canon pf s oa) src ln t
    = preprocess (fun args s => inc_list (resolve canon) pf s args) src ln t.
Proof.
  intros U1 U2. pose proof (gen_include_run_eq U2) as R. revert U1 R. clear U2.
  unfold gen_preprocess_understood; intros U; try discriminate U; clear U.
  all: intros R canon pf src ln t; unfold gen_preprocess, preprocess, s_print, s_include_files.
  all: destruct t as [|[cmd|] args|l o c args]; cbn iota beta; try reflexivity; str_atoms; rewrite ?R; unfold inc_opt; match_cases.
Qed.

(* ---- parser.rs: the wrappers ----------------------------------------------------------------------------------- *)
Theorem gen_parse_text_eq : gen_parse_text_understood = true ->
  forall inc text, gen_parse_text inc text = parse_text_inc inc text.
Proof.
  unfold gen_parse_text_understood; intros U; try discriminate U; clear U.
  all: intros inc text; unfold gen_parse_text, parse_text_inc; match_cases.
Qed.

Theorem gen_parse_text_with_source_file_eq : gen_parse_text_with_source_file_understood = true ->
  forall inc text file, gen_parse_text_with_source_file inc text file = parse_text_with_source_file inc text file.
Proof.
  unfold gen_parse_text_with_source_file_understood; intros U; try discriminate U; clear U.
  all: intros inc text file; unfold gen_parse_text_with_source_file, parse_text_with_source_file; match_cases.
Qed.

Theorem gen_parse_file_eq : gen_parse_file_understood = true ->
  forall fs inc file, gen_parse_file fs inc file = parse_file_step inc fs file.
Proof.
  unfold gen_parse_file_understood; intros U; try discriminate U; clear U.
  all: intros fs inc file; unfold gen_parse_file, parse_file_step; match_cases.
Qed.

(* ---- what the names of IncludeFns.v are in terms of Parser.v / Include.v (hand side only) ------------------- *)
Lemma parse_lines_model inc src text :
  parse_lines inc src text = inj_tres (Parser.parse_text_src inc src text).
Proof. apply parse_lines_refine. Qed.

Lemma parse_text_inc_model inc text :
  parse_text_inc inc text = inj_tres (Parser.parse_text_src inc None text).
Proof. apply parse_lines_refine. Qed.

(* parser::parse_text as C01 / C08 use it (texts whose include directives cannot be served) *)
Lemma parse_text_inc_no_include text :
  parse_text_inc no_include text = ParserIx.parse_text text /\
  parse_text_inc no_include text = inj_tres (Parser.parse_text text).
Proof. split; [reflexivity|apply parse_lines_refine]. Qed.

Lemma parse_text_with_source_file_model inc text file :
  parse_text_with_source_file inc text file = inj_tres (Parser.parse_text_src inc (Some file) text).
Proof. apply parse_lines_refine. Qed.

Lemma parse_file_step_model inc fs file :
  parse_file_step inc fs file
  = inj_tres (match fs file with
              | None => TErr EReadFile 0 (Some file)
              | Some text => Parser.parse_text_src inc (Some file) text
              end).
Proof.
  unfold parse_file_step. destruct (fs file); [apply parse_text_with_source_file_model|reflexivity].
Qed.

(* Include.parse_file, one include level unfolded *)
Lemma include_parse_file_step fs rsv f p :
  inj_tres (Include.parse_file fs rsv (S f) p)
  = parse_file_step (fun args src => inc_list rsv (Include.parse_file fs rsv f) src args) fs p.
Proof. rewrite parse_file_step_model. cbn [Include.parse_file]. destruct (fs p); reflexivity. Qed.

(* the line loop only asks its handler for values *)
Lemma preprocess_ext inc1 inc2 : (forall a s, inc1 a s = inc2 a s) ->
  forall src ln t, preprocess inc1 src ln t = preprocess inc2 src ln t.
Proof.
  intros H src ln t; unfold preprocess. destruct t as [|[cmd|] [a|]|]; try reflexivity.
  rewrite H; reflexivity.
Qed.

Lemma parse_lines_from_ext inc1 inc2 : (forall a s, inc1 a s = inc2 a s) ->
  forall src ls ln, ParserIx.parse_lines_from inc1 src ln ls = ParserIx.parse_lines_from inc2 src ln ls.
Proof.
  intros H src ls; induction ls as [|s ls IH]; intros ln; cbn [ParserIx.parse_lines_from]; [reflexivity|].
  destruct (ParserIx.parse_line s); try reflexivity.
  rewrite (preprocess_ext inc1 inc2 H). destruct (preprocess inc2 src ln a); [|reflexivity].
  rewrite IH; reflexivity.
Qed.

Lemma parse_file_step_ext inc1 inc2 : (forall a s, inc1 a s = inc2 a s) ->
  forall fs file, parse_file_step inc1 fs file = parse_file_step inc2 fs file.
Proof.
  intros H fs file; unfold parse_file_step, parse_text_with_source_file, parse_lines.
  destruct (fs file); [apply parse_lines_from_ext, H|reflexivity].
Qed.

(* ---- the recursion of the model is the recursion of the source, one include level at a time ----------------- *)
Theorem gen_include_knot : gen_parse_file_understood = true -> gen_include_run_understood = true ->
  forall fs canon f p,
    inj_tres (Include.parse_file fs (resolve canon) (S f) p)
    = gen_parse_file fs (fun args src => gen_include_run canon (Include.parse_file fs (resolve canon) f) src (Some args)) p.
Proof.
  intros U1 U2 fs canon f p.
  rewrite (gen_parse_file_eq U1), include_parse_file_step.
  apply parse_file_step_ext; intros a s. rewrite (gen_include_run_eq U2). reflexivity.
Qed.
