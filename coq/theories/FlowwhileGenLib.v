(* FlowwhileGenLib.v — run-time support for coq/generated/GenFlowwhileFn.v, the translation of
   duckscript_sdk/src/sdk/std/flowcontrol/while_mod/mod.rs by lib/rs2v.py (class FnFw; client
   lib/gen/flowwhile_gen.py).  Definitions only (the facts about them are in FlowwhileGenTie.v).

   The Rust functions work on `state: &mut HashMap<String, StateValue>`.  Of that map the translation
   sees four components, as ONE typed record [wst]:
     ws_ctx    the value of types/scope.rs::get_line_context_name(state) (runtime sub-state
               "line_context_name", key "name"; "" when absent) — a component the hand model Flow.v
               omits;
     ws_cache  the sub-state  command::while / "meta_info": string key (get_line_key) -> the
               WhileMetaInfo record stored there by serialize_while_meta_info (an absent entry and an
               entry that does not deserialise, e.g. the empty map get_sub_state creates, are the
               same thing: no binding); lookup = first match, insert = cons;
     ws_stk    the list  command::while / "call_stack", head = top of the Vec, every element the
               CallInfo record serialize_call_info wrote (meta info AND line_context_name);
     ws_end    the table end::set_command writes (line -> command name), Flow.f_end. *)
Require Import DS.Base DS.FlowTables DS.FlowScan DS.Flow.
Require DS.Runner.

(* usize::to_string *)
Definition usize_str (n : nat) : str := DS.Runner.nat_str n.

Definition str_is_empty (s : str) : bool := match s with [] => true | _ :: _ => false end.

(* utils/pckg.rs::concat (its shape is checked on the source by lib/gen/c04_gen.py) *)
Definition pckg_concat (parent current : str) : str :=
  if negb (str_is_empty parent) && negb (str_is_empty current)
  then (parent ++ [58%N; 58%N]) ++ current else parent ++ current.

(* CallInfo { meta_info: WhileMetaInfo, line_context_name: String } *)
Record wcall := mkWC { wc_meta : lmeta; wc_ctx : str }.

Record wst := mkWS {
  ws_ctx : str;
  ws_cache : list (str * lmeta);
  ws_stk : list wcall;
  ws_end : list (nat * str) }.

(* CommandResult, as far as these commands build it: Continue(None), GoTo(None, GoToValue::Line(l)),
   Error(text), Crash(text) *)
Inductive gres := GContinue | GGoto (l : nat) | GError (m : str) | GCrash (m : str).

(* the error TEXT instruction_query::find_commands returns is not kept by FlowScan.sres (only its
   kind); the translation spells it [scan_err r] *)
Definition scan_err (r : sres) : str :=
  match r with
  | SOk _ _ => []
  | SMissing => [109;105;115;115;105;110;103]%N
  | SNested => [110;101;115;116;101;100]%N
  | SNoNames => [110;111;110;97;109;101;115]%N
  end.

(* `loop { .. return v; .. }`: a step function driven by fuel; [d] is the value on exhaustion (the tie
   theorems show it is never produced) *)
Inductive wstep (S R : Type) := WCont (s : S) | WRet (r : R).
Arguments WCont {S R} s.
Arguments WRet {S R} r.
Fixpoint loop_ret {S R : Type} (body : S -> wstep S R) (fuel : nat) (s : S) (d : R) : R :=
  match fuel with
  | O => d
  | Datatypes.S f => match body s with WCont s' => loop_ret body f s' d | WRet r => r end
  end.

(* Result<T, String> is [T + str]: Ok = inl, Err = inr *)
Definition res_opt {T : Type} (r : T + str) : option T :=
  match r with inl v => Some v | inr _ => None end.

(* ---- the states the hand model Flow.v describes ------------------------------------------------
   Flow.flow keeps the meta-info cache keyed by the LINE and the while call stack as a list of lmeta:
   it omits line_context_name (constant in programs without alias scopes).  [wst_of ctx f] is the
   typed state of the translation that the model state f stands for when the context name is ctx:
   every cache key is get_line_key's string for that line, every stack entry carries ctx. *)
Definition line_key (ctx : str) (line : nat) : str := (ctx ++ [58%N; 58%N]) ++ usize_str line.
Definition embed_cache (ctx : str) (l : list (nat * lmeta)) : list (str * lmeta) :=
  map (fun p => (line_key ctx (fst p), snd p)) l.
Definition embed_stk (ctx : str) (l : list lmeta) : list wcall := map (fun m => mkWC m ctx) l.
Definition wst_of (ctx : str) (f : flow) : wst :=
  mkWS ctx (embed_cache ctx (f_whmeta f)) (embed_stk ctx (f_whstk f)) (f_end f).

(* pop_call_info_for_line on ANY stack (entries of other contexts included): the reference the
   translation is compared with before the model's assumption is used *)
Fixpoint wc_pop (line : nat) (ctx : str) (stk : list wcall) : option wcall * list wcall :=
  match stk with
  | [] => (None, [])
  | e :: r => if Nat.eqb (lm_end (wc_meta e)) line && str_eqb (wc_ctx e) ctx then (Some e, r)
              else wc_pop line ctx r
  end.

(* what is compared of a command result: its kind and the goto target (not the message text, not
   the model's error codes) *)
Inductive rkind := KContinue | KGoto (l : nat) | KError | KCrash | KPanic.
Definition gres_kind (r : gres) : rkind :=
  match r with GContinue => KContinue | GGoto l => KGoto l | GError _ => KError | GCrash _ => KCrash end.
Definition cres_kind (r : cres) : rkind :=
  match r with
  | RContinue => KContinue | RGoto l => KGoto l | RError _ => KError | RCrash _ => KCrash
  | RPanic => KPanic
  end.
