(* CodecProof.v — C17 proofs: base64, UTF-8 and hexadecimal round trips. *)
Require Import DS.Base DS.Utf8 DS.Strings DS.StringsProof DS.Codec.
Require Import Zify.

(* linear arithmetic with division and remainder by constants *)
Ltac arith := zify; Z.to_euclidean_division_equations; lia.

Lemma list_ind3 {A} (P : list A -> Prop) :
  P [] -> (forall x, P [x]) -> (forall x y, P [x; y]) ->
  (forall x y z r, P r -> P (x :: y :: z :: r)) -> forall l, P l.
Proof.
  intros H0 H1 H2 H3. fix IH 1. intros [|x [|y [|z r]]]; [exact H0|apply H1|apply H2|].
  apply H3. apply IH.
Qed.

(* ------------------------------------------------------------------------------------------- *)
(* base64                                                                                        *)

Lemma enc6_table_check :
  forallb (fun k => match dec6 (enc6 (N.of_nat k)) with
                    | Some j => (j =? N.of_nat k) && negb (enc6 (N.of_nat k) =? c_pad)
                    | None => false
                    end) (seq 0 64) = true.
Proof. vm_compute. reflexivity. Qed.

Lemma enc6_facts i : i < 64 -> dec6 (enc6 i) = Some i /\ (enc6 i =? c_pad) = false.
Proof.
  intros H. pose proof enc6_table_check as T. rewrite forallb_forall in T.
  specialize (T (N.to_nat i)). rewrite N2Nat.id in T.
  assert (In (N.to_nat i) (seq 0 64)) as Hin by (apply in_seq; lia).
  specialize (T Hin). destruct (dec6 (enc6 i)) as [j|]; [|discriminate].
  apply andb_prop in T. destruct T as [T1 T2]. apply N.eqb_eq in T1. subst j.
  split; [reflexivity|]. destruct (enc6 i =? c_pad); [discriminate|reflexivity].
Qed.

Lemma enc6_dec6 i : i < 64 -> dec6 (enc6 i) = Some i.
Proof. intros H. apply enc6_facts. exact H. Qed.
Lemma enc6_not_pad i : i < 64 -> (enc6 i =? c_pad) = false.
Proof. intros H. apply enc6_facts. exact H. Qed.

Lemma b64_encode_nonempty x r : b64_encode (x :: r) <> [].
Proof. destruct r as [|y [|z r]]; discriminate. Qed.

Definition bytes (bs : list N) : Prop := Forall (fun b => b < 256) bs.

Lemma b64_roundtrip : forall bs, bytes bs -> b64_decode (b64_encode bs) = Some bs.
Proof.
  unfold bytes. apply (list_ind3 (fun bs => Forall (fun b => b < 256) bs -> b64_decode (b64_encode bs) = Some bs)).
  - reflexivity.
  - intros x H. inversion H as [|? ? Hx _]. subst.
    cbn [b64_encode b64_decode].
    rewrite (enc6_dec6 (x / 4)) by arith. rewrite (enc6_dec6 ((x mod 4) * 16)) by arith.
    rewrite N.eqb_refl. cbn [andb].
    replace (((x mod 4) * 16) mod 16 =? 0) with true by (symmetry; apply N.eqb_eq; arith).
    f_equal. f_equal. arith.
  - intros x y H. inversion H as [|? ? Hx H']. inversion H' as [|? ? Hy _]. subst.
    cbn [b64_encode b64_decode].
    rewrite (enc6_dec6 (x / 4)) by arith. rewrite (enc6_dec6 ((x mod 4) * 16 + y / 16)) by arith.
    rewrite (enc6_not_pad ((y mod 16) * 4)) by arith. cbn [andb].
    rewrite (enc6_dec6 ((y mod 16) * 4)) by arith. rewrite N.eqb_refl.
    replace (((y mod 16) * 4) mod 4 =? 0) with true by (symmetry; apply N.eqb_eq; arith).
    f_equal. f_equal; [arith|]. f_equal. arith.
  - intros x y z r IH H. inversion H as [|? ? Hx H']. inversion H' as [|? ? Hy H'']. inversion H'' as [|? ? Hz Hr]. subst.
    specialize (IH Hr).
    cbn [b64_encode]. cbn [b64_decode].
    rewrite (enc6_dec6 (x / 4)) by arith. rewrite (enc6_dec6 ((x mod 4) * 16 + y / 16)) by arith.
    assert (x / 4 * 4 + ((x mod 4) * 16 + y / 16) / 16 = x) as E0 by arith.
    assert ((((x mod 4) * 16 + y / 16) mod 16) * 16 + ((y mod 16) * 4 + z / 64) / 4 = y) as E1 by arith.
    assert ((((y mod 16) * 4 + z / 64) mod 4) * 64 + z mod 64 = z) as E2 by arith.
    destruct r as [|w r'].
    + cbn [b64_encode].
      rewrite (enc6_not_pad ((y mod 16) * 4 + z / 64)) by arith. cbn [andb].
      rewrite (enc6_dec6 ((y mod 16) * 4 + z / 64)) by arith.
      rewrite (enc6_not_pad (z mod 64)) by arith.
      rewrite (enc6_dec6 (z mod 64)) by arith.
      rewrite E0, E1, E2. reflexivity.
    + destruct (b64_encode (w :: r')) as [|e0 er] eqn:E; [exfalso; exact (b64_encode_nonempty _ _ E)|].
      rewrite (enc6_dec6 ((y mod 16) * 4 + z / 64)) by arith.
      rewrite (enc6_dec6 (z mod 64)) by arith.
      rewrite IH, E0, E1, E2. reflexivity.
Qed.

(* the encoding has the canonical shape: 4 characters per 3 bytes, rounded up *)
Lemma b64_encode_length : forall bs, length (b64_encode bs) = (4 * ((length bs + 2) / 3))%nat.
Proof.
  apply (list_ind3 (fun bs => length (b64_encode bs) = (4 * ((length bs + 2) / 3))%nat)); try reflexivity.
  intros x y z r IH. cbn [b64_encode length]. rewrite IH.
  replace (S (S (S (length r))) + 2)%nat with (length r + 2 + 1 * 3)%nat by lia.
  rewrite Nat.div_add by lia. lia.
Qed.

(* ------------------------------------------------------------------------------------------- *)
(* UTF-8                                                                                         *)

Ltac split_bool :=
  repeat match goal with
  | |- context [?a <? ?b] => destruct (N.ltb_spec a b); try (exfalso; arith)
  | |- context [?a <=? ?b] => destruct (N.leb_spec a b); try (exfalso; arith)
  end; cbn [andb orb].

Lemma utf8_char_roundtrip c rest :
  scalar c = true ->
  utf8_decode (utf8_encode_char c ++ rest) =
  match utf8_decode rest with Some s => Some (c :: s) | None => None end.
Proof.
  intros Hs. unfold scalar in Hs.
  assert (c < 55296 \/ 57343 < c < 1114112) as Hc.
  { destruct (N.ltb_spec c 55296); [left; assumption|]. cbn [orb] in Hs.
    apply andb_prop in Hs. destruct Hs as [H1 H2]. apply N.ltb_lt in H1, H2. right. lia. }
  clear Hs. unfold utf8_encode_char.
  destruct (N.ltb_spec c 128) as [L1|L1].
  - cbn [app utf8_decode]. destruct (N.ltb_spec c 128); [reflexivity|lia].
  - destruct (N.ltb_spec c 2048) as [L2|L2].
    + cbn [app utf8_decode]. unfold is_cont.
      assert ((192 + c / 64 - 192) * 64 + (128 + c mod 64 - 128) = c) as E by arith.
      rewrite E. split_bool. reflexivity.
    + destruct (N.ltb_spec c 65536) as [L3|L3].
      * cbn [app utf8_decode]. unfold is_cont, scalar.
        assert ((224 + c / 4096 - 224) * 4096 + (128 + (c / 64) mod 64 - 128) * 64 + (128 + c mod 64 - 128) = c) as E by arith.
        rewrite E. split_bool; try reflexivity; exfalso; lia.
      * cbn [app utf8_decode]. unfold is_cont.
        assert ((240 + c / 262144 - 240) * 262144 + (128 + (c / 4096) mod 64 - 128) * 4096
                + (128 + (c / 64) mod 64 - 128) * 64 + (128 + c mod 64 - 128) = c) as E by arith.
        rewrite E. split_bool; try reflexivity; exfalso; lia.
Qed.

Lemma utf8_roundtrip s : forallb scalar s = true -> utf8_decode (utf8_encode s) = Some s.
Proof.
  induction s as [|c s IH]; intros H; [reflexivity|].
  cbn [forallb] in H. apply andb_prop in H. destruct H as [Hc Hs].
  unfold utf8_encode. cbn [flat_map]. fold (utf8_encode s).
  rewrite utf8_char_roundtrip by exact Hc. rewrite IH by exact Hs. reflexivity.
Qed.

(* the byte length used by the C16 commands is the length of this encoding *)
Lemma utf8_encode_char_length c : N.of_nat (length (utf8_encode_char c)) = utf8_len c.
Proof.
  unfold utf8_encode_char, utf8_len.
  destruct (c <? 128); [reflexivity|]. destruct (c <? 2048); [reflexivity|].
  destruct (c <? 65536); reflexivity.
Qed.

Lemma utf8_encode_length s : N.of_nat (length (utf8_encode s)) = blen s.
Proof.
  induction s as [|c s IH]; [reflexivity|].
  unfold utf8_encode. cbn [flat_map blen]. fold (utf8_encode s).
  rewrite app_length, Nat2N.inj_add, utf8_encode_char_length, IH. reflexivity.
Qed.

Lemma utf8_encode_bytes s : forallb scalar s = true -> bytes (utf8_encode s).
Proof.
  unfold bytes. induction s as [|c s IH]; intros H; [constructor|].
  cbn [forallb] in H. apply andb_prop in H. destruct H as [Hc Hs].
  unfold utf8_encode. cbn [flat_map]. apply Forall_app. split; [|apply IH; exact Hs].
  unfold scalar in Hc.
  assert (c < 1114112) as Hlt.
  { destruct (N.ltb_spec c 55296); [lia|]. cbn [orb] in Hc. apply andb_prop in Hc.
    destruct Hc as [_ H2]. apply N.ltb_lt in H2. exact H2. }
  unfold utf8_encode_char.
  destruct (N.ltb_spec c 128); [repeat constructor; lia|].
  destruct (N.ltb_spec c 2048); [repeat constructor; arith|].
  destruct (N.ltb_spec c 65536); repeat constructor; arith.
Qed.

(* ------------------------------------------------------------------------------------------- *)
(* hexadecimal                                                                                   *)

Fixpoint val16 (l : list N) : N := match l with [] => 0 | d :: r => d + 16 * val16 r end.

Lemma hex_le_lt16 fuel : forall n, Forall (fun d => d < 16) (hex_le fuel n).
Proof.
  induction fuel as [|f IH]; intros n; cbn [hex_le]; [constructor|].
  destruct (N.ltb_spec n 16).
  - constructor; [assumption|constructor].
  - constructor; [apply N.mod_lt; lia|apply IH].
Qed.

Lemma hex_le_val fuel : forall n, n < 2 ^ N.of_nat fuel -> val16 (hex_le fuel n) = n.
Proof.
  induction fuel as [|f IH]; intros n Hn.
  - cbn in Hn. cbn. lia.
  - cbn [hex_le]. destruct (N.ltb_spec n 16) as [H16|H16].
    + cbn. lia.
    + cbn [val16]. rewrite IH.
      * pose proof (N.div_mod n 16). lia.
      * rewrite Nat2N.inj_succ, N.pow_succ_r' in Hn.
        apply N.div_lt_upper_bound; [lia|].
        assert (0 < 2 ^ N.of_nat f) by (apply N.neq_0_lt_0, N.pow_nonzero; lia). lia.
Qed.

Lemma hex_val_digit d : d < 16 -> hex_val (hex_digit d) = Some d.
Proof.
  intros H. unfold hex_val, hex_digit. destruct (N.ltb_spec d 10).
  - destruct (N.leb_spec 48 (48 + d)); [|lia]. destruct (N.leb_spec (48 + d) 57); [|lia].
    cbn [andb]. f_equal. lia.
  - destruct (N.leb_spec 48 (87 + d)); [|lia]. destruct (N.leb_spec (87 + d) 57); [lia|].
    cbn [andb]. destruct (N.leb_spec 97 (87 + d)); [|lia]. destruct (N.leb_spec (87 + d) 102); [|lia].
    cbn [andb]. f_equal. lia.
Qed.

Lemma hex_val_acc_app s1 : forall s2 acc,
  hex_val_acc (s1 ++ s2) acc =
  match hex_val_acc s1 acc with Some a => hex_val_acc s2 a | None => None end.
Proof.
  induction s1 as [|c s1 IH]; intros s2 acc; cbn [app hex_val_acc]; [reflexivity|].
  destruct (hex_val c); [apply IH|reflexivity].
Qed.

Lemma hex_val_acc_show l :
  Forall (fun d => d < 16) l -> hex_val_acc (rev (map hex_digit l)) 0 = Some (val16 l).
Proof.
  induction l as [|d r IH]; intros H; [reflexivity|].
  inversion H as [|? ? Hd Hr]. subst. cbn [map rev val16].
  rewrite hex_val_acc_app, (IH Hr). cbn [hex_val_acc]. rewrite hex_val_digit by exact Hd.
  f_equal. lia.
Qed.

Lemma hex_digits_val n : hex_val_acc (hex_digits n) 0 = Some n.
Proof.
  unfold hex_digits. rewrite hex_val_acc_show by apply hex_le_lt16.
  rewrite hex_le_val; [reflexivity|apply size_bound].
Qed.

(* every character of the digit string is 0-9 or a-f: in particular neither 'x' nor '+' *)
Lemma hex_digits_chars n : Forall (fun c => c <> 120 /\ c <> 43) (hex_digits n).
Proof.
  unfold hex_digits. apply Forall_rev, Forall_map.
  eapply Forall_impl; [|apply hex_le_lt16]. cbv beta. intros d Hd. unfold hex_digit.
  destruct (N.ltb_spec d 10); lia.
Qed.

Lemma hex_digits_nonempty n : hex_digits n <> [].
Proof.
  unfold hex_digits. intros H. apply (f_equal (@rev _)) in H. rewrite rev_involutive in H. cbn [rev] in H.
  apply map_eq_nil in H. cbn [hex_le] in H. destruct (n <? 16); discriminate.
Qed.

Lemma strip_0x_digits n : strip_0x (hex_digits n) = hex_digits n.
Proof.
  pose proof (hex_digits_chars n) as H. destruct (hex_digits n) as [|a [|b r]]; try reflexivity.
  inversion H as [|? ? _ H']. inversion H' as [|? ? [Hb _] _]. subst.
  cbn [strip_0x]. destruct (N.eqb_spec b 120); [contradiction|]. rewrite andb_false_r. reflexivity.
Qed.

Lemma hex_roundtrip n : (Z.of_N n <= u64_max)%Z -> hex_decode (hex_encode n) = Some n.
Proof.
  intros Hn. unfold hex_decode, hex_encode.
  assert (strip_0x (48 :: 120 :: hex_digits n) = strip_0x (hex_digits n)) as E by reflexivity.
  rewrite E, strip_0x_digits. unfold from_hex_u64.
  pose proof (hex_digits_chars n) as Hc. pose proof (hex_digits_nonempty n) as Hne.
  pose proof (hex_digits_val n) as Hv.
  destruct (hex_digits n) as [|c r]; [contradiction|].
  inversion Hc as [|? ? [_ Hplus] _]. subst.
  destruct (N.eqb_spec c 43); [contradiction|].
  rewrite Hv. destruct (Z.leb_spec (Z.of_N n) u64_max); [reflexivity|lia].
Qed.

Lemma parse_u64_show n : (Z.of_N n <= u64_max)%Z -> parse_u64 (show_N n) = Some n.
Proof.
  intros Hn. pose proof (show_N_digits n) as Hd. pose proof (show_N_nonempty n) as Hne.
  pose proof (digits_val_show_N n) as Hv. unfold parse_u64.
  destruct (show_N n) as [|c r]; [contradiction|].
  inversion Hd as [|? ? Hc _]. subst. unfold is_digit in Hc.
  apply andb_prop in Hc. destruct Hc as [Hc1 _]. apply N.leb_le in Hc1.
  destruct (N.eqb_spec c 43); [lia|]. rewrite Hv.
  destruct (Z.leb_spec (Z.of_N n) u64_max); [reflexivity|lia].
Qed.

(* through the two commands: decimal text -> hex text -> the same decimal text *)
Lemma hex_cmd_roundtrip n rest rest' :
  (Z.of_N n <= u64_max)%Z ->
  cmd_hex_encode (show_N n :: rest) = RVal (hex_encode n) /\
  cmd_hex_decode (hex_encode n :: rest') = RVal (show_N n).
Proof.
  intros Hn. unfold cmd_hex_encode, cmd_hex_decode.
  rewrite parse_u64_show, hex_roundtrip by exact Hn. split; reflexivity.
Qed.
