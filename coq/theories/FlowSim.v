(* FlowSim.v — the C04 simulation: whatever the tree-walking interpreter computes for a
   well-formed structured program, the flat machine computes on the compiled program, wherever the
   code is placed, leaving a state that satisfies the invariant and the frame conditions. *)
Require Import DS.Base DS.FlowTables DS.FlowTablesWf DS.FlowScan DS.Flow DS.FlowTree DS.FlowScanProof
  DS.FlowLemmas DS.FlowFrame.
Require Import DSG.GenFlowNames.
Open Scope nat_scope.

(* one-step unfoldings of the interpreter *)
Lemma ts_cmd n p w : ts (S n) (SCmd p) w = match exec_prim p w with Some w' => TOk w' | None => TErr end.
Proof. reflexivity. Qed.
Lemma ts_if n sp c b els e w : ts (S n) (SIf sp c b els e) w =
  let (v, w1) := eval_cond c w in if v then tb n b w1 else te n els w1.
Proof. reflexivity. Qed.
Lemma ts_while n sp c b e w : ts (S n) (SWhile sp c b e) w =
  let (v, w1) := eval_cond c w in
  if v then match tb n b w1 with TOk w2 => ts n (SWhile sp c b e) w2 | r => r end else TOk w1.
Proof. reflexivity. Qed.
Lemma ts_for n sp x hv b e w : ts (S n) (SFor sp x hv b e) w = tfor n x hv b 0 w.
Proof. reflexivity. Qed.
Lemma tb_nil n w : tb (S n) BNil w = TOk w.
Proof. reflexivity. Qed.
Lemma tb_cons n s b w : tb (S n) (BCons s b) w = match ts n s w with TOk w1 => tb n b w1 | r => r end.
Proof. reflexivity. Qed.
Lemma te_elseif n sp c b r w : te (S n) (EElseIf sp c b r) w =
  let (v, w1) := eval_cond c w in if v then tb n b w1 else te n r w1.
Proof. reflexivity. Qed.
Lemma te_else n sp b w : te (S n) (EElse sp b) w = tb n b w.
Proof. reflexivity. Qed.
Lemma te_nil n w : te (S n) ENil w = TOk w.
Proof. reflexivity. Qed.
Lemma tfor_step n x hv b i w : tfor (S n) x hv b i w =
  match get_next_iteration i (vval hv w) w with
  | None => TOk w
  | Some v => match tb n b (vset x v w) with TOk w2 => tfor n x hv b (S i) w2 | r => r end
  end.
Proof. reflexivity. Qed.

Lemma els_dec (els : elses) : {els = ENil} + {els <> ENil}.
Proof. destruct els; [left; reflexivity|right; discriminate|right; discriminate]. Qed.
Lemma mid_pos_hd els L : els <> ENil -> exists t, mid_pos els L = L :: t.
Proof. destruct els; [congruence| |]; intros _; eexists; reflexivity. Qed.
Lemma ce_nonnil els : els <> ENil -> exists i t, ce els = i :: t.
Proof. destruct els; [congruence| |]; intros _; do 2 eexists; reflexivity. Qed.

Lemma set_ifstk_push e f : set_ifstk (f_ifstk f) (if_push e f) = f.
Proof. destruct f; reflexivity. Qed.
Lemma nth_error_mid {A} (pfx : list A) x t : nth_error (pfx ++ x :: t) (length pfx) = Some x.
Proof. rewrite nth_error_app2 by lia. now rewrite Nat.sub_diag. Qed.
Lemma nth_error_mid1 {A} (pfx : list A) x y t : nth_error (pfx ++ x :: y :: t) (S (length pfx)) = Some y.
Proof. rewrite nth_error_app2 by lia. replace (S (length pfx) - length pfx) with 1 by lia. reflexivity. Qed.

Section Sim.
Variable P : list instr.
Hypothesis TW : tables_wf = true.

Definition runs (c c' : nat * state) : Prop := exists n, steps n P c = Some c'.
Lemma runs_refl c : runs c c.
Proof. exists 0. reflexivity. Qed.
Lemma runs_trans c1 c2 c3 : runs c1 c2 -> runs c2 c3 -> runs c1 c3.
Proof. intros (a & Ha) (b & Hb). exists (a + b). eapply steps_trans; eauto. Qed.
Lemma runs_step c c' : step1 P c = Some c' -> runs c c'.
Proof. intros H. exists 1. now apply steps_one. Qed.
Lemma runs_step_then c c' c'' : step1 P c = Some c' -> runs c' c'' -> runs c c''.
Proof. intros H1 H2. eapply runs_trans; [apply runs_step; exact H1|exact H2]. Qed.

Definition exec_ok (p q : nat) (w w' : world) : Prop :=
  forall f, Inv P f -> for_out p q f ->
  exists f', runs (p, (w, f)) (q, (w', f')) /\ Inv P f' /\ frame p q f f'.

Definition stmt_ok (n : nat) : Prop := forall s w w' p,
  wfs s -> placed P p (cs s) -> ts n s w = TOk w' -> exec_ok p (p + length (cs s)) w w'.
Definition block_ok (n : nat) : Prop := forall b w w' p,
  wfb b -> placed P p (cb b) -> tb n b w = TOk w' -> exec_ok p (p + length (cb b)) w w'.
Definition chain_ok (n : nat) : Prop := forall els w w' L e m pfx p0,
  els <> ENil -> te n els w = TOk w' -> wfe els -> In e (closers CkIf) ->
  placed P L (ce els ++ [kw e ANone]) ->
  im_else m = pfx ++ mid_pos els L -> im_end m = L + length (ce els) ->
  (forall x, In x (im_else m) -> p0 <= x < S (im_end m)) ->
  forall fb, Inv P fb -> for_out p0 (S (im_end m)) fb ->
    aget Nat.eqb (im_end m) (f_end fb) = Some gen_endif_name ->
    exists f', runs (L, (w, if_push (mkIC L false (length pfx) m) fb)) (S (im_end m), (w', f'))
               /\ Inv P f' /\ frame p0 (S (im_end m)) fb f'.
Definition loop_ok (n : nat) : Prop := forall sp x hv b e i w w' p,
  tfor n x hv b i w = TOk w' -> wfs (SFor sp x hv b e) -> placed P p (cs (SFor sp x hv b e)) ->
  forall fb f, Inv P fb -> for_out p (S (S p + length (cb b))) fb ->
    ((i = 0 /\ f = fb) \/
     (i > 0 /\ f = for_push (mkFC i (mkLM p (S p + length (cb b)))) fb /\
      aget Nat.eqb (S p + length (cb b)) (f_end fb) = Some gen_endfor_name)) ->
    exists f', runs (p, (w, f)) (S (S p + length (cb b)), (w', f'))
               /\ Inv P f' /\ frame p (S (S p + length (cb b))) fb f'.

(* ---- single steps ---------------------------------------------------------------------------- *)
(* an else / elseif line reached by falling out of a taken branch: jump behind the block *)
Lemma else_passed r L rest w f J i m base :
  r <> ENil -> wfe r -> placed P L (ce r ++ rest) ->
  f_ifstk f = J ++ mkIC L true i m :: base -> Forall (fun x => ic_current x <> L) J ->
  step1 P (L, (w, f)) = Some (S (im_end m), (w, set_ifstk base f)).
Proof.
  intros Hr Hw Hp Hs HJ. destruct r as [|sp c b r|sp b]; [congruence| |].
  - cbn [ce app] in Hp. destruct Hw as (Hsp & _).
    eapply step1_goto; [eapply placed_nth; exact Hp|].
    rewrite (disp_elseif P TW) by exact Hsp. unfold step_elseif.
    rewrite Hs, if_pop_junk by (auto; reflexivity). reflexivity.
  - cbn [ce app] in Hp. destruct Hw as (Hsp & _).
    eapply step1_goto; [eapply placed_nth; exact Hp|].
    rewrite (disp_else P TW) by exact Hsp. unfold step_else.
    rewrite Hs, if_pop_junk by (auto; reflexivity). reflexivity.
Qed.

Lemma close_if_step E e w f : nth_error P E = Some (kw e ANone) -> In e (closers CkIf) ->
  aget Nat.eqb E (f_end f) = Some gen_endif_name ->
  step1 P (E, (w, f)) = Some (S E, (w, f)).
Proof. intros Hn He Ht. eapply step1_continue; [exact Hn|]. now apply (close_if P TW). Qed.

(* ---- straight-line command and blocks ------------------------------------------------------- *)
Lemma cmd_case n p0 w w' p :
  placed P p (cs (SCmd p0)) -> ts (S n) (SCmd p0) w = TOk w' -> exec_ok p (p + 1) w w'.
Proof.
  intros Hp Ht f HI Hf. rewrite ts_cmd in Ht.
  destruct (exec_prim p0 w) as [w1|] eqn:E; [|discriminate]. inversion Ht; subst w1.
  exists f. split; [|split; [exact HI|apply frame_refl]].
  apply runs_step. replace (p + 1) with (S p) by lia.
  eapply step1_continue; [eapply placed_nth; exact Hp|]. now apply (prim_step P TW).
Qed.

Lemma exec_seq p r q w w1 w2 : p <= r <= q ->
  exec_ok p r w w1 -> exec_ok r q w1 w2 -> exec_ok p q w w2.
Proof.
  intros Hr X1 X2 f HI Hf.
  destruct (X1 f HI (for_out_weaken p q p r f ltac:(lia) ltac:(lia) Hf)) as (f1 & R1 & I1 & F1).
  assert (Hf1 : for_out r q f1).
  { eapply for_out_same; [exact (fr_for _ _ _ _ F1)|]. eapply for_out_weaken; [| |exact Hf]; lia. }
  destruct (X2 f1 I1 Hf1) as (f2 & R2 & I2 & F2).
  exists f2. split; [eapply runs_trans; eauto|split; [exact I2|]].
  eapply frame_trans; [eapply frame_weaken; [| |exact F1]; lia|eapply frame_weaken; [| |exact F2]; lia].
Qed.

Lemma block_case n : stmt_ok n -> block_ok n -> block_ok (S n).
Proof.
  intros Hs Hb b w w' p Hw Hp Ht. destruct b as [|s b].
  - rewrite tb_nil in Ht. inversion Ht; subst. intros f HI Hf. exists f.
    cbn [cb length]. rewrite Nat.add_0_r. split; [apply runs_refl|split; [exact HI|apply frame_refl]].
  - rewrite tb_cons in Ht. destruct (ts n s w) as [w1| |] eqn:E1; try discriminate.
    destruct Hw as (Hws & Hwb). cbn [cb] in Hp |- *. rewrite app_length.
    eapply (exec_seq p (p + length (cs s))); [lia| |].
    + eapply Hs; eauto. eapply placed_app_l; eauto.
    + replace (p + (length (cs s) + length (cb b))) with (p + length (cs s) + length (cb b)) by lia.
      eapply Hb; eauto. eapply placed_app_r; eauto.
Qed.

(* ---- if ---------------------------------------------------------------------------------------- *)
Lemma mid_pos_range els : forall L x, In x (mid_pos els L) -> L <= x < L + length (ce els).
Proof.
  induction els as [|sp c b r IH|sp b]; intros L x Hx; cbn [mid_pos ce length] in *.
  - contradiction.
  - rewrite app_length. destruct Hx as [<-|Hx]; [lia|]. apply IH in Hx. lia.
  - destruct Hx as [<-|[]]. lia.
Qed.

Lemma frame_meta p q f f1 E name : same_stacks f f1 ->
  f_end f1 = aset Nat.eqb E name (f_end f) -> p <= E < q -> frame p q f f1.
Proof.
  intros (S1 & S2 & S3) HE Hr. apply (frame_intro p q f f1 [] []); auto.
  intros l Hl. rewrite HE. apply aget_aset_other. lia.
Qed.

Lemma if_case n : block_ok n -> chain_ok n -> forall sp c b els e w w' p,
  wfs (SIf sp c b els e) -> placed P p (cs (SIf sp c b els e)) ->
  ts (S n) (SIf sp c b els e) w = TOk w' ->
  exec_ok p (p + length (cs (SIf sp c b els e))) w w'.
Proof.
  intros Hb Hch sp c b els e w w' p Hw Hp Ht f HI Hf.
  pose proof (if_meta_placed P TW p sp c b els e Hp Hw) as Hm.
  destruct Hw as (Hsp & He & Hwb & Hwe).
  assert (Hq : p + length (cs (SIf sp c b els e)) = S (S p + length (cb b) + length (ce els))).
  { cbn [cs length]. rewrite !app_length. cbn [length]. lia. }
  rewrite Hq in *. clear Hq.
  set (nb := length (cb b)) in *. set (ne := length (ce els)) in *.
  set (E := S p + nb + ne) in *.
  set (m := mkIM p E (mid_pos els (S p + nb))) in *.
  cbn [cs] in Hp.
  pose proof (placed_nth _ _ _ _ Hp) as Hn0.
  pose proof (placed_tail _ _ _ _ Hp) as Hp1.
  pose proof (placed_app_l _ _ _ _ Hp1) as Hpb.
  pose proof (placed_app_r _ _ _ _ Hp1) as Hpe. fold nb in Hpe.
  pose proof (placed_app_r _ _ _ _ Hpe) as Hpend. fold ne in Hpend.
  pose proof (placed_nth _ _ _ _ Hpend) as HnE. fold E in HnE.
  destruct (if_meta_info_ok P f p m HI Hm) as (f1 & Hmi & I1 & SS1 & E1).
  pose proof SS1 as (S1a & S1b & S1c).
  assert (HE1 : aget Nat.eqb E (f_end f1) = Some gen_endif_name)
    by (rewrite E1; apply aget_aset_same).
  assert (Fr1 : frame p (S E) f f1) by (eapply frame_meta; eauto; cbn; lia).
  rewrite ts_if in Ht. destruct (eval_cond c w) as [v w1] eqn:Ec.
  destruct v.
  - (* the condition holds: run the body *)
    set (next := match im_else m with [] => im_end m | l0 :: _ => l0 end).
    set (f2 := if_push (mkIC next true 0 m) f1).
    assert (St : step1 P (p, (w, f)) = Some (S p, (w1, f2))).
    { eapply step1_continue; [exact Hn0|]. rewrite (disp_if P TW) by exact Hsp.
      unfold step_if. rewrite Hmi, Ec. reflexivity. }
    assert (I2 : Inv P f2) by (eapply Inv_same; [| | |exact I1]; reflexivity).
    assert (Hf2 : for_out (S p) (S p + nb) f2).
    { eapply for_out_same with (f := f); [cbn; exact S1c|]. eapply for_out_weaken; [| |exact Hf]; lia. }
    destruct (Hb b w1 w' (S p) Hwb Hpb Ht f2 I2 Hf2) as (f3 & R3 & I3 & F3).
    fold nb in R3, F3.
    destruct (fr_if _ _ _ _ F3) as (Jb & Ei & Fi). cbn [f2 if_push f_ifstk set_ifstk] in Ei.
    rewrite S1a in Ei.
    assert (HE3 : aget Nat.eqb E (f_end f3) = Some gen_endif_name).
    { rewrite (fr_end _ _ _ _ F3) by lia. exact HE1. }
    destruct (els_dec els) as [Eels|Hne].
    + (* no else line: fall on the end line; the entry stays as junk *)
      assert (ne = 0) by (unfold ne; rewrite Eels; reflexivity). assert (E = S p + nb) by lia.
      exists f3. split; [|split; [exact I3|]].
      * eapply runs_step_then; [exact St|]. eapply runs_trans; [exact R3|].
        apply runs_step. replace (S p + nb) with E by lia. now apply (close_if_step E e).
      * destruct (fr_wh _ _ _ _ F3) as (Jw & Ew & Fw).
        apply (frame_intro p (S E) f f3 (Jb ++ [mkIC next true 0 m]) Jw).
        -- rewrite Ei, <- app_assoc. reflexivity.
        -- apply Forall_app. split.
           ++ eapply Forall_impl; [|exact Fi]. unfold if_junk. intros a [H1 H2]. split; [lia|exact H2].
           ++ assert (Hnext : next = E) by (unfold next, m; cbn [im_else im_end]; rewrite Eels; reflexivity).
              constructor; [|constructor]. unfold if_junk. cbn [ic_current ic_passed]. split; [lia|reflexivity].
        -- rewrite Ew. cbn. now rewrite S1b.
        -- eapply Forall_impl; [|exact Fw]. unfold wh_junk. intros a. lia.
        -- rewrite (fr_for _ _ _ _ F3). cbn. exact S1c.
        -- intros l Hl. rewrite (fr_end _ _ _ _ F3) by lia. cbn. apply (fr_end _ _ _ _ Fr1). exact Hl.
    + (* an elseif line follows: it pops the entry and jumps behind the block *)
      destruct (mid_pos_hd els (S p + nb) Hne) as (t & Ht0).
      assert (Hnext : next = S p + nb) by (unfold next, m; cbn [im_else]; now rewrite Ht0).
      rewrite Hnext in Ei.
      exists (set_ifstk (f_ifstk f) f3). split; [|split].
      * eapply runs_step_then; [exact St|]. eapply runs_trans; [exact R3|].
        apply runs_step.
        rewrite (else_passed els (S p + nb) [kw e ANone] w' f3 Jb 0 m (f_ifstk f) Hne Hwe Hpe Ei).
        -- reflexivity.
        -- eapply if_junk_ne; [exact Fi|lia].
      * eapply Inv_same; [| | |exact I3]; reflexivity.
      * destruct (fr_wh _ _ _ _ F3) as (Jw & Ew & Fw).
        apply (frame_intro p (S E) f _ [] Jw).
        -- reflexivity.
        -- constructor.
        -- cbn. rewrite Ew. cbn. now rewrite S1b.
        -- eapply Forall_impl; [|exact Fw]. unfold wh_junk. intros a. lia.
        -- cbn. rewrite (fr_for _ _ _ _ F3). cbn. exact S1c.
        -- intros l Hl. cbn. rewrite (fr_end _ _ _ _ F3) by lia. cbn. apply (fr_end _ _ _ _ Fr1). exact Hl.
  - (* the condition fails *)
    destruct (els_dec els) as [Eels|Hne].
    + rewrite Eels in Ht. destruct n as [|n']; [discriminate|]. rewrite te_nil in Ht. inversion Ht; subst w'.
      exists f1. split; [|split; [exact I1|exact Fr1]].
      apply runs_step. eapply step1_goto; [exact Hn0|]. rewrite (disp_if P TW) by exact Hsp.
      unfold step_if. rewrite Hmi, Ec. unfold m at 1. cbn [im_else]. rewrite Eels. reflexivity.
    +       destruct (mid_pos_hd els (S p + nb) Hne) as (t & Ht0).
      assert (St : step1 P (p, (w, f)) = Some (S p + nb, (w1, if_push (mkIC (S p + nb) false 0 m) f1))).
      { eapply step1_goto; [exact Hn0|]. rewrite (disp_if P TW) by exact Hsp.
        unfold step_if. rewrite Hmi, Ec. unfold m at 1. cbn [im_else]. rewrite Ht0. reflexivity. }
      destruct (Hch els w1 w' (S p + nb) e m [] p Hne Ht Hwe He Hpe eq_refl eq_refl) with (fb := f1)
        as (f' & R' & I' & F'); auto.
      * intros x Hx. cbn [m im_else im_end] in *. apply mid_pos_range in Hx. fold ne in Hx. unfold E. lia.
      * eapply for_out_same; [exact S1c|exact Hf].
      * exists f'. split; [|split; [exact I'|]].
        -- eapply runs_step_then; [exact St|exact R'].
        -- eapply frame_trans; [exact Fr1|exact F'].
Qed.

(* ---- the else chain: entered at an else line with the (passed = false) entry on top ---------- *)
Lemma chain_case n : block_ok n -> chain_ok n -> chain_ok (S n).
Proof.
  intros Hb Hch els w w' L e m pfx p0 Hne Ht Hwe He Hp Hel Hend Hrange fb HI Hf HE.
  set (entry := mkIC L false (length pfx) m).
  assert (HL : p0 <= L < S (im_end m)).
  { apply Hrange. rewrite Hel. destruct (mid_pos_hd els L Hne) as (t & ->). apply in_or_app. right. now left. }
  destruct els as [|sp c b r|sp b]; [congruence| |].
  - (* elseif *)
    destruct Hwe as (Hsp & Hwb & Hwr).
    cbn [ce app] in Hp. rewrite <- app_assoc in Hp.
    pose proof (placed_nth _ _ _ _ Hp) as Hn0.
    pose proof (placed_tail _ _ _ _ Hp) as Hp1.
    pose proof (placed_app_l _ _ _ _ Hp1) as Hpb.
    pose proof (placed_app_r _ _ _ _ Hp1) as Hpr.
    cbn [mid_pos] in Hel. cbn [ce length] in Hend. rewrite app_length in Hend.
    set (nb := length (cb b)) in *. set (nr := length (ce r)) in *.
    assert (HEq : im_end m = S L + nb + nr) by lia.
    rewrite te_elseif in Ht. destruct (eval_cond c w) as [v w1] eqn:Ec.
    assert (Hpop : if_pop L (f_ifstk (if_push entry fb)) = (Some entry, f_ifstk fb)).
    { cbn. now rewrite Nat.eqb_refl. }
    assert (Hlen : length (im_else m) = length pfx + S (length (mid_pos r (S L + nb)))).
    { rewrite Hel, app_length. reflexivity. }
    destruct v.
    + (* this branch is taken *)
      destruct (els_dec r) as [Er|Hr].
      * (* last else line: the entry pushed here stays as junk *)
        assert (Hnr : nr = 0) by (unfold nr; rewrite Er; reflexivity).
        assert (Hlt : (S (length pfx) <? length (im_else m)) = false).
        { apply Nat.ltb_ge. rewrite Hlen, Er. cbn. lia. }
        destruct (nth_error (im_else m) 0) as [x0|] eqn:Ex0.
        2:{ apply nth_error_None in Ex0. rewrite Hlen in Ex0. lia. }
        assert (Hx0 : p0 <= x0 < S (im_end m)) by (apply Hrange; eapply nth_error_In; eauto).
        set (f2 := if_push (mkIC x0 true (length pfx) m) fb).
        assert (St : step1 P (L, (w, if_push entry fb)) = Some (S L, (w1, f2))).
        { eapply step1_continue; [exact Hn0|]. rewrite (disp_elseif P TW) by exact Hsp.
          unfold step_elseif. rewrite Hpop. cbn [entry ic_passed ic_meta ic_idx]. rewrite Ec, Hlt, Ex0.
          rewrite set_ifstk_push. reflexivity. }
        assert (I2 : Inv P f2) by (eapply Inv_same; [| | |exact HI]; reflexivity).
        assert (Hf2 : for_out (S L) (S L + nb) f2).
        { eapply for_out_same with (f := fb); [reflexivity|]. eapply for_out_weaken; [| |exact Hf]; lia. }
        destruct (Hb b w1 w' (S L) Hwb Hpb Ht f2 I2 Hf2) as (f3 & R3 & I3 & F3).
        fold nb in R3, F3.
        destruct (fr_if _ _ _ _ F3) as (Jb & Ei & Fi). cbn [f2 if_push f_ifstk set_ifstk] in Ei.
        destruct (fr_wh _ _ _ _ F3) as (Jw & Ew & Fw).
        assert (HnE : nth_error P (im_end m) = Some (kw e ANone)).
        { rewrite Er in Hpr. cbn [ce app] in Hpr. fold nb in Hpr. apply placed_nth in Hpr.
          rewrite HEq, Hnr, Nat.add_0_r. exact Hpr. }
        exists f3. split; [|split; [exact I3|]].
        -- eapply runs_step_then; [exact St|]. eapply runs_trans; [exact R3|].
           apply runs_step. replace (S L + nb) with (im_end m) by lia.
           apply (close_if_step (im_end m) e); auto.
           rewrite (fr_end _ _ _ _ F3) by lia. exact HE.
        -- apply (frame_intro p0 (S (im_end m)) fb f3 (Jb ++ [mkIC x0 true (length pfx) m]) Jw).
           ++ rewrite Ei, <- app_assoc. reflexivity.
           ++ apply Forall_app. split.
              ** eapply Forall_impl; [|exact Fi]. unfold if_junk. intros a [H1 H2]. split; [lia|exact H2].
              ** constructor; [|constructor]. unfold if_junk. cbn [ic_current ic_passed]. split; [lia|reflexivity].
           ++ exact Ew.
           ++ eapply Forall_impl; [|exact Fw]. unfold wh_junk. intros a. lia.
           ++ exact (fr_for _ _ _ _ F3).
           ++ intros l Hl. rewrite (fr_end _ _ _ _ F3) by lia. reflexivity.
      * (* another else line follows: it pops the entry and jumps behind the block *)
        destruct (mid_pos_hd r (S L + nb) Hr) as (t & Ht0).
        assert (Hlt : (S (length pfx) <? length (im_else m)) = true).
        { apply Nat.ltb_lt. rewrite Hlen, Ht0. cbn. lia. }
        assert (Ex1 : nth_error (im_else m) (S (length pfx)) = Some (S L + nb)).
        { rewrite Hel, Ht0. apply nth_error_mid1. }
        set (f2 := if_push (mkIC (S L + nb) true (length pfx) m) fb).
        assert (St : step1 P (L, (w, if_push entry fb)) = Some (S L, (w1, f2))).
        { eapply step1_continue; [exact Hn0|]. rewrite (disp_elseif P TW) by exact Hsp.
          unfold step_elseif. rewrite Hpop. cbn [entry ic_passed ic_meta ic_idx]. rewrite Ec, Hlt, Ex1.
          rewrite set_ifstk_push. reflexivity. }
        assert (I2 : Inv P f2) by (eapply Inv_same; [| | |exact HI]; reflexivity).
        assert (Hf2 : for_out (S L) (S L + nb) f2).
        { eapply for_out_same with (f := fb); [reflexivity|]. eapply for_out_weaken; [| |exact Hf]; lia. }
        destruct (Hb b w1 w' (S L) Hwb Hpb Ht f2 I2 Hf2) as (f3 & R3 & I3 & F3).
        fold nb in R3, F3.
        destruct (fr_if _ _ _ _ F3) as (Jb & Ei & Fi). cbn [f2 if_push f_ifstk set_ifstk] in Ei.
        destruct (fr_wh _ _ _ _ F3) as (Jw & Ew & Fw).
        exists (set_ifstk (f_ifstk fb) f3). split; [|split].
        -- eapply runs_step_then; [exact St|]. eapply runs_trans; [exact R3|].
           apply runs_step.
           rewrite (else_passed r (S L + nb) [kw e ANone] w' f3 Jb (length pfx) m (f_ifstk fb) Hr Hwr Hpr Ei).
           ++ reflexivity.
           ++ eapply if_junk_ne; [exact Fi|lia].
        -- eapply Inv_same; [| | |exact I3]; reflexivity.
        -- apply (frame_intro p0 (S (im_end m)) fb _ [] Jw).
           ++ reflexivity.
           ++ constructor.
           ++ exact Ew.
           ++ eapply Forall_impl; [|exact Fw]. unfold wh_junk. intros a. lia.
           ++ exact (fr_for _ _ _ _ F3).
           ++ intros l Hl. cbn. rewrite (fr_end _ _ _ _ F3) by lia. reflexivity.
    + (* this branch is not taken *)
      destruct (els_dec r) as [Er|Hr].
      * rewrite Er in Ht. destruct n as [|n']; [discriminate|]. rewrite te_nil in Ht. inversion Ht; subst w'.
        assert (Hlt : (S (length pfx) <? length (im_else m)) = false).
        { apply Nat.ltb_ge. rewrite Hlen, Er. cbn. lia. }
        exists fb. split; [|split; [exact HI|apply frame_refl]].
        apply runs_step. eapply step1_goto; [exact Hn0|]. rewrite (disp_elseif P TW) by exact Hsp.
        unfold step_elseif. rewrite Hpop. cbn [entry ic_passed ic_meta ic_idx]. rewrite Ec, Hlt.
        rewrite set_ifstk_push. reflexivity.
      * destruct (mid_pos_hd r (S L + nb) Hr) as (t & Ht0).
        assert (Hlt : (S (length pfx) <? length (im_else m)) = true).
        { apply Nat.ltb_lt. rewrite Hlen, Ht0. cbn. lia. }
        assert (Ex1 : nth_error (im_else m) (S (length pfx)) = Some (S L + nb)).
        { rewrite Hel, Ht0. apply nth_error_mid1. }
        assert (St : step1 P (L, (w, if_push entry fb))
                     = Some (S L + nb, (w1, if_push (mkIC (S L + nb) false (S (length pfx)) m) fb))).
        { eapply step1_goto; [exact Hn0|]. rewrite (disp_elseif P TW) by exact Hsp.
          unfold step_elseif. rewrite Hpop. cbn [entry ic_passed ic_meta ic_idx]. rewrite Ec, Hlt, Ex1.
          rewrite set_ifstk_push. reflexivity. }
        destruct (Hch r w1 w' (S L + nb) e m (pfx ++ [L]) p0 Hr Ht Hwr He Hpr) with (fb := fb)
          as (f' & R' & I' & F'); auto.
        -- rewrite Hel, <- app_assoc. reflexivity.
        -- exists f'. split; [|split; [exact I'|exact F']].
           eapply runs_step_then; [exact St|].
           replace (length (pfx ++ [L])) with (S (length pfx)) in R' by (rewrite app_length; cbn; lia).
           exact R'.
  - (* else *)
    destruct Hwe as (Hsp & Hwb).
    cbn [ce app] in Hp.
    pose proof (placed_nth _ _ _ _ Hp) as Hn0.
    pose proof (placed_tail _ _ _ _ Hp) as Hp1.
    pose proof (placed_app_l _ _ _ _ Hp1) as Hpb.
    pose proof (placed_app_r _ _ _ _ Hp1) as Hpend.
    cbn [ce length] in Hend.
    set (nb := length (cb b)) in *.
    assert (HEq : im_end m = S L + nb) by lia.
    rewrite te_else in Ht.
    assert (St : step1 P (L, (w, if_push entry fb)) = Some (S L, (w, fb))).
    { eapply step1_continue; [exact Hn0|]. rewrite (disp_else P TW) by exact Hsp.
      unfold step_else. cbn [if_push f_ifstk set_ifstk if_pop entry ic_current]. rewrite Nat.eqb_refl.
      cbn [ic_passed]. fold (if_push entry fb). rewrite set_ifstk_push. reflexivity. }
    assert (Hf2 : for_out (S L) (S L + nb) fb) by (eapply for_out_weaken; [| |exact Hf]; lia).
    destruct (Hb b w w' (S L) Hwb Hpb Ht fb HI Hf2) as (f3 & R3 & I3 & F3).
    fold nb in R3, F3.
    exists f3. split; [|split; [exact I3|]].
    + eapply runs_step_then; [exact St|]. eapply runs_trans; [exact R3|].
      apply runs_step. replace (S L + nb) with (im_end m) by lia.
      apply (close_if_step (im_end m) e); auto.
      * apply placed_nth in Hpend. rewrite HEq. exact Hpend.
      * rewrite (fr_end _ _ _ _ F3) by lia. exact HE.
    + eapply frame_weaken; [| |exact F3]; lia.
Qed.

(* ---- while --------------------------------------------------------------------------------------- *)
Lemma while_case n : stmt_ok n -> block_ok n -> forall sp c b e w w' p,
  wfs (SWhile sp c b e) -> placed P p (cs (SWhile sp c b e)) ->
  ts (S n) (SWhile sp c b e) w = TOk w' ->
  exec_ok p (p + length (cs (SWhile sp c b e))) w w'.
Proof.
  intros Hs Hb sp c b e w w' p Hw Hp Ht f HI Hf.
  pose proof (while_meta_placed P TW p sp c b e Hp Hw) as Hm.
  pose proof (Hs (SWhile sp c b e) ) as Hself.
  pose proof Hw as (Hsp & He & Hwb).
  assert (Hq : p + length (cs (SWhile sp c b e)) = S (S p + length (cb b))).
  { cbn [cs length]. rewrite !app_length. cbn [length]. lia. }
  rewrite Hq in *.
  set (nb := length (cb b)) in *. set (E := S p + nb) in *. set (m := mkLM p E) in *.
  pose proof Hp as Hp0. cbn [cs] in Hp.
  pose proof (placed_nth _ _ _ _ Hp) as Hn0.
  pose proof (placed_tail _ _ _ _ Hp) as Hp1.
  pose proof (placed_app_l _ _ _ _ Hp1) as Hpb.
  pose proof (placed_app_r _ _ _ _ Hp1) as Hpend. fold nb in Hpend.
  pose proof (placed_nth _ _ _ _ Hpend) as HnE. fold E in HnE.
  destruct (while_meta_info_ok P f p m HI Hm) as (f1 & Hmi & I1 & SS1 & E1).
  pose proof SS1 as (S1a & S1b & S1c).
  assert (HE1 : aget Nat.eqb E (f_end f1) = Some gen_endwhile_name)
    by (rewrite E1; apply aget_aset_same).
  assert (Fr1 : frame p (S E) f f1) by (eapply frame_meta; eauto; cbn; lia).
  rewrite ts_while in Ht. destruct (eval_cond c w) as [v w1] eqn:Ec.
  destruct v.
  - destruct (tb n b w1) as [w2| |] eqn:Eb; try discriminate.
    set (f2 := wh_push m f1).
    assert (St : step1 P (p, (w, f)) = Some (S p, (w1, f2))).
    { eapply step1_continue; [exact Hn0|]. rewrite (disp_while P TW) by exact Hsp.
      unfold step_while. rewrite Hmi, Ec. reflexivity. }
    assert (I2 : Inv P f2) by (eapply Inv_same; [| | |exact I1]; reflexivity).
    assert (Hf2 : for_out (S p) (S p + nb) f2).
    { eapply for_out_same with (f := f); [cbn; exact S1c|]. eapply for_out_weaken; [| |exact Hf]; lia. }
    destruct (Hb b w1 w2 (S p) Hwb Hpb Eb f2 I2 Hf2) as (f3 & R3 & I3 & F3).
    fold nb in R3, F3. fold E in R3, F3.
    destruct (fr_if _ _ _ _ F3) as (Jb & Ei & Fi). cbn [f2 wh_push f_ifstk set_whstk] in Ei.
    destruct (fr_wh _ _ _ _ F3) as (Jw & Ew & Fw). cbn [f2 wh_push f_whstk set_whstk] in Ew.
    rewrite S1a in Ei. rewrite S1b in Ew.
    assert (HE3 : aget Nat.eqb E (f_end f3) = Some gen_endwhile_name).
    { rewrite (fr_end _ _ _ _ F3) by lia. exact HE1. }
    set (f4 := wh_push m (set_whstk (f_whstk f) f3)).
    assert (St2 : step1 P (E, (w2, f3)) = Some (p, (w2, f4))).
    { eapply step1_goto; [exact HnE|]. rewrite (close_while P TW) by auto.
      unfold step_endwhile. rewrite Ew, wh_pop_junk.
      - reflexivity.
      - eapply wh_junk_ne; [exact Fw|lia].
      - reflexivity. }
    assert (I4 : Inv P f4) by (eapply Inv_same; [| | |exact I3]; reflexivity).
    assert (Fr4 : frame p (S E) f f4).
    { apply (frame_intro p (S E) f f4 Jb [m]).
      - exact Ei.
      - eapply Forall_impl; [|exact Fi]. unfold if_junk. intros a [H1 H2]. split; [lia|exact H2].
      - reflexivity.
      - constructor; [|constructor]. unfold wh_junk. cbn. lia.
      - cbn. rewrite (fr_for _ _ _ _ F3). cbn. exact S1c.
      - intros l Hl. cbn. rewrite (fr_end _ _ _ _ F3) by lia. cbn. apply (fr_end _ _ _ _ Fr1). exact Hl. }
    assert (Hf4 : for_out p (S E) f4).
    { eapply for_out_same; [exact (fr_for _ _ _ _ Fr4)|exact Hf]. }
    destruct (Hself w2 w' p Hw Hp0 Ht f4 I4) as (f5 & R5 & I5 & F5).
    { rewrite Hq. exact Hf4. }
    rewrite Hq in R5, F5.
    exists f5. split; [|split; [exact I5|]].
    + eapply runs_step_then; [exact St|]. eapply runs_trans; [exact R3|].
      eapply runs_step_then; [exact St2|exact R5].
    + eapply frame_trans; [exact Fr4|exact F5].
  - inversion Ht; subst w'.
    exists f1. split; [|split; [exact I1|exact Fr1]].
    apply runs_step. eapply step1_goto; [exact Hn0|]. rewrite (disp_while P TW) by exact Hsp.
    unfold step_while. rewrite Hmi, Ec. reflexivity.
Qed.

(* ---- for-in -------------------------------------------------------------------------------------- *)
Lemma loop_case n : block_ok n -> loop_ok n -> loop_ok (S n).
Proof.
  intros Hb Hl sp x hv b e i w w' p Ht Hw Hp fb f HI Hf Hentry.
  pose proof (for_meta_placed P TW p sp x hv b e Hp Hw) as Hm.
  pose proof Hw as (Hsp & He & Hwb).
  set (nb := length (cb b)) in *. set (E := S p + nb) in *. set (m := mkLM p E) in *.
  pose proof Hp as Hp0. cbn [cs] in Hp.
  pose proof (placed_nth _ _ _ _ Hp) as Hn0.
  pose proof (placed_tail _ _ _ _ Hp) as Hp1.
  pose proof (placed_app_l _ _ _ _ Hp1) as Hpb.
  pose proof (placed_app_r _ _ _ _ Hp1) as Hpend. fold nb in Hpend.
  pose proof (placed_nth _ _ _ _ Hpend) as HnE. fold E in HnE.
  (* the call info the opener works with, and the state after obtaining it *)
  assert (Hci : exists f1,
    (for_call_info P p f) = (Some (mkFC i m), f1) /\
    Inv P f1 /\ same_stacks fb f1 /\ aget Nat.eqb E (f_end f1) = Some gen_endfor_name /\
    (forall l, l <> E -> aget Nat.eqb l (f_end f1) = aget Nat.eqb l (f_end fb))).
  { unfold for_call_info. destruct Hentry as [(Hi & ->)|(Hi & -> & HEb)].
    - subst i. rewrite (for_pop_top_out p (S E) fb Hf) by lia. rewrite set_forstk_id. cbv zeta.
      destruct (for_meta_info_ok P fb p m HI Hm) as (f1 & Hmi & I1 & SS1 & E1).
      rewrite Hmi. exists f1. split; [reflexivity|]. split; [exact I1|]. split; [exact SS1|].
      split; [rewrite E1; apply aget_aset_same|].
      intros l Hne. rewrite E1. apply aget_aset_other. exact Hne.
    - exists fb. cbn [for_push f_forstk set_forstk for_pop_top].
      assert (Hfm : for_match p (mkFC i m) = true)
        by (unfold for_match; cbn; rewrite Nat.eqb_refl; reflexivity).
      rewrite Hfm. cbv beta iota zeta. fold (for_push (mkFC i m) fb). rewrite set_forstk_push.
      split; [reflexivity|]. split; [exact HI|]. split; [repeat split|]. split; [exact HEb|]. auto. }
  destruct Hci as (f1 & Hci & I1 & (S1a & S1b & S1c) & HE1 & Hend1).
  assert (Fr1 : frame p (S E) fb f1).
  { apply (frame_intro p (S E) fb f1 [] []); auto. intros l Hl0. apply Hend1. lia. }
  rewrite tfor_step in Ht.
  destruct (get_next_iteration i (vval hv w) w) as [v|] eqn:Eg.
  - destruct (tb n b (vset x v w)) as [w2| |] eqn:Eb; try discriminate.
    set (f2 := for_push (mkFC (S i) m) f1).
    assert (St : step1 P (p, (w, f)) = Some (S p, (vset x v w, f2))).
    { eapply step1_continue; [exact Hn0|]. rewrite (disp_for P TW) by exact Hsp.
      unfold step_for. rewrite Hci. cbn [fc_iter fc_meta]. rewrite Eg. reflexivity. }
    assert (I2 : Inv P f2) by (eapply Inv_same; [| | |exact I1]; reflexivity).
    assert (Hf2 : for_out (S p) (S p + nb) f2).
    { unfold for_out. cbn [f2 for_push f_forstk set_forstk]. constructor.
      - unfold for_outside. cbn. lia.
      - rewrite S1c. eapply for_out_weaken; [| |exact Hf]; lia. }
    destruct (Hb b (vset x v w) w2 (S p) Hwb Hpb Eb f2 I2 Hf2) as (f3 & R3 & I3 & F3).
    fold nb in R3, F3. fold E in R3, F3.
    pose proof (fr_for _ _ _ _ F3) as Ef. cbn [f2 for_push f_forstk set_forstk] in Ef. rewrite S1c in Ef.
    assert (HE3 : aget Nat.eqb E (f_end f3) = Some gen_endfor_name).
    { rewrite (fr_end _ _ _ _ F3) by lia. exact HE1. }
    set (fb' := set_forstk (f_forstk fb) f3).
    assert (St2 : step1 P (E, (w2, f3)) = Some (p, (w2, for_push (mkFC (S i) m) fb'))).
    { eapply step1_goto; [exact HnE|]. rewrite (close_for P TW) by auto.
      unfold step_endfor. rewrite Ef. cbn [for_pop].
      assert (Hfm : for_match E (mkFC (S i) m) = true)
        by (unfold for_match; cbn; rewrite Nat.eqb_refl; apply orb_true_r).
      rewrite Hfm. reflexivity. }
    assert (Ib' : Inv P fb') by (eapply Inv_same; [| | |exact I3]; reflexivity).
    assert (Frb : frame p (S E) fb fb').
    { destruct (fr_if _ _ _ _ F3) as (Jb & Ei & Fi). destruct (fr_wh _ _ _ _ F3) as (Jw & Ew & Fw).
      cbn [f2 for_push f_ifstk f_whstk set_forstk] in Ei, Ew.
      apply (frame_intro p (S E) fb fb' Jb Jw).
      - cbn. rewrite Ei, S1a. reflexivity.
      - eapply Forall_impl; [|exact Fi]. unfold if_junk. intros a [H1 H2]. split; [lia|exact H2].
      - cbn. rewrite Ew, S1b. reflexivity.
      - eapply Forall_impl; [|exact Fw]. unfold wh_junk. intros a. lia.
      - reflexivity.
      - intros l Hl0. cbn. rewrite (fr_end _ _ _ _ F3) by lia. cbn. apply Hend1. lia. }
    assert (Hfb' : for_out p (S E) fb') by (eapply for_out_same; [|exact Hf]; reflexivity).
    destruct (Hl sp x hv b e (S i) w2 w' p Ht Hw Hp0 fb' (for_push (mkFC (S i) m) fb') Ib' Hfb')
      as (f5 & R5 & I5 & F5).
    { right. split; [lia|]. split; [reflexivity|]. exact HE3. }
    exists f5. split; [|split; [exact I5|]].
    + eapply runs_step_then; [exact St|]. eapply runs_trans; [exact R3|].
      eapply runs_step_then; [exact St2|exact R5].
    + eapply frame_trans; [exact Frb|exact F5].
  - inversion Ht; subst w'.
    exists f1. split; [|split; [exact I1|exact Fr1]].
    apply runs_step. eapply step1_goto; [exact Hn0|]. rewrite (disp_for P TW) by exact Hsp.
    unfold step_for. rewrite Hci. cbn [fc_iter fc_meta]. rewrite Eg. reflexivity.
Qed.

Lemma for_case n : loop_ok n -> forall sp x hv b e w w' p,
  wfs (SFor sp x hv b e) -> placed P p (cs (SFor sp x hv b e)) ->
  ts (S n) (SFor sp x hv b e) w = TOk w' ->
  exec_ok p (p + length (cs (SFor sp x hv b e))) w w'.
Proof.
  intros Hl sp x hv b e w w' p Hw Hp Ht f HI Hf.
  assert (Hq : p + length (cs (SFor sp x hv b e)) = S (S p + length (cb b))).
  { cbn [cs length]. rewrite !app_length. cbn [length]. lia. }
  rewrite Hq in *. rewrite ts_for in Ht.
  apply (Hl sp x hv b e 0 w w' p Ht Hw Hp f f HI Hf). left. auto.
Qed.

(* ---- all together --------------------------------------------------------------------------------- *)
Lemma sim_all n : stmt_ok n /\ block_ok n /\ chain_ok n /\ loop_ok n.
Proof.
  induction n as [|n (Hs & Hb & Hc & Hl)].
  - repeat split; red; intros; cbn in *; discriminate.
  - assert (Hb' : block_ok (S n)) by (apply block_case; assumption).
    split; [|split; [exact Hb'|split; [apply chain_case; assumption|apply loop_case; assumption]]].
    intros s w w' p Hw Hp Ht. destruct s as [p0|sp c b els e|sp c b e|sp x hv b e].
    + exact (cmd_case n p0 w w' p Hp Ht).
    + exact (if_case n Hb Hc sp c b els e w w' p Hw Hp Ht).
    + exact (while_case n Hs Hb sp c b e w w' p Hw Hp Ht).
    + exact (for_case n Hl sp x hv b e w w' p Hw Hp Ht).
Qed.
End Sim.
