(* IncludeFns.v — names for the Rust functions around the include pre-processor that the hand models fold into their
   callers (definitions only; the equalities with Parser.v / Include.v are proved in IncludeGenTie.v).

     parser.rs  parse_lines(lines, meta_info)            parse_lines inc meta_info.source lines
                                                          (ParserIx.parse_lines_from from line 1 over str::lines; tied to the
                                                          source by the "parser" translation tie, Src_parser_parse_lines)
                parse_text_with_source_file(text, file)  parse_text_with_source_file inc text file
                parse_text(text)                         parse_text_inc inc text
                parse_file(file)                         parse_file_step fs inc file
     preprocessor/mod.rs  run                            Parser.preprocess, whose handler [inc] only sees the arguments of a
                                                          directive that HAS arguments; [inc_opt] is the handler as the Rust
                                                          passes it (include_files_preprocessor::run receives the Option)

   [inc] is the include handler of Parser.v (the listed files' instructions for a directive's arguments and the source of
   the including text); [fs] is fsio::file::read_text_file (None when it fails).  Results are ParserIx.itres (the
   index-faithful parser model keeps an explicit panic outcome, ParserIxProof.parse_text_no_panic excludes it). *)
Require Import DS.Base DS.Parser DS.ParserIx.

Definition inc_opt (inc : list str -> option str -> tres) (oa : option (list str)) (src : option str) : tres :=
  match oa with Some a => inc a src | None => TOk [] end.

Section Wrappers.
Variable inc : list str -> option str -> tres.

Definition parse_lines (src : option str) (text : str) : itres := ParserIx.parse_lines_from inc src 1 (lines text).

Definition parse_text_with_source_file (text file : str) : itres := parse_lines (Some file) text.

Definition parse_text_inc (text : str) : itres := parse_lines None text.

Definition parse_file_step (fs : str -> option str) (file : str) : itres :=
  match fs file with
  | Some text => parse_text_with_source_file text file
  | None => ITErr EReadFile 0 (Some file)
  end.
End Wrappers.
