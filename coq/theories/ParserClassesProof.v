(* ParserClassesProof.v — C08_errors: every malformed line of the classes of ParserClasses.v is
   rejected with the error kind of its class; planted in a script it fails the parse at its line. *)
Require Import DS.Base DS.Parser DS.ParserSpec DS.ParserFacts DS.Render DS.RenderProof DS.ParserClasses.

(* ---- prefix forms of the token lemmas ---------------------------------------------------------- *)
Lemma in_arg_q_prefix s : forall es Y acc, valid_q s es = true ->
  in_arg fl_arg (emit_str s es ++ Y) acc true false false = in_arg fl_arg Y (rev s ++ acc) true false false.
Proof.
  induction s as [|c s IH]; intros es Y acc Hv; [reflexivity|].
  cbn [valid_q] in Hv. apply andb_true_iff in Hv as [Hc Hs].
  cbn [emit_str rev]. rewrite <- !app_assoc. cbn [app].
  unfold emit1, escaped in *. destruct (hd false es).
  - destruct (esc_of c) as [x|] eqn:Ee; cbn [app].
    + rewrite (in_arg_esc c x) by assumption. now apply IH.
    + destruct (esc_none_not_special c Ee) as [H1 H2].
      rewrite in_arg_raw; [now apply IH|assumption|now rewrite H2|reflexivity].
  - cbn [andb orb] in Hc. apply negb_true_iff in Hc. unfold special in Hc.
    apply orb_false_iff in Hc as [Hc _]. apply orb_false_iff in Hc as [Hc _].
    apply orb_false_iff in Hc as [H1 H2]. cbn [app].
    rewrite in_arg_raw; [now apply IH|assumption|now rewrite H2|reflexivity].
Qed.

Lemma in_arg_u_prefix s : forall es Y acc, valid_u s es = true ->
  in_arg fl_arg (emit_str s es ++ Y) acc false false false = in_arg fl_arg Y (rev s ++ acc) false false false.
Proof.
  induction s as [|c s IH]; intros es Y acc Hv; [reflexivity|].
  cbn [valid_u] in Hv. apply andb_true_iff in Hv as [Hc Hs].
  cbn [emit_str rev]. rewrite <- !app_assoc. cbn [app].
  unfold emit1, escaped in *. destruct (hd false es).
  - destruct (esc_of c) as [x|] eqn:Ee; cbn [app].
    + rewrite (in_arg_esc c x) by assumption. now apply IH.
    + cbn [andb orb] in Hc. rewrite in_arg_u_raw by assumption. now apply IH.
  - cbn [andb orb] in Hc. cbn [app]. rewrite in_arg_u_raw by assumption. now apply IH.
Qed.

Lemma in_arg_name_prefix fl s : forall Y acc,
  forallb name_char s = true -> (stop_on_equals fl = true -> no_eq s = true) ->
  in_arg fl (s ++ Y) acc false false false = in_arg fl Y (rev s ++ acc) false false false.
Proof.
  induction s as [|c s IH]; intros Y acc Hn He; [reflexivity|].
  cbn [forallb] in Hn. apply andb_true_iff in Hn as [Hc Hs].
  destruct (name_char_facts c Hc) as (H1 & H2 & H3 & _).
  cbn [app rev]. rewrite <- app_assoc. cbn [app].
  rewrite in_arg_raw; [apply IH; try assumption| assumption | reflexivity |].
  - intros Hso. specialize (He Hso). unfold no_eq in *. cbn [forallb] in He.
    now apply andb_true_iff in He as [_ He].
  - cbn [negb andb]. rewrite H2, H3. cbn [orb].
    destruct (stop_on_equals fl) eqn:Hso; [|reflexivity].
    specialize (He eq_refl). unfold no_eq in He. cbn [forallb] in He.
    apply andb_true_iff in He as [He _]. apply negb_true_iff in He. now rewrite He.
Qed.

(* ---- the faults ------------------------------------------------------------------------------------ *)
Lemma in_arg_bs l acc uq : in_arg fl_arg (c_bs :: l) acc uq false false = in_arg fl_arg l acc uq true false.
Proof. reflexivity. Qed.

Lemma in_arg_fault f acc uq : fault_ok f = true ->
  in_arg fl_arg (fault_str f) acc uq false false = PErr EControlWithoutValidValue.
Proof.
  destruct f as [x rest|y rest| |]; cbn [fault_ok fault_str]; intros H; rewrite in_arg_bs.
  - apply negb_true_iff in H.
    apply orb_false_iff in H as [H H6]. apply orb_false_iff in H as [H H5].
    apply orb_false_iff in H as [H H4]. apply orb_false_iff in H as [H H3].
    apply orb_false_iff in H as [H1 H2].
    cbn [in_arg]. now rewrite H1, H2, H3, H4, H5, H6.
  - apply negb_true_iff in H. change (in_arg fl_arg (c_dollar :: y :: rest) acc uq true false)
      with (in_arg fl_arg (y :: rest) acc uq true true). cbn [in_arg]. now rewrite H.
  - reflexivity.
  - reflexivity.
Qed.

Lemma in_arg_unterminated s es acc : valid_q s es = true ->
  in_arg fl_arg (emit_str s es) acc true false false = PErr EMissingEndQuotes.
Proof.
  intros H. rewrite <- (app_nil_r (emit_str s es)). rewrite in_arg_q_prefix by assumption. reflexivity.
Qed.

(* the malformed token, after at least one space, makes the argument scan fail *)
Lemma pnv_bad_token n t : bad_token_ok t = true ->
  parse_next_value fl_arg (spaces n ++ bad_token_str t) = PErr (bad_token_kind t).
Proof.
  intros H. unfold parse_next_value. rewrite skip_spaces.
  destruct t as [s es|[|] s es f]; cbn [bad_token_ok bad_token_str bad_token_kind app] in *.
  - change (skip fl_arg (c_quote :: emit_str s es)) with (in_arg fl_arg (emit_str s es) [] true false false).
    now apply in_arg_unterminated.
  - apply andb_true_iff in H as [Hv Hf].
    change (skip fl_arg (c_quote :: emit_str s es ++ fault_str f))
      with (in_arg fl_arg (emit_str s es ++ fault_str f) [] true false false).
    rewrite in_arg_q_prefix by assumption. now apply in_arg_fault.
  - apply andb_true_iff in H as [H Hfirst]. apply andb_true_iff in H as [Hv Hf].
    assert (E : skip fl_arg (emit_str s es ++ fault_str f)
                = in_arg fl_arg (emit_str s es ++ fault_str f) [] false false false).
    { destruct s as [|c s].
      - cbn [emit_str app]. destruct f; reflexivity.
      - destruct (emit_str (c :: s) es) as [|c0 r] eqn:Ee; [now apply emit_nonempty in Ee|].
        pose proof (emit_first_not_hash _ _ _ _ _ Hv Ee) as Hh.
        apply negb_true_iff in Hfirst. apply orb_false_iff in Hfirst as [Hq _].
        cbn [app]. apply skip_enter; try assumption.
        (* not a space: the first written character is a backslash or a raw character *)
        cbn [valid_u emit_str] in Hv, Ee. apply andb_true_iff in Hv as [Hc _].
        unfold emit1, escaped in *. destruct (hd false es).
        + destruct (esc_of c); cbn [app] in Ee; inversion Ee; subst; [reflexivity|].
          cbn [andb orb] in Hc. now destruct (raw_ok_u_facts _ Hc) as (_ & ? & _).
        + cbn [andb orb app] in *. inversion Ee; subst. now destruct (raw_ok_u_facts _ Hc) as (_ & ? & _). }
    rewrite E. rewrite in_arg_u_prefix by assumption. now apply in_arg_fault.
Qed.

Lemma trim_body lead trail c0 r :
  forallb is_ws lead = true -> forallb is_ws trail = true ->
  is_ws c0 = false -> ends_ws (c0 :: r) = false ->
  trim (lead ++ (c0 :: r) ++ trail) = c0 :: r.
Proof.
  intros Hl Ht Hc He. unfold trim. cbn [app]. rewrite trim_start_lead by assumption.
  change (c0 :: r ++ trail) with ((c0 :: r) ++ trail). now apply trim_end_keep.
Qed.

Lemma line_error_perr s e : parse_line s = PErr e -> line_error s = Some e.
Proof. intros H. unfold line_error. now rewrite H. Qed.

(* ---- malformed argument token ------------------------------------------------------------------- *)
Lemma emit_first_not_sp c s es c0 r :
  valid_u (c :: s) es = true -> emit_str (c :: s) es = c0 :: r -> (c0 =? c_sp) = false.
Proof.
  cbn [valid_u emit_str]. intros Hv. apply andb_true_iff in Hv as [Hc _].
  unfold emit1, escaped in *. destruct (hd false es).
  - destruct (esc_of c); cbn [app]; intros H; inversion H; subst; [reflexivity|].
    cbn [andb orb] in Hc. now destruct (raw_ok_u_facts _ Hc) as (_ & ? & _).
  - cbn [andb orb app] in *. intros H; inversion H; subst.
    now destruct (raw_ok_u_facts _ Hc) as (_ & ? & _).
Qed.

Lemma after_equals_bad_token t : bad_token_ok t = true -> after_equals (bad_token_str t) = None.
Proof.
  destruct t as [s es|[|] s es f]; cbn [bad_token_ok bad_token_str app]; intros H; try reflexivity.
  apply andb_true_iff in H as [H Hfirst]. apply andb_true_iff in H as [Hv _].
  destruct s as [|c s].
  - cbn [emit_str app]. destruct f; reflexivity.
  - destruct (emit_str (c :: s) es) as [|c0 r] eqn:Ee; [now apply emit_nonempty in Ee|].
    pose proof (emit_first_not_sp _ _ _ _ _ Hv Ee) as Hs.
    apply negb_true_iff in Hfirst. apply orb_false_iff in Hfirst as [_ He].
    cbn [app after_equals]. now rewrite Hs, He.
Qed.

Lemma bad_token_line i ch gap t c :
  wf i = true -> s_command i = Some c ->
  valid_args (noout i) (s_args i) (ch_args ch) = true -> bad_token_ok t = true ->
  parse_command_line (render_head i ch ++ render_args (s_args i) (ch_args ch) ++ spaces (S gap) ++ bad_token_str t)
  = PErr (bad_token_kind t).
Proof.
  intros Hwf Ec Hv Ht.
  rewrite (head_cmd i ch c); try assumption.
  - erewrite parse_arguments_render; [|eassumption|apply sep_spaces].
    cbn [parse_args_fuel]. now rewrite pnv_bad_token.
  - apply render_args_sep. apply sep_spaces.
  - intros Ho. unfold noout in Hv. rewrite Ho in Hv. apply after_equals_args; [assumption|].
    rewrite after_spaces, after_equals_skip. now apply after_equals_bad_token.
Qed.

(* ---- malformed name ---------------------------------------------------------------------------------- *)
Definition name_flags (fl : flags) : Prop :=
  allow_quotes fl = false /\ allow_control fl = false /\ control_as_char fl = false.

Lemma pnv_name_fault fl n nf : name_flags fl -> name_fault_ok nf = true ->
  parse_next_value fl (spaces n ++ name_fault_str nf) = PErr (name_fault_kind nf).
Proof.
  intros (Hq & Hc & Hk) H. unfold parse_next_value. rewrite skip_spaces.
  destruct nf as [rest|pre rest]; cbn [name_fault_str name_fault_kind name_fault_ok] in *.
  - cbn [skip]. change (c_quote =? c_hash) with false. change (c_quote =? c_sp) with false.
    change (c_quote =? c_quote) with true. cbv iota. now rewrite Hq.
  - apply andb_true_iff in H as [H Hfirst]. apply andb_true_iff in H as [Hn He].
    assert (Hbs : forall acc, in_arg fl (c_bs :: rest) acc false false false = PErr EInvalidControlLocation).
    { intros acc. cbn [in_arg]. change (c_bs =? c_bs) with true. cbv iota. now rewrite Hk, Hc. }
    destruct pre as [|c pre].
    + cbn [app skip]. change (c_bs =? c_hash) with false. change (c_bs =? c_sp) with false.
      change (c_bs =? c_quote) with false. change (c_bs =? c_bs) with true. cbv iota. now rewrite Hk, Hc.
    + cbn [forallb] in Hn. apply andb_true_iff in Hn as [Hc0 Hn]. apply negb_true_iff in Hfirst.
      cbn [app]. rewrite skip_name_first by assumption.
      rewrite in_arg_name_prefix; [apply Hbs|assumption|].
      intros _. unfold no_eq in *. cbn [forallb] in He. now apply andb_true_iff in He as [_ He].
Qed.

Lemma pnv_name_fault0 fl nf : name_flags fl -> name_fault_ok nf = true ->
  parse_next_value fl (name_fault_str nf) = PErr (name_fault_kind nf).
Proof. exact (pnv_name_fault fl 0 nf). Qed.

Lemma name_flags_out : name_flags fl_out. Proof. repeat split. Qed.
Lemma name_flags_name : name_flags fl_name. Proof. repeat split. Qed.

Lemma find_oc_fault g nf : name_fault_ok nf = true ->
  find_output_and_command (spaces g ++ name_fault_str nf) = PErr (name_fault_kind nf).
Proof.
  intros H. unfold find_output_and_command. now rewrite (pnv_name_fault fl_out g nf name_flags_out H).
Qed.

Lemma find_oc_cmd_fault g out el er nf :
  name_ok out = true -> no_eq out = true -> name_fault_ok nf = true ->
  find_output_and_command (spaces g ++ out ++ spaces el ++ c_eq :: spaces er ++ name_fault_str nf)
  = PErr (name_fault_kind nf).
Proof.
  intros Ho He H. unfold find_output_and_command.
  rewrite (pnv_name fl_out g out _ Ho); [|intros _; assumption|now apply sep_eq_left|reflexivity].
  rewrite after_eq_left, after_equals_spaces.
  now rewrite (pnv_name_fault fl_name er nf name_flags_name H).
Qed.

Lemma find_oc_fault0 nf : name_fault_ok nf = true ->
  find_output_and_command (name_fault_str nf) = PErr (name_fault_kind nf).
Proof. exact (find_oc_fault 0 nf). Qed.

Lemma find_oc_cmd_fault0 out el er nf :
  name_ok out = true -> no_eq out = true -> name_fault_ok nf = true ->
  find_output_and_command (out ++ spaces el ++ c_eq :: spaces er ++ name_fault_str nf)
  = PErr (name_fault_kind nf).
Proof. exact (find_oc_cmd_fault 0 out el er nf). Qed.

Lemma name_fault_first nf : name_fault_ok nf = true ->
  exists c0 r, name_fault_str nf = c0 :: r /\ is_ws c0 = false /\ (c0 =? c_hash) = false /\ (c0 =? c_sp) = false /\
    (match nf with NBackslash pre _ => first_ok pre = true | _ => True end ->
     (c0 =? c_colon) = false /\ (c0 =? c_bang) = false).
Proof.
  destruct nf as [rest|[|c pre] rest]; cbn [name_fault_str name_fault_ok app]; intros H.
  - eexists _, _. split; [reflexivity|]. repeat split; reflexivity.
  - eexists _, _. split; [reflexivity|]. repeat split; reflexivity.
  - apply andb_true_iff in H as [H _]. apply andb_true_iff in H as [H _].
    cbn [forallb] in H. apply andb_true_iff in H as [H _].
    destruct (name_char_facts c H) as (_ & Hs & Hh & Hw).
    eexists _, _. split; [reflexivity|]. repeat split; try assumption.
    + now apply first_ok_colon in H0.
    + now apply first_ok_bang in H0.
Qed.

Lemma find_label_none' l c r : l = c :: r -> (c =? c_colon) = false -> (c =? c_sp) = false ->
  find_label l = POk (l, None).
Proof. intros -> H1 H2. now apply find_label_none. Qed.

Lemma parse_command_line_cons l c r : l = c :: r ->
  parse_command_line l =
  match find_label l with
  | PErr e => PErr e
  | POk (r1, label) =>
      match find_output_and_command r1 with
      | PErr e => PErr e
      | POk (r2, output, command) =>
          match parse_arguments r2 with
          | PErr e => PErr e
          | POk args =>
              match label, output, command with
              | None, None, None => POk IEmpty
              | _, _, _ => POk (IScript label output command args)
              end
          end
      end
  end.
Proof. intros ->. reflexivity. Qed.

Lemma bad_name_first p nf :
  name_fault_ok nf = true -> name_pos_ok p nf = true ->
  exists c0 r, name_pos_str p ++ name_fault_str nf = c0 :: r /\
    is_ws c0 = false /\ (c0 =? c_hash) = false /\ (c0 =? c_bang) = false /\
    (c0 =? c_sp) = false /\ (match p with PLabel | PFirst (Some _) _ | PCommand (Some _) _ _ _ _ => True | _ => (c0 =? c_colon) = false end).
Proof.
  intros Hf Hp. destruct (name_fault_first nf Hf) as (f0 & fr & Ef & Hfw & Hfh & Hfs & Hfirst).
  destruct p as [|[n|] gap|[n|] gap out el er]; cbn [name_pos_str name_pos_ok label_prefix opt_name_ok] in *.
  - eexists _, _. split; [cbn [app]; reflexivity|]. repeat split; reflexivity.
  - eexists _, _. split; [cbn [app]; reflexivity|]. repeat split; reflexivity.
  - cbn [andb] in Hp. cbn [app]. rewrite Ef.
    assert (Hcb : (f0 =? c_colon) = false /\ (f0 =? c_bang) = false).
    { apply Hfirst. destruct nf; [exact I|assumption]. }
    destruct Hcb as [Hcol Hbang].
    eexists _, _. split; [reflexivity|]. repeat split; assumption.
  - eexists _, _. split; [cbn [app]; reflexivity|]. repeat split; reflexivity.
  - apply andb_true_iff in Hp as [Hp Hfo]. apply andb_true_iff in Hp as [Hp Hoe]. apply andb_true_iff in Hp as [_ Ho].
    destruct out as [|o0 out]; [discriminate|].
    destruct (name_first _ _ Ho) as (Hw & Hh & Hs).
    pose proof (first_ok_colon _ _ Hfo) as Hcol. pose proof (first_ok_bang _ _ Hfo) as Hbang.
    eexists _, _. split; [cbn [app]; reflexivity|]. repeat split; assumption.
Qed.

Lemma bad_name_line p nf :
  name_fault_ok nf = true -> name_pos_ok p nf = true ->
  parse_command_line (name_pos_str p ++ name_fault_str nf) = PErr (name_fault_kind nf).
Proof.
  intros Hf Hp. destruct (bad_name_first p nf Hf Hp) as (c0 & r & E & _ & _ & _ & Hsp & Hcol).
  rewrite (parse_command_line_cons _ c0 r E).
  destruct p as [|[n|] gap|[n|] gap out el er]; cbn [name_pos_str name_pos_ok label_prefix opt_name_ok] in *.
  - cbn [app find_label]. change (c_colon =? c_colon) with true. cbv iota.
    now rewrite (pnv_name_fault0 fl_name nf name_flags_name Hf).
  - apply andb_true_iff in Hp as [Hn _]. norm_app.
    rewrite find_label_some; [|assumption|apply sep_spaces]. rewrite after_spaces.
    now rewrite find_oc_fault.
  - cbn [app] in *. rewrite (find_label_none' _ c0 r E Hcol Hsp). now rewrite find_oc_fault0.
  - apply andb_true_iff in Hp as [Hp _]. apply andb_true_iff in Hp as [Hp Hoe]. apply andb_true_iff in Hp as [Hn Ho].
    norm_app.
    rewrite find_label_some; [|assumption|apply sep_spaces]. rewrite after_spaces.
    now rewrite find_oc_cmd_fault.
  - apply andb_true_iff in Hp as [Hp Hfo]. apply andb_true_iff in Hp as [Hp Hoe]. apply andb_true_iff in Hp as [_ Ho].
    cbn [app] in *. rewrite (find_label_none' _ c0 r E Hcol Hsp).
    norm_app. now rewrite find_oc_cmd_fault0.
Qed.

(* ---- '!' lines --------------------------------------------------------------------------------------- *)
Lemma pp_command_spaces k l : pp_command (spaces k ++ l) [] = pp_command l [].
Proof. induction k; cbn [spaces repeat app pp_command]; [reflexivity|]. exact IHk. Qed.

Lemma pp_command_word w : forall M acc, forallb (fun c => negb (is_ws c)) w = true ->
  pp_command (w ++ M) acc = pp_command M (rev w ++ acc).
Proof.
  induction w as [|c w IH]; intros M acc H; [reflexivity|].
  cbn [forallb] in H. apply andb_true_iff in H as [Hc Hw]. apply negb_true_iff in Hc.
  cbn [app pp_command]. rewrite (not_ws_not_sp c Hc). rewrite IH by assumption.
  cbn [rev]. now rewrite <- app_assoc.
Qed.

Lemma bang_unknown_line k word more :
  bad_body_ok (BBangUnknown k word more) = true ->
  exists args, parse_pre_process_line
    (spaces k ++ word ++ match more with
                         | Some (args, chs, cm) => c_sp :: render_args args chs ++ comment_str cm
                         | None => []
                         end) = POk (IPre (Some word) args).
Proof.
  cbn [bad_body_ok]. intros H. apply andb_true_iff in H as [H Hmore].
  apply andb_true_iff in H as [H _]. apply andb_true_iff in H as [H _]. apply andb_true_iff in H as [Hne Hw].
  unfold parse_pre_process_line. rewrite pp_command_spaces, pp_command_word by assumption. rewrite app_nil_r.
  assert (Hr : rev word <> []).
  { intros E. apply (f_equal (@rev _)) in E. rewrite rev_involutive in E. cbn in E. subst. discriminate. }
  destruct more as [[[args chs] cm]|].
  - cbn [pp_command]. change (c_sp =? c_sp) with true. cbv iota.
    destruct (rev word) as [|x y] eqn:E; [congruence|]. rewrite <- E, rev_involutive.
    assert (Ht : is_tail (comment_str cm)).
    { destruct cm as [[j txt]|]; [right; exists j, txt; reflexivity|left; reflexivity]. }
    erewrite parse_arguments_render; [|eassumption|now apply is_tail_sep].
    rewrite args_tail by assumption.
    destruct word; [discriminate|]. eauto.
  - cbn [pp_command]. rewrite rev_involutive. destruct word; [discriminate|].
    rewrite parse_arguments_tail by (left; reflexivity). eauto.
Qed.

Lemma parse_line_body lead trail body c0 r :
  body = c0 :: r -> forallb is_ws lead = true -> forallb is_ws trail = true ->
  is_ws c0 = false -> ends_ws body = false -> (c0 =? c_hash) = false -> (c0 =? c_bang) = false ->
  parse_line (lead ++ body ++ trail) = parse_command_line body.
Proof.
  intros -> Hl Ht Hw He Hh Hb.
  apply (parse_line_of_trim _ c0 r); try assumption. now apply trim_body.
Qed.

Lemma parse_line_bang lead trail r :
  forallb is_ws lead = true -> forallb is_ws trail = true -> ends_ws (c_bang :: r) = false ->
  parse_line (lead ++ (c_bang :: r) ++ trail) = parse_pre_process_line r.
Proof.
  intros Hl Ht He. unfold parse_line. rewrite trim_body by (assumption || reflexivity). reflexivity.
Qed.

Theorem bad_line_error b : valid_bad b = true -> line_error (render_bad b) = Some (bad_kind b).
Proof.
  unfold valid_bad, render_bad, bad_kind. destruct b as [lead body trail]. cbn [b_lead b_body b_trail].
  intros H. apply andb_true_iff in H as [H Hok]. apply andb_true_iff in H as [H Hends].
  apply andb_true_iff in H as [H _]. apply andb_true_iff in H as [Hlead Htrail].
  apply ws_line_ws in Hlead, Htrail. apply negb_true_iff in Hends.
  destruct body as [i ch gap t|p nf| |k word more]; cbn [bad_body_kind].
  - (* malformed argument token *)
    cbn [bad_body_ok] in Hok. apply andb_true_iff in Hok as [Hok Ht]. apply andb_true_iff in Hok as [Hok Hv].
    apply andb_true_iff in Hok as [Hwf Hc]. destruct (s_command i) as [c|] eqn:Ec; [|discriminate].
    assert (Hne : s_label i <> None \/ s_output i <> None \/ s_command i <> None) by (right; right; congruence).
    destruct (head_first i ch Hwf Hne) as (c0 & r & Eh & Hw & Hh & Hb).
    apply line_error_perr.
    erewrite parse_line_body; try eassumption.
    + cbn [bad_body_str]. now apply (bad_token_line i ch gap t c).
    + cbn [bad_body_str]. rewrite Eh. cbn [app]. reflexivity.
  - (* malformed name *)
    cbn [bad_body_ok] in Hok. apply andb_true_iff in Hok as [Hf Hp].
    destruct (bad_name_first p nf Hf Hp) as (c0 & r & E & Hw & Hh & Hb & _ & _).
    apply line_error_perr.
    erewrite parse_line_body; try eassumption.
    cbn [bad_body_str]. now apply bad_name_line.
  - (* '!' alone *)
    apply line_error_perr. cbn [bad_body_str]. now rewrite parse_line_bang.
  - (* '!' + unknown word *)
    destruct (bang_unknown_line k word more Hok) as (args & Ea).
    cbn [bad_body_str] in *. unfold line_error.
    rewrite parse_line_bang by assumption. rewrite Ea.
    cbn [bad_body_ok] in Hok. apply andb_true_iff in Hok as [Hok _].
    apply andb_true_iff in Hok as [Hok Hi]. apply andb_true_iff in Hok as [_ Hp].
    apply negb_true_iff in Hi, Hp. now rewrite Hp, Hi.
Qed.

Lemma bad_kind_class b : bad_kind b = class_kind (class_of b).
Proof.
  unfold bad_kind, class_of. destruct (b_body b) as [i ch gap [s es|q s es [x r|y r| |]]|p [r|pre r]| |k w m];
    reflexivity.
Qed.

Lemma class_kind_not_readfile k : class_kind k <> EReadFile.
Proof. destruct k; discriminate. Qed.

(* C08_errors: a script good1 ++ [bad] ++ rest, bad of class K, fails with the error kind of K at
   line length good1 + 1, whatever follows *)
Theorem errors_planted t good b rest :
  lines t = good ++ render_bad b :: rest ->
  Forall (fun s => line_error s = None) good -> valid_bad b = true ->
  parse_text t = TErr (class_kind (class_of b)) (N.of_nat (length good) + 1) None.
Proof.
  intros El Hg Hb. apply (parse_text_planted t good (render_bad b) rest); try assumption.
  - rewrite <- bad_kind_class. now apply bad_line_error.
  - apply class_kind_not_readfile.
Qed.

(* ---- realisability: the hypothesis [lines t = ...] is met by joining plain lines with LF --------- *)
Definition join_lf (ls : list str) : str := concat (map (fun l => l ++ [c_lf]) ls).
Definition ends_cr (l : str) : bool := match rev l with c :: _ => c =? c_cr | [] => false end.
Definition plain_line (l : str) : bool := no_lf l && negb (ends_cr l).

Lemma lines_join_lf ls : forallb plain_line ls = true -> lines (join_lf ls) = ls.
Proof.
  unfold lines, join_lf. induction ls as [|l ls IH]; intros H; [reflexivity|].
  cbn [forallb] in H. apply andb_true_iff in H as [Hl Hls]. unfold plain_line in Hl.
  apply andb_true_iff in Hl as [Hn Hc]. apply negb_true_iff in Hc.
  cbn [map concat]. rewrite <- app_assoc. cbn [app]. rewrite lines_aux_lf by assumption.
  rewrite IH by assumption. f_equal. rewrite app_nil_r. unfold strip_cr, ends_cr in *.
  destruct (rev l) as [|c r] eqn:E.
  - apply (f_equal (@rev _)) in E. rewrite rev_involutive in E. now subst.
  - rewrite Hc. rewrite <- E. apply rev_involutive.
Qed.

Theorem errors_planted_text good b rest :
  forallb plain_line (good ++ render_bad b :: rest) = true ->
  Forall (fun s => line_error s = None) good -> valid_bad b = true ->
  parse_text (join_lf (good ++ render_bad b :: rest))
  = TErr (class_kind (class_of b)) (N.of_nat (length good) + 1) None.
Proof. intros Hp Hg Hb. apply (errors_planted _ good b rest); try assumption. now apply lines_join_lf. Qed.

(* ---- non-vacuity: one valid member of every class ----------------------------------------------- *)
Definition ex_cmd : sinstr := {| s_label := None; s_output := None; s_command := Some [99;109;100]; s_args := [[97]] |}.
Definition ex_ch : choices := {| ch_lead := []; ch_trail := []; ch_label_gap := 0; ch_eq_left := 1; ch_eq_right := 1;
                                 ch_args := [{| a_gap := 0; a_quoted := false; a_esc := [] |}]; ch_comment := None |}.
Definition ex_line (b : bad_body) : bad_line := {| b_lead := [c_sp]; b_body := b; b_trail := [c_tab] |}.
(* the lines:  cmd a [quote]x y  /  cmd a  x[bs]qz  /  cmd a [quote]x[bs]  /  :l o = [quote]c[quote]  /  c[bs]d  /  !  /  !foo  [quote]a[quote] *)
Definition ex_bad : list bad_line :=
  [ ex_line (BToken ex_cmd ex_ch 0 (TUnterminated [120; c_sp; 121] []));
    ex_line (BToken ex_cmd ex_ch 1 (TEscape false [120] [] (FBad 113 [122])));
    ex_line (BToken ex_cmd ex_ch 0 (TEscape true [120] [] FDangling));
    ex_line (BName (PCommand (Some [108]) 0 [111] 1 1) (NQuote [99; c_quote]));
    ex_line (BName (PFirst None 0) (NBackslash [99] [100]));
    ex_line BBangAlone;
    ex_line (BBangUnknown 0 [102;111;111] (Some ([[97]], [{| a_gap := 0; a_quoted := true; a_esc := [] |}], None))) ].

Lemma ex_bad_valid : forallb valid_bad ex_bad = true.
Proof. vm_compute. reflexivity. Qed.

Lemma ex_bad_classes :
  map class_of ex_bad = [KUnterminatedQuote; KUndocumentedEscape; KDanglingBackslash; KNameBeginsWithQuote;
                         KNameContainsBackslash; KBangAlone; KBangUnknown].
Proof. reflexivity. Qed.
