(* FlowFnTree.v — the specification side of C05: structured programs with function definitions,
   calls and returns; compilation to instruction lists; a fuelled tree-walking interpreter in which
   a call runs the body on fresh loop state and catches the return signal.  Definitions only. *)
Require Import DS.Base DS.FlowTables DS.Flow DS.FlowFn.
Require DS.FlowTree.
Require Import DSG.GenFlowNames DSG.GenFnNames.

Inductive fstmt :=
| GCmd (p : prim)
| GIf (sp : str) (c : cond) (b : fblock) (els : felses) (e : str)
| GWhile (sp : str) (c : cond) (b : fblock) (e : str)
| GFor (sp : str) (x hv : str) (b : fblock) (e : str)
| GCall (out : option str) (f : str) (args : list carg)
| GReturn (sp : str) (a : option carg)
with fblock := GNil | GCons (s : fstmt) (b : fblock)
with felses :=
| HNil
| HElseIf (sp : str) (c : cond) (b : fblock) (r : felses)
| HElse (sp : str) (b : fblock).
Scheme fstmt_ind3 := Induction for fstmt Sort Prop
  with fblock_ind3 := Induction for fblock Sort Prop
  with felses_ind3 := Induction for felses Sort Prop.
Combined Scheme fsyntax_ind from fstmt_ind3, fblock_ind3, felses_ind3.

Record fndef := mkFD { fd_sp : str; fd_scoped : bool; fd_name : str; fd_body : fblock; fd_end : str }.
Record prog := mkProg { p_defs : list fndef; p_main : fblock }.

(* ---- compilation --------------------------------------------------------------------------- *)
Definition fkw (sp : str) (a : farg) : finstr := mkFI (Some sp) a.
Definition bkw (sp : str) (a : iarg) : finstr := mkFI (Some sp) (FBase a).
Fixpoint gs (s : fstmt) : list finstr :=
  match s with
  | GCmd p => [mkFI (prim_cmd p) (FBase (APrim p))]
  | GIf sp c b els e => bkw sp (ACond c) :: gb b ++ ge els ++ [bkw e ANone]
  | GWhile sp c b e => bkw sp (ACond c) :: gb b ++ [bkw e ANone]
  | GFor sp x hv b e => bkw sp (AFor x hv) :: gb b ++ [bkw e ANone]
  | GCall out f args => [fkw f (FCall out args)]
  | GReturn sp a => [fkw sp (FReturn a)]
  end
with gb (b : fblock) : list finstr :=
  match b with GNil => [] | GCons s b' => gs s ++ gb b' end
with ge (els : felses) : list finstr :=
  match els with
  | HNil => []
  | HElseIf sp c b r => bkw sp (ACond c) :: gb b ++ ge r
  | HElse sp b => bkw sp ANone :: gb b
  end.
Definition gdef (d : fndef) : list finstr :=
  fkw (fd_sp d) (FFn (fd_scoped d) (fd_name d)) :: gb (fd_body d) ++ [bkw (fd_end d) ANone].
Fixpoint gdefs (ds : list fndef) : list finstr :=
  match ds with [] => [] | d :: r => gdef d ++ gdefs r end.
Definition compile_prog (p : prog) : list finstr := gdefs (p_defs p) ++ gb (p_main p).

(* ---- well-formedness ------------------------------------------------------------------------- *)
Definition fn_closers : list str := n_endfunction ++ [gen_end_name].
Definition reserved (f : str) : bool :=
  negb (match classify_fn f with FKBase KOther => true | _ => false end) || str_in f prim_names.
(* [infn]: inside a function body (return allowed); [names]: the defined functions *)
Fixpoint wgs (names : list str) (infn : bool) (s : fstmt) : bool :=
  match s with
  | GCmd _ => true
  | GIf sp _ b els e => str_in sp (openers CkIf) && str_in e (closers CkIf) && wgb names infn b && wge names infn els
  | GWhile sp _ b e => str_in sp (openers CkWhile) && str_in e (closers CkWhile) && wgb names infn b
  | GFor sp _ _ b e => str_in sp (openers CkFor) && str_in e (closers CkFor) && wgb names infn b
  | GCall _ f args => str_in f names && (length args <=? 9)%nat
  | GReturn sp _ => infn && str_in sp n_return
  end
with wgb (names : list str) (infn : bool) (b : fblock) : bool :=
  match b with GNil => true | GCons s b' => wgs names infn s && wgb names infn b' end
with wge (names : list str) (infn : bool) (els : felses) : bool :=
  match els with
  | HNil => true
  | HElseIf sp _ b r => str_in sp n_elseif && wgb names infn b && wge names infn r
  | HElse sp b => str_in sp n_else && wgb names infn b
  end.
Fixpoint distinct (l : list str) : bool :=
  match l with [] => true | a :: r => negb (str_in a r) && distinct r end.
Definition wf_def (names : list str) (d : fndef) : bool :=
  str_in (fd_sp d) n_function && str_in (fd_end d) fn_closers && negb (reserved (fd_name d)) &&
  wgb names true (fd_body d).
Definition wf_prog (p : prog) : bool :=
  let names := map fd_name (p_defs p) in
  distinct names && forallb (wf_def names) (p_defs p) && wgb names false (p_main p).

(* ---- KnownF6: programs on which the pinned for-in state is shared between activations --------- *)
(* calls made (anywhere) in a block; for-in bodies; returns inside for-in *)
Fixpoint calls_s (s : fstmt) : list str :=
  match s with
  | GCmd _ | GReturn _ _ => []
  | GIf _ _ b els _ => calls_b b ++ calls_e els
  | GWhile _ _ b _ => calls_b b
  | GFor _ _ _ b _ => calls_b b
  | GCall _ f _ => [f]
  end
with calls_b (b : fblock) : list str :=
  match b with GNil => [] | GCons s b' => calls_s s ++ calls_b b' end
with calls_e (els : felses) : list str :=
  match els with
  | HNil => []
  | HElseIf _ _ b r => calls_b b ++ calls_e r
  | HElse _ b => calls_b b
  end.
Fixpoint has_return_s (s : fstmt) : bool :=
  match s with
  | GCmd _ | GCall _ _ _ => false
  | GReturn _ _ => true
  | GIf _ _ b els _ => has_return_b b || has_return_e els
  | GWhile _ _ b _ => has_return_b b
  | GFor _ _ _ b _ => has_return_b b
  end
with has_return_b (b : fblock) : bool :=
  match b with GNil => false | GCons s b' => has_return_s s || has_return_b b' end
with has_return_e (els : felses) : bool :=
  match els with
  | HNil => false
  | HElseIf _ _ b r => has_return_b b || has_return_e r
  | HElse _ b => has_return_b b
  end.
(* the bodies of the for-in loops of a block (nested ones included) *)
Fixpoint for_bodies_s (s : fstmt) : list fblock :=
  match s with
  | GCmd _ | GCall _ _ _ | GReturn _ _ => []
  | GIf _ _ b els _ => for_bodies_b b ++ for_bodies_e els
  | GWhile _ _ b _ => for_bodies_b b
  | GFor _ _ _ b _ => b :: for_bodies_b b
  end
with for_bodies_b (b : fblock) : list fblock :=
  match b with GNil => [] | GCons s b' => for_bodies_s s ++ for_bodies_b b' end
with for_bodies_e (els : felses) : list fblock :=
  match els with
  | HNil => []
  | HElseIf _ _ b r => for_bodies_b b ++ for_bodies_e r
  | HElse _ b => for_bodies_b b
  end.
Fixpoint find_def (f : str) (ds : list fndef) : option fndef :=
  match ds with
  | [] => None
  | d :: r => if str_eqb f (fd_name d) then Some d else find_def f r
  end.
(* functions reachable through calls from the functions in [fs] (fuel = number of definitions) *)
Fixpoint reach (fuel : nat) (ds : list fndef) (fs : list str) : list str :=
  match fuel with
  | O => fs
  | S k =>
    reach k ds (fs ++ flat_map (fun f => match find_def f ds with
                                         | Some d => calls_b (fd_body d)
                                         | None => [] end) fs)
  end.
Definition known_f6 (p : prog) : bool :=
  let ds := p_defs p in
  existsb (fun d =>
    (* a return lexically inside a for-in of this function *)
    existsb has_return_b (for_bodies_b (fd_body d)) ||
    (* a for-in body of this function calls something from which this function is reachable *)
    existsb (fun body => str_in (fd_name d) (reach (length ds) ds (calls_b body)))
            (for_bodies_b (fd_body d))) ds.

(* ---- the tree-walking interpreter -------------------------------------------------------------- *)
Inductive fres := FOk (w : world) | FRet (v : option str) (w : world) | FErr | FFuel.

Section Interp.
Variable ds : list fndef.

Fixpoint hs (n : nat) (s : fstmt) (w : world) {struct n} : fres :=
  match n with
  | O => FFuel
  | S n' =>
    match s with
    | GCmd p => match exec_prim p w with Some w' => FOk w' | None => FErr end
    | GIf _ c b els _ =>
        let (v, w1) := eval_cond c w in
        if v then hb n' b w1 else he n' els w1
    | GWhile _ c b _ =>
        let (v, w1) := eval_cond c w in
        if v then match hb n' b w1 with FOk w2 => hs n' s w2 | r => r end
        else FOk w1
    | GFor _ x hv b _ => hfor n' x hv b 0 w
    | GReturn _ a => FRet (option_map (fun x => arg_val x w) a) w
    | GCall out f args =>
        match find_def f ds with
        | None => FErr
        | Some d =>
          let vals := map (fun a => arg_val a w) args in
          let saved := w_vars w in
          let w1 := if fd_scoped d then set_vars [] w else w in
          let w3 := clear_out out (bind_args 1 vals w1) in
          match hb n' (fd_body d) w3 with
          | FOk w4 => FOk (if fd_scoped d then set_vars saved w4 else w4)     (* reached the end *)
          | FRet v w4 =>
              let w5 := match out with
                        | Some o => match v with Some x => vset o x w4 | None => vunset o w4 end
                        | None => w4
                        end in
              FOk (if fd_scoped d then set_vars (overlay saved out w5) w5 else w5)
          | r => r
          end
        end
    end
  end
with hb (n : nat) (b : fblock) (w : world) {struct n} : fres :=
  match n with
  | O => FFuel
  | S n' =>
    match b with
    | GNil => FOk w
    | GCons s b' => match hs n' s w with FOk w1 => hb n' b' w1 | r => r end
    end
  end
with he (n : nat) (els : felses) (w : world) {struct n} : fres :=
  match n with
  | O => FFuel
  | S n' =>
    match els with
    | HNil => FOk w
    | HElseIf _ c b r =>
        let (v, w1) := eval_cond c w in
        if v then hb n' b w1 else he n' r w1
    | HElse _ b => hb n' b w
    end
  end
with hfor (n : nat) (x hv : str) (b : fblock) (i : nat) (w : world) {struct n} : fres :=
  match n with
  | O => FFuel
  | S n' =>
    match get_next_iteration i (vval hv w) w with
    | None => FOk w
    | Some v => match hb n' b (vset x v w) with
                | FOk w2 => hfor n' x hv b (S i) w2
                | r => r
                end
    end
  end.
End Interp.
Definition prog_run (n : nat) (p : prog) (w : world) : fres := hb (p_defs p) n (p_main p) w.

(* ---- rendering ----------------------------------------------------------------------------------- *)
Definition scope_tag : str := [60] ++ gen_scope_annotation ++ [62].     (* <scope> *)
Definition carg_token (a : carg) : str :=
  match a with ALit s => s | AVar v => [36;123] ++ v ++ [125] end.
Fixpoint fcond_tokens (c : fcond) : list str :=
  match c with
  | FCBase c' => FlowTree.cond_tokens c'
  | FCCall f args => f :: map carg_token args
  | FCNot c' => FlowTree.s_not :: fcond_tokens c'
  end.
Definition frender (i : finstr) : option str * option str * list str :=
  match fi_arg i with
  | FBase a => FlowTree.render (down i)
  | FCondC c => (None, fi_cmd i, fcond_tokens c)
  | FFn scoped name => (None, fi_cmd i, if scoped then [scope_tag; name] else [name])
  | FCall out args => (out, fi_cmd i, map carg_token args)
  | FReturn a => (None, fi_cmd i, match a with Some x => [carg_token x] | None => [] end)
  end.
