(* Rs2vEvalRunLib.v — run-time support for the translation of duckscript_sdk/src/utils/eval.rs::eval_instructions
   (lib/rs2v.py class FnE, lib/gen/eval_gen.py -> coq/generated/GenEvalFn.v).  std++ gmap style, definitions and
   generic lemmas only.

   The four `&mut` parameters (commands, state, variables, env) of the Rust function are ONE value of the runner
   model's [Runner.world]; `variables` is its [vars] component:

     Rust                               generated Gallina
     ---------------------------------  ------------------------------------------------
     variables.insert(k, v);            vars_insert k v w
     variables.remove(k);               vars_remove k w        (both results of the Rust calls are dropped) *)
From stdpp Require Import gmap.
Require Import DS.Base DS.Parser DS.ParserIx DS.Runner.

Definition vars_insert {cstate : Type} (k v : str) (w : world cstate) : world cstate :=
  set_vars w (<[k := v]> (vars w)).
Definition vars_remove {cstate : Type} (k : str) (w : world cstate) : world cstate :=
  set_vars w (delete k (vars w)).

(* Runner.update_output is exactly the insert / remove pair under the two Option tests *)
Lemma update_output_vars {cstate : Type} (w : world cstate) (ov o : option str) :
  update_output w ov o =
  match ov with
  | Some v => match o with Some x => vars_insert v x w | None => vars_remove v w end
  | None => w
  end.
Proof. reflexivity. Qed.

(* std++'s list lookup is the standard library's nth_error *)
Lemma lookup_nth_error {A : Type} (l : list A) (n : nat) : l !! n = nth_error l n.
Proof. revert n; induction l as [|a l IH]; intros [|n]; try reflexivity. apply IH. Qed.

Lemma nth_error_in_range {A : Type} (l : list A) (n : nat) :
  Nat.ltb n (length l) = true -> exists a, nth_error l n = Some a.
Proof.
  intros H. apply Nat.ltb_lt in H. destruct (nth_error l n) as [a|] eqn:E; [eauto|].
  apply nth_error_None in E. lia.
Qed.

Lemma nth_error_out_of_range {A : Type} (l : list A) (n : nat) :
  Nat.ltb n (length l) = false -> nth_error l n = None.
Proof. intros H. apply Nat.ltb_ge in H. now apply nth_error_None. Qed.

Definition ires_map {A B : Type} (f : A -> B) (r : ires A) : ires B :=
  match r with IOk a => IOk (f a) | IErr e => IErr e | IPanic => IPanic end.
