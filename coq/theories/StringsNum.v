(* StringsNum.v — C16 proofs, part 3: the decimal comparison of less_than / greater_than is the
   order of the rationals the literals denote; the checked-i64 evaluator used as the oracle for
   calc computes ordinary integer arithmetic; further unit-consistency corollaries.
   (f64 rounding and the evalexpr crate themselves are NOT modelled: see Strings.v.) *)
Require Import DS.Base DS.Utf8 DS.Strings DS.StringsProof DS.StringsProof2.
Require Import QArith Qpower.
Open Scope N_scope.

(* ------------------------------------------------------------------------------------------- *)
(* decimal literals as rationals                                                                 *)

(* the rational denoted by a normal form (signed mantissa, decimal exponent) *)
Definition qval (x : Z * Z) : Q := (inject_Z (fst x) * (10 # 1) ^ (snd x))%Q.

Lemma ten_pos z : (0 < (10 # 1) ^ z)%Q.
Proof. apply Qpower_0_lt. reflexivity. Qed.

Lemma qval_shift m e em :
  (em <= e)%Z -> (qval (m, e) == inject_Z (m * 10 ^ (e - em)) * (10 # 1) ^ em)%Q.
Proof.
  intros H. unfold qval. cbn [fst snd].
  replace e with ((e - em) + em)%Z at 1 by lia.
  rewrite Qpower_plus by discriminate.
  rewrite inject_Z_mult, Zpower_Qpower by lia.
  change (inject_Z 10) with (10 # 1). ring.
Qed.

Lemma rat_ltb_spec x y : rat_ltb x y = true <-> (qval x < qval y)%Q.
Proof.
  destruct x as [m1 e1], y as [m2 e2]. unfold rat_ltb.
  set (em := Z.min e1 e2).
  rewrite (qval_shift m1 e1 em), (qval_shift m2 e2 em) by (unfold em; lia).
  rewrite Qmult_lt_r by apply ten_pos.
  rewrite <- Zlt_Qlt. apply Z.ltb_lt.
Qed.

(* less_than / greater_than on two in-domain literals answer the order of the denoted rationals *)
Lemma cmd_compare_spec gt a b n1 d1 e1 n2 d2 e2 x y :
  parse_dec a = DNum n1 d1 e1 -> parse_dec b = DNum n2 d2 e2 ->
  dec_norm n1 d1 e1 = Some x -> dec_norm n2 d2 e2 = Some y ->
  exists r, cmd_compare gt [a; b] = of_bool r /\
            (r = true <-> if gt then (qval y < qval x)%Q else (qval x < qval y)%Q).
Proof.
  intros Ha Hb Hx Hy. unfold cmd_compare. rewrite Ha, Hb, Hx, Hy.
  destruct gt; eexists; (split; [reflexivity|apply rat_ltb_spec]).
Qed.

(* exactly two arguments, both must parse as float literals, otherwise the error result *)
Lemma cmd_compare_errors gt args :
  (forall a b, args <> [a; b]) -> cmd_compare gt args = RErr 12.
Proof.
  intros H. destruct args as [|a [|b [|c r]]]; try reflexivity. exfalso. exact (H a b eq_refl).
Qed.
Lemma cmd_compare_nonnumeric gt a b :
  parse_dec a = DBad \/ parse_dec b = DBad -> cmd_compare gt [a; b] = RErr 4.
Proof.
  unfold cmd_compare. intros [H|H]; rewrite H; [reflexivity|].
  destruct (parse_dec a); reflexivity.
Qed.

(* ------------------------------------------------------------------------------------------- *)
(* calc oracle: checked i64 arithmetic is ordinary arithmetic whenever it yields a number         *)

Fixpoint denote (e : expr) : option Z :=
  match e with
  | ELit n => Some (Z.of_N n)
  | ENeg a => match denote a with Some x => Some (- x)%Z | None => None end
  | EBin op a b =>
      match denote a, denote b with
      | Some x, Some y =>
          if op =? 0 then Some (x + y)%Z
          else if op =? 1 then Some (x - y)%Z
          else if op =? 2 then Some (x * y)%Z
          else if (y =? 0)%Z then None
          else if op =? 3 then Some (Z.quot x y) else Some (Z.rem x y)
      | _, _ => None
      end
  end.

Lemma in_i64_int z r : in_i64 z = CInt r -> r = z /\ (i64_min <= z <= i64_max)%Z.
Proof.
  unfold in_i64. destruct (Z.leb_spec i64_min z) as [L1|L1]; [|discriminate].
  destruct (Z.leb_spec z i64_max) as [L2|L2]; [|discriminate]. cbn [andb]. intros X. inversion X. lia.
Qed.

Lemma eval_expr_sound e : forall z,
  eval_expr e = CInt z -> denote e = Some z /\ (i64_min <= z <= i64_max)%Z.
Proof.
  induction e as [n|a IHa|op a IHa b IHb]; intros z H; cbn [eval_expr denote] in *.
  - destruct (Z.leb_spec (Z.of_N n) i64_max); [|discriminate]. inversion H. subst.
    split; [reflexivity|]. unfold i64_min. lia.
  - destruct (eval_expr a) as [x| |]; try discriminate.
    destruct (IHa x eq_refl) as [-> _]. apply in_i64_int in H. destruct H as [-> Hr].
    split; [reflexivity|exact Hr].
  - destruct (eval_expr a) as [x| |]; try discriminate.
    destruct (eval_expr b) as [y| |]; try discriminate.
    destruct (IHa x eq_refl) as [-> _]. destruct (IHb y eq_refl) as [-> _].
    destruct (op =? 0); [apply in_i64_int in H; destruct H as [-> Hr]; split; [reflexivity|exact Hr]|].
    destruct (op =? 1); [apply in_i64_int in H; destruct H as [-> Hr]; split; [reflexivity|exact Hr]|].
    destruct (op =? 2); [apply in_i64_int in H; destruct H as [-> Hr]; split; [reflexivity|exact Hr]|].
    destruct (op =? 3).
    + destruct (y =? 0)%Z; [discriminate|].
      apply in_i64_int in H. destruct H as [-> Hr]. split; [reflexivity|exact Hr].
    + destruct (y =? 0)%Z; [discriminate|].
      destruct ((x =? i64_min) && (y =? -1))%Z; [discriminate|].
      apply in_i64_int in H. destruct H as [-> Hr]. split; [reflexivity|exact Hr].
Qed.

(* the value printed for an in-domain expression is the decimal text of its arithmetic value *)
Lemma cmd_calc_sound e v :
  cmd_calc_expr e = RVal v -> exists z, denote e = Some z /\ v = show_Z z /\ (- two53 <= z <= two53)%Z.
Proof.
  unfold cmd_calc_expr. destruct (eval_expr e) as [z| |] eqn:E; try discriminate.
  destruct (Z.leb_spec (- two53) z) as [L1|L1]; [|discriminate].
  destruct (Z.leb_spec z two53) as [L2|L2]; [|discriminate]. cbn [andb]. intros X. inversion X.
  exists z. destruct (eval_expr_sound _ _ E) as [D _]. repeat split; (assumption || lia).
Qed.

(* ------------------------------------------------------------------------------------------- *)
(* more unit consistency                                                                         *)

(* last_indexof counts in the same unit as substring *)
Lemma units_last s t i :
  rfind s t = Some i -> s <> [] -> t <> [] ->
  exists p, substring3 s 0 (Z.of_N i) = RVal p /\ is_prefix (p ++ t) s = true.
Proof.
  intros F Hs Ht. destruct (rfind_some _ _ _ F) as (p & q & Ho & Hb & _). unfold occurs in Ho.
  exists p. split.
  - apply substring3_spec. split; [lia|]. split.
    + subst s. rewrite !blen_app. destruct t as [|c t']; [contradiction|].
      cbn [blen]. pose proof (utf8_len_bounds c). lia.
    + exists [], (t ++ q). cbn [app blen]. split; [exact Ho|]. split; [reflexivity|lia].
  - apply is_prefix_spec. exists q. rewrite <- app_assoc. exact Ho.
Qed.

(* the length of a substring is the difference of its indices, in the unit of [length] *)
Lemma substring3_length s a b m :
  substring3 s a b = RVal m -> Z.of_N (blen m) = (b - a)%Z.
Proof.
  intros H. apply substring3_spec in H. destruct H as (_ & _ & p & q & _ & Hp & Hpm).
  rewrite blen_app in Hpm. lia.
Qed.

(* cutting at an index found by indexof and gluing the two parts gives the text back:
   substring(s, 0, i) ++ substring(s, i) = s *)
Lemma units_cut s t i :
  find s t = Some i -> t <> [] ->
  exists p r, substring3 s 0 (Z.of_N i) = RVal p /\ substring2 s (Z.of_N i) = RVal r /\ s = p ++ r /\
              is_prefix t r = true.
Proof.
  intros F Ht. destruct (find_some _ _ _ F) as (p & q & Ho & Hb & _). unfold occurs in Ho.
  assert (s <> []) as Hs by (subst s; destruct p; destruct t; try discriminate; contradiction).
  destruct (units _ _ _ F Hs) as (p' & Hp' & _).
  assert (p' = p) as ->.
  { apply substring3_spec in Hp'. destruct Hp' as (_ & _ & p0 & q0 & Hs0 & Hp0 & Hpm0).
    assert (p0 = []) as -> by (apply blen_zero; lia). cbn [app] in *.
    rewrite Ho in Hs0. eapply app_same_length in Hs0; [destruct Hs0 as [-> _]; reflexivity|].
    (* same byte length of two prefixes of the same text: same prefix *)
    clear - Hs0 Hb Hpm0. revert p' Hs0 Hpm0 Hb. revert i.
    induction p as [|c p IH]; intros i p' Hs0 Hpm0 Hb.
    - cbn in Hb. subst i. destruct p' as [|c' p']; [reflexivity|].
      cbn [blen] in Hpm0. pose proof (utf8_len_bounds c'). lia.
    - destruct p' as [|c' p'].
      + cbn [blen] in *. pose proof (utf8_len_bounds c). lia.
      + cbn [app] in Hs0. inversion Hs0. subst c'. cbn [length]. f_equal.
        cbn [blen] in *. apply (IH (i - utf8_len c) p'); [assumption|lia|lia]. }
  exists p, (t ++ q). split; [exact Hp'|]. split; [|split; [exact Ho|]].
  - apply substring2_spec. left. split.
    + subst s. rewrite !blen_app. destruct t as [|c t']; [contradiction|].
      cbn [blen]. pose proof (utf8_len_bounds c). lia.
    + exists p. split; [exact Ho|lia].
  - apply is_prefix_spec. exists q. reflexivity.
Qed.

(* ------------------------------------------------------------------------------------------- *)
(* the exact language accepted by str::parse for a signed integer type                           *)

Lemma digits_val_acc_some ds : forall acc,
  (exists n, digits_val_acc ds acc = Some n) <-> forallb is_digit ds = true.
Proof.
  induction ds as [|c ds IH]; intros acc; cbn [digits_val_acc forallb].
  - split; [reflexivity|eauto].
  - destruct (is_digit c); cbn [andb]; [apply IH|].
    split; [intros (n & H); discriminate|discriminate].
Qed.

Definition sign_of (sg : str) (n : N) : Z := if str_eqb sg [45] then (- Z.of_N n)%Z else Z.of_N n.

Lemma parse_int_grammar lo hi s z :
  parse_int lo hi s = Some z <->
  exists sg ds n, s = sg ++ ds /\ (sg = [] \/ sg = [43] \/ sg = [45]) /\ ds <> [] /\
                  forallb is_digit ds = true /\ digits_val ds = Some n /\
                  z = sign_of sg n /\ (lo <= z <= hi)%Z.
Proof.
  split.
  - intros H. pose proof (parse_int_range _ _ _ _ H) as Hr. unfold parse_int in H.
    destruct s as [|c r]; [discriminate|].
    destruct (N.eqb_spec c 45) as [->|N45].
    + cbn [orb] in H. destruct r as [|x ds]; [discriminate|].
      destruct (digits_val (x :: ds)) as [n|] eqn:D; [|discriminate].
      exists [45], (x :: ds), n. split; [reflexivity|]. split; [auto|]. split; [discriminate|].
      split; [apply (digits_val_acc_some _ 0); eauto|]. split; [exact D|].
      split; [|exact Hr]. unfold sign_of. cbn.
      destruct ((lo <=? - Z.of_N n) && (- Z.of_N n <=? hi))%Z; [|discriminate]. inversion H. reflexivity.
    + destruct (N.eqb_spec c 43) as [->|N43].
      * cbn [orb] in H. destruct r as [|x ds]; [discriminate|].
        destruct (digits_val (x :: ds)) as [n|] eqn:D; [|discriminate].
        exists [43], (x :: ds), n. split; [reflexivity|]. split; [auto|]. split; [discriminate|].
        split; [apply (digits_val_acc_some _ 0); eauto|]. split; [exact D|].
        split; [|exact Hr]. unfold sign_of. cbn.
        destruct ((lo <=? Z.of_N n) && (Z.of_N n <=? hi))%Z; [|discriminate]. inversion H. reflexivity.
      * cbn [orb] in H.
        destruct (digits_val (c :: r)) as [n|] eqn:D; [|discriminate].
        exists [], (c :: r), n. split; [reflexivity|]. split; [auto|]. split; [discriminate|].
        split; [apply (digits_val_acc_some _ 0); eauto|]. split; [exact D|].
        split; [|exact Hr]. unfold sign_of. cbn.
        destruct ((lo <=? Z.of_N n) && (Z.of_N n <=? hi))%Z; [|discriminate]. inversion H. reflexivity.
  - intros (sg & ds & n & -> & Hsg & Hne & Hd & Hv & -> & Hr).
    destruct ds as [|x ds]; [contradiction|].
    assert (48 <= x) as Hx.
    { cbn [forallb] in Hd. apply andb_prop in Hd. destruct Hd as [Hd _]. unfold is_digit in Hd.
      apply andb_prop in Hd. destruct Hd as [Hd _]. apply N.leb_le in Hd. exact Hd. }
    unfold parse_int, sign_of in *.
    destruct Hsg as [->|[->| ->]]; cbn [app str_eqb N.eqb Pos.eqb andb orb] in *.
    + destruct (N.eqb_spec x 45); [lia|]. destruct (N.eqb_spec x 43); [lia|]. cbn [orb].
      rewrite Hv. destruct (Z.leb_spec lo (Z.of_N n)); [|lia]. destruct (Z.leb_spec (Z.of_N n) hi); [|lia]. reflexivity.
    + rewrite Hv. destruct (Z.leb_spec lo (Z.of_N n)); [|lia]. destruct (Z.leb_spec (Z.of_N n) hi); [|lia]. reflexivity.
    + rewrite Hv. destruct (Z.leb_spec lo (- Z.of_N n)); [|lia]. destruct (Z.leb_spec (- Z.of_N n) hi); [|lia]. reflexivity.
Qed.

(* ------------------------------------------------------------------------------------------- *)
(* split, recursively: cut at the first occurrence of the separator, continue after it           *)

Lemma blen_prefix_inj (p : str) : forall p' x y,
  p ++ x = p' ++ y -> blen p = blen p' -> p = p'.
Proof.
  induction p as [|c p IH]; intros p' x y E B.
  - destruct p' as [|c' p']; [reflexivity|]. cbn [blen] in B. pose proof (utf8_len_bounds c'). lia.
  - destruct p' as [|c' p'].
    + cbn [blen] in B. pose proof (utf8_len_bounds c). lia.
    + cbn [app] in E. inversion E. subst c'. f_equal. cbn [blen] in B. eapply IH; [eassumption|lia].
Qed.

Lemma split_go_skip t u : forall q cur, split_go t (u ++ q) cur (length u) = split_go t q cur O.
Proof. induction u as [|c u IH]; intros q cur; [reflexivity|]. cbn [app length split_go]. apply IH. Qed.

Lemma split_go_first t p : forall q cur,
  t <> [] ->
  (forall p1 r, p = p1 ++ r -> r <> [] -> is_prefix t (r ++ t ++ q) = false) ->
  split_go t (p ++ t ++ q) cur O = (rev cur ++ p) :: split_go t q [] O.
Proof.
  induction p as [|c p IH]; intros q cur Ht Hmin.
  - cbn [app]. rewrite app_nil_r. destruct t as [|x t']; [contradiction|].
    cbn [app split_go].
    assert (is_prefix (x :: t') (x :: t' ++ q) = true) as E by (apply is_prefix_spec; exists q; reflexivity).
    rewrite E. cbn [length Nat.sub]. rewrite Nat.sub_0_r, split_go_skip. reflexivity.
  - cbn [app split_go].
    pose proof (Hmin [] (c :: p) eq_refl ltac:(discriminate)) as X. cbn [app] in X. rewrite X.
    rewrite IH; [|exact Ht|].
    + cbn [rev]. rewrite <- app_assoc. reflexivity.
    + intros p1 r -> Hr. apply (Hmin (c :: p1) r); [reflexivity|exact Hr].
Qed.

Lemma split_rec s t :
  t <> [] ->
  (find s t = None -> Strings.split s t = [s]) /\
  (forall p q, s = p ++ t ++ q -> find s t = Some (blen p) -> Strings.split s t = p :: Strings.split q t).
Proof.
  intros Ht. destruct t as [|x t']; [contradiction|]. unfold Strings.split. split.
  - intros F. rewrite split_go_absent by exact F. reflexivity.
  - intros p q -> F.
    rewrite split_go_first; [reflexivity|discriminate|].
    intros p1 r -> Hr.
    destruct (is_prefix (x :: t') (r ++ (x :: t') ++ q)) eqn:E; [|reflexivity]. exfalso.
    apply is_prefix_spec in E. destruct E as (q' & E).
    destruct (find_some _ _ _ F) as (p0 & q0 & Ho & Hb & Hmin). unfold occurs in Ho.
    assert (p0 = p1 ++ r) as -> by (symmetry; eapply blen_prefix_inj; [exact Ho|congruence]).
    specialize (Hmin p1 q'). unfold occurs in Hmin.
    rewrite <- app_assoc, E in Hmin. specialize (Hmin eq_refl).
    rewrite app_length in Hmin. destruct r; [contradiction|]. cbn [length] in Hmin. lia.
Qed.

(* ------------------------------------------------------------------------------------------- *)
(* substring at the command level, three or more arguments                                       *)

Lemma cmd_substring3_iff s a b rest m :
  cmd_substring (s :: a :: b :: rest) = RVal m <->
  exists st en, parse_isize a = Some st /\ parse_isize b = Some en /\ substring3 s st en = RVal m.
Proof.
  split.
  - intros H. unfold cmd_substring in H.
    destruct (parse_isize a) as [st|] eqn:Ea; [|discriminate].
    destruct (st <? 0)%Z eqn:E1; [discriminate|].
    destruct (Z.of_N (blen s) - 1 <? st)%Z eqn:E2; [discriminate|].
    destruct (parse_isize b) as [en|] eqn:Eb; [|discriminate].
    exists st, en. repeat split. exact H.
  - intros (st & en & Ha & Hb & H). rewrite (cmd_substring3 s a b rest st en Ha Hb). exact H.
Qed.
