(* FsProof.v — C18: the commands' decision logic (M) refines the reference tree (S) on the
   property's domain outside the classes of known findings; S keeps the tree well formed. *)
From Coq Require Import NArith List Lia.
From stdpp Require Import gmap list.
Require Import DS.FsTree.

(* ---- keys ----------------------------------------------------------------------------------- *)
Lemma str_eqb_eq a b : str_eqb a b = true <-> a = b.
Proof.
  revert b; induction a as [|x a IH]; intros [|y b]; cbn; try (split; congruence).
  rewrite andb_true_iff, IH, N.eqb_eq. split; [intros [-> ->]; done|intros [= -> ->]; done].
Qed.
Lemma str_eqb_refl a : str_eqb a a = true.
Proof. by apply str_eqb_eq. Qed.

Lemma is_prefix_spec a b : is_prefix a b = true <-> a `prefix_of` b.
Proof.
  revert b; induction a as [|x a IH]; intros b; cbn.
  - split; [intros _; apply prefix_nil|done].
  - destruct b as [|y b].
    + split; [done|]. intros H. by apply prefix_nil_not in H.
    + rewrite andb_true_iff, str_eqb_eq, IH. split.
      * intros [-> H]. by apply prefix_cons.
      * intros H. split; [by eapply prefix_cons_inv_1|by eapply prefix_cons_inv_2].
Qed.
Lemma is_prefix_false a b : is_prefix a b = false <-> ~ a `prefix_of` b.
Proof. rewrite <- is_prefix_spec. destruct (is_prefix a b); split; congruence. Qed.

Lemma strict_prefix_spec a b : strict_prefix a b = true <-> a `prefix_of` b /\ a <> b.
Proof.
  unfold strict_prefix. rewrite andb_true_iff, is_prefix_spec, negb_true_iff, Nat.eqb_neq.
  split; intros [Hp Hn]; split; try done.
  - intros ->. done.
  - intros Hl. apply Hn. destruct Hp as [k ->]. rewrite app_length in Hl.
    destruct k; [by rewrite app_nil_r|cbn in Hl; lia].
Qed.

Lemma parent_cons x (k : key) : k <> [] -> parent (x :: k) = x :: parent k.
Proof. destruct k; done. Qed.
Lemma parent_snoc k x : parent (k ++ [x]) = k.
Proof.
  induction k as [|y k IH]; [done|]. cbn [app]. rewrite parent_cons, IH; [done|by destruct k].
Qed.
Lemma key_snoc (k : key) : k <> [] -> exists x, last k = Some x /\ k = parent k ++ [x].
Proof.
  intros Hk. destruct (exists_last Hk) as (k' & x & ->).
  exists x. by rewrite last_snoc, parent_snoc.
Qed.
Lemma parent_prefix k : parent k `prefix_of` k.
Proof.
  destruct k as [|x k]; [done|]. destruct (key_snoc (x :: k)) as (y & _ & E); [done|].
  rewrite E at 2. by apply prefix_app_r.
Qed.
Lemma parent_ne k : k <> [] -> parent k <> k.
Proof.
  intros Hk E. destruct (key_snoc k Hk) as (y & _ & E'). rewrite E in E'.
  apply (f_equal length) in E'. rewrite app_length in E'. cbn in E'. lia.
Qed.
(* a proper prefix is a prefix of the parent *)
Lemma prefix_parent p k : p `prefix_of` k -> p <> k -> p `prefix_of` parent k.
Proof.
  intros [r ->] Hn. destruct (decide (r = [])) as [->|Hr]; [by rewrite app_nil_r in Hn|].
  destruct (key_snoc r Hr) as (z & _ & Er). rewrite Er, app_assoc, parent_snoc. by apply prefix_app_r.
Qed.

Lemma elem_of_prefixes p k : p ∈ prefixes k <-> p <> [] /\ p `prefix_of` k.
Proof.
  revert p; induction k as [|x k IH]; intros p; cbn [prefixes].
  - rewrite elem_of_nil. split; [done|]. intros [Hn Hp]. by apply prefix_nil_inv in Hp.
  - rewrite elem_of_cons, elem_of_list_fmap. split.
    + intros [->|(q & -> & Hq)].
      * split; [done|]. apply prefix_cons, prefix_nil.
      * apply IH in Hq as [_ Hq]. split; [done|by apply prefix_cons].
    + intros [Hn Hp]. destruct p as [|y p]; [done|].
      pose proof (prefix_cons_inv_1 _ _ _ _ Hp) as ->. apply prefix_cons_inv_2 in Hp.
      destruct p as [|z p]; [by left|]. right. exists (z :: p). split; [done|]. apply IH. done.
Qed.
Lemma self_in_prefixes k : k <> [] -> k ∈ prefixes k.
Proof. intros. by apply elem_of_prefixes. Qed.

(* ---- mkdirs ---------------------------------------------------------------------------------- *)
Lemma foldr_dirs_lookup (l : list key) (t : tree) q :
  foldr (fun p m => <[p := Dir]> m) t l !! q = if decide (q ∈ l) then Some Dir else t !! q.
Proof.
  induction l as [|d l IH]; cbn [foldr].
  - destruct (decide (q ∈ [])) as [Hx|]; [by apply elem_of_nil in Hx|done].
  - destruct (decide (q = d)) as [->|Hne].
    + rewrite lookup_insert. destruct (decide (d ∈ d :: l)) as [|Hx]; [done|].
      exfalso; apply Hx; apply elem_of_list_here.
    + rewrite lookup_insert_ne by congruence. rewrite IH.
      destruct (decide (q ∈ l)) as [Hl|Hl], (decide (q ∈ d :: l)) as [Hd|Hd]; try done.
      * exfalso. apply Hd. by apply elem_of_list_further.
      * exfalso. apply elem_of_cons in Hd as [|]; done.
Qed.

Lemma mkdirs_Some k t t' :
  mkdirs k t = Some t' <->
  (forall p, p ∈ prefixes k -> is_file_at t p = false) /\
  t' = foldr (fun p m => <[p := Dir]> m) t (prefixes k).
Proof.
  unfold mkdirs. destruct (existsb _ _) eqn:E.
  - split; [done|]. intros [H _]. apply existsb_exists in E as (p & Hp & Hf).
    apply elem_of_list_In in Hp. rewrite H in Hf; done.
  - split.
    + intros [= <-]. split; [|done]. intros p Hp.
      destruct (is_file_at t p) eqn:F; [|done].
      assert (existsb (is_file_at t) (prefixes k) = true); [|congruence].
      apply existsb_exists. exists p. split; [by apply elem_of_list_In|done].
    + intros [_ ->]. done.
Qed.
Lemma mkdirs_None k t :
  mkdirs k t = None <-> exists p, p ∈ prefixes k /\ is_file_at t p = true.
Proof.
  unfold mkdirs. destruct (existsb _ _) eqn:E.
  - split; [|done]. intros _. apply existsb_exists in E as (p & Hp & Hf).
    exists p. split; [by apply elem_of_list_In|done].
  - split; [done|]. intros (p & Hp & Hf).
    assert (existsb (is_file_at t) (prefixes k) = true); [|congruence].
    apply existsb_exists. exists p. split; [by apply elem_of_list_In|done].
Qed.
Lemma mkdirs_lookup k t t' q :
  mkdirs k t = Some t' -> t' !! q = if decide (q ∈ prefixes k) then Some Dir else t !! q.
Proof. intros [_ ->]%mkdirs_Some. apply foldr_dirs_lookup. Qed.
Lemma mkdirs_nil t : mkdirs [] t = Some t.
Proof. done. Qed.
Lemma mkdirs_keeps k t t' q n : mkdirs k t = Some t' -> t !! q = Some n -> t' !! q = Some n.
Proof.
  intros H Hq. rewrite (mkdirs_lookup _ _ _ _ H). destruct (decide _) as [Hin|]; [|done].
  apply mkdirs_Some in H as [Hf _]. specialize (Hf _ Hin). unfold is_file_at in Hf.
  rewrite Hq in Hf. destruct n; [done|done].
Qed.
Lemma mkdirs_is_dir k t t' : mkdirs k t = Some t' -> is_dir_at t' k = true.
Proof.
  intros H. destruct k as [|x k]; [done|]. unfold is_dir_at.
  rewrite (mkdirs_lookup _ _ _ _ H). rewrite decide_True; [done|]. by apply self_in_prefixes.
Qed.
Lemma mkdirs_other k t t' q : mkdirs k t = Some t' -> ~ q `prefix_of` k -> t' !! q = t !! q.
Proof.
  intros H Hq. rewrite (mkdirs_lookup _ _ _ _ H). rewrite decide_False; [done|].
  intros [_ ?]%elem_of_prefixes. done.
Qed.

(* ---- well-formed trees ------------------------------------------------------------------------ *)
Lemma wf_empty : wf ∅.
Proof. split; [done|]. intros k n H. by rewrite lookup_empty in H. Qed.

Lemma is_dir_at_lookup t k : k <> [] -> is_dir_at t k = true <-> t !! k = Some Dir.
Proof.
  intros Hk. unfold is_dir_at. destruct k; [done|].
  destruct (t !! _) as [[]|]; split; congruence.
Qed.
Lemma wf_parent_dir t k n : wf t -> t !! k = Some n -> is_dir_at t (parent k) = true.
Proof.
  intros [H0 Hw] Hk. destruct (decide (parent k = [])) as [->|Hp]; [done|].
  apply is_dir_at_lookup; [done|]. apply (Hw _ _ Hk); [apply parent_prefix|done|].
  apply parent_ne. intros ->. by apply Hp.
Qed.
Lemma wf_below_file t k b q : wf t -> t !! k = Some (File b) -> k `prefix_of` q -> q <> k -> t !! q = None.
Proof.
  intros [H0 Hw] Hk Hp Hn. destruct (t !! q) as [n|] eqn:E; [|done].
  assert (k <> []) by (intros ->; congruence).
  rewrite (Hw _ _ E k Hp) in Hk; [done|done|congruence].
Qed.
Lemma wf_below_none t k q : wf t -> t !! k = None -> k <> [] -> k `prefix_of` q -> t !! q = None.
Proof.
  intros [H0 Hw] Hk Hk0 Hp. destruct (t !! q) as [n|] eqn:E; [|done].
  destruct (decide (q = k)) as [->|Hn]; [congruence|].
  rewrite (Hw _ _ E k Hp) in Hk; [done|done|congruence].
Qed.
Lemma wf_dir_prefixes t k p : wf t -> is_dir_at t k = true -> p ∈ prefixes k -> t !! p = Some Dir.
Proof.
  intros Hwf Hd [Hp0 Hp]%elem_of_prefixes.
  assert (k <> []) as Hk by (intros ->; by apply prefix_nil_inv in Hp).
  apply is_dir_at_lookup in Hd; [|done].
  destruct (decide (p = k)) as [->|Hn]; [done|]. destruct Hwf as [_ Hw]. by apply (Hw _ _ Hd).
Qed.
Lemma mkdirs_id t k : wf t -> is_dir_at t k = true -> mkdirs k t = Some t.
Proof.
  intros Hwf Hd. apply mkdirs_Some. split.
  - intros p Hp. unfold is_file_at. by rewrite (wf_dir_prefixes _ _ _ Hwf Hd Hp).
  - apply map_eq. intros q. rewrite foldr_dirs_lookup. destruct (decide _) as [Hin|]; [|done].
    by rewrite (wf_dir_prefixes _ _ _ Hwf Hd Hin).
Qed.
Lemma mkdirs_wf k t t' : wf t -> mkdirs k t = Some t' -> wf t'.
Proof.
  intros [H0 Hw] H. split.
  - rewrite (mkdirs_lookup _ _ _ _ H). rewrite decide_False; [done|]. by intros [? _]%elem_of_prefixes.
  - intros q n Hq p Hp Hp0 Hpq. rewrite (mkdirs_lookup _ _ _ _ H) in Hq. rewrite (mkdirs_lookup _ _ _ p H).
    destruct (decide (q ∈ prefixes k)) as [Hin|Hin].
    + rewrite decide_True; [done|]. apply elem_of_prefixes in Hin as [_ Hqk].
      apply elem_of_prefixes. split; [done|]. by etrans.
    + destruct (decide (p ∈ prefixes k)); [done|]. by apply (Hw _ _ Hq).
Qed.
(* when a file blocks k itself but k is not a file, it already blocks the parent *)
Lemma mkdirs_None_parent k t :
  mkdirs k t = None -> is_file_at t k = false -> mkdirs (parent k) t = None.
Proof.
  intros (p & [Hp0 Hp]%elem_of_prefixes & Hf)%mkdirs_None Hk. apply mkdirs_None. exists p. split; [|done].
  apply elem_of_prefixes. split; [done|]. apply prefix_parent; [done|]. intros ->. congruence.
Qed.

Lemma wf_insert_file t k b :
  wf t -> k <> [] -> is_dir_at t (parent k) = true -> is_dir_at t k = false -> wf (<[k := File b]> t).
Proof.
  intros [H0 Hw] Hk Hpar Hnd. split.
  - by rewrite lookup_insert_ne.
  - intros q n Hq p Hp Hp0 Hpq. destruct (decide (q = k)) as [->|Hqk].
    + assert (p <> k) by done. rewrite lookup_insert_ne by done.
      pose proof (prefix_parent _ _ Hp Hpq) as Hpp.
      assert (parent k <> []) as Hpk by (intros E; rewrite E in Hpp; by apply prefix_nil_inv in Hpp).
      apply is_dir_at_lookup in Hpar; [|done].
      destruct (decide (p = parent k)) as [->|Hne]; [done|]. by apply (Hw _ _ Hpar).
    + rewrite lookup_insert_ne in Hq by done.
      assert (p <> k).
      { intros ->. assert (is_dir_at t k = true); [|congruence].
        apply is_dir_at_lookup; [done|]. by apply (Hw _ _ Hq). }
      rewrite lookup_insert_ne by done. by apply (Hw _ _ Hq).
Qed.
(* overwriting a file with a file *)
Lemma wf_insert_over t k b c : wf t -> t !! k = Some (File c) -> wf (<[k := File b]> t).
Proof.
  intros Hwf Hk. assert (k <> []) by (intros ->; destruct Hwf; congruence).
  apply wf_insert_file; [done|done|by eapply wf_parent_dir|].
  destruct (is_dir_at t k) eqn:E; [|done]. apply is_dir_at_lookup in E; [congruence|done].
Qed.

Lemma dir_empty_spec t k :
  dir_empty t k = true <-> forall q n, t !! q = Some n -> k `prefix_of` q -> q = k.
Proof.
  unfold dir_empty. rewrite forallb_forall. split.
  - intros H q n Hq Hp. destruct (decide (q = k)); [done|].
    specialize (H (q, n)). rewrite <- elem_of_list_In, elem_of_map_to_list in H.
    specialize (H Hq). cbn in H. apply negb_true_iff in H.
    assert (strict_prefix k q = true); [by apply strict_prefix_spec|congruence].
  - intros H [q n] Hin. apply elem_of_list_In, elem_of_map_to_list in Hin. cbn.
    apply negb_true_iff. destruct (strict_prefix k q) eqn:E; [|done].
    apply strict_prefix_spec in E as [Hp Hn]. by rewrite (H _ _ Hin Hp) in Hn.
Qed.
Lemma wf_delete_leaf t k :
  wf t -> (forall q n, t !! q = Some n -> k `prefix_of` q -> q = k) -> wf (delete k t).
Proof.
  intros [H0 Hw] Hleaf. split.
  - destruct (decide (k = [])) as [->|]; [by rewrite lookup_delete|by rewrite lookup_delete_ne].
  - intros q n Hq p Hp Hp0 Hpq. apply lookup_delete_Some in Hq as [Hqk Hq].
    assert (p <> k) by (intros ->; apply Hqk; symmetry; by eapply Hleaf).
    rewrite lookup_delete_ne by done. by apply (Hw _ _ Hq).
Qed.
Lemma remove_subtree_lookup k t q :
  remove_subtree k t !! q = if is_prefix k q then None else t !! q.
Proof.
  unfold remove_subtree. destruct (is_prefix k q) eqn:E.
  - apply map_filter_lookup_None. right. intros n _. cbn. congruence.
  - destruct (t !! q) as [n|] eqn:Hq.
    + apply map_filter_lookup_Some. done.
    + apply map_filter_lookup_None. by left.
Qed.
Lemma wf_remove_subtree t k : wf t -> k <> [] -> wf (remove_subtree k t).
Proof.
  intros [H0 Hw] Hk. split.
  - rewrite remove_subtree_lookup. by destruct (is_prefix k []).
  - intros q n Hq p Hp Hp0 Hpq. rewrite remove_subtree_lookup in Hq |- *.
    destruct (is_prefix k q) eqn:E; [done|]. apply is_prefix_false in E.
    destruct (is_prefix k p) eqn:E'; [|by apply (Hw _ _ Hq)].
    apply is_prefix_spec in E'. exfalso. apply E. by etrans.
Qed.

(* ---- paths in the domain ---------------------------------------------------------------------- *)
Lemma path_ok_nonempty p : path_ok p = true -> pk p <> [].
Proof. unfold path_ok. destruct (pk p); done. Qed.
Lemma path_ok_ends_sep p : path_ok p = true -> ends_sep p = ptr p.
Proof.
  unfold path_ok, ends_sep. intros [_ Hn]%andb_true_iff.
  destruct (last (pk p)) as [name|] eqn:El; [|by rewrite orb_false_r].
  destruct (last name) as [c|] eqn:Ec; [|by rewrite orb_false_r].
  rewrite forallb_forall in Hn. apply last_Some_elem_of, elem_of_list_In in El. specialize (Hn _ El).
  unfold name_ok in Hn. apply andb_true_iff in Hn as [_ Hc]. rewrite forallb_forall in Hc.
  apply last_Some_elem_of, elem_of_list_In in Ec. specialize (Hc _ Ec).
  apply negb_true_iff, orb_false_iff in Hc as [[_ Hb]%orb_false_iff _].
  rewrite Hb. by rewrite orb_false_r.
Qed.
Lemma not_prefix_parent (k : key) : k <> [] -> ~ k `prefix_of` parent k.
Proof.
  intros Hk Hp. apply prefix_length in Hp. destruct (key_snoc k Hk) as (x & _ & E).
  rewrite E in Hp at 1. rewrite app_length in Hp. cbn in Hp. lia.
Qed.
Lemma not_prefix_snoc (k : key) x : ~ (k ++ [x]) `prefix_of` k.
Proof. intros Hp%prefix_length. rewrite app_length in Hp. cbn in Hp. lia. Qed.

Lemma stat_file p t b : stat p t = Some (File b) <-> t !! pk p = Some (File b) /\ ptr p = false.
Proof.
  unfold stat. destruct (t !! pk p) as [[c|]|]; [destruct (ptr p)|..]; split; try done.
  - by intros [= ->].
  - by intros [[= ->] _].
  - by intros [? _].
  - by intros [? _].
Qed.
Lemma stat_dir p t : stat p t = Some Dir <-> t !! pk p = Some Dir.
Proof. unfold stat. destruct (t !! pk p) as [[c|]|]; [destruct (ptr p)|..]; split; done. Qed.
Lemma stat_none p t :
  stat p t = None <-> t !! pk p = None \/ (exists b, t !! pk p = Some (File b) /\ ptr p = true).
Proof.
  unfold stat. destruct (t !! pk p) as [[c|]|]; [destruct (ptr p)|..]; split; try done.
  - intros _. right. by exists c.
  - intros [|(b & _ & ?)]; done.
  - intros [|(b & ? & ?)]; done.
  - by left.
Qed.

(* ---- the primitives under the conditions the commands establish ------------------------------- *)
Lemma dir_create_spec t k :
  wf t -> f_dir_create k t = match mkdirs k t with Some t1 => (true, t1) | None => (false, t) end.
Proof.
  intros Hwf. unfold f_dir_create, p_create_dir_all.
  destruct (is_dir_at t k) eqn:E; [by rewrite mkdirs_id|done].
Qed.
Lemma create_parent_spec t p :
  wf t ->
  f_create_parent p t = match mkdirs (parent (pk p)) t with Some t1 => (true, t1) | None => (false, t) end.
Proof.
  intros Hwf. unfold f_create_parent. destruct (parent (pk p)) eqn:E; [done|]. by apply dir_create_spec.
Qed.
Lemma open_trunc_unfold p b t :
  pk p <> [] ->
  p_open_trunc p b t =
    if ptr p then (false, t)
    else if is_dir_at t (parent (pk p)) && negb (is_dir_at t (pk p)) then (true, <[pk p := File b]> t)
    else (false, t).
Proof. intros H. unfold p_open_trunc. destruct (pk p); done. Qed.
Lemma put_file_unfold p b t :
  pk p <> [] ->
  put_file p b t =
    if ptr p then None
    else match mkdirs (parent (pk p)) t with
         | None => None
         | Some t1 => if is_dir_at t1 (pk p) then None else Some (<[pk p := File b]> t1)
         end.
Proof. intros H. unfold put_file. destruct (pk p); done. Qed.
Lemma open_trunc_ok p b t :
  ptr p = false -> pk p <> [] -> is_dir_at t (parent (pk p)) = true -> is_dir_at t (pk p) = false ->
  p_open_trunc p b t = (true, <[pk p := File b]> t).
Proof. intros Hp Hk Hd Hn. rewrite open_trunc_unfold by done. by rewrite Hp, Hd, Hn. Qed.
Lemma open_trunc_ptr p b t : ptr p = true -> p_open_trunc p b t = (false, t).
Proof. intros Hp. unfold p_open_trunc. by rewrite Hp. Qed.
Lemma open_trunc_dir p b t : pk p <> [] -> is_dir_at t (pk p) = true -> p_open_trunc p b t = (false, t).
Proof.
  intros Hk Hd. rewrite open_trunc_unfold by done. rewrite Hd, andb_false_r. by destruct (ptr p).
Qed.
Lemma is_dir_at_insert_ne t (k q : key) n : q <> k -> is_dir_at (<[k := n]> t) q = is_dir_at t q.
Proof. intros Hq. unfold is_dir_at. destruct q; [done|]. by rewrite lookup_insert_ne. Qed.
Lemma is_dir_at_insert_file t (k : key) b : k <> [] -> is_dir_at (<[k := File b]> t) k = false.
Proof. intros Hk. unfold is_dir_at. destruct k; [done|]. by rewrite lookup_insert. Qed.
Lemma is_dir_at_false_lookup t (k : key) : is_dir_at t k = false -> t !! k <> Some Dir.
Proof. unfold is_dir_at. destruct k; [done|]. destruct (t !! _) as [[]|]; done. Qed.
Lemma lookup_not_dir t (k : key) : k <> [] -> t !! k <> Some Dir -> is_dir_at t k = false.
Proof. intros Hk H. unfold is_dir_at. destruct k; [done|]. destruct (t !! _) as [[]|]; done. Qed.

Lemma p_copy_ok a b c t :
  t !! pk a = Some (File c) -> ptr a = false -> ptr b = false -> pk b <> [] ->
  is_dir_at t (parent (pk b)) = true -> is_dir_at t (pk b) = false ->
  p_copy a b t = (true, <[pk b := File (if decide (pk a = pk b) then [] else c)]> t).
Proof.
  intros Hl Hpa Hpb Hkb Hd Hn. unfold p_copy, p_read.
  rewrite (proj2 (stat_file a t c)) by done. rewrite open_trunc_ok by done.
  set (t1 := <[pk b := File []]> t).
  assert (stat a t1 = Some (File (if decide (pk a = pk b) then [] else c))) as ->.
  { apply stat_file. split; [|done]. unfold t1. destruct (decide (pk a = pk b)) as [->|Hne].
    - by rewrite lookup_insert.
    - by rewrite lookup_insert_ne. }
  rewrite open_trunc_ok; [|done|done|..].
  - unfold t1. by rewrite insert_insert.
  - unfold t1. rewrite is_dir_at_insert_ne; [done|by apply parent_ne].
  - unfold t1. by apply is_dir_at_insert_file.
Qed.
Lemma p_copy_fail a b c t :
  t !! pk a = Some (File c) -> ptr a = false -> pk b <> [] ->
  ptr b = true \/ is_dir_at t (pk b) = true -> p_copy a b t = (false, t).
Proof.
  intros Hl Hpa Hkb H. unfold p_copy, p_read. rewrite (proj2 (stat_file a t c)) by done.
  destruct H as [H|H]; [by rewrite open_trunc_ptr|by rewrite open_trunc_dir].
Qed.
Lemma move_file_ok a b c ow t :
  t !! pk a = Some (File c) -> ptr a = false -> ptr b = false -> pk b <> [] ->
  is_dir_at t (parent (pk b)) = true -> is_dir_at t (pk b) = false ->
  ow = true \/ t !! pk b = None ->
  x_move_file a b ow t = (true, delete (pk a) (<[pk b := File c]> t)).
Proof.
  intros Hl Hpa Hpb Hkb Hd Hn How. unfold x_move_file, x_file_copy, p_exists, p_is_file.
  rewrite (proj2 (stat_file a t c)) by done. cbn [negb].
  assert (negb ow && match stat b t with Some _ => true | None => false end = false) as ->.
  { destruct How as [->|Hb]; [done|]. rewrite (proj2 (stat_none b t)); [by rewrite andb_false_r|by left]. }
  rewrite (p_copy_ok a b c) by done. unfold p_remove_file.
  destruct (decide (pk a = pk b)) as [E|Hne].
  - rewrite (proj2 (stat_file a _ [])); [|split; [rewrite E; by rewrite lookup_insert|done]].
    rewrite E. by rewrite !delete_insert_delete.
  - rewrite (proj2 (stat_file a _ c)); [done|]. split; [by rewrite lookup_insert_ne|done].
Qed.

(* ---- S, unfolded -------------------------------------------------------------------------------- *)
Lemma put_file_Some p b t t' :
  put_file p b t = Some t' ->
  exists t1, mkdirs (parent (pk p)) t = Some t1 /\ ptr p = false /\ pk p <> [] /\
             is_dir_at t1 (pk p) = false /\ t' = <[pk p := File b]> t1.
Proof.
  unfold put_file. destruct (ptr p); [done|]. destruct (pk p) as [|x l] eqn:E; [done|].
  destruct (mkdirs _ _) as [t1|]; [|done]. destruct (is_dir_at t1 _) eqn:Ed; [done|].
  intros [= <-]. exists t1. done.
Qed.
Lemma S_mv_unfold a b t c :
  stat a t = Some (File c) ->
  S_mv a b t = match put_file (mv_target a b t) c t with
               | Some t1 => (OVal s_true, delete (pk a) t1)
               | None => (OErr, t)
               end.
Proof.
  intros Es. unfold S_mv, S_cp. rewrite Es. destruct (put_file _ _ _) as [t'|] eqn:Ep; [|done].
  apply put_file_Some in Ep as (t1 & Hm & Hp & Hk & Hd & ->). apply stat_file in Es as [Hl Hpa].
  unfold S_rm_one. destruct (decide (pk a = pk (mv_target a b t))) as [E|Hne].
  - rewrite (proj2 (stat_file a _ c)); [done|]. split; [rewrite E; by rewrite lookup_insert|done].
  - rewrite (proj2 (stat_file a _ c)); [done|]. split; [|done].
    rewrite lookup_insert_ne by done. by eapply mkdirs_keeps.
Qed.
