(* FsProof.v — C18: the commands' decision logic (M) refines the reference tree (S) on the
   property's domain outside the classes of known findings; S keeps the tree well formed. *)
From Coq Require Import NArith List Lia.
From stdpp Require Import gmap list.
Require Import DS.FsTree.

(* ---- keys ----------------------------------------------------------------------------------- *)
Lemma str_eqb_eq a b : str_eqb a b = true <-> a = b.
Proof.
  revert b; induction a as [|x a IH]; intros [|y b]; cbn; try (split; congruence).
  rewrite andb_true_iff, IH, N.eqb_eq. split; [intros [-> ->]; done|intros [= -> ->]; done].
Qed.
Lemma str_eqb_refl a : str_eqb a a = true.
Proof. by apply str_eqb_eq. Qed.

Lemma is_prefix_spec a b : is_prefix a b = true <-> a `prefix_of` b.
Proof.
  revert b; induction a as [|x a IH]; intros b; cbn.
  - split; [intros _; apply prefix_nil|done].
  - destruct b as [|y b].
    + split; [done|]. intros H. by apply prefix_nil_not in H.
    + rewrite andb_true_iff, str_eqb_eq, IH. split.
      * intros [-> H]. by apply prefix_cons.
      * intros H. split; [by eapply prefix_cons_inv_1|by eapply prefix_cons_inv_2].
Qed.
Lemma is_prefix_false a b : is_prefix a b = false <-> ~ a `prefix_of` b.
Proof. rewrite <- is_prefix_spec. destruct (is_prefix a b); split; congruence. Qed.

Lemma strict_prefix_spec a b : strict_prefix a b = true <-> a `prefix_of` b /\ a <> b.
Proof.
  unfold strict_prefix. rewrite andb_true_iff, is_prefix_spec, negb_true_iff, Nat.eqb_neq.
  split; intros [Hp Hn]; split; try done.
  - intros ->. done.
  - intros Hl. apply Hn. destruct Hp as [k ->]. rewrite app_length in Hl.
    destruct k; [by rewrite app_nil_r|cbn in Hl; lia].
Qed.

Lemma parent_cons x (k : key) : k <> [] -> parent (x :: k) = x :: parent k.
Proof. destruct k; done. Qed.
Lemma parent_snoc k x : parent (k ++ [x]) = k.
Proof.
  induction k as [|y k IH]; [done|]. cbn [app]. rewrite parent_cons, IH; [done|by destruct k].
Qed.
Lemma key_snoc (k : key) : k <> [] -> exists x, last k = Some x /\ k = parent k ++ [x].
Proof.
  intros Hk. destruct (exists_last Hk) as (k' & x & ->).
  exists x. by rewrite last_snoc, parent_snoc.
Qed.
Lemma parent_prefix k : parent k `prefix_of` k.
Proof.
  destruct k as [|x k]; [done|]. destruct (key_snoc (x :: k)) as (y & _ & E); [done|].
  rewrite E at 2. by apply prefix_app_r.
Qed.
Lemma parent_ne k : k <> [] -> parent k <> k.
Proof.
  intros Hk E. destruct (key_snoc k Hk) as (y & _ & E'). rewrite E in E'.
  apply (f_equal length) in E'. rewrite app_length in E'. cbn in E'. lia.
Qed.
(* a proper prefix is a prefix of the parent *)
Lemma prefix_parent p k : p `prefix_of` k -> p <> k -> p `prefix_of` parent k.
Proof.
  intros [r ->] Hn. destruct (decide (r = [])) as [->|Hr]; [by rewrite app_nil_r in Hn|].
  destruct (key_snoc r Hr) as (z & _ & Er). rewrite Er, app_assoc, parent_snoc. by apply prefix_app_r.
Qed.

Lemma elem_of_prefixes p k : p ∈ prefixes k <-> p <> [] /\ p `prefix_of` k.
Proof.
  revert p; induction k as [|x k IH]; intros p; cbn [prefixes].
  - rewrite elem_of_nil. split; [done|]. intros [Hn Hp]. by apply prefix_nil_inv in Hp.
  - rewrite elem_of_cons, elem_of_list_fmap. split.
    + intros [->|(q & -> & Hq)].
      * split; [done|]. apply prefix_cons, prefix_nil.
      * apply IH in Hq as [_ Hq]. split; [done|by apply prefix_cons].
    + intros [Hn Hp]. destruct p as [|y p]; [done|].
      pose proof (prefix_cons_inv_1 _ _ _ _ Hp) as ->. apply prefix_cons_inv_2 in Hp.
      destruct p as [|z p]; [by left|]. right. exists (z :: p). split; [done|]. apply IH. done.
Qed.
Lemma self_in_prefixes k : k <> [] -> k ∈ prefixes k.
Proof. intros. by apply elem_of_prefixes. Qed.

(* ---- mkdirs ---------------------------------------------------------------------------------- *)
Lemma foldr_dirs_lookup (l : list key) (t : tree) q :
  foldr (fun p m => <[p := Dir]> m) t l !! q = if decide (q ∈ l) then Some Dir else t !! q.
Proof.
  induction l as [|d l IH]; cbn [foldr].
  - destruct (decide (q ∈ [])) as [Hx|]; [by apply elem_of_nil in Hx|done].
  - destruct (decide (q = d)) as [->|Hne].
    + rewrite lookup_insert. destruct (decide (d ∈ d :: l)) as [|Hx]; [done|].
      exfalso; apply Hx; apply elem_of_list_here.
    + rewrite lookup_insert_ne by congruence. rewrite IH.
      destruct (decide (q ∈ l)) as [Hl|Hl], (decide (q ∈ d :: l)) as [Hd|Hd]; try done.
      * exfalso. apply Hd. by apply elem_of_list_further.
      * exfalso. apply elem_of_cons in Hd as [|]; done.
Qed.

Lemma mkdirs_Some k t t' :
  mkdirs k t = Some t' <->
  (forall p, p ∈ prefixes k -> is_file_at t p = false) /\
  t' = foldr (fun p m => <[p := Dir]> m) t (prefixes k).
Proof.
  unfold mkdirs. destruct (existsb _ _) eqn:E.
  - split; [done|]. intros [H _]. apply existsb_exists in E as (p & Hp & Hf).
    apply elem_of_list_In in Hp. rewrite H in Hf; done.
  - split.
    + intros [= <-]. split; [|done]. intros p Hp.
      destruct (is_file_at t p) eqn:F; [|done].
      assert (existsb (is_file_at t) (prefixes k) = true); [|congruence].
      apply existsb_exists. exists p. split; [by apply elem_of_list_In|done].
    + intros [_ ->]. done.
Qed.
Lemma mkdirs_None k t :
  mkdirs k t = None <-> exists p, p ∈ prefixes k /\ is_file_at t p = true.
Proof.
  unfold mkdirs. destruct (existsb _ _) eqn:E.
  - split; [|done]. intros _. apply existsb_exists in E as (p & Hp & Hf).
    exists p. split; [by apply elem_of_list_In|done].
  - split; [done|]. intros (p & Hp & Hf).
    assert (existsb (is_file_at t) (prefixes k) = true); [|congruence].
    apply existsb_exists. exists p. split; [by apply elem_of_list_In|done].
Qed.
Lemma mkdirs_lookup k t t' q :
  mkdirs k t = Some t' -> t' !! q = if decide (q ∈ prefixes k) then Some Dir else t !! q.
Proof. intros [_ ->]%mkdirs_Some. apply foldr_dirs_lookup. Qed.
Lemma mkdirs_nil t : mkdirs [] t = Some t.
Proof. done. Qed.
Lemma mkdirs_keeps k t t' q n : mkdirs k t = Some t' -> t !! q = Some n -> t' !! q = Some n.
Proof.
  intros H Hq. rewrite (mkdirs_lookup _ _ _ _ H). destruct (decide _) as [Hin|]; [|done].
  apply mkdirs_Some in H as [Hf _]. specialize (Hf _ Hin). unfold is_file_at in Hf.
  rewrite Hq in Hf. destruct n; [done|done].
Qed.
Lemma mkdirs_is_dir k t t' : mkdirs k t = Some t' -> is_dir_at t' k = true.
Proof.
  intros H. destruct k as [|x k]; [done|]. unfold is_dir_at.
  rewrite (mkdirs_lookup _ _ _ _ H). rewrite decide_True; [done|]. by apply self_in_prefixes.
Qed.
Lemma mkdirs_other k t t' q : mkdirs k t = Some t' -> ~ q `prefix_of` k -> t' !! q = t !! q.
Proof.
  intros H Hq. rewrite (mkdirs_lookup _ _ _ _ H). rewrite decide_False; [done|].
  intros [_ ?]%elem_of_prefixes. done.
Qed.

(* ---- well-formed trees ------------------------------------------------------------------------ *)
Lemma wf_empty : wf ∅.
Proof. split; [done|]. intros k n H. by rewrite lookup_empty in H. Qed.

Lemma is_dir_at_lookup t k : k <> [] -> is_dir_at t k = true <-> t !! k = Some Dir.
Proof.
  intros Hk. unfold is_dir_at. destruct k; [done|].
  destruct (t !! _) as [[]|]; split; congruence.
Qed.
Lemma wf_parent_dir t k n : wf t -> t !! k = Some n -> is_dir_at t (parent k) = true.
Proof.
  intros [H0 Hw] Hk. destruct (decide (parent k = [])) as [->|Hp]; [done|].
  apply is_dir_at_lookup; [done|]. apply (Hw _ _ Hk); [apply parent_prefix|done|].
  apply parent_ne. intros ->. by apply Hp.
Qed.
Lemma wf_below_file t k b q : wf t -> t !! k = Some (File b) -> k `prefix_of` q -> q <> k -> t !! q = None.
Proof.
  intros [H0 Hw] Hk Hp Hn. destruct (t !! q) as [n|] eqn:E; [|done].
  assert (k <> []) by (intros ->; congruence).
  rewrite (Hw _ _ E k Hp) in Hk; [done|done|congruence].
Qed.
Lemma wf_below_none t k q : wf t -> t !! k = None -> k <> [] -> k `prefix_of` q -> t !! q = None.
Proof.
  intros [H0 Hw] Hk Hk0 Hp. destruct (t !! q) as [n|] eqn:E; [|done].
  destruct (decide (q = k)) as [->|Hn]; [congruence|].
  rewrite (Hw _ _ E k Hp) in Hk; [done|done|congruence].
Qed.
Lemma wf_dir_prefixes t k p : wf t -> is_dir_at t k = true -> p ∈ prefixes k -> t !! p = Some Dir.
Proof.
  intros Hwf Hd [Hp0 Hp]%elem_of_prefixes.
  assert (k <> []) as Hk by (intros ->; by apply prefix_nil_inv in Hp).
  apply is_dir_at_lookup in Hd; [|done].
  destruct (decide (p = k)) as [->|Hn]; [done|]. destruct Hwf as [_ Hw]. by apply (Hw _ _ Hd).
Qed.
Lemma mkdirs_id t k : wf t -> is_dir_at t k = true -> mkdirs k t = Some t.
Proof.
  intros Hwf Hd. apply mkdirs_Some. split.
  - intros p Hp. unfold is_file_at. by rewrite (wf_dir_prefixes _ _ _ Hwf Hd Hp).
  - apply map_eq. intros q. rewrite foldr_dirs_lookup. destruct (decide _) as [Hin|]; [|done].
    by rewrite (wf_dir_prefixes _ _ _ Hwf Hd Hin).
Qed.
Lemma mkdirs_wf k t t' : wf t -> mkdirs k t = Some t' -> wf t'.
Proof.
  intros [H0 Hw] H. split.
  - rewrite (mkdirs_lookup _ _ _ _ H). rewrite decide_False; [done|]. by intros [? _]%elem_of_prefixes.
  - intros q n Hq p Hp Hp0 Hpq. rewrite (mkdirs_lookup _ _ _ _ H) in Hq. rewrite (mkdirs_lookup _ _ _ p H).
    destruct (decide (q ∈ prefixes k)) as [Hin|Hin].
    + rewrite decide_True; [done|]. apply elem_of_prefixes in Hin as [_ Hqk].
      apply elem_of_prefixes. split; [done|]. by etrans.
    + destruct (decide (p ∈ prefixes k)); [done|]. by apply (Hw _ _ Hq).
Qed.
(* when a file blocks k itself but k is not a file, it already blocks the parent *)
Lemma mkdirs_None_parent k t :
  mkdirs k t = None -> is_file_at t k = false -> mkdirs (parent k) t = None.
Proof.
  intros (p & [Hp0 Hp]%elem_of_prefixes & Hf)%mkdirs_None Hk. apply mkdirs_None. exists p. split; [|done].
  apply elem_of_prefixes. split; [done|]. apply prefix_parent; [done|]. intros ->. congruence.
Qed.

Lemma wf_insert_file t k b :
  wf t -> k <> [] -> is_dir_at t (parent k) = true -> is_dir_at t k = false -> wf (<[k := File b]> t).
Proof.
  intros [H0 Hw] Hk Hpar Hnd. split.
  - by rewrite lookup_insert_ne.
  - intros q n Hq p Hp Hp0 Hpq. destruct (decide (q = k)) as [->|Hqk].
    + assert (p <> k) by done. rewrite lookup_insert_ne by done.
      pose proof (prefix_parent _ _ Hp Hpq) as Hpp.
      assert (parent k <> []) as Hpk by (intros E; rewrite E in Hpp; by apply prefix_nil_inv in Hpp).
      apply is_dir_at_lookup in Hpar; [|done].
      destruct (decide (p = parent k)) as [->|Hne]; [done|]. by apply (Hw _ _ Hpar).
    + rewrite lookup_insert_ne in Hq by done.
      assert (p <> k).
      { intros ->. assert (is_dir_at t k = true); [|congruence].
        apply is_dir_at_lookup; [done|]. by apply (Hw _ _ Hq). }
      rewrite lookup_insert_ne by done. by apply (Hw _ _ Hq).
Qed.
(* overwriting a file with a file *)
Lemma wf_insert_over t k b c : wf t -> t !! k = Some (File c) -> wf (<[k := File b]> t).
Proof.
  intros Hwf Hk. assert (k <> []) by (intros ->; destruct Hwf; congruence).
  apply wf_insert_file; [done|done|by eapply wf_parent_dir|].
  destruct (is_dir_at t k) eqn:E; [|done]. apply is_dir_at_lookup in E; [congruence|done].
Qed.

Lemma dir_empty_spec t k :
  dir_empty t k = true <-> forall q n, t !! q = Some n -> k `prefix_of` q -> q = k.
Proof.
  unfold dir_empty. rewrite forallb_forall. split.
  - intros H q n Hq Hp. destruct (decide (q = k)); [done|].
    specialize (H (q, n)). rewrite <- elem_of_list_In, elem_of_map_to_list in H.
    specialize (H Hq). cbn in H. apply negb_true_iff in H.
    assert (strict_prefix k q = true); [by apply strict_prefix_spec|congruence].
  - intros H [q n] Hin. apply elem_of_list_In, elem_of_map_to_list in Hin. cbn.
    apply negb_true_iff. destruct (strict_prefix k q) eqn:E; [|done].
    apply strict_prefix_spec in E as [Hp Hn]. by rewrite (H _ _ Hin Hp) in Hn.
Qed.
Lemma wf_delete_leaf t k :
  wf t -> (forall q n, t !! q = Some n -> k `prefix_of` q -> q = k) -> wf (delete k t).
Proof.
  intros [H0 Hw] Hleaf. split.
  - destruct (decide (k = [])) as [->|]; [by rewrite lookup_delete|by rewrite lookup_delete_ne].
  - intros q n Hq p Hp Hp0 Hpq. apply lookup_delete_Some in Hq as [Hqk Hq].
    assert (p <> k) by (intros ->; apply Hqk; symmetry; by eapply Hleaf).
    rewrite lookup_delete_ne by done. by apply (Hw _ _ Hq).
Qed.
Lemma remove_subtree_lookup k t q :
  remove_subtree k t !! q = if is_prefix k q then None else t !! q.
Proof.
  unfold remove_subtree. destruct (is_prefix k q) eqn:E.
  - apply map_filter_lookup_None. right. intros n _. cbn. congruence.
  - destruct (t !! q) as [n|] eqn:Hq.
    + apply map_filter_lookup_Some. done.
    + apply map_filter_lookup_None. by left.
Qed.
Lemma wf_remove_subtree t k : wf t -> k <> [] -> wf (remove_subtree k t).
Proof.
  intros [H0 Hw] Hk. split.
  - rewrite remove_subtree_lookup. by destruct (is_prefix k []).
  - intros q n Hq p Hp Hp0 Hpq. rewrite remove_subtree_lookup in Hq |- *.
    destruct (is_prefix k q) eqn:E; [done|]. apply is_prefix_false in E.
    destruct (is_prefix k p) eqn:E'; [|by apply (Hw _ _ Hq)].
    apply is_prefix_spec in E'. exfalso. apply E. by etrans.
Qed.

(* ---- paths in the domain ---------------------------------------------------------------------- *)
Lemma path_ok_nonempty p : path_ok p = true -> pk p <> [].
Proof. unfold path_ok. destruct (pk p); done. Qed.
Lemma path_ok_ends_sep p : path_ok p = true -> ends_sep p = ptr p.
Proof.
  unfold path_ok, ends_sep. intros [_ Hn]%andb_true_iff.
  destruct (last (pk p)) as [name|] eqn:El; [|by rewrite orb_false_r].
  destruct (last name) as [c|] eqn:Ec; [|by rewrite orb_false_r].
  rewrite forallb_forall in Hn. apply last_Some_elem_of, elem_of_list_In in El. specialize (Hn _ El).
  unfold name_ok in Hn. apply andb_true_iff in Hn as [_ Hc]. rewrite forallb_forall in Hc.
  apply last_Some_elem_of, elem_of_list_In in Ec. specialize (Hc _ Ec).
  apply negb_true_iff, orb_false_iff in Hc as [[_ Hb]%orb_false_iff _].
  rewrite Hb. by rewrite orb_false_r.
Qed.
Lemma not_prefix_parent (k : key) : k <> [] -> ~ k `prefix_of` parent k.
Proof.
  intros Hk Hp. apply prefix_length in Hp. destruct (key_snoc k Hk) as (x & _ & E).
  rewrite E in Hp at 1. rewrite app_length in Hp. cbn in Hp. lia.
Qed.
Lemma not_prefix_snoc (k : key) x : ~ (k ++ [x]) `prefix_of` k.
Proof. intros Hp%prefix_length. rewrite app_length in Hp. cbn in Hp. lia. Qed.

Lemma stat_file p t b : stat p t = Some (File b) <-> t !! pk p = Some (File b) /\ ptr p = false.
Proof. unfold stat. destruct (t !! pk p) as [[c|]|], (ptr p); naive_solver. Qed.
Lemma stat_dir p t : stat p t = Some Dir <-> t !! pk p = Some Dir.
Proof. unfold stat. destruct (t !! pk p) as [[c|]|], (ptr p); naive_solver. Qed.
Lemma stat_none p t :
  stat p t = None <-> t !! pk p = None \/ (exists b, t !! pk p = Some (File b) /\ ptr p = true).
Proof. unfold stat. destruct (t !! pk p) as [[c|]|], (ptr p); naive_solver. Qed.

(* ---- the primitives under the conditions the commands establish ------------------------------- *)
Lemma dir_create_spec t k :
  wf t -> f_dir_create k t = match mkdirs k t with Some t1 => (true, t1) | None => (false, t) end.
Proof.
  intros Hwf. unfold f_dir_create, p_create_dir_all.
  destruct (is_dir_at t k) eqn:E; [by rewrite mkdirs_id|done].
Qed.
Lemma create_parent_spec t p :
  wf t ->
  f_create_parent p t = match mkdirs (parent (pk p)) t with Some t1 => (true, t1) | None => (false, t) end.
Proof.
  intros Hwf. unfold f_create_parent. destruct (parent (pk p)) eqn:E; [done|]. by apply dir_create_spec.
Qed.
Lemma open_trunc_unfold p b t :
  pk p <> [] ->
  p_open_trunc p b t =
    if ptr p then (false, t)
    else if is_dir_at t (parent (pk p)) && negb (is_dir_at t (pk p)) then (true, <[pk p := File b]> t)
    else (false, t).
Proof. intros H. unfold p_open_trunc. destruct (pk p); done. Qed.
Lemma put_file_unfold p b t :
  pk p <> [] ->
  put_file p b t =
    if ptr p then None
    else match mkdirs (parent (pk p)) t with
         | None => None
         | Some t1 => if is_dir_at t1 (pk p) then None else Some (<[pk p := File b]> t1)
         end.
Proof. intros H. unfold put_file. destruct (pk p); done. Qed.
Lemma open_trunc_ok p b t :
  ptr p = false -> pk p <> [] -> is_dir_at t (parent (pk p)) = true -> is_dir_at t (pk p) = false ->
  p_open_trunc p b t = (true, <[pk p := File b]> t).
Proof. intros Hp Hk Hd Hn. rewrite open_trunc_unfold by done. by rewrite Hp, Hd, Hn. Qed.
Lemma open_trunc_ptr p b t : ptr p = true -> p_open_trunc p b t = (false, t).
Proof. intros Hp. unfold p_open_trunc. by rewrite Hp. Qed.
Lemma open_trunc_dir p b t : pk p <> [] -> is_dir_at t (pk p) = true -> p_open_trunc p b t = (false, t).
Proof.
  intros Hk Hd. rewrite open_trunc_unfold by done. rewrite Hd, andb_false_r. by destruct (ptr p).
Qed.
Lemma is_dir_at_insert_ne t (k q : key) n : q <> k -> is_dir_at (<[k := n]> t) q = is_dir_at t q.
Proof. intros Hq. unfold is_dir_at. destruct q; [done|]. by rewrite lookup_insert_ne. Qed.
Lemma is_dir_at_insert_file t (k : key) b : k <> [] -> is_dir_at (<[k := File b]> t) k = false.
Proof. intros Hk. unfold is_dir_at. destruct k; [done|]. by rewrite lookup_insert. Qed.
Lemma is_dir_at_false_lookup t (k : key) : is_dir_at t k = false -> t !! k <> Some Dir.
Proof. unfold is_dir_at. destruct k; [done|]. destruct (t !! _) as [[]|]; done. Qed.
Lemma lookup_not_dir t (k : key) : k <> [] -> t !! k <> Some Dir -> is_dir_at t k = false.
Proof. intros Hk H. unfold is_dir_at. destruct k; [done|]. destruct (t !! _) as [[]|]; done. Qed.

Lemma p_copy_ok a b c t :
  t !! pk a = Some (File c) -> ptr a = false -> ptr b = false -> pk b <> [] ->
  is_dir_at t (parent (pk b)) = true -> is_dir_at t (pk b) = false ->
  p_copy a b t = (true, <[pk b := File (if decide (pk a = pk b) then [] else c)]> t).
Proof.
  intros Hl Hpa Hpb Hkb Hd Hn. unfold p_copy, p_read.
  rewrite (proj2 (stat_file a t c)) by done. rewrite open_trunc_ok by done.
  set (t1 := <[pk b := File []]> t).
  assert (stat a t1 = Some (File (if decide (pk a = pk b) then [] else c))) as ->.
  { apply stat_file. split; [|done]. unfold t1. destruct (decide (pk a = pk b)) as [->|Hne].
    - by rewrite lookup_insert.
    - by rewrite lookup_insert_ne. }
  rewrite open_trunc_ok; [|done|done|..].
  - unfold t1. by rewrite insert_insert.
  - unfold t1. rewrite is_dir_at_insert_ne; [done|by apply parent_ne].
  - unfold t1. by apply is_dir_at_insert_file.
Qed.
Lemma p_copy_fail a b c t :
  t !! pk a = Some (File c) -> ptr a = false -> pk b <> [] ->
  ptr b = true \/ is_dir_at t (pk b) = true -> p_copy a b t = (false, t).
Proof.
  intros Hl Hpa Hkb H. unfold p_copy, p_read. rewrite (proj2 (stat_file a t c)) by done.
  destruct H as [H|H]; [by rewrite open_trunc_ptr|by rewrite open_trunc_dir].
Qed.
Lemma move_file_ok a b c ow t :
  t !! pk a = Some (File c) -> ptr a = false -> ptr b = false -> pk b <> [] ->
  is_dir_at t (parent (pk b)) = true -> is_dir_at t (pk b) = false ->
  ow = true \/ t !! pk b = None ->
  x_move_file a b ow t = (true, delete (pk a) (<[pk b := File c]> t)).
Proof.
  intros Hl Hpa Hpb Hkb Hd Hn How. unfold x_move_file, x_file_copy, p_exists, p_is_file.
  rewrite (proj2 (stat_file a t c)) by done. cbn [negb].
  assert (negb ow && match stat b t with Some _ => true | None => false end = false) as ->.
  { destruct How as [->|Hb]; [done|]. rewrite (proj2 (stat_none b t)); [by rewrite andb_false_r|by left]. }
  rewrite (p_copy_ok a b c) by done. unfold p_remove_file.
  destruct (decide (pk a = pk b)) as [E|Hne].
  - rewrite (proj2 (stat_file a _ [])); [|split; [rewrite E; by rewrite lookup_insert|done]].
    rewrite E. by rewrite !delete_insert_delete.
  - rewrite (proj2 (stat_file a _ c)); [done|]. split; [by rewrite lookup_insert_ne|done].
Qed.

(* ---- S, unfolded -------------------------------------------------------------------------------- *)
Lemma put_file_Some p b t t' :
  put_file p b t = Some t' ->
  exists t1, mkdirs (parent (pk p)) t = Some t1 /\ ptr p = false /\ pk p <> [] /\
             is_dir_at t1 (pk p) = false /\ t' = <[pk p := File b]> t1.
Proof.
  unfold put_file. destruct (ptr p); [done|]. destruct (pk p) as [|x l] eqn:E; [done|].
  destruct (mkdirs _ _) as [t1|]; [|done]. destruct (is_dir_at t1 _) eqn:Ed; [done|].
  intros [= <-]. exists t1. done.
Qed.
Lemma S_mv_unfold a b t c :
  stat a t = Some (File c) ->
  S_mv a b t = if same_entry a (mv_target a b t) then (OErr, t)
               else match put_file (mv_target a b t) c t with
                    | Some t1 => (OVal s_true, delete (pk a) t1)
                    | None => (OErr, t)
                    end.
Proof.
  intros Es. unfold S_mv, S_cp. rewrite Es. destruct (same_entry _ _); [done|].
  destruct (put_file _ _ _) as [t'|] eqn:Ep; [|done].
  apply put_file_Some in Ep as (t1 & Hm & Hp & Hk & Hd & ->). apply stat_file in Es as [Hl Hpa].
  unfold S_rm_one. destruct (decide (pk a = pk (mv_target a b t))) as [E|Hne].
  - rewrite (proj2 (stat_file a _ c)); [done|]. split; [rewrite E; by rewrite lookup_insert|done].
  - rewrite (proj2 (stat_file a _ c)); [done|]. split; [|done].
    rewrite lookup_insert_ne by done. by eapply mkdirs_keeps.
Qed.
Lemma same_entry_other (a b : path) (t : tree) : t !! pk a <> t !! pk b -> same_entry a b = false.
Proof.
  intros H. unfold same_entry. rewrite bool_decide_eq_false_2; [by rewrite andb_false_r|].
  intros E. by rewrite E in H.
Qed.
Lemma same_file_spec a b c t :
  stat a t = Some (File c) -> p_same_file a b t = same_entry a b.
Proof.
  intros Es. unfold p_same_file, p_canonicalize, same_entry. rewrite Es.
  destruct (decide (pk a = pk b)) as [E|Hne].
  - apply stat_file in Es as [Hl _].
    assert (stat b t = if ptr b then None else Some (File c)) as -> by (unfold stat; by rewrite <- E, Hl).
    destruct (ptr b); cbn [negb andb]; [done|]. by rewrite !bool_decide_eq_true_2.
  - destruct (stat b t); cbn; rewrite ?(bool_decide_eq_false_2 _ Hne), ?andb_false_r; done.
Qed.

(* ---- per-command commuting lemmas: M_x = S_x --------------------------------------------------- *)
Lemma trailing_partial_false p t t1 :
  wf t -> trailing_partial p t = false -> ptr p = true -> mkdirs (parent (pk p)) t = Some t1 -> t1 = t.
Proof.
  intros Hwf Hk Hp Em. unfold trailing_partial in Hk. rewrite Hp, Em in Hk. cbn in Hk.
  rewrite andb_true_r in Hk. apply negb_false_iff in Hk. rewrite mkdirs_id in Em by done. congruence.
Qed.

Lemma mkdirs_parent_of_dir t t1 (k : key) :
  wf t -> k <> [] -> mkdirs (parent k) t = Some t1 -> is_dir_at t1 k = true -> t1 = t.
Proof.
  intros Hwf Hk Em Ed. apply is_dir_at_lookup in Ed; [|done].
  rewrite (mkdirs_other _ _ _ _ Em) in Ed by (by apply not_prefix_parent).
  rewrite mkdirs_id in Em by eauto using wf_parent_dir. congruence.
Qed.

Lemma write_refines p b t :
  wf t -> path_ok p = true -> trailing_partial p t = false -> M_write p b t = S_write p b t.
Proof.
  intros Hwf Hok Hk. pose proof (path_ok_nonempty _ Hok) as Hne.
  unfold M_write, f_modify_file, S_write. rewrite create_parent_spec, put_file_unfold by done. cbn [andb].
  destruct (mkdirs (parent (pk p)) t) as [t1|] eqn:Em; [|by destruct (ptr p)].
  destruct (ptr p) eqn:Ep.
  - rewrite open_trunc_ptr by done. by rewrite (trailing_partial_false p t t1).
  - destruct (is_dir_at t1 (pk p)) eqn:Ed.
    + rewrite open_trunc_dir by done. by rewrite (mkdirs_parent_of_dir t t1 (pk p)).
    + rewrite open_trunc_ok; [done|done|done|by eapply mkdirs_is_dir|done].
Qed.

Lemma modify_file_missing p b t :
  wf t -> pk p <> [] -> stat p t = None -> f_modify_file p b true t = f_modify_file p b false t.
Proof.
  intros Hwf Hne Hs. unfold f_modify_file. rewrite create_parent_spec by done.
  destruct (mkdirs (parent (pk p)) t) as [t1|] eqn:Em; [|done]. cbn [andb].
  assert (p_exists p t1 = false) as ->; [|done]. unfold p_exists.
  rewrite (proj2 (stat_none p t1)); [done|]. apply stat_none in Hs as [Hn|(c & Hc & Hp)].
  - left. rewrite (mkdirs_other _ _ _ _ Em); [done|by apply not_prefix_parent].
  - right. exists c. split; [by eapply mkdirs_keeps|done].
Qed.

Lemma append_refines p b t :
  wf t -> path_ok p = true -> trailing_partial p t = false -> M_append p b t = S_append p b t.
Proof.
  intros Hwf Hok Hk. pose proof (path_ok_nonempty _ Hok) as Hne. unfold M_append, S_append.
  destruct (stat p t) as [[c|]|] eqn:Es.
  - unfold f_modify_file. rewrite create_parent_spec by done. pose proof Es as [Hl Hp]%stat_file.
    rewrite mkdirs_id by eauto using wf_parent_dir. unfold p_exists, p_open_append. rewrite Es. done.
  - unfold f_modify_file. rewrite create_parent_spec by done. pose proof Es as Hl%stat_dir.
    rewrite mkdirs_id by eauto using wf_parent_dir. unfold p_exists, p_open_append. rewrite Es. done.
  - rewrite modify_file_missing by done. by apply write_refines.
Qed.

Lemma touch_refines p t :
  wf t -> path_ok p = true -> negb (p_exists p t) && trailing_partial p t = false ->
  M_touch p t = S_touch p t.
Proof.
  intros Hwf Hok Hk. unfold M_touch, f_ensure_exists, S_touch, p_is_file. unfold p_exists in *.
  destruct (stat p t) as [[c|]|] eqn:Es; [done|done|]. cbn [negb andb] in Hk.
  transitivity (M_write p [] t); [|by apply write_refines].
  unfold M_write, f_modify_file. cbn [andb]. done.
Qed.

Lemma mkdir_refines p t : wf t -> M_mkdir p t = S_mkdir p t.
Proof.
  intros Hwf. unfold M_mkdir, S_mkdir. rewrite dir_create_spec by done. by destruct (mkdirs _ _).
Qed.

Lemma cp_refines xdc a b t :
  wf t -> path_ok a = true -> path_ok b = true -> p_is_dir a t = false ->
  known_step (Cp a b) t = 0%N -> M_cp xdc a b t = S_cp a b t.
Proof.
  intros Hwf Ha Hb Hnd. pose proof (path_ok_nonempty _ Hb) as Hnb.
  unfold M_cp, S_cp, p_exists, p_is_file. unfold p_is_dir in Hnd. cbn [known_step].
  destruct (stat a t) as [[c|]|] eqn:Es; [|done|done]. intros Hk. cbn [negb].
  rewrite (same_file_spec a b c t Es). destruct (same_entry a b) eqn:Esame; [done|].
  apply stat_file in Es as [Hl Hp].
  rewrite create_parent_spec, put_file_unfold by done.
  destruct (mkdirs (parent (pk b)) t) as [t1|] eqn:Em; [|by destruct (ptr b)].
  assert (t1 !! pk a = Some (File c)) as Hl1 by (by eapply mkdirs_keeps).
  destruct (ptr b) eqn:Epb.
  - destruct (trailing_partial b t) eqn:Etp; [done|].
    rewrite (p_copy_fail a b c) by auto. by rewrite (trailing_partial_false b t t1).
  - destruct (is_dir_at t1 (pk b)) eqn:Ed.
    + rewrite (p_copy_fail a b c) by auto. cbn [oerr].
      by rewrite (mkdirs_parent_of_dir t t1 (pk b)).
    + rewrite (p_copy_ok a b c); [|done|done|done|done|by eapply mkdirs_is_dir|done]. cbn [oerr].
      destruct (decide (pk a = pk b)) as [E|Hne]; [|done].
      unfold same_entry in Esame. rewrite Epb, bool_decide_eq_true_2 in Esame by done. done.
Qed.

Lemma rm_one_refines r p t : M_rm_one r p t = S_rm_one r p t.
Proof.
  unfold M_rm_one, S_rm_one, p_exists, p_is_file, p_remove_file, p_remove_dir_all, p_remove_dir.
  destruct (stat p t) as [[c|]|]; cbn; try done; by destruct r.
Qed.
Lemma rm_loop_refines r ps t : M_rm_loop r ps t = S_rm_list r ps t.
Proof.
  revert t; induction ps as [|p ps IH]; intros t; [done|]. cbn [M_rm_loop S_rm_list].
  rewrite rm_one_refines. destruct (S_rm_one r p t) as [[] t1]; [apply IH|done].
Qed.
Lemma rm_refines f ps t :
  match f with Some fl => is_unix_flags fl | None => true end = true -> M_rm f ps t = S_rm f ps t.
Proof.
  intros Hf. unfold M_rm, S_rm. destruct ps as [|p ps].
  - destruct f; [rewrite Hf|]; done.
  - rewrite <- rm_loop_refines. destruct f as [fl|].
    + rewrite Hf. cbn [length].
      replace (S (length ps) + 1 =? 0)%nat with false by (symmetry; apply Nat.eqb_neq; lia).
      replace (S (length ps) + 1 =? 1)%nat with false by (symmetry; apply Nat.eqb_neq; lia). done.
    + cbn [length]. rewrite andb_false_r, Nat.add_0_r. cbn [Nat.eqb orb].
      by destruct (length ps =? 0)%nat.
Qed.
Lemma rmdir_refines p t : M_rmdir p t = S_rmdir p t.
Proof.
  unfold M_rmdir, S_rmdir, p_exists, p_remove_dir. destruct (stat p t) as [[c|]|]; cbn; try done.
  by destruct (dir_empty t (pk p)).
Qed.
Lemma ls_refines p t : M_ls p t = S_ls p t.
Proof.
  unfold M_ls, S_ls, p_glob_children, stat. by destruct (t !! pk p) as [[c|]|], (ptr p).
Qed.

Lemma mv_refines prn xmd a b t :
  wf t -> path_ok a = true -> path_ok b = true -> p_is_dir a t = false ->
  known_step (Mv a b) t = 0%N -> M_mv prn xmd a b t = S_mv a b t.
Proof.
  intros Hwf Ha Hb Hnd Hk.
  pose proof (path_ok_nonempty _ Ha) as Hna. pose proof (path_ok_nonempty _ Hb) as Hnb.
  unfold M_mv. rewrite !(path_ok_ends_sep b), !(path_ok_ends_sep a) by done.
  cbn [known_step] in Hk. rewrite (path_ok_ends_sep b) in Hk by done.
  destruct (stat a t) as [[c|]|] eqn:Es.
  2: { unfold p_is_dir in Hnd. by rewrite Es in Hnd. }
  2: { unfold p_exists, S_mv. by rewrite Es. }
  rewrite (S_mv_unfold _ _ _ _ Es). pose proof Es as [Hla Hpa]%stat_file.
  assert (p_exists a t = true) as Hea by (unfold p_exists; by rewrite Es).
  assert (p_is_file a t = true) as Hfa by (unfold p_is_file; by rewrite Es).
  rewrite Hea, Hfa in *. cbn [negb andb].
  destruct (key_snoc (pk a) Hna) as (name & Hlast & Hka).
  unfold mv_target in *. rewrite (path_ok_ends_sep b) in * by done. rewrite Hlast in *.
  destruct (stat b t) as [[c2|]|] eqn:Eb.
  - (* the target is an existing file: overwrite, unless it is the source itself *)
    pose proof Eb as [Hlb Hpb]%stat_file.
    assert (p_exists b t = true) as -> by (unfold p_exists; by rewrite Eb).
    assert (p_is_file b t = true) as -> by (unfold p_is_file; by rewrite Eb).
    assert (p_is_dir b t = false) as -> by (unfold p_is_dir; by rewrite Eb).
    rewrite Hpb. cbn [orb]. rewrite (same_file_spec a b c t Es).
    destruct (same_entry a b); [done|].
    assert (is_dir_at t (pk b) = false) as Hdb by (apply lookup_not_dir; [done|congruence]).
    rewrite create_parent_spec, put_file_unfold by done. rewrite Hpb.
    rewrite mkdirs_id by eauto using wf_parent_dir. rewrite Hdb.
    rewrite (move_file_ok a b c); eauto using wf_parent_dir.
  - (* the target is an existing directory: into it *)
    pose proof Eb as Hlb%stat_dir.
    assert (p_exists b t = true) as Heb by (unfold p_exists; by rewrite Eb).
    assert (p_is_file b t = false) as Hfb by (unfold p_is_file; by rewrite Eb).
    assert (p_is_dir b t = true) as Hdb by (unfold p_is_dir; by rewrite Eb).
    rewrite Heb, Hfb, Hdb in *. cbn [orb andb negb] in *.
    assert (is_dir_at t (pk b) = true) as Hd by (by apply is_dir_at_lookup).
    rewrite dir_create_spec by done. rewrite mkdirs_id by done.
    unfold x_move_items. rewrite Hea. unfold p_is_dir at 1. rewrite Es, Hlast. cbn [negb].
    rewrite put_file_unfold by (cbn; by destruct (pk b)). cbn [pjoin pk ptr] in *. rewrite parent_snoc.
    rewrite mkdirs_id by done.
    destruct (t !! (pk b ++ [name])) as [[c3|]|] eqn:Et.
    + (* a file of that name is there: refused; the reference tree agrees only when it is the source *)
      unfold is_file_at in Hk. rewrite Et in Hk. cbn [andb] in Hk.
      destruct (decide (pk a = pk b ++ [name])) as [E|Hne].
      * unfold same_entry. cbn [pjoin pk ptr negb andb]. rewrite bool_decide_eq_true_2 by done.
        unfold x_move_file, x_file_copy. rewrite Hea, Hfa. cbn [negb andb].
        assert (p_exists (pjoin b name) t = true) as ->; [|done].
        unfold p_exists, stat. cbn [pjoin pk ptr]. by rewrite Et.
      * by rewrite (bool_decide_eq_false_2 _ Hne) in Hk.
    + rewrite (same_entry_other a (pjoin b name) t) by (cbn [pjoin pk]; congruence).
      assert (is_dir_at t (pk b ++ [name]) = true) as -> by (apply is_dir_at_lookup; [by destruct (pk b)|done]).
      unfold x_move_file, x_file_copy. rewrite Hea, Hfa. cbn [negb andb].
      assert (p_exists (pjoin b name) t = true) as ->; [|done].
      unfold p_exists. rewrite (proj2 (stat_dir _ t)); done.
    + rewrite (same_entry_other a (pjoin b name) t) by (cbn [pjoin pk]; congruence).
      assert (is_dir_at t (pk b ++ [name]) = false) as Hn.
      { apply lookup_not_dir; [by destruct (pk b)|congruence]. }
      rewrite Hn. rewrite (move_file_ok a (pjoin b name) c); cbn [pjoin pk ptr]; rewrite ?parent_snoc; auto.
      by destruct (pk b).
  - (* the target is missing *)
    assert (p_exists b t = false) as Heb by (unfold p_exists; by rewrite Eb).
    assert (p_is_dir b t = false) as Hdb by (unfold p_is_dir; by rewrite Eb).
    rewrite Heb, Hdb in *. cbn [orb andb negb] in *.
    destruct (ptr b) eqn:Epb.
    + (* written as a directory: create it, move inside *)
      cbn [orb andb negb]. rewrite dir_create_spec by done.
      rewrite put_file_unfold by (cbn; by destruct (pk b)). cbn [pjoin pk ptr]. rewrite parent_snoc.
      destruct (mkdirs (pk b) t) as [t1|] eqn:Em; [|by destruct (same_entry _ _)].
      assert (t !! pk b = None) as Hbn.
      { apply stat_none in Eb as [|(c' & Hc & _)]; [done|]. exfalso.
        apply mkdirs_Some in Em as [Hf _]. specialize (Hf (pk b) (self_in_prefixes _ Hnb)).
        unfold is_file_at in Hf. by rewrite Hc in Hf. }
      assert (t !! (pk b ++ [name]) = None) as Ht0.
      { eapply wf_below_none; [done|done|done|]. by apply prefix_app_r. }
      rewrite (same_entry_other a (pjoin b name) t) by (cbn [pjoin pk]; congruence).
      assert (t1 !! (pk b ++ [name]) = None) as Ht1.
      { by rewrite (mkdirs_other _ _ _ _ Em) by apply not_prefix_snoc. }
      assert (is_dir_at t1 (pk b ++ [name]) = false) as Hn.
      { apply lookup_not_dir; [by destruct (pk b)|congruence]. }
      rewrite Hn. unfold x_move_items.
      assert (t1 !! pk a = Some (File c)) as Hla1 by (by eapply mkdirs_keeps).
      assert (stat a t1 = Some (File c)) as Es1 by (by apply stat_file).
      unfold p_exists, p_is_dir. rewrite Es1, Hlast. cbn [negb].
      rewrite (move_file_ok a (pjoin b name) c); cbn [pjoin pk ptr]; rewrite ?parent_snoc; auto.
      * by destruct (pk b).
      * by eapply mkdirs_is_dir.
    + assert (t !! pk b = None) as Hbn.
      { apply stat_none in Eb as [|(c' & _ & ?)]; [done|congruence]. }
      rewrite (same_file_spec a b c t Es). rewrite !(same_entry_other a b t) by congruence.
      cbn [orb andb negb] in *. destruct (has_ext b) eqn:Ex; cbn [orb andb negb] in *.
      * (* looks like a file name: rename *)
        rewrite create_parent_spec, put_file_unfold by done. rewrite Epb.
        destruct (mkdirs (parent (pk b)) t) as [t1|] eqn:Em; [|done].
        assert (t1 !! pk b = None) as Ht1.
        { rewrite (mkdirs_other _ _ _ _ Em); [done|by apply not_prefix_parent]. }
        assert (is_dir_at t1 (pk b) = false) as Hn by (apply lookup_not_dir; [done|congruence]).
        rewrite Hn. assert (t1 !! pk a = Some (File c)) as Hla1 by (by eapply mkdirs_keeps).
        rewrite (move_file_ok a b c); auto. by eapply mkdirs_is_dir.
      * (* no extension: taken for a directory — the known class unless a file is in the way *)
        rewrite dir_create_spec by done.
        destruct (mkdirs (pk b) t) as [t1|] eqn:Em; [done|].
        rewrite put_file_unfold by done. rewrite Epb.
        rewrite mkdirs_None_parent; [done|done|]. unfold is_file_at. by rewrite Hbn.
Qed.

(* ---- join_path: the script's loops compute "join, then collapse separator runs" ----------------- *)
Lemma list_ind2 {A} (P : list A -> Prop) :
  P [] -> (forall c, P [c]) -> (forall c d r, P r -> P (d :: r) -> P (c :: d :: r)) -> forall s, P s.
Proof.
  intros H0 H1 H2 s. assert (P s /\ forall c, P (c :: s)) as [? _]; [|done].
  induction s as [|a s [IH1 IH2]]; [done|]. split; [apply IH2|]. intros c. by apply H2.
Qed.
Definition head_slash (s : str) : bool := match s with d :: _ => is_slash d | [] => false end.
Lemma squeeze_cons c x :
  squeeze (c :: x) = if is_slash c && head_slash x then squeeze x else c :: squeeze x.
Proof. destruct x as [|d r]; [by rewrite andb_false_r|done]. Qed.
Lemma has_dslash_cons c x : has_dslash (c :: x) = (is_slash c && head_slash x) || has_dslash x.
Proof. destruct x as [|d r]; [by rewrite andb_false_r|done]. Qed.
Lemma replace_cons2 c d r :
  replace_dslash (c :: d :: r) =
    if is_slash c && is_slash d then c_slash :: replace_dslash r else c :: replace_dslash (d :: r).
Proof. done. Qed.
Lemma head_slash_replace s : head_slash (replace_dslash s) = head_slash s.
Proof.
  destruct s as [|c [|d r]]; [done|done|]. cbn [replace_dslash].
  destruct (is_slash c && is_slash d) eqn:E; [|done]. cbn. by apply andb_true_iff in E as [-> _].
Qed.
Lemma squeeze_replace s : squeeze (replace_dslash s) = squeeze s.
Proof.
  induction s as [|c|c d r IH1 IH2] using list_ind2; [done|done|].
  rewrite replace_cons2. destruct (is_slash c && is_slash d) eqn:E.
  - apply andb_true_iff in E as [Ec Ed]. rewrite (squeeze_cons c (d :: r)). cbn [head_slash].
    rewrite Ec, Ed. cbn [andb]. assert (d = c_slash) as -> by (by apply N.eqb_eq in Ed).
    rewrite (squeeze_cons c_slash r), (squeeze_cons c_slash (replace_dslash r)).
    by rewrite head_slash_replace, IH1.
  - rewrite squeeze_cons, head_slash_replace, IH2. by rewrite (squeeze_cons c (d :: r)).
Qed.
Lemma squeeze_id s : has_dslash s = false -> squeeze s = s.
Proof.
  induction s as [|c x IH]; [done|]. rewrite has_dslash_cons, squeeze_cons.
  intros [-> H]%orb_false_iff. by rewrite IH.
Qed.
Lemma replace_length s : length (replace_dslash s) <= length s.
Proof.
  induction s as [|c|c d r IH1 IH2] using list_ind2; [done|done|].
  rewrite replace_cons2. destruct (is_slash c && is_slash d); cbn [length] in *; lia.
Qed.
Lemma replace_shorter s : has_dslash s = true -> length (replace_dslash s) < length s.
Proof.
  induction s as [|c|c d r IH1 IH2] using list_ind2; [done|done|].
  rewrite has_dslash_cons, replace_cons2. cbn [head_slash].
  destruct (is_slash c && is_slash d); cbn [orb length].
  - intros _. pose proof (replace_length r). lia.
  - intros H. specialize (IH2 H). cbn [length] in IH2. lia.
Qed.
Lemma jp_loop_squeeze fuel s : length s < fuel -> jp_loop fuel s = Some (squeeze s).
Proof.
  revert s; induction fuel as [|f IH]; intros s Hl; [lia|]. cbn [jp_loop].
  destruct (has_dslash s) eqn:E.
  - rewrite IH, squeeze_replace; [done|]. pose proof (replace_shorter s E). lia.
  - by rewrite squeeze_id.
Qed.
Lemma jp_concat_true acc args : jp_concat true acc args = acc ++ flat_map (fun a => c_slash :: a) args.
Proof.
  revert acc; induction args as [|a r IH]; intros acc; cbn [jp_concat flat_map]; [by rewrite app_nil_r|].
  rewrite IH. by rewrite <- app_assoc.
Qed.
Lemma join_with_slash_cons a r : join_with_slash (a :: r) = a ++ flat_map (fun a => c_slash :: a) r.
Proof.
  revert a; induction r as [|b r IH]; intros a; [by rewrite app_nil_r|].
  change (join_with_slash (a :: b :: r)) with (a ++ c_slash :: join_with_slash (b :: r)). by rewrite IH.
Qed.
Lemma M_join_S_join args : M_join args = Some (S_join args).
Proof.
  unfold M_join, S_join. rewrite jp_loop_squeeze by lia. f_equal. f_equal.
  destruct args as [|a r]; [done|]. cbn [jp_concat]. by rewrite jp_concat_true, join_with_slash_cons.
Qed.

(* ---- one step ------------------------------------------------------------------------------------ *)
Lemma if_eq_0 (b : bool) (n : N) : (if b then n else 0%N) = 0%N -> n <> 0%N -> b = false.
Proof. destruct b; [congruence|done]. Qed.

Lemma step_refines prn xdc xmd o t :
  wf t -> dom_step o t = true -> known_step o t = 0%N -> M_step prn xdc xmd o t = S_step o t.
Proof.
  intros Hwf Hd Hk. destruct o; cbn [M_step S_step dom_step known_step] in *.
  - apply andb_true_iff in Hd as [Hp _]. apply write_refines; [done|done|]. by apply (if_eq_0 _ 3%N).
  - apply andb_true_iff in Hd as [Hp _]. apply append_refines; [done|done|]. by apply (if_eq_0 _ 3%N).
  - unfold M_read, S_read, p_read. by destruct (stat p t) as [[c|]|].
  - apply andb_true_iff in Hd as [Hp _]. apply write_refines; [done|done|]. by apply (if_eq_0 _ 3%N).
  - unfold M_readb, S_readb, p_read. by destruct (stat p t) as [[c|]|].
  - apply touch_refines; [done|done|]. by apply (if_eq_0 _ 3%N).
  - by apply mkdir_refines.
  - apply andb_true_iff in Hd as [[Ha Hb]%andb_true_iff Hn%negb_true_iff]. by apply cp_refines.
  - apply andb_true_iff in Hd as [[Ha Hb]%andb_true_iff Hn%negb_true_iff]. by apply mv_refines.
  - apply andb_true_iff in Hd as [_ Hf]. by apply rm_refines.
  - apply rmdir_refines.
  - done.
  - done.
  - done.
  - done.
  - apply ls_refines.
  - done.
  - done.
  - by rewrite M_join_S_join.
Qed.

(* ---- S keeps the tree well formed ---------------------------------------------------------------- *)
Lemma put_file_wf p b t t' : wf t -> put_file p b t = Some t' -> wf t'.
Proof.
  intros Hwf (t1 & Hm & Hp & Hk & Hd & ->)%put_file_Some.
  apply wf_insert_file; [by eapply mkdirs_wf|done|by eapply mkdirs_is_dir|done].
Qed.
Lemma S_write_wf p b t : wf t -> wf (S_write p b t).2.
Proof.
  intros Hwf. unfold S_write. destruct (put_file p b t) eqn:E; [|done]. by eapply put_file_wf.
Qed.
Lemma S_rm_one_wf r p t : wf t -> pk p <> [] -> wf (S_rm_one r p t).2.
Proof.
  intros Hwf Hk. unfold S_rm_one. destruct (stat p t) as [[c|]|] eqn:Es; [| |done].
  - apply stat_file in Es as [Hl _]. apply wf_delete_leaf; [done|]. intros q n Hq Hp.
    destruct (decide (q = pk p)); [done|]. rewrite (wf_below_file t (pk p) c q) in Hq; done.
  - destruct r; [by apply wf_remove_subtree|]. destruct (dir_empty t (pk p)) eqn:E; [|done].
    apply wf_delete_leaf; [done|]. by apply dir_empty_spec.
Qed.
Lemma S_rm_list_wf r ps t : wf t -> forallb path_ok ps = true -> wf (S_rm_list r ps t).2.
Proof.
  revert t; induction ps as [|p ps IH]; intros t Hwf Hok; [done|]. cbn [S_rm_list].
  cbn [forallb] in Hok. apply andb_true_iff in Hok as [Hp Hps].
  pose proof (S_rm_one_wf r p t Hwf (path_ok_nonempty _ Hp)) as H1.
  destruct (S_rm_one r p t) as [[] t1]; [by apply IH|done].
Qed.
Lemma S_cp_wf a b t : wf t -> wf (S_cp a b t).2.
Proof.
  intros Hwf. unfold S_cp. destruct (stat a t) as [[c|]|]; [|done|done].
  destruct (same_entry a b); [done|].
  destruct (put_file b c t) eqn:E; [|done]. by eapply put_file_wf.
Qed.
Lemma S_step_wf o t : wf t -> dom_step o t = true -> wf (S_step o t).2.
Proof.
  intros Hwf Hd. destruct o; cbn [S_step dom_step] in *; try done.
  - by apply S_write_wf.
  - unfold S_append. destruct (stat p t) as [[c|]|] eqn:Es; [|done|by apply S_write_wf].
    apply stat_file in Es as [Hl _]. by eapply wf_insert_over.
  - unfold S_read. destruct (stat p t) as [[c|]|]; [by destruct (utf8_decode c)|done|done].
  - by apply S_write_wf.
  - unfold S_readb. by destruct (stat p t) as [[c|]|].
  - unfold S_touch. destruct (stat p t) as [[c|]|]; [done|done|by apply S_write_wf].
  - unfold S_mkdir. destruct (mkdirs (pk p) t) eqn:E; [by eapply mkdirs_wf|done].
  - by apply S_cp_wf.
  - apply andb_true_iff in Hd as [[Ha Hb]%andb_true_iff _].
    unfold S_mv. destruct (stat a t) as [[c|]|]; [|done|done].
    pose proof (S_cp_wf a (mv_target a b t) t Hwf) as H1.
    destruct (S_cp a (mv_target a b t) t) as [o1 t1]. cbn [snd] in H1.
    pose proof (S_rm_one_wf false a t1 H1 (path_ok_nonempty _ Ha)) as H2.
    destruct o1; try done. by destruct (S_rm_one false a t1).
  - apply andb_true_iff in Hd as [Hps _]. unfold S_rm. destruct ps as [|p ps]; [done|].
    by apply S_rm_list_wf.
  - unfold S_rmdir. destruct (stat p t) as [[c|]|] eqn:Es; [done| |done].
    destruct (dir_empty t (pk p)) eqn:E; [|done]. apply wf_delete_leaf; [done|]. by apply dir_empty_spec.
  - unfold S_size. by destruct (stat p t) as [[c|]|].
Qed.

Lemma run_S_wf ops t : wf t -> in_domain ops t -> Forall (fun ot => wf ot.2) (run S_step ops t).
Proof.
  revert t; induction ops as [|o r IH]; intros t Hwf Hd; [by constructor|].
  destruct Hd as [Hd Hr]. cbn [run]. constructor; [by apply S_step_wf|].
  apply IH; [by apply S_step_wf|done].
Qed.

(* ---- histories ------------------------------------------------------------------------------------- *)
Theorem refines prn xdc xmd ops t :
  wf t -> in_domain ops t -> ~ Known ops t -> run (M_step prn xdc xmd) ops t = run S_step ops t.
Proof.
  revert t; induction ops as [|o r IH]; intros t Hwf Hd Hk; [done|].
  destruct Hd as [Hd Hr]. cbn [run].
  assert (known_step o t = 0%N) as H0.
  { destruct (N.eq_dec (known_step o t) 0) as [|Hn]; [done|]. exfalso. apply Hk. by left. }
  rewrite step_refines by done. f_equal.
  apply IH; [by apply S_step_wf|done|]. intros HK. apply Hk. by right.
Qed.

Lemma known_step_range o t :
  known_step o t = 0%N \/ known_step o t = 1%N \/ known_step o t = 3%N \/ known_step o t = 4%N.
Proof. destruct o; cbn [known_step]; repeat case_match; auto. Qed.
Lemma Known_classes ops t :
  Known ops t <-> KnownF15 ops t \/ KnownPartialParents ops t \/ KnownMvNoClobber ops t.
Proof.
  unfold Known, KnownF15, KnownPartialParents, KnownMvNoClobber.
  revert t; induction ops as [|o r IH]; intros t; cbn [known_at]; [tauto|].
  rewrite IH. destruct (known_step_range o t) as [E|[E|[E|E]]]; rewrite E; intuition congruence.
Qed.
Theorem refines_classes prn xdc xmd ops t :
  wf t -> in_domain ops t ->
  ~ KnownF15 ops t -> ~ KnownPartialParents ops t -> ~ KnownMvNoClobber ops t ->
  run (M_step prn xdc xmd) ops t = run S_step ops t.
Proof. intros Hwf Hd H1 H3 H4. apply refines; [done|done|]. rewrite Known_classes. tauto. Qed.

(* cp of a file onto itself (however the target is written, as long as it resolves): an error that
   changes nothing — in the commands and in the reference tree *)
Lemma cp_self_error xdc a b c t :
  stat a t = Some (File c) -> pk b = pk a -> ptr b = false ->
  M_cp xdc a b t = (OErr, t) /\ S_cp a b t = (OErr, t).
Proof.
  intros Es Hk Hp. unfold M_cp, S_cp, p_exists, p_is_file. rewrite Es. cbn [negb].
  rewrite (same_file_spec a b c t Es). unfold same_entry. rewrite Hp, Hk.
  by rewrite bool_decide_eq_true_2.
Qed.

(* mv of a file onto itself: an error that changes nothing — in the commands and in the reference
   tree (where it follows from "mv = copy then delete" and "cp onto itself fails") *)
Lemma mv_self_error prn xmd a b c t :
  stat a t = Some (File c) -> pk b = pk a -> ptr b = false -> ends_sep b = false ->
  M_mv prn xmd a b t = (OErr, t) /\ S_mv a b t = (OErr, t).
Proof.
  intros Es Hk Hp He. pose proof Es as [Hl Hpa]%stat_file.
  assert (stat b t = Some (File c)) as Eb by (apply stat_file; by rewrite Hk).
  assert (same_entry a b = true) as Hs.
  { unfold same_entry. rewrite Hp, Hk. by rewrite bool_decide_eq_true_2. }
  split.
  - unfold M_mv, p_exists, p_is_file. rewrite Es, Eb. cbn [negb andb].
    by rewrite (same_file_spec a b c t Es), Hs.
  - rewrite (S_mv_unfold _ _ _ _ Es). unfold mv_target, p_is_dir. rewrite Eb, He. cbn [orb]. by rewrite Hs.
Qed.
