(* FlowFnSites.v — the block sites of a compiled C05 program: for every if / while / for-in
   construct (and every function definition) its start line, end line and else lines, computed
   from the program tree and the compile layout.  Key fact ([sites_unique]): a line is a key
   (end line or else line) of at most one site.  This is what makes stale call-stack entries
   harmless under recursion: every entry for a given line carries the same block positions. *)
Require Import DS.Base DS.FlowTables DS.Flow DS.FlowFn DS.FlowFnTree DS.FlowFnDom DS.FlowFnScan DS.FlowFnSim.
Open Scope nat_scope.

Record site := mkSite { s_kind : option ckind; s_start : nat; s_end : nat; s_mids : list nat }.
Definition keys (x : site) : list nat := s_end x :: s_mids x.

Fixpoint sites_s (s : fstmt) (p : nat) : list site :=
  match s with
  | GIf _ _ b els _ =>
      mkSite (Some CkIf) p (S p + length (gb b) + length (ge els)) (gmid_pos els (S p + length (gb b)))
      :: sites_b b (S p) ++ sites_e els (S p + length (gb b))
  | GWhile _ _ b _ => mkSite (Some CkWhile) p (S p + length (gb b)) [] :: sites_b b (S p)
  | GFor _ _ _ b _ => mkSite (Some CkFor) p (S p + length (gb b)) [] :: sites_b b (S p)
  | _ => []
  end
with sites_b (b : fblock) (p : nat) : list site :=
  match b with GNil => [] | GCons s b' => sites_s s p ++ sites_b b' (p + length (gs s)) end
with sites_e (els : felses) (p : nat) : list site :=
  match els with
  | HNil => []
  | HElseIf _ _ b r => sites_b b (S p) ++ sites_e r (S p + length (gb b))
  | HElse _ b => sites_b b (S p)
  end.

(* a site lies within [a, b): start and end in the range, keys after the start up to the end *)
Definition within (a b : nat) (x : site) : Prop :=
  a <= s_start x /\ s_end x < b /\ forall k, In k (keys x) -> s_start x < k <= s_end x.
Definition uniq (l : list site) : Prop :=
  forall x y k, In x l -> In y l -> In k (keys x) -> In k (keys y) -> x = y.

Lemma within_weaken a b a' b' x : a' <= a -> b <= b' -> within a b x -> within a' b' x.
Proof. unfold within. intros H1 H2 (A & B & C). repeat split; try lia; apply C; auto. Qed.

Lemma uniq_app (A B : list site) a1 a2 b1 b2 :
  uniq A -> uniq B -> (forall x, In x A -> within a1 a2 x) -> (forall y, In y B -> within b1 b2 y) ->
  a2 <= b1 -> uniq (A ++ B).
Proof.
  intros UA UB WA WB Hd x y k Hx Hy Kx Ky.
  apply in_app_or in Hx. apply in_app_or in Hy.
  destruct Hx as [Hx|Hx], Hy as [Hy|Hy]; eauto.
  - exfalso. destruct (WA x Hx) as (A1 & A2 & A3). destruct (WB y Hy) as (B1 & B2 & B3).
    specialize (A3 k Kx). specialize (B3 k Ky). lia.
  - exfalso. destruct (WB x Hx) as (A1 & A2 & A3). destruct (WA y Hy) as (B1 & B2 & B3).
    specialize (A3 k Kx). specialize (B3 k Ky). lia.
Qed.

Lemma gs_length_if sp c b els e : length (gs (GIf sp c b els e)) = S (S (length (gb b) + length (ge els))).
Proof. cbn [gs length]. rewrite !app_length. cbn [length]. lia. Qed.
Lemma gs_length_while sp c b e : length (gs (GWhile sp c b e)) = S (S (length (gb b))).
Proof. cbn [gs length]. rewrite !app_length. cbn [length]. lia. Qed.
Lemma gs_length_for sp x hv b e : length (gs (GFor sp x hv b e)) = S (S (length (gb b))).
Proof. cbn [gs length]. rewrite !app_length. cbn [length]. lia. Qed.

(* the sites of the else chain placed at L: strictly between the else lines *)
Definition between_mids (els : felses) (L : nat) (x : site) : Prop :=
  within (S L) (L + length (ge els)) x /\ forall k, In k (keys x) -> ~ In k (gmid_pos els L).

Lemma sites_within :
  (forall s p x, In x (sites_s s p) -> within p (p + length (gs s)) x) /\
  (forall b p x, In x (sites_b b p) -> within p (p + length (gb b)) x) /\
  (forall els p x, In x (sites_e els p) -> between_mids els p x).
Proof.
  apply fsyntax_ind.
  - intros p0 p x H. contradiction.
  - intros sp c b IHb els IHe e p x H. rewrite gs_length_if. cbn [sites_s In] in H.
    destruct H as [<-|H].
    + unfold within, keys. cbn [s_start s_end s_mids In]. split; [lia|]. split; [lia|].
      intros k [<-|Hk]; [lia|]. apply gmid_pos_range in Hk. lia.
    + apply in_app_or in H. destruct H as [H|H].
      * eapply within_weaken; [| |apply (IHb (S p) x H)]; lia.
      * destruct (IHe (S p + length (gb b)) x H) as (W & _). eapply within_weaken; [| |exact W]; lia.
  - intros sp c b IHb e p x H. rewrite gs_length_while. cbn [sites_s In] in H. destruct H as [<-|H].
    + unfold within, keys. cbn [s_start s_end s_mids In]. split; [lia|]. split; [lia|].
      intros k [<-|[]]. lia.
    + eapply within_weaken; [| |apply (IHb (S p) x H)]; lia.
  - intros sp y hv b IHb e p x H. rewrite gs_length_for. cbn [sites_s In] in H. destruct H as [<-|H].
    + unfold within, keys. cbn [s_start s_end s_mids In]. split; [lia|]. split; [lia|].
      intros k [<-|[]]. lia.
    + eapply within_weaken; [| |apply (IHb (S p) x H)]; lia.
  - intros out f args p x H. contradiction.
  - intros sp a p x H. contradiction.
  - intros p x H. contradiction.
  - intros s IHs b IHb p x H. cbn [sites_b] in H. cbn [gb]. rewrite app_length.
    apply in_app_or in H. destruct H as [H|H].
    + eapply within_weaken; [| |apply (IHs p x H)]; lia.
    + eapply within_weaken; [| |apply (IHb _ x H)]; lia.
  - intros p x H. contradiction.
  - intros sp c b IHb r IHr p x H. cbn [sites_e] in H. unfold between_mids. cbn [ge length gmid_pos]. rewrite app_length.
    apply in_app_or in H. destruct H as [H|H].
    + pose proof (IHb (S p) x H) as W. split.
      * eapply within_weaken; [| |exact W]; lia.
      * intros k Hk [E|Hin].
        -- destruct W as (A & B & C). specialize (C k Hk). lia.
        -- apply gmid_pos_range in Hin. destruct W as (A & B & C). specialize (C k Hk). lia.
    + destruct (IHr _ x H) as (W & N). split.
      * eapply within_weaken; [| |exact W]; lia.
      * intros k Hk [E|Hin]; [|exact (N k Hk Hin)].
        destruct W as (A & B & C). specialize (C k Hk). lia.
  - intros sp b IHb p x H. cbn [sites_e] in H. unfold between_mids. cbn [ge length gmid_pos].
    pose proof (IHb (S p) x H) as W. split.
    + eapply within_weaken; [| |exact W]; lia.
    + intros k Hk [E|[]]. destruct W as (A & B & C). specialize (C k Hk). lia.
Qed.

Lemma uniq_cons x l :
  uniq l -> (forall y k, In y l -> In k (keys x) -> ~ In k (keys y)) -> uniq (x :: l).
Proof.
  intros U D a b k Ha Hb Ka Kb. destruct Ha as [<-|Ha], Hb as [<-|Hb]; auto.
  - exfalso. exact (D b k Hb Ka Kb).
  - exfalso. exact (D a k Ha Kb Ka).
  - eapply U; eauto.
Qed.

Lemma sites_uniq :
  (forall s p, uniq (sites_s s p)) /\ (forall b p, uniq (sites_b b p)) /\ (forall els p, uniq (sites_e els p)).
Proof.
  destruct sites_within as (Ws & Wb & We).
  apply fsyntax_ind.
  - intros p0 p x y k H. contradiction.
  - intros sp c b IHb els IHe e p. cbn [sites_s]. apply uniq_cons.
    + eapply uniq_app; [apply IHb|apply IHe|apply Wb| |].
      * intros y Hy. destruct (We els _ y Hy) as (W & _). exact W.
      * lia.
    + intros y k Hy Kx Ky. unfold keys at 1 in Kx. cbn [s_end s_mids] in Kx. apply in_app_or in Hy. destruct Hy as [Hy|Hy].
      * destruct (Wb b (S p) y Hy) as (A & B & C). specialize (C k Ky).
        destruct Kx as [<-|Kx]; [lia|]. apply gmid_pos_range in Kx. lia.
      * destruct (We els _ y Hy) as ((A & B & C) & N). specialize (C k Ky).
        destruct Kx as [<-|Kx]; [lia|]. exact (N k Ky Kx).
  - intros sp c b IHb e p. cbn [sites_s]. apply uniq_cons; [apply IHb|].
    intros y k Hy [<-|[]] Ky. destruct (Wb b (S p) y Hy) as (A & B & C). specialize (C _ Ky). cbn [s_end] in C. lia.
  - intros sp x hv b IHb e p. cbn [sites_s]. apply uniq_cons; [apply IHb|].
    intros y k Hy [<-|[]] Ky. destruct (Wb b (S p) y Hy) as (A & B & C). specialize (C _ Ky). cbn [s_end] in C. lia.
  - intros out f args p x y k H. contradiction.
  - intros sp a p x y k H. contradiction.
  - intros p x y k H. contradiction.
  - intros s IHs b IHb p. cbn [sites_b]. eapply uniq_app; [apply IHs|apply IHb|apply Ws|apply Wb|lia].
  - intros p x y k H. contradiction.
  - intros sp c b IHb r IHr p. cbn [sites_e].
    eapply uniq_app; [apply IHb|apply IHr|apply Wb| |].
    + intros y Hy. destruct (We r _ y Hy) as (W & _). exact W.
    + lia.
  - intros sp b IHb p. cbn [sites_e]. apply IHb.
Qed.

(* ---- the whole program ------------------------------------------------------------------------------ *)
Fixpoint def_sites (l : list (fndef * nat)) : list site :=
  match l with
  | [] => []
  | (d, s) :: r => (mkSite None s (d_end d s) [] :: sites_b (fd_body d) (S s)) ++ def_sites r
  end.
Definition prog_sites (pr : prog) : list site :=
  def_sites (layout (p_defs pr) 0) ++ sites_b (p_main pr) (length (gdefs (p_defs pr))).

Lemma def_sites_within : forall ds s0 x, In x (def_sites (layout ds s0)) ->
  within s0 (s0 + length (gdefs ds)) x.
Proof.
  induction ds as [|d r IH]; intros s0 x H; cbn [layout def_sites gdefs] in *; [contradiction|].
  rewrite app_length, gdef_length. apply in_app_or in H. destruct H as [[<-|H]|H].
  - unfold within, d_end, keys. cbn [s_start s_end s_mids In]. split; [lia|]. split; [lia|]. intros k [<-|[]]. lia.
  - destruct sites_within as (_ & Wb & _). eapply within_weaken; [| |apply (Wb _ _ x H)]; lia.
  - rewrite gdef_length in H. eapply within_weaken; [| |apply (IH _ x H)]; lia.
Qed.
Lemma def_sites_uniq : forall ds s0, uniq (def_sites (layout ds s0)).
Proof.
  induction ds as [|d r IH]; intros s0; cbn [layout def_sites]; [intros x y k H; contradiction|].
  destruct sites_within as (_ & Wb & _). destruct sites_uniq as (_ & Ub & _).
  eapply (uniq_app _ _ s0 (s0 + length (gdef d)) (s0 + length (gdef d)) (s0 + length (gdef d) + length (gdefs r)));
    [|apply IH| |apply def_sites_within|lia].
  - apply uniq_cons; [apply Ub|]. intros y k Hy [<-|[]] Ky.
    cbn [s_end] in Ky. destruct (Wb _ _ y Hy) as (A & B & C). specialize (C _ Ky). unfold d_end in C. lia.
  - rewrite gdef_length. intros x [<-|H].
    + unfold within, d_end, keys. cbn [s_start s_end s_mids In]. split; [lia|]. split; [lia|]. intros k [<-|[]]. lia.
    + eapply within_weaken; [| |apply (Wb _ _ x H)]; lia.
Qed.
Theorem sites_unique pr : uniq (prog_sites pr).
Proof.
  unfold prog_sites. destruct sites_within as (_ & Wb & _). destruct sites_uniq as (_ & Ub & _).
  eapply uniq_app; [apply def_sites_uniq|apply Ub|apply def_sites_within|apply Wb|lia].
Qed.
