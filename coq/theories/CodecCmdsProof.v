(* CodecCmdsProof.v — C17: the command models of CodecCmds.v never panic, and the round-trip statements of props/C17.v
   (C17_utf8, C17_b64, C17_text_b64) hold THROUGH the commands: what string_to_bytes stores is read back by bytes_to_string,
   what base64_encode prints is stored back by base64_decode, for every state of the handle table. *)
Require Import DS.Base DS.Utf8 DS.Strings DS.Codec DS.CodecProof DS.CodecProps DS.CodecPropsProof DS.Rs2vCodecLib DS.CodecCmds.

Definition cdefined (r : cres) : Prop := r <> CPanic /\ r <> CFuel.

Lemma ht_get_insert k v t : ht_get k (ht_insert k v t) = Some v.
Proof.
  induction t as [|[k' v'] t IH]; cbn.
  - now rewrite str_eqb_refl.
  - destruct (str_eqb k' k) eqn:E; cbn.
    + now rewrite str_eqb_refl.
    + now rewrite E.
Qed.

Lemma ht_get_insert_ne k k' v t : k' <> k -> ht_get k' (ht_insert k v t) = ht_get k' t.
Proof.
  intros Hne. induction t as [|[k0 v0] t IH]; cbn.
  - destruct (str_eqb_spec k k'); [congruence|reflexivity].
  - destruct (str_eqb_spec k0 k) as [->|N0]; cbn.
    + destruct (str_eqb_spec k k'); [congruence|reflexivity].
    + destruct (str_eqb_spec k0 k'); [reflexivity|exact IH].
Qed.

Lemma put_handle_get rnd v s : ht_get (fst (put_handle rnd v s)) (handles (snd (put_handle rnd v s))) = Some v.
Proof. apply ht_get_insert. Qed.

(* ---- no argument vector and no state reaches a panic ---------------------------------------------------------------- *)
Lemma cmd_string_to_bytes_defined rnd args s : cdefined (fst (cmd_string_to_bytes rnd args s)).
Proof. destruct args; cbn; split; discriminate. Qed.
Lemma cmd_bytes_to_string_defined args s : cdefined (fst (cmd_bytes_to_string args s)).
Proof.
  destruct args as [|key r]; cbn; [split; discriminate|]. unfold bytes_at.
  destruct (ht_get key (handles s)) as [[]|]; cbn; try (split; discriminate).
  destruct (utf8_decode bs); cbn; split; discriminate.
Qed.
Lemma cmd_base64_encode_defined args s : cdefined (fst (cmd_base64_encode args s)).
Proof.
  destruct args as [|key r]; cbn; [split; discriminate|]. unfold bytes_at.
  destruct (ht_get key (handles s)) as [[]|]; cbn; split; discriminate.
Qed.
Lemma cmd_base64_decode_defined rnd args s : cdefined (fst (cmd_base64_decode rnd args s)).
Proof. destruct args as [|a r]; cbn; [split; discriminate|]. destruct (b64_decode a); cbn; split; discriminate. Qed.

Lemma for_each_ret_props_no_panic p m : forall acc e, for_each_ret (props_step p) m acc = inr e -> e <> CPanic.
Proof.
  induction m as [|kv m IH]; intros acc e; cbn; [discriminate|]. unfold props_step at 1.
  destruct (sval_as_string (snd kv)); [apply IH|]. intros [= <-]. discriminate.
Qed.
Lemma map_to_properties_at_no_panic p key s : fst (map_to_properties_at p key s) <> CPanic.
Proof.
  unfold map_to_properties_at. destruct (ht_get key (handles s)) as [[]|]; cbn; try discriminate.
  destruct (for_each_ret (props_step p) m []) as [props|e] eqn:E; cbn.
  - destruct (pp_write props); cbn; try discriminate. destruct (utf8_decode a); cbn; discriminate.
  - exact (for_each_ret_props_no_panic _ _ _ _ E).
Qed.
(* the writer's fuel (CFuel) is excluded on clean input by C17_properties_fuel / C17_properties_writer, not here *)
Lemma cmd_map_to_properties_run_no_panic args s : fst (cmd_map_to_properties_run args s) <> CPanic.
Proof.
  destruct args as [|a0 [|a1 [|a2 r]]]; cbn; try discriminate; try apply map_to_properties_at_no_panic.
  destruct (str_eqb a0 s_prefix_flag); apply map_to_properties_at_no_panic.
Qed.

(* ---- C17_properties: the command model of map_to_properties on a map of strings IS CodecProps.cmd_map_to_properties ---- *)
Definition strmap (ms : list (str * str)) : list (str * sval) := map (fun kv => (fst kv, SString (snd kv))) ms.

Lemma props_loop_strmap p ms : forall acc,
  for_each_ret (props_step p) (strmap ms) acc = inl (ins_all (pp_prefix_map p ms) acc).
Proof.
  induction ms as [|[k v] r IH]; intros acc; [reflexivity|].
  cbn [strmap map for_each_ret]. unfold props_step at 1. cbn [fst snd sval_as_string]. fold (strmap r). rewrite IH. reflexivity.
Qed.

Lemma map_to_properties_at_strmap p key ms s :
  ht_get key (handles s) = Some (SSub (strmap ms)) -> NoDup (map fst ms) ->
  map_to_properties_at p key s = (cres_of_pres (cmd_map_to_properties p ms), s).
Proof.
  intros G N. unfold map_to_properties_at. rewrite G, props_loop_strmap.
  rewrite (ins_all_nodup _ []) by (cbn [app]; apply prefix_map_nodup; exact N). cbn [app].
  unfold cmd_map_to_properties, pres_bind. destruct (pp_write (pp_prefix_map p ms)); cbn [cres_of_pres]; try reflexivity.
  destruct (utf8_decode a); reflexivity.
Qed.

(* with the flag and without it (the handle is then the first argument, also when more arguments follow) *)
Lemma cmds_map_to_properties_link p key ms rest s :
  ht_get key (handles s) = Some (SSub (strmap ms)) -> NoDup (map fst ms) ->
  cmd_map_to_properties_run (s_prefix_flag :: p :: key :: rest) s = (cres_of_pres (cmd_map_to_properties p ms), s) /\
  cmd_map_to_properties_run [key] s = (cres_of_pres (cmd_map_to_properties [] ms), s).
Proof.
  intros G N. split.
  - cbn [cmd_map_to_properties_run]. rewrite str_eqb_refl. now apply map_to_properties_at_strmap.
  - cbn [cmd_map_to_properties_run]. now apply map_to_properties_at_strmap.
Qed.

(* ---- C17_utf8 through the commands: bytes_to_string (string_to_bytes text) = text ---------------------------------- *)
Lemma cmds_utf8_roundtrip rnd text rest rest' s : forallb scalar text = true ->
  exists key s1, cmd_string_to_bytes rnd (text :: rest) s = (CVal key, s1) /\
                 ht_get key (handles s1) = Some (SBytes (utf8_encode text)) /\
                 cmd_bytes_to_string (key :: rest') s1 = (CVal text, s1).
Proof.
  intros H. eexists _, _. split; [reflexivity|]. split; [apply put_handle_get|].
  cbn [cmd_bytes_to_string]. unfold bytes_at. rewrite put_handle_get, (utf8_roundtrip _ H). reflexivity.
Qed.

(* ---- C17_b64 through the commands: base64_decode (base64_encode handle) stores the bytes of the handle ------------- *)
Lemma cmds_b64_roundtrip rnd key bs rest rest' s : ht_get key (handles s) = Some (SBytes bs) -> bytes bs ->
  cmd_base64_encode (key :: rest) s = (CVal (b64_encode bs), s) /\
  exists key' s1, cmd_base64_decode rnd (b64_encode bs :: rest') s = (CVal key', s1) /\
                  ht_get key' (handles s1) = Some (SBytes bs).
Proof.
  intros G B. split.
  - cbn [cmd_base64_encode]. unfold bytes_at. now rewrite G.
  - cbn [cmd_base64_decode]. rewrite (b64_roundtrip _ B). eexists _, _. split; [reflexivity|apply put_handle_get].
Qed.

(* ---- C17_text_b64 through the four commands: text -> bytes -> base64 -> bytes -> the same text --------------------- *)
Lemma cmds_text_b64_roundtrip rnd text s : forallb scalar text = true ->
  exists k1 s1 k2 s2,
    cmd_string_to_bytes rnd [text] s = (CVal k1, s1) /\
    cmd_base64_encode [k1] s1 = (CVal (b64_encode (utf8_encode text)), s1) /\
    cmd_base64_decode rnd [b64_encode (utf8_encode text)] s1 = (CVal k2, s2) /\
    cmd_bytes_to_string [k2] s2 = (CVal text, s2).
Proof.
  intros H. destruct (cmds_utf8_roundtrip rnd text [] [] s H) as (k1 & s1 & E1 & G1 & _).
  destruct (cmds_b64_roundtrip rnd k1 _ [] [] s1 G1 (utf8_encode_bytes _ H)) as (E2 & k2 & s2 & E3 & G2).
  exists k1, s1, k2, s2. repeat split; try assumption.
  cbn [cmd_bytes_to_string]. unfold bytes_at. rewrite G2, (utf8_roundtrip _ H). reflexivity.
Qed.

(* the handle table only grows by the one fresh entry: every other handle still answers as before *)
Lemma put_handle_other rnd v s k : k <> fst (put_handle rnd v s) ->
  ht_get k (handles (snd (put_handle rnd v s))) = ht_get k (handles s).
Proof. intros Hne. cbn. now apply ht_get_insert_ne. Qed.

(* non-vacuity: "hé" -> C3 A9 bytes -> "aMOp" -> the same bytes -> "hé", from the empty state, with the key "k0" / "k1" *)
Example cmds_nonvacuous :
  let rnd := fun n => [107; 48 + N.of_nat n] in
  let s0 := CS [] 0 in
  let '(r1, s1) := cmd_string_to_bytes rnd [[104; 233]] s0 in
  let '(r2, s2) := cmd_base64_encode [[107; 48]] s1 in
  let '(r3, s3) := cmd_base64_decode rnd [[97; 77; 79; 112]] s2 in
  let '(r4, s4) := cmd_bytes_to_string [[107; 49]] s3 in
  r1 = CVal [107; 48] /\ r2 = CVal [97; 77; 79; 112] /\ r3 = CVal [107; 49] /\ r4 = CVal [104; 233] /\
  handles s4 = [([107; 48], SBytes [104; 195; 169]); ([107; 49], SBytes [104; 195; 169])] /\
  fst (cmd_bytes_to_string [[107; 50]] s4) = CErr ce_notfound 0 /\
  fst (cmd_base64_decode rnd [[97; 77; 79]] s4) = CErr ce_b64 0 /\
  fst (cmd_bytes_to_string [[107; 48]] (CS [([107; 48], SBytes [233])] 1)) = CErr pe_utf8 0 /\
  fst (cmd_base64_encode [[107; 48]] (CS [([107; 48], SString [120])] 1)) = CErr ce_kind 0.
Proof. vm_compute. repeat split. Qed.
