(* SmallnatGenTie.v — the small native commands the flow / wrapped-call models pass through equal the Gallina translation of
   their current source (coq/generated/GenSmallnatFn.v, regenerated on every run by lib/gen/smallnat_gen.py):

     end::get_command + end::CommandImpl::run   Flow.step_end (C04), FlowFn.step_end_fn (C05): the end-table lookup and the
                                                dispatch to the stored end command ([end_dispatch] / [end_dispatch_fn], which
                                                ARE the machine's own step of the instruction `<stored name>` at that line:
                                                end_dispatch_step / end_dispatch_fn_step);
     goto::run                                  [goto_cmd] (defined here: the runner model takes commands as a parameter);
     not::run                                   [not_cmd]  (defined here; the models fold `not` into the condition layer:
                                                not_cmd_cnot — Flow.eval_cond (CNot c) —, not_cmd_fcnot — the FCNot arm of
                                                FlowFnC.ceval);
     noop::run                                  [noop_cmd];
     eval::run / utils::eval::eval_with_error / eval   [eval_cmd] (defined here; SmallnatLink.v instantiates its parse callee
                                                with EvalSer.eval_parse).

   As in FlowifGenTie.v the `end` ties are stated on the image of the embedding [emb lcn] / [embC lcn] of model states, for
   EVERY constant line context name lcn.  Proof style: every lemma compiles against the real generated file AND against
   the all-stub file: flags are unfolded and discriminated first, every later sentence is prefixed with `all:`, no generated
   variable names are used. *)
Require Import DS.Base DS.Strings DS.StringsProof DS.Cond DS.FlowTables DS.FlowScan DS.Flow DS.FlowFn DS.FlowFnC.
Require Import DS.FlowifGenLib DS.FlowifGenTie DS.SmallnatGenLib.
Require Import DSG.GenFlowNames DSG.GenFnNames DSG.GenFlowifFn DSG.GenSmallnatFn.
Open Scope nat_scope.

(* ---- end::get_command ----------------------------------------------------------------------------------------------- *)
Lemma gen_end_get_command_eq : gen_get_line_key_understood = true -> gen_end_get_command_understood = true ->
  forall (X : Type) (x : X) lcn line f, gen_end_get_command line (emb_gen x lcn f) = aget Nat.eqb line (f_end f).
Proof.
  unfold gen_get_line_key_understood, gen_end_get_command_understood; intros U1 U2; try discriminate U1; try discriminate U2.
  all: clear U1 U2.
  all: intros X x lcn line f.
  all: unfold gen_end_get_command.
  all: rewrite (gen_get_line_key_eq eq_refl).
  all: cbn [emb_gen gis_end].
  all: rewrite aget_emb.
  all: destruct (aget Nat.eqb line (f_end f)); reflexivity.
Qed.

Lemma gen_end_get_command_emb : gen_get_line_key_understood = true -> gen_end_get_command_understood = true ->
  forall lcn line s, gen_end_get_command line (emb lcn s) = aget Nat.eqb line (f_end (snd s)).
Proof. intros U1 U2 lcn line s. unfold emb. apply (gen_end_get_command_eq U1 U2). Qed.

Lemma gen_end_get_command_embC : gen_get_line_key_understood = true -> gen_end_get_command_understood = true ->
  forall lcn line s, gen_end_get_command line (embC lcn s) = aget Nat.eqb line (f_end (snd (fst s))).
Proof. intros U1 U2 lcn line s. unfold embC. apply (gen_end_get_command_eq U1 U2). Qed.

(* ---- end::CommandImpl::run, the machine of C04 ---------------------------------------------------------------------- *)
(* what running the stored command `name`, without arguments, at this line does in the C04 machine *)
Definition end_dispatch (line : nat) (name : str) (s : state) : cres * state :=
  match classify name with
  | KEndIf => (RContinue, s)
  | KEndWhile => step_endwhile line s
  | KEndFor => step_endfor line s
  | _ => (RError 6, s)
  end.

Lemma step_end_unfold line s :
  step_end line s = match aget Nat.eqb line (f_end (snd s)) with
                    | None => (RContinue, s)
                    | Some name => end_dispatch line name s
                    end.
Proof. reflexivity. Qed.

Definition is_end_kind (k : kind) : bool :=
  match k with KEndIf | KEndWhile | KEndFor => true | _ => false end.

(* ... which is the machine's own step (runner::run_instruction + the command) of the instruction `name` at that line *)
Lemma end_dispatch_step P line name s : is_end_kind (classify name) = true ->
  end_dispatch line name s = step P line (mkI (Some name) ANone) s.
Proof.
  unfold end_dispatch, step; cbn [i_cmd i_arg].
  destruct (classify name); intros H; try discriminate H; reflexivity.
Qed.

(* [ri] is a run_instruction on translation states that does what the machine does on model states *)
Definition ri_sim (lcn : str) (ri : str -> nat -> gis state -> cres * gis state) : Prop :=
  forall name line s,
    ri name line (emb lcn s) = (fst (end_dispatch line name s), emb lcn (snd (end_dispatch line name s))).

Lemma gen_end_run_eq :
  gen_get_line_key_understood = true -> gen_end_get_command_understood = true -> gen_end_run_understood = true ->
  forall lcn ri line s, ri_sim lcn ri ->
    gen_end_run ri line (emb lcn s) = (fst (step_end line s), emb lcn (snd (step_end line s))).
Proof.
  intros U1 U2. unfold gen_end_run_understood; intros U3; try discriminate U3.
  all: clear U3.
  all: intros lcn ri line s H.
  all: unfold gen_end_run.
  all: rewrite (gen_end_get_command_emb U1 U2), step_end_unfold.
  all: destruct (aget Nat.eqb line (f_end (snd s))) as [name|]; [|reflexivity].
  all: rewrite H; reflexivity.
Qed.

(* ---- end::CommandImpl::run, the machines of C05 ------------------------------------------------------------------------ *)
Definition end_dispatch_fn (line : nat) (name : str) (s : fstate) : cres * fstate :=
  let '(w, f, g) := s in
  match classify_fn name with
  | FKEndFunction => step_endfn line s
  | FKBase KEndIf => (RContinue, s)
  | FKBase KEndWhile => let (r, s') := step_endwhile line (w, f) in (r, (s', g))
  | FKBase KEndFor => let (r, s') := step_endfor line (w, f) in (r, (s', g))
  | _ => (RError 6, s)
  end.

Lemma step_end_fn_unfold line s :
  step_end_fn line s = match aget Nat.eqb line (f_end (snd (fst s))) with
                       | None => (RContinue, s)
                       | Some name => end_dispatch_fn line name s
                       end.
Proof. destruct s as [[w f] g]. reflexivity. Qed.

Definition is_end_kind_fn (k : fkind) : bool :=
  match k with FKEndFunction => true | FKBase k' => is_end_kind k' | _ => false end.

Lemma end_dispatch_fn_step P line name s : is_end_kind_fn (classify_fn name) = true ->
  end_dispatch_fn line name s = fstep P line (mkFI (Some name) (FBase ANone)) s.
Proof.
  destruct s as [[w f] g]. unfold end_dispatch_fn, fstep; cbn [fi_cmd fi_arg].
  unfold classify_fn.
  destruct (str_in name n_function); [intros H; discriminate H|].
  destruct (str_in name n_endfunction); [reflexivity|].
  destruct (str_in name n_return); [intros H; discriminate H|].
  cbn [is_end_kind_fn]. unfold lift, step, down; cbn [i_cmd i_arg fi_cmd fi_arg].
  destruct (classify name); intros H; try discriminate H.
  - reflexivity.
  - destruct (step_endwhile line (w, f)); reflexivity.
  - destruct (step_endfor line (w, f)); reflexivity.
Qed.

Definition ri_sim_fn (lcn : str) (ri : str -> nat -> gis fstate -> cres * gis fstate) : Prop :=
  forall name line s,
    ri name line (embC lcn s) = (fst (end_dispatch_fn line name s), embC lcn (snd (end_dispatch_fn line name s))).

Lemma gen_end_run_fn_eq :
  gen_get_line_key_understood = true -> gen_end_get_command_understood = true -> gen_end_run_understood = true ->
  forall lcn ri line s, ri_sim_fn lcn ri ->
    gen_end_run ri line (embC lcn s) = (fst (step_end_fn line s), embC lcn (snd (step_end_fn line s))).
Proof.
  intros U1 U2. unfold gen_end_run_understood; intros U3; try discriminate U3.
  all: clear U3.
  all: intros lcn ri line s H.
  all: unfold gen_end_run.
  all: rewrite (gen_end_get_command_embC U1 U2), step_end_fn_unfold.
  all: destruct (aget Nat.eqb line (f_end (snd (fst s)))) as [name|]; [|reflexivity].
  all: rewrite H; reflexivity.
Qed.

(* ---- goto -------------------------------------------------------------------------------------------------------------- *)
Definition s_colon : str := [58%N].
Definition goto_cmd (args : list str) : sres :=
  match args with
  | [] => SError 50
  | [l] => if sn_starts_with s_colon l then SGoto None (SLabel l) else SError 52
  | _ :: _ :: _ => SError 51
  end.

Lemma gen_goto_run_eq : gen_goto_run_understood = true -> forall args, gen_goto_run args = goto_cmd args.
Proof.
  unfold gen_goto_run_understood; intros U; try discriminate U. all: clear U.
  all: intros args.
  all: destruct args as [|a [|b r]]; reflexivity.
Qed.

(* the only jump goto makes: to the LABEL that is its single argument, which begins with ':'; no output *)
Lemma goto_cmd_jump args o g :
  goto_cmd args = SGoto o g <-> exists l, args = [l] /\ sn_starts_with s_colon l = true /\ o = None /\ g = SLabel l.
Proof.
  split.
  - destruct args as [|a [|b r]]; cbn [goto_cmd]; try discriminate.
    destruct (sn_starts_with s_colon a) eqn:E; [|discriminate].
    intros H; injection H as <- <-. exists a. auto.
  - intros (l & -> & E & -> & ->). cbn [goto_cmd]. rewrite E. reflexivity.
Qed.
Lemma goto_cmd_outcomes args : (exists l, goto_cmd args = SGoto None (SLabel l)) \/ (exists c, goto_cmd args = SError c).
Proof.
  destruct args as [|a [|b r]]; cbn [goto_cmd]; eauto.
  destruct (sn_starts_with s_colon a); eauto.
Qed.
Lemma goto_cmd_no_panic args : goto_cmd args <> SPanic.
Proof. destruct (goto_cmd_outcomes args) as [[l ->]|[c ->]]; discriminate. Qed.

(* ---- not --------------------------------------------------------------------------------------------------------------- *)
Definition not_cmd {S : Type} (evc : list str -> S -> option bool * S) (args : list str) (st : S) : sres * S :=
  match args with
  | [] => (SError 10, st)
  | _ :: _ => match evc args st with
              | (Some b, st') => (SContinue (Some (sn_bool_str (negb b))), st')
              | (None, st') => (SError 30, st')
              end
  end.

Lemma gen_not_run_eq : gen_not_run_understood = true ->
  forall (X : Type) evc args (st : gis X), gen_not_run evc args st = not_cmd evc args st.
Proof.
  unfold gen_not_run_understood; intros U; try discriminate U. all: clear U.
  all: intros X evc args st.
  all: destruct args; reflexivity.
Qed.

(* a condition position reads the output of a command back with is_true *)
Lemma is_true_bool_str b : is_true (Some (sn_bool_str b)) = b.
Proof. destruct b; vm_compute; reflexivity. Qed.

(* what a condition position makes of the result of the command it ran *)
Definition cond_outcome {S : Type} (r : sres * S) : option (bool * S) :=
  match fst r with SContinue o => Some (is_true o, snd r) | _ => None end.

(* the machine of C04: `not <c>` evaluated by Flow.eval_cond is the CNot arm *)
Lemma not_cmd_cnot lcn c a args w f :
  not_cmd (evc_base c) (a :: args) (emb lcn (w, f))
  = (SContinue (Some (sn_bool_str (fst (eval_cond (CNot c) w)))), emb lcn (snd (eval_cond (CNot c) w), f)).
Proof.
  unfold not_cmd, evc_base, emb; cbn [fst snd emb_gen gis_x gis_lcn gis_meta gis_stk gis_end eval_cond].
  destruct (eval_cond c w) as [b w']; reflexivity.
Qed.
Lemma not_cmd_cnot_outcome lcn c a args w f :
  cond_outcome (not_cmd (evc_base c) (a :: args) (emb lcn (w, f)))
  = Some (fst (eval_cond (CNot c) w), emb lcn (snd (eval_cond (CNot c) w), f)).
Proof. rewrite not_cmd_cnot. unfold cond_outcome; cbn [fst snd]. rewrite is_true_bool_str. reflexivity. Qed.

(* the machines of C05: for every evaluator [evc] on translation states that does what the model's evaluator does *)
Lemma not_cmd_fcnot lcn (ev : ev_t) c evc a args s : evc_sim lcn ev c evc ->
  not_cmd evc (a :: args) (embC lcn s)
  = match ev c s with
    | Some (b, s') => (SContinue (Some (sn_bool_str (negb b))), embC lcn s')
    | None => (SError 30, embC lcn s)
    end.
Proof.
  intros H. unfold not_cmd. rewrite H. destruct (ev c s) as [[b s']|]; reflexivity.
Qed.
(* ... the FCNot arm of FlowFnC.ceval *)
Lemma not_cmd_ceval lcn k P c evc a args s : evc_sim lcn (ceval k P) c evc ->
  cond_outcome (not_cmd evc (a :: args) (embC lcn s))
  = option_map (fun p => (fst p, embC lcn (snd p))) (ceval (S k) P (FCNot c) s).
Proof.
  intros H. rewrite (not_cmd_fcnot _ _ _ _ _ _ _ H). cbn [ceval].
  destruct (ceval k P c s) as [[b s']|]; unfold cond_outcome; cbn [fst snd option_map]; [|reflexivity].
  rewrite is_true_bool_str. reflexivity.
Qed.

(* ---- noop -------------------------------------------------------------------------------------------------------------- *)
Definition noop_cmd : sres := SContinue None.
Lemma gen_noop_run_eq : gen_noop_run_understood = true -> gen_noop_run = noop_cmd.
Proof.
  unfold gen_noop_run_understood; intros U; try discriminate U. all: clear U.
  all: reflexivity.
Qed.

(* ---- eval -------------------------------------------------------------------------------------------------------------- *)
Definition crash_to_error (r : sres) : sres := match r with SCrash c => SError c | _ => r end.
(* eval::CommandImpl::run = eval_with_error: nothing to do without arguments; otherwise the rebuilt line is parsed and the
   ONE parsed instruction is run at line 0 (with no instruction list); a Crash becomes an Error *)
Definition eval_cmd {S I : Type} (parse : list str -> option I) (ri : I -> nat -> S -> sres * S) (args : list str) (st : S)
  : sres * S :=
  match args with
  | [] => (SContinue None, st)
  | _ :: _ => match parse args with
              | Some i => (crash_to_error (fst (ri i 0 st)), snd (ri i 0 st))
              | None => (SError 40, st)
              end
  end.

Lemma gen_eval_run_eq :
  gen_eval_understood = true -> gen_eval_with_error_understood = true -> gen_eval_run_understood = true ->
  forall (X I : Type) (parse : list str -> option I) ri args (st : gis X),
    gen_eval_run parse ri args st = eval_cmd parse ri args st.
Proof.
  unfold gen_eval_understood, gen_eval_with_error_understood, gen_eval_run_understood; intros U1 U2 U3;
    try discriminate U1; try discriminate U2; try discriminate U3.
  all: clear U1 U2 U3.
  all: intros X I parse ri args st.
  all: unfold gen_eval_run, gen_eval_with_error, gen_eval, eval_cmd.
  all: destruct args as [|a args]; [reflexivity|].
  all: destruct (parse (a :: args)) as [i|]; [|reflexivity].
  all: destruct (ri i 0 st) as [r st']; destruct r; reflexivity.
Qed.

Lemma eval_cmd_no_panic {S I : Type} (parse : list str -> option I) ri args (st : S) :
  (forall i n s, fst (ri i n s) <> SPanic) -> fst (eval_cmd parse ri args st) <> SPanic.
Proof.
  intros H. unfold eval_cmd. destruct args as [|a args]; [discriminate|].
  destruct (parse (a :: args)) as [i|]; [|discriminate]. cbn [fst].
  specialize (H i 0 st). destruct (fst (ri i 0 st)); cbn [crash_to_error]; congruence.
Qed.
