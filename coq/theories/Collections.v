(* Collections.v — model M of the collection commands of the SDK (std++ gmap style).
   DEFINITIONS ONLY (spec: CollectionsSpec.v, proofs: CollectionsProof.v).

   Rust                                                   model
   ------------------------------------------------------ ---------------------------------------
   Context.state["handles"] : HashMap<String,StateValue>   store := gmap str hval
   StateValue::List(Vec<StateValue>)                       HList (list elem)
   StateValue::SubState(HashMap<String,StateValue>)        HMap  (gmap str elem)
   StateValue::Set(HashSet<String>)                        HSet  (gset str)
   any other arm (Boolean .. ByteArray, Any)               HOther tag      (payload never inspected)
   list items / map values: String(s) | Number64Bit(z)     EStr s | ENum z (only `range` makes ENum)
   utils/state.rs put_handle (20 random alphanumerics)     put_handle with the draw oracle [rnd]
   utils/state.rs mutate_list / mutate_map / mutate_set    mutate_list / mutate_map / mutate_set
   utils/state.rs remove_handle_recursive                  rel_rec (fuel) / rel_fold
   utils/state.rs get_as_string / get_optional_as_string   elem_str
   collections/<cmd>/mod.rs  CommandImpl::run              cmd_<cmd>   (one function per command)
   release/mod.rs                                          cmd_release
   str::parse::<usize>() / ::<i64>()                       parse_usize / parse_i64
   HashMap::keys / HashSet iteration order                 the order oracle [ord]

   A Rust panic (Vec index out of bounds, Vec::remove out of bounds) is the outcome [Panic]; the
   recursion of remove_handle_recursive runs on fuel with the distinct outcome [Fuel].  Both are
   excluded by theorems (CollectionsProof.v). *)
From stdpp Require Import gmap list.
From Coq Require Import NArith ZArith.

Definition str := list N.
Notation handle := str (only parsing).

(* ---- literals ---------------------------------------------------------------------------- *)
Definition s_true : str := [116; 114; 117; 101]%N.
Definition s_false : str := [102; 97; 108; 115; 101]%N.
Definition s_dash_r : str := [45; 114]%N.                                  (* -r *)
Definition s_recursive : str := [45; 45; 114; 101; 99; 117; 114; 115; 105; 118; 101]%N.  (* --recursive *)
Definition bool_str (b : bool) : str := if b then s_true else s_false.

(* ---- numbers <-> text -------------------------------------------------------------------- *)
Fixpoint uint_codes (u : Decimal.uint) : str :=
  match u with
  | Decimal.Nil => []
  | Decimal.D0 u => 48%N :: uint_codes u | Decimal.D1 u => 49%N :: uint_codes u
  | Decimal.D2 u => 50%N :: uint_codes u | Decimal.D3 u => 51%N :: uint_codes u
  | Decimal.D4 u => 52%N :: uint_codes u | Decimal.D5 u => 53%N :: uint_codes u
  | Decimal.D6 u => 54%N :: uint_codes u | Decimal.D7 u => 55%N :: uint_codes u
  | Decimal.D8 u => 56%N :: uint_codes u | Decimal.D9 u => 57%N :: uint_codes u
  end.
(* usize::to_string / i64::to_string *)
Definition dec_N (n : N) : str := uint_codes (N.to_uint n).
Definition dec_Z (z : Z) : str :=
  match z with
  | Z0 => dec_N 0
  | Zpos p => dec_N (Npos p)
  | Zneg p => 45%N :: dec_N (Npos p)
  end.
Definition dec_nat (n : nat) : str := dec_N (N.of_nat n).

(* core::num from_str_radix(10): ASCII digits only, no white space, overflow is an error *)
Fixpoint digits_val (acc : N) (s : str) : option N :=
  match s with
  | [] => Some acc
  | c :: s' => if ((48 <=? c) && (c <=? 57))%N then digits_val (acc * 10 + (c - 48))%N s' else None
  end.
Definition digits (s : str) : option N :=
  match s with [] => None | _ => digits_val 0%N s end.
(* usize = u64 on the target; a leading '+' is accepted, a leading '-' is not (unsigned) *)
Definition parse_usize (s : str) : option N :=
  let body := match s with 43%N :: r => r | _ => s end in
  match digits body with
  | Some n => if (n <? 18446744073709551616)%N then Some n else None
  | None => None
  end.
Definition parse_i64 (s : str) : option Z :=
  match s with
  | 45%N :: r => match digits r with
                 | Some n => if (n <=? 9223372036854775808)%N then Some (- Z.of_N n)%Z else None
                 | None => None end
  | _ => let body := match s with 43%N :: r => r | _ => s end in
         match digits body with
         | Some n => if (n <? 9223372036854775808)%N then Some (Z.of_N n) else None
         | None => None end
  end.

(* ---- values ------------------------------------------------------------------------------ *)
Inductive elem := EStr (s : str) | ENum (z : Z).
Inductive hval :=
  | HList (l : list elem)
  | HMap (m : gmap str elem)
  | HSet (x : gset str)
  | HOther (tag : N).
Notation store := (gmap handle hval).

(* get_as_string on the two item kinds that occur *)
Definition elem_str (e : elem) : str :=
  match e with EStr s => s | ENum z => dec_Z z end.

(* error kinds (the message texts are not modelled):
   EArgs      "... handle not provided." / "Invalid input provided." / "Key not provided." / ...
   ENonNum    "Non numeric value: ... provided."
   EKind      "Invalid handle provided."
   ENotFound  "Handle: ... not found." / "Array for handle: ... not found." / ...
   EIndex     "Index: i is greater than list size: n"
   ERange     "Invalid arguments provided, range start value cannot be bigger than the range end value."
   ETrigger   trigger_error "Invalid input, non array handle or array not found." (script commands) *)
Inductive ekind := EArgs | ENonNum | EKind | ENotFound | EIndex | ERange | ETrigger.

(* Result<Option<String>, String> of the closures / CommandResult of a command *)
Inductive res := ROk (o : option str) | RErr (e : ekind).
Inductive cres := Cont (o : option str) | Error (e : ekind).
Definition cres_of (r : res) : cres := match r with ROk o => Cont o | RErr e => Error e end.

Inductive outcome (A : Type) := Done (a : A) | Panic | Fuel.
Arguments Done {A} a. Arguments Panic {A}. Arguments Fuel {A}.

(* model state: the handle table, the number of random keys drawn so far, and the resume index a
   failed `array_concat` leaves on the for-in call stack (finding F6; used by the as-is definition
   of that script command in CollectionsSpec.v only — no native command reads or writes it) *)
Record mstate := MS { hs : store; draws : nat; stale : option nat }.
Definition with_hs (s : mstate) (st : store) : mstate := MS st (draws s) (stale s).
Definition init : mstate := MS ∅ 0 None.

(* ---- Vec operations that can panic -------------------------------------------------------- *)
Definition vec_index (l : list elem) (i : nat) : option elem := nth_error l i.       (* list[i] *)
Definition vec_set (l : list elem) (i : nat) (v : elem) : option (list elem) :=       (* list[i] = v *)
  if (i <? length l)%nat then Some (firstn i l ++ v :: skipn (S i) l) else None.
Definition vec_remove (l : list elem) (i : nat) : option (list elem) :=               (* list.remove(i) *)
  if (i <? length l)%nat then Some (firstn i l ++ skipn (S i) l) else None.
Definition vec_pop (l : list elem) : option elem * list elem :=                       (* list.pop() *)
  match length l with
  | O => (None, l)
  | S n => (nth_error l n, firstn n l)
  end.
(* list.len() > index, for a usize index *)
Definition len_gt (l : list elem) (idx : N) : bool := (idx <? N.of_nat (length l))%N.

Section Model.
(* the i-th key drawn by put_handle, and the iteration order of a HashMap / HashSet created at
   draw i (Rust: RandomState) *)
Variable rnd : nat -> handle.
Variable ord : nat -> list str -> list str.

(* ---- handle table helpers ---------------------------------------------------------------- *)
Definition put_handle (s : mstate) (v : hval) : handle * mstate :=
  let key := rnd (draws s) in
  (key, MS (<[key := v]> (hs s)) (S (draws s)) (stale s)).          (* return_handle: insert *)

(* take the value out, run the closure on the matching kind, put it back; every other kind arm
   puts the value back unchanged and reports "Invalid handle provided." *)
Definition mutate_list (key : handle) (st : store)
    (handler : list elem -> option (res * list elem)) : outcome (res * store) :=
  match st !! key with                                   (* state.remove(&key) *)
  | Some v =>
    let st1 := delete key st in
    match v with
    | HList l => match handler l with
                 | Some (r, l') => Done (r, <[key := HList l']> st1)
                 | None => Panic
                 end
    | HMap m => Done (RErr EKind, <[key := HMap m]> st1)
    | HSet x => Done (RErr EKind, <[key := HSet x]> st1)
    | HOther t => Done (RErr EKind, <[key := HOther t]> st1)
    end
  | None => Done (RErr ENotFound, st)
  end.
Definition mutate_map (key : handle) (st : store)
    (handler : gmap str elem -> option (res * gmap str elem)) : outcome (res * store) :=
  match st !! key with
  | Some v =>
    let st1 := delete key st in
    match v with
    | HMap m => match handler m with
                | Some (r, m') => Done (r, <[key := HMap m']> st1)
                | None => Panic
                end
    | HList l => Done (RErr EKind, <[key := HList l]> st1)
    | HSet x => Done (RErr EKind, <[key := HSet x]> st1)
    | HOther t => Done (RErr EKind, <[key := HOther t]> st1)
    end
  | None => Done (RErr ENotFound, st)
  end.
Definition mutate_set (key : handle) (st : store)
    (handler : gset str -> option (res * gset str)) : outcome (res * store) :=
  match st !! key with
  | Some v =>
    let st1 := delete key st in
    match v with
    | HSet x => match handler x with
                | Some (r, x') => Done (r, <[key := HSet x']> st1)
                | None => Panic
                end
    | HList l => Done (RErr EKind, <[key := HList l]> st1)
    | HMap m => Done (RErr EKind, <[key := HMap m]> st1)
    | HOther t => Done (RErr EKind, <[key := HOther t]> st1)
    end
  | None => Done (RErr ENotFound, st)
  end.

(* the common tail of the commands built on mutate_*:  Ok(v) => Continue(f v), Err(e) => Error(e) *)
Definition finish (s : mstate) (o : outcome (res * store)) (f : option str -> option str)
    : outcome (cres * mstate) :=
  match o with
  | Done (ROk v, st') => Done (Cont (f v), with_hs s st')
  | Done (RErr e, st') => Done (Error e, with_hs s st')
  | Panic => Panic
  | Fuel => Fuel
  end.
Definition always_true (_ : option str) : option str := Some s_true.
Definition as_is (v : option str) : option str := v.

(* ---- array commands ------------------------------------------------------------------------ *)
Definition cmd_array (args : list str) (s : mstate) : outcome (cres * mstate) :=
  let array := fold_left (fun a x => a ++ [EStr x]) args [] in
  let (key, s') := put_handle s (HList array) in
  Done (Cont (Some key), s').

Definition cmd_range (args : list str) (s : mstate) : outcome (cres * mstate) :=
  match args with
  | a0 :: a1 :: _ =>
    match parse_i64 a0 with
    | None => Done (Error ENonNum, s)
    | Some start =>
      match parse_i64 a1 with
      | None => Done (Error ENonNum, s)
      | Some end_ =>
        if (end_ <? start)%Z then Done (Error ERange, s)
        else
          let array := ENum <$> seqZ start (end_ - start) in
          let (key, s') := put_handle s (HList array) in
          Done (Cont (Some key), s')
      end
    end
  | _ => Done (Error EArgs, s)
  end.

Definition cmd_array_push (args : list str) (s : mstate) : outcome (cres * mstate) :=
  match args with
  | [] => Done (Error EArgs, s)
  | key :: rest =>
    finish s (mutate_list key (hs s) (fun l =>
      Some (ROk None, fold_left (fun a x => a ++ [EStr x]) rest l))) always_true
  end.

Definition cmd_array_pop (args : list str) (s : mstate) : outcome (cres * mstate) :=
  match args with
  | [] => Done (Error EArgs, s)
  | key :: _ =>
    finish s (mutate_list key (hs s) (fun l =>
      let (item, l') := vec_pop l in Some (ROk (elem_str <$> item), l'))) as_is
  end.

Definition cmd_array_get (args : list str) (s : mstate) : outcome (cres * mstate) :=
  match args with
  | key :: a1 :: _ =>
    match parse_usize a1 with
    | None => Done (Error ENonNum, s)
    | Some index =>
      finish s (mutate_list key (hs s) (fun l =>
        if len_gt l index then
          match vec_index l (N.to_nat index) with
          | Some item => Some (ROk (Some (elem_str item)), l)
          | None => None
          end
        else Some (ROk None, l))) as_is
    end
  | _ => Done (Error EArgs, s)
  end.

Definition cmd_array_set (args : list str) (s : mstate) : outcome (cres * mstate) :=
  match args with
  | key :: a1 :: a2 :: _ =>
    match parse_usize a1 with
    | None => Done (Error ENonNum, s)
    | Some index =>
      finish s (mutate_list key (hs s) (fun l =>
        if len_gt l index then
          match vec_set l (N.to_nat index) (EStr a2) with
          | Some l' => Some (ROk (Some s_true), l')
          | None => None
          end
        else Some (RErr EIndex, l))) as_is
    end
  | _ => Done (Error EArgs, s)
  end.

Definition cmd_array_remove (args : list str) (s : mstate) : outcome (cres * mstate) :=
  match args with
  | key :: a1 :: _ =>
    match parse_usize a1 with
    | None => Done (Error ENonNum, s)
    | Some index =>
      finish s (mutate_list key (hs s) (fun l =>
        if len_gt l index then
          match vec_remove l (N.to_nat index) with
          | Some l' => Some (ROk (Some s_true), l')
          | None => None
          end
        else Some (RErr EIndex, l))) as_is
    end
  | _ => Done (Error EArgs, s)
  end.

Definition cmd_array_clear (args : list str) (s : mstate) : outcome (cres * mstate) :=
  match args with
  | [] => Done (Error EArgs, s)
  | key :: _ => finish s (mutate_list key (hs s) (fun _ => Some (ROk None, []))) always_true
  end.

Definition cmd_array_length (args : list str) (s : mstate) : outcome (cres * mstate) :=
  match args with
  | [] => Done (Error EArgs, s)
  | key :: _ =>
    match hs s !! key with
    | Some (HList l) => Done (Cont (Some (dec_nat (length l))), s)
    | Some _ => Done (Error EKind, s)
    | None => Done (Error ENotFound, s)
    end
  end.

(* ---- map commands -------------------------------------------------------------------------- *)
Definition cmd_map (args : list str) (s : mstate) : outcome (cres * mstate) :=
  let (key, s') := put_handle s (HMap ∅) in Done (Cont (Some key), s').

Definition cmd_map_put (args : list str) (s : mstate) : outcome (cres * mstate) :=
  match args with
  | key :: k :: v :: _ =>
    finish s (mutate_map key (hs s) (fun m => Some (ROk None, <[k := EStr v]> m))) always_true
  | _ => Done (Error EArgs, s)
  end.

Definition cmd_map_get (args : list str) (s : mstate) : outcome (cres * mstate) :=
  match args with
  | key :: k :: _ =>
    finish s (mutate_map key (hs s) (fun m =>
      match m !! k with                               (* map.remove(k) *)
      | Some value => Some (ROk (Some (elem_str value)), <[k := value]> (delete k m))
      | None => Some (ROk None, m)
      end)) as_is
  | _ => Done (Error EArgs, s)
  end.

Definition cmd_map_remove (args : list str) (s : mstate) : outcome (cres * mstate) :=
  match args with
  | key :: k :: _ =>
    finish s (mutate_map key (hs s) (fun m =>
      Some (ROk (elem_str <$> m !! k), delete k m))) as_is
  | _ => Done (Error EArgs, s)
  end.

Definition cmd_map_size (args : list str) (s : mstate) : outcome (cres * mstate) :=
  match args with
  | [] => Done (Error EArgs, s)
  | key :: _ =>
    match hs s !! key with
    | Some (HMap m) => Done (Cont (Some (dec_nat (size m))), s)
    | Some _ => Done (Error EKind, s)
    | None => Done (Error ENotFound, s)
    end
  end.

Definition cmd_map_keys (args : list str) (s : mstate) : outcome (cres * mstate) :=
  match args with
  | [] => Done (Error EArgs, s)
  | key :: _ =>
    match hs s !! key with
    | Some (HMap m) =>
      let array := fold_left (fun a x => a ++ [EStr x]) (ord (draws s) (map_to_list m).*1) [] in
      let (k, s') := put_handle s (HList array) in
      Done (Cont (Some k), s')
    | Some _ => Done (Error EKind, s)
    | None => Done (Error ENotFound, s)
    end
  end.

Definition cmd_map_clear (args : list str) (s : mstate) : outcome (cres * mstate) :=
  match args with
  | [] => Done (Error EArgs, s)
  | key :: _ => finish s (mutate_map key (hs s) (fun _ => Some (ROk None, ∅))) always_true
  end.

(* ---- set commands -------------------------------------------------------------------------- *)
Definition cmd_set_new (args : list str) (s : mstate) : outcome (cres * mstate) :=
  let x := fold_left (fun (a : gset str) v => {[v]} ∪ a) args ∅ in
  let (key, s') := put_handle s (HSet x) in Done (Cont (Some key), s').

Definition cmd_set_put (args : list str) (s : mstate) : outcome (cres * mstate) :=
  match args with
  | [] => Done (Error EArgs, s)
  | key :: rest =>
    finish s (mutate_set key (hs s) (fun x =>
      Some (ROk None, fold_left (fun (a : gset str) v => {[v]} ∪ a) rest x))) always_true
  end.

Definition cmd_set_remove (args : list str) (s : mstate) : outcome (cres * mstate) :=
  match args with
  | key :: v :: _ =>
    finish s (mutate_set key (hs s) (fun x =>
      Some (ROk (Some (bool_str (bool_decide (v ∈ x)))), x ∖ {[v]}))) as_is
  | _ => Done (Error EArgs, s)
  end.

Definition cmd_set_contains (args : list str) (s : mstate) : outcome (cres * mstate) :=
  match args with
  | key :: v :: _ =>
    finish s (mutate_set key (hs s) (fun x =>
      Some (ROk (Some (bool_str (bool_decide (v ∈ x)))), x))) as_is
  | _ => Done (Error EArgs, s)
  end.

Definition cmd_set_size (args : list str) (s : mstate) : outcome (cres * mstate) :=
  match args with
  | [] => Done (Error EArgs, s)
  | key :: _ =>
    match hs s !! key with
    | Some (HSet x) => Done (Cont (Some (dec_nat (size x))), s)
    | Some _ => Done (Error EKind, s)
    | None => Done (Error ENotFound, s)
    end
  end.

Definition cmd_set_clear (args : list str) (s : mstate) : outcome (cres * mstate) :=
  match args with
  | [] => Done (Error EArgs, s)
  | key :: _ => finish s (mutate_set key (hs s) (fun _ => Some (ROk None, ∅))) always_true
  end.

Definition cmd_set_to_array (args : list str) (s : mstate) : outcome (cres * mstate) :=
  match args with
  | [] => Done (Error EArgs, s)
  | key :: _ =>
    match hs s !! key with
    | Some (HSet x) =>
      let array := fold_left (fun a v => a ++ [EStr v]) (ord (draws s) (elements x)) [] in
      let (k, s') := put_handle s (HList array) in
      Done (Cont (Some k), s')
    | Some _ => Done (Error EKind, s)
    | None => Done (Error ENotFound, s)
    end
  end.

(* ---- is_array / is_map / is_set ------------------------------------------------------------ *)
Definition cmd_is_array (args : list str) (s : mstate) : outcome (cres * mstate) :=
  match args with
  | [] => Done (Error EArgs, s)
  | key :: _ =>
    match hs s !! key with
    | Some (HList _) => Done (Cont (Some s_true), s)
    | Some _ => Done (Cont (Some s_false), s)
    | None => Done (Cont (Some s_false), s)
    end
  end.
Definition cmd_is_map (args : list str) (s : mstate) : outcome (cres * mstate) :=
  match args with
  | [] => Done (Error EArgs, s)
  | key :: _ =>
    match hs s !! key with
    | Some (HMap _) => Done (Cont (Some s_true), s)
    | Some _ => Done (Cont (Some s_false), s)
    | None => Done (Cont (Some s_false), s)
    end
  end.
Definition cmd_is_set (args : list str) (s : mstate) : outcome (cres * mstate) :=
  match args with
  | [] => Done (Error EArgs, s)
  | key :: _ =>
    match hs s !! key with
    | Some (HSet _) => Done (Cont (Some s_true), s)
    | Some _ => Done (Cont (Some s_false), s)
    | None => Done (Cont (Some s_false), s)
    end
  end.

(* ---- release ------------------------------------------------------------------------------- *)
(* the strings remove_handle_recursive follows: String items of a list, every member of a set,
   String values of a map (Number64Bit items are not followed) *)
Definition elem_child (e : elem) : list handle := match e with EStr s => [s] | ENum _ => [] end.
Definition children (v : hval) : list handle :=
  match v with
  | HList l => l ≫= elem_child
  | HSet x => elements x
  | HMap m => (map_to_list m).*2 ≫= elem_child
  | HOther _ => []
  end.

(* `for value in list { remove_handle_recursive(state, value); }` *)
Fixpoint rel_fold (rec : store -> handle -> outcome (bool * store)) (ks : list handle) (st : store)
    : outcome store :=
  match ks with
  | [] => Done st
  | k :: ks' =>
    match rec st k with
    | Done (_, st') => rel_fold rec ks' st'
    | Panic => Panic
    | Fuel => Fuel
    end
  end.
Fixpoint rel_rec (fuel : nat) (st : store) (key : handle) : outcome (bool * store) :=
  match fuel with
  | O => Fuel
  | S f =>
    match st !! key with                               (* remove_handle(state, key) *)
    | Some v =>
      match rel_fold (rel_rec f) (children v) (delete key st) with
      | Done st' => Done (true, st')
      | Panic => Panic
      | Fuel => Fuel
      end
    | None => Done (false, st)
    end
  end.
(* enough fuel for every store (theorem rel_rec_total): one more than the number of handles *)
Definition release_recursive (st : store) (key : handle) : outcome (bool * store) :=
  rel_rec (S (size st)) st key.

Definition str_eqb (a b : str) : bool := bool_decide (a = b).

Definition cmd_release (args : list str) (s : mstate) : outcome (cres * mstate) :=
  match args with
  | [] => Done (Cont (Some s_false), s)
  | a0 :: rest =>
    let '(key, recursive) :=
      match rest with
      | a1 :: _ => if str_eqb a0 s_dash_r || str_eqb a0 s_recursive then (a1, true) else (a0, false)
      | [] => (a0, false)
      end in
    if recursive then
      match release_recursive (hs s) key with
      | Done (removed, st') => Done (Cont (Some (bool_str removed)), with_hs s st')
      | Panic => Panic
      | Fuel => Fuel
      end
    else
      match hs s !! key with                            (* remove_handle(..).is_some() *)
      | Some _ => Done (Cont (Some s_true), with_hs s (delete key (hs s)))
      | None => Done (Cont (Some s_false), s)
      end
  end.

(* harness operation `raw <tag>`: a value of another StateValue arm placed in the handle table *)
Definition cmd_raw (args : list str) (s : mstate) : outcome (cres * mstate) :=
  let tag := match args with a :: _ => default 0%N (digits a) | [] => 0%N end in
  let (key, s') := put_handle s (HOther tag) in Done (Cont (Some key), s').

(* ---- dispatch ------------------------------------------------------------------------------ *)
Inductive cmd :=
  (* native *)
  | CArray | CRange | CArrayPush | CArrayPop | CArrayGet | CArraySet | CArrayRemove | CArrayClear
  | CArrayLength | CMap | CMapPut | CMapGet | CMapRemove | CMapSize | CMapKeys | CMapClear
  | CSetNew | CSetPut | CSetRemove | CSetContains | CSetSize | CSetClear | CSetToArray
  | CIsArray | CIsMap | CIsSet | CRelease | CRaw
  (* implemented by a script.ds; specified in CollectionsSpec.v only *)
  | CArrayIsEmpty | CArrayContains | CArrayConcat | CArrayJoin | CMapContainsKey
  | CMapContainsValue | CMapIsEmpty | CSetFromArray | CSetIsEmpty.

Definition native (c : cmd) : bool :=
  match c with
  | CArrayIsEmpty | CArrayContains | CArrayConcat | CArrayJoin | CMapContainsKey
  | CMapContainsValue | CMapIsEmpty | CSetFromArray | CSetIsEmpty => false
  | _ => true
  end.

(* [None]: not a native command *)
Definition step_m (c : cmd) (args : list str) (s : mstate) : option (outcome (cres * mstate)) :=
  match c with
  | CArray => Some (cmd_array args s) | CRange => Some (cmd_range args s)
  | CArrayPush => Some (cmd_array_push args s) | CArrayPop => Some (cmd_array_pop args s)
  | CArrayGet => Some (cmd_array_get args s) | CArraySet => Some (cmd_array_set args s)
  | CArrayRemove => Some (cmd_array_remove args s) | CArrayClear => Some (cmd_array_clear args s)
  | CArrayLength => Some (cmd_array_length args s)
  | CMap => Some (cmd_map args s) | CMapPut => Some (cmd_map_put args s)
  | CMapGet => Some (cmd_map_get args s) | CMapRemove => Some (cmd_map_remove args s)
  | CMapSize => Some (cmd_map_size args s) | CMapKeys => Some (cmd_map_keys args s)
  | CMapClear => Some (cmd_map_clear args s)
  | CSetNew => Some (cmd_set_new args s) | CSetPut => Some (cmd_set_put args s)
  | CSetRemove => Some (cmd_set_remove args s) | CSetContains => Some (cmd_set_contains args s)
  | CSetSize => Some (cmd_set_size args s) | CSetClear => Some (cmd_set_clear args s)
  | CSetToArray => Some (cmd_set_to_array args s)
  | CIsArray => Some (cmd_is_array args s) | CIsMap => Some (cmd_is_map args s)
  | CIsSet => Some (cmd_is_set args s)
  | CRelease => Some (cmd_release args s) | CRaw => Some (cmd_raw args s)
  | _ => None
  end.

End Model.
