(* FlowFnSim.v — the C05 simulation for programs whose call graph follows the definition order
   (a function only calls functions defined after it) and that have no return inside a for-in
   body: the flat machine computes what the tree-walking interpreter computes.
   Frame statement as in C04 (FlowSim.v), with (a) junk entries allowed on the lines of the
   statement itself and of the functions it may call, (b) two ways of ending: falling through
   (FOk) or returning to the caller of the current activation (FRet). *)
Require Import DS.Base DS.FlowTables DS.FlowTablesWf DS.FlowScan DS.Flow DS.FlowTree DS.FlowScanProof
  DS.FlowLemmas DS.FlowFrame DS.FlowFn DS.FlowFnTree DS.FlowFnScan DS.FlowFnLemmas.
Require Import DSG.GenFlowNames DSG.GenFnNames.
Open Scope nat_scope.

(* ---- no return inside a for-in body -------------------------------------------------------------- *)
Fixpoint nfr_s (s : fstmt) : bool :=
  match s with
  | GCmd _ | GCall _ _ _ | GReturn _ _ => true
  | GIf _ _ b els _ => nfr_b b && nfr_e els
  | GWhile _ _ b _ => nfr_b b
  | GFor _ _ _ b _ => negb (has_return_b b) && nfr_b b
  end
with nfr_b (b : fblock) : bool :=
  match b with GNil => true | GCons s b' => nfr_s s && nfr_b b' end
with nfr_e (els : felses) : bool :=
  match els with
  | HNil => true
  | HElseIf _ _ b r => nfr_b b && nfr_e r
  | HElse _ b => nfr_b b
  end.

(* one-step unfoldings of the interpreter *)
Section Unfold.
Variable ds : list fndef.
Lemma hs_cmd n p w : hs ds (S n) (GCmd p) w = match exec_prim p w with Some w' => FOk w' | None => FErr end.
Proof. reflexivity. Qed.
Lemma hs_if n sp c b els e w : hs ds (S n) (GIf sp c b els e) w =
  let (v, w1) := eval_cond c w in if v then hb ds n b w1 else he ds n els w1.
Proof. reflexivity. Qed.
Lemma hs_while n sp c b e w : hs ds (S n) (GWhile sp c b e) w =
  let (v, w1) := eval_cond c w in
  if v then match hb ds n b w1 with FOk w2 => hs ds n (GWhile sp c b e) w2 | r => r end else FOk w1.
Proof. reflexivity. Qed.
Lemma hs_for n sp x hv b e w : hs ds (S n) (GFor sp x hv b e) w = hfor ds n x hv b 0 w.
Proof. reflexivity. Qed.
Lemma hs_return n sp a w : hs ds (S n) (GReturn sp a) w = FRet (option_map (fun x => arg_val x w) a) w.
Proof. reflexivity. Qed.
Lemma hs_call n out f args w : hs ds (S n) (GCall out f args) w =
  match find_def f ds with
  | None => FErr
  | Some d =>
    let vals := map (fun a => arg_val a w) args in
    let saved := w_vars w in
    let w1 := if fd_scoped d then set_vars [] w else w in
    let w3 := clear_out out (bind_args 1 vals w1) in
    match hb ds n (fd_body d) w3 with
    | FOk w4 => FOk (if fd_scoped d then set_vars saved w4 else w4)
    | FRet v w4 =>
        let w5 := match out with
                  | Some o => match v with Some x => vset o x w4 | None => vunset o w4 end
                  | None => w4
                  end in
        FOk (if fd_scoped d then set_vars (overlay saved out w5) w5 else w5)
    | r => r
    end
  end.
Proof. reflexivity. Qed.
Lemma hb_nil n w : hb ds (S n) GNil w = FOk w.
Proof. reflexivity. Qed.
Lemma hb_cons n s b w : hb ds (S n) (GCons s b) w = match hs ds n s w with FOk w1 => hb ds n b w1 | r => r end.
Proof. reflexivity. Qed.
Lemma he_elseif n sp c b r w : he ds (S n) (HElseIf sp c b r) w =
  let (v, w1) := eval_cond c w in if v then hb ds n b w1 else he ds n r w1.
Proof. reflexivity. Qed.
Lemma he_else n sp b w : he ds (S n) (HElse sp b) w = hb ds n b w.
Proof. reflexivity. Qed.
Lemma he_nil n w : he ds (S n) HNil w = FOk w.
Proof. reflexivity. Qed.
Lemma hfor_step n x hv b i w : hfor ds (S n) x hv b i w =
  match get_next_iteration i (vval hv w) w with
  | None => FOk w
  | Some v => match hb ds n b (vset x v w) with FOk w2 => hfor ds n x hv b (S i) w2 | r => r end
  end.
Proof. reflexivity. Qed.

(* a block without a lexical return never ends with the return signal *)
Lemma no_return n :
  (forall s w v w', has_return_s s = false -> hs ds n s w <> FRet v w') /\
  (forall b w v w', has_return_b b = false -> hb ds n b w <> FRet v w') /\
  (forall els w v w', has_return_e els = false -> he ds n els w <> FRet v w') /\
  (forall x hv b i w v w', has_return_b b = false -> hfor ds n x hv b i w <> FRet v w').
Proof.
  induction n as [|n (IHs & IHb & IHe & IHf)]; [repeat split; intros; cbn; discriminate|].
  repeat split.
  - intros s w v w' H. destruct s as [p|sp c b els e|sp c b e|sp x hv b e|out f args|sp a]; cbn [has_return_s] in H.
    + rewrite hs_cmd. destruct (exec_prim p w); discriminate.
    + rewrite hs_if. apply orb_false_elim in H. destruct H as [H1 H2].
      destruct (eval_cond c w) as [[] w1]; auto.
    + rewrite hs_while. destruct (eval_cond c w) as [[] w1]; [|discriminate].
      destruct (hb ds n b w1) eqn:E; try discriminate; auto. intros E2. inversion E2; subst. eapply IHb; eauto.
    + rewrite hs_for. auto.
    + rewrite hs_call. destruct (find_def f ds) as [d|]; [|discriminate]. cbv zeta.
      match goal with |- context [hb ds n ?b ?x] => destruct (hb ds n b x) end; discriminate.
    + discriminate.
  - intros b w v w' H. destruct b as [|s b]; [rewrite hb_nil; discriminate|].
    cbn [has_return_b] in H. apply orb_false_elim in H. destruct H as [H1 H2].
    rewrite hb_cons. destruct (hs ds n s w) eqn:E; try discriminate; auto.
    intros E2. inversion E2; subst. eapply IHs; eauto.
  - intros els w v w' H. destruct els as [|sp c b r|sp b]; cbn [has_return_e] in H.
    + rewrite he_nil. discriminate.
    + rewrite he_elseif. apply orb_false_elim in H. destruct H as [H1 H2].
      destruct (eval_cond c w) as [[] w1]; auto.
    + rewrite he_else. auto.
  - intros x hv b i w v w' H. rewrite hfor_step.
    destruct (get_next_iteration i (vval hv w) w); [|discriminate].
    destruct (hb ds n b (vset x s w)) eqn:E; try discriminate; auto.
    intros E2. inversion E2; subst. eapply IHb; eauto.
Qed.
End Unfold.

Lemma felses_dec (els : felses) : {els = HNil} + {els <> HNil}.
Proof. destruct els; [left; reflexivity|right; discriminate|right; discriminate]. Qed.
Lemma gmid_pos_hd els L : els <> HNil -> exists t, gmid_pos els L = L :: t.
Proof. destruct els; [congruence| |]; intros _; eexists; reflexivity. Qed.
Lemma gmid_pos_range els : forall L x, In x (gmid_pos els L) -> L <= x < L + length (ge els).
Proof.
  induction els as [|sp c b r IH|sp b]; intros L x Hx; cbn [gmid_pos ge length] in *.
  - contradiction.
  - rewrite app_length. destruct Hx as [<-|Hx]; [lia|]. apply IH in Hx. lia.
  - destruct Hx as [<-|[]]. lia.
Qed.

(* ---- layout of the definitions -------------------------------------------------------------------- *)
Fixpoint layout (ds : list fndef) (s : nat) : list (fndef * nat) :=
  match ds with [] => [] | d :: r => (d, s) :: layout r (s + length (gdef d)) end.
Definition d_end (d : fndef) (s : nat) : nat := S s + length (gb (fd_body d)).
Lemma gdef_length d : length (gdef d) = S (S (length (gb (fd_body d)))).
Proof. unfold gdef. cbn [length]. rewrite app_length. cbn. lia. Qed.

Lemma layout_bounds ds : forall s0 d s, In (d, s) (layout ds s0) ->
  s0 <= s /\ s + length (gdef d) <= s0 + length (gdefs ds).
Proof.
  induction ds as [|d0 r IH]; intros s0 d s H; cbn [layout gdefs In find_def] in *; [contradiction|].
  rewrite app_length. destruct H as [E|H].
  - inversion E; subst. lia.
  - apply IH in H. lia.
Qed.
Lemma layout_placed ds : forall s0 pre post d s, length pre = s0 -> In (d, s) (layout ds s0) ->
  exists pre' post', pre ++ gdefs ds ++ post = pre' ++ gdef d ++ post' /\ length pre' = s.
Proof.
  induction ds as [|d0 r IH]; intros s0 pre post d s L H; cbn [layout gdefs In find_def] in *; [contradiction|].
  destruct H as [E|H].
  - inversion E; subst. exists pre, (gdefs r ++ post). split; [now rewrite <- app_assoc|reflexivity].
  - destruct (IH (s0 + length (gdef d0)) (pre ++ gdef d0) post d s) as (pre' & post' & E' & L'); auto.
    + rewrite app_length. lia.
    + exists pre', post'. split; [|exact L']. rewrite <- E', <- !app_assoc. reflexivity.
Qed.
Lemma layout_disjoint ds : forall s0 d1 s1 d2 s2,
  In (d1, s1) (layout ds s0) -> In (d2, s2) (layout ds s0) ->
  (d1 = d2 /\ s1 = s2) \/ s1 + length (gdef d1) <= s2 \/ s2 + length (gdef d2) <= s1.
Proof.
  induction ds as [|d0 r IH]; intros s0 d1 s1 d2 s2 H1 H2; cbn [layout gdefs In find_def] in *; [contradiction|].
  destruct H1 as [E1|H1], H2 as [E2|H2].
  - inversion E1; inversion E2; subst. auto.
  - inversion E1; subst. apply layout_bounds in H2. right. left. lia.
  - inversion E2; subst. apply layout_bounds in H1. right. right. lia.
  - eauto.
Qed.
Lemma layout_find ds : forall s0 d s, In (d, s) (layout ds s0) -> exists d', find_def (fd_name d) ds = Some d'.
Proof.
  induction ds as [|d0 r IH]; intros s0 d s H; cbn [layout gdefs In find_def] in *; [contradiction|].
  destruct H as [E|H].
  - inversion E; subst. rewrite str_eqb_refl. eauto.
  - destruct (str_eqb (fd_name d) (fd_name d0)); eauto.
Qed.

Lemma find_def_name f ds : forall d, find_def f ds = Some d -> fd_name d = f.
Proof.
  induction ds as [|d0 r IH]; intros d H; cbn in H; [discriminate|].
  destruct (str_eqb f (fd_name d0)) eqn:E; [|auto]. inversion H; subst. symmetry. now apply str_eqb_eq.
Qed.

Section Sim.
Variable pr : prog.
Hypothesis TW : tables_wf = true.
Let ds := p_defs pr.
Let P := compile_prog pr.
Let P0 := map down P.
Let M := length (gdefs ds).

Definition DefAt (d : fndef) (s : nat) : Prop := In (d, s) (layout ds 0).
Definition DefEnd (l : nat) : Prop := exists d s, DefAt d s /\ l = d_end d s.
Definition callable_at (lo : nat) (f : str) : Prop :=
  exists d s, find_def f ds = Some d /\ DefAt d s /\ lo <= s.

Lemma DefAt_placed d s : DefAt d s -> fplaced P s (gdef d) /\ s + length (gdef d) <= M.
Proof.
  intros H. split.
  - destruct (layout_placed ds 0 [] (gb (p_main pr)) d s eq_refl H) as (pre' & post' & E & L).
    exists pre', post'. split; [|exact L]. unfold P, compile_prog. exact E.
  - apply layout_bounds in H. unfold M. lia.
Qed.

(* the definitions follow the call order and contain no return inside a for-in *)
Hypothesis Hdefs : forall d s, DefAt d s ->
  In (fd_sp d) n_function /\ In (fd_end d) fn_closers /\
  pgb (callable_at (s + length (gdef d))) true (fd_body d) /\ nfr_b (fd_body d) = true /\
  find_def (fd_name d) ds = Some d.

Definition Rl (p q lo : nat) (l : nat) : Prop := (p <= l < q \/ lo <= l < M) /\ ~ DefEnd l.
Definition nde (p q : nat) : Prop := forall l, p <= l < q -> ~ DefEnd l.
Definition FnInv (g : fnst) : Prop := forall d s, DefAt d s ->
  aget str_eqb (fd_name d) (fs_meta g) = Some (mkFM s (d_end d s) (fd_scoped d)).
Definition EndInv (f : flow) : Prop := forall d s, DefAt d s ->
  aget Nat.eqb (d_end d s) (f_end f) = Some gen_endfunction_name.
Definition act_ok (infn : bool) (p q : nat) (g : fnst) : Prop :=
  infn = true -> exists ci rest, fs_stk g = ci :: rest /\ fn_start ci < p /\ q <= fn_end ci /\
                                 (fn_scoped ci = true -> fs_scopes g <> []).
Definition ready (lo : nat) (infn : bool) (p q : nat) (f : flow) (g : fnst) : Prop :=
  lo <= M /\ (q <= lo \/ M <= p) /\ nde p q /\ Inv P0 f /\ EndInv f /\ FnInv g /\
  fout (Rl p q lo) f /\ act_ok infn p q g.

Definition ret_world (ci : fncall) (v : option str) (w : world) (scopes : list (list (str * str))) : world :=
  let w1 := match fn_out ci with
            | Some o => match v with Some x => vset o x w | None => vunset o w end
            | None => w
            end in
  if fn_scoped ci then
    match scopes with saved :: _ => set_vars (overlay saved (fn_out ci) w1) w1 | [] => w1 end
  else w1.
Definition popf (ci : fncall) (g : fnst) : fnst :=
  mkFS (fs_meta g) (tl (fs_stk g)) (if fn_scoped ci then tl (fs_scopes g) else fs_scopes g).

Definition post (c0 : nat * fstate) (R : nat -> Prop) (q : nat) (f : flow) (g : fnst) (r : fres) : Prop :=
  match r with
  | FOk w' => exists f', fruns P c0 (q, (w', f', g)) /\ Inv P0 f' /\ gframe R f f'
  | FRet v w' => exists ci rest f', fs_stk g = ci :: rest /\
       fruns P c0 (S (fn_call ci), (ret_world ci v w' (fs_scopes g), f', popf ci g)) /\
       Inv P0 f' /\ gframe R f f'
  | _ => True
  end.

Lemma post_weaken c0 (R R' : nat -> Prop) q f g r :
  (forall l, R l -> R' l) -> post c0 R q f g r -> post c0 R' q f g r.
Proof.
  intros HR. destruct r as [w'|v w'| |]; cbn; auto.
  - intros (f' & H1 & H2 & H3). exists f'. eauto using gframe_weaken.
  - intros (ci & rest & f' & H0 & H1 & H2 & H3). exists ci, rest, f'. eauto 6 using gframe_weaken.
Qed.
Lemma post_pre c0 c1 R q f f1 g r :
  fruns P c0 c1 -> gframe R f f1 -> post c1 R q f1 g r -> post c0 R q f g r.
Proof.
  intros Hr Hg. destruct r as [w'|v w'| |]; cbn; auto.
  - intros (f' & H1 & H2 & H3). exists f'. split; [eapply fruns_trans; eauto|]. eauto using gframe_trans.
  - intros (ci & rest & f' & H0 & H1 & H2 & H3). exists ci, rest, f'.
    split; [exact H0|]. split; [eapply fruns_trans; eauto|]. eauto using gframe_trans.
Qed.
Lemma post_bind c0 R a q f g r (k : world -> fres) :
  post c0 R a f g r ->
  (forall w1 f1, Inv P0 f1 -> gframe R f f1 -> post (a, (w1, f1, g)) R q f1 g (k w1)) ->
  post c0 R q f g (match r with FOk w1 => k w1 | FRet v w0 => FRet v w0 | FErr => FErr | FFuel => FFuel end).
Proof.
  intros Hp Hk. destruct r as [w1|v w'| |]; cbn in *; auto.
  destruct Hp as (f1 & H1 & H2 & H3). eapply post_pre; eauto.
Qed.

Lemma Rl_sub p q p' q' lo l : p <= p' -> q' <= q -> Rl p' q' lo l -> Rl p q lo l.
Proof. unfold Rl. intros H1 H2 [H3 H4]. split; [lia|exact H4]. Qed.
Lemma Rl_in p q lo l : nde p q -> p <= l < q -> Rl p q lo l.
Proof. intros H1 H2. split; [lia|auto]. Qed.
Lemma nde_sub p q p' q' : nde p q -> p <= p' -> q' <= q -> nde p' q'.
Proof. intros H H1 H2 l Hl. apply H. lia. Qed.
Lemma EndInv_gframe p q lo f f' : EndInv f -> gframe (Rl p q lo) f f' -> EndInv f'.
Proof.
  intros HE HF d s Hd. rewrite (gf_end _ _ _ HF); [now apply HE|].
  intros [_ Hn]. apply Hn. exists d, s. auto.
Qed.
Lemma act_ok_sub infn p q p' q' g : act_ok infn p q g -> p <= p' -> q' <= q -> act_ok infn p' q' g.
Proof.
  intros H H1 H2 Hi. destruct (H Hi) as (ci & rest & E & A & B & C). exists ci, rest. repeat split; auto; lia.
Qed.
Lemma ready_sub lo infn p q p' q' f f' g :
  ready lo infn p q f g -> p <= p' -> q' <= q -> p' <= q' ->
  Inv P0 f' -> EndInv f' -> fout (Rl p' q' lo) f' -> ready lo infn p' q' f' g.
Proof.
  intros (A & B & C & D & E & F & G & H) H1 H2 H3 I1 I2 I3.
  unfold ready. split; [exact A|]. split; [lia|]. split; [eapply nde_sub; eauto|].
  split; [exact I1|]. split; [exact I2|]. split; [exact F|]. split; [exact I3|eapply act_ok_sub; eauto].
Qed.
Lemma fout_sub lo p q p' q' f f' :
  fout (Rl p q lo) f -> p <= p' -> q' <= q -> f_forstk f' = f_forstk f -> fout (Rl p' q' lo) f'.
Proof.
  intros H H1 H2 E. eapply fout_same; [exact E|]. eapply fout_weaken; [|exact H].
  intros l. now apply Rl_sub.
Qed.
(* the usual way to descend: a state reached by a frame inside the enclosing range *)
Lemma ready_frame lo infn p q p' q' f f' g :
  ready lo infn p q f g -> p <= p' -> q' <= q -> p' <= q' ->
  Inv P0 f' -> gframe (Rl p q lo) f f' -> ready lo infn p' q' f' g.
Proof.
  intros Hr H1 H2 H3 I1 HF. pose proof Hr as (A & B & C & D & E & F & G & H).
  eapply ready_sub; eauto.
  - eapply EndInv_gframe; eauto.
  - eapply fout_sub; eauto. exact (gf_for _ _ _ HF).
Qed.

Definition stmt_ok (n : nat) : Prop := forall lo infn s w p f g,
  pgs (callable_at lo) infn s -> nfr_s s = true -> fplaced P p (gs s) ->
  ready lo infn p (p + length (gs s)) f g ->
  post (p, (w, f, g)) (Rl p (p + length (gs s)) lo) (p + length (gs s)) f g (hs ds n s w).
Definition block_ok (n : nat) : Prop := forall lo infn b w p f g,
  pgb (callable_at lo) infn b -> nfr_b b = true -> fplaced P p (gb b) ->
  ready lo infn p (p + length (gb b)) f g ->
  post (p, (w, f, g)) (Rl p (p + length (gb b)) lo) (p + length (gb b)) f g (hb ds n b w).

(* ---- classification of the function keywords ------------------------------------------------- *)
Lemma fkind_eqb_eq a b : fkind_eqb a b = true -> a = b.
Proof. destruct a, b; cbn; try congruence. intros H. f_equal. now apply kind_eqb_eq. Qed.
Lemma fcl_parts :
  (forall c, In c n_function -> classify_fn c = FKFunction) /\
  (forall c, In c n_endfunction -> classify_fn c = FKEndFunction) /\
  (forall c, In c n_return -> classify_fn c = FKReturn).
Proof.
  pose proof fn_tables_wf as W. unfold fn_tables_ok in W.
  apply andb_prop in W; destruct W as [W _].
  apply andb_prop in W; destruct W as [W H3]. apply andb_prop in W; destruct W as [W H2].
  apply andb_prop in W; destruct W as [_ H1].
  rewrite forallb_forall in H1, H2, H3.
  repeat split; intros c Hc; apply fkind_eqb_eq; auto.
Qed.
Lemma fcl_endfn_name : classify_fn gen_endfunction_name = FKEndFunction.
Proof. apply fcl_parts. apply in_or_app. right. now left. Qed.
Lemma fcl_end : classify_fn gen_end_name = FKBase KEnd.
Proof.
  rewrite base_kind; [now rewrite (cl_end TW)|]. do 8 (apply in_or_app; right). now left.
Qed.
Lemma free_name_kind f : free_name f = true -> classify_fn f = FKBase KOther.
Proof.
  unfold free_name. intros H. apply andb_prop in H. destruct H as [H _].
  apply andb_prop in H. destruct H as [_ H]. destruct (classify_fn f) as [[]| | |]; try discriminate. reflexivity.
Qed.

(* ---- straight-line command, return, sequencing -------------------------------------------------- *)
Lemma cmd_case n : forall lo infn p0 w p f g,
  fplaced P p (gs (GCmd p0)) -> ready lo infn p (p + 1) f g ->
  post (p, (w, f, g)) (Rl p (p + 1) lo) (p + 1) f g (hs ds (S n) (GCmd p0) w).
Proof.
  intros lo infn p0 w p f g Hp Hr. rewrite hs_cmd.
  destruct (exec_prim p0 w) as [w1|] eqn:E; [|exact I].
  exists f. split; [|split; [apply Hr|apply gframe_refl]].
  apply fruns_step. replace (p + 1) with (S p) by lia.
  eapply fstep1_continue; [eapply fplaced_nth; exact Hp|].
  destruct (prim_cmd p0) as [c|] eqn:Ec.
  - rewrite (fdisp_base P).
    + rewrite <- Ec.
      change (down {| fi_cmd := prim_cmd p0; fi_arg := FBase (APrim p0) |}) with (mkI (prim_cmd p0) (APrim p0)).
      rewrite (prim_step (map down P) TW p p0 w w1 f E). reflexivity.
    + exists c. split; [reflexivity|].
      assert (Hin : In c prim_names) by (eapply prim_cmd_names; eauto).
      split; [apply base_kind; do 9 (apply in_or_app; right); exact Hin|].
      rewrite (cl_prim TW c Hin). discriminate.
    + eexists. reflexivity.
  - unfold fstep. cbn [fi_cmd]. destruct p0; try discriminate. cbn in E. now inversion E.
Qed.

Lemma return_case n : forall lo sp a w p f g,
  In sp n_return -> fplaced P p (gs (GReturn sp a)) -> ready lo true p (p + 1) f g ->
  post (p, (w, f, g)) (Rl p (p + 1) lo) (p + 1) f g (hs ds (S n) (GReturn sp a) w).
Proof.
  intros lo sp a w p f g Hsp Hp Hr. rewrite hs_return.
  destruct Hr as (_ & _ & _ & HI & _ & _ & _ & Hact).
  destruct (Hact eq_refl) as (ci & rest & Estk & Hs & He & Hsc).
  exists ci, rest, f. split; [exact Estk|]. split; [|split; [exact HI|apply gframe_refl]].
  apply fruns_step. eapply fstep1_goto; [eapply fplaced_nth; exact Hp|].
  unfold fstep. cbn [fi_cmd fi_arg fkw]. rewrite (proj2 (proj2 fcl_parts) sp Hsp).
  unfold step_return. rewrite Estk.
  assert (Hrange : ((fn_start ci <? p) && (p <? fn_end ci)) = true).
  { apply andb_true_intro. split; apply Nat.ltb_lt; lia. }
  rewrite Hrange. unfold ret_world, popf. rewrite Estk. cbn [tl].
  destruct (fn_scoped ci) eqn:Esc.
  - destruct (fs_scopes g) as [|saved rs] eqn:Es; [exfalso; now apply Hsc|]. reflexivity.
  - reflexivity.
Qed.

Lemma nde_body d s : DefAt d s -> nde (S s) (d_end d s).
Proof.
  intros Hd l Hl (d' & s' & Hd' & E).
  destruct (layout_disjoint ds 0 d s d' s' Hd Hd') as [(E1 & E2)|[H|H]].
  - subst. lia.
  - rewrite gdef_length in H. unfold d_end in *. pose proof (layout_bounds ds 0 d' s' Hd'). lia.
  - rewrite gdef_length in H. unfold d_end in *. lia.
Qed.

Lemma call_case n : block_ok n -> forall lo infn out fn args w p f g,
  pgs (callable_at lo) infn (GCall out fn args) -> fplaced P p (gs (GCall out fn args)) ->
  ready lo infn p (p + 1) f g ->
  post (p, (w, f, g)) (Rl p (p + 1) lo) (p + 1) f g (hs ds (S n) (GCall out fn args) w).
Proof.
  intros Hb lo infn out fn args w p f g ((d & s & Hfd & Hd & Hlo) & Hfree & Hargs) Hp Hr.
  pose proof Hr as (HloM & Hsep & Hnde & HI & HE & HF & Hfo & Hact).
  destruct (Hdefs d s Hd) as (Hsp & Hend & Hbody & Hnfr & _).
  destruct (DefAt_placed d s Hd) as (Hpd & HM).
  pose proof (find_def_name fn ds d Hfd) as Hname.
  rewrite hs_call, Hfd. cbv zeta.
  set (vals := map (fun a => arg_val a w) args).
  set (w1 := if fd_scoped d then set_vars [] w else w).
  set (w3 := clear_out out (bind_args 1 vals w1)).
  set (ci := mkFNC p s (d_end d s) out (fd_scoped d)).
  set (gc := mkFS (fs_meta g) (ci :: fs_stk g) (if fd_scoped d then w_vars w :: fs_scopes g else fs_scopes g)).
  assert (St : fstep1 P (p, (w, f, g)) = Some (S s, (w3, f, gc))).
  { eapply fstep1_goto; [eapply fplaced_nth; exact Hp|].
    unfold fstep. cbn [fi_cmd fi_arg fkw]. rewrite (free_name_kind fn Hfree).
    unfold step_call. rewrite <- Hname at 1. rewrite (HF d s Hd). reflexivity. }
  (* the body of the callee *)
  unfold gdef in Hpd. pose proof (fplaced_tail _ _ _ _ Hpd) as Hpb0.
  pose proof (fplaced_app_l _ _ _ _ Hpb0) as Hpb.
  pose proof (fplaced_app_r _ _ _ _ Hpb0) as Hpe.
  pose proof (fplaced_nth _ _ _ _ Hpe) as HnE.
  rewrite gdef_length in HM.
  assert (Hsub : forall l, Rl (S s) (S s + length (gb (fd_body d))) (s + length (gdef d)) l -> Rl p (p + 1) lo l).
  { unfold Rl. rewrite gdef_length. intros l [H1 H2]. split; [|exact H2]. right. lia. }
  assert (Hready : ready (s + length (gdef d)) true (S s) (S s + length (gb (fd_body d))) f gc).
  { unfold ready. rewrite gdef_length. split; [lia|]. split; [left; lia|]. split; [apply (nde_body d s Hd)|].
    split; [exact HI|]. split; [exact HE|]. split; [exact HF|]. split.
    - eapply fout_weaken; [|exact Hfo]. intros l Hl. apply Hsub. rewrite gdef_length. exact Hl.
    - intros _. exists ci, (fs_stk g). cbn. repeat split; try lia.
      intros Hs. rewrite Hs. discriminate. }
  pose proof (Hb (s + length (gdef d)) true (fd_body d) w3 (S s) f gc Hbody Hnfr Hpb Hready) as IH.
  destruct (hb ds n (fd_body d) w3) as [w4|v w4| |] eqn:Er; cbn [post]; [| |exact I|exact I].
  - (* the body reached its end: end_function *)
    destruct IH as (f4 & R4 & I4 & F4).
    assert (HE4 : aget Nat.eqb (d_end d s) (f_end f4) = Some gen_endfunction_name).
    { apply (EndInv_gframe _ _ _ f f4 HE F4 d s Hd). }
    assert (Sendfn : step_endfn (d_end d s) (w4, f4, gc)
                     = (RGoto (S p), (if fd_scoped d then set_vars (w_vars w) w4 else w4, f4, g))).
    { unfold step_endfn. cbn [gc fs_stk ci fn_end fn_scoped fn_call fs_scopes fs_meta]. rewrite Nat.eqb_refl.
      destruct g as [gm gs0 gsc]. destruct (fd_scoped d); reflexivity. }
    exists f4. split; [|split; [exact I4|eapply gframe_weaken; [exact Hsub|exact F4]]].
    eapply fruns_step_then; [exact St|]. eapply fruns_trans; [exact R4|].
    apply fruns_step. replace (p + 1) with (S p) by lia.
    eapply fstep1_goto; [exact HnE|]. fold (d_end d s).
    unfold fn_closers in Hend. apply in_app_or in Hend. destruct Hend as [Hend|[<-|[]]].
    + unfold fstep. cbn [fi_cmd fi_arg bkw]. rewrite (proj1 (proj2 fcl_parts) _ Hend). exact Sendfn.
    + unfold fstep. cbn [fi_cmd fi_arg bkw]. rewrite fcl_end. unfold step_end_fn. rewrite HE4, fcl_endfn_name.
      exact Sendfn.
  - (* the body returned *)
    destruct IH as (ci' & rest & f4 & Estk & R4 & I4 & F4).
    cbn [gc fs_stk] in Estk. inversion Estk; subst ci' rest.
    exists f4. split; [|split; [exact I4|eapply gframe_weaken; [exact Hsub|exact F4]]].
    eapply fruns_step_then; [exact St|]. replace (p + 1) with (S p) by lia.
    replace (S (fn_call ci)) with (S p) in R4 by reflexivity.
    assert (Epop : popf ci gc = g).
    { unfold popf. cbn [gc fs_stk fs_meta fs_scopes ci fn_scoped tl]. destruct g as [gm gs0 gsc].
      destruct (fd_scoped d); reflexivity. }
    assert (Eret : ret_world ci v w4 (fs_scopes gc)
                   = (let w5 := match out with
                                | Some o => match v with Some x => vset o x w4 | None => vunset o w4 end
                                | None => w4
                                end in
                      if fd_scoped d then set_vars (overlay (w_vars w) out w5) w5 else w5)).
    { unfold ret_world. cbn [gc fs_scopes ci fn_out fn_scoped]. destruct (fd_scoped d); reflexivity. }
    rewrite Epop, Eret in R4. exact R4.
Qed.

Lemma block_case n : stmt_ok n -> block_ok n -> block_ok (S n).
Proof.
  intros Hs Hb lo infn b w p f g Hw Hn Hp Hr. destruct b as [|s b].
  - rewrite hb_nil. cbn [gb length]. rewrite Nat.add_0_r. exists f.
    split; [apply fruns_refl|split; [apply Hr|apply gframe_refl]].
  - rewrite hb_cons. destruct Hw as (Hws & Hwb). cbn [nfr_b] in Hn. apply andb_prop in Hn. destruct Hn as (Hns & Hnb).
    cbn [gb] in Hp, Hr |- *. rewrite app_length in *.
    pose proof (fplaced_app_l _ _ _ _ Hp) as Hp1. pose proof (fplaced_app_r _ _ _ _ Hp) as Hp2.
    set (q := p + (length (gs s) + length (gb b))) in *.
    eapply (post_bind (p, (w, f, g)) (Rl p q lo) (p + length (gs s)) q f g (hs ds n s w) (fun w1 => hb ds n b w1)).
    + eapply post_weaken; [|apply (Hs lo infn s w p f g Hws Hns Hp1)].
      * intros l. apply Rl_sub; unfold q; lia.
      * eapply ready_sub; try exact Hr; try (unfold q; lia); apply Hr || idtac.
        destruct Hr as (_ & _ & _ & _ & _ & _ & Hfo & _). eapply fout_sub; eauto; unfold q; lia.
    + intros w1 f1 I1 F1.
      replace q with (p + length (gs s) + length (gb b)) by (unfold q; lia).
      eapply post_weaken; [|apply (Hb lo infn b w1 (p + length (gs s)) f1 g Hwb Hnb Hp2)].
      * intros l. apply Rl_sub; lia.
      * replace (p + length (gs s) + length (gb b)) with q by (unfold q; lia).
        eapply ready_frame; try exact Hr; try exact F1; auto; unfold q; lia.
Qed.

(* ---- keyword lines of the C04 constructs in the extended machine ---------------------------- *)
Definition kw_names := n_if ++ n_elseif ++ n_else ++ n_endif ++ n_while ++ n_endwhile ++ n_for ++ n_endfor.
Lemma kw_names_split c : In c kw_names ->
  In c n_if \/ In c n_elseif \/ In c n_else \/ In c n_endif \/ In c n_while \/ In c n_endwhile \/
  In c n_for \/ In c n_endfor.
Proof.
  unfold kw_names. intros H.
  apply in_app_or in H; destruct H as [H|H]; [auto|].
  apply in_app_or in H; destruct H as [H|H]; [auto|].
  apply in_app_or in H; destruct H as [H|H]; [auto|].
  apply in_app_or in H; destruct H as [H|H]; [auto 6|].
  apply in_app_or in H; destruct H as [H|H]; [auto 7|].
  apply in_app_or in H; destruct H as [H|H]; [auto 8|].
  apply in_app_or in H; destruct H as [H|H]; [auto 9|auto 10].
Qed.
Lemma kw_names_base c : In c kw_names -> classify_fn c = FKBase (classify c) /\ classify c <> KEnd.
Proof.
  intros H. split.
  - apply base_kind. unfold kw_names in H. rewrite !app_assoc. apply in_or_app. left. apply in_or_app. left.
    rewrite <- !app_assoc. exact H.
  - destruct (kw_names_split c H) as [H1|[H1|[H1|[H1|[H1|[H1|[H1|H1]]]]]]];
      [rewrite (cl_if TW c H1)|rewrite (cl_elseif TW c H1)|rewrite (cl_else TW c H1)|rewrite (cl_endif TW c H1)
      |rewrite (cl_while TW c H1)|rewrite (cl_endwhile TW c H1)|rewrite (cl_for TW c H1)|rewrite (cl_endfor TW c H1)];
      discriminate.
Qed.
Lemma fstep_kw l sp a w f g : In sp kw_names ->
  fstep P l (bkw sp a) (w, f, g) = lift g (step P0 l (kw sp a) (w, f)).
Proof.
  intros H. destruct (kw_names_base sp H) as (H1 & H2).
  rewrite (fdisp_base P); [reflexivity| |eexists; reflexivity].
  exists sp. auto.
Qed.
Ltac kwn := unfold kw_names; repeat (first [apply in_or_app; left; assumption | apply in_or_app; right]); try assumption.

Lemma fcl_endif_name : classify_fn gen_endif_name = FKBase KEndIf.
Proof.
  assert (H : In gen_endif_name n_endif) by apply name_in_names.
  destruct (kw_names_base gen_endif_name) as (E & _); [kwn|]. rewrite E, (cl_endif TW _ H). reflexivity.
Qed.
Lemma fcl_endwhile_name : classify_fn gen_endwhile_name = FKBase KEndWhile.
Proof.
  assert (H : In gen_endwhile_name n_endwhile) by apply name_in_names.
  destruct (kw_names_base gen_endwhile_name) as (E & _); [kwn|]. rewrite E, (cl_endwhile TW _ H). reflexivity.
Qed.
Lemma fcl_endfor_name : classify_fn gen_endfor_name = FKBase KEndFor.
Proof.
  assert (H : In gen_endfor_name n_endfor) by apply name_in_names.
  destruct (kw_names_base gen_endfor_name) as (E & _); [kwn|]. rewrite E, (cl_endfor TW _ H). reflexivity.
Qed.
Lemma fclose_if l e w f g : In e (closers CkIf) -> aget Nat.eqb l (f_end f) = Some gen_endif_name ->
  fstep P l (bkw e ANone) (w, f, g) = (RContinue, (w, f, g)).
Proof.
  intros He Ht. pose proof He as He0. unfold closers in He. apply in_app_or in He. destruct He as [He|[<-|[]]].
  - rewrite fstep_kw by kwn. unfold P0. rewrite (close_if (map down P) TW l e w f He0 Ht). reflexivity.
  - unfold fstep. cbn [fi_cmd fi_arg bkw]. rewrite fcl_end. unfold step_end_fn. rewrite Ht.
    rewrite fcl_endif_name. reflexivity.
Qed.
Lemma fclose_while l e w f g : In e (closers CkWhile) -> aget Nat.eqb l (f_end f) = Some gen_endwhile_name ->
  fstep P l (bkw e ANone) (w, f, g) = lift g (step_endwhile l (w, f)).
Proof.
  intros He Ht. pose proof He as He0. unfold closers in He. apply in_app_or in He. destruct He as [He|[<-|[]]].
  - rewrite fstep_kw by kwn. unfold P0. rewrite (close_while (map down P) TW l e w f He0 Ht). reflexivity.
  - unfold fstep. cbn [fi_cmd fi_arg bkw]. rewrite fcl_end. unfold step_end_fn. rewrite Ht.
    rewrite fcl_endwhile_name. destruct (step_endwhile l (w, f)). reflexivity.
Qed.
Lemma fclose_for l e w f g : In e (closers CkFor) -> aget Nat.eqb l (f_end f) = Some gen_endfor_name ->
  fstep P l (bkw e ANone) (w, f, g) = lift g (step_endfor l (w, f)).
Proof.
  intros He Ht. pose proof He as He0. unfold closers in He. apply in_app_or in He. destruct He as [He|[<-|[]]].
  - rewrite fstep_kw by kwn. unfold P0. rewrite (close_for (map down P) TW l e w f He0 Ht). reflexivity.
  - unfold fstep. cbn [fi_cmd fi_arg bkw]. rewrite fcl_end. unfold step_end_fn. rewrite Ht.
    rewrite fcl_endfor_name. destruct (step_endfor l (w, f)). reflexivity.
Qed.

Lemma res_eta (r : fres) :
  match r with FOk w1 => FOk w1 | FRet v w0 => FRet v w0 | FErr => FErr | FFuel => FFuel end = r.
Proof. destruct r; reflexivity. Qed.

(* run a body placed inside [p, q), then go on *)
Lemma post_bind_in c0 c1 (Rin R : nat -> Prop) a q f f2 g r (k : world -> fres) :
  fruns P c0 c1 -> gframe R f f2 -> (forall l, Rin l -> R l) ->
  post c1 Rin a f2 g r ->
  (forall w1 f3, Inv P0 f3 -> gframe Rin f2 f3 -> post (a, (w1, f3, g)) R q f3 g (k w1)) ->
  post c0 R q f g (match r with FOk w1 => k w1 | FRet v w0 => FRet v w0 | FErr => FErr | FFuel => FFuel end).
Proof.
  intros Hr HF Hsub Hp Hk. destruct r as [w1|v w'| |]; cbn [post] in *; auto.
  - destruct Hp as (f3 & R3 & I3 & F3).
    eapply post_pre; [eapply fruns_trans; [exact Hr|exact R3]| |apply Hk; auto].
    eapply gframe_trans; [exact HF|eapply gframe_weaken; [exact Hsub|exact F3]].
  - destruct Hp as (ci & rest & f3 & E & R3 & I3 & F3). exists ci, rest, f3.
    split; [exact E|]. split; [eapply fruns_trans; eauto|]. split; [exact I3|].
    eapply gframe_trans; [exact HF|eapply gframe_weaken; [exact Hsub|exact F3]].
Qed.
Lemma post_then c0 c1 (Rin R : nat -> Prop) a q f f2 g r :
  fruns P c0 c1 -> gframe R f f2 -> (forall l, Rin l -> R l) ->
  post c1 Rin a f2 g r ->
  (forall w1 f3, Inv P0 f3 -> gframe Rin f2 f3 ->
     exists f', fruns P (a, (w1, f3, g)) (q, (w1, f', g)) /\ Inv P0 f' /\ gframe R f3 f') ->
  post c0 R q f g r.
Proof.
  intros Hr HF Hsub Hp Hk. rewrite <- (res_eta r).
  eapply (post_bind_in c0 c1 Rin R a q f f2 g r (fun w1 => FOk w1)); eauto.
Qed.
End Sim.
