(* FlowFnSim.v — the C05 simulation for programs whose call graph follows the definition order
   (a function only calls functions defined after it) and that have no return inside a for-in
   body: the flat machine computes what the tree-walking interpreter computes.
   Frame statement as in C04 (FlowSim.v), with (a) junk entries allowed on the lines of the
   statement itself and of the functions it may call, (b) two ways of ending: falling through
   (FOk) or returning to the caller of the current activation (FRet). *)
Require Import DS.Base DS.FlowTables DS.FlowTablesWf DS.FlowScan DS.Flow DS.FlowTree DS.FlowScanProof
  DS.FlowLemmas DS.FlowFrame DS.FlowFn DS.FlowFnTree DS.FlowFnDom DS.FlowFnScan DS.FlowFnLemmas.
Require DS.FlowSim.
Require Import DSG.GenFlowNames DSG.GenFnNames.
Open Scope nat_scope.
Notation set_ifstk_push := FlowSim.set_ifstk_push.
Notation nth_error_mid1 := FlowSim.nth_error_mid1.

(* one-step unfoldings of the interpreter *)
Section Unfold.
Variable ds : list fndef.
Lemma hs_cmd n p w : hs ds (S n) (GCmd p) w = match exec_prim p w with Some w' => FOk w' | None => FErr end.
Proof. reflexivity. Qed.
Lemma hs_if n sp c b els e w : hs ds (S n) (GIf sp c b els e) w =
  let (v, w1) := eval_cond c w in if v then hb ds n b w1 else he ds n els w1.
Proof. reflexivity. Qed.
Lemma hs_while n sp c b e w : hs ds (S n) (GWhile sp c b e) w =
  let (v, w1) := eval_cond c w in
  if v then match hb ds n b w1 with FOk w2 => hs ds n (GWhile sp c b e) w2 | r => r end else FOk w1.
Proof. reflexivity. Qed.
Lemma hs_for n sp x hv b e w : hs ds (S n) (GFor sp x hv b e) w = hfor ds n x hv b 0 w.
Proof. reflexivity. Qed.
Lemma hs_return n sp a w : hs ds (S n) (GReturn sp a) w = FRet (option_map (fun x => arg_val x w) a) w.
Proof. reflexivity. Qed.
Lemma hs_call n out f args w : hs ds (S n) (GCall out f args) w =
  match find_def f ds with
  | None => FErr
  | Some d =>
    let vals := map (fun a => arg_val a w) args in
    let saved := w_vars w in
    let w1 := if fd_scoped d then set_vars [] w else w in
    let w3 := clear_out out (bind_args 1 vals w1) in
    match hb ds n (fd_body d) w3 with
    | FOk w4 => FOk (if fd_scoped d then set_vars saved w4 else w4)
    | FRet v w4 =>
        let w5 := match out with
                  | Some o => match v with Some x => vset o x w4 | None => vunset o w4 end
                  | None => w4
                  end in
        FOk (if fd_scoped d then set_vars (overlay saved out w5) w5 else w5)
    | r => r
    end
  end.
Proof. reflexivity. Qed.
Lemma hb_nil n w : hb ds (S n) GNil w = FOk w.
Proof. reflexivity. Qed.
Lemma hb_cons n s b w : hb ds (S n) (GCons s b) w = match hs ds n s w with FOk w1 => hb ds n b w1 | r => r end.
Proof. reflexivity. Qed.
Lemma he_elseif n sp c b r w : he ds (S n) (HElseIf sp c b r) w =
  let (v, w1) := eval_cond c w in if v then hb ds n b w1 else he ds n r w1.
Proof. reflexivity. Qed.
Lemma he_else n sp b w : he ds (S n) (HElse sp b) w = hb ds n b w.
Proof. reflexivity. Qed.
Lemma he_nil n w : he ds (S n) HNil w = FOk w.
Proof. reflexivity. Qed.
Lemma hfor_step n x hv b i w : hfor ds (S n) x hv b i w =
  match get_next_iteration i (vval hv w) w with
  | None => FOk w
  | Some v => match hb ds n b (vset x v w) with FOk w2 => hfor ds n x hv b (S i) w2 | r => r end
  end.
Proof. reflexivity. Qed.

(* a block without a lexical return never ends with the return signal *)
Lemma no_return n :
  (forall s w v w', has_return_s s = false -> hs ds n s w <> FRet v w') /\
  (forall b w v w', has_return_b b = false -> hb ds n b w <> FRet v w') /\
  (forall els w v w', has_return_e els = false -> he ds n els w <> FRet v w') /\
  (forall x hv b i w v w', has_return_b b = false -> hfor ds n x hv b i w <> FRet v w').
Proof.
  induction n as [|n (IHs & IHb & IHe & IHf)]; [repeat split; intros; cbn; discriminate|].
  repeat split.
  - intros s w v w' H. destruct s as [p|sp c b els e|sp c b e|sp x hv b e|out f args|sp a]; cbn [has_return_s] in H.
    + rewrite hs_cmd. destruct (exec_prim p w); discriminate.
    + rewrite hs_if. apply orb_false_elim in H. destruct H as [H1 H2].
      destruct (eval_cond c w) as [[] w1]; auto.
    + rewrite hs_while. destruct (eval_cond c w) as [[] w1]; [|discriminate].
      destruct (hb ds n b w1) eqn:E; try discriminate; auto. intros E2. inversion E2; subst. eapply IHb; eauto.
    + rewrite hs_for. auto.
    + rewrite hs_call. destruct (find_def f ds) as [d|]; [|discriminate]. cbv zeta.
      match goal with |- context [hb ds n ?b ?x] => destruct (hb ds n b x) end; discriminate.
    + discriminate.
  - intros b w v w' H. destruct b as [|s b]; [rewrite hb_nil; discriminate|].
    cbn [has_return_b] in H. apply orb_false_elim in H. destruct H as [H1 H2].
    rewrite hb_cons. destruct (hs ds n s w) eqn:E; try discriminate; auto.
    intros E2. inversion E2; subst. eapply IHs; eauto.
  - intros els w v w' H. destruct els as [|sp c b r|sp b]; cbn [has_return_e] in H.
    + rewrite he_nil. discriminate.
    + rewrite he_elseif. apply orb_false_elim in H. destruct H as [H1 H2].
      destruct (eval_cond c w) as [[] w1]; auto.
    + rewrite he_else. auto.
  - intros x hv b i w v w' H. rewrite hfor_step.
    destruct (get_next_iteration i (vval hv w) w); [|discriminate].
    destruct (hb ds n b (vset x s w)) eqn:E; try discriminate; auto.
    intros E2. inversion E2; subst. eapply IHb; eauto.
Qed.
End Unfold.

Lemma felses_dec (els : felses) : {els = HNil} + {els <> HNil}.
Proof. destruct els; [left; reflexivity|right; discriminate|right; discriminate]. Qed.
Lemma gmid_pos_hd els L : els <> HNil -> exists t, gmid_pos els L = L :: t.
Proof. destruct els; [congruence| |]; intros _; eexists; reflexivity. Qed.
Lemma gmid_pos_range els : forall L x, In x (gmid_pos els L) -> L <= x < L + length (ge els).
Proof.
  induction els as [|sp c b r IH|sp b]; intros L x Hx; cbn [gmid_pos ge length] in *.
  - contradiction.
  - rewrite app_length. destruct Hx as [<-|Hx]; [lia|]. apply IH in Hx. lia.
  - destruct Hx as [<-|[]]. lia.
Qed.

(* ---- layout of the definitions -------------------------------------------------------------------- *)
Fixpoint layout (ds : list fndef) (s : nat) : list (fndef * nat) :=
  match ds with [] => [] | d :: r => (d, s) :: layout r (s + length (gdef d)) end.
Definition d_end (d : fndef) (s : nat) : nat := S s + length (gb (fd_body d)).
Lemma gdef_length d : length (gdef d) = S (S (length (gb (fd_body d)))).
Proof. unfold gdef. cbn [length]. rewrite app_length. cbn. lia. Qed.

Lemma layout_bounds ds : forall s0 d s, In (d, s) (layout ds s0) ->
  s0 <= s /\ s + length (gdef d) <= s0 + length (gdefs ds).
Proof.
  induction ds as [|d0 r IH]; intros s0 d s H; cbn [layout gdefs In find_def] in *; [contradiction|].
  rewrite app_length. destruct H as [E|H].
  - inversion E; subst. lia.
  - apply IH in H. lia.
Qed.
Lemma layout_placed ds : forall s0 pre post d s, length pre = s0 -> In (d, s) (layout ds s0) ->
  exists pre' post', pre ++ gdefs ds ++ post = pre' ++ gdef d ++ post' /\ length pre' = s.
Proof.
  induction ds as [|d0 r IH]; intros s0 pre post d s L H; cbn [layout gdefs In find_def] in *; [contradiction|].
  destruct H as [E|H].
  - inversion E; subst. exists pre, (gdefs r ++ post). split; [now rewrite <- app_assoc|reflexivity].
  - destruct (IH (s0 + length (gdef d0)) (pre ++ gdef d0) post d s) as (pre' & post' & E' & L'); auto.
    + rewrite app_length. lia.
    + exists pre', post'. split; [|exact L']. rewrite <- E', <- !app_assoc. reflexivity.
Qed.
Lemma layout_disjoint ds : forall s0 d1 s1 d2 s2,
  In (d1, s1) (layout ds s0) -> In (d2, s2) (layout ds s0) ->
  (d1 = d2 /\ s1 = s2) \/ s1 + length (gdef d1) <= s2 \/ s2 + length (gdef d2) <= s1.
Proof.
  induction ds as [|d0 r IH]; intros s0 d1 s1 d2 s2 H1 H2; cbn [layout gdefs In find_def] in *; [contradiction|].
  destruct H1 as [E1|H1], H2 as [E2|H2].
  - inversion E1; inversion E2; subst. auto.
  - inversion E1; subst. apply layout_bounds in H2. right. left. lia.
  - inversion E2; subst. apply layout_bounds in H1. right. right. lia.
  - eauto.
Qed.
Lemma layout_find ds : forall s0 d s, In (d, s) (layout ds s0) -> exists d', find_def (fd_name d) ds = Some d'.
Proof.
  induction ds as [|d0 r IH]; intros s0 d s H; cbn [layout gdefs In find_def] in *; [contradiction|].
  destruct H as [E|H].
  - inversion E; subst. rewrite str_eqb_refl. eauto.
  - destruct (str_eqb (fd_name d) (fd_name d0)); eauto.
Qed.

Lemma find_def_name f ds : forall d, find_def f ds = Some d -> fd_name d = f.
Proof.
  induction ds as [|d0 r IH]; intros d H; cbn in H; [discriminate|].
  destruct (str_eqb f (fd_name d0)) eqn:E; [|auto]. inversion H; subst. symmetry. now apply str_eqb_eq.
Qed.

Section Sim.
Variable pr : prog.
Hypothesis TW : tables_wf = true.
Let ds := p_defs pr.
Let P := compile_prog pr.
Let P0 := map down P.
Let M := length (gdefs ds).

Definition DefAt (d : fndef) (s : nat) : Prop := In (d, s) (layout ds 0).
Definition DefEnd (l : nat) : Prop := exists d s, DefAt d s /\ l = d_end d s.
Definition callable_at (lo : nat) (f : str) : Prop :=
  exists d s, find_def f ds = Some d /\ DefAt d s /\ lo <= s.

Lemma DefAt_placed d s : DefAt d s -> fplaced P s (gdef d) /\ s + length (gdef d) <= M.
Proof.
  intros H. split.
  - destruct (layout_placed ds 0 [] (gb (p_main pr)) d s eq_refl H) as (pre' & post' & E & L).
    exists pre', post'. split; [|exact L]. unfold P, compile_prog. exact E.
  - apply layout_bounds in H. unfold M. lia.
Qed.

(* the definitions follow the call order and contain no return inside a for-in *)
Hypothesis Hdefs : forall d s, DefAt d s ->
  In (fd_sp d) n_function /\ In (fd_end d) fn_closers /\
  pgb (callable_at (s + length (gdef d))) true (fd_body d) /\ nfr_b (fd_body d) = true /\
  find_def (fd_name d) ds = Some d.

Definition Rl (p q lo : nat) (l : nat) : Prop := (p <= l < q \/ lo <= l < M) /\ ~ DefEnd l.
Definition nde (p q : nat) : Prop := forall l, p <= l < q -> ~ DefEnd l.
Definition FnInv (g : fnst) : Prop := forall d s, DefAt d s ->
  aget str_eqb (fd_name d) (fs_meta g) = Some (mkFM s (d_end d s) (fd_scoped d)).
Definition EndInv (f : flow) : Prop := forall d s, DefAt d s ->
  aget Nat.eqb (d_end d s) (f_end f) = Some gen_endfunction_name.
Definition act_ok (infn : bool) (p q : nat) (g : fnst) : Prop :=
  infn = true -> exists ci rest, fs_stk g = ci :: rest /\ fn_start ci < p /\ q <= fn_end ci /\
                                 (fn_scoped ci = true -> fs_scopes g <> []).
Definition ready (lo : nat) (infn : bool) (p q : nat) (f : flow) (g : fnst) : Prop :=
  lo <= M /\ (q <= lo \/ M <= p) /\ nde p q /\ Inv P0 f /\ EndInv f /\ FnInv g /\
  fout (Rl p q lo) f /\ act_ok infn p q g.

Definition ret_world (ci : fncall) (v : option str) (w : world) (scopes : list (list (str * str))) : world :=
  let w1 := match fn_out ci with
            | Some o => match v with Some x => vset o x w | None => vunset o w end
            | None => w
            end in
  if fn_scoped ci then
    match scopes with saved :: _ => set_vars (overlay saved (fn_out ci) w1) w1 | [] => w1 end
  else w1.
Definition popf (ci : fncall) (g : fnst) : fnst :=
  mkFS (fs_meta g) (tl (fs_stk g)) (if fn_scoped ci then tl (fs_scopes g) else fs_scopes g).

Definition post (c0 : nat * fstate) (R : nat -> Prop) (q : nat) (f : flow) (g : fnst) (r : fres) : Prop :=
  match r with
  | FOk w' => exists f', fruns P c0 (q, (w', f', g)) /\ Inv P0 f' /\ gframe R f f'
  | FRet v w' => exists ci rest f', fs_stk g = ci :: rest /\
       fruns P c0 (S (fn_call ci), (ret_world ci v w' (fs_scopes g), f', popf ci g)) /\
       Inv P0 f' /\ gframe R f f'
  | _ => True
  end.

Lemma post_weaken c0 (R R' : nat -> Prop) q f g r :
  (forall l, R l -> R' l) -> post c0 R q f g r -> post c0 R' q f g r.
Proof.
  intros HR. destruct r as [w'|v w'| |]; cbn; auto.
  - intros (f' & H1 & H2 & H3). exists f'. eauto using gframe_weaken.
  - intros (ci & rest & f' & H0 & H1 & H2 & H3). exists ci, rest, f'. eauto 6 using gframe_weaken.
Qed.
Lemma post_pre c0 c1 R q f f1 g r :
  fruns P c0 c1 -> gframe R f f1 -> post c1 R q f1 g r -> post c0 R q f g r.
Proof.
  intros Hr Hg. destruct r as [w'|v w'| |]; cbn; auto.
  - intros (f' & H1 & H2 & H3). exists f'. split; [eapply fruns_trans; eauto|]. eauto using gframe_trans.
  - intros (ci & rest & f' & H0 & H1 & H2 & H3). exists ci, rest, f'.
    split; [exact H0|]. split; [eapply fruns_trans; eauto|]. eauto using gframe_trans.
Qed.
Lemma post_bind c0 R a q f g r (k : world -> fres) :
  post c0 R a f g r ->
  (forall w1 f1, Inv P0 f1 -> gframe R f f1 -> post (a, (w1, f1, g)) R q f1 g (k w1)) ->
  post c0 R q f g (match r with FOk w1 => k w1 | FRet v w0 => FRet v w0 | FErr => FErr | FFuel => FFuel end).
Proof.
  intros Hp Hk. destruct r as [w1|v w'| |]; cbn in *; auto.
  destruct Hp as (f1 & H1 & H2 & H3). eapply post_pre; eauto.
Qed.

Lemma Rl_sub p q p' q' lo l : p <= p' -> q' <= q -> Rl p' q' lo l -> Rl p q lo l.
Proof. unfold Rl. intros H1 H2 [H3 H4]. split; [lia|exact H4]. Qed.
Lemma Rl_in p q lo l : nde p q -> p <= l < q -> Rl p q lo l.
Proof. intros H1 H2. split; [lia|auto]. Qed.
Lemma nde_sub p q p' q' : nde p q -> p <= p' -> q' <= q -> nde p' q'.
Proof. intros H H1 H2 l Hl. apply H. lia. Qed.
Lemma EndInv_gframe p q lo f f' : EndInv f -> gframe (Rl p q lo) f f' -> EndInv f'.
Proof.
  intros HE HF d s Hd. rewrite (gf_end _ _ _ HF); [now apply HE|].
  intros [_ Hn]. apply Hn. exists d, s. auto.
Qed.
Lemma act_ok_sub infn p q p' q' g : act_ok infn p q g -> p <= p' -> q' <= q -> act_ok infn p' q' g.
Proof.
  intros H H1 H2 Hi. destruct (H Hi) as (ci & rest & E & A & B & C). exists ci, rest. repeat split; auto; lia.
Qed.
Lemma ready_sub lo infn p q p' q' f f' g :
  ready lo infn p q f g -> p <= p' -> q' <= q -> p' <= q' ->
  Inv P0 f' -> EndInv f' -> fout (Rl p' q' lo) f' -> ready lo infn p' q' f' g.
Proof.
  intros (A & B & C & D & E & F & G & H) H1 H2 H3 I1 I2 I3.
  unfold ready. split; [exact A|]. split; [lia|]. split; [eapply nde_sub; eauto|].
  split; [exact I1|]. split; [exact I2|]. split; [exact F|]. split; [exact I3|eapply act_ok_sub; eauto].
Qed.
Lemma fout_sub lo p q p' q' f f' :
  fout (Rl p q lo) f -> p <= p' -> q' <= q -> f_forstk f' = f_forstk f -> fout (Rl p' q' lo) f'.
Proof.
  intros H H1 H2 E. eapply fout_same; [exact E|]. eapply fout_weaken; [|exact H].
  intros l. now apply Rl_sub.
Qed.
(* the usual way to descend: a state reached by a frame inside the enclosing range *)
Lemma ready_frame lo infn p q p' q' f f' g :
  ready lo infn p q f g -> p <= p' -> q' <= q -> p' <= q' ->
  Inv P0 f' -> gframe (Rl p q lo) f f' -> ready lo infn p' q' f' g.
Proof.
  intros Hr H1 H2 H3 I1 HF. pose proof Hr as (A & B & C & D & E & F & G & H).
  eapply ready_sub; eauto.
  - eapply EndInv_gframe; eauto.
  - eapply fout_sub; eauto. exact (gf_for _ _ _ HF).
Qed.

Definition stmt_ok (n : nat) : Prop := forall lo infn s w p f g,
  pgs (callable_at lo) infn s -> nfr_s s = true -> fplaced P p (gs s) ->
  ready lo infn p (p + length (gs s)) f g ->
  post (p, (w, f, g)) (Rl p (p + length (gs s)) lo) (p + length (gs s)) f g (hs ds n s w).
Definition block_ok (n : nat) : Prop := forall lo infn b w p f g,
  pgb (callable_at lo) infn b -> nfr_b b = true -> fplaced P p (gb b) ->
  ready lo infn p (p + length (gb b)) f g ->
  post (p, (w, f, g)) (Rl p (p + length (gb b)) lo) (p + length (gb b)) f g (hb ds n b w).

(* ---- classification of the function keywords ------------------------------------------------- *)
Lemma fkind_eqb_eq a b : fkind_eqb a b = true -> a = b.
Proof. destruct a, b; cbn; try congruence. intros H. f_equal. now apply kind_eqb_eq. Qed.
Lemma fcl_parts :
  (forall c, In c n_function -> classify_fn c = FKFunction) /\
  (forall c, In c n_endfunction -> classify_fn c = FKEndFunction) /\
  (forall c, In c n_return -> classify_fn c = FKReturn).
Proof.
  pose proof fn_tables_wf as W. unfold fn_tables_ok in W.
  apply andb_prop in W; destruct W as [W _].
  apply andb_prop in W; destruct W as [W H3]. apply andb_prop in W; destruct W as [W H2].
  apply andb_prop in W; destruct W as [_ H1].
  rewrite forallb_forall in H1, H2, H3.
  repeat split; intros c Hc; apply fkind_eqb_eq; auto.
Qed.
Lemma fcl_endfn_name : classify_fn gen_endfunction_name = FKEndFunction.
Proof. apply fcl_parts. apply in_or_app. right. now left. Qed.
Lemma fcl_end : classify_fn gen_end_name = FKBase KEnd.
Proof.
  rewrite base_kind; [now rewrite (cl_end TW)|]. do 8 (apply in_or_app; right). now left.
Qed.
Lemma free_name_kind f : free_name f = true -> classify_fn f = FKBase KOther.
Proof.
  unfold free_name. intros H. apply andb_prop in H. destruct H as [H _].
  apply andb_prop in H. destruct H as [_ H]. destruct (classify_fn f) as [[]| | |]; try discriminate. reflexivity.
Qed.

(* ---- straight-line command, return, sequencing -------------------------------------------------- *)
Lemma cmd_case n : forall lo infn p0 w p f g,
  fplaced P p (gs (GCmd p0)) -> ready lo infn p (p + 1) f g ->
  post (p, (w, f, g)) (Rl p (p + 1) lo) (p + 1) f g (hs ds (S n) (GCmd p0) w).
Proof.
  intros lo infn p0 w p f g Hp Hr. rewrite hs_cmd.
  destruct (exec_prim p0 w) as [w1|] eqn:E; [|exact I].
  exists f. split; [|split; [apply Hr|apply gframe_refl]].
  apply fruns_step. replace (p + 1) with (S p) by lia.
  eapply fstep1_continue; [eapply fplaced_nth; exact Hp|].
  destruct (prim_cmd p0) as [c|] eqn:Ec.
  - rewrite (fdisp_base P).
    + rewrite <- Ec.
      change (down {| fi_cmd := prim_cmd p0; fi_arg := FBase (APrim p0) |}) with (mkI (prim_cmd p0) (APrim p0)).
      rewrite (prim_step (map down P) TW p p0 w w1 f E). reflexivity.
    + exists c. split; [reflexivity|].
      assert (Hin : In c prim_names) by (eapply prim_cmd_names; eauto).
      split; [apply base_kind; do 9 (apply in_or_app; right); exact Hin|].
      rewrite (cl_prim TW c Hin). discriminate.
    + eexists. reflexivity.
  - unfold fstep. cbn [fi_cmd]. destruct p0; try discriminate. cbn in E. now inversion E.
Qed.

Lemma return_case n : forall lo sp a w p f g,
  In sp n_return -> fplaced P p (gs (GReturn sp a)) -> ready lo true p (p + 1) f g ->
  post (p, (w, f, g)) (Rl p (p + 1) lo) (p + 1) f g (hs ds (S n) (GReturn sp a) w).
Proof.
  intros lo sp a w p f g Hsp Hp Hr. rewrite hs_return.
  destruct Hr as (_ & _ & _ & HI & _ & _ & _ & Hact).
  destruct (Hact eq_refl) as (ci & rest & Estk & Hs & He & Hsc).
  exists ci, rest, f. split; [exact Estk|]. split; [|split; [exact HI|apply gframe_refl]].
  apply fruns_step. eapply fstep1_goto; [eapply fplaced_nth; exact Hp|].
  unfold fstep. cbn [fi_cmd fi_arg fkw]. rewrite (proj2 (proj2 fcl_parts) sp Hsp).
  unfold step_return. rewrite Estk.
  assert (Hrange : ((fn_start ci <? p) && (p <? fn_end ci)) = true).
  { apply andb_true_intro. split; apply Nat.ltb_lt; lia. }
  rewrite Hrange. unfold ret_world, popf. rewrite Estk. cbn [tl].
  destruct (fn_scoped ci) eqn:Esc.
  - destruct (fs_scopes g) as [|saved rs] eqn:Es; [exfalso; now apply Hsc|]. reflexivity.
  - reflexivity.
Qed.

Lemma nde_body d s : DefAt d s -> nde (S s) (d_end d s).
Proof.
  intros Hd l Hl (d' & s' & Hd' & E).
  destruct (layout_disjoint ds 0 d s d' s' Hd Hd') as [(E1 & E2)|[H|H]].
  - subst. lia.
  - rewrite gdef_length in H. unfold d_end in *. pose proof (layout_bounds ds 0 d' s' Hd'). lia.
  - rewrite gdef_length in H. unfold d_end in *. lia.
Qed.

Lemma call_case n : block_ok n -> forall lo infn out fn args w p f g,
  pgs (callable_at lo) infn (GCall out fn args) -> fplaced P p (gs (GCall out fn args)) ->
  ready lo infn p (p + 1) f g ->
  post (p, (w, f, g)) (Rl p (p + 1) lo) (p + 1) f g (hs ds (S n) (GCall out fn args) w).
Proof.
  intros Hb lo infn out fn args w p f g ((d & s & Hfd & Hd & Hlo) & Hfree & Hargs) Hp Hr.
  pose proof Hr as (HloM & Hsep & Hnde & HI & HE & HF & Hfo & Hact).
  destruct (Hdefs d s Hd) as (Hsp & Hend & Hbody & Hnfr & _).
  destruct (DefAt_placed d s Hd) as (Hpd & HM).
  pose proof (find_def_name fn ds d Hfd) as Hname.
  rewrite hs_call, Hfd. cbv zeta.
  set (vals := map (fun a => arg_val a w) args).
  set (w1 := if fd_scoped d then set_vars [] w else w).
  set (w3 := clear_out out (bind_args 1 vals w1)).
  set (ci := mkFNC p s (d_end d s) out (fd_scoped d)).
  set (gc := mkFS (fs_meta g) (ci :: fs_stk g) (if fd_scoped d then w_vars w :: fs_scopes g else fs_scopes g)).
  assert (St : fstep1 P (p, (w, f, g)) = Some (S s, (w3, f, gc))).
  { eapply fstep1_goto; [eapply fplaced_nth; exact Hp|].
    unfold fstep. cbn [fi_cmd fi_arg fkw]. rewrite (free_name_kind fn Hfree).
    unfold step_call. rewrite <- Hname at 1. rewrite (HF d s Hd). reflexivity. }
  (* the body of the callee *)
  unfold gdef in Hpd. pose proof (fplaced_tail _ _ _ _ Hpd) as Hpb0.
  pose proof (fplaced_app_l _ _ _ _ Hpb0) as Hpb.
  pose proof (fplaced_app_r _ _ _ _ Hpb0) as Hpe.
  pose proof (fplaced_nth _ _ _ _ Hpe) as HnE.
  rewrite gdef_length in HM.
  assert (Hsub : forall l, Rl (S s) (S s + length (gb (fd_body d))) (s + length (gdef d)) l -> Rl p (p + 1) lo l).
  { unfold Rl. rewrite gdef_length. intros l [H1 H2]. split; [|exact H2]. right. lia. }
  assert (Hready : ready (s + length (gdef d)) true (S s) (S s + length (gb (fd_body d))) f gc).
  { unfold ready. rewrite gdef_length. split; [lia|]. split; [left; lia|]. split; [apply (nde_body d s Hd)|].
    split; [exact HI|]. split; [exact HE|]. split; [exact HF|]. split.
    - eapply fout_weaken; [|exact Hfo]. intros l Hl. apply Hsub. rewrite gdef_length. exact Hl.
    - intros _. exists ci, (fs_stk g). cbn. repeat split; try lia.
      intros Hs. rewrite Hs. discriminate. }
  pose proof (Hb (s + length (gdef d)) true (fd_body d) w3 (S s) f gc Hbody Hnfr Hpb Hready) as IH.
  destruct (hb ds n (fd_body d) w3) as [w4|v w4| |] eqn:Er; cbn [post]; [| |exact I|exact I].
  - (* the body reached its end: end_function *)
    destruct IH as (f4 & R4 & I4 & F4).
    assert (HE4 : aget Nat.eqb (d_end d s) (f_end f4) = Some gen_endfunction_name).
    { apply (EndInv_gframe _ _ _ f f4 HE F4 d s Hd). }
    assert (Sendfn : step_endfn (d_end d s) (w4, f4, gc)
                     = (RGoto (S p), (if fd_scoped d then set_vars (w_vars w) w4 else w4, f4, g))).
    { unfold step_endfn. cbn [gc fs_stk ci fn_end fn_scoped fn_call fs_scopes fs_meta]. rewrite Nat.eqb_refl.
      destruct g as [gm gs0 gsc]. destruct (fd_scoped d); reflexivity. }
    exists f4. split; [|split; [exact I4|eapply gframe_weaken; [exact Hsub|exact F4]]].
    eapply fruns_step_then; [exact St|]. eapply fruns_trans; [exact R4|].
    apply fruns_step. replace (p + 1) with (S p) by lia.
    eapply fstep1_goto; [exact HnE|]. fold (d_end d s).
    unfold fn_closers in Hend. apply in_app_or in Hend. destruct Hend as [Hend|[<-|[]]].
    + unfold fstep. cbn [fi_cmd fi_arg bkw]. rewrite (proj1 (proj2 fcl_parts) _ Hend). exact Sendfn.
    + unfold fstep. cbn [fi_cmd fi_arg bkw]. rewrite fcl_end. unfold step_end_fn. rewrite HE4, fcl_endfn_name.
      exact Sendfn.
  - (* the body returned *)
    destruct IH as (ci' & rest & f4 & Estk & R4 & I4 & F4).
    cbn [gc fs_stk] in Estk. inversion Estk; subst ci' rest.
    exists f4. split; [|split; [exact I4|eapply gframe_weaken; [exact Hsub|exact F4]]].
    eapply fruns_step_then; [exact St|]. replace (p + 1) with (S p) by lia.
    replace (S (fn_call ci)) with (S p) in R4 by reflexivity.
    assert (Epop : popf ci gc = g).
    { unfold popf. cbn [gc fs_stk fs_meta fs_scopes ci fn_scoped tl]. destruct g as [gm gs0 gsc].
      destruct (fd_scoped d); reflexivity. }
    assert (Eret : ret_world ci v w4 (fs_scopes gc)
                   = (let w5 := match out with
                                | Some o => match v with Some x => vset o x w4 | None => vunset o w4 end
                                | None => w4
                                end in
                      if fd_scoped d then set_vars (overlay (w_vars w) out w5) w5 else w5)).
    { unfold ret_world. cbn [gc fs_scopes ci fn_out fn_scoped]. destruct (fd_scoped d); reflexivity. }
    rewrite Epop, Eret in R4. exact R4.
Qed.

Lemma block_case n : stmt_ok n -> block_ok n -> block_ok (S n).
Proof.
  intros Hs Hb lo infn b w p f g Hw Hn Hp Hr. destruct b as [|s b].
  - rewrite hb_nil. cbn [gb length]. rewrite Nat.add_0_r. exists f.
    split; [apply fruns_refl|split; [apply Hr|apply gframe_refl]].
  - rewrite hb_cons. destruct Hw as (Hws & Hwb). cbn [nfr_b] in Hn. apply andb_prop in Hn. destruct Hn as (Hns & Hnb).
    cbn [gb] in Hp, Hr |- *. rewrite app_length in *.
    pose proof (fplaced_app_l _ _ _ _ Hp) as Hp1. pose proof (fplaced_app_r _ _ _ _ Hp) as Hp2.
    set (q := p + (length (gs s) + length (gb b))) in *.
    eapply (post_bind (p, (w, f, g)) (Rl p q lo) (p + length (gs s)) q f g (hs ds n s w) (fun w1 => hb ds n b w1)).
    + eapply post_weaken; [|apply (Hs lo infn s w p f g Hws Hns Hp1)].
      * intros l. apply Rl_sub; unfold q; lia.
      * eapply ready_sub; try exact Hr; try (unfold q; lia); apply Hr || idtac.
        destruct Hr as (_ & _ & _ & _ & _ & _ & Hfo & _). eapply fout_sub; eauto; unfold q; lia.
    + intros w1 f1 I1 F1.
      replace q with (p + length (gs s) + length (gb b)) by (unfold q; lia).
      eapply post_weaken; [|apply (Hb lo infn b w1 (p + length (gs s)) f1 g Hwb Hnb Hp2)].
      * intros l. apply Rl_sub; lia.
      * replace (p + length (gs s) + length (gb b)) with q by (unfold q; lia).
        eapply ready_frame; try exact Hr; try exact F1; auto; unfold q; lia.
Qed.

(* ---- keyword lines of the C04 constructs in the extended machine ---------------------------- *)
Definition kw_names := n_if ++ n_elseif ++ n_else ++ n_endif ++ n_while ++ n_endwhile ++ n_for ++ n_endfor.
Lemma kw_names_split c : In c kw_names ->
  In c n_if \/ In c n_elseif \/ In c n_else \/ In c n_endif \/ In c n_while \/ In c n_endwhile \/
  In c n_for \/ In c n_endfor.
Proof.
  unfold kw_names. intros H.
  apply in_app_or in H; destruct H as [H|H]; [auto|].
  apply in_app_or in H; destruct H as [H|H]; [auto|].
  apply in_app_or in H; destruct H as [H|H]; [auto|].
  apply in_app_or in H; destruct H as [H|H]; [auto 6|].
  apply in_app_or in H; destruct H as [H|H]; [auto 7|].
  apply in_app_or in H; destruct H as [H|H]; [auto 8|].
  apply in_app_or in H; destruct H as [H|H]; [auto 9|auto 10].
Qed.
Lemma kw_names_base c : In c kw_names -> classify_fn c = FKBase (classify c) /\ classify c <> KEnd.
Proof.
  intros H. split.
  - apply base_kind. unfold kw_names in H. rewrite !app_assoc. apply in_or_app. left. apply in_or_app. left.
    rewrite <- !app_assoc. exact H.
  - destruct (kw_names_split c H) as [H1|[H1|[H1|[H1|[H1|[H1|[H1|H1]]]]]]];
      [rewrite (cl_if TW c H1)|rewrite (cl_elseif TW c H1)|rewrite (cl_else TW c H1)|rewrite (cl_endif TW c H1)
      |rewrite (cl_while TW c H1)|rewrite (cl_endwhile TW c H1)|rewrite (cl_for TW c H1)|rewrite (cl_endfor TW c H1)];
      discriminate.
Qed.
Lemma fstep_kw l sp a w f g : In sp kw_names ->
  fstep P l (bkw sp a) (w, f, g) = lift g (step P0 l (kw sp a) (w, f)).
Proof.
  intros H. destruct (kw_names_base sp H) as (H1 & H2).
  rewrite (fdisp_base P); [reflexivity| |eexists; reflexivity].
  exists sp. auto.
Qed.
Lemma kw_in_0 c : In c n_if -> In c kw_names.
Proof. intros H. unfold kw_names. apply in_or_app; left. exact H. Qed.
Lemma kw_in_1 c : In c n_elseif -> In c kw_names.
Proof. intros H. unfold kw_names. do 1 (apply in_or_app; right). apply in_or_app; left. exact H. Qed.
Lemma kw_in_2 c : In c n_else -> In c kw_names.
Proof. intros H. unfold kw_names. do 2 (apply in_or_app; right). apply in_or_app; left. exact H. Qed.
Lemma kw_in_3 c : In c n_endif -> In c kw_names.
Proof. intros H. unfold kw_names. do 3 (apply in_or_app; right). apply in_or_app; left. exact H. Qed.
Lemma kw_in_4 c : In c n_while -> In c kw_names.
Proof. intros H. unfold kw_names. do 4 (apply in_or_app; right). apply in_or_app; left. exact H. Qed.
Lemma kw_in_5 c : In c n_endwhile -> In c kw_names.
Proof. intros H. unfold kw_names. do 5 (apply in_or_app; right). apply in_or_app; left. exact H. Qed.
Lemma kw_in_6 c : In c n_for -> In c kw_names.
Proof. intros H. unfold kw_names. do 6 (apply in_or_app; right). apply in_or_app; left. exact H. Qed.
Lemma kw_in_7 c : In c n_endfor -> In c kw_names.
Proof. intros H. unfold kw_names. do 7 (apply in_or_app; right). exact H. Qed.
Ltac kwn := first [apply kw_in_0; assumption|apply kw_in_1; assumption|apply kw_in_2; assumption|apply kw_in_3; assumption|apply kw_in_4; assumption|apply kw_in_5; assumption|apply kw_in_6; assumption|apply kw_in_7; assumption].
Lemma fcl_endif_name : classify_fn gen_endif_name = FKBase KEndIf.
Proof.
  assert (H : In gen_endif_name n_endif) by apply name_in_names.
  destruct (kw_names_base gen_endif_name) as (E & _); [|rewrite E, (cl_endif TW _ H); reflexivity]. kwn.
Qed.
Lemma fcl_endwhile_name : classify_fn gen_endwhile_name = FKBase KEndWhile.
Proof.
  assert (H : In gen_endwhile_name n_endwhile) by apply name_in_names.
  destruct (kw_names_base gen_endwhile_name) as (E & _); [|rewrite E, (cl_endwhile TW _ H); reflexivity]. kwn.
Qed.
Lemma fcl_endfor_name : classify_fn gen_endfor_name = FKBase KEndFor.
Proof.
  assert (H : In gen_endfor_name n_endfor) by apply name_in_names.
  destruct (kw_names_base gen_endfor_name) as (E & _); [|rewrite E, (cl_endfor TW _ H); reflexivity]. kwn.
Qed.
Lemma fclose_if l e w f g : In e (closers CkIf) -> aget Nat.eqb l (f_end f) = Some gen_endif_name ->
  fstep P l (bkw e ANone) (w, f, g) = (RContinue, (w, f, g)).
Proof.
  intros He Ht. pose proof He as He0. unfold closers in He. apply in_app_or in He. destruct He as [He|[<-|[]]].
  - rewrite fstep_kw by kwn. unfold P0. rewrite (close_if (map down P) TW l e w f He0 Ht). reflexivity.
  - unfold fstep. cbn [fi_cmd fi_arg bkw]. rewrite fcl_end. unfold step_end_fn. rewrite Ht.
    rewrite fcl_endif_name. reflexivity.
Qed.
Lemma fclose_while l e w f g : In e (closers CkWhile) -> aget Nat.eqb l (f_end f) = Some gen_endwhile_name ->
  fstep P l (bkw e ANone) (w, f, g) = lift g (step_endwhile l (w, f)).
Proof.
  intros He Ht. pose proof He as He0. unfold closers in He. apply in_app_or in He. destruct He as [He|[<-|[]]].
  - rewrite fstep_kw by kwn. unfold P0. rewrite (close_while (map down P) TW l e w f He0 Ht). reflexivity.
  - unfold fstep. cbn [fi_cmd fi_arg bkw]. rewrite fcl_end. unfold step_end_fn. rewrite Ht.
    rewrite fcl_endwhile_name. destruct (step_endwhile l (w, f)). reflexivity.
Qed.
Lemma fclose_for l e w f g : In e (closers CkFor) -> aget Nat.eqb l (f_end f) = Some gen_endfor_name ->
  fstep P l (bkw e ANone) (w, f, g) = lift g (step_endfor l (w, f)).
Proof.
  intros He Ht. pose proof He as He0. unfold closers in He. apply in_app_or in He. destruct He as [He|[<-|[]]].
  - rewrite fstep_kw by kwn. unfold P0. rewrite (close_for (map down P) TW l e w f He0 Ht). reflexivity.
  - unfold fstep. cbn [fi_cmd fi_arg bkw]. rewrite fcl_end. unfold step_end_fn. rewrite Ht.
    rewrite fcl_endfor_name. destruct (step_endfor l (w, f)). reflexivity.
Qed.

Lemma res_eta (r : fres) :
  match r with FOk w1 => FOk w1 | FRet v w0 => FRet v w0 | FErr => FErr | FFuel => FFuel end = r.
Proof. destruct r; reflexivity. Qed.

(* run a body placed inside [p, q), then go on *)
Lemma post_runs c0 c1 R q f g r : fruns P c0 c1 -> post c1 R q f g r -> post c0 R q f g r.
Proof.
  intros Hr. destruct r as [w'|v w'| |]; cbn; auto.
  - intros (f' & H1 & H2 & H3). exists f'. split; [eapply fruns_trans; eauto|auto].
  - intros (ci & rest & f' & H0 & H1 & H2 & H3). exists ci, rest, f'.
    split; [exact H0|]. split; [eapply fruns_trans; eauto|auto].
Qed.
Lemma post_bind_in c0 c1 (Rin R : nat -> Prop) a q f f2 g r (k : world -> fres) :
  fruns P c0 c1 -> gframe R f f2 -> (forall l, Rin l -> R l) ->
  post c1 Rin a f2 g r ->
  (forall w1 f3, Inv P0 f3 -> gframe Rin f2 f3 -> gframe R f f3 -> post (a, (w1, f3, g)) R q f g (k w1)) ->
  post c0 R q f g (match r with FOk w1 => k w1 | FRet v w0 => FRet v w0 | FErr => FErr | FFuel => FFuel end).
Proof.
  intros Hr HF Hsub Hp Hk. destruct r as [w1|v w'| |]; cbn [post] in *; auto.
  - destruct Hp as (f3 & R3 & I3 & F3).
    eapply post_runs; [eapply fruns_trans; [exact Hr|exact R3]|]. apply Hk; auto.
    eapply gframe_trans; [exact HF|eapply gframe_weaken; [exact Hsub|exact F3]].
  - destruct Hp as (ci & rest & f3 & E & R3 & I3 & F3). exists ci, rest, f3.
    split; [exact E|]. split; [eapply fruns_trans; eauto|]. split; [exact I3|].
    eapply gframe_trans; [exact HF|eapply gframe_weaken; [exact Hsub|exact F3]].
Qed.
Lemma post_then c0 c1 (Rin R : nat -> Prop) a q f f2 g r :
  fruns P c0 c1 -> gframe R f f2 -> (forall l, Rin l -> R l) ->
  post c1 Rin a f2 g r ->
  (forall w1 f3, Inv P0 f3 -> gframe Rin f2 f3 -> gframe R f f3 ->
     exists f', fruns P (a, (w1, f3, g)) (q, (w1, f', g)) /\ Inv P0 f' /\ gframe R f f') ->
  post c0 R q f g r.
Proof.
  intros Hr HF Hsub Hp Hk. rewrite <- (res_eta r).
  eapply (post_bind_in c0 c1 Rin R a q f f2 g r (fun w1 => FOk w1)); eauto.
Qed.

(* ---- if ---------------------------------------------------------------------------------------------- *)
Definition chain_ok (n : nat) : Prop := forall lo infn els w L e m pfx p0 fb g,
  els <> HNil -> pge (callable_at lo) infn els -> nfr_e els = true -> In e (closers CkIf) ->
  fplaced P L (ge els ++ [bkw e ANone]) ->
  im_else m = pfx ++ gmid_pos els L -> im_end m = L + length (ge els) ->
  (forall x, In x (im_else m) -> p0 <= x < S (im_end m)) ->
  ready lo infn p0 (S (im_end m)) fb g ->
  aget Nat.eqb (im_end m) (f_end fb) = Some gen_endif_name ->
  post (L, (w, if_push (mkIC L false (length pfx) m) fb, g)) (Rl p0 (S (im_end m)) lo) (S (im_end m)) fb g
       (he ds n els w).

(* an else / elseif line reached by falling out of a taken branch *)
Lemma felse_passed r infn lo L rest w f g J i m base :
  r <> HNil -> pge (callable_at lo) infn r -> fplaced P L (ge r ++ rest) ->
  f_ifstk f = J ++ mkIC L true i m :: base -> Forall (fun x => ic_current x <> L) J ->
  fstep1 P (L, (w, f, g)) = Some (S (im_end m), (w, set_ifstk base f, g)).
Proof.
  intros Hr Hw Hp Hs HJ. destruct r as [|sp c b r|sp b]; [congruence| |].
  - cbn [ge app] in Hp. destruct Hw as (Hsp & _).
    eapply fstep1_goto; [eapply fplaced_nth; exact Hp|]. rewrite fstep_kw by kwn.
    unfold P0. rewrite (disp_elseif (map down P) TW) by exact Hsp. unfold step_elseif.
    rewrite Hs, if_pop_junk by (auto; reflexivity). reflexivity.
  - cbn [ge app] in Hp. destruct Hw as (Hsp & _).
    eapply fstep1_goto; [eapply fplaced_nth; exact Hp|]. rewrite fstep_kw by kwn.
    unfold P0. rewrite (disp_else (map down P) TW) by exact Hsp. unfold step_else.
    rewrite Hs, if_pop_junk by (auto; reflexivity). reflexivity.
Qed.

Lemma EndInv_same f f' : f_end f' = f_end f -> EndInv f -> EndInv f'.
Proof. unfold EndInv. intros ->. auto. Qed.

Lemma gif_case n : block_ok n -> chain_ok n -> forall lo infn sp c b els e w p f g,
  pgs (callable_at lo) infn (GIf sp c b els e) -> nfr_s (GIf sp c b els e) = true ->
  fplaced P p (gs (GIf sp c b els e)) ->
  ready lo infn p (p + length (gs (GIf sp c b els e))) f g ->
  post (p, (w, f, g)) (Rl p (p + length (gs (GIf sp c b els e))) lo)
       (p + length (gs (GIf sp c b els e))) f g (hs ds (S n) (GIf sp c b els e) w).
Proof.
  intros Hb Hch lo infn sp c b els e w p f g Hw Hn Hp Hr.
  pose proof (gif_meta_placed P TW (callable_at lo) infn p sp c b els e Hp Hw) as Hm. fold P0 in Hm.
  destruct Hw as (Hsp & He & Hwb & Hwe).
  cbn [nfr_s] in Hn. apply andb_prop in Hn. destruct Hn as (Hnb & Hne).
  assert (Hq : p + length (gs (GIf sp c b els e)) = S (S p + length (gb b) + length (ge els))).
  { cbn [gs length]. rewrite !app_length. cbn [length]. lia. }
  rewrite Hq in *. clear Hq.
  set (nb := length (gb b)) in *. set (ne := length (ge els)) in *.
  set (E := S p + nb + ne) in *.
  set (m := mkIM p E (gmid_pos els (S p + nb))) in *.
  set (R := Rl p (S E) lo).
  pose proof Hr as (HloM & Hsep & Hnde & HI & HE & HF & Hfo & Hact).
  cbn [gs] in Hp.
  pose proof (fplaced_nth _ _ _ _ Hp) as Hn0.
  pose proof (fplaced_tail _ _ _ _ Hp) as Hp1.
  pose proof (fplaced_app_l _ _ _ _ Hp1) as Hpb.
  pose proof (fplaced_app_r _ _ _ _ Hp1) as Hpe. fold nb in Hpe.
  pose proof (fplaced_app_r _ _ _ _ Hpe) as Hpend. fold ne in Hpend.
  pose proof (fplaced_nth _ _ _ _ Hpend) as HnE. fold E in HnE.
  destruct (if_meta_info_ok P0 f p m HI Hm) as (f1 & Hmi & I1 & SS1 & E1).
  pose proof SS1 as (S1a & S1b & S1c).
  assert (HRE : R E) by (apply Rl_in; [exact Hnde|lia]).
  assert (HE1 : aget Nat.eqb E (f_end f1) = Some gen_endif_name)
    by (rewrite E1; apply aget_aset_same).
  assert (Fr1 : gframe R f f1) by (eapply gframe_meta; eauto).
  assert (HEI1 : EndInv f1) by (eapply EndInv_gframe; eauto).
  assert (Hstep : fstep P p (bkw sp (ACond c)) (w, f, g) = lift g (step_if P0 p c (w, f))).
  { rewrite fstep_kw by kwn. unfold P0. rewrite (disp_if (map down P) TW) by exact Hsp. reflexivity. }
  rewrite hs_if. destruct (eval_cond c w) as [v w1] eqn:Ec.
  assert (Hsub : forall l, Rl (S p) (S p + nb) lo l -> R l) by (intros l; apply Rl_sub; lia).
  destruct v.
  - (* the condition holds: run the body *)
    set (next := match im_else m with [] => im_end m | l0 :: _ => l0 end).
    set (f2 := if_push (mkIC next true 0 m) f1).
    assert (St : fstep1 P (p, (w, f, g)) = Some (S p, (w1, f2, g))).
    { eapply fstep1_continue; [exact Hn0|]. rewrite Hstep. unfold step_if. rewrite Hmi, Ec. reflexivity. }
    assert (Hnext : p <= next < S E).
    { unfold next, m. cbn [im_else im_end]. destruct (gmid_pos els (S p + nb)) as [|l0 t] eqn:Eg; [lia|].
      assert (Hin : In l0 (gmid_pos els (S p + nb))) by (rewrite Eg; now left).
      apply gmid_pos_range in Hin. fold ne in Hin. lia. }
    assert (Fr2 : gframe R f f2).
    { apply (gframe_intro R f f2 [mkIC next true 0 m] []).
      - cbn. now rewrite S1a.
      - constructor; [|constructor]. split; [apply Rl_in; [exact Hnde|exact Hnext]|reflexivity].
      - cbn. now rewrite S1b.
      - constructor.
      - cbn. exact S1c.
      - intros l Hl. cbn. exact (gf_end _ _ _ Fr1 l Hl). }
    assert (I2 : Inv P0 f2) by (eapply Inv_same; [| | |exact I1]; reflexivity).
    assert (Hready2 : ready lo infn (S p) (S p + nb) f2 g).
    { apply (ready_sub lo infn p (S E) (S p) (S p + nb) f f2 g Hr); try lia.
      - exact I2.
      - eapply EndInv_same; [|exact HEI1]. reflexivity.
      - eapply fout_sub; try exact Hfo; try lia. cbn. exact S1c. }
    pose proof (Hb lo infn b w1 (S p) f2 g Hwb Hnb Hpb Hready2) as IH. fold nb in IH.
    apply (post_then (p, (w, f, g)) (S p, (w1, f2, g)) (Rl (S p) (S p + nb) lo) R (S p + nb) (S E) f f2 g);
      [apply fruns_step; exact St|exact Fr2|exact Hsub|exact IH|].
    intros w' f3 I3 F3 F3'.
    destruct (gf_if _ _ _ F3) as (Jb & Ei & Fi). cbn [f2 if_push f_ifstk set_ifstk] in Ei.
    destruct (gf_wh _ _ _ F3') as (Jw & Ew & Fw).
    assert (HnRin : forall L, S p + nb <= L -> L <= E -> ~ Rl (S p) (S p + nb) lo L).
    { intros L H1 H2 [[H3|H3] _]; [lia|]. destruct Hsep as [Hs|Hs]; lia. }
    assert (HE3 : aget Nat.eqb E (f_end f3) = Some gen_endif_name).
    { rewrite (gf_end _ _ _ F3); [exact HE1|]. apply HnRin; lia. }
    destruct (felses_dec els) as [Eels|Hnel].
    + (* no else line: fall on the end line; the entry stays as junk *)
      assert (ne = 0) by (unfold ne; rewrite Eels; reflexivity). assert (E = S p + nb) by lia.
      exists f3. split; [|split; [exact I3|exact F3']].
      apply fruns_step. replace (S p + nb) with E by lia.
      eapply fstep1_continue; [exact HnE|]. now apply fclose_if.
    + (* an else / elseif line follows: it pops the entry and jumps behind the block *)
      destruct (gmid_pos_hd els (S p + nb) Hnel) as (t & Ht0).
      assert (Hnx : next = S p + nb) by (unfold next, m; cbn [im_else]; now rewrite Ht0).
      rewrite Hnx in Ei.
      exists (set_ifstk (f_ifstk f1) f3). split; [|split].
      * apply fruns_step.
        rewrite (felse_passed els infn lo (S p + nb) [bkw e ANone] w' f3 g Jb 0 m (f_ifstk f1) Hnel Hwe Hpe Ei).
        -- reflexivity.
        -- eapply junk_ne_if; [exact Fi|]. apply HnRin; lia.
      * eapply Inv_same; [| | |exact I3]; reflexivity.
      * apply (gframe_intro R f _ [] Jw).
        -- cbn. exact S1a.
        -- constructor.
        -- cbn. exact Ew.
        -- exact Fw.
        -- cbn. exact (gf_for _ _ _ F3').
        -- intros l Hl. cbn. exact (gf_end _ _ _ F3' l Hl).
  - (* the condition fails *)
    destruct (felses_dec els) as [Eels|Hnel].
    + rewrite Eels. destruct n as [|n']; [exact I|]. rewrite he_nil.
      exists f1. split; [|split; [exact I1|exact Fr1]].
      apply fruns_step. eapply fstep1_goto; [exact Hn0|]. rewrite Hstep.
      unfold step_if. rewrite Hmi, Ec. unfold m at 1. cbn [im_else]. rewrite Eels. reflexivity.
    + destruct (gmid_pos_hd els (S p + nb) Hnel) as (t & Ht0).
      assert (St : fstep1 P (p, (w, f, g)) = Some (S p + nb, (w1, if_push (mkIC (S p + nb) false 0 m) f1, g))).
      { eapply fstep1_goto; [exact Hn0|]. rewrite Hstep.
        unfold step_if. rewrite Hmi, Ec. unfold m at 1. cbn [im_else]. rewrite Ht0. reflexivity. }
      eapply post_pre; [apply fruns_step; exact St|exact Fr1|].
      apply (Hch lo infn els w1 (S p + nb) e m [] p f1 g Hnel Hwe Hne He Hpe eq_refl eq_refl).
      * intros x Hx. cbn [m im_else im_end] in *. apply gmid_pos_range in Hx. fold ne in Hx. unfold E. lia.
      * apply (ready_sub lo infn p (S E) p (S E) f f1 g Hr); try lia.
        -- exact I1.
        -- exact HEI1.
        -- eapply fout_sub; try exact Hfo; try lia. exact S1c.
      * exact HE1.
Qed.

(* ---- the else chain ------------------------------------------------------------------------------------ *)
Lemma gchain_case n : block_ok n -> chain_ok n -> chain_ok (S n).
Proof.
  intros Hb Hch lo infn els w L e m pfx p0 fb g Hnel Hwe Hnfr He Hp Hel Hend Hrange Hr HE.
  set (entry := mkIC L false (length pfx) m).
  set (R := Rl p0 (S (im_end m)) lo).
  pose proof Hr as (HloM & Hsep & Hnde & HI & HEI & HF & Hfo & Hact).
  assert (HL : p0 <= L < S (im_end m)).
  { apply Hrange. rewrite Hel. destruct (gmid_pos_hd els L Hnel) as (t & ->). apply in_or_app. right. now left. }
  destruct els as [|sp c b r|sp b]; [congruence| |].
  - (* elseif *)
    destruct Hwe as (Hsp & Hwb & Hwr).
    cbn [nfr_e] in Hnfr. apply andb_prop in Hnfr. destruct Hnfr as (Hnb & Hnr).
    cbn [ge app] in Hp. rewrite <- app_assoc in Hp.
    pose proof (fplaced_nth _ _ _ _ Hp) as Hn0.
    pose proof (fplaced_tail _ _ _ _ Hp) as Hp1.
    pose proof (fplaced_app_l _ _ _ _ Hp1) as Hpb.
    pose proof (fplaced_app_r _ _ _ _ Hp1) as Hpr.
    cbn [gmid_pos] in Hel. cbn [ge length] in Hend. rewrite app_length in Hend.
    set (nb := length (gb b)) in *. set (nr := length (ge r)) in *.
    assert (HEq : im_end m = S L + nb + nr) by lia.
    assert (Hstep : fstep P L (bkw sp (ACond c)) (w, if_push entry fb, g)
                    = lift g (step_elseif L c (w, if_push entry fb))).
    { rewrite fstep_kw by kwn. unfold P0. rewrite (disp_elseif (map down P) TW) by exact Hsp. reflexivity. }
    rewrite he_elseif. destruct (eval_cond c w) as [v w1] eqn:Ec.
    assert (Hpop : if_pop L (f_ifstk (if_push entry fb)) = (Some entry, f_ifstk fb)).
    { cbn. now rewrite Nat.eqb_refl. }
    assert (Hlen : length (im_else m) = length pfx + S (length (gmid_pos r (S L + nb)))).
    { rewrite Hel, app_length. reflexivity. }
    assert (Hsub : forall l, Rl (S L) (S L + nb) lo l -> R l) by (intros l; apply Rl_sub; lia).
    assert (HnRin : forall l, S L + nb <= l -> l <= im_end m -> ~ Rl (S L) (S L + nb) lo l).
    { intros l H1 H2 [[H3|H3] _]; [lia|]. destruct Hsep as [Hs|Hs]; lia. }
    destruct v.
    + (* this branch is taken *)
      assert (Htaken : forall x0, p0 <= x0 < S (im_end m) ->
        fstep1 P (L, (w, if_push entry fb, g)) = Some (S L, (w1, if_push (mkIC x0 true (length pfx) m) fb, g)) ->
        (forall w' f3, Inv P0 f3 -> gframe (Rl (S L) (S L + nb) lo) (if_push (mkIC x0 true (length pfx) m) fb) f3 ->
           gframe R fb f3 ->
           exists f', fruns P (S L + nb, (w', f3, g)) (S (im_end m), (w', f', g)) /\ Inv P0 f' /\ gframe R fb f') ->
        post (L, (w, if_push entry fb, g)) R (S (im_end m)) fb g (hb ds n b w1)).
      { intros x0 Hx0 St Hcont.
        set (f2 := if_push (mkIC x0 true (length pfx) m) fb).
        assert (Fr2 : gframe R fb f2).
        { apply (gframe_intro R fb f2 [mkIC x0 true (length pfx) m] []); try reflexivity; try constructor.
          - split; [apply Rl_in; [exact Hnde|exact Hx0]|reflexivity].
          - constructor. }
        assert (Hready2 : ready lo infn (S L) (S L + nb) f2 g).
        { apply (ready_sub lo infn p0 (S (im_end m)) (S L) (S L + nb) fb f2 g Hr); try lia.
          - eapply Inv_same; [| | |exact HI]; reflexivity.
          - eapply EndInv_same; [|exact HEI]. reflexivity.
          - eapply fout_sub; try exact Hfo; try lia. reflexivity. }
        pose proof (Hb lo infn b w1 (S L) f2 g Hwb Hnb Hpb Hready2) as IH. fold nb in IH.
        apply (post_then (L, (w, if_push entry fb, g)) (S L, (w1, f2, g)) (Rl (S L) (S L + nb) lo) R
                         (S L + nb) (S (im_end m)) fb f2 g);
          [apply fruns_step; exact St|exact Fr2|exact Hsub|exact IH|exact Hcont]. }
      destruct (felses_dec r) as [Er|Hr0].
      * (* last else line: the entry pushed here stays as junk *)
        assert (Hnr0 : nr = 0) by (unfold nr; rewrite Er; reflexivity).
        assert (Hlt : (S (length pfx) <? length (im_else m)) = false).
        { apply Nat.ltb_ge. rewrite Hlen, Er. cbn. lia. }
        destruct (nth_error (im_else m) 0) as [x0|] eqn:Ex0.
        2:{ apply nth_error_None in Ex0. rewrite Hlen in Ex0. lia. }
        assert (Hx0 : p0 <= x0 < S (im_end m)) by (apply Hrange; eapply nth_error_In; eauto).
        apply (Htaken x0 Hx0).
        -- eapply fstep1_continue; [exact Hn0|]. rewrite Hstep.
           unfold step_elseif. rewrite Hpop. cbn [entry ic_passed ic_meta ic_idx]. rewrite Ec, Hlt, Ex0.
           rewrite set_ifstk_push. reflexivity.
        -- intros w' f3 I3 F3 F3'. exists f3. split; [|split; [exact I3|exact F3']].
           assert (HnE : nth_error P (im_end m) = Some (bkw e ANone)).
           { rewrite Er in Hpr. cbn [ge app] in Hpr. fold nb in Hpr. apply fplaced_nth in Hpr.
             rewrite HEq, Hnr0, Nat.add_0_r. exact Hpr. }
           apply fruns_step. replace (S L + nb) with (im_end m) by lia.
           eapply fstep1_continue; [exact HnE|]. apply fclose_if; [exact He|].
           rewrite (gf_end _ _ _ F3); [exact HE|]. apply HnRin; lia.
      * (* another else line follows: it pops the entry and jumps behind the block *)
        destruct (gmid_pos_hd r (S L + nb) Hr0) as (t & Ht0).
        assert (Hlt : (S (length pfx) <? length (im_else m)) = true).
        { apply Nat.ltb_lt. rewrite Hlen, Ht0. cbn. lia. }
        assert (Ex1 : nth_error (im_else m) (S (length pfx)) = Some (S L + nb)).
        { rewrite Hel, Ht0. apply nth_error_mid1. }
        apply (Htaken (S L + nb)); [lia| |].
        -- eapply fstep1_continue; [exact Hn0|]. rewrite Hstep.
           unfold step_elseif. rewrite Hpop. cbn [entry ic_passed ic_meta ic_idx]. rewrite Ec, Hlt, Ex1.
           rewrite set_ifstk_push. reflexivity.
        -- intros w' f3 I3 F3 F3'.
           destruct (gf_if _ _ _ F3) as (Jb & Ei & Fi). cbn [if_push f_ifstk set_ifstk] in Ei.
           destruct (gf_wh _ _ _ F3') as (Jw & Ew & Fw).
           exists (set_ifstk (f_ifstk fb) f3). split; [|split].
           ++ apply fruns_step.
              rewrite (felse_passed r infn lo (S L + nb) [bkw e ANone] w' f3 g Jb (length pfx) m (f_ifstk fb) Hr0 Hwr Hpr Ei).
              ** reflexivity.
              ** eapply junk_ne_if; [exact Fi|]. apply HnRin; lia.
           ++ eapply Inv_same; [| | |exact I3]; reflexivity.
           ++ apply (gframe_intro R fb _ [] Jw).
              ** reflexivity.
              ** constructor.
              ** cbn. exact Ew.
              ** exact Fw.
              ** cbn. exact (gf_for _ _ _ F3').
              ** intros l Hl. cbn. exact (gf_end _ _ _ F3' l Hl).
    + (* this branch is not taken *)
      destruct (felses_dec r) as [Er|Hr0].
      * rewrite Er. destruct n as [|n']; [exact I|]. rewrite he_nil.
        assert (Hlt : (S (length pfx) <? length (im_else m)) = false).
        { apply Nat.ltb_ge. rewrite Hlen, Er. cbn. lia. }
        exists fb. split; [|split; [exact HI|apply gframe_refl]].
        apply fruns_step. eapply fstep1_goto; [exact Hn0|]. rewrite Hstep.
        unfold step_elseif. rewrite Hpop. cbn [entry ic_passed ic_meta ic_idx]. rewrite Ec, Hlt.
        rewrite set_ifstk_push. reflexivity.
      * destruct (gmid_pos_hd r (S L + nb) Hr0) as (t & Ht0).
        assert (Hlt : (S (length pfx) <? length (im_else m)) = true).
        { apply Nat.ltb_lt. rewrite Hlen, Ht0. cbn. lia. }
        assert (Ex1 : nth_error (im_else m) (S (length pfx)) = Some (S L + nb)).
        { rewrite Hel, Ht0. apply nth_error_mid1. }
        assert (St : fstep1 P (L, (w, if_push entry fb, g))
                     = Some (S L + nb, (w1, if_push (mkIC (S L + nb) false (S (length pfx)) m) fb, g))).
        { eapply fstep1_goto; [exact Hn0|]. rewrite Hstep.
          unfold step_elseif. rewrite Hpop. cbn [entry ic_passed ic_meta ic_idx]. rewrite Ec, Hlt, Ex1.
          rewrite set_ifstk_push. reflexivity. }
        eapply post_runs; [apply fruns_step; exact St|].
        replace (S (length pfx)) with (length (pfx ++ [L])) by (rewrite app_length; cbn; lia).
        apply (Hch lo infn r w1 (S L + nb) e m (pfx ++ [L]) p0 fb g Hr0 Hwr Hnr He Hpr); auto.
        rewrite Hel, <- app_assoc. reflexivity.
  - (* else *)
    destruct Hwe as (Hsp & Hwb). cbn [nfr_e] in Hnfr.
    cbn [ge app] in Hp.
    pose proof (fplaced_nth _ _ _ _ Hp) as Hn0.
    pose proof (fplaced_tail _ _ _ _ Hp) as Hp1.
    pose proof (fplaced_app_l _ _ _ _ Hp1) as Hpb.
    pose proof (fplaced_app_r _ _ _ _ Hp1) as Hpend.
    cbn [ge length] in Hend.
    set (nb := length (gb b)) in *.
    assert (HEq : im_end m = S L + nb) by lia.
    rewrite he_else.
    assert (St : fstep1 P (L, (w, if_push entry fb, g)) = Some (S L, (w, fb, g))).
    { eapply fstep1_continue; [exact Hn0|]. rewrite fstep_kw by kwn.
      unfold P0. rewrite (disp_else (map down P) TW) by exact Hsp.
      unfold step_else. cbn [if_push f_ifstk set_ifstk if_pop entry ic_current]. rewrite Nat.eqb_refl.
      cbn [ic_passed]. fold (if_push entry fb). rewrite set_ifstk_push. reflexivity. }
    assert (Hready2 : ready lo infn (S L) (S L + nb) fb g).
    { apply (ready_sub lo infn p0 (S (im_end m)) (S L) (S L + nb) fb fb g Hr); try lia; auto.
      eapply fout_sub; try exact Hfo; try lia. reflexivity. }
    pose proof (Hb lo infn b w (S L) fb g Hwb Hnfr Hpb Hready2) as IH. fold nb in IH.
    apply (post_then (L, (w, if_push entry fb, g)) (S L, (w, fb, g)) (Rl (S L) (S L + nb) lo) R
                     (S L + nb) (S (im_end m)) fb fb g);
      [apply fruns_step; exact St|apply gframe_refl|intros l; apply Rl_sub; lia|exact IH|].
    intros w' f3 I3 F3 F3'. exists f3. split; [|split; [exact I3|exact F3']].
    apply fruns_step. replace (S L + nb) with (im_end m) by lia.
    eapply fstep1_continue; [apply fplaced_nth in Hpend; rewrite HEq; exact Hpend|].
    apply fclose_if; [exact He|].
    rewrite (gf_end _ _ _ F3); [exact HE|].
    intros [[H3|H3] _]; [lia|]. destruct Hsep as [Hs|Hs]; lia.
Qed.

(* ---- while ---------------------------------------------------------------------------------------------- *)
Lemma gwhile_case n : stmt_ok n -> block_ok n -> forall lo infn sp c b e w p f g,
  pgs (callable_at lo) infn (GWhile sp c b e) -> nfr_s (GWhile sp c b e) = true ->
  fplaced P p (gs (GWhile sp c b e)) ->
  ready lo infn p (p + length (gs (GWhile sp c b e))) f g ->
  post (p, (w, f, g)) (Rl p (p + length (gs (GWhile sp c b e))) lo)
       (p + length (gs (GWhile sp c b e))) f g (hs ds (S n) (GWhile sp c b e) w).
Proof.
  intros Hs Hb lo infn sp c b e w p f g Hw Hn Hp Hr.
  pose proof (gwhile_meta_placed P TW (callable_at lo) infn p sp c b e Hp Hw) as Hm. fold P0 in Hm.
  pose proof (Hs lo infn (GWhile sp c b e)) as Hself.
  pose proof Hw as (Hsp & He & Hwb). pose proof Hn as Hnb. cbn [nfr_s] in Hnb.
  assert (Hq : p + length (gs (GWhile sp c b e)) = S (S p + length (gb b))).
  { cbn [gs length]. rewrite !app_length. cbn [length]. lia. }
  rewrite Hq in *.
  set (nb := length (gb b)) in *. set (E := S p + nb) in *. set (m := mkLM p E) in *.
  set (R := Rl p (S E) lo).
  pose proof Hr as (HloM & Hsep & Hnde & HI & HE & HF & Hfo & Hact).
  pose proof Hp as Hp0. cbn [gs] in Hp.
  pose proof (fplaced_nth _ _ _ _ Hp) as Hn0.
  pose proof (fplaced_tail _ _ _ _ Hp) as Hp1.
  pose proof (fplaced_app_l _ _ _ _ Hp1) as Hpb.
  pose proof (fplaced_app_r _ _ _ _ Hp1) as Hpend. fold nb in Hpend.
  pose proof (fplaced_nth _ _ _ _ Hpend) as HnE. fold E in HnE.
  destruct (while_meta_info_ok P0 f p m HI Hm) as (f1 & Hmi & I1 & SS1 & E1).
  pose proof SS1 as (S1a & S1b & S1c).
  assert (HRE : R E) by (apply Rl_in; [exact Hnde|lia]).
  assert (HE1 : aget Nat.eqb E (f_end f1) = Some gen_endwhile_name)
    by (rewrite E1; apply aget_aset_same).
  assert (Fr1 : gframe R f f1) by (eapply gframe_meta; eauto).
  assert (HEI1 : EndInv f1) by (eapply EndInv_gframe; eauto).
  assert (Hstep : fstep P p (bkw sp (ACond c)) (w, f, g) = lift g (step_while P0 p c (w, f))).
  { rewrite fstep_kw by kwn. unfold P0. rewrite (disp_while (map down P) TW) by exact Hsp. reflexivity. }
  rewrite hs_while. destruct (eval_cond c w) as [v w1] eqn:Ec.
  destruct v.
  - set (f2 := wh_push m f1).
    assert (St : fstep1 P (p, (w, f, g)) = Some (S p, (w1, f2, g))).
    { eapply fstep1_continue; [exact Hn0|]. rewrite Hstep. unfold step_while. rewrite Hmi, Ec. reflexivity. }
    assert (Fr2 : gframe R f f2).
    { apply (gframe_intro R f f2 [] [m]).
      - cbn. exact S1a.
      - constructor.
      - cbn. now rewrite S1b.
      - constructor; [exact HRE|constructor].
      - cbn. exact S1c.
      - intros l Hl. cbn. exact (gf_end _ _ _ Fr1 l Hl). }
    assert (Hready2 : ready lo infn (S p) (S p + nb) f2 g).
    { apply (ready_sub lo infn p (S E) (S p) (S p + nb) f f2 g Hr); try lia.
      - eapply Inv_same; [| | |exact I1]; reflexivity.
      - eapply EndInv_same; [|exact HEI1]. reflexivity.
      - eapply fout_sub; try exact Hfo; try lia. cbn. exact S1c. }
    pose proof (Hb lo infn b w1 (S p) f2 g Hwb Hnb Hpb Hready2) as IH. fold nb in IH. fold E in IH.
    apply (post_bind_in (p, (w, f, g)) (S p, (w1, f2, g)) (Rl (S p) E lo) R E (S E) f f2 g
                        (hb ds n b w1) (fun w2 => hs ds n (GWhile sp c b e) w2));
      [apply fruns_step; exact St|exact Fr2|intros l; apply Rl_sub; lia|exact IH|].
    intros w2 f3 I3 F3 F3'.
    destruct (gf_wh _ _ _ F3) as (Jw & Ew & Fw). cbn [f2 wh_push f_whstk set_whstk] in Ew.
    assert (HnRin : ~ Rl (S p) E lo E).
    { intros [[H3|H3] _]; [lia|]. destruct Hsep as [Hs0|Hs0]; lia. }
    assert (HE3 : aget Nat.eqb E (f_end f3) = Some gen_endwhile_name).
    { rewrite (gf_end _ _ _ F3); [exact HE1|exact HnRin]. }
    set (f4 := wh_push m (set_whstk (f_whstk f1) f3)).
    assert (St2 : fstep1 P (E, (w2, f3, g)) = Some (p, (w2, f4, g))).
    { eapply fstep1_goto; [exact HnE|]. rewrite fclose_while by auto.
      unfold step_endwhile. rewrite Ew, wh_pop_junk.
      - reflexivity.
      - eapply junk_ne_wh; [exact Fw|exact HnRin].
      - reflexivity. }
    assert (I4 : Inv P0 f4) by (eapply Inv_same; [| | |exact I3]; reflexivity).
    assert (Fr4 : gframe R f f4).
    { destruct (gf_if _ _ _ F3') as (Ji & Ei & Fi).
      apply (gframe_intro R f f4 Ji [m]).
      - cbn. exact Ei.
      - exact Fi.
      - cbn. now rewrite S1b.
      - constructor; [exact HRE|constructor].
      - cbn. exact (gf_for _ _ _ F3').
      - intros l Hl. cbn. exact (gf_end _ _ _ F3' l Hl). }
    eapply post_pre; [apply fruns_step; exact St2|exact Fr4|].
    pose proof (Hself w2 p f4 g Hw Hn Hp0) as IH2. rewrite Hq in IH2. apply IH2.
    apply (ready_sub lo infn p (S E) p (S E) f f4 g Hr); try lia.
    + exact I4.
    + exact (EndInv_gframe p (S E) lo f f4 HE Fr4).
    + eapply fout_sub; try exact Hfo; try lia. exact (gf_for _ _ _ Fr4).
  - exists f1. split; [|split; [exact I1|exact Fr1]].
    apply fruns_step. eapply fstep1_goto; [exact Hn0|]. rewrite Hstep.
    unfold step_while. rewrite Hmi, Ec. reflexivity.
Qed.

(* ---- for-in ----------------------------------------------------------------------------------------------- *)
Definition loop_ok (n : nat) : Prop := forall lo infn sp x hv b e i w p fb f g,
  pgs (callable_at lo) infn (GFor sp x hv b e) -> nfr_s (GFor sp x hv b e) = true ->
  fplaced P p (gs (GFor sp x hv b e)) ->
  ready lo infn p (S (S p + length (gb b))) fb g ->
  ((i = 0 /\ f = fb) \/
   (i > 0 /\ f = for_push (mkFC i (mkLM p (S p + length (gb b)))) fb /\
    aget Nat.eqb (S p + length (gb b)) (f_end fb) = Some gen_endfor_name)) ->
  post (p, (w, f, g)) (Rl p (S (S p + length (gb b))) lo) (S (S p + length (gb b))) fb g
       (hfor ds n x hv b i w).

Lemma gloop_case n : block_ok n -> loop_ok n -> loop_ok (S n).
Proof.
  intros Hb Hl lo infn sp x hv b e i w p fb f g Hw Hn Hp Hr Hentry.
  pose proof (gfor_meta_placed P TW (callable_at lo) infn p sp x hv b e Hp Hw) as Hm. fold P0 in Hm.
  pose proof Hw as (Hsp & He & Hwb).
  pose proof Hn as Hn2. cbn [nfr_s] in Hn2. apply andb_prop in Hn2. destruct Hn2 as (Hnoret & Hnb).
  apply negb_true_iff in Hnoret.
  set (nb := length (gb b)) in *. set (E := S p + nb) in *. set (m := mkLM p E) in *.
  set (R := Rl p (S E) lo).
  pose proof Hr as (HloM & Hsep & Hnde & HI & HE & HF & Hfo & Hact).
  pose proof Hp as Hp0. cbn [gs] in Hp.
  pose proof (fplaced_nth _ _ _ _ Hp) as Hn0.
  pose proof (fplaced_tail _ _ _ _ Hp) as Hp1.
  pose proof (fplaced_app_l _ _ _ _ Hp1) as Hpb.
  pose proof (fplaced_app_r _ _ _ _ Hp1) as Hpend. fold nb in Hpend.
  pose proof (fplaced_nth _ _ _ _ Hpend) as HnE. fold E in HnE.
  assert (HRp : R p) by (apply Rl_in; [exact Hnde|lia]).
  assert (HRE : R E) by (apply Rl_in; [exact Hnde|lia]).
  assert (Hci : exists f1,
    for_call_info P0 p f = (Some (mkFC i m), f1) /\
    Inv P0 f1 /\ same_stacks fb f1 /\ aget Nat.eqb E (f_end f1) = Some gen_endfor_name /\
    (forall l, l <> E -> aget Nat.eqb l (f_end f1) = aget Nat.eqb l (f_end fb))).
  { unfold for_call_info. destruct Hentry as [(Hi & ->)|(Hi & -> & HEb)].
    - subst i. rewrite (for_pop_top_fout R p fb Hfo HRp). rewrite set_forstk_id. cbv zeta.
      destruct (for_meta_info_ok P0 fb p m HI Hm) as (f1 & Hmi & I1 & SS1 & E1).
      rewrite Hmi. exists f1. split; [reflexivity|]. split; [exact I1|]. split; [exact SS1|].
      split; [rewrite E1; apply aget_aset_same|].
      intros l Hne. rewrite E1. apply aget_aset_other. exact Hne.
    - exists fb. cbn [for_push f_forstk set_forstk for_pop_top].
      assert (Hfm : for_match p (mkFC i m) = true)
        by (unfold for_match; cbn; rewrite Nat.eqb_refl; reflexivity).
      rewrite Hfm. cbv beta iota zeta. fold (for_push (mkFC i m) fb). rewrite set_forstk_push.
      split; [reflexivity|]. split; [exact HI|]. split; [repeat split|]. split; [exact HEb|]. auto. }
  destruct Hci as (f1 & Hci & I1 & (S1a & S1b & S1c) & HE1 & Hend1).
  assert (Fr1 : gframe R fb f1).
  { apply (gframe_intro R fb f1 [] []); auto. intros l Hl0. apply Hend1. intros ->. contradiction. }
  assert (HEI1 : EndInv f1) by (eapply EndInv_gframe; eauto).
  assert (Hstep : fstep P p (bkw sp (AFor x hv)) (w, f, g) = lift g (step_for P0 p x hv (w, f))).
  { rewrite fstep_kw by kwn. unfold P0. rewrite (disp_for (map down P) TW) by exact Hsp. reflexivity. }
  rewrite hfor_step.
  destruct (get_next_iteration i (vval hv w) w) as [v|] eqn:Eg.
  - set (f2 := for_push (mkFC (S i) m) f1).
    assert (St : fstep1 P (p, (w, f, g)) = Some (S p, (vset x v w, f2, g))).
    { eapply fstep1_continue; [exact Hn0|]. rewrite Hstep.
      unfold step_for. rewrite Hci. cbn [fc_iter fc_meta]. rewrite Eg. reflexivity. }
    assert (HnRin : forall l, (l = p \/ l = E) -> ~ Rl (S p) E lo l).
    { intros l Hl1 [[H3|H3] _]; [lia|]. destruct Hsep as [Hs0|Hs0]; lia. }
    assert (Hready2 : ready lo infn (S p) (S p + nb) f2 g).
    { apply (ready_sub lo infn p (S E) (S p) (S p + nb) fb f2 g Hr); try lia.
      - eapply Inv_same; [| | |exact I1]; reflexivity.
      - eapply EndInv_same; [|exact HEI1]. reflexivity.
      - unfold fout. cbn [f2 for_push f_forstk set_forstk]. constructor.
        + cbn [fc_meta m lm_start lm_end]. split; apply HnRin; auto.
        + rewrite S1c. eapply fout_sub; try exact Hfo; try lia. reflexivity. }
    pose proof (Hb lo infn b (vset x v w) (S p) f2 g Hwb Hnb Hpb Hready2) as IH. fold nb in IH. fold E in IH.
    destruct (hb ds n b (vset x v w)) as [w2|rv rw| |] eqn:Eb; [| |exact I|exact I].
    2:{ exfalso. eapply (proj1 (proj2 (no_return ds n))); [exact Hnoret|exact Eb]. }
    destruct IH as (f3 & R3 & I3 & F3).
    pose proof (gf_for _ _ _ F3) as Ef. cbn [f2 for_push f_forstk set_forstk] in Ef. rewrite S1c in Ef.
    assert (HE3 : aget Nat.eqb E (f_end f3) = Some gen_endfor_name).
    { rewrite (gf_end _ _ _ F3); [exact HE1|]. apply HnRin. auto. }
    set (fb' := set_forstk (f_forstk fb) f3).
    assert (St2 : fstep1 P (E, (w2, f3, g)) = Some (p, (w2, for_push (mkFC (S i) m) fb', g))).
    { eapply fstep1_goto; [exact HnE|]. rewrite fclose_for by auto.
      unfold step_endfor. rewrite Ef. cbn [for_pop].
      assert (Hfm : for_match E (mkFC (S i) m) = true)
        by (unfold for_match; cbn; rewrite Nat.eqb_refl; apply orb_true_r).
      rewrite Hfm. reflexivity. }
    assert (Ib' : Inv P0 fb') by (eapply Inv_same; [| | |exact I3]; reflexivity).
    assert (Frb : gframe R fb fb').
    { destruct (gf_if _ _ _ F3) as (Jb & Ei & Fi). destruct (gf_wh _ _ _ F3) as (Jw & Ew & Fw).
      cbn [f2 for_push f_ifstk f_whstk set_forstk] in Ei, Ew.
      apply (gframe_intro R fb fb' Jb Jw).
      - cbn. rewrite Ei, S1a. reflexivity.
      - eapply Forall_impl; [|exact Fi]. intros a [H1 H2]. split; [|exact H2].
        revert H1. apply Rl_sub; lia.
      - cbn. rewrite Ew, S1b. reflexivity.
      - eapply Forall_impl; [|exact Fw]. intros a. apply Rl_sub; lia.
      - reflexivity.
      - intros l Hl0. cbn. rewrite (gf_end _ _ _ F3).
        + cbn. apply Hend1. intros ->. contradiction.
        + intros Hx. apply Hl0. revert Hx. apply Rl_sub; lia. }
    assert (Hrb' : ready lo infn p (S E) fb' g).
    { apply (ready_sub lo infn p (S E) p (S E) fb fb' g Hr); try lia.
      - exact Ib'.
      - exact (EndInv_gframe p (S E) lo fb fb' HE Frb).
      - eapply fout_sub; try exact Hfo; try lia. reflexivity. }
    eapply post_pre; [eapply fruns_step_then; [exact St|]; eapply fruns_trans; [exact R3|apply fruns_step; exact St2]
                     |exact Frb|].
    apply (Hl lo infn sp x hv b e (S i) w2 p fb' (for_push (mkFC (S i) m) fb') g Hw Hn Hp0 Hrb').
    right. split; [lia|]. split; [reflexivity|]. exact HE3.
  - exists f1. split; [|split; [exact I1|exact Fr1]].
    apply fruns_step. eapply fstep1_goto; [exact Hn0|]. rewrite Hstep.
    unfold step_for. rewrite Hci. cbn [fc_iter fc_meta]. rewrite Eg. reflexivity.
Qed.

Lemma gfor_case n : loop_ok n -> forall lo infn sp x hv b e w p f g,
  pgs (callable_at lo) infn (GFor sp x hv b e) -> nfr_s (GFor sp x hv b e) = true ->
  fplaced P p (gs (GFor sp x hv b e)) ->
  ready lo infn p (p + length (gs (GFor sp x hv b e))) f g ->
  post (p, (w, f, g)) (Rl p (p + length (gs (GFor sp x hv b e))) lo)
       (p + length (gs (GFor sp x hv b e))) f g (hs ds (S n) (GFor sp x hv b e) w).
Proof.
  intros Hl lo infn sp x hv b e w p f g Hw Hn Hp Hr.
  assert (Hq : p + length (gs (GFor sp x hv b e)) = S (S p + length (gb b))).
  { cbn [gs length]. rewrite !app_length. cbn [length]. lia. }
  rewrite Hq in *. rewrite hs_for.
  apply (Hl lo infn sp x hv b e 0 w p f f g Hw Hn Hp Hr). left. auto.
Qed.

(* ---- all together ------------------------------------------------------------------------------------------ *)
Lemma gsim_all n : stmt_ok n /\ block_ok n /\ chain_ok n /\ loop_ok n.
Proof.
  induction n as [|n (Hs & Hb & Hc & Hl)].
  - repeat split; red; intros; exact I.
  - assert (Hb' : block_ok (S n)) by (apply block_case; assumption).
    split; [|split; [exact Hb'|split; [apply gchain_case; assumption|apply gloop_case; assumption]]].
    intros lo infn s w p f g Hw Hn Hp Hr.
    destruct s as [p0|sp c b els e|sp c b e|sp x hv b e|out fn args|sp a].
    + exact (cmd_case n lo infn p0 w p f g Hp Hr).
    + exact (gif_case n Hb Hc lo infn sp c b els e w p f g Hw Hn Hp Hr).
    + exact (gwhile_case n Hs Hb lo infn sp c b e w p f g Hw Hn Hp Hr).
    + exact (gfor_case n Hl lo infn sp x hv b e w p f g Hw Hn Hp Hr).
    + exact (call_case n Hb lo infn out fn args w p f g Hw Hp Hr).
    + destruct Hw as (Hi & Hsp). subst infn. exact (return_case n lo sp a w p f g Hsp Hp Hr).
Qed.
End Sim.
