(* AliasCmdProof.v — C19 wrapper theorems. *)
Require Import DS.Base DS.ScriptConf DS.AliasCmd.
From stdpp Require Import gmap.
Local Open Scope N_scope.

Lemma starts_with_app p s : starts_with p (p ++ s) = true.
Proof. induction p as [|a p IH]; cbn; [reflexivity|]. now rewrite N.eqb_refl, IH. Qed.

Lemma hasp_arg_key P i : hasp P (arg_key P i) = true.
Proof. unfold hasp, arg_key. apply starts_with_app. Qed.
Lemma hasp_args_key P : hasp P (args_key P) = true.
Proof. unfold hasp, args_key. apply starts_with_app. Qed.

Lemma insert_args_other P : forall args i v k, hasp P k = false ->
  insert_args P i args v !! k = v !! k.
Proof.
  induction args as [|a r IH]; intros i v k Hk; cbn [insert_args]; [reflexivity|].
  rewrite IH by exact Hk. apply lookup_insert_ne. intros E. subst k.
  rewrite hasp_arg_key in Hk. discriminate.
Qed.

Section W.
Variable fresh : handles -> str.
Variable body : vars -> handles -> (option wres * option str) * vars * handles.
Variable P : str.
Variable min_args : nat.
Notation run := (alias_run fresh body P min_args).

Lemma keep_prefix v k : hasp P k = true -> keep P v !! k = None.
Proof.
  intros Hk. unfold keep. apply map_filter_lookup_None. right. intros x _. cbn. rewrite Hk. discriminate.
Qed.
Lemma keep_other v k : hasp P k = false -> keep P v !! k = v !! k.
Proof.
  intros Hk. unfold keep. destruct (v !! k) as [x|] eqn:E.
  - apply map_filter_lookup_Some. split; [exact E|]. cbn. exact Hk.
  - apply map_filter_lookup_None. left. exact E.
Qed.

(* 1. none of the command's working variables remains, whatever the body did *)
Theorem no_working_variable_left args v h r v' h' k :
  run args v h = (r, v', h') -> (min_args <= length args)%nat -> hasp P k = true -> v' !! k = None.
Proof.
  unfold alias_run. intros H Hlen Hk.
  destruct (Nat.ltb_spec (length args) min_args) as [Hlt|_]; [lia|].
  destruct args as [|a0 args0].
  - destruct (body v h) as [[[fr fo] v2] h2].
    destruct (size v <? size (keep P v2))%nat; inversion H; subst; now apply keep_prefix.
  - destruct (body _ _) as [[[fr fo] v2] h2].
    destruct (size v <? size (keep P v2))%nat; inversion H; subst; now apply keep_prefix.
Qed.

(* 2. the array created for argument passing is released, whatever the body did *)
Theorem argument_array_released a0 args0 v h r v' h' :
  run (a0 :: args0) v h = (r, v', h') -> (min_args <= length (a0 :: args0))%nat -> fresh h ∉ h'.
Proof.
  unfold alias_run. intros H Hlen.
  destruct (Nat.ltb_spec (length (a0 :: args0)) min_args) as [Hlt|_]; [lia|].
  destruct (body _ _) as [[[fr fo] v2] h2].
  destruct (size v <? size (keep P v2))%nat; inversion H; subst; set_solver.
Qed.

(* 3. a confined body leaves every caller variable outside the prefix exactly as it was (or, for
      the names D it is documented to delete, deleted) *)
Theorem caller_variables_preserved D args v h r v' h' :
  confined_mod body P D -> run args v h = (r, v', h') ->
  forall k, hasp P k = false -> v' !! k = v !! k \/ (D k = true /\ v' !! k = None).
Proof.
  intros Hc H k Hk. unfold alias_run in H.
  destruct (length args <? min_args)%nat; [inversion H; subst; left; reflexivity|].
  destruct args as [|a0 args0].
  - specialize (Hc v h). destruct (body v h) as [[[fr fo] v2] h2].
    assert (Hv : v' = keep P v2) by (destruct (size v <? size (keep P v2))%nat; inversion H; reflexivity).
    subst v'. rewrite keep_other by exact Hk. exact (Hc k Hk).
  - set (v1 := <[args_key P := fresh h]> (insert_args P 1 (a0 :: args0) v)) in *.
    specialize (Hc v1 ({[fresh h]} ∪ h)).
    destruct (body v1 _) as [[[fr fo] v2] h2].
    assert (Hv : v' = keep P v2) by (destruct (size v <? size (keep P v2))%nat; inversion H; reflexivity).
    subst v'. rewrite keep_other by exact Hk.
    assert (E1 : v1 !! k = v !! k).
    { subst v1. etrans.
      - apply lookup_insert_ne. intros E. subst k. rewrite hasp_args_key in Hk. discriminate.
      - apply insert_args_other. exact Hk. }
    rewrite <- E1. exact (Hc k Hk).
Qed.

Corollary caller_variables_unchanged args v h r v' h' :
  confined body P -> run args v h = (r, v', h') ->
  forall k, hasp P k = false -> v' !! k = v !! k.
Proof.
  intros Hc H k Hk. destruct (caller_variables_preserved _ _ _ _ _ _ _ Hc H k Hk) as [E|[E _]];
    [exact E|discriminate].
Qed.

(* 4. for a confined body the result has no more variables than the call started with, so the
      wrapper's "Memory leak detected" crash cannot fire: the result is the body's own result *)
Theorem no_more_variables D args v h r v' h' :
  confined_mod body P D -> run args v h = (r, v', h') -> (size v' <= size v)%nat.
Proof.
  intros Hc H.
  assert (Hsub : v' ⊆ v).
  { apply map_subseteq_spec. intros k x Hx.
    destruct (hasp P k) eqn:Hk.
    - destruct (Nat.ltb_spec (length args) min_args) as [Hlt|Hge].
      + unfold alias_run in H. destruct (Nat.ltb_spec (length args) min_args); [|lia].
        inversion H; subst. exact Hx.
      + pose proof (no_working_variable_left _ _ _ _ _ _ _ H Hge Hk) as Hn.
        assert (E0 : @None str = Some x) by (etrans; [symmetry; exact Hn | exact Hx]). discriminate E0.
    - destruct (caller_variables_preserved _ _ _ _ _ _ _ Hc H k Hk) as [E|[_ E]].
      + etrans; [symmetry; exact E | exact Hx].
      + assert (E0 : @None str = Some x) by (etrans; [symmetry; exact E | exact Hx]). discriminate E0. }
  pose proof (subseteq_size _ _ (subseteq_dom (D := gset str) _ _ Hsub)) as Hs.
  rewrite !size_dom in Hs. exact Hs.
Qed.

Theorem leak_check_never_fires D args v h :
  confined_mod body P D -> (min_args <= length args)%nat ->
  exists fr fo v2 h2 v1 h1, body v1 h1 = (fr, fo, v2, h2) /\
    (run args v h).1.1 = match fr with Some r => r | None => WContinue fo end.
Proof.
  intros Hc Hlen.
  destruct (run args v h) as [[r v'] h'] eqn:H.
  pose proof (no_more_variables _ _ _ _ _ _ _ Hc H) as Hsz.
  unfold alias_run in H. destruct (Nat.ltb_spec (length args) min_args) as [Hlt|_]; [lia|].
  destruct args as [|a0 args0].
  - destruct (body v h) as [[[fr fo] v2] h2] eqn:Hb. exists fr, fo, v2, h2, v, h. split; [exact Hb|].
    destruct (Nat.ltb_spec (size v) (size (keep P v2))) as [Hl|_].
    + inversion H; subst. lia.
    + inversion H; subst. reflexivity.
  - destruct (body _ _) as [[[fr fo] v2] h2] eqn:Hb. do 6 eexists. split; [exact Hb|].
    destruct (Nat.ltb_spec (size v) (size (keep P v2))) as [Hl|_].
    + inversion H; subst. lia.
    + inversion H; subst. reflexivity.
Qed.
End W.
