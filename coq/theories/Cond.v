(* Cond.v — model of duckscript_sdk/src/utils/condition.rs
   [is_true] and [eval_condition_for_slice], with the five pieces of mutable state of the Rust
   loop as a record.  The recursive call on the sub-slice of a group is open recursion over [ev]
   (fuel = nesting depth).  The falsy table is regenerated from the source (GenTruth.v). *)
Require Import DS.Base.
Require DSG.GenTruth.

(* ---- is_true -------------------------------------------------------------------------- *)
Definition is_true_some (v : str) : bool :=
  negb (str_in (if DSG.GenTruth.gen_lowercased then lower_str v else v) DSG.GenTruth.gen_falsy).
Definition is_true (v : option str) : bool :=
  match v with Some s => is_true_some s | None => false end.

(* ---- eval_condition_for_slice --------------------------------------------------------- *)
Definition s_open : str := [40]. Definition s_close : str := [41].
Definition s_and : str := [97;110;100]. Definition s_or : str := [111;114].

Inductive ftok := FNone | FAnd | FOr | FValue.
(* error codes: 1 Missing ')'   2 Unexpected value   3 Unexpected ')'   4 Unexpected 'and'
                5 Unexpected 'or' *)
Inductive res := Ok (b : bool) | Err (code : N) | Fuel.

Section Cond.
Variable truth : str -> bool.

Record st := mk { cnt : Z; grp : list str; total : option bool; partial : option bool; found : ftok }.
Definition init := mk 0 [] None None FNone.
Definition unwrap_or (o : option bool) (d : bool) := match o with Some b => b | None => d end.

(* storing an evaluated atom; identical for plain values and (since the F1 repair) for groups *)
Definition put_value (s : st) (e : bool) : option st :=
  match found s with
  | FNone => Some (mk (cnt s) (grp s) (total s) (Some e) FValue)
  | FAnd => Some (mk (cnt s) (grp s) (total s) (Some e) FValue)
  | FOr => Some (mk (cnt s) (grp s) (total s) (Some (e || unwrap_or (partial s) false)) FValue)
  | FValue => None
  end.

Definition final (s : st) : bool :=
  match total s, partial s with
  | None, None => false
  | _, _ => unwrap_or (partial s) true && unwrap_or (total s) true
  end.

Fixpoint go (ev : list str -> res) (l : list str) (s : st) {struct l} : res :=
  match l with
  | [] => if (0 <? cnt s)%Z then Err 1 else Ok (final s)
  | a :: l' =>
    if str_eqb a s_open then
      go ev l' (mk (cnt s + 1) (if (cnt s =? 0)%Z then [] else a :: grp s) (total s) (partial s) (found s))
    else if str_eqb a s_close then
      let c := (cnt s - 1)%Z in
      if (c =? 0)%Z then
        match ev (rev (grp s)) with
        | Ok e => match put_value (mk 0 [] (total s) (partial s) (found s)) e with
                  | Some s' => go ev l' s'
                  | None => Err 2
                  end
        | r => r
        end
      else if (c <? 0)%Z then Err 3
      else go ev l' (mk c (a :: grp s) (total s) (partial s) (found s))
    else if (0 <? cnt s)%Z then go ev l' (mk (cnt s) (a :: grp s) (total s) (partial s) (found s))
    else if str_eqb a s_and then
      match found s with
      | FValue =>
        let t := unwrap_or (total s) true && unwrap_or (partial s) true in
        if t then go ev l' (mk (cnt s) (grp s) (Some t) None FAnd) else Ok false
      | _ => Err 4
      end
    else if str_eqb a s_or then
      match found s with
      | FValue => go ev l' (mk (cnt s) (grp s) (total s) (partial s) FOr)
      | _ => Err 5
      end
    else match put_value s (truth a) with Some s' => go ev l' s' | None => Err 2 end
  end.

Fixpoint eval (fuel : nat) (args : list str) {struct fuel} : res :=
  match fuel with
  | O => Fuel
  | S fuel' => match args with [] => Ok false | _ => go (eval fuel') args init end
  end.
End Cond.

(* the slice evaluator as the SDK calls it: fuel = number of tokens + 1 always suffices
   (proved in CondProof.eval_total) *)
Definition eval_slice (args : list str) : res := eval is_true_some (S (length args)) args.
