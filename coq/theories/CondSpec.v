(* CondSpec.v — the specification side of C06: condition statements as trees, their token
   rendering, and the and-of-ors semantics.  Definitions only (extracted for the correspondence
   run); the proofs are in CondProof.v / CondThms.v. *)
Require Import DS.Base DS.Cond.

Section Spec.
Variable truth : str -> bool.

Definition kw (s : str) : bool :=
  str_eqb s s_open || str_eqb s s_close || str_eqb s s_and || str_eqb s s_or.

Inductive cond := CAtom (a : atom) | CAnd (a : atom) (c : cond) | COr (a : atom) (c : cond)
with atom := AVal (s : str) | AEmpty | AGrp (c : cond).
Scheme cond_ind2 := Induction for cond Sort Prop
  with atom_ind2 := Induction for atom Sort Prop.
Combined Scheme cond_atom_ind from cond_ind2, atom_ind2.

Fixpoint wf (c : cond) : Prop :=
  match c with CAtom a => wfa a | CAnd a c => wfa a /\ wf c | COr a c => wfa a /\ wf c end
with wfa (a : atom) : Prop :=
  match a with AVal s => kw s = false | AEmpty => True | AGrp c => wf c end.

Fixpoint toks (c : cond) : list str :=
  match c with
  | CAtom a => atoks a
  | CAnd a c => atoks a ++ s_and :: toks c
  | COr a c => atoks a ++ s_or :: toks c
  end
with atoks (a : atom) : list str :=
  match a with
  | AVal s => [s]
  | AEmpty => [s_open; s_close]
  | AGrp c => s_open :: toks c ++ [s_close]
  end.

(* and-of-ors: [cur] is the disjunction accumulated in the current run *)
Fixpoint semc (c : cond) (cur : bool) : bool :=
  match c with
  | CAtom a => cur || sema a
  | COr a c => semc c (cur || sema a)
  | CAnd a c => (cur || sema a) && semc c false
  end
with sema (a : atom) : bool :=
  match a with AVal s => truth s | AEmpty => false | AGrp c => semc c false end.
Definition sem c := semc c false.

Fixpoint depth (c : cond) : nat :=
  match c with CAtom a => adepth a | CAnd a c => Nat.max (adepth a) (depth c) | COr a c => Nat.max (adepth a) (depth c) end
with adepth (a : atom) : nat :=
  match a with AVal _ => 0 | AEmpty => 1 | AGrp c => S (depth c) end.

End Spec.

(* and-of-ors with explicit runs: the 'and'-separated runs of atoms *)
Fixpoint runs (c : cond) : list (list atom) :=
  match c with
  | CAtom a => [[a]]
  | CAnd a c' => [a] :: runs c'
  | COr a c' => match runs c' with r :: rs => (a :: r) :: rs | [] => [[a]] end
  end.

(* the property's truthiness rule: empty, "0", "false", "no", ASCII case-insensitively *)
Definition lit_0 : str := [48].
Definition lit_false : str := [102;97;108;115;101].
Definition lit_no : str := [110;111].
Definition falsy (v : str) : bool :=
  let l := lower_str v in
  str_eqb l [] || str_eqb l lit_0 || str_eqb l lit_false || str_eqb l lit_no.
