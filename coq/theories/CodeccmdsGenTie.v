(* CodeccmdsGenTie.v — the `run` functions of the byte / base64 glue commands of the SDK
   (duckscript_sdk/src/sdk/std/string/{string_to_bytes, bytes_to_string, base64_encode, base64_decode}/mod.rs,
   collections/map_to_properties/mod.rs): the command
   models of CodecCmds.v (C17) are EQUAL, for all argument vectors and all states of the handle table, to the mechanical
   translation of the CURRENT Rust source (coq/generated/GenCodeccmdsFn.v, rewritten on every run by lib/rs2v.py, grammar
   PColl / executor FnColl, through lib/gen/codeccmds_gen.py).

     gen_cmd_<name>_eq        gen_cmd_<name> rnd args s = cmd_<name> .. args s     for every rnd, args, s
     gen_cmd_<name>_defined   the translation never yields CPanic (nor CFuel): every `context.arguments[i]` of the source is
                              an explicit `(CPanic, s)` arm of the translation; the equality with a model that has no such
                              arm proves the argument-count guard of the source makes the access safe

   Every proof starts with `unfold <flag>; intros U; try discriminate U` and goes on with `all:` so that the file compiles
   both against the real translation and against the stubs (flag false: nothing left to prove). *)
Require Import DS.Base DS.Utf8 DS.Strings DS.Codec DS.CodecProps DS.Rs2vStrLib DS.Rs2vCodecLib DS.CodecCmds DS.CodecCmdsProof.
Require Import DSG.GenCodeccmdsFn.

Ltac tie_args args :=
  destruct args as [|? ?]; cbn [vec_is_empty nth_error length Nat.ltb Nat.leb Nat.eqb negb]; [reflexivity|].
Ltac tie_lookup s :=
  unfold bytes_at;
  match goal with |- context [ht_get ?k (handles s)] => destruct (ht_get k (handles s)) as [[]|] end;
  try reflexivity.

Theorem gen_cmd_string_to_bytes_eq : gen_cmd_string_to_bytes_understood = true ->
  forall rnd args s, gen_cmd_string_to_bytes rnd args s = cmd_string_to_bytes rnd args s.
Proof.
  unfold gen_cmd_string_to_bytes_understood; intros U; try discriminate U.
  all: clear U; intros rnd args s; unfold gen_cmd_string_to_bytes, cmd_string_to_bytes.
  all: tie_args args.
  all: reflexivity.
Qed.

Theorem gen_cmd_bytes_to_string_eq : gen_cmd_bytes_to_string_understood = true ->
  forall rnd args s, gen_cmd_bytes_to_string rnd args s = cmd_bytes_to_string args s.
Proof.
  unfold gen_cmd_bytes_to_string_understood; intros U; try discriminate U.
  all: clear U; intros rnd args s; unfold gen_cmd_bytes_to_string, cmd_bytes_to_string.
  all: tie_args args.
  all: tie_lookup s.
Qed.

Theorem gen_cmd_base64_encode_eq : gen_cmd_base64_encode_understood = true ->
  forall rnd args s, gen_cmd_base64_encode rnd args s = cmd_base64_encode args s.
Proof.
  unfold gen_cmd_base64_encode_understood; intros U; try discriminate U.
  all: clear U; intros rnd args s; unfold gen_cmd_base64_encode, cmd_base64_encode.
  all: tie_args args.
  all: tie_lookup s.
Qed.

Theorem gen_cmd_base64_decode_eq : gen_cmd_base64_decode_understood = true ->
  forall rnd args s, gen_cmd_base64_decode rnd args s = cmd_base64_decode rnd args s.
Proof.
  unfold gen_cmd_base64_decode_understood; intros U; try discriminate U.
  all: clear U; intros rnd args s; unfold gen_cmd_base64_decode, cmd_base64_decode.
  all: tie_args args.
  all: match goal with |- context [b64_decode ?a] => destruct (b64_decode a) end; reflexivity.
Qed.

(* map_to_properties: the body of the translated `for` loop is taken from the goal and shown equal, entry by entry, to
   props_step of the prefix of that branch *)
Ltac tie_props_loop p :=
  match goal with
  | |- context [for_each_ret ?f ?m []] =>
      rewrite (for_each_ret_ext f (props_step p) m)
        by (let acc := fresh "acc" in let k := fresh "k" in let v := fresh "v" in
            intros acc [k v]; unfold props_step, pp_prefix_key, sval_as_string; cbn [fst snd];
            destruct p; destruct v; reflexivity)
  end.
Ltac tie_props_at p s :=
  unfold map_to_properties_at;
  match goal with |- context [ht_get ?k (handles s)] => destruct (ht_get k (handles s)) as [[]|] end;
  try reflexivity; tie_props_loop p; reflexivity.

Theorem gen_cmd_map_to_properties_eq : gen_cmd_map_to_properties_understood = true ->
  forall rnd args s, gen_cmd_map_to_properties rnd args s = cmd_map_to_properties_run args s.
Proof.
  unfold gen_cmd_map_to_properties_understood; intros U; try discriminate U.
  all: clear U; intros rnd args s; unfold gen_cmd_map_to_properties, cmd_map_to_properties_run, s_prefix_flag.
  all: destruct args as [|a0 [|a1 [|a2 r]]]; cbn [vec_is_empty nth_error length Nat.ltb Nat.leb Nat.eqb negb]; try reflexivity.
  all: try (destruct (str_eqb a0 _)).
  all: first [tie_props_at a1 s | tie_props_at (@nil N) s].
Qed.

(* ---- no panic: the translation, with its explicit CPanic arms, never yields CPanic ---------------------------------- *)
Theorem gen_cmd_string_to_bytes_defined : gen_cmd_string_to_bytes_understood = true ->
  forall rnd args s, cdefined (fst (gen_cmd_string_to_bytes rnd args s)).
Proof. intros U rnd args s. rewrite (gen_cmd_string_to_bytes_eq U). apply cmd_string_to_bytes_defined. Qed.
Theorem gen_cmd_bytes_to_string_defined : gen_cmd_bytes_to_string_understood = true ->
  forall rnd args s, cdefined (fst (gen_cmd_bytes_to_string rnd args s)).
Proof. intros U rnd args s. rewrite (gen_cmd_bytes_to_string_eq U). apply cmd_bytes_to_string_defined. Qed.
Theorem gen_cmd_base64_encode_defined : gen_cmd_base64_encode_understood = true ->
  forall rnd args s, cdefined (fst (gen_cmd_base64_encode rnd args s)).
Proof. intros U rnd args s. rewrite (gen_cmd_base64_encode_eq U). apply cmd_base64_encode_defined. Qed.
Theorem gen_cmd_base64_decode_defined : gen_cmd_base64_decode_understood = true ->
  forall rnd args s, cdefined (fst (gen_cmd_base64_decode rnd args s)).
Proof. intros U rnd args s. rewrite (gen_cmd_base64_decode_eq U). apply cmd_base64_decode_defined. Qed.
Theorem gen_cmd_map_to_properties_no_panic : gen_cmd_map_to_properties_understood = true ->
  forall rnd args s, fst (gen_cmd_map_to_properties rnd args s) <> CPanic.
Proof. intros U rnd args s. rewrite (gen_cmd_map_to_properties_eq U). apply cmd_map_to_properties_run_no_panic. Qed.
