(* RegistryProof.v — proofs about the registry model (Registry.v) against RegistrySpec.v. *)
From stdpp Require Import gmap list sorting.
From Coq Require Import NArith Lia.
Require Import DS.Registry DS.RegistrySpec.

(* ------------------------------------------------------------------------------------------- *)
(* the order on names *)
Lemma name_leb_total a b : name_leb a b = true \/ name_leb b a = true.
Proof.
  revert b; induction a as [|x a IH]; intros [|y b]; cbn; auto.
  destruct (N.ltb_spec x y), (N.ltb_spec y x), (N.eqb_spec x y), (N.eqb_spec y x); auto; try lia.
Qed.
Lemma name_leb_trans a b c : name_leb a b = true -> name_leb b c = true -> name_leb a c = true.
Proof.
  revert b c; induction a as [|x a IH]; intros [|y b] [|z c]; cbn; auto; try discriminate.
  destruct (N.ltb_spec x y), (N.ltb_spec y z), (N.ltb_spec x z),
    (N.eqb_spec x y), (N.eqb_spec y z), (N.eqb_spec x z); auto; try lia; try discriminate.
  apply IH.
Qed.
Lemma name_leb_antisym a b : name_leb a b = true -> name_leb b a = true -> a = b.
Proof.
  revert b; induction a as [|x a IH]; intros [|y b]; cbn; auto; try discriminate.
  destruct (N.ltb_spec x y), (N.ltb_spec y x), (N.eqb_spec x y), (N.eqb_spec y x);
    try lia; try discriminate.
  intros H1 H2. subst. f_equal. auto.
Qed.
Global Instance name_le_total : Total name_le.
Proof. intros a b. apply name_leb_total. Qed.
Global Instance name_le_trans : Transitive name_le.
Proof. intros a b c. apply name_leb_trans. Qed.
Global Instance name_le_antisym : AntiSymm (=) name_le.
Proof. intros a b. apply name_leb_antisym. Qed.

(* ------------------------------------------------------------------------------------------- *)
(* the loops *)
Lemma first_alias_conflict_None m decl :
  first_alias_conflict m decl = None <-> forall a, a ∈ decl -> m !! a = None.
Proof.
  induction decl as [|d decl IH]; cbn.
  - split; [intros _ a Ha; by apply elem_of_nil in Ha|done].
  - destruct (m !! d) eqn:Hd.
    + split; [done|]. intros H. specialize (H d (elem_of_list_here _ _)). congruence.
    + rewrite IH. split.
      * intros H a Ha. apply elem_of_cons in Ha as [->|Ha]; auto.
      * intros H a Ha. apply H. by apply elem_of_list_further.
Qed.
Lemma first_alias_conflict_Some m decl a :
  first_alias_conflict m decl = Some a -> a ∈ decl /\ is_Some (m !! a).
Proof.
  induction decl as [|d decl IH]; cbn; [done|].
  destruct (m !! d) eqn:Hd.
  - intros [= <-]. split; [apply elem_of_list_here|by eexists].
  - intros H. destruct (IH H). split; [by apply elem_of_list_further|done].
Qed.

Lemma foldl_insert_lookup (decl : list name) (n : name) (m : gmap name name) a :
  foldl (fun m a => <[a := n]> m) m decl !! a = if decide (a ∈ decl) then Some n else m !! a.
Proof.
  revert m; induction decl as [|d decl IH]; intros m; cbn [foldl].
  - destruct (decide (a ∈ [])) as [Hx|]; [by apply elem_of_nil in Hx|done].
  - rewrite IH. destruct (decide (a ∈ decl)) as [Hin|Hin].
    + rewrite decide_True; [done|by apply elem_of_list_further].
    + destruct (decide (a = d)) as [->|Hne].
      * rewrite lookup_insert. rewrite decide_True; [done|apply elem_of_list_here].
      * rewrite lookup_insert_ne by congruence.
        rewrite decide_False; [done|]. intros [->|?]%elem_of_cons; done.
Qed.

Definition del_if (n : name) (m : gmap name name) (a : name) : gmap name name :=
  if bool_decide (m !! a = Some n) then delete a m else m.

Lemma foldl_del_lookup (decl : list name) (n : name) (m : gmap name name) a :
  foldl (del_if n) m decl !! a = if decide (a ∈ decl /\ m !! a = Some n) then None else m !! a.
Proof.
  revert m; induction decl as [|d decl IH]; intros m; cbn [foldl].
  - rewrite decide_False; [done|]. intros [Hx _]. by apply elem_of_nil in Hx.
  - rewrite IH. unfold del_if. destruct (bool_decide_reflect (m !! d = Some n)) as [Hd|Hd].
    + destruct (decide (a = d)) as [->|Hne].
      * rewrite lookup_delete.
        rewrite (decide_True (P := d ∈ d :: decl ∧ m !! d = Some n)); [|split; [apply elem_of_list_here|done]].
        by destruct (decide _).
      * rewrite lookup_delete_ne by congruence.
        destruct (decide (a ∈ decl ∧ m !! a = Some n)) as [[? ?]|Hx].
        -- rewrite decide_True; [done|]. split; [by apply elem_of_list_further|done].
        -- rewrite decide_False; [done|]. intros [[->|?]%elem_of_cons ?]; [done|]. by apply Hx.
    + destruct (decide (a ∈ decl ∧ m !! a = Some n)) as [[? ?]|Hx].
      * rewrite decide_True; [done|]. split; [by apply elem_of_list_further|done].
      * rewrite decide_False; [done|]. intros [[->|?]%elem_of_cons ?]; [done|]. by apply Hx.
Qed.

Lemma reg_remove_unfold r x :
  reg_remove r x =
  let n := resolve r x in
  match cmds r !! n with
  | Some decl => (Reg (delete n (cmds r)) (foldl (del_if n) (als r) decl), true)
  | None => (r, false)
  end.
Proof. reflexivity. Qed.

Lemma list_to_map_const_lookup (decl : list name) (n a : name) :
  (list_to_map ((fun a => (a, n)) <$> decl) : gmap name name) !! a
  = if decide (a ∈ decl) then Some n else None.
Proof.
  induction decl as [|d decl IH]; cbn.
  - rewrite lookup_empty. destruct (decide (a ∈ [])) as [Hx|]; [by apply elem_of_nil in Hx|done].
  - destruct (decide (a = d)) as [->|Hne].
    + rewrite lookup_insert. rewrite decide_True; [done|apply elem_of_list_here].
    + rewrite lookup_insert_ne by congruence. rewrite IH.
      destruct (decide (a ∈ decl)) as [Hin|Hin].
      * rewrite decide_True; [done|by apply elem_of_list_further].
      * rewrite decide_False; [done|]. intros [->|?]%elem_of_cons; done.
Qed.

(* ------------------------------------------------------------------------------------------- *)
(* set *)
Lemma reg_set_ok r n decl r' :
  reg_set r n decl = SetOk r' ->
  cmds r !! n = None /\ (forall a, a ∈ decl -> als r !! a = None) /\
  r' = Reg (<[n := decl]> (cmds r)) (foldl (fun m a => <[a := n]> m) (delete n (als r)) decl).
Proof.
  unfold reg_set. destruct (cmds r !! n) eqn:Hn; [done|].
  destruct (first_alias_conflict (als r) decl) eqn:Hc; [done|].
  intros [= <-]. split; [done|]. split; [|done]. by apply first_alias_conflict_None.
Qed.

Lemma reg_set_refused_iff r n decl :
  (forall r', reg_set r n decl <> SetOk r') <-> refused r n decl.
Proof.
  unfold refused, reg_set. destruct (cmds r !! n) eqn:Hn.
  - split; [intros _; left; by eexists|done].
  - destruct (first_alias_conflict (als r) decl) eqn:Hc.
    + apply first_alias_conflict_Some in Hc as [? ?]. split; [|done]. intros _. right. eauto.
    + split; [intros H; by edestruct H|].
      intros [[? [=]]|(a & Ha & [v Hv])] r' _.
      rewrite first_alias_conflict_None in Hc. rewrite (Hc a Ha) in Hv. done.
Qed.

Lemma reg_set_accept_iff r n decl :
  (exists r', reg_set r n decl = SetOk r') <-> ~ refused r n decl.
Proof.
  rewrite <- reg_set_refused_iff. split.
  - intros [r' H] Hn. by apply (Hn r').
  - intros H. destruct (reg_set r n decl) eqn:E; [by eexists|..]; exfalso; apply H; intros; discriminate.
Qed.

(* a refused registration leaves the registry exactly as it was *)
Lemma step_set_refused r n decl r' : step r (OSet n decl) = (r', RSet false) -> r' = r.
Proof. cbn. destruct (reg_set r n decl); by intros [= <-]. Qed.
Lemma step_set_refused_iff r n decl :
  (step r (OSet n decl)).2 = RSet false <-> refused r n decl.
Proof.
  rewrite <- reg_set_refused_iff. cbn. destruct (reg_set r n decl); cbn; split; try done.
  - intros H. by edestruct H.
Qed.

Lemma reg_set_spec r n decl :
  match reg_set r n decl with SetOk r' => Some r' | _ => None end = spec_set r n decl.
Proof.
  unfold spec_set. destruct (decide (refused r n decl)) as [Hr|Hr].
  - pose proof (proj2 (reg_set_refused_iff _ _ _) Hr) as Hr'. destruct (reg_set r n decl) eqn:E; [by edestruct Hr'|done..].
  - destruct (proj2 (reg_set_accept_iff _ _ _) Hr) as [r' Hr']. rewrite Hr'. rename Hr' into Hs.
    apply reg_set_ok in Hs as (_ & _ & ->). f_equal. f_equal.
    apply map_eq. intros a. rewrite foldl_insert_lookup, lookup_union, list_to_map_const_lookup.
    destruct (decide (a ∈ decl)); [by destruct (delete n (als r) !! a)|].
    by destruct (delete n (als r) !! a).
Qed.

Lemma reg_set_inv r n decl r' : Inv r -> reg_set r n decl = SetOk r' -> Inv r'.
Proof.
  intros HI Hs. apply reg_set_ok in Hs as (Hn & Hd & ->). intros a m Ha. cbn in *.
  rewrite foldl_insert_lookup in Ha.
  destruct (decide (a ∈ decl)).
  - simplify_eq. exists decl. by rewrite lookup_insert.
  - destruct (decide (a = n)) as [->|]; [by rewrite lookup_delete in Ha|].
    rewrite lookup_delete_ne in Ha by congruence.
    destruct (HI _ _ Ha) as (d & Hd' & Hin). exists d. split; [|done].
    rewrite lookup_insert_ne; [done|]. intros ->. congruence.
Qed.

Lemma reg_set_als_n r n decl r' :
  reg_set r n decl = SetOk r' -> als r' !! n = if decide (n ∈ decl) then Some n else None.
Proof.
  intros Hs. apply reg_set_ok in Hs as (_ & _ & ->). cbn. rewrite foldl_insert_lookup.
  destruct (decide (n ∈ decl)); [done|]. by rewrite lookup_delete.
Qed.

(* an accepted registration is reachable under its name and every alias *)
Lemma reg_set_reach r n decl r' :
  reg_set r n decl = SetOk r' ->
  reg_get r' n = Some (n, decl) /\ forall a, a ∈ decl -> reg_get r' a = Some (n, decl).
Proof.
  intros Hs. pose proof (reg_set_als_n _ _ _ _ Hs) as Hn.
  apply reg_set_ok in Hs as (_ & _ & ->). unfold reg_get, resolve in *. cbn in *. split.
  - rewrite Hn. destruct (decide (n ∈ decl)); by rewrite lookup_insert.
  - intros a Ha. rewrite foldl_insert_lookup. rewrite decide_True by done. by rewrite lookup_insert.
Qed.

Lemma reg_set_frame r n decl r' :
  reg_set r n decl = SetOk r' ->
  (forall m, m <> n -> cmds r' !! m = cmds r !! m) /\
  (forall x, x ∉ decl -> x <> n -> als r' !! x = als r !! x) /\
  (n ∉ decl -> als r' !! n = None).
Proof.
  intros Hs. pose proof (reg_set_als_n _ _ _ _ Hs) as Hn.
  apply reg_set_ok in Hs as (_ & _ & ->). cbn in *. split; [|split].
  - intros m Hm. by rewrite lookup_insert_ne.
  - intros x Hx Hne. rewrite foldl_insert_lookup, decide_False by done. by rewrite lookup_delete_ne.
  - intros Hx. by rewrite Hn, decide_False.
Qed.

(* ------------------------------------------------------------------------------------------- *)
(* remove *)
Lemma reg_remove_exact r x r' :
  Inv r -> reg_remove r x = (r', true) ->
  let n := resolve r x in
  cmds r' = delete n (cmds r) /\
  forall a, als r' !! a = if decide (als r !! a = Some n) then None else als r !! a.
Proof.
  rewrite reg_remove_unfold. intros HI Hr. cbn in *.
  destruct (cmds r !! resolve r x) as [decl|] eqn:Hc; [|done]. simplify_eq. cbn. split; [done|].
  intros a. rewrite foldl_del_lookup.
  destruct (decide (als r !! a = Some (resolve r x))) as [Ha|Ha].
  - rewrite decide_True; [done|]. split; [|done].
    destruct (HI _ _ Ha) as (d & Hd & Hin). by simplify_eq.
  - rewrite decide_False; [done|]. by intros [_ ?].
Qed.

Lemma reg_remove_spec r x : Inv r -> reg_remove r x = spec_remove r x.
Proof.
  intros HI. unfold spec_remove. destruct (reg_remove r x) as [r' b] eqn:E.
  destruct b.
  - pose proof (reg_remove_exact _ _ _ HI E) as [Hc Ha]. cbn in *.
    rewrite reg_remove_unfold in E. cbn in E.
    destruct (cmds r !! resolve r x) eqn:Hx; [|done]. f_equal.
    destruct r' as [c' a']. cbn in *. f_equal; [done|].
    apply map_eq. intros a. rewrite Ha.
    destruct (decide (als r !! a = Some (resolve r x))) as [He|He].
    + symmetry. apply map_filter_lookup_None. right. intros y Hy. cbn. rewrite He in Hy. simplify_eq. intros H. by apply H.
    + destruct (als r !! a) as [v|] eqn:Hv.
      * symmetry. apply map_filter_lookup_Some. split; [done|]. cbn. congruence.
      * symmetry. apply map_filter_lookup_None. by left.
  - rewrite reg_remove_unfold in E. cbn in E. destruct (cmds r !! resolve r x); [done|]. by simplify_eq.
Qed.

Lemma reg_remove_false r x r' : reg_remove r x = (r', false) -> r' = r /\ reg_get r x = None.
Proof.
  rewrite reg_remove_unfold. unfold reg_get. cbn.
  destruct (cmds r !! resolve r x); [done|]. by intros [= <-].
Qed.

Lemma reg_remove_iff_exists r x : (reg_remove r x).2 = reg_exists r x.
Proof.
  rewrite reg_remove_unfold. unfold reg_exists, reg_get. cbn. by destruct (cmds r !! resolve r x).
Qed.

Lemma reg_remove_inv r x r' b : Inv r -> reg_remove r x = (r', b) -> Inv r'.
Proof.
  intros HI E. destruct b; [|apply reg_remove_false in E as [-> _]; done].
  pose proof (reg_remove_exact _ _ _ HI E) as [Hc Ha]. cbn in *.
  intros a m Hm. rewrite Ha in Hm.
  destruct (decide (als r !! a = Some (resolve r x))) as [|Hne]; [done|].
  destruct (HI _ _ Hm) as (d & Hd & Hin). exists d. split; [|done].
  rewrite Hc. rewrite lookup_delete_ne; [done|]. intros <-. done.
Qed.

(* after a successful removal the command is gone and nothing points to it *)
Lemma reg_remove_gone r x r' :
  Inv r -> reg_remove r x = (r', true) ->
  cmds r' !! resolve r x = None /\ forall a, als r' !! a <> Some (resolve r x).
Proof.
  intros HI E. pose proof (reg_remove_exact _ _ _ HI E) as [Hc Ha]. cbn in *. split.
  - by rewrite Hc, lookup_delete.
  - intros a. rewrite Ha. by destruct (decide _).
Qed.

(* ------------------------------------------------------------------------------------------- *)
(* lookups *)
Lemma inv_no_dangling r : Inv r -> NoDangling r.
Proof. intros HI a n Ha. destruct (HI _ _ Ha) as (d & -> & _). by eexists. Qed.

Lemma reg_get_declares r x n d :
  Inv r -> reg_get r x = Some (n, d) ->
  cmds r !! n = Some d /\ (x = n \/ (als r !! x = Some n /\ x ∈ d)).
Proof.
  intros HI. unfold reg_get, resolve. destruct (als r !! x) as [v|] eqn:Hv.
  - destruct (cmds r !! v) eqn:Hc; [|done]. intros [= <- <-]. split; [done|]. right. split; [done|].
    destruct (HI _ _ Hv) as (d' & Hd & Hin). by simplify_eq.
  - destruct (cmds r !! x) eqn:Hc; [|done]. intros [= <- <-]. auto.
Qed.

Lemma observers_pure r o :
  match o with OSet _ _ | ORemove _ => True | _ => (step r o).1 = r end.
Proof. by destruct o. Qed.

(* ------------------------------------------------------------------------------------------- *)
(* get_all_command_names *)
Lemma reg_names_elem r n : n ∈ reg_names r <-> is_Some (cmds r !! n).
Proof.
  unfold reg_names. rewrite merge_sort_Permutation. rewrite elem_of_list_fmap. split.
  - intros ([k v] & -> & H). apply elem_of_map_to_list in H. by eexists.
  - intros [v H]. exists (n, v). split; [done|]. by apply elem_of_map_to_list.
Qed.
Lemma reg_names_nodup r : NoDup (reg_names r).
Proof. unfold reg_names. rewrite merge_sort_Permutation. apply NoDup_fst_map_to_list. Qed.
Lemma reg_names_sorted r : StronglySorted name_le (reg_names r).
Proof. apply (StronglySorted_merge_sort name_le). Qed.
(* whatever order the hash map yields its keys in, the result is this list *)
Lemma reg_names_unique r l :
  StronglySorted name_le l -> NoDup l -> (forall n, n ∈ l <-> is_Some (cmds r !! n)) -> l = reg_names r.
Proof.
  intros Hs Hn He. apply (StronglySorted_unique name_le); [done|apply reg_names_sorted|].
  apply NoDup_Permutation; [done|apply reg_names_nodup|]. intros n. by rewrite He, reg_names_elem.
Qed.
(* strictly increasing *)
Definition name_lt (a b : name) : Prop := name_le a b /\ a <> b.
Lemma sorted_strict l : StronglySorted name_le l -> NoDup l -> StronglySorted name_lt l.
Proof.
  induction 1 as [|a l Hs IH Hall]; intros Hnd; constructor.
  - apply IH. by apply NoDup_cons in Hnd as [_ ?].
  - apply NoDup_cons in Hnd as [Hnot _]. rewrite Forall_forall in *. intros y Hy. split; [by apply Hall|].
    intros ->. done.
Qed.
Lemma reg_names_strict r : StronglySorted name_lt (reg_names r).
Proof. apply sorted_strict; [apply reg_names_sorted|apply reg_names_nodup]. Qed.

(* ------------------------------------------------------------------------------------------- *)
(* histories *)
Lemma inv_new : Inv reg_new.
Proof. intros a n. cbn. by rewrite lookup_empty. Qed.

Lemma step_inv r o : Inv r -> Inv (step r o).1.
Proof.
  intros HI. destruct o; cbn; try done.
  - destruct (reg_set r n decl) eqn:E; cbn; try done. eauto using reg_set_inv.
  - destruct (reg_remove r x) eqn:E. cbn. eauto using reg_remove_inv.
Qed.

Lemma run_inv ops : forall r, Inv r -> Inv (run r ops).1.
Proof.
  induction ops as [|o ops IH]; intros r HI; cbn; [done|].
  pose proof (step_inv r o HI) as H1. destruct (step r o) as [r1 x]. cbn in H1.
  specialize (IH r1 H1). destruct (run r1 ops). done.
Qed.

(* ------------------------------------------------------------------------------------------- *)
(* script level *)
Lemma reg_change_inv r r' : Inv r -> reg_change r r' -> Inv r'.
Proof.
  intros HI [| n r2 Hs | k r2 Hr | k Hk]; eauto using reg_set_inv, reg_remove_inv.
  intros a n Ha. cbn in *. apply lookup_delete_Some in Ha as [_ Ha]. eauto.
Qed.

Lemma sstep_change s o : reg_change (sr_reg s) (sr_reg (sstep s o).1).
Proof.
  destruct s as [r al fn]. destruct o as [args|args|args|args|n]; cbn.
  - destruct args as [|n [|? ?]]; cbn; try constructor.
    destruct (reg_set r n []) eqn:E; cbn; try constructor. eapply rc_set; eauto.
  - destruct args as [|k [|? ?]]; cbn; try constructor.
    destruct (bool_decide (k ∈ al)).
    + destruct (reg_remove r k) as [r' b] eqn:E. destruct b; cbn; try constructor.
      eapply rc_remove; eauto.
    + destruct (als r !! k) eqn:E; cbn; [apply rc_unalias; by eexists|constructor].
  - destruct args as [|k [|? ?]]; cbn; try constructor.
    destruct (reg_remove r k) as [r' b] eqn:E. destruct b; cbn.
    + eapply rc_remove; eauto.
    + apply reg_remove_false in E as [-> _]. constructor.
  - destruct args; cbn; constructor.
  - destruct (bool_decide (n ∈ fn)); cbn; try constructor.
    destruct (reg_set r n []) eqn:E; cbn; try constructor. eapply rc_set; eauto.
Qed.

Lemma sstep_inv s o : Inv (sr_reg s) -> Inv (sr_reg (sstep s o).1).
Proof. intros HI. eapply reg_change_inv; eauto using sstep_change. Qed.

Lemma srun_inv ops : forall s, Inv (sr_reg s) -> Inv (sr_reg (srun s ops).1).
Proof.
  induction ops as [|o ops IH]; intros s HI; cbn; [done|].
  pose proof (sstep_inv s o HI) as H1. destruct (sstep s o) as [s1 x]. cbn in H1.
  specialize (IH s1 H1). destruct (srun s1 ops). done.
Qed.

(* an errored alias / unalias / remove_command / is_command_defined, and an `fn` whose registration
   is refused, leave the registry exactly as it was *)
Lemma sstep_err s o : (sstep s o).2 = SErr -> sr_reg (sstep s o).1 = sr_reg s.
Proof.
  destruct s as [r al fn]. destruct o as [args|args|args|args|n]; cbn.
  - destruct args as [|n [|? ?]]; cbn; try done. destruct (reg_set r n []); cbn; done.
  - destruct args as [|k [|? ?]]; cbn; try done.
    destruct (bool_decide (k ∈ al)).
    + destruct (reg_remove r k) as [r' b]. destruct b; cbn; done.
    + destruct (als r !! k); cbn; done.
  - destruct args as [|k [|? ?]]; cbn; try done. destruct (reg_remove r k) as [r' b]; cbn; done.
  - destruct args; cbn; done.
  - destruct (bool_decide (n ∈ fn)); cbn; try done. destruct (reg_set r n []); cbn; done.
Qed.

(* is_command_defined is Commands::exists; remove_command is Commands::remove *)
Lemma sstep_is_defined s k rest :
  sstep s (SIsDefined (k :: rest)) = (s, SOut (reg_exists (sr_reg s) k)).
Proof. reflexivity. Qed.
Lemma sstep_remove_command s k :
  sstep s (SRemoveCommand [k]) =
  (SReg (reg_remove (sr_reg s) k).1 (sr_alias s) (sr_fn s), SOut (reg_remove (sr_reg s) k).2).
Proof. cbn. by destruct (reg_remove (sr_reg s) k). Qed.

(* ------------------------------------------------------------------------------------------- *)
(* witnesses *)
Definition n_a : name := [97%N]. Definition n_b : name := [98%N].
Definition n_c : name := [99%N]. Definition n_x : name := [120%N].

(* F11 history: set a[x]; set x[]; set c[x]; remove a — x must still reach c *)
Lemma f11_witness :
  let r := (run reg_new [OSet n_a [n_x]; OSet n_x []; OSet n_c [n_x]; ORemove n_a]).1 in
  reg_get r n_x = Some (n_c, [n_x]) /\ reg_get r n_a = None.
Proof. vm_compute. done. Qed.

(* the code before the F11 repair removed every alias the removed command declared *)
Definition reg_remove_pinned (r : reg) (x : name) : reg * bool :=
  let n := resolve r x in
  match cmds r !! n with
  | Some decl => (Reg (delete n (cmds r)) (foldl (fun m a => delete a m) (als r) decl), true)
  | None => (r, false)
  end.
Lemma f11_pinned_refuted :
  exists r x, Inv r /\ reg_remove_pinned r x <> spec_remove r x.
Proof.
  exists (run reg_new [OSet n_a [n_x]; OSet n_x []; OSet n_c [n_x]]).1, n_a. split.
  - apply run_inv, inv_new.
  - intros H. apply (f_equal (fun p => als p.1 !! n_x)) in H. vm_compute in H. done.
Qed.

(* reachability is not persistent: a later accepted registration can shadow a name ... *)
Lemma reach_persistent_refuted :
  let r := (run reg_new [OSet n_a []; OSet n_b [n_a]]).1 in
  cmds r !! n_a = Some [] /\ reg_get r n_a = Some (n_b, [n_a]).
Proof. vm_compute. done. Qed.
(* ... or take over an alias: a registration whose NAME equals another command's alias is accepted
   and deletes that alias *)
Lemma alias_stolen_refuted :
  let r := (run reg_new [OSet n_a [n_x]; OSet n_x []]).1 in
  cmds r !! n_a = Some [n_x] /\ als r !! n_x = None /\ reg_get r n_x = Some (n_x, []).
Proof. vm_compute. done. Qed.
