(* FlowwhileGenTie.v — the while / end_while part of the hand model of C04 / C05 (Flow.v: create_loop_meta
   gen_while_tables, while_meta_info, wh_pop, wh_push, step_while, step_endwhile; FlowFnC.v: cstep_while) IS the current
   source: each is proved equal, for all inputs, to the Gallina translation of
   duckscript_sdk/src/sdk/std/flowcontrol/while_mod/mod.rs (and get_line_key of flowcontrol/mod.rs) that lib/rs2v.py
   (class FnFw, client lib/gen/flowwhile_gen.py) regenerates into DSG.GenFlowwhileFn on every run.

   The Rust CallInfo carries line_context_name and the meta-info cache is keyed by "<context name>::<line>"; the model
   omits both (the context name is constant in programs without alias scopes).  The ties are therefore stated on the
   states [wst_of ctx f] — cache keys = get_line_key's strings for the context name ctx, every stack entry carrying ctx —
   for EVERY ctx; gen_pop_call_info_for_line is first characterised on all states (wc_pop: entries of another context are
   dropped, not matched).

   Every theorem is stated under the `understood` flags of the translations it uses, and every proof also compiles
   against the all-stub file (flags false): proofs start by discharging the flags and every later sentence is prefixed
   with `all:`; no generated variable name occurs, loop bodies are taken from the goal. *)
Require Import DS.Base DS.Cond DS.FlowTables DS.FlowScan DS.Flow DS.FlowFn DS.FlowFnC DS.FlowwhileGenLib.
Require DS.Runner.
Require Import DSG.GenFlowNames DSG.GenFlowwhileFn.
Require Import Lia DecimalNat.
Open Scope nat_scope.

(* ---- the cache keys are injective in the line ------------------------------------------------------------------ *)
Lemma uint_str_inj : forall a b, DS.Runner.uint_str a = DS.Runner.uint_str b -> a = b.
Proof.
  induction a as [|a IH|a IH|a IH|a IH|a IH|a IH|a IH|a IH|a IH|a IH]; intros b H; destruct b;
    cbn [DS.Runner.uint_str] in H; try discriminate H; try reflexivity;
    injection H as H; f_equal; apply IH; exact H.
Qed.

Lemma usize_str_inj : forall a b, usize_str a = usize_str b -> a = b.
Proof.
  intros a b H. unfold usize_str, DS.Runner.nat_str in H. apply uint_str_inj in H.
  rewrite <- (DecimalNat.Unsigned.of_to a), <- (DecimalNat.Unsigned.of_to b). now rewrite H.
Qed.

Lemma line_key_inj : forall ctx a b, line_key ctx a = line_key ctx b -> a = b.
Proof. intros ctx a b H. unfold line_key in H. apply app_inv_head in H. now apply usize_str_inj. Qed.

Lemma line_key_eqb : forall ctx a b, str_eqb (line_key ctx a) (line_key ctx b) = Nat.eqb a b.
Proof.
  intros ctx a b. destruct (Nat.eqb_spec a b) as [->|N].
  - apply str_eqb_refl.
  - apply str_eqb_neq. intros H. apply N. now apply line_key_inj in H.
Qed.

Lemma aget_embed : forall ctx line l,
  aget str_eqb (line_key ctx line) (embed_cache ctx l) = aget Nat.eqb line l.
Proof.
  intros ctx line l. induction l as [|[k v] l IH]; [reflexivity|].
  cbn [embed_cache map aget fst snd]. rewrite line_key_eqb. destruct (Nat.eqb line k); [reflexivity|exact IH].
Qed.

Lemma str_eqb_sym : forall a b, str_eqb a b = str_eqb b a.
Proof.
  intros a b. destruct (str_eqb_spec a b) as [->|N]; [now rewrite str_eqb_refl|].
  symmetry. apply str_eqb_neq. congruence.
Qed.

Lemma tables_eq : forall a b c d e, mkT a b c d e = gen_while_tables ->
  forall l n, find_commands (mkT a b c d e) l n = find_commands gen_while_tables l n.
Proof. intros a b c d e H l n. now rewrite H. Qed.

(* ---- pckg::concat ------------------------------------------------------------------------------------------------ *)
Theorem gen_pckg_concat_eq : gen_pckg_concat_understood = true ->
  forall parent current, gen_pckg_concat parent current = pckg_concat parent current.
Proof.
  unfold gen_pckg_concat_understood; intros U; try discriminate U.
  all: clear U.
  all: intros parent current.
  all: unfold gen_pckg_concat, pckg_concat.
  all: destruct parent; destruct current; cbn [str_is_empty negb andb orb app]; rewrite ?app_nil_r; reflexivity.
Qed.

(* ---- get_line_key ------------------------------------------------------------------------------------------------ *)
Theorem gen_get_line_key_eq : gen_get_line_key_understood = true ->
  forall line s, gen_get_line_key line s = line_key (ws_ctx s) line.
Proof.
  unfold gen_get_line_key_understood; intros U; try discriminate U.
  all: clear U.
  all: intros line s.
  all: unfold gen_get_line_key, line_key.
  all: rewrite <- ?app_assoc.
  all: reflexivity.
Qed.

(* ---- create_while_meta_info_for_line ----------------------------------------------------------------------------- *)
(* with the package the SDK registers the flow commands under (GenFlowNames.gen_flow_package), the five name lists the
   source builds are the tables of the C04 development and the scan starts on the line after the opener *)
Theorem gen_create_while_meta_info_eq : gen_create_while_meta_info_for_line_understood = true ->
  forall P line, res_opt (gen_create_while_meta_info_for_line gen_flow_package (cmds P) line)
                 = create_loop_meta gen_while_tables P line.
Proof.
  unfold gen_create_while_meta_info_for_line_understood; intros U; try discriminate U.
  all: clear U.
  all: intros P line.
  all: unfold gen_create_while_meta_info_for_line, create_loop_meta.
  all: rewrite ?Nat.add_1_r.
  all: match goal with
       | |- context [find_commands (mkT ?a ?b ?c ?d ?e) _ _] =>
         rewrite (tables_eq a b c d e ltac:(vm_compute; reflexivity))
       end.
  all: destruct (find_commands gen_while_tables (cmds P) (S line)); reflexivity.
Qed.

Lemma endwhile_name_eq : forall x, x = gen_endwhile_name -> forall l (t : list (nat * str)),
  aset Nat.eqb l x t = aset Nat.eqb l gen_endwhile_name t.
Proof. intros x -> l t. reflexivity. Qed.

(* ---- get_or_create_while_meta_info_for_line ---------------------------------------------------------------------- *)
Theorem gen_get_or_create_eq :
  gen_get_or_create_while_meta_info_for_line_understood = true -> gen_get_line_key_understood = true ->
  gen_create_while_meta_info_for_line_understood = true ->
  forall ctx P line f,
    let g := gen_get_or_create_while_meta_info_for_line gen_flow_package (cmds P) line (wst_of ctx f) in
    res_opt (fst g) = fst (while_meta_info P line f) /\ snd g = wst_of ctx (snd (while_meta_info P line f)).
Proof.
  unfold gen_get_or_create_while_meta_info_for_line_understood; intros U U1 U2; try discriminate U.
  all: clear U.
  all: intros ctx P line f.
  all: pose proof (gen_create_while_meta_info_eq U2 P line) as HC.
  all: unfold gen_get_or_create_while_meta_info_for_line, while_meta_info.
  all: rewrite ?(gen_get_line_key_eq U1).
  all: cbn [wst_of ws_ctx ws_cache ws_stk ws_end].
  all: rewrite aget_embed.
  all: repeat match goal with
       | |- context [aset Nat.eqb ?l (pckg_concat gen_flow_package ?x) ?t] =>
         rewrite (endwhile_name_eq (pckg_concat gen_flow_package x) ltac:(vm_compute; reflexivity) l t)
       end.
  all: destruct (aget Nat.eqb line (f_whmeta f)) as [m|].
  all: try (split; reflexivity).
  all: destruct (gen_create_while_meta_info_for_line gen_flow_package (cmds P) line) as [v|e];
       cbn [res_opt] in HC; rewrite <- HC.
  all: split; reflexivity.
Qed.

(* ---- pop_call_info_for_line -------------------------------------------------------------------------------------- *)
Lemma loop_pop_generic : forall (body : wst -> wstep wst (option wcall * wst)) line ctx c e,
  (forall l, body (mkWS ctx c l e)
             = match l with
               | [] => WRet (None, mkWS ctx c [] e)
               | x :: r => if Nat.eqb (lm_end (wc_meta x)) line && str_eqb (wc_ctx x) ctx
                           then WRet (Some x, mkWS ctx c r e) else WCont (mkWS ctx c r e)
               end) ->
  forall l n d, length l < n ->
    loop_ret body n (mkWS ctx c l e) d = (fst (wc_pop line ctx l), mkWS ctx c (snd (wc_pop line ctx l)) e).
Proof.
  intros body line ctx c e HB l. induction l as [|x r IH]; intros n d Hn.
  - destruct n as [|n]; [inversion Hn|]. cbn [loop_ret]. rewrite HB. reflexivity.
  - destruct n as [|n]; [inversion Hn|]. cbn [loop_ret]. rewrite HB. cbn [wc_pop].
    destruct (Nat.eqb (lm_end (wc_meta x)) line && str_eqb (wc_ctx x) ctx); [reflexivity|].
    apply IH. cbn [length] in Hn. lia.
Qed.

(* on EVERY state: entries are dropped until one has this end line AND the current context name *)
Theorem gen_pop_call_info_eq : gen_pop_call_info_for_line_understood = true ->
  forall line s,
    gen_pop_call_info_for_line line s
    = (fst (wc_pop line (ws_ctx s) (ws_stk s)),
       mkWS (ws_ctx s) (ws_cache s) (snd (wc_pop line (ws_ctx s) (ws_stk s))) (ws_end s)).
Proof.
  unfold gen_pop_call_info_for_line_understood; intros U; try discriminate U.
  all: clear U.
  all: intros line [ctx c l e].
  all: unfold gen_pop_call_info_for_line.
  all: cbn [ws_ctx ws_cache ws_stk ws_end].
  all: apply loop_pop_generic; [|lia].
  all: intros l'; destruct l' as [|x r]; cbn [ws_ctx ws_cache ws_stk ws_end]; [reflexivity|].
  all: rewrite ?(Nat.eqb_sym line), ?(str_eqb_sym ctx).
  all: destruct (Nat.eqb (lm_end (wc_meta x)) line); destruct (str_eqb (wc_ctx x) ctx); reflexivity.
Qed.

Lemma wc_pop_embed : forall line ctx l,
  wc_pop line ctx (embed_stk ctx l)
  = (option_map (fun m => mkWC m ctx) (fst (wh_pop line l)), embed_stk ctx (snd (wh_pop line l))).
Proof.
  intros line ctx l. induction l as [|m r IH]; [reflexivity|].
  cbn [embed_stk map wc_pop wh_pop wc_meta wc_ctx]. rewrite str_eqb_refl, Bool.andb_true_r.
  destruct (Nat.eqb (lm_end m) line); [reflexivity|exact IH].
Qed.

(* on the states of the model (every entry carries the current context name): Flow.wh_pop *)
Theorem gen_pop_call_info_model : gen_pop_call_info_for_line_understood = true ->
  forall ctx line f,
    gen_pop_call_info_for_line line (wst_of ctx f)
    = (option_map (fun m => mkWC m ctx) (fst (wh_pop line (f_whstk f))),
       wst_of ctx (set_whstk (snd (wh_pop line (f_whstk f))) f)).
Proof.
  intros U ctx line f. rewrite (gen_pop_call_info_eq U).
  cbn [wst_of ws_ctx ws_cache ws_stk ws_end]. rewrite wc_pop_embed. reflexivity.
Qed.

(* ---- store_call_info --------------------------------------------------------------------------------------------- *)
Theorem gen_store_call_info_eq : gen_store_call_info_understood = true ->
  forall ci s, gen_store_call_info ci s = mkWS (ws_ctx s) (ws_cache s) (ci :: ws_stk s) (ws_end s).
Proof.
  unfold gen_store_call_info_understood; intros U; try discriminate U.
  all: clear U.
  all: intros ci s.
  all: reflexivity.
Qed.

Theorem gen_store_call_info_model : gen_store_call_info_understood = true ->
  forall ctx m f, gen_store_call_info (mkWC m ctx) (wst_of ctx f) = wst_of ctx (wh_push m f).
Proof. intros U ctx m f. rewrite (gen_store_call_info_eq U). reflexivity. Qed.

(* ---- WhileCommand::run ------------------------------------------------------------------------------------------- *)
(* the decision tree of the translation, with its callees replaced by the model's functions: the condition evaluator
   (an oracle of the translation) is asked on the state AFTER the meta info was cached and the end command registered and
   BEFORE the push; its answer on that one state is all the theorem assumes of it *)
Lemma gen_while_run_tree :
  gen_while_run_understood = true -> gen_get_or_create_while_meta_info_for_line_understood = true ->
  gen_get_line_key_understood = true -> gen_create_while_meta_info_for_line_understood = true ->
  gen_store_call_info_understood = true ->
  forall ctx P line f (A : Type) (arguments : list A) evalc, arguments <> [] ->
    gen_while_run A evalc gen_flow_package (cmds P) arguments line (wst_of ctx f)
    = match while_meta_info P line f with
      | (None, f1) => (GCrash match fst (gen_get_or_create_while_meta_info_for_line gen_flow_package (cmds P) line (wst_of ctx f))
                              with inl _ => [] | inr e => e end, wst_of ctx f1)
      | (Some m, f1) =>
        match evalc arguments (wst_of ctx f1) with
        | (inl true, s2) => (GContinue, mkWS (ws_ctx s2) (ws_cache s2) (mkWC m (ws_ctx s2) :: ws_stk s2) (ws_end s2))
        | (inl false, s2) => (GGoto (S (lm_end m)), s2)
        | (inr e, s2) => (GError e, s2)
        end
      end.
Proof.
  unfold gen_while_run_understood; intros U U1 U2 U3 U4; try discriminate U.
  all: clear U.
  all: intros ctx P line f A arguments evalc HA.
  all: destruct (gen_get_or_create_eq U1 U2 U3 ctx P line f) as [H1 H2].
  all: unfold gen_while_run.
  all: destruct arguments as [|a0 args]; [congruence|].
  all: cbv beta iota.
  all: destruct (gen_get_or_create_while_meta_info_for_line gen_flow_package (cmds P) line (wst_of ctx f)) as [r s1].
  all: cbn [fst snd] in H1, H2.
  all: destruct (while_meta_info P line f) as [o f1].
  all: cbn [fst snd] in H1, H2.
  all: subst s1.
  all: destruct r as [m|e]; cbn [res_opt] in H1; subst o; [|reflexivity].
  all: destruct (evalc (a0 :: args) (wst_of ctx f1)) as [[[|]|e] s2].
  all: rewrite ?(gen_store_call_info_eq U4), ?Nat.add_1_r.
  all: reflexivity.
Qed.

(* Flow.step_while (C04, and C05 through FlowFn.fstep): the evaluator answers with the model's eval_cond and leaves the
   flow-control state alone *)
Theorem gen_while_run_eq :
  gen_while_run_understood = true -> gen_get_or_create_while_meta_info_for_line_understood = true ->
  gen_get_line_key_understood = true -> gen_create_while_meta_info_for_line_understood = true ->
  gen_store_call_info_understood = true ->
  forall ctx P line c w f (A : Type) (arguments : list A) evalc, arguments <> [] ->
    (let f1 := snd (while_meta_info P line f) in
     evalc arguments (wst_of ctx f1) = (inl (fst (eval_cond c w)), wst_of ctx f1)) ->
    let g := gen_while_run A evalc gen_flow_package (cmds P) arguments line (wst_of ctx f) in
    let m := step_while P line c (w, f) in
    gres_kind (fst g) = cres_kind (fst m) /\ snd g = wst_of ctx (snd (snd m)).
Proof.
  intros U U1 U2 U3 U4 ctx P line c w f A arguments evalc HA HE.
  cbv zeta in *. rewrite (gen_while_run_tree U U1 U2 U3 U4 ctx P line f A arguments evalc HA).
  unfold step_while. destruct (while_meta_info P line f) as [[m|] f1]; cbn [fst snd] in *.
  - rewrite HE. destruct (eval_cond c w) as [[|] w1]; cbn [fst snd]; split; reflexivity.
  - split; reflexivity.
Qed.

(* FlowFnC.cstep_while (C05_sim_cond: conditions that call user functions), for EVERY evaluator ev of the model *)
Theorem gen_while_run_cstep :
  gen_while_run_understood = true -> gen_get_or_create_while_meta_info_for_line_understood = true ->
  gen_get_line_key_understood = true -> gen_create_while_meta_info_for_line_understood = true ->
  gen_store_call_info_understood = true ->
  forall ctx (ev : ev_t) P line c w f gs (A : Type) (arguments : list A) evalc msg, arguments <> [] ->
    (let f1 := snd (while_meta_info (map down P) line f) in
     evalc arguments (wst_of ctx f1)
     = match ev c (w, f1, gs) with
       | None => (inr msg, wst_of ctx f1)
       | Some (b, (_, f2, _)) => (inl b, wst_of ctx f2)
       end) ->
    let g := gen_while_run A evalc gen_flow_package (cmds (map down P)) arguments line (wst_of ctx f) in
    let m := cstep_while ev P line c (w, f, gs) in
    gres_kind (fst g) = cres_kind (fst m) /\ snd g = wst_of ctx (snd (fst (snd m))).
Proof.
  intros U U1 U2 U3 U4 ctx ev P line c w f gs A arguments evalc msg HA HE.
  cbv zeta in *. rewrite (gen_while_run_tree U U1 U2 U3 U4 ctx (map down P) line f A arguments evalc HA).
  unfold cstep_while. destruct (while_meta_info (map down P) line f) as [[m|] f1]; cbn [fst snd] in *.
  - rewrite HE. destruct (ev c (w, f1, gs)) as [[[|] [[w1 f2] g2]]|]; cbn [fst snd]; split; reflexivity.
  - split; reflexivity.
Qed.

(* ---- EndWhileCommand::run ---------------------------------------------------------------------------------------- *)
Theorem gen_endwhile_run_eq :
  gen_endwhile_run_understood = true -> gen_pop_call_info_for_line_understood = true ->
  gen_store_call_info_understood = true ->
  forall ctx line w f,
    let g := gen_endwhile_run line (wst_of ctx f) in
    let m := step_endwhile line (w, f) in
    gres_kind (fst g) = cres_kind (fst m) /\ snd g = wst_of ctx (snd (snd m)).
Proof.
  unfold gen_endwhile_run_understood; intros U U1 U2; try discriminate U.
  all: clear U.
  all: intros ctx line w f.
  all: cbv zeta.
  all: unfold gen_endwhile_run, step_endwhile.
  all: rewrite (gen_pop_call_info_model U1).
  all: destruct (wh_pop line (f_whstk f)) as [[m|] stk]; cbn [fst snd option_map].
  all: rewrite ?(gen_store_call_info_model U2).
  all: split; reflexivity.
Qed.

(* the same on every state, in terms of wc_pop: the entry that is re-pushed is the entry that was popped, the jump
   goes to its start line *)
Theorem gen_endwhile_run_all :
  gen_endwhile_run_understood = true -> gen_pop_call_info_for_line_understood = true ->
  gen_store_call_info_understood = true ->
  forall line s,
    let p := wc_pop line (ws_ctx s) (ws_stk s) in
    match fst p with
    | Some ci => gen_endwhile_run line s
                 = (GGoto (lm_start (wc_meta ci)), mkWS (ws_ctx s) (ws_cache s) (ci :: snd p) (ws_end s))
    | None => gres_kind (fst (gen_endwhile_run line s)) = KError /\
              snd (gen_endwhile_run line s) = mkWS (ws_ctx s) (ws_cache s) (snd p) (ws_end s)
    end.
Proof.
  unfold gen_endwhile_run_understood; intros U U1 U2; try discriminate U.
  all: clear U.
  all: intros line s.
  all: cbv zeta.
  all: unfold gen_endwhile_run.
  all: rewrite (gen_pop_call_info_eq U1).
  all: destruct (wc_pop line (ws_ctx s) (ws_stk s)) as [[ci|] stk]; cbn [fst snd].
  all: rewrite ?(gen_store_call_info_eq U2).
  all: try (split; reflexivity).
  all: reflexivity.
Qed.
