(* FindCmdsGenTie.v — `get_start`, `get_end`, `find_commands` of duckscript_sdk/src/utils/instruction_query.rs:
   the hand-written index-faithful model FlowScanIx.v (proved panic-free and equal to the suffix-style scanner
   models FlowScan.find_commands / FlowFn.find_commands_nr of C04 / C05 in FlowScanIxProof.v) is EQUAL, for all inputs,
   to the mechanical translation of the CURRENT Rust source (coq/generated/GenFindCmdsFn.v, rewritten on every run by
   lib/rs2v.py through lib/gen/findcmds_gen.py):

     gen_get_start_eq / gen_get_end_eq   = get_start_ix / get_end_ix
     gen_find_commands_body_eq           one iteration of `for line in start_index..end_index { .. }` = body_ix
     gen_find_commands_go_eq             the function body with the recursive call open = go_ix
     gen_find_commands_eq                with the recursion closed by fuel = find_commands_fuel, any profile, any fuel
     gen_find_commands_total / _checked_total / gen_find_commands_scan / _scan_nr
                                         hence the translation of the source itself never panics, never runs out of
                                         fuel with fuel = S (length), and computes FlowScan.find_commands
                                         (allow_recursive) / FlowFn.find_commands_nr (not) below 2^31 instructions

   Every theorem about a generated definition is stated under the flag [gen_find_commands_understood = true]; when the
   translator does not understand the functions any more the generated file holds [false] and stubs and the theorems
   hold vacuously (the check reports the tie as inactive).  Proofs that unfold a generated definition must also compile
   against the stub: their first sentence closes the goal by [discriminate] in that case, every later sentence is
   prefixed with [all:] (a no-op without goals), no bullets, no generated variable names.

   Proof method: both sides are decision trees over the same atoms (skip test, nth_error, the instruction type, the
   command option, the five membership tests, the sign test and the overflow outcome of block_delta, allow_recursive,
   the result of the recursive call).  [fc_tree] case-splits on whatever atom either tree scrutinises next and
   finishes every leaf by computation; the spelling of a test (`a >= b` / `b <= a`, operand order of `&&` / `||`,
   `x += 1` / `x = x + 1`, hoisted lets, merged or split arms) does not matter, any change of behaviour does. *)
Require Import DS.Base DS.Parser DS.FlowTables DS.FlowScan DS.CondIx DS.FlowScanIx DS.FlowScanIxProof.
Require DS.FlowFn.
Require Import DSG.GenFindCmdsFn.
Require Import Lia.
Open Scope nat_scope.

Local Arguments i32_result : simpl never.
Local Arguments str_in : simpl never.
Local Arguments nth_error : simpl never.
Local Arguments Nat.min : simpl never.

(* ---- the hand model depends on the loop body / the recursive call only pointwise ------------------------- *)
Lemma for_range_ext b1 b2 : (forall s l, b1 s l = b2 s l) ->
  forall n line s, for_range b1 n line s = for_range b2 n line s.
Proof.
  intros H. induction n as [|n IH]; intros line s; cbn [for_range]; [reflexivity|].
  rewrite H. destruct (b2 s line); [apply IH|reflexivity].
Qed.

Lemma body_ix_ext checked T rec rec' instrs allow E : (forall a b, rec a b = rec' a b) ->
  forall s l, body_ix checked T rec instrs allow E s l = body_ix checked T rec' instrs allow E s l.
Proof. intros H s l. unfold body_ix. now rewrite H. Qed.

Lemma go_ix_ext checked T rec rec' instrs allow start e : (forall a b, rec a b = rec' a b) ->
  go_ix checked T rec instrs allow start e = go_ix checked T rec' instrs allow start e.
Proof.
  intros H. unfold go_ix. now rewrite (for_range_ext _ _ (body_ix_ext checked T rec rec' instrs allow _ H)).
Qed.

(* ---- decision-tree equality ---------------------------------------------------------------------------- *)
Ltac fc_inner x :=
  lazymatch x with
  | context [match ?y with _ => _ end] => fc_inner y
  | negb ?y => fc_inner y
  | andb ?y _ => fc_inner y
  | orb ?y _ => fc_inner y
  | _ => x
  end.
Ltac fc_destruct y :=
  lazymatch y with
  | Z.eqb ?a ?b => destruct (Z.eqb_spec a b)
  | Z.ltb ?a ?b => destruct (Z.ltb_spec0 a b)
  | Z.leb ?a ?b => destruct (Z.leb_spec0 a b)
  | Nat.eqb ?a ?b => destruct (Nat.eqb_spec a b)
  | Nat.leb ?a ?b => destruct (Nat.leb_spec0 a b)
  | Nat.ltb ?a ?b => destruct (Nat.ltb_spec0 a b)
  | _ => tryif is_constructor y then fail "constructor" else destruct y eqn:?
  end.
Ltac fc_step :=
  match goal with
  | |- context [match ?x with _ => _ end] => let y := fc_inner x in fc_destruct y
  end.
Ltac fc_red := cbn [x_pos x_skip x_delta p_middle p_end negb andb orb get_start_ix get_end_ix xinit].
Ltac fc_kill := try discriminate; try congruence; try lia.
Ltac fc_leaf :=
  rewrite ?Nat.add_1_r, ?Nat.add_1_l;
  try reflexivity;
  repeat match goal with b : bool |- _ => destruct b end;
  try reflexivity; try congruence; try (f_equal; lia).
(* `1 + x` / `x + 1` on usize and i32 are the same operation *)
Ltac fc_norm :=
  rewrite ?Nat.add_1_r, ?Nat.add_1_l;
  repeat match goal with
         | |- context [(1 + ?x)%Z] => lazymatch x with 1%Z => fail | _ => rewrite (Z.add_comm 1 x) end
         end.
Ltac fc_tree := fc_norm; fc_red; repeat (fc_step; fc_red; fc_kill); fc_leaf.

(* ---- get_start, get_end -------------------------------------------------------------------------------------- *)
Lemma gen_get_start_eq : gen_find_commands_understood = true ->
  forall start, gen_get_start start = get_start_ix start.
Proof.
  unfold gen_find_commands_understood; intros U; try discriminate U; clear U.
  all: intros start; unfold gen_get_start, get_start_ix.
  all: fc_tree.
Qed.

Lemma gen_get_end_eq : gen_find_commands_understood = true ->
  forall e instructions, gen_get_end e instructions = get_end_ix e instructions.
Proof.
  unfold gen_find_commands_understood; intros U; try discriminate U; clear U.
  all: intros e instructions; unfold gen_get_end, get_end_ix.
  all: rewrite ?(Nat.min_comm (length instructions)).
  all: fc_tree.
Qed.

(* ---- find_commands ------------------------------------------------------------------------------------------- *)
Lemma gen_find_commands_body_eq : gen_find_commands_understood = true ->
  forall checked T rec instructions allow start e s line,
    gen_find_commands_body checked T rec instructions allow start e s line
    = body_ix checked T rec instructions allow (get_end_ix e instructions) s line.
Proof.
  intros U. pose proof (gen_get_start_eq U) as GS. pose proof (gen_get_end_eq U) as GE. revert U GS GE.
  unfold gen_find_commands_understood; intros U; try discriminate U; clear U.
  all: intros GS GE checked T rec instructions allow start e [[mid pe] sk d] line.
  all: unfold gen_find_commands_body, body_ix; rewrite ?GS, ?GE.
  all: generalize (get_end_ix e instructions); intros E.
  all: fc_tree.
Qed.

Lemma gen_find_commands_go_eq : gen_find_commands_understood = true ->
  forall checked T rec instructions allow start e,
    gen_find_commands_go checked T rec instructions allow start e
    = go_ix checked T rec instructions allow start e.
Proof.
  intros U checked T rec instructions allow start e.
  pose proof (gen_get_start_eq U) as GS. pose proof (gen_get_end_eq U) as GE.
  pose proof (for_range_ext _ _ (gen_find_commands_body_eq U checked T rec instructions allow start e)) as L.
  revert U GS GE L.
  unfold gen_find_commands_understood; intros U; try discriminate U; clear U.
  all: intros GS GE L; unfold gen_find_commands_go, go_ix; rewrite ?GS, ?GE, ?L; cbv zeta; unfold xinit.
  all: generalize (get_end_ix e instructions) (get_start_ix start); intros E S0.
  all: destruct (starts T) as [|s0 ss]; destruct (ends T) as [|e0 es]; cbn [orb andb negb]; try reflexivity.
  all: fc_tree.
Qed.

Theorem gen_find_commands_eq : gen_find_commands_understood = true ->
  forall checked T fuel instructions allow start e,
    gen_find_commands checked T fuel instructions allow start e
    = find_commands_fuel checked T fuel instructions allow start e.
Proof.
  intros U checked T fuel instructions allow. induction fuel as [|fuel IH]; intros start e; [reflexivity|].
  cbn [gen_find_commands find_commands_fuel]. rewrite (gen_find_commands_go_eq U).
  apply go_ix_ext. exact IH.
Qed.

(* as the SDK runs it *)
Theorem gen_find_commands_ix : gen_find_commands_understood = true ->
  forall checked T instructions allow start e,
    gen_find_commands checked T (S (length instructions)) instructions allow start e
    = find_commands_ix checked T instructions allow start e.
Proof. intros U checked T instructions allow start e. unfold find_commands_ix. now apply gen_find_commands_eq. Qed.

(* consequences for the translation of the source itself *)
Theorem gen_find_commands_total : gen_find_commands_understood = true ->
  forall T instructions allow start e,
    let r := gen_find_commands false T (S (length instructions)) instructions allow start e in
    r <> XPanic /\ r <> XFuel /\ r <> XOk None /\ r <> XErr XENestedNoEnd.
Proof. intros U T instructions allow start e. rewrite (gen_find_commands_ix U). apply find_commands_ix_total. Qed.

Theorem gen_find_commands_checked_total : gen_find_commands_understood = true ->
  forall T instructions allow start e, (Z.of_nat (length instructions) < 2147483648)%Z ->
    let r := gen_find_commands true T (S (length instructions)) instructions allow start e in
    r <> XPanic /\ r <> XFuel /\ r <> XOk None /\ r <> XErr XENestedNoEnd.
Proof. intros U T instructions allow start e Hb. rewrite (gen_find_commands_ix U). now apply find_commands_ix_checked_total. Qed.

Theorem gen_find_commands_scan : gen_find_commands_understood = true ->
  forall checked T instructions start, (Z.of_nat (length instructions) < 2147483648)%Z ->
    gen_find_commands checked T (S (length instructions)) instructions true (Some start) None
    = inject (find_commands T (map cmd_of instructions) start).
Proof. intros U checked T instructions start Hb. rewrite (gen_find_commands_ix U). now apply find_commands_ix_scan. Qed.

Theorem gen_find_commands_scan_nr : gen_find_commands_understood = true ->
  forall checked T instructions start, (Z.of_nat (length instructions) < 2147483648)%Z ->
    gen_find_commands checked T (S (length instructions)) instructions false (Some start) None
    = inject_nr (DS.FlowFn.find_commands_nr T (map cmd_of instructions) start).
Proof. intros U checked T instructions start Hb. rewrite (gen_find_commands_ix U). now apply find_commands_ix_scan_nr. Qed.
