(* StringsProof.v — C16 proofs, part 1: UTF-8 byte offsets, decimal numbers, find / rfind and the
   prefix / suffix tests, substring, and the unit-consistency theorem. *)
Require Import DS.Base DS.Utf8 DS.Strings.

(* ------------------------------------------------------------------------------------------- *)
(* UTF-8 byte lengths                                                                            *)

Lemma utf8_len_bounds c : 1 <= utf8_len c <= 4.
Proof.
  unfold utf8_len.
  destruct (c <? 128); [lia|]. destruct (c <? 2048); [lia|]. destruct (c <? 65536); lia.
Qed.

Lemma blen_app p q : blen (p ++ q) = blen p + blen q.
Proof. induction p as [|c p IH]; cbn [blen app]; [reflexivity|]. rewrite IH. lia. Qed.

Lemma blen_length s : N.of_nat (length s) <= blen s <= 4 * N.of_nat (length s).
Proof.
  induction s as [|c s IH]; cbn [blen length]; [lia|].
  pose proof (utf8_len_bounds c). lia.
Qed.

Lemma blen_zero s : blen s = 0 -> s = [].
Proof.
  destruct s as [|c s]; [reflexivity|]. cbn [blen]. pose proof (utf8_len_bounds c). lia.
Qed.

Lemma take_bytes_0 s : take_bytes s 0 = Some [].
Proof. destruct s; reflexivity. Qed.

Lemma take_bytes_cons c s k :
  k <> 0 ->
  take_bytes (c :: s) k =
    if utf8_len c <=? k then
      match take_bytes s (k - utf8_len c) with Some p => Some (c :: p) | None => None end
    else None.
Proof. intros H. cbn [take_bytes]. destruct (N.eqb_spec k 0); [contradiction|reflexivity]. Qed.

Lemma drop_bytes_0 s : drop_bytes s 0 = Some s.
Proof. destruct s; reflexivity. Qed.

Lemma drop_bytes_cons c s k :
  k <> 0 ->
  drop_bytes (c :: s) k = if utf8_len c <=? k then drop_bytes s (k - utf8_len c) else None.
Proof. intros H. cbn [drop_bytes]. destruct (N.eqb_spec k 0); [contradiction|reflexivity]. Qed.

Lemma take_bytes_sound s : forall k p,
  take_bytes s k = Some p -> exists q, s = p ++ q /\ blen p = k.
Proof.
  induction s as [|c s IH]; intros k p H.
  - cbn in H. destruct (N.eqb_spec k 0); [|discriminate]. inversion H. subst. exists []. split; reflexivity.
  - destruct (N.eq_dec k 0) as [->|Hk].
    + rewrite take_bytes_0 in H. inversion H. exists (c :: s). split; reflexivity.
    + rewrite take_bytes_cons in H by assumption.
      destruct (N.leb_spec (utf8_len c) k) as [Hle|]; [|discriminate].
      destruct (take_bytes s (k - utf8_len c)) as [p'|] eqn:E; [|discriminate].
      inversion H. subst p. destruct (IH _ _ E) as (q & -> & Hb).
      exists q. split; [reflexivity|]. cbn [blen]. lia.
Qed.

Lemma take_bytes_complete p : forall q, take_bytes (p ++ q) (blen p) = Some p.
Proof.
  induction p as [|c p IH]; intros q.
  - cbn [blen app]. apply take_bytes_0.
  - cbn [blen app]. pose proof (utf8_len_bounds c).
    rewrite take_bytes_cons by lia.
    destruct (N.leb_spec (utf8_len c) (utf8_len c + blen p)); [|lia].
    replace (utf8_len c + blen p - utf8_len c) with (blen p) by lia.
    rewrite IH. reflexivity.
Qed.

Lemma drop_bytes_sound s : forall k q,
  drop_bytes s k = Some q -> exists p, s = p ++ q /\ blen p = k.
Proof.
  induction s as [|c s IH]; intros k q H.
  - cbn in H. destruct (N.eqb_spec k 0); [|discriminate]. inversion H. subst. exists []. split; reflexivity.
  - destruct (N.eq_dec k 0) as [->|Hk].
    + rewrite drop_bytes_0 in H. inversion H. exists []. split; reflexivity.
    + rewrite drop_bytes_cons in H by assumption.
      destruct (N.leb_spec (utf8_len c) k) as [Hle|]; [|discriminate].
      destruct (IH _ _ H) as (p & -> & Hb).
      exists (c :: p). split; [reflexivity|]. cbn [blen]. lia.
Qed.

Lemma drop_bytes_complete p : forall q, drop_bytes (p ++ q) (blen p) = Some q.
Proof.
  induction p as [|c p IH]; intros q.
  - cbn [blen app]. apply drop_bytes_0.
  - cbn [blen app]. pose proof (utf8_len_bounds c).
    rewrite drop_bytes_cons by lia.
    destruct (N.leb_spec (utf8_len c) (utf8_len c + blen p)); [|lia].
    replace (utf8_len c + blen p - utf8_len c) with (blen p) by lia.
    apply IH.
Qed.

(* a byte offset is a char boundary iff it is the byte length of a prefix *)
Lemma is_boundary_spec s k : is_boundary s k = true <-> exists p q, s = p ++ q /\ blen p = k.
Proof.
  unfold is_boundary. split.
  - destruct (take_bytes s k) as [p|] eqn:E; [|discriminate]. intros _.
    destruct (take_bytes_sound _ _ _ E) as (q & ? & ?). eauto.
  - intros (p & q & -> & <-). rewrite take_bytes_complete. reflexivity.
Qed.

(* str::get(a..b) is Some exactly when a <= b are both char boundaries, and then it is the slice *)
Lemma slice_bytes_spec s a b m :
  slice_bytes s a b = Some m <->
  exists p q, s = p ++ m ++ q /\ blen p = a /\ blen (p ++ m) = b.
Proof.
  unfold slice_bytes. split.
  - destruct (N.leb_spec a b) as [Hab|]; [|discriminate].
    destruct (drop_bytes s a) as [r|] eqn:E; [|discriminate]. intros H.
    destruct (drop_bytes_sound _ _ _ E) as (p & -> & Hp).
    destruct (take_bytes_sound _ _ _ H) as (q & -> & Hm).
    exists p, q. split; [reflexivity|]. split; [assumption|]. rewrite blen_app. lia.
  - intros (p & q & -> & Hp & Hpm). rewrite blen_app in Hpm.
    destruct (N.leb_spec a b) as [Hab|]; [|lia].
    subst a. rewrite drop_bytes_complete.
    replace (b - blen p) with (blen m) by lia. apply take_bytes_complete.
Qed.

(* ------------------------------------------------------------------------------------------- *)
(* decimal numbers                                                                               *)

Fixpoint val_le (l : list N) : N :=
  match l with [] => 0 | d :: r => d + 10 * val_le r end.

Lemma digits_le_lt10 fuel : forall n, Forall (fun d => d < 10) (digits_le fuel n).
Proof.
  induction fuel as [|f IH]; intros n; cbn [digits_le]; [constructor|].
  destruct (N.ltb_spec n 10).
  - constructor; [assumption|constructor].
  - constructor; [apply N.mod_lt; lia|apply IH].
Qed.

Lemma digits_le_val fuel : forall n, n < 2 ^ N.of_nat fuel -> val_le (digits_le fuel n) = n.
Proof.
  induction fuel as [|f IH]; intros n Hn.
  - cbn in Hn. cbn. lia.
  - cbn [digits_le]. destruct (N.ltb_spec n 10) as [H10|H10].
    + cbn. lia.
    + cbn [val_le]. rewrite IH.
      * pose proof (N.div_mod n 10). lia.
      * rewrite Nat2N.inj_succ, N.pow_succ_r' in Hn.
        apply N.div_lt_upper_bound; [lia|].
        assert (0 < 2 ^ N.of_nat f) by (apply N.neq_0_lt_0, N.pow_nonzero; lia). lia.
Qed.

Lemma digits_le_nonempty f n : digits_le (S f) n <> [].
Proof. cbn [digits_le]. destruct (n <? 10); discriminate. Qed.

Lemma digits_val_acc_app s1 : forall s2 acc,
  digits_val_acc (s1 ++ s2) acc =
  match digits_val_acc s1 acc with Some a => digits_val_acc s2 a | None => None end.
Proof.
  induction s1 as [|c s1 IH]; intros s2 acc; cbn [app digits_val_acc]; [reflexivity|].
  destruct (is_digit c); [apply IH|reflexivity].
Qed.

Lemma digits_val_show_le l :
  Forall (fun d => d < 10) l ->
  digits_val (rev (map (fun d => 48 + d) l)) = Some (val_le l).
Proof.
  unfold digits_val. induction l as [|d r IH]; intros H; [reflexivity|].
  inversion H as [|? ? Hd Hr]. subst. cbn [map rev val_le].
  rewrite digits_val_acc_app, (IH Hr). cbn [digits_val_acc].
  unfold is_digit.
  destruct (N.leb_spec 48 (48 + d)); [|lia]. destruct (N.leb_spec (48 + d) 57); [|lia].
  cbn [andb]. f_equal. lia.
Qed.

Lemma size_bound n : n < 2 ^ N.of_nat (S (N.to_nat (N.size n))).
Proof.
  rewrite Nat2N.inj_succ, N2Nat.id, N.pow_succ_r'.
  pose proof (N.size_gt n). lia.
Qed.

Lemma show_N_fuel n : N.size_nat n = N.to_nat (N.size n).
Proof. destruct n as [|p]; [reflexivity|]. cbn. induction p; cbn; rewrite ?IHp, ?Pos2Nat.inj_succ; reflexivity. Qed.

Lemma digits_val_show_N n : digits_val (show_N n) = Some n.
Proof.
  unfold show_N. rewrite digits_val_show_le by apply digits_le_lt10.
  rewrite digits_le_val; [reflexivity|]. rewrite show_N_fuel. apply size_bound.
Qed.

Lemma show_N_digits n : Forall (fun c => is_digit c = true) (show_N n).
Proof.
  unfold show_N. apply Forall_rev, Forall_map.
  eapply Forall_impl; [|apply digits_le_lt10]. cbv beta. intros d Hd. unfold is_digit.
  destruct (N.leb_spec 48 (48 + d)); [|lia]. destruct (N.leb_spec (48 + d) 57); [reflexivity|lia].
Qed.

Lemma show_N_nonempty n : show_N n <> [].
Proof.
  unfold show_N. intros H. apply (f_equal (@rev _)) in H. rewrite rev_involutive in H. cbn in H.
  apply map_eq_nil in H. exact (digits_le_nonempty _ _ H).
Qed.

Lemma parse_int_show_N lo hi n :
  (lo <= Z.of_N n <= hi)%Z -> parse_int lo hi (show_N n) = Some (Z.of_N n).
Proof.
  intros Hr. pose proof (show_N_digits n) as Hd. pose proof (show_N_nonempty n) as Hne.
  pose proof (digits_val_show_N n) as Hv.
  destruct (show_N n) as [|c r] eqn:E; [contradiction|].
  inversion Hd as [|? ? Hc _]. subst. unfold is_digit in Hc.
  apply andb_prop in Hc. destruct Hc as [Hc1 Hc2]. apply N.leb_le in Hc1.
  unfold parse_int.
  destruct (N.eqb_spec c 45); [lia|]. destruct (N.eqb_spec c 43); [lia|]. cbn [orb].
  rewrite Hv.
  destruct (Z.leb_spec lo (Z.of_N n)); [|lia]. destruct (Z.leb_spec (Z.of_N n) hi); [|lia].
  reflexivity.
Qed.

(* to_string followed by parse gives the number back, for every value of the integer type *)
Lemma parse_int_show_Z lo hi z :
  (lo <= z <= hi)%Z -> parse_int lo hi (show_Z z) = Some z.
Proof.
  intros Hr. destruct z as [|p|p]; cbn [show_Z].
  - apply (parse_int_show_N lo hi 0). exact Hr.
  - apply (parse_int_show_N lo hi (Npos p)). exact Hr.
  - pose proof (show_N_nonempty (Npos p)) as Hne. pose proof (digits_val_show_N (Npos p)) as Hv.
    unfold parse_int. cbn [N.eqb Pos.eqb orb].
    destruct (show_N (Npos p)) as [|c r] eqn:E; [contradiction|].
    rewrite Hv. cbn [Z.of_N Z.opp].
    destruct (Z.leb_spec lo (Zneg p)); [|lia]. destruct (Z.leb_spec (Zneg p) hi); [|lia].
    reflexivity.
Qed.

Lemma parse_int_range lo hi s z : parse_int lo hi s = Some z -> (lo <= z <= hi)%Z.
Proof.
  unfold parse_int. destruct s as [|c r]; [discriminate|].
  destruct (if (c =? 45) || (c =? 43) then r else c :: r) as [|x ds]; [discriminate|].
  destruct (digits_val (x :: ds)) as [n|]; [|discriminate].
  set (v := if c =? 45 then (- Z.of_N n)%Z else Z.of_N n).
  destruct (Z.leb_spec lo v); [|discriminate]. destruct (Z.leb_spec v hi); [|discriminate].
  cbn [andb]. intros X. inversion X. subst. lia.
Qed.

(* ------------------------------------------------------------------------------------------- *)
(* prefix, find, rfind                                                                           *)

Lemma is_prefix_spec t : forall s, is_prefix t s = true <-> exists q, s = t ++ q.
Proof.
  induction t as [|x t IH]; intros s.
  - cbn. split; [intros _; exists s; reflexivity|reflexivity].
  - destruct s as [|y s]; cbn [is_prefix].
    + split; [discriminate|]. intros (q & H). discriminate.
    + rewrite andb_true_iff, N.eqb_eq, IH. split.
      * intros (-> & q & ->). exists q. reflexivity.
      * intros (q & H). inversion H. split; [reflexivity|]. exists q. reflexivity.
Qed.

Lemma is_prefix_nil_r t : is_prefix t [] = true <-> t = [].
Proof. destruct t; cbn; split; congruence. Qed.

Lemma app_same_length {A} (p p' : list A) : forall x y,
  p ++ x = p' ++ y -> length p = length p' -> p = p' /\ x = y.
Proof.
  revert p'. induction p as [|a p IH]; intros [|a' p'] x y H L; try discriminate.
  - split; [reflexivity|exact H].
  - cbn in H. inversion H. subst. injection L as L. destruct (IH _ _ _ H2 L). subst. split; reflexivity.
Qed.

Definition occurs (s t p q : str) : Prop := s = p ++ t ++ q.

Lemma find_some s t : forall i,
  find s t = Some i ->
  exists p q, occurs s t p q /\ blen p = i /\
              forall p' q', occurs s t p' q' -> (length p <= length p')%nat.
Proof.
  unfold occurs. induction s as [|c s IH]; intros i H.
  - cbn [find] in H. destruct (is_prefix t []) eqn:E; [|discriminate].
    apply is_prefix_nil_r in E. subst t. inversion H.
    exists [], []. split; [reflexivity|]. split; [reflexivity|]. intros. cbn. lia.
  - cbn [find] in H. destruct (is_prefix t (c :: s)) eqn:E.
    + inversion H. apply is_prefix_spec in E. destruct E as (q & E).
      exists [], q. split; [exact E|]. split; [reflexivity|]. intros. cbn. lia.
    + destruct (find s t) as [i'|] eqn:F; [|discriminate]. inversion H.
      destruct (IH _ eq_refl) as (p & q & -> & Hb & Hmin).
      exists (c :: p), q. split; [reflexivity|]. split; [cbn [blen]; lia|].
      intros p' q' Ho. destruct p' as [|c' p'].
      * cbn [app] in Ho. assert (is_prefix t (c :: p ++ t ++ q) = true) as X
          by (apply is_prefix_spec; exists q'; exact Ho). congruence.
      * cbn [app] in Ho. inversion Ho. cbn [length]. apply le_n_S. eapply Hmin. eassumption.
Qed.

Lemma find_none s t : find s t = None -> forall p q, ~ occurs s t p q.
Proof.
  unfold occurs. induction s as [|c s IH]; intros H p q Ho.
  - cbn [find] in H. destruct (is_prefix t []) eqn:E; [discriminate|].
    destruct p; [|discriminate]. destruct t; [discriminate|discriminate].
  - cbn [find] in H. destruct (is_prefix t (c :: s)) eqn:E; [discriminate|].
    destruct (find s t) eqn:F; [discriminate|].
    destruct p as [|c' p].
    + assert (is_prefix t (c :: s) = true) as X by (apply is_prefix_spec; exists q; exact Ho). congruence.
    + cbn [app] in Ho. inversion Ho. eapply IH; [reflexivity|eassumption].
Qed.

Lemma find_spec s t i :
  find s t = Some i <->
  exists p q, occurs s t p q /\ blen p = i /\
              forall p' q', occurs s t p' q' -> (length p <= length p')%nat.
Proof.
  split; [apply find_some|].
  intros (p & q & Ho & Hb & Hmin).
  destruct (find s t) as [j|] eqn:F.
  - destruct (find_some _ _ _ F) as (p0 & q0 & Ho0 & Hb0 & Hmin0).
    pose proof (Hmin _ _ Ho0). pose proof (Hmin0 _ _ Ho).
    unfold occurs in Ho, Ho0. rewrite Ho in Ho0.
    destruct (app_same_length _ _ _ _ Ho0 ltac:(lia)) as [-> _]. congruence.
  - exfalso. exact (find_none _ _ F _ _ Ho).
Qed.

Lemma find_none_spec s t : find s t = None <-> forall p q, ~ occurs s t p q.
Proof.
  split; [apply find_none|]. intros H.
  destruct (find s t) as [i|] eqn:F; [|reflexivity].
  destruct (find_some _ _ _ F) as (p & q & Ho & _). exfalso. exact (H _ _ Ho).
Qed.

Lemma rfind_none s t : rfind s t = None -> forall p q, ~ occurs s t p q.
Proof.
  unfold occurs. induction s as [|c s IH]; intros H p q Ho.
  - cbn [rfind] in H. destruct (is_prefix t []) eqn:E; [discriminate|].
    destruct p; [|discriminate]. destruct t; discriminate.
  - cbn [rfind] in H. destruct (rfind s t) eqn:F; [discriminate|].
    destruct (is_prefix t (c :: s)) eqn:E; [discriminate|].
    destruct p as [|c' p].
    + assert (is_prefix t (c :: s) = true) as X by (apply is_prefix_spec; exists q; exact Ho). congruence.
    + cbn [app] in Ho. inversion Ho. eapply IH; [reflexivity|eassumption].
Qed.

Lemma rfind_some s t : forall i,
  rfind s t = Some i ->
  exists p q, occurs s t p q /\ blen p = i /\
              forall p' q', occurs s t p' q' -> (length p' <= length p)%nat.
Proof.
  unfold occurs. induction s as [|c s IH]; intros i H.
  - cbn [rfind] in H. destruct (is_prefix t []) eqn:E; [|discriminate].
    apply is_prefix_nil_r in E. subst t. inversion H.
    exists [], []. split; [reflexivity|]. split; [reflexivity|].
    intros p' q' Ho. destruct p'; [cbn; lia|discriminate].
  - cbn [rfind] in H. destruct (rfind s t) as [i'|] eqn:F.
    + inversion H. destruct (IH _ eq_refl) as (p & q & -> & Hb & Hmax).
      exists (c :: p), q. split; [reflexivity|]. split; [cbn [blen]; lia|].
      intros p' q' Ho. destruct p' as [|c' p']; [cbn; lia|].
      cbn [app] in Ho. inversion Ho. cbn [length]. apply le_n_S. eapply Hmax. eassumption.
    + destruct (is_prefix t (c :: s)) eqn:E; [|discriminate]. inversion H.
      apply is_prefix_spec in E. destruct E as (q & E).
      exists [], q. split; [exact E|]. split; [reflexivity|].
      intros p' q' Ho. destruct p' as [|c' p']; [cbn; lia|].
      cbn [app] in Ho. injection Ho as _ Ho'. exfalso. exact (rfind_none _ _ F _ _ Ho').
Qed.


Lemma rfind_spec s t i :
  rfind s t = Some i <->
  exists p q, occurs s t p q /\ blen p = i /\
              forall p' q', occurs s t p' q' -> (length p' <= length p)%nat.
Proof.
  split; [apply rfind_some|].
  intros (p & q & Ho & Hb & Hmax).
  destruct (rfind s t) as [j|] eqn:F.
  - destruct (rfind_some _ _ _ F) as (p0 & q0 & Ho0 & Hb0 & Hmax0).
    pose proof (Hmax _ _ Ho0). pose proof (Hmax0 _ _ Ho).
    unfold occurs in Ho, Ho0. rewrite Ho in Ho0.
    destruct (app_same_length _ _ _ _ Ho0 ltac:(lia)) as [-> _]. congruence.
  - exfalso. exact (rfind_none _ _ F _ _ Ho).
Qed.

Lemma rfind_none_spec s t : rfind s t = None <-> forall p q, ~ occurs s t p q.
Proof.
  split; [apply rfind_none|]. intros H.
  destruct (rfind s t) as [i|] eqn:F; [|reflexivity].
  destruct (rfind_some _ _ _ F) as (p & q & Ho & _). exfalso. exact (H _ _ Ho).
Qed.

Lemma contains_spec s t : contains s t = true <-> exists p q, s = p ++ t ++ q.
Proof.
  unfold contains. destruct (find s t) as [i|] eqn:F.
  - destruct (find_some _ _ _ F) as (p & q & Ho & _). split; [eauto|reflexivity].
  - split; [discriminate|]. intros (p & q & Ho). exfalso. exact (find_none _ _ F _ _ Ho).
Qed.

Lemma starts_with_spec s t : starts_with s t = true <-> exists q, s = t ++ q.
Proof. apply is_prefix_spec. Qed.

Lemma ends_with_spec s t : ends_with s t = true <-> exists p, s = p ++ t.
Proof.
  unfold ends_with. rewrite is_prefix_spec. split.
  - intros (q & H). exists (rev q). apply (f_equal (@rev _)) in H.
    rewrite rev_involutive, rev_app_distr, rev_involutive in H. exact H.
  - intros (p & ->). exists (rev p). apply rev_app_distr.
Qed.

(* ------------------------------------------------------------------------------------------- *)
(* substring                                                                                     *)

Lemma sub_finish_spec s st en m :
  (0 <= st)%Z -> (0 <= en)%Z ->
  (sub_finish s st en = RVal m <->
   exists p q, s = p ++ m ++ q /\ Z.of_N (blen p) = st /\ Z.of_N (blen (p ++ m)) = en).
Proof.
  intros H1 H2. unfold sub_finish.
  destruct (Z.ltb_spec st 0); [lia|]. destruct (Z.ltb_spec en 0); [lia|].
  destruct (slice_bytes s (Z.to_N st) (Z.to_N en)) as [m'|] eqn:E.
  - apply slice_bytes_spec in E. destruct E as (p & q & Hs & Hp & Hpm). split.
    + intros X. inversion X. subst m'. exists p, q. repeat split; [assumption|lia|lia].
    + intros (p' & q' & Hs' & Hp' & Hpm').
      assert (slice_bytes s (Z.to_N st) (Z.to_N en) = Some m) as X.
      { apply slice_bytes_spec. exists p', q'. repeat split; [assumption|lia|lia]. }
      assert (slice_bytes s (Z.to_N st) (Z.to_N en) = Some m') as Y.
      { apply slice_bytes_spec. exists p, q. repeat split; assumption. }
      congruence.
  - split; [discriminate|]. intros (p' & q' & Hs' & Hp' & Hpm').
    assert (slice_bytes s (Z.to_N st) (Z.to_N en) = Some m) as X.
    { apply slice_bytes_spec. exists p', q'. repeat split; [assumption|lia|lia]. }
    congruence.
Qed.

Lemma sub_finish_total s st en :
  (0 <= st)%Z -> (0 <= en)%Z ->
  (exists m, sub_finish s st en = RVal m) \/ sub_finish s st en = RErr 10.
Proof.
  intros H1 H2. unfold sub_finish.
  destruct (Z.ltb_spec st 0); [lia|]. destruct (Z.ltb_spec en 0); [lia|].
  destruct (slice_bytes s (Z.to_N st) (Z.to_N en)); [left; eauto|right; reflexivity].
Qed.

(* three-argument form: Ok exactly on 0 <= a <= b <= len - 1 with both offsets on char boundaries,
   and then the result is the byte slice [a, b) *)
Lemma substring3_spec s a b m :
  substring3 s a b = RVal m <->
  (0 <= a <= b)%Z /\ (b <= Z.of_N (blen s) - 1)%Z /\
  exists p q, s = p ++ m ++ q /\ Z.of_N (blen p) = a /\ Z.of_N (blen (p ++ m)) = b.
Proof.
  unfold substring3.
  destruct (Z.ltb_spec a 0); [split; [discriminate|lia]|].
  destruct (Z.ltb_spec (Z.of_N (blen s) - 1) a); [split; [discriminate|lia]|].
  destruct (Z.leb_spec a b); [|split; [discriminate|lia]].
  destruct (Z.ltb_spec (Z.of_N (blen s) - 1) b); [split; [discriminate|lia]|].
  rewrite sub_finish_spec by lia. split.
  - intros X. repeat split; try lia. exact X.
  - intros (_ & _ & X). exact X.
Qed.

Lemma substring3_total s a b :
  (exists m, substring3 s a b = RVal m) \/ (exists k, substring3 s a b = RErr k).
Proof.
  unfold substring3.
  destruct (Z.ltb_spec a 0); [right; eauto|].
  destruct (Z.ltb_spec (Z.of_N (blen s) - 1) a); [right; eauto|].
  destruct (Z.leb_spec a b); [|right; eauto].
  destruct (Z.ltb_spec (Z.of_N (blen s) - 1) b); [right; eauto|].
  destruct (sub_finish_total s a b) as [? | ->]; [lia|lia|left; assumption|right; eauto].
Qed.

Lemma substring1_spec s : substring1 s = RVal s.
Proof.
  unfold substring1. apply sub_finish_spec; [lia|lia|].
  exists [], []. rewrite app_nil_r. cbn [app blen]. split; [reflexivity|]. split; reflexivity.
Qed.

(* two-argument form: a non-negative v is a start offset (at most len - 1), a negative v counts
   bytes from the end *)
Lemma substring2_spec s v m :
  substring2 s v = RVal m <->
  ((0 <= v <= Z.of_N (blen s) - 1)%Z /\ exists p, s = p ++ m /\ Z.of_N (blen p) = v) \/
  ((v < 0)%Z /\ exists q, s = m ++ q /\ Z.of_N (blen q) = (- v)%Z).
Proof.
  unfold substring2. destruct (Z.leb_spec 0 v).
  - destruct (Z.ltb_spec (Z.of_N (blen s) - 1) v).
    + split; [discriminate|]. intros [(? & _)|(? & _)]; lia.
    + rewrite sub_finish_spec by lia. split.
      * intros (p & q & Hs & Hp & Hpm). left. split; [lia|].
        assert (q = []) as ->.
        { apply blen_zero. subst s. rewrite !blen_app in *. lia. }
        rewrite app_nil_r in Hs. eauto.
      * intros [(_ & p & Hs & Hp)|(? & _)]; [|lia].
        exists p, []. rewrite app_nil_r. subst s. repeat split; assumption.
  - destruct (Z.ltb_spec (Z.of_N (blen s) + v) 0).
    + split; [discriminate|]. intros [(? & _)|(_ & q & Hs & Hq)]; [lia|].
      subst s. rewrite blen_app in *. lia.
    + rewrite sub_finish_spec by lia. split.
      * intros (p & q & Hs & Hp & Hpm). right. split; [lia|].
        assert (p = []) as -> by (apply blen_zero; lia).
        cbn [app] in *. exists q. split; [assumption|]. subst s. rewrite blen_app in *. lia.
      * intros [(? & _)|(_ & q & Hs & Hq)]; [lia|].
        exists [], q. cbn [app blen]. subst s. rewrite blen_app in *. repeat split; lia.
Qed.

Lemma substring2_total s v :
  (exists m, substring2 s v = RVal m) \/ (exists k, substring2 s v = RErr k).
Proof.
  unfold substring2. destruct (Z.leb_spec 0 v).
  - destruct (Z.ltb_spec (Z.of_N (blen s) - 1) v); [right; eauto|].
    destruct (sub_finish_total s v (Z.of_N (blen s))) as [? | ->]; [lia|lia|left; assumption|right; eauto].
  - destruct (Z.ltb_spec (Z.of_N (blen s) + v) 0); [right; eauto|].
    destruct (sub_finish_total s 0 (Z.of_N (blen s) + v)) as [? | ->]; [lia|lia|left; assumption|right; eauto].
Qed.

(* the command never unwinds and never leaves the modelled domain, whatever the arguments *)
Lemma cmd_substring_total args :
  (exists m, cmd_substring args = RVal m) \/ (exists k, cmd_substring args = RErr k).
Proof.
  unfold cmd_substring.
  destruct args as [|s [|a [|b rest]]].
  - right; eauto.
  - left. rewrite substring1_spec. eauto.
  - destruct (parse_isize a); [apply substring2_total|right; eauto].
  - destruct (parse_isize a) as [st|]; [|right; eauto].
    destruct (st <? 0)%Z; [right; eauto|].
    destruct (Z.of_N (blen s) - 1 <? st)%Z; [right; eauto|].
    destruct (parse_isize b); [apply substring3_total|right; eauto].
Qed.

(* the command-level three-argument form is substring3 on the parsed numbers *)
Lemma cmd_substring3 s a b rest st en :
  parse_isize a = Some st -> parse_isize b = Some en ->
  cmd_substring (s :: a :: b :: rest) = substring3 s st en.
Proof.
  intros Ha Hb. unfold cmd_substring. rewrite Ha, Hb. unfold substring3.
  destruct (st <? 0)%Z; [reflexivity|]. destruct (Z.of_N (blen s) - 1 <? st)%Z; reflexivity.
Qed.

(* ------------------------------------------------------------------------------------------- *)
(* units: indexof and substring count in the same unit                                           *)

Lemma units s t i :
  find s t = Some i -> s <> [] ->
  exists p, substring3 s 0 (Z.of_N i) = RVal p /\ is_prefix (p ++ t) s = true.
Proof.
  intros F Hs. destruct (find_some _ _ _ F) as (p & q & Ho & Hb & Hmin). unfold occurs in Ho.
  exists p. split.
  - apply substring3_spec. split; [lia|]. split.
    + assert (t ++ q <> []) as Hne.
      { intros E. apply app_eq_nil in E. destruct E as [-> ->].
        pose proof (Hmin [] s) as X. unfold occurs in X. specialize (X eq_refl).
        destruct p; [|cbn in X; lia]. cbn in Ho. contradiction. }
      subst s. rewrite blen_app.
      destruct (t ++ q) as [|c r] eqn:E; [contradiction|].
      cbn [blen]. pose proof (utf8_len_bounds c). lia.
    + exists [], (t ++ q). cbn [app blen]. split; [exact Ho|]. split; [reflexivity|lia].
  - apply is_prefix_spec. exists q. rewrite <- app_assoc. exact Ho.
Qed.

(* the same on the commands' own argument forms: the text printed by indexof, given back to
   substring as its end index with start index "0".  [blen s <= isize::MAX] is Rust's allocation
   invariant (without it the printed index need not parse as an isize). *)
Lemma units_cmd s t rest istr :
  cmd_indexof (s :: t :: rest) = RVal istr -> s <> [] -> (Z.of_N (blen s) <= i64_max)%Z ->
  exists p, cmd_substring [s; [48]; istr] = RVal p /\ is_prefix (p ++ t) s = true.
Proof.
  intros H Hs Hmax. unfold cmd_indexof, of_index in H.
  destruct (find s t) as [i|] eqn:F; [|discriminate]. injection H as <-.
  destruct (units _ _ _ F Hs) as (p & Hp & Hpre).
  exists p. split; [|exact Hpre].
  assert (parse_isize (show_N i) = Some (Z.of_N i)) as Hparse.
  2:{ exact (eq_trans (cmd_substring3 s [48] (show_N i) [] 0%Z (Z.of_N i) eq_refl Hparse) Hp). }
  apply parse_int_show_N.
  destruct (find_some _ _ _ F) as (p0 & q0 & Ho & Hb & _). unfold occurs in Ho.
  subst s. rewrite blen_app in Hmax. unfold i64_min. lia.
Qed.
