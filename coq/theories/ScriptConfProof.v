(* ScriptConfProof.v — obligation on the regenerated scripts: every script-implemented command of
   the SDK passes the syntactic confinement check (re-proved by computation on every run). *)
Require Import DS.Base DS.Parser DS.ScriptConf.
Require DSG.GenScripts.

Lemma scripts_confined : all_scripts_confined = true.
Proof. vm_compute. reflexivity. Qed.

(* each script parses (the wrapper parses it at registration) *)
Lemma scripts_parse : forallb (fun s => match parse_text (DSG.GenScripts.sc_text s) with TOk _ => true | _ => false end)
                               DSG.GenScripts.gen_scripts = true.
Proof. vm_compute. reflexivity. Qed.

Lemma scripts_nonempty : (5 <=? length DSG.GenScripts.gen_scripts)%nat = true.
Proof. vm_compute. reflexivity. Qed.
